(* C11 — the option processors implement exactly the value-level policies of Model/FsmOpts.v, for
   every option list (byte level through parse_opts / ser_opts), in every state. *)
From Coq Require Import ZArith NArith List Bool Lia ZifyN ZifyNat ZifyBool.
From Verif Require Import Base.Word Model.Fsm Model.Lcp Model.Ipcp Model.Ipv6cp Model.FsmSpec Model.FsmCheck
                          Model.FsmOpts Proofs.FsmProofs.
Import ListNotations.
Local Open Scope N_scope.

Lemma filter_ext' {A} (g h : A -> bool) (l : list A) : (forall a, g a = h a) -> filter g l = filter h l.
Proof. intros E. induction l as [|a tl IH]; cbn; [reflexivity|]. rewrite E, IH. reflexivity. Qed.

Lemma bytes_eqb_refl (a : list N) : bytes_eqb a a = true.
Proof. apply bytes_eqb_eq. reflexivity. Qed.

Lemma nonempty_filter {A} (g : A -> bool) (l : list A) : nonempty (filter g l) = existsb g l.
Proof. induction l as [|a tl IH]; cbn; [reflexivity|]. destruct (g a); cbn; [reflexivity|exact IH]. Qed.

(* ---------------------------------------------------------------------- generic: classify against a three-way policy *)
Section Exact.
  Context {X : Type}.
  Variable f : X -> opt -> X * verdict.
  Variables acc off rej : X -> opt -> bool.
  Variable sug : X -> opt -> opt -> bool.
  (* soundness of each verdict; Ack and Reject leave the option state alone *)
  Hypothesis Hf : forall x o,
    match snd (f x o) with
    | VAck => acc x o = true /\ fst (f x o) = x
    | VRej => rej x o = true /\ fst (f x o) = x
    | VNak o' => off x o = true /\ sug x o o' = true
    end.
  (* the three predicates partition the options *)
  Hypothesis Hpart : forall x o,
    (acc x o = true /\ off x o = false /\ rej x o = false) \/
    (acc x o = false /\ off x o = true /\ rej x o = false) \/
    (acc x o = false /\ off x o = false /\ rej x o = true).
  (* whether an option is rejectable does not depend on what a collision regenerates *)
  Hypothesis Hrej_inv : forall x o o2, rej (fst (f x o)) o2 = rej x o2.

  Lemma verdict_ack x o : acc x o = true -> snd (f x o) = VAck /\ fst (f x o) = x.
  Proof.
    intros Ha. pose proof (Hf x o) as H. destruct (Hpart x o) as [(A & O & R)|[(A & O & R)|(A & O & R)]]; try congruence.
    destruct (snd (f x o)) as [|o'|]; [split; [reflexivity|apply H]| |]; destruct H as [H1 _]; congruence.
  Qed.

  Lemma classify_exact opts : forall x x' ack nak rj,
    classify f x opts = (x', (ack, nak, rj)) ->
    rj = filter (rej x) opts /\
    Forall2 (fun xo o' => sug (fst xo) (snd xo) o' = true) (offenders f off x opts) nak.
  Proof.
    induction opts as [|o tl IH]; intros x x' ack nak rj H; cbn in H.
    - inversion H. split; [reflexivity|constructor].
    - pose proof (Hf x o) as Hv. pose proof (Hrej_inv x o) as Hri.
      destruct (f x o) as [x1 v] eqn:Ef. cbn [fst snd] in Hv, Hri.
      destruct (classify f x1 tl) as [x2 [[a n] r]] eqn:E.
      destruct (IH _ _ _ _ _ E) as [Hr Hn].
      rewrite (filter_ext' _ _ tl (Hri)) in Hr.
      cbn [offenders filter]. rewrite Ef. cbn [fst].
      destruct (Hpart x o) as [(A & O & R)|[(A & O & R)|(A & O & R)]]; rewrite O, R;
        destruct v as [|o'|]; destruct Hv as [Hv1 Hv2]; try congruence; inversion H; subst; cbn [app].
      + split; [reflexivity|exact Hn].
      + split; [reflexivity|constructor; [exact Hv2|exact Hn]].
      + split; [reflexivity|exact Hn].
  Qed.

  Lemma classify_all_acc opts : forall x,
    forallb (acc x) opts = true -> classify f x opts = (x, (opts, [], [])).
  Proof.
    induction opts as [|o tl IH]; intros x H; cbn in H |- *; [reflexivity|].
    apply andb_prop in H as [Ho Ht]. destruct (verdict_ack x o Ho) as [Hv Hx].
    destruct (f x o) as [x1 v]. cbn [fst snd] in Hv, Hx. subst x1 v. rewrite (IH x Ht). reflexivity.
  Qed.

  Lemma classify_ack_only opts : forall x x' ack,
    classify f x opts = (x', (ack, [], [])) -> forallb (acc x) opts = true.
  Proof.
    induction opts as [|o tl IH]; intros x x' ack H; cbn in H |- *; [reflexivity|].
    pose proof (Hf x o) as Hv.
    destruct (f x o) as [x1 v] eqn:Ef. cbn [fst snd] in Hv.
    destruct (classify f x1 tl) as [x2 [[a n] r]] eqn:E.
    destruct v as [|o'|]; inversion H; subst.
    destruct Hv as [Ha Hx]. subst x1. rewrite Ha. cbn. eapply IH. exact E.
  Qed.

  (* the reply code as a function of the policy alone *)
  Lemma code_exact opts x x' ack nak rj :
    classify f x opts = (x', (ack, nak, rj)) ->
    resp_code nak rj = (if existsb (rej x) opts then 4 else if forallb (acc x) opts then 2 else 3) /\
    (existsb (rej x) opts = false -> forallb (acc x) opts = true -> x' = x /\ ack = opts).
  Proof.
    intros H. destruct (classify_exact opts _ _ _ _ _ H) as [Hr _].
    assert (Hne : nonempty rj = existsb (rej x) opts) by (rewrite Hr; apply nonempty_filter).
    clear Hr. unfold resp_code. rewrite Hne.
    destruct (existsb (rej x) opts) eqn:Er.
    - split; [reflexivity|discriminate].
    - destruct rj as [|r0 rt]; [|discriminate]. destruct (forallb (acc x) opts) eqn:Ea.
      + rewrite (classify_all_acc opts x Ea) in H. inversion H; subst. cbn. split; [reflexivity|intros _ _; split; reflexivity].
      + destruct nak as [|n0 nk].
        * rewrite (classify_ack_only opts _ _ _ H) in Ea. discriminate.
        * cbn. split; [reflexivity|discriminate].
  Qed.

  (* ------------------------------------------------------------------ at the level of the automaton *)
  Variable P : procs X.
  Hypothesis Hcr : forall x opts, fst (pr_cr P x opts) = classify f x opts.

  Definition all_ok (x : X) (opts : list opt) : bool := negb (existsb (rej x) opts) && forallb (acc x) opts.

  Theorem reply_exact s d i data opts :
    parse_pkt d = Some (1, i, data) -> parse_opts data = Some opts ->
    exists p rest, sent P s (ERecv d) = p :: rest /\ pi p = i /\
      forallb (fun q => negb (in_range 2 (pc q) 4)) rest = true /\
      (if existsb (rej (f_x s)) opts then pc p = 4 /\ pd p = ser_opts (filter (rej (f_x s)) opts)
       else if forallb (acc (f_x s)) opts then pc p = 2 /\ pd p = ser_opts opts
       else pc p = 3 /\ exists l, l <> [] /\ pd p = ser_opts l /\
            Forall2 (fun xo o' => sug (fst xo) (snd xo) o' = true) (offenders f off (f_x s) opts) l).
  Proof.
    intros Ep Eo.
    destruct (pr_cr P (f_x s) opts) as [[x' [[ack nak] rj]] mk] eqn:Ec.
    assert (Ecl : classify f (f_x s) opts = (x', (ack, nak, rj))) by (rewrite <- Hcr, Ec; reflexivity).
    destruct (rcr_sent P s d i data opts x' ack nak rj mk Ep Eo Ec) as [rest [Es Hrest]].
    exists (packet (resp_code nak rj) i (ser_opts (resp_opts ack nak rj))), rest.
    split; [exact Es|]. split; [reflexivity|]. split; [exact Hrest|].
    destruct (classify_exact opts _ _ _ _ _ Ecl) as [Hr Hn].
    destruct (code_exact opts _ _ _ _ _ Ecl) as [Hc Hk].
    assert (Hne : nonempty rj = existsb (rej (f_x s)) opts) by (rewrite Hr; apply nonempty_filter).
    cbn [pc pd packet]. rewrite Hc. unfold resp_opts. rewrite Hne.
    destruct (existsb (rej (f_x s)) opts) eqn:Er.
    - split; [reflexivity|]. rewrite Hr. reflexivity.
    - destruct rj as [|r0 rt]; [|discriminate].
      destruct (forallb (acc (f_x s)) opts) eqn:Ea.
      + rewrite (classify_all_acc opts _ Ea) in Ecl. inversion Ecl; subst. cbn. split; reflexivity.
      + destruct nak as [|n0 nk].
        * rewrite (classify_ack_only opts _ _ _ Ecl) in Ea. discriminate.
        * cbn [nonempty]. split; [reflexivity|]. exists (n0 :: nk). split; [discriminate|]. split; [reflexivity|exact Hn].
  Qed.

  (* what the request does to the automaton: decided by the policy alone *)
  Theorem rcr_effect s d i data opts :
    parse_pkt d = Some (1, i, data) -> parse_opts data = Some opts ->
    let ok := all_ok (f_x s) opts in
    let s' := next P s (ERecv d) in
    (ok = true -> f_x s' = f_x s) /\
    g_we s' = ok /\
    (f_st s = AckRcvd -> f_st s' = if ok then Opened else AckRcvd) /\
    (f_st s = ReqSent -> f_st s' = if ok then AckSent else ReqSent) /\
    (f_st s = AckSent -> f_st s' = if ok then AckSent else ReqSent) /\
    (f_st s = Opened -> f_st s' = if ok then AckSent else ReqSent) /\
    (f_st s = Stopped -> f_st s' = if ok then AckSent else ReqSent).
  Proof.
    intros Ep Eo ok s'.
    destruct (pr_cr P (f_x s) opts) as [[x' [[ack nak] rj]] mk] eqn:Ec.
    assert (Ecl : classify f (f_x s) opts = (x', (ack, nak, rj))) by (rewrite <- Hcr, Ec; reflexivity).
    destruct (code_exact opts _ _ _ _ _ Ecl) as [Hc Hk].
    assert (Hok : (resp_code nak rj =? 2) = ok).
    { rewrite Hc. unfold ok, all_ok. destruct (existsb (rej (f_x s)) opts); [reflexivity|].
      destruct (forallb (acc (f_x s)) opts); reflexivity. }
    assert (Hx : ok = true -> x' = f_x s).
    { unfold ok, all_ok. intros H. apply andb_prop in H as [H1 H2]. apply negb_true_iff in H1. apply Hk; assumption. }
    assert (Hs : f_x s' = x' /\ g_we s' = (resp_code nak rj =? 2) /\
                 (f_st s = AckRcvd -> f_st s' = if resp_code nak rj =? 2 then Opened else AckRcvd) /\
                 (f_st s = ReqSent -> f_st s' = if resp_code nak rj =? 2 then AckSent else ReqSent) /\
                 (f_st s = AckSent -> f_st s' = if resp_code nak rj =? 2 then AckSent else ReqSent) /\
                 (f_st s = Opened -> f_st s' = if resp_code nak rj =? 2 then AckSent else ReqSent) /\
                 (f_st s = Stopped -> f_st s' = if resp_code nak rj =? 2 then AckSent else ReqSent)).
    { unfold s'. rewrite next_tr. unfold tr_m, trans, do_recv. rewrite Ep. cbn [N.eqb Pos.eqb]. rewrite Eo.
      unfold do_rcr. cbn [fst snd]. rewrite Ec. cbn [fst snd]. unfold resp_code.
      destruct s as [st0 x0 rc0 id0 last0 arm0 tok0 pend0 we0 peer0].
      destruct (nonempty rj); [|destruct (nonempty nak)]; destruct st0; cbn;
        repeat split; intros; try discriminate; reflexivity. }
    rewrite Hok in Hs. destruct Hs as (H1 & H2 & H3 & H4 & H5 & H6 & H7).
    repeat split; try assumption. intros H. rewrite H1. apply Hx. exact H.
  Qed.
End Exact.

(* ---------------------------------------------------------------------- LCP *)
Lemma lcp_opt_exact x o :
  match snd (lcp_opt x o) with
  | VAck => lcp_acceptable (lx_magic x) o = true /\ fst (lcp_opt x o) = x
  | VRej => lcp_rejectable o = true /\ fst (lcp_opt x o) = x
  | VNak o' => lcp_offending (lx_magic x) o = true /\ lcp_suggests o o' = true
  end.
Proof.
  destruct o as [t dd].
  unfold lcp_opt, lcp_acceptable, lcp_offending, lcp_rejectable, lcp_wf, lcp_bad, lcp_suggests, in_range,
         lcp_mru_min, lcp_mru_max.
  cbn [ot od].
  destruct (t =? 1) eqn:E1.
  { destruct (len dd =? 2) eqn:L; cbn [negb]; [|cbn; split; reflexivity].
    destruct ((64 <=? be_val dd) && (be_val dd <=? 1492)) eqn:R; [cbn; split; reflexivity|].
    apply N.eqb_eq in E1. subst t.
    destruct (be_val dd <? 64) eqn:B; cbn; split; reflexivity. }
  destruct (t =? 3) eqn:E3.
  { apply N.eqb_eq in E3. subst t. cbn. split; reflexivity. }
  destruct (t =? 5) eqn:E5.
  { apply N.eqb_eq in E5. subst t.
    destruct (len dd =? 4) eqn:L; cbn [negb]; [|cbn; split; reflexivity].
    destruct (be_val dd =? 0) eqn:Z.
    { destruct (draw32 (lx_rng x)) as [v r]. cbn. split; reflexivity. }
    destruct (be_val dd =? lx_magic x) eqn:M.
    { destruct (draw32 (lx_rng x)) as [nm r1]. destruct (draw32 r1) as [v r2]. cbn. split; reflexivity. }
    cbn. split; reflexivity. }
  destruct ((t =? 7) || (t =? 8)) eqn:E78.
  { destruct (len dd =? 0) eqn:L; cbn; split; reflexivity. }
  cbn. split; reflexivity.
Qed.

Lemma lcp_partition (x : lcpx) o :
  (lcp_acceptable (lx_magic x) o = true /\ lcp_offending (lx_magic x) o = false /\ lcp_rejectable o = false) \/
  (lcp_acceptable (lx_magic x) o = false /\ lcp_offending (lx_magic x) o = true /\ lcp_rejectable o = false) \/
  (lcp_acceptable (lx_magic x) o = false /\ lcp_offending (lx_magic x) o = false /\ lcp_rejectable o = true).
Proof.
  unfold lcp_acceptable, lcp_offending, lcp_rejectable.
  destruct (lcp_wf o); destruct (lcp_bad (lx_magic x) o); cbn; auto.
Qed.

Definition lcp_acc (x : lcpx) := lcp_acceptable (lx_magic x).
Definition lcp_off (x : lcpx) := lcp_offending (lx_magic x).
Definition lcp_rej (_ : lcpx) := lcp_rejectable.
Definition lcp_sug (_ : lcpx) := lcp_suggests.

Theorem lcp_reply_exact s d i data opts :
  parse_pkt d = Some (1, i, data) -> parse_opts data = Some opts ->
  exists p rest, sent lcp_procs s (ERecv d) = p :: rest /\ pi p = i /\
    forallb (fun q => negb (in_range 2 (pc q) 4)) rest = true /\
    (if existsb lcp_rejectable opts then pc p = 4 /\ pd p = ser_opts (filter lcp_rejectable opts)
     else if forallb (lcp_acceptable (lx_magic (f_x s))) opts then pc p = 2 /\ pd p = ser_opts opts
     else pc p = 3 /\ exists l, l <> [] /\ pd p = ser_opts l /\
          Forall2 (fun xo o' => lcp_suggests (snd xo) o' = true) (offenders lcp_opt lcp_off (f_x s) opts) l).
Proof.
  exact (reply_exact lcp_opt lcp_acc lcp_off lcp_rej lcp_sug lcp_opt_exact lcp_partition (fun _ _ _ => eq_refl)
           lcp_procs (fun _ _ => eq_refl) s d i data opts).
Qed.

Theorem lcp_rcr_effect s d i data opts :
  parse_pkt d = Some (1, i, data) -> parse_opts data = Some opts ->
  let ok := negb (existsb lcp_rejectable opts) && forallb (lcp_acceptable (lx_magic (f_x s))) opts in
  let s' := next lcp_procs s (ERecv d) in
  (ok = true -> f_x s' = f_x s) /\
  g_we s' = ok /\
  (f_st s = AckRcvd -> f_st s' = if ok then Opened else AckRcvd) /\
  (f_st s = ReqSent -> f_st s' = if ok then AckSent else ReqSent) /\
  (f_st s = AckSent -> f_st s' = if ok then AckSent else ReqSent) /\
  (f_st s = Opened -> f_st s' = if ok then AckSent else ReqSent) /\
  (f_st s = Stopped -> f_st s' = if ok then AckSent else ReqSent).
Proof.
  exact (rcr_effect lcp_opt lcp_acc lcp_off lcp_rej lcp_sug lcp_opt_exact lcp_partition (fun _ _ _ => eq_refl)
           lcp_procs (fun _ _ => eq_refl) s d i data opts).
Qed.

(* the monitor's [acceptable] is the same predicate (obs0 / obs1: our magic number before / after the event) *)
Lemma lcp_acceptable_monitor k a b o :
  mk_kind k = 0 ->
  acceptable k a b o = lcp_acceptable (be_val (firstn 4 a)) o && lcp_acceptable (be_val (firstn 4 b)) o.
Proof.
  intros Hk. unfold acceptable, lcp_acceptable, lcp_wf, lcp_bad, lcp_mru_min, lcp_mru_max. rewrite Hk. cbn [N.eqb].
  destruct (ot o =? 1).
  { destruct (len (od o) =? 2); destruct (in_range 64 (be_val (od o)) 1492); reflexivity. }
  destruct (ot o =? 5).
  { destruct (len (od o) =? 4); destruct (be_val (od o) =? 0);
      destruct (be_val (od o) =? be_val (firstn 4 a)); destruct (be_val (od o) =? be_val (firstn 4 b)); reflexivity. }
  destruct ((ot o =? 7) || (ot o =? 8)); [destruct (len (od o) =? 0)|]; reflexivity.
Qed.

(* ---------------------------------------------------------------------- IPCP *)
Definition ipcp_sug (x : ipx) := ipcp_suggests x.

Lemma ipcp_opt_exact x o :
  match snd (ipcp_opt x o) with
  | VAck => ipcp_acceptable x o = true /\ fst (ipcp_opt x o) = x
  | VRej => ipcp_rejectable x o = true /\ fst (ipcp_opt x o) = x
  | VNak o' => ipcp_offending x o = true /\ ipcp_suggests x o o' = true
  end.
Proof.
  destruct o as [t dd].
  unfold ipcp_opt, ipcp_dns, ipcp_acceptable, ipcp_offending, ipcp_rejectable, ipcp_wf, ipcp_suggests, ipcp_cfgval.
  cbn [ot od].
  destruct (t =? 3) eqn:E3.
  { apply N.eqb_eq in E3. subst t. cbn [N.eqb Pos.eqb orb].
    destruct (len dd =? 4) eqn:L; cbn [negb]; [|cbn; split; reflexivity].
    destruct (is_zero dd) eqn:Z.
    { destruct (ix_peer x) as [a|]; cbn; [|split; reflexivity]. rewrite bytes_eqb_refl. split; reflexivity. }
    destruct (ix_peer x) as [a|]; [|cbn; split; reflexivity].
    destruct (bytes_eqb dd a) eqn:B; cbn; [split; reflexivity|]. rewrite bytes_eqb_refl. split; reflexivity. }
  destruct (t =? 129) eqn:E9.
  { apply N.eqb_eq in E9. subst t. cbn [N.eqb Pos.eqb orb].
    destruct (len dd =? 4) eqn:L; cbn [negb]; [|cbn; split; reflexivity].
    destruct (is_zero dd) eqn:Z; [|cbn; split; reflexivity].
    destruct (ix_dns1 x) as [a|]; cbn; [|split; reflexivity]. rewrite bytes_eqb_refl. split; reflexivity. }
  destruct (t =? 131) eqn:E1.
  { apply N.eqb_eq in E1. subst t. cbn [N.eqb Pos.eqb orb].
    destruct (len dd =? 4) eqn:L; cbn [negb]; [|cbn; split; reflexivity].
    destruct (is_zero dd) eqn:Z; [|cbn; split; reflexivity].
    destruct (ix_dns2 x) as [a|]; cbn; [|split; reflexivity]. rewrite bytes_eqb_refl. split; reflexivity. }
  cbn. split; reflexivity.
Qed.

Lemma ipcp_partition x o :
  (ipcp_acceptable x o = true /\ ipcp_offending x o = false /\ ipcp_rejectable x o = false) \/
  (ipcp_acceptable x o = false /\ ipcp_offending x o = true /\ ipcp_rejectable x o = false) \/
  (ipcp_acceptable x o = false /\ ipcp_offending x o = false /\ ipcp_rejectable x o = true).
Proof.
  unfold ipcp_acceptable, ipcp_offending, ipcp_rejectable, ipcp_cfgval.
  destruct (ipcp_wf o); cbn [negb andb orb]; [|auto].
  destruct (ot o =? 3); cbn [andb].
  - destruct (ix_peer x) as [a|]; cbn [isSome negb andb orb].
    + rewrite andb_false_r. cbn. destruct (is_zero (od o) || negb (bytes_eqb (od o) a)); cbn; auto.
    + rewrite andb_true_r. destruct (is_zero (od o)); cbn; auto.
  - destruct (is_zero (od o) && _); cbn; auto.
Qed.

Lemma ipcp_rej_inv x o o2 : ipcp_rejectable (fst (ipcp_opt x o)) o2 = ipcp_rejectable x o2.
Proof. rewrite ipcp_opt_x. reflexivity. Qed.

(* the option state never changes while an IPCP request is processed: offenders are a plain filter *)
Lemma ipcp_offenders x opts :
  offenders ipcp_opt ipcp_offending x opts = map (fun o => (x, o)) (filter (ipcp_offending x) opts).
Proof.
  induction opts as [|o tl IH]; cbn [offenders filter map]; [reflexivity|].
  rewrite ipcp_opt_x, IH. destruct (ipcp_offending x o); reflexivity.
Qed.

Theorem ipcp_reply_exact s d i data opts :
  parse_pkt d = Some (1, i, data) -> parse_opts data = Some opts ->
  let x := f_x s in
  exists p rest, sent ipcp_procs s (ERecv d) = p :: rest /\ pi p = i /\
    forallb (fun q => negb (in_range 2 (pc q) 4)) rest = true /\
    (if existsb (ipcp_rejectable x) opts then pc p = 4 /\ pd p = ser_opts (filter (ipcp_rejectable x) opts)
     else if forallb (ipcp_acceptable x) opts then pc p = 2 /\ pd p = ser_opts opts
     else pc p = 3 /\ exists l, l <> [] /\ pd p = ser_opts l /\
          Forall2 (fun o o' => ipcp_suggests x o o' = true) (filter (ipcp_offending x) opts) l).
Proof.
  intros Ep Eo x.
  destruct (reply_exact ipcp_opt ipcp_acceptable ipcp_offending ipcp_rejectable ipcp_sug ipcp_opt_exact ipcp_partition
              ipcp_rej_inv ipcp_procs (fun _ _ => eq_refl) s d i data opts Ep Eo) as (p & rest & Es & Hi & Hrest & H).
  exists p, rest. repeat split; try assumption. fold x in H.
  destruct (existsb (ipcp_rejectable x) opts); [exact H|].
  destruct (forallb (ipcp_acceptable x) opts); [exact H|].
  destruct H as (Hc & l & Hl & Hd & F). split; [exact Hc|]. exists l. repeat split; try assumption.
  rewrite ipcp_offenders in F. clear - F.
  remember (filter (ipcp_offending x) opts) as offs. clear Heqoffs.
  revert l F. induction offs as [|o tl IH]; intros l F; cbn in F; inversion F; subst; constructor; auto.
Qed.

Theorem ipcp_rcr_effect s d i data opts :
  parse_pkt d = Some (1, i, data) -> parse_opts data = Some opts ->
  let ok := negb (existsb (ipcp_rejectable (f_x s)) opts) && forallb (ipcp_acceptable (f_x s)) opts in
  let s' := next ipcp_procs s (ERecv d) in
  (ok = true -> f_x s' = f_x s) /\
  g_we s' = ok /\
  (f_st s = AckRcvd -> f_st s' = if ok then Opened else AckRcvd) /\
  (f_st s = ReqSent -> f_st s' = if ok then AckSent else ReqSent) /\
  (f_st s = AckSent -> f_st s' = if ok then AckSent else ReqSent) /\
  (f_st s = Opened -> f_st s' = if ok then AckSent else ReqSent) /\
  (f_st s = Stopped -> f_st s' = if ok then AckSent else ReqSent).
Proof.
  exact (rcr_effect ipcp_opt ipcp_acceptable ipcp_offending ipcp_rejectable ipcp_sug ipcp_opt_exact ipcp_partition
           ipcp_rej_inv ipcp_procs (fun _ _ => eq_refl) s d i data opts).
Qed.

Lemma ipcp_acceptable_monitor x k a b o : ipcp_mcfg x k -> acceptable k a b o = ipcp_acceptable x o.
Proof.
  intros (Hk & Ha & H1 & H2).
  unfold acceptable, ipcp_acceptable, ipcp_rejectable, ipcp_offending, ipcp_wf, ipcp_cfgval, is_zero.
  rewrite Hk, Ha, H1, H2. cbn [N.eqb Pos.eqb].
  destruct (ot o =? 3); cbn [orb andb].
  { destruct (len (od o) =? 4); cbn [negb andb orb]; [|reflexivity].
    destruct (forallb (N.eqb 0) (od o)); destruct (ix_peer x) as [p|]; cbn; try reflexivity.
    destruct (bytes_eqb (od o) p); reflexivity. }
  destruct (ot o =? 129); cbn [orb andb].
  { destruct (len (od o) =? 4); cbn [negb andb orb]; [|reflexivity].
    destruct (forallb (N.eqb 0) (od o)); destruct (ix_dns1 x); reflexivity. }
  destruct (ot o =? 131); cbn [orb andb]; [|reflexivity].
  destruct (len (od o) =? 4); cbn [negb andb orb]; [|reflexivity].
  destruct (forallb (N.eqb 0) (od o)); destruct (ix_dns2 x); reflexivity.
Qed.

(* T5 at value level: with an address assigned, an acceptable IP-Address option carries it *)
Lemma ipcp_acceptable_assigned x o a :
  ipcp_acceptable x o = true -> ot o = 3 -> ix_peer x = Some a -> od o = a.
Proof.
  unfold ipcp_acceptable, ipcp_offending. intros H Ht Hp. rewrite Ht, Hp in H. cbn [N.eqb Pos.eqb] in H.
  apply andb_prop in H as [H Ho]. apply negb_true_iff in Ho.
  destruct (ipcp_wf o); [|discriminate]. cbn [andb] in Ho.
  apply orb_false_iff in Ho as [_ Hb]. apply negb_false_iff in Hb. apply bytes_eqb_eq. exact Hb.
Qed.

(* ---------------------------------------------------------------------- IPv6CP *)
Definition v6_acc (x : v6x) := v6_acceptable (vx_cfg x).
Definition v6_off (x : v6x) := v6_offending (vx_cfg x).
Definition v6_rej (_ : v6x) := v6_rejectable.
Definition v6_sug (_ : v6x) := v6_suggests.

Lemma v6_opt_exact x o :
  match snd (v6_opt x o) with
  | VAck => v6_acceptable (vx_cfg x) o = true /\ fst (v6_opt x o) = x
  | VRej => v6_rejectable o = true /\ fst (v6_opt x o) = x
  | VNak o' => v6_offending (vx_cfg x) o = true /\ v6_suggests o o' = true
  end.
Proof.
  destruct o as [t dd].
  unfold v6_opt, v6_acceptable, v6_offending, v6_rejectable, v6_wf, v6_bad, v6_suggests. cbn [ot od].
  destruct (t =? 1) eqn:E1; [|cbn; split; reflexivity].
  destruct (len dd =? 8) eqn:L; cbn [negb]; [|cbn; split; reflexivity].
  destruct (be_val dd =? 0) eqn:Z.
  { destruct (draw_ifid (vx_rng x)) as [v r]. cbn. split; reflexivity. }
  destruct (be_val dd =? vx_cfg x) eqn:M.
  { destruct (draw_ifid (vx_rng x)) as [nl r1]. destruct (draw_ifid r1) as [v r2]. cbn. split; reflexivity. }
  cbn. split; reflexivity.
Qed.

Lemma v6_partition (x : v6x) o :
  (v6_acceptable (vx_cfg x) o = true /\ v6_offending (vx_cfg x) o = false /\ v6_rejectable o = false) \/
  (v6_acceptable (vx_cfg x) o = false /\ v6_offending (vx_cfg x) o = true /\ v6_rejectable o = false) \/
  (v6_acceptable (vx_cfg x) o = false /\ v6_offending (vx_cfg x) o = false /\ v6_rejectable o = true).
Proof.
  unfold v6_acceptable, v6_offending, v6_rejectable.
  destruct (v6_wf o); destruct (v6_bad (vx_cfg x) o); cbn; auto.
Qed.

Theorem v6_reply_exact s d i data opts :
  parse_pkt d = Some (1, i, data) -> parse_opts data = Some opts ->
  exists p rest, sent v6_procs s (ERecv d) = p :: rest /\ pi p = i /\
    forallb (fun q => negb (in_range 2 (pc q) 4)) rest = true /\
    (if existsb v6_rejectable opts then pc p = 4 /\ pd p = ser_opts (filter v6_rejectable opts)
     else if forallb (v6_acceptable (vx_cfg (f_x s))) opts then pc p = 2 /\ pd p = ser_opts opts
     else pc p = 3 /\ exists l, l <> [] /\ pd p = ser_opts l /\
          Forall2 (fun xo o' => v6_suggests (snd xo) o' = true) (offenders v6_opt v6_off (f_x s) opts) l).
Proof.
  exact (reply_exact v6_opt v6_acc v6_off v6_rej v6_sug v6_opt_exact v6_partition (fun _ _ _ => eq_refl)
           v6_procs (fun _ _ => eq_refl) s d i data opts).
Qed.

Theorem v6_rcr_effect s d i data opts :
  parse_pkt d = Some (1, i, data) -> parse_opts data = Some opts ->
  let ok := negb (existsb v6_rejectable opts) && forallb (v6_acceptable (vx_cfg (f_x s))) opts in
  let s' := next v6_procs s (ERecv d) in
  (ok = true -> f_x s' = f_x s) /\
  g_we s' = ok /\
  (f_st s = AckRcvd -> f_st s' = if ok then Opened else AckRcvd) /\
  (f_st s = ReqSent -> f_st s' = if ok then AckSent else ReqSent) /\
  (f_st s = AckSent -> f_st s' = if ok then AckSent else ReqSent) /\
  (f_st s = Opened -> f_st s' = if ok then AckSent else ReqSent) /\
  (f_st s = Stopped -> f_st s' = if ok then AckSent else ReqSent).
Proof.
  exact (rcr_effect v6_opt v6_acc v6_off v6_rej v6_sug v6_opt_exact v6_partition (fun _ _ _ => eq_refl)
           v6_procs (fun _ _ => eq_refl) s d i data opts).
Qed.

Lemma v6_acceptable_monitor k a b o :
  mk_kind k = 2 ->
  acceptable k a b o = v6_acceptable (be_val (firstn 8 a)) o && v6_acceptable (be_val (firstn 8 b)) o.
Proof.
  intros Hk. unfold acceptable, v6_acceptable, v6_wf, v6_bad. rewrite Hk. cbn [N.eqb Pos.eqb].
  destruct (ot o =? 1); [|reflexivity].
  destruct (len (od o) =? 8); destruct (be_val (od o) =? 0);
    destruct (be_val (od o) =? be_val (firstn 8 a)); destruct (be_val (od o) =? be_val (firstn 8 b)); reflexivity.
Qed.

(* ---------------------------------------------------------------------- non-vacuity *)
(* MRU exactly at the lower bound is acceptable: Ack-Rcvd + [MRU 64] opens, the Ack repeats the bytes *)
Example ex_lcp_mru_min_opens :
  let s := run lcp_procs (init lx0) [EOpen; EUp; ERecv [2;1;0;4]] in
  f_st s = AckRcvd /\
  sent lcp_procs s (ERecv [1;9;0;8;1;4;0;64]) = [packet 2 9 [1;4;0;64]] /\
  f_st (next lcp_procs s (ERecv [1;9;0;8;1;4;0;64])) = Opened.
Proof. vm_compute. repeat split; reflexivity. Qed.
(* one below: Nak suggesting 64, no transition *)
Example ex_lcp_mru_below_min_nak :
  let s := run lcp_procs (init lx0) [EOpen; EUp; ERecv [2;1;0;4]] in
  sent lcp_procs s (ERecv [1;9;0;8;1;4;0;63]) = [packet 3 9 [1;4;0;64]] /\
  f_st (next lcp_procs s (ERecv [1;9;0;8;1;4;0;63])) = AckRcvd.
Proof. vm_compute. repeat split; reflexivity. Qed.
Example ex_lcp_mru_above_max_nak :
  sent lcp_procs (run lcp_procs (init lx0) [EOpen; EUp]) (ERecv [1;9;0;8;1;4;5;213]) = [packet 3 9 [1;4;5;212]].
Proof. vm_compute. reflexivity. Qed.
(* the offenders of a list with a loopback magic number in the middle: the second MRU is examined in
   the state after the collision regenerated our magic number *)
Example ex_lcp_offenders_threaded :
  map snd (offenders lcp_opt lcp_off lx0 [mkopt 1 [0;63]; mkopt 5 [17;34;51;68]; mkopt 7 []; mkopt 1 [5;213]])
  = [mkopt 1 [0;63]; mkopt 5 [17;34;51;68]; mkopt 1 [5;213]].
Proof. vm_compute. reflexivity. Qed.
Example ex_ipcp_wrong_address_nak :
  sent ipcp_procs (run ipcp_procs (init ix0) [EOpen; EUp]) (ERecv [1;3;0;10;3;6;10;0;0;10])
  = [packet 3 3 [3;6;10;0;0;9]].
Proof. vm_compute. reflexivity. Qed.
Example ex_v6_collision_nak :
  pc (hd (packet 0 0 []) (sent v6_procs (run v6_procs (init vx0) [EOpen; EUp]) (ERecv [1;3;0;14;1;10;2;0;0;0;0;0;0;1]))) = 3.
Proof. vm_compute. reflexivity. Qed.

(* ---------------------------------------------------------------------- which events touch the option state *)
Section OptState.
  Context {X : Type}.
  Variable P : procs X.

  Ltac ds s := destruct s as [st0 x0 rc0 id0 last0 arm0 tok0 pend0 we0 peer0].

  (* the local option state after an event is the old one, or what one of the three option
     processors made of it: Up, Down, Open, Close, timer expiries, Acks, Terminate-*, Code-/Protocol-
     Rejects, Echo never touch it *)
  Lemma fx_next s e :
    f_x (next P s e) = f_x s \/
    (exists opts, f_x (next P s e) = fst (fst (pr_cr P (f_x s) opts))) \/
    (exists opts, f_x (next P s e) = pr_nak P (f_x s) opts) \/
    (exists opts, f_x (next P s e) = pr_rej P (f_x s) opts).
  Proof.
    rewrite next_tr. unfold tr_m, trans.
    destruct e as [| | | |d|t|].
    - left. ds s. unfold do_up. destruct st0; reflexivity.
    - left. ds s. unfold do_down. destruct st0; reflexivity.
    - left. ds s. unfold do_open. destruct st0; reflexivity.
    - left. ds s. unfold close_internal. destruct st0; reflexivity.
    - unfold do_recv. destruct (parse_pkt d) as [[[c i] data]|]; [|left; reflexivity].
      destruct (c =? 1).
      { destruct (parse_opts data) as [opts|]; [|left; reflexivity].
        right; left. exists opts. unfold do_rcr. cbn [fst snd].
        destruct (pr_cr P (f_x s) opts) as [[x' [[ack nak] rej]] mk]. cbn [fst snd].
        ds s. destruct (nonempty rej); [|destruct (nonempty nak)]; destruct st0; reflexivity. }
      destruct (c =? 2).
      { left. unfold do_rca. cbn [fst snd]. destruct (i =? f_last s); cbn [negb]; [|reflexivity].
        ds s. destruct st0; reflexivity. }
      destruct (c =? 3).
      { unfold do_rcn. cbn [fst snd]. destruct (i =? f_last s); cbn [negb]; [|left; reflexivity].
        destruct (parse_opts data) as [opts|].
        - right; right; left. exists opts. ds s. unfold nakrej_tail. destruct st0; reflexivity.
        - left. ds s. unfold nakrej_tail. destruct (pr_nak_strict P); destruct st0; reflexivity. }
      destruct (c =? 4).
      { unfold do_rcj. cbn [fst snd]. destruct (i =? f_last s); cbn [negb]; [|left; reflexivity].
        destruct (parse_opts data) as [opts|].
        - right; right; right. exists opts. ds s. unfold nakrej_tail. destruct st0; reflexivity.
        - left. ds s. unfold nakrej_tail. destruct (pr_rej_strict P); destruct st0; reflexivity. }
      destruct (c =? 5).
      { left. ds s. unfold do_rtr. destruct st0; reflexivity. }
      destruct (c =? 6).
      { left. ds s. unfold do_rta. destruct st0; reflexivity. }
      destruct (pr_lcp P); [|left; reflexivity].
      left. unfold do_lcp_other. cbn [fst snd].
      destruct (c =? 7).
      { destruct data as [|r tl]; [reflexivity|]. destruct ((1 <=? r) && (r <=? 4)); [|reflexivity].
        ds s. unfold close_internal. destruct st0; reflexivity. }
      destruct (c =? 8).
      { destruct data as [|a [|b tl]]; try reflexivity. destruct (be16 a b =? 49185); [|reflexivity].
        ds s. unfold close_internal. destruct st0; reflexivity. }
      destruct (c =? 9).
      { ds s. destruct st0; try reflexivity. cbn. destruct (len data <? 4); reflexivity. }
      destruct ((c =? 10) || (c =? 11)); reflexivity.
    - left. destruct (memN t (f_pend s)); [|reflexivity].
      ds s. unfold do_timeout. cbn [fst snd f_rc f_st]. destruct (0 <? rc0)%Z; destruct st0; reflexivity.
    - left. ds s. unfold do_echo. destruct st0; try reflexivity. cbn. destruct (pr_lcp P); reflexivity.
  Qed.

  (* a projection of the option state that no option processor changes is constant over every history *)
  Lemma fx_invariant {A} (I : X -> A) :
    (forall x opts, I (fst (fst (pr_cr P x opts))) = I x) ->
    (forall x opts, I (pr_nak P x opts) = I x) -> (forall x opts, I (pr_rej P x opts) = I x) ->
    forall evs s, I (f_x (run P s evs)) = I (f_x s).
  Proof.
    intros Hc Hn Hr. induction evs as [|e tl IH]; intros s; [reflexivity|].
    unfold run in *. cbn [fold_left]. rewrite IH.
    destruct (fx_next s e) as [E|[[o E]|[[o E]|[o E]]]]; rewrite E; auto.
  Qed.

  (* T6': the guard [live] is the weakest possible: silence terminates from s if and only if s is live *)
  Theorem silence_terminates_iff_live s :
    (exists n, terminal (f_st (silent P n s)) = true) <-> live s = true.
  Proof.
    split.
    - intros [n Hn]. destruct (live s) eqn:L; [reflexivity|].
      unfold live in L. apply orb_false_iff in L as [T F].
      rewrite (silent_stuck P n s F) in Hn. rewrite T in Hn. discriminate.
    - intros L. exists (S (Z.to_nat (f_rc s))).
      apply (silent_peer_terminates_live P s (S (Z.to_nat (f_rc s))) L). lia.
  Qed.
End OptState.

(* ---------------------------------------------------------------------- IPCP: the assignment survives every history *)
Lemma classify_ipcp_x opts : forall x, fst (classify ipcp_opt x opts) = x.
Proof.
  induction opts as [|o tl IH]; intros x; cbn; [reflexivity|].
  pose proof (ipcp_opt_x x o) as E. destruct (ipcp_opt x o) as [x1 v]. cbn in E. subst x1.
  specialize (IH x). destruct (classify ipcp_opt x tl) as [x2 [[a n] r]]. cbn in IH. subst x2.
  destruct v; reflexivity.
Qed.

Lemma ipcp_nak_peer x opts : ix_peer (ipcp_nak x opts) = ix_peer x /\ ix_dns1 (ipcp_nak x opts) = ix_dns1 x /\
                             ix_dns2 (ipcp_nak x opts) = ix_dns2 x.
Proof.
  unfold ipcp_nak. revert x. induction opts as [|o tl IH]; intros x; cbn [fold_left]; [repeat split|].
  destruct (IH (ipcp_nak1 x o)) as (A & B & C). rewrite A, B, C. unfold ipcp_nak1.
  destruct (_ && _); repeat split.
Qed.

(* Up, Down, Open, Close, expiries and packets of any kind: the assigned address and the configured
   DNS servers of a session without pool are what they were when the machine was created *)
Theorem ipcp_assignment_invariant evs s :
  ix_peer (f_x (run ipcp_procs s evs)) = ix_peer (f_x s) /\
  ix_dns1 (f_x (run ipcp_procs s evs)) = ix_dns1 (f_x s) /\
  ix_dns2 (f_x (run ipcp_procs s evs)) = ix_dns2 (f_x s).
Proof.
  repeat split; apply (fx_invariant ipcp_procs); intros x opts; cbn [pr_cr pr_nak pr_rej ipcp_procs ipcp_cr fst];
    try reflexivity; try (rewrite classify_ipcp_x; reflexivity); apply ipcp_nak_peer.
Qed.

(* T5 over all histories: with an address assigned at creation, whatever happened before (Down/Up
   cycles included), a Configure-Ack is sent only in reply to a well-formed Configure-Request, repeats
   its options, and every IP-Address option in it is the assigned address *)
Theorem ipcp_acks_only_assigned_histories x a evs d p :
  ix_peer x = Some a ->
  In p (sent ipcp_procs (run ipcp_procs (init x) evs) (ERecv d)) -> pc p = 2 ->
  exists i data opts, parse_pkt d = Some (1, i, data) /\ parse_opts data = Some opts /\
    pd p = ser_opts opts /\ forall o, In o opts -> ot o = 3 -> od o = a.
Proof.
  intros Hp Hin Hc.
  set (s := run ipcp_procs (init x) evs) in *.
  assert (Hps : ix_peer (f_x s) = Some a).
  { unfold s. destruct (ipcp_assignment_invariant evs (init x)) as [E _]. rewrite E. exact Hp. }
  pose proof (reply_echoes_id ipcp_procs s (ERecv d)) as Hid. unfold chk_ids in Hid.
  rewrite forallb_forall in Hid. specialize (Hid p Hin).
  unfold reply_code in Hid. rewrite Hc in Hid. cbn [N.eqb Pos.eqb orb negb] in Hid.
  cbn [parsed] in Hid. destruct (parse_pkt d) as [[[c i] data]|] eqn:Ep; [|discriminate].
  apply andb_prop in Hid as [_ Hc1]. apply N.eqb_eq in Hc1. subst c.
  destruct (parse_opts data) as [opts|] eqn:Eo.
  - exists i, data, opts. split; [reflexivity|]. split; [exact Eo|].
    assert (Hk : ipcp_mcfg (f_x s) (mkmcfg 1 0%Z (ix_peer (f_x s)) (isSome (ix_dns1 (f_x s))) (isSome (ix_dns2 (f_x s))) false))
      by (repeat split).
    destruct (ipcp_reply_options s d i data opts p _ Hk Ep Eo Hin) as (Ha & _ & _).
    destruct (Ha Hc) as [Hd Hall]. split; [exact Hd|]. intros o Ho Ht. eapply Hall; eauto.
  - exfalso. rewrite sent_tr in Hin. unfold tr_m, trans, do_recv in Hin. rewrite Ep in Hin. cbn [N.eqb Pos.eqb] in Hin.
    rewrite Eo in Hin. exact Hin.
Qed.

Example ex_ipcp_assignment_survives_down_up :
  let s := run ipcp_procs (init ix0) [EOpen; EUp; ERecv [1;3;0;10;3;6;10;0;0;9]; ERecv [2;1;0;4]; EDown; EUp] in
  f_st s = ReqSent /\ sent ipcp_procs s (ERecv [1;4;0;10;3;6;10;0;0;10]) = [packet 3 4 [3;6;10;0;0;9]].
Proof. vm_compute. split; reflexivity. Qed.
