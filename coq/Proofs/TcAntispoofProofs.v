(* Lemmas for C18 (Model/TcAntispoof.v, Model/AntispoofMgr.v). *)
From Coq Require Import ZArith NArith List Bool Lia ZifyN ZifyNat ZifyBool Sorted.
From Verif Require Import Base.Word Base.Check Model.TcQos Model.TcAntispoofC Model.TcAntispoof Model.AntispoofMgr Model.TcAntispoofSpec
  Proofs.TcAntispoofCProofs.
Import ListNotations.
Local Open Scope N_scope.

Definition verdict_of (m : amaps) (f : bytes) : averdict := fst (antispoof_prog m f).
Definition forwards (m : amaps) (f : bytes) : Prop := verdict_of m f = ARet TC_ACT_OK.
Definition drops (m : amaps) (f : bytes) : Prop := verdict_of m f = ARet TC_ACT_SHOT.

(* the mode in force for a sender: its binding's mode, else the configured default (absent config: disabled) *)
Definition default_mode (m : amaps) : N := match a_cfg m with Some c => nthb c 0 | None => MODE_DISABLED end.
Definition binding_of (m : amaps) (mac : bytes) : option bytes := m_get (a_bind m) (mac_key mac).
Definition eff_mode (m : amaps) (mac : bytes) : N :=
  match binding_of m mac with Some b => nthb b 22 | None => default_mode m end.

(* complete IPv4 / IPv6 frames from [mac] with source [src] *)
Definition v4_frame (f mac src : bytes) : Prop :=
  (34 <= length f)%nat /\ rd f 6 6 = Some mac /\ rd f 12 2 = Some [8; 0] /\ rd f 26 4 = Some src.
Definition v6_frame (f mac src : bytes) : Prop :=
  (54 <= length f)%nat /\ rd f 6 6 = Some mac /\ rd f 12 2 = Some [134; 221] /\ rd f 22 16 = Some src.

Lemma bytes_eqb_refl a : bytes_eqb a a = true.
Proof. apply bytes_eqb_eq. reflexivity. Qed.
Lemma bytes_eqb_neq a b : a <> b -> bytes_eqb a b = false.
Proof. intros H. destruct (bytes_eqb a b) eqn:E; [apply bytes_eqb_eq in E; contradiction|reflexivity]. Qed.

Lemma rd_some f off n : (off + n <= length f)%nat -> exists l, rd f off n = Some l.
Proof. intros H. unfold rd. apply Nat.leb_le in H. rewrite H. eexists; reflexivity. Qed.

Lemma short_frame_forwards m f : (length f < 14)%nat -> antispoof_prog m f = (ARet TC_ACT_OK, []).
Proof. intros H. unfold antispoof_prog. apply Nat.ltb_lt in H. rewrite H. reflexivity. Qed.

(* the IPv4 branch as a function of (mode, binding, ranges, src) *)
Definition v4_allowed (m : amaps) (mac src : bytes) : bool :=
  let binding := binding_of m mac in
  let mode := eff_mode m mac in
  if mode =? MODE_LOOSE then in_ranges (a_ranges m) src
  else match binding with
       | Some b => if negb (nthb b 20 =? 0)
                   then (if (mode =? MODE_STRICT) || (mode =? MODE_LOG_ONLY) then bytes_eqb src (firstn 4 b) else false)
                   else false
       | None => false
       end.

Lemma prog_v4 m f mac src : v4_frame f mac src -> eff_mode m mac <> MODE_DISABLED ->
  verdict_of m f = if v4_allowed m mac src then ARet TC_ACT_OK
                   else if eff_mode m mac =? MODE_LOG_ONLY then ARet TC_ACT_OK else ARet TC_ACT_SHOT.
Proof.
  intros (Hlen & Hmac & Hproto & Hsrc) Hmode. unfold verdict_of, antispoof_prog.
  replace (Nat.ltb (length f) 14) with false by (symmetry; apply Nat.ltb_ge; lia).
  rewrite Hmac, Hproto. fold (default_mode m). fold (binding_of m mac).
  change (match binding_of m mac with Some b => nthb b 22 | None => default_mode m end) with (eff_mode m mac).
  replace (eff_mode m mac =? MODE_DISABLED) with false by (symmetry; apply N.eqb_neq; exact Hmode).
  cbn [bytes_eqb N.eqb Pos.eqb andb].
  replace (Nat.ltb (length f) 34) with false by (symmetry; apply Nat.ltb_ge; lia).
  rewrite Hsrc. unfold v4_allowed.
  destruct (eff_mode m mac =? MODE_LOOSE); [destruct (in_ranges _ _); [reflexivity|destruct (_ =? MODE_LOG_ONLY); reflexivity]|].
  destruct (binding_of m mac) as [b|]; [|destruct (_ =? MODE_LOG_ONLY); reflexivity].
  destruct (negb (nthb b 20 =? 0)); [|destruct (_ =? MODE_LOG_ONLY); reflexivity].
  destruct ((eff_mode m mac =? MODE_STRICT) || (eff_mode m mac =? MODE_LOG_ONLY)); [|destruct (_ =? MODE_LOG_ONLY); reflexivity].
  destruct (bytes_eqb src (firstn 4 b)); [reflexivity|destruct (_ =? MODE_LOG_ONLY); reflexivity].
Qed.

Definition v6_allowed (m : amaps) (mac src : bytes) : bool :=
  match binding_of m mac with
  | Some b => if negb (nthb b 21 =? 0) then bytes_eqb src (firstn 16 (skipn 4 b)) else (eff_mode m mac =? MODE_LOOSE)
  | None => (eff_mode m mac =? MODE_LOOSE)
  end.

Lemma prog_v6 m f mac src : v6_frame f mac src -> eff_mode m mac <> MODE_DISABLED ->
  verdict_of m f = if negb (v6_allowed m mac src) && negb (eff_mode m mac =? MODE_LOG_ONLY) then ARet TC_ACT_SHOT else ARet TC_ACT_OK.
Proof.
  intros (Hlen & Hmac & Hproto & Hsrc) Hmode. unfold verdict_of, antispoof_prog.
  replace (Nat.ltb (length f) 14) with false by (symmetry; apply Nat.ltb_ge; lia).
  rewrite Hmac, Hproto. fold (default_mode m). fold (binding_of m mac).
  change (match binding_of m mac with Some b => nthb b 22 | None => default_mode m end) with (eff_mode m mac).
  replace (eff_mode m mac =? MODE_DISABLED) with false by (symmetry; apply N.eqb_neq; exact Hmode).
  cbn [bytes_eqb N.eqb Pos.eqb andb].
  replace (Nat.ltb (length f) 54) with false by (symmetry; apply Nat.ltb_ge; lia).
  rewrite Hsrc. unfold v6_allowed.
  destruct (binding_of m mac) as [b|]; [destruct (negb (nthb b 21 =? 0))|];
    match goal with |- context [negb ?a && negb ?c] => destruct (negb a && negb c) end; reflexivity.
Qed.

(* ---- strict: forwarded iff the source equals the bound address *)
Theorem strict_iff_equal_v4 : forall m f mac src,
  v4_frame f mac src -> eff_mode m mac = MODE_STRICT ->
  (forwards m f <-> exists b, binding_of m mac = Some b /\ nthb b 20 <> 0 /\ src = firstn 4 b).
Proof.
  intros m f mac src Hf Hm. unfold forwards. rewrite (prog_v4 m f mac src Hf) by (rewrite Hm; discriminate).
  unfold v4_allowed. rewrite Hm. cbn [N.eqb Pos.eqb MODE_STRICT MODE_LOOSE MODE_LOG_ONLY orb].
  destruct (binding_of m mac) as [b|].
  - destruct (nthb b 20 =? 0) eqn:Ev; cbn [negb].
    + split; [discriminate|]. intros (b' & Hb & Hv & _). inversion Hb; subst. apply N.eqb_eq in Ev. contradiction.
    + destruct (bytes_eqb src (firstn 4 b)) eqn:Ee.
      * split; [|reflexivity]. intros _. exists b. apply bytes_eqb_eq in Ee. apply N.eqb_neq in Ev. auto.
      * split; [discriminate|]. intros (b' & Hb & _ & He). inversion Hb; subst. rewrite bytes_eqb_refl in Ee. discriminate.
  - split; [discriminate|]. intros (b' & Hb & _). discriminate.
Qed.

Theorem strict_iff_equal_v6 : forall m f mac src,
  v6_frame f mac src -> eff_mode m mac = MODE_STRICT ->
  (forwards m f <-> exists b, binding_of m mac = Some b /\ nthb b 21 <> 0 /\ src = firstn 16 (skipn 4 b)).
Proof.
  intros m f mac src Hf Hm. unfold forwards. rewrite (prog_v6 m f mac src Hf) by (rewrite Hm; discriminate).
  unfold v6_allowed. rewrite Hm. cbn [N.eqb Pos.eqb MODE_STRICT MODE_LOOSE MODE_LOG_ONLY negb andb].
  destruct (binding_of m mac) as [b|].
  - destruct (nthb b 21 =? 0) eqn:Ev; cbn [negb andb].
    + split; [discriminate|]. intros (b' & Hb & Hv & _). inversion Hb; subst. apply N.eqb_eq in Ev. contradiction.
    + destruct (bytes_eqb src (firstn 16 (skipn 4 b))) eqn:Ee; cbn [negb andb].
      * split; [|reflexivity]. intros _. exists b. apply bytes_eqb_eq in Ee. apply N.eqb_neq in Ev. auto.
      * split; [discriminate|]. intros (b' & Hb & _ & He). inversion Hb; subst. rewrite bytes_eqb_refl in Ee. discriminate.
  - cbn. split; [discriminate|]. intros (b' & Hb & _). discriminate.
Qed.

(* ---- every frame whatsoever is forwarded when the mode in force for its sender is log-only or disabled *)
Lemma prog_total (f : bytes) : (14 <= length f)%nat -> exists mac proto, rd f 6 6 = Some mac /\ rd f 12 2 = Some proto.
Proof.
  intros H. destruct (rd_some f 6 6 ltac:(lia)) as (mac & Hm). destruct (rd_some f 12 2 ltac:(lia)) as (p & Hp). eauto.
Qed.

Theorem mode_forwards_all : forall m f mo, (mo = MODE_LOG_ONLY \/ mo = MODE_DISABLED) ->
  (forall mac, rd f 6 6 = Some mac -> eff_mode m mac = mo) -> forwards m f.
Proof.
  intros m f mo Hmo Hall. unfold forwards, verdict_of.
  destruct (Nat.ltb (length f) 14) eqn:El; [apply Nat.ltb_lt in El; rewrite short_frame_forwards by exact El; reflexivity|].
  apply Nat.ltb_ge in El. destruct (prog_total f El) as (mac & proto & Hmac & Hproto).
  specialize (Hall mac Hmac). unfold antispoof_prog.
  replace (Nat.ltb (length f) 14) with false by (symmetry; apply Nat.ltb_ge; lia).
  rewrite Hmac, Hproto. fold (default_mode m). fold (binding_of m mac).
  change (match binding_of m mac with Some b => nthb b 22 | None => default_mode m end) with (eff_mode m mac).
  rewrite Hall. destruct Hmo as [-> | ->]; [|reflexivity]. cbn [N.eqb Pos.eqb MODE_LOG_ONLY MODE_DISABLED MODE_LOOSE MODE_STRICT].
  destruct (bytes_eqb proto [8; 0]).
  - destruct (Nat.ltb (length f) 34) eqn:E34; [reflexivity|]. apply Nat.ltb_ge in E34.
    destruct (rd_some f 26 4 ltac:(lia)) as (src & Hs). rewrite Hs.
    destruct (binding_of m mac) as [b|]; [|reflexivity].
    destruct (negb (nthb b 20 =? 0)); [|reflexivity]. cbn [orb]. destruct (bytes_eqb src (firstn 4 b)); reflexivity.
  - destruct (bytes_eqb proto [134; 221]); [|reflexivity].
    destruct (Nat.ltb (length f) 54) eqn:E54; [reflexivity|]. apply Nat.ltb_ge in E54.
    destruct (rd_some f 22 16 ltac:(lia)) as (src & Hs). rewrite Hs. cbn [negb andb].
    rewrite andb_false_r. reflexivity.
Qed.

(* ---- non-IP traffic and truncated IP headers are forwarded, whatever the maps *)
Theorem non_ip_forwards : forall m f proto, rd f 12 2 = Some proto -> proto <> [8; 0] -> proto <> [134; 221] -> forwards m f.
Proof.
  intros m f proto Hp H4 H6. unfold forwards, verdict_of.
  destruct (Nat.ltb (length f) 14) eqn:El; [apply Nat.ltb_lt in El; rewrite short_frame_forwards by exact El; reflexivity|].
  apply Nat.ltb_ge in El. destruct (prog_total f El) as (mac & proto' & Hmac & Hproto). rewrite Hp in Hproto. inversion Hproto; subst proto'.
  unfold antispoof_prog. replace (Nat.ltb (length f) 14) with false by (symmetry; apply Nat.ltb_ge; lia).
  rewrite Hmac, Hp. rewrite (bytes_eqb_neq _ _ H4), (bytes_eqb_neq _ _ H6).
  destruct (_ =? MODE_DISABLED); reflexivity.
Qed.

Theorem truncated_ip_forwards : forall m f, (length f < 34)%nat -> rd f 12 2 = Some [8; 0] -> forwards m f.
Proof.
  intros m f Hl Hp. unfold forwards, verdict_of.
  destruct (Nat.ltb (length f) 14) eqn:El; [apply Nat.ltb_lt in El; rewrite short_frame_forwards by exact El; reflexivity|].
  apply Nat.ltb_ge in El. destruct (prog_total f El) as (mac & proto' & Hmac & Hproto). rewrite Hp in Hproto. inversion Hproto; subst proto'.
  unfold antispoof_prog. replace (Nat.ltb (length f) 14) with false by (symmetry; apply Nat.ltb_ge; lia).
  rewrite Hmac, Hp. cbn [bytes_eqb N.eqb Pos.eqb andb].
  replace (Nat.ltb (length f) 34) with true by (symmetry; apply Nat.ltb_lt; lia).
  destruct (_ =? MODE_DISABLED); reflexivity.
Qed.

Theorem truncated_ipv6_forwards : forall m f, (length f < 54)%nat -> rd f 12 2 = Some [134; 221] -> forwards m f.
Proof.
  intros m f Hl Hp. unfold forwards, verdict_of.
  destruct (Nat.ltb (length f) 14) eqn:El; [apply Nat.ltb_lt in El; rewrite short_frame_forwards by exact El; reflexivity|].
  apply Nat.ltb_ge in El. destruct (prog_total f El) as (mac & proto' & Hmac & Hproto). rewrite Hp in Hproto. inversion Hproto; subst proto'.
  unfold antispoof_prog. replace (Nat.ltb (length f) 14) with false by (symmetry; apply Nat.ltb_ge; lia).
  rewrite Hmac, Hp. cbn [bytes_eqb N.eqb Pos.eqb andb].
  replace (Nat.ltb (length f) 54) with true by (symmetry; apply Nat.ltb_lt; lia).
  destruct (_ =? MODE_DISABLED); reflexivity.
Qed.

(* the program never reads outside the frame *)
Theorem never_oob : forall m f, verdict_of m f <> AOob.
Proof.
  intros m f. unfold verdict_of.
  destruct (Nat.ltb (length f) 14) eqn:El; [apply Nat.ltb_lt in El; rewrite short_frame_forwards by exact El; discriminate|].
  apply Nat.ltb_ge in El. destruct (prog_total f El) as (mac & proto & Hmac & Hproto).
  unfold antispoof_prog. replace (Nat.ltb (length f) 14) with false by (symmetry; apply Nat.ltb_ge; lia).
  rewrite Hmac, Hproto. destruct (_ =? MODE_DISABLED); [discriminate|].
  destruct (bytes_eqb proto [8; 0]).
  - destruct (Nat.ltb (length f) 34) eqn:E34; [discriminate|]. apply Nat.ltb_ge in E34.
    destruct (rd_some f 26 4 ltac:(lia)) as (src & Hs). rewrite Hs.
    match goal with |- context [if ?c then (ARet TC_ACT_OK, _) else _] => destruct c end; [discriminate|].
    destruct (_ =? MODE_LOG_ONLY); discriminate.
  - destruct (bytes_eqb proto [134; 221]); [|discriminate].
    destruct (Nat.ltb (length f) 54) eqn:E54; [discriminate|]. apply Nat.ltb_ge in E54.
    destruct (rd_some f 22 16 ltac:(lia)) as (src & Hs). rewrite Hs.
    match goal with |- context [if ?c then (ARet TC_ACT_SHOT, _) else _] => destruct c end; discriminate.
Qed.

(* ---- loose mode *)
Theorem loose_v4_iff_in_range : forall m f mac src,
  v4_frame f mac src -> eff_mode m mac = MODE_LOOSE -> (forwards m f <-> in_ranges (a_ranges m) src = true).
Proof.
  intros m f mac src Hf Hm. unfold forwards. rewrite (prog_v4 m f mac src Hf) by (rewrite Hm; discriminate).
  unfold v4_allowed. rewrite Hm. cbn [N.eqb Pos.eqb MODE_LOOSE MODE_LOG_ONLY].
  destruct (in_ranges (a_ranges m) src); split; intros H; try reflexivity; discriminate.
Qed.

(* what [in_ranges] means: some configured (prefix length <= 32, data) agrees with the source on its first
   prefix-length bits *)
Lemma in_ranges_spec rs ip : in_ranges rs ip = true <->
  exists plen d, In (plen, d) rs /\ plen <= 32 /\ bits_match (N.to_nat plen) d ip = true.
Proof.
  unfold in_ranges. rewrite existsb_exists. split.
  - intros ([plen d] & Hin & H). cbn [fst snd] in H. apply andb_true_iff in H. destruct H as (H1 & H2).
    exists plen, d. repeat split; try assumption. lia.
  - intros (plen & d & Hin & Hle & Hb). exists (plen, d). split; [exact Hin|]. cbn [fst snd].
    apply andb_true_iff. split; [lia|exact Hb].
Qed.

Definition v6_test_frame : bytes :=
  [255;255;255;255;255;255; 2;0;0;0;0;1; 134;221] ++ [96;0;0;0;0;8;17;64] ++
  [32;1;13;184;0;0;0;0;0;0;0;0;0;0;0;99] ++ [32;1;13;184;0;0;0;0;0;0;0;0;0;0;0;1].
Definition loose_unbound : amaps := {| a_cfg := Some [2;1;0;0;0;0;0;0]; a_bind := []; a_ranges := [] |}.

Definition loose_v6_statement : Prop := forall m f mac src,
  v6_frame f mac src -> eff_mode m mac = MODE_LOOSE -> drops m f.   (* no IPv6 range can be configured *)

Theorem loose_v6_refuted : ~ loose_v6_statement.
Proof.
  intros H. specialize (H loose_unbound v6_test_frame [2;0;0;0;0;1] [32;1;13;184;0;0;0;0;0;0;0;0;0;0;0;99]).
  assert (Hd : drops loose_unbound v6_test_frame).
  { apply H; [repeat split; try reflexivity; try (cbn; lia)|reflexivity]. }
  vm_compute in Hd. discriminate.
Qed.

Theorem loose_v6_partial : forall m f mac src b,
  v6_frame f mac src -> eff_mode m mac = MODE_LOOSE ->
  binding_of m mac = Some b -> nthb b 21 <> 0 -> src <> firstn 16 (skipn 4 b) -> drops m f.
Proof.
  intros m f mac src b Hf Hm Hb Hv Hne. unfold drops. rewrite (prog_v6 m f mac src Hf) by (rewrite Hm; discriminate).
  unfold v6_allowed. rewrite Hb, Hm.
  replace (nthb b 21 =? 0) with false by (symmetry; apply N.eqb_neq; exact Hv).
  rewrite (bytes_eqb_neq _ _ Hne). reflexivity.
Qed.

(* ---- through the manager *)
Definition after (s : state) (ops : list op) : state := fold_left (fun st o => fst (fst (step st o))) ops s.

Lemma m_get_put m : forall k v, m_get (m_put m k v) k = Some v.
Proof.
  induction m as [|[k' v'] m IH]; intros k v; cbn; [rewrite bytes_eqb_refl; reflexivity|].
  destruct (bytes_eqb k k') eqn:E; cbn; [rewrite bytes_eqb_refl; reflexivity|].
  destruct (lex_leb k k'); cbn; [rewrite bytes_eqb_refl; reflexivity|]. rewrite E. apply IH.
Qed.

Definition mac1 : bytes := [2; 17; 34; 51; 68; 85].
Definition v4_test_frame (src : bytes) : bytes :=
  [255;255;255;255;255;255] ++ mac1 ++ [8;0] ++ [69;0;0;40;0;0;0;0;64;17;0;0] ++ src ++ [192;0;2;1].

Definition binding_takes_effect_statement : Prop := forall s mac ip f src,
  length mac = 6%nat -> length ip = 4%nat -> mgr_mode s = MODE_STRICT -> v4_frame f mac src ->
  (forwards (maps (after s [AddBinding mac ip])) f <-> src = ip).

Theorem binding_takes_effect_refuted : ~ binding_takes_effect_statement.
Proof.
  intros H. specialize (H init mac1 [10;20;30;40] (v4_test_frame [10;20;30;40]) [10;20;30;40]).
  assert (Hf : forwards (maps (after init [AddBinding mac1 [10;20;30;40]])) (v4_test_frame [10;20;30;40])).
  { apply H; try reflexivity. repeat split; try reflexivity; try (cbn; lia). }
  vm_compute in Hf. discriminate.
Qed.

(* ... and the mirror image of the address is admitted instead *)
Theorem binding_admits_mirror_image :
  forwards (maps (after init [AddBinding mac1 [10;20;30;40]])) (v4_test_frame [40;30;20;10]).
Proof. vm_compute. reflexivity. Qed.

Theorem binding_takes_effect_partial : forall s mac ip f src,
  length mac = 6%nat -> length ip = 4%nat -> palin4 ip = true -> mgr_mode s = MODE_STRICT -> v4_frame f mac src ->
  (forwards (maps (after s [AddBinding mac ip])) f <-> src = ip).
Proof.
  intros s mac ip f src Hmac Hip Hpal Hmode Hf.
  destruct ip as [|a [|b [|c [|d [|]]]]]; try discriminate.
  assert (Hrev : [d; c; b; a] = [a; b; c; d]) by (symmetry; apply bytes_eqb_eq; exact Hpal).
  unfold after. cbn [fold_left step]. rewrite Hmac. cbn [length N.of_nat Pos.of_succ_nat Pos.succ N.eqb Pos.eqb negb].
  cbn [to4 length N.of_nat Pos.of_succ_nat Pos.succ N.eqb Pos.eqb rev app fst]. rewrite Hmode.
  rewrite <- !(c_mac_key_go mac). change (c_mac_key mac) with (mac_key mac).
  set (v := mk_binding [d; c; b; a] zero16 1 0 MODE_STRICT).
  set (m' := maps (set_bind s (m_put (a_bind (maps s)) (mac_key mac) v))).
  assert (Hb : binding_of m' mac = Some v) by (unfold binding_of, m'; cbn [maps set_bind a_bind]; apply m_get_put).
  assert (He : eff_mode m' mac = MODE_STRICT) by (unfold eff_mode; rewrite Hb; reflexivity).
  rewrite (strict_iff_equal_v4 m' f mac src Hf He). rewrite Hb. split.
  - intros (b' & Hb' & _ & Hs). inversion Hb'; subst b'. rewrite Hs. cbn. exact Hrev.
  - intros ->. exists v. repeat split; [cbn; discriminate|cbn; symmetry; exact Hrev].
Qed.

(* AddBinding after AddBindingV6 erases the IPv6 binding; the other order keeps both *)
Definition ip6_1 : bytes := [32;1;13;184;0;0;0;0;0;0;0;0;0;0;0;99].

Definition v6_binding_survives_statement : Prop := forall s mac ip4 ip6 f,
  length mac = 6%nat -> length ip4 = 4%nat -> length ip6 = 16%nat -> mgr_mode s = MODE_STRICT -> v6_frame f mac ip6 ->
  forwards (maps (after s [AddBindingV6 mac ip6; AddBinding mac ip4])) f.

Theorem v6_binding_survives_refuted : ~ v6_binding_survives_statement.
Proof.
  intros H. specialize (H init [2;0;0;0;0;1] [7;7;7;7] ip6_1 v6_test_frame).
  assert (Hf : forwards (maps (after init [AddBindingV6 [2;0;0;0;0;1] ip6_1; AddBinding [2;0;0;0;0;1] [7;7;7;7]])) v6_test_frame).
  { apply H; try reflexivity. repeat split; try reflexivity; try (cbn; lia). }
  vm_compute in Hf. discriminate.
Qed.

Theorem v6_binding_survives_partial : forall s mac ip4 ip6 f,
  length mac = 6%nat -> length ip4 = 4%nat -> length ip6 = 16%nat -> mgr_mode s = MODE_STRICT -> v6_frame f mac ip6 ->
  forwards (maps (after s [AddBinding mac ip4; AddBindingV6 mac ip6])) f.
Proof.
  intros s mac ip4 ip6 f Hmac H4 H6 Hmode Hf.
  destruct ip4 as [|a [|b [|c [|d [|]]]]]; try discriminate.
  do 16 (destruct ip6 as [|? ip6]; [discriminate|]). destruct ip6; [|discriminate].
  unfold after. cbn [fold_left step]. rewrite Hmac. cbn [length N.of_nat Pos.of_succ_nat Pos.succ N.eqb Pos.eqb negb].
  cbn [to4 length N.of_nat Pos.of_succ_nat Pos.succ N.eqb Pos.eqb rev app fst].
  rewrite <- !(c_mac_key_go mac). change (c_mac_key mac) with (mac_key mac).
  cbn [maps set_bind a_bind a_cfg a_ranges mgr_mode]. rewrite m_get_put. rewrite Hmode.
  cbn [to16 length N.of_nat Pos.of_succ_nat Pos.succ N.eqb Pos.eqb].
  match goal with |- forwards {| a_cfg := _; a_bind := m_put ?mm ?k ?v; a_ranges := _ |} _ =>
    set (v2 := v); set (m' := {| a_cfg := a_cfg (maps s); a_bind := m_put mm k v2; a_ranges := a_ranges (maps s) |}) end.
  assert (Hb : binding_of m' mac = Some v2) by (unfold binding_of, m'; cbn [a_bind]; apply m_get_put).
  assert (He : eff_mode m' mac = MODE_STRICT) by (unfold eff_mode; rewrite Hb; reflexivity).
  apply (strict_iff_equal_v6 m' f mac _ Hf He). exists v2. repeat split; [exact Hb|cbn; discriminate].
Qed.

(* ---- the binding written for a MAC is the one the program finds for frames from that MAC, and for no other:
   Go key derivation (manager) = C key derivation (program), for every MAC *)
Theorem mac_key_c_equals_go : forall mac, mac_key mac = go_mac_key mac.
Proof. intros mac. unfold mac_key. apply c_mac_key_go. Qed.

Theorem mac_key_is_mac48 : forall mac, length mac = 6%nat -> wf_bytes mac -> mac_key mac = rev mac ++ [0; 0].
Proof. intros mac Hl Hw. unfold mac_key. apply c_mac_key_wf; assumption. Qed.

Theorem mac_key_injective : forall a b,
  length a = 6%nat -> length b = 6%nat -> wf_bytes a -> wf_bytes b -> mac_key a = mac_key b -> a = b.
Proof. intros a b. unfold mac_key. apply c_mac_key_injective. Qed.

Lemma m_get_put_other m : forall k k' v, k <> k' -> m_get (m_put m k v) k' = m_get m k'.
Proof.
  induction m as [|[k0 v0] m IH]; intros k k' v Hne; cbn [m_put m_get].
  - rewrite (bytes_eqb_neq k' k) by congruence. reflexivity.
  - destruct (bytes_eqb k k0) eqn:E.
    + apply bytes_eqb_eq in E. subst k0. cbn [m_get]. rewrite (bytes_eqb_neq k' k) by congruence. reflexivity.
    + destruct (lex_leb k k0); cbn [m_get].
      * rewrite (bytes_eqb_neq k' k) by congruence. reflexivity.
      * destruct (bytes_eqb k' k0); [reflexivity|]. apply IH. exact Hne.
Qed.

Theorem add_binding_found_for_its_mac : forall s mac ip, length mac = 6%nat ->
  binding_of (maps (after s [AddBinding mac ip])) mac <> None /\
  binding_of (maps (after s [AddBindingV6 mac ip])) mac <> None.
Proof.
  intros s mac ip Hmac. unfold after. cbn [fold_left step]. rewrite Hmac.
  cbn [length N.of_nat Pos.of_succ_nat Pos.succ N.eqb Pos.eqb negb fst].
  rewrite <- !(c_mac_key_go mac). change (c_mac_key mac) with (mac_key mac).
  unfold binding_of. cbn [maps set_bind a_bind]. rewrite !m_get_put. split; discriminate.
Qed.

(* ... and for no other MAC: a control-plane call for [mac] leaves what every other sender's frames are judged
   against untouched *)
Theorem add_binding_other_mac_untouched : forall s mac mac' ip,
  length mac = 6%nat -> length mac' = 6%nat -> wf_bytes mac -> wf_bytes mac' -> mac' <> mac ->
  binding_of (maps (after s [AddBinding mac ip])) mac' = binding_of (maps s) mac' /\
  binding_of (maps (after s [AddBindingV6 mac ip])) mac' = binding_of (maps s) mac'.
Proof.
  intros s mac mac' ip Hmac Hmac' Hw Hw' Hne.
  assert (Hk : mac_key mac <> mac_key mac') by (intros E; apply Hne; symmetry; apply mac_key_injective; assumption).
  unfold after. cbn [fold_left step]. rewrite Hmac.
  cbn [length N.of_nat Pos.of_succ_nat Pos.succ N.eqb Pos.eqb negb fst].
  rewrite <- !(c_mac_key_go mac). change (c_mac_key mac) with (mac_key mac).
  unfold binding_of. cbn [maps set_bind a_bind]. rewrite !m_get_put_other by exact Hk. split; reflexivity.
Qed.

(* non-vacuity: a MAC with the top bit set in every octet is found by the program after the manager's AddBinding *)
Definition mac_hi : bytes := [130; 145; 162; 179; 196; 213].
Example add_binding_high_octets :
  wf_bytes mac_hi /\ length mac_hi = 6%nat /\
  mac_key mac_hi = [213; 196; 179; 162; 145; 130; 0; 0] /\
  forwards (maps (after init [AddBinding mac_hi [10;1;1;10]]))
           ([255;255;255;255;255;255] ++ mac_hi ++ [8;0] ++ [69;0;0;40;0;0;0;0;64;17;0;0] ++ [10;1;1;10] ++ [192;0;2;1]) /\
  drops (maps (after init [AddBinding mac_hi [10;1;1;10]]))
        ([255;255;255;255;255;255] ++ mac_hi ++ [8;0] ++ [69;0;0;40;0;0;0;0;64;17;0;0] ++ [10;1;1;11] ++ [192;0;2;1]).
Proof.
  split; [repeat constructor|]. repeat split; vm_compute; reflexivity.
Qed.

(* ---- removal: the kernel hash map holds one entry per key; the Model's association list keeps that invariant *)
Definition keys_of (m : kvmap) : list bytes := map fst m.

Lemma m_get_none_notin m k : ~ In k (keys_of m) -> m_get m k = None.
Proof.
  induction m as [|[k0 v0] m IH]; intros H; [reflexivity|]. cbn [m_get]. cbn in H.
  destruct (bytes_eqb k k0) eqn:E; [apply bytes_eqb_eq in E; subst; exfalso; apply H; left; reflexivity|].
  apply IH. intros Hin. apply H. right. exact Hin.
Qed.

Definition klt (a b : bytes) : Prop := lex_leb a b = true /\ a <> b.
Definition ksorted (m : kvmap) : Prop := StronglySorted klt (keys_of m).

Lemma klt_trans a b c : klt a b -> klt b c -> klt a c.
Proof.
  intros [H1 N1] [H2 N2]. split; [exact (lex_leb_trans a b c H1 H2)|].
  intros E. subst c. apply N1. apply lex_leb_antisym; assumption.
Qed.

Lemma keys_m_put m : forall k v x, In x (keys_of (m_put m k v)) -> x = k \/ In x (keys_of m).
Proof.
  induction m as [|[k0 v0] m IH]; intros k v x H; cbn [m_put] in H.
  - cbn in H. destruct H as [H|[]]. left. symmetry. exact H.
  - destruct (bytes_eqb k k0) eqn:E.
    + apply bytes_eqb_eq in E. subst k0. cbn in H. cbn. destruct H as [H|H]; [left; symmetry; exact H|right; right; exact H].
    + destruct (lex_leb k k0).
      * cbn in H. cbn. destruct H as [H|[H|H]]; [left; symmetry; exact H|right; left; exact H|right; right; exact H].
      * cbn in H. cbn. destruct H as [H|H]; [right; left; exact H|].
        destruct (IH k v x H) as [H'|H']; [left; exact H'|right; right; exact H'].
Qed.

Lemma ksorted_m_put m : forall k v, ksorted m -> ksorted (m_put m k v).
Proof.
  unfold ksorted. induction m as [|[k0 v0] m IH]; intros k v H; cbn [m_put].
  - cbn. constructor; constructor.
  - cbn [keys_of map fst] in H. inversion H as [|? ? Hs Hf]; subst. destruct (bytes_eqb k k0) eqn:E.
    + apply bytes_eqb_eq in E. subst k0. cbn. constructor; assumption.
    + assert (Hne : k <> k0) by (intros X; subst; rewrite bytes_eqb_refl in E; discriminate).
      destruct (lex_leb k k0) eqn:L.
      * cbn. constructor; [exact H|]. constructor; [split; assumption|].
        rewrite Forall_forall in *. intros x Hx. apply (klt_trans k k0 x); [split; assumption|apply Hf; exact Hx].
      * assert (L' : lex_leb k0 k = true) by (destruct (lex_leb_total k k0) as [X|X]; [rewrite X in L; discriminate|exact X]).
        cbn. constructor; [apply IH; exact Hs|].
        rewrite Forall_forall in *. intros x Hx. destruct (keys_m_put m k v x Hx) as [->|Hin].
        -- split; [exact L'|congruence].
        -- apply Hf. exact Hin.
Qed.

Lemma keys_m_del m : forall k x, In x (keys_of (m_del m k)) -> In x (keys_of m).
Proof.
  induction m as [|[k0 v0] m IH]; intros k x H; cbn [m_del] in H; [exact H|].
  destruct (bytes_eqb k k0); [right; exact H|]. cbn in H. cbn. destruct H as [H|H]; [left; exact H|right; exact (IH k x H)].
Qed.

Lemma ksorted_m_del m : forall k, ksorted m -> ksorted (m_del m k).
Proof.
  unfold ksorted. induction m as [|[k0 v0] m IH]; intros k H; cbn [m_del]; [exact H|].
  cbn [keys_of map fst] in H. inversion H as [|? ? Hs Hf]; subst.
  destruct (bytes_eqb k k0); [exact Hs|]. cbn. constructor; [apply IH; exact Hs|].
  rewrite Forall_forall in *. intros x Hx. apply Hf. exact (keys_m_del m k x Hx).
Qed.

Lemma m_get_del_same m : forall k, ksorted m -> m_get (m_del m k) k = None.
Proof.
  unfold ksorted. induction m as [|[k0 v0] m IH]; intros k H; cbn [m_del]; [reflexivity|].
  cbn [keys_of map fst] in H. inversion H as [|? ? Hs Hf]; subst.
  destruct (bytes_eqb k k0) eqn:E.
  - apply bytes_eqb_eq in E. subst k0. apply m_get_none_notin. intros Hin.
    rewrite Forall_forall in Hf. destruct (Hf k Hin) as [_ N]. apply N. reflexivity.
  - cbn [m_get]. rewrite E. apply IH. exact Hs.
Qed.

Lemma m_get_del_other m : forall k k', k <> k' -> m_get (m_del m k) k' = m_get m k'.
Proof.
  induction m as [|[k0 v0] m IH]; intros k k' Hne; cbn [m_del]; [reflexivity|].
  destruct (bytes_eqb k k0) eqn:E.
  - apply bytes_eqb_eq in E. subst k0. cbn [m_get]. rewrite (bytes_eqb_neq k' k) by congruence. reflexivity.
  - cbn [m_get]. destruct (bytes_eqb k' k0); [reflexivity|]. apply IH. exact Hne.
Qed.

Lemma step_ksorted s o : ksorted (a_bind (maps s)) -> ksorted (a_bind (maps (fst (fst (step s o))))).
Proof.
  intros H. destruct o; cbn [step].
  - exact H.
  - destruct (negb _); [exact H|]. cbn [fst maps set_bind a_bind]. apply ksorted_m_put. exact H.
  - destruct (negb _); [exact H|]. cbn [fst maps set_bind a_bind]. apply ksorted_m_put. exact H.
  - destruct (negb _); [exact H|]. cbn [fst maps set_bind a_bind]. apply ksorted_m_del. exact H.
  - exact H.
  - destruct (to4 ip); [|exact H]. destruct (32 <? ones); exact H.
  - destruct (_ && _); [|exact H]. cbn [fst maps set_bind a_bind]. apply ksorted_m_put. exact H.
  - destruct (_ =? 8); exact H.
  - destruct (_ && _); exact H.
  - destruct (antispoof_prog (maps s) f) as [v mk]. exact H.
  - exact H.
Qed.

Lemma after_ksorted ops : forall s, ksorted (a_bind (maps s)) -> ksorted (a_bind (maps (after s ops))).
Proof.
  induction ops as [|o ops IH]; intros s H; [exact H|]. unfold after. cbn [fold_left]. apply IH. apply step_ksorted. exact H.
Qed.

(* a removal takes effect exactly as written, after ANY control-plane history: the program finds no binding for
   that MAC (so the default mode decides), and what it finds for any other MAC is unchanged *)
Theorem remove_binding_takes_effect : forall ops mac, length mac = 6%nat ->
  let s := after init ops in
  binding_of (maps (after s [RemoveBinding mac])) mac = None /\
  eff_mode (maps (after s [RemoveBinding mac])) mac = default_mode (maps s).
Proof.
  intros ops mac Hmac s.
  assert (Hs : ksorted (a_bind (maps s))) by (apply after_ksorted; constructor).
  assert (Hb : binding_of (maps (after s [RemoveBinding mac])) mac = None).
  { unfold after at 1. cbn [fold_left step]. rewrite Hmac.
    cbn [length N.of_nat Pos.of_succ_nat Pos.succ N.eqb Pos.eqb negb fst].
    rewrite <- !(c_mac_key_go mac). change (c_mac_key mac) with (mac_key mac).
    unfold binding_of. cbn [maps set_bind a_bind]. apply m_get_del_same. exact Hs. }
  split; [exact Hb|]. unfold eff_mode. rewrite Hb.
  unfold after at 1. cbn [fold_left step]. rewrite Hmac.
  cbn [length N.of_nat Pos.of_succ_nat Pos.succ N.eqb Pos.eqb negb fst]. reflexivity.
Qed.

Theorem remove_binding_other_mac_untouched : forall s mac mac',
  length mac = 6%nat -> length mac' = 6%nat -> wf_bytes mac -> wf_bytes mac' -> mac' <> mac ->
  binding_of (maps (after s [RemoveBinding mac])) mac' = binding_of (maps s) mac'.
Proof.
  intros s mac mac' Hmac Hmac' Hw Hw' Hne.
  assert (Hk : mac_key mac <> mac_key mac') by (intros E; apply Hne; symmetry; apply mac_key_injective; assumption).
  unfold after. cbn [fold_left step]. rewrite Hmac.
  cbn [length N.of_nat Pos.of_succ_nat Pos.succ N.eqb Pos.eqb negb fst].
  rewrite <- !(c_mac_key_go mac). change (c_mac_key mac) with (mac_key mac).
  unfold binding_of. cbn [maps set_bind a_bind]. apply m_get_del_other. exact Hk.
Qed.

(* ---- every value of subscriber_bindings is a 24-byte struct, after any history *)
Definition vals24 (m : kvmap) : Prop := Forall (fun kv => length (snd kv) = 24%nat) m.

Lemma m_put_vals24 m : forall k v, vals24 m -> length v = 24%nat -> vals24 (m_put m k v).
Proof.
  unfold vals24. induction m as [|[k0 v0] m IH]; intros k v H Hv; cbn [m_put].
  - constructor; [exact Hv|constructor].
  - inversion H as [|? ? H0 H1]; subst. destruct (bytes_eqb k k0).
    + constructor; assumption.
    + destruct (lex_leb k k0); [constructor; assumption|]. constructor; [exact H0|apply IH; assumption].
Qed.
Lemma m_del_vals24 m : forall k, vals24 m -> vals24 (m_del m k).
Proof.
  unfold vals24. induction m as [|[k0 v0] m IH]; intros k H; cbn [m_del]; [exact H|].
  inversion H as [|? ? H0 H1]; subst. destruct (bytes_eqb k k0); [exact H1|]. constructor; [exact H0|apply IH; exact H1].
Qed.
Lemma m_get_vals24 m : forall k b, vals24 m -> m_get m k = Some b -> length b = 24%nat.
Proof.
  unfold vals24. induction m as [|[k0 v0] m IH]; intros k b H E; cbn [m_get] in E; [discriminate|].
  inversion H as [|? ? H0 H1]; subst. destruct (bytes_eqb k k0); [inversion E; subst; exact H0|]. exact (IH k b H1 E).
Qed.

Lemma to4_len ip a : to4 ip = Some a -> length a = 4%nat.
Proof.
  unfold to4. destruct (N.of_nat (length ip) =? 4) eqn:E4.
  - intros X. inversion X; subst. apply N.eqb_eq in E4. lia.
  - unfold is_v4mapped. destruct (N.of_nat (length ip) =? 16) eqn:E16; cbn [andb]; [|discriminate].
    destruct (bytes_eqb _ _); [|discriminate]. intros X. injection X as X. subst a. change (length (skipn 12 ip) = 4%nat). rewrite skipn_length. apply N.eqb_eq in E16. lia.
Qed.
Lemma to16_len ip a : to16 ip = Some a -> length a = 16%nat.
Proof.
  unfold to16. destruct (N.of_nat (length ip) =? 4) eqn:E4.
  - intros X. injection X as X. subst a. cbn [app length]. apply N.eqb_eq in E4. lia.
  - destruct (N.of_nat (length ip) =? 16) eqn:E16; [|discriminate]. intros X. inversion X; subst. apply N.eqb_eq in E16. lia.
Qed.

Lemma step_vals24 s o : vals24 (a_bind (maps s)) -> vals24 (a_bind (maps (fst (fst (step s o))))).
Proof.
  intros H. destruct o; cbn [step].
  - exact H.
  - destruct (negb _); [exact H|]. cbn [fst maps set_bind a_bind]. apply m_put_vals24; [exact H|].
    destruct (to4 ip) as [ip4|] eqn:E; unfold mk_binding; rewrite !app_length; [rewrite rev_length, (to4_len _ _ E)|]; reflexivity.
  - destruct (negb _); [exact H|]. cbn [fst maps set_bind a_bind]. apply m_put_vals24; [exact H|].
    match goal with |- context [firstn 4 ?o] => set (old := o) end.
    assert (Hold : length old = 24%nat).
    { unfold old. destruct (m_get _ _) eqn:E; [exact (m_get_vals24 _ _ _ H E)|reflexivity]. }
    destruct (to16 ip) as [ip6|] eqn:E; rewrite !app_length, firstn_length, Hold; [rewrite (to16_len _ _ E)|]; reflexivity.
  - destruct (negb _); [exact H|]. cbn [fst maps set_bind a_bind]. apply m_del_vals24. exact H.
  - exact H.
  - destruct (to4 ip); [|exact H]. destruct (32 <? ones); exact H.
  - destruct (N.of_nat (length mac) =? 6); cbn [andb]; [|exact H].
    destruct (N.of_nat (length val) =? 24) eqn:E; [|exact H]. cbn [fst maps set_bind a_bind].
    apply m_put_vals24; [exact H|]. apply N.eqb_eq in E. lia.
  - destruct (_ =? 8); exact H.
  - destruct (_ && _); exact H.
  - destruct (antispoof_prog (maps s) f) as [v mk]. exact H.
  - exact H.
Qed.

Lemma after_vals24 ops : forall s, vals24 (a_bind (maps s)) -> vals24 (a_bind (maps (after s ops))).
Proof.
  induction ops as [|o ops IH]; intros s H; [exact H|]. unfold after. cbn [fold_left]. apply IH. apply step_vals24. exact H.
Qed.

(* strict IPv6 through the manager, FULL: after any control-plane history, AddBindingV6(mac, a) under a strict manager
   makes the program forward an IPv6 frame from mac iff its source is a *)
Theorem v6_binding_takes_effect : forall ops mac ip6 f src,
  length mac = 6%nat -> length ip6 = 16%nat -> mgr_mode (after init ops) = MODE_STRICT -> v6_frame f mac src ->
  (forwards (maps (after (after init ops) [AddBindingV6 mac ip6])) f <-> src = ip6).
Proof.
  intros ops mac ip6 f src Hmac H6 Hmode Hf. set (s := after init ops) in *.
  assert (Hv : vals24 (a_bind (maps s))) by (apply after_vals24; constructor).
  unfold after at 1. cbn [fold_left step]. rewrite Hmac.
  cbn [length N.of_nat Pos.of_succ_nat Pos.succ N.eqb Pos.eqb negb fst].
  rewrite <- !(c_mac_key_go mac). change (c_mac_key mac) with (mac_key mac).
  match goal with |- context [firstn 4 ?o] => set (old := o) end.
  assert (Hold : length old = 24%nat).
  { unfold old. destruct (m_get _ _) eqn:E; [exact (m_get_vals24 _ _ _ Hv E)|reflexivity]. }
  unfold to16. rewrite H6. cbn [N.of_nat Pos.of_succ_nat Pos.succ N.eqb Pos.eqb]. rewrite Hmode.
  cbn [maps set_bind a_bind a_cfg a_ranges].
  destruct old as [|o0 [|o1 [|o2 [|o3 orest]]]]; try discriminate Hold.
  do 16 (destruct ip6 as [|? ip6]; [discriminate|]). destruct ip6; [|discriminate].
  cbn [firstn app].
  match goal with |- forwards {| a_cfg := _; a_bind := m_put ?mm ?k ?v; a_ranges := _ |} _ <-> _ =>
    set (v2 := v); set (m' := {| a_cfg := a_cfg (maps s); a_bind := m_put mm k v2; a_ranges := a_ranges (maps s) |}) end.
  assert (Hb : binding_of m' mac = Some v2) by (unfold binding_of, m'; cbn [a_bind]; apply m_get_put).
  assert (He : eff_mode m' mac = MODE_STRICT) by (unfold eff_mode; rewrite Hb; reflexivity).
  rewrite (strict_iff_equal_v6 m' f mac src Hf He). rewrite Hb. split.
  - intros (b' & Hb' & _ & Hs). inversion Hb'; subst b'. rewrite Hs. reflexivity.
  - intros ->. exists v2. repeat split; cbn; discriminate.
Qed.

(* strict IPv4 through the manager, exactly as coded (K18a for EVERY address): the admitted source is the
   byte-reversed address *)
Theorem binding_effect_as_coded : forall s mac ip f src,
  length mac = 6%nat -> length ip = 4%nat -> mgr_mode s = MODE_STRICT -> v4_frame f mac src ->
  (forwards (maps (after s [AddBinding mac ip])) f <-> src = rev ip).
Proof.
  intros s mac ip f src Hmac Hip Hmode Hf.
  destruct ip as [|a [|b [|c [|d [|]]]]]; try discriminate.
  unfold after. cbn [fold_left step]. rewrite Hmac. cbn [length N.of_nat Pos.of_succ_nat Pos.succ N.eqb Pos.eqb negb].
  cbn [to4 length N.of_nat Pos.of_succ_nat Pos.succ N.eqb Pos.eqb rev app fst]. rewrite Hmode.
  rewrite <- !(c_mac_key_go mac). change (c_mac_key mac) with (mac_key mac).
  set (v := mk_binding [d; c; b; a] zero16 1 0 MODE_STRICT).
  set (m' := maps (set_bind s (m_put (a_bind (maps s)) (mac_key mac) v))).
  assert (Hb : binding_of m' mac = Some v) by (unfold binding_of, m'; cbn [maps set_bind a_bind]; apply m_get_put).
  assert (He : eff_mode m' mac = MODE_STRICT) by (unfold eff_mode; rewrite Hb; reflexivity).
  rewrite (strict_iff_equal_v4 m' f mac src Hf He). rewrite Hb. split.
  - intros (b' & Hb' & _ & Hs). inversion Hb'; subst b'. rewrite Hs. reflexivity.
  - intros ->. exists v. repeat split. cbn. discriminate.
Qed.

(* ---- modes through the manager *)
(* SetMode takes effect exactly as written: the default mode the program applies to senders without a binding, and
   the mode the manager writes into bindings from then on *)
Theorem set_mode_takes_effect : forall s m mac, binding_of (maps s) mac = None ->
  eff_mode (maps (after s [SetMode m])) mac = N.land m 255 /\ mgr_mode (after s [SetMode m]) = N.land m 255.
Proof.
  intros s m mac H. unfold after. cbn [fold_left step fst]. unfold eff_mode, binding_of in *. cbn [maps a_bind a_cfg mgr_mode].
  rewrite H. split; reflexivity.
Qed.

(* "in log-only mode it is always forwarded", through the control plane: after SetMode(log-only) every frame of every
   sender without a binding is forwarded - any length, any ethertype *)
Theorem log_only_default_forwards_unbound : forall s f,
  (forall mac, rd f 6 6 = Some mac -> binding_of (maps s) mac = None) -> forwards (maps (after s [SetMode 3])) f.
Proof.
  intros s f H. apply (mode_forwards_all _ f MODE_LOG_ONLY); [left; reflexivity|].
  intros mac Hm. destruct (set_mode_takes_effect s 3 mac (H mac Hm)) as [E _]. exact E.
Qed.

(* the mode in force for a subscriber is the manager's mode at the time its binding was written *)
Theorem add_binding_mode : forall s mac ip, length mac = 6%nat ->
  eff_mode (maps (after s [AddBinding mac ip])) mac = mgr_mode s.
Proof.
  intros s mac ip Hmac. unfold after. cbn [fold_left step]. rewrite Hmac.
  cbn [length N.of_nat Pos.of_succ_nat Pos.succ N.eqb Pos.eqb negb fst].
  rewrite <- !(c_mac_key_go mac). change (c_mac_key mac) with (mac_key mac).
  unfold eff_mode, binding_of. cbn [maps set_bind a_bind]. rewrite m_get_put.
  destruct (to4 ip) as [ip4|] eqn:E; [|reflexivity].
  pose proof (to4_len _ _ E) as Hl. destruct ip4 as [|a [|b [|c [|d [|]]]]]; try discriminate Hl. reflexivity.
Qed.

Theorem add_binding_v6_mode : forall ops mac ip, length mac = 6%nat ->
  eff_mode (maps (after (after init ops) [AddBindingV6 mac ip])) mac = mgr_mode (after init ops).
Proof.
  intros ops mac ip Hmac. set (s := after init ops).
  assert (Hv : vals24 (a_bind (maps s))) by (apply after_vals24; constructor).
  unfold after at 1. cbn [fold_left step]. rewrite Hmac.
  cbn [length N.of_nat Pos.of_succ_nat Pos.succ N.eqb Pos.eqb negb fst].
  rewrite <- !(c_mac_key_go mac). change (c_mac_key mac) with (mac_key mac).
  match goal with |- context [firstn 4 ?o] => set (old := o) end.
  assert (Hold : length old = 24%nat).
  { unfold old. destruct (m_get _ _) eqn:E; [exact (m_get_vals24 _ _ _ Hv E)|reflexivity]. }
  unfold eff_mode, binding_of. cbn [maps set_bind a_bind]. rewrite m_get_put.
  do 24 (destruct old as [|? old]; [discriminate Hold|]). destruct old; [|discriminate Hold].
  destruct (to16 ip) as [ip6|] eqn:E; [|reflexivity].
  pose proof (to16_len _ _ E) as Hl.
  do 16 (destruct ip6 as [|? ip6]; [discriminate Hl|]). destruct ip6; [|discriminate Hl]. reflexivity.
Qed.
