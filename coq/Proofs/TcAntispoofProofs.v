(* Lemmas for C18 (Model/TcAntispoof.v, Model/AntispoofMgr.v). *)
From Coq Require Import ZArith NArith List Bool Lia ZifyN ZifyNat ZifyBool.
From Verif Require Import Base.Word Base.Check Model.TcQos Model.TcAntispoof Model.AntispoofMgr Model.TcAntispoofSpec.
Import ListNotations.
Local Open Scope N_scope.

Definition verdict_of (m : amaps) (f : bytes) : averdict := fst (antispoof_prog m f).
Definition forwards (m : amaps) (f : bytes) : Prop := verdict_of m f = ARet TC_ACT_OK.
Definition drops (m : amaps) (f : bytes) : Prop := verdict_of m f = ARet TC_ACT_SHOT.

(* the mode in force for a sender: its binding's mode, else the configured default (absent config: disabled) *)
Definition default_mode (m : amaps) : N := match a_cfg m with Some c => nthb c 0 | None => MODE_DISABLED end.
Definition binding_of (m : amaps) (mac : bytes) : option bytes := m_get (a_bind m) (mac_key mac).
Definition eff_mode (m : amaps) (mac : bytes) : N :=
  match binding_of m mac with Some b => nthb b 22 | None => default_mode m end.

(* complete IPv4 / IPv6 frames from [mac] with source [src] *)
Definition v4_frame (f mac src : bytes) : Prop :=
  (34 <= length f)%nat /\ rd f 6 6 = Some mac /\ rd f 12 2 = Some [8; 0] /\ rd f 26 4 = Some src.
Definition v6_frame (f mac src : bytes) : Prop :=
  (54 <= length f)%nat /\ rd f 6 6 = Some mac /\ rd f 12 2 = Some [134; 221] /\ rd f 22 16 = Some src.

Lemma bytes_eqb_refl a : bytes_eqb a a = true.
Proof. apply bytes_eqb_eq. reflexivity. Qed.
Lemma bytes_eqb_neq a b : a <> b -> bytes_eqb a b = false.
Proof. intros H. destruct (bytes_eqb a b) eqn:E; [apply bytes_eqb_eq in E; contradiction|reflexivity]. Qed.

Lemma rd_some f off n : (off + n <= length f)%nat -> exists l, rd f off n = Some l.
Proof. intros H. unfold rd. apply Nat.leb_le in H. rewrite H. eexists; reflexivity. Qed.

Lemma short_frame_forwards m f : (length f < 14)%nat -> antispoof_prog m f = (ARet TC_ACT_OK, []).
Proof. intros H. unfold antispoof_prog. apply Nat.ltb_lt in H. rewrite H. reflexivity. Qed.

(* the IPv4 branch as a function of (mode, binding, ranges, src) *)
Definition v4_allowed (m : amaps) (mac src : bytes) : bool :=
  let binding := binding_of m mac in
  let mode := eff_mode m mac in
  if mode =? MODE_LOOSE then in_ranges (a_ranges m) src
  else match binding with
       | Some b => if negb (nthb b 20 =? 0)
                   then (if (mode =? MODE_STRICT) || (mode =? MODE_LOG_ONLY) then bytes_eqb src (firstn 4 b) else false)
                   else false
       | None => false
       end.

Lemma prog_v4 m f mac src : v4_frame f mac src -> eff_mode m mac <> MODE_DISABLED ->
  verdict_of m f = if v4_allowed m mac src then ARet TC_ACT_OK
                   else if eff_mode m mac =? MODE_LOG_ONLY then ARet TC_ACT_OK else ARet TC_ACT_SHOT.
Proof.
  intros (Hlen & Hmac & Hproto & Hsrc) Hmode. unfold verdict_of, antispoof_prog.
  replace (Nat.ltb (length f) 14) with false by (symmetry; apply Nat.ltb_ge; lia).
  rewrite Hmac, Hproto. fold (default_mode m). fold (binding_of m mac).
  change (match binding_of m mac with Some b => nthb b 22 | None => default_mode m end) with (eff_mode m mac).
  replace (eff_mode m mac =? MODE_DISABLED) with false by (symmetry; apply N.eqb_neq; exact Hmode).
  cbn [bytes_eqb N.eqb Pos.eqb andb].
  replace (Nat.ltb (length f) 34) with false by (symmetry; apply Nat.ltb_ge; lia).
  rewrite Hsrc. unfold v4_allowed.
  destruct (eff_mode m mac =? MODE_LOOSE); [destruct (in_ranges _ _); [reflexivity|destruct (_ =? MODE_LOG_ONLY); reflexivity]|].
  destruct (binding_of m mac) as [b|]; [|destruct (_ =? MODE_LOG_ONLY); reflexivity].
  destruct (negb (nthb b 20 =? 0)); [|destruct (_ =? MODE_LOG_ONLY); reflexivity].
  destruct ((eff_mode m mac =? MODE_STRICT) || (eff_mode m mac =? MODE_LOG_ONLY)); [|destruct (_ =? MODE_LOG_ONLY); reflexivity].
  destruct (bytes_eqb src (firstn 4 b)); [reflexivity|destruct (_ =? MODE_LOG_ONLY); reflexivity].
Qed.

Definition v6_allowed (m : amaps) (mac src : bytes) : bool :=
  match binding_of m mac with
  | Some b => if negb (nthb b 21 =? 0) then bytes_eqb src (firstn 16 (skipn 4 b)) else (eff_mode m mac =? MODE_LOOSE)
  | None => (eff_mode m mac =? MODE_LOOSE)
  end.

Lemma prog_v6 m f mac src : v6_frame f mac src -> eff_mode m mac <> MODE_DISABLED ->
  verdict_of m f = if negb (v6_allowed m mac src) && negb (eff_mode m mac =? MODE_LOG_ONLY) then ARet TC_ACT_SHOT else ARet TC_ACT_OK.
Proof.
  intros (Hlen & Hmac & Hproto & Hsrc) Hmode. unfold verdict_of, antispoof_prog.
  replace (Nat.ltb (length f) 14) with false by (symmetry; apply Nat.ltb_ge; lia).
  rewrite Hmac, Hproto. fold (default_mode m). fold (binding_of m mac).
  change (match binding_of m mac with Some b => nthb b 22 | None => default_mode m end) with (eff_mode m mac).
  replace (eff_mode m mac =? MODE_DISABLED) with false by (symmetry; apply N.eqb_neq; exact Hmode).
  cbn [bytes_eqb N.eqb Pos.eqb andb].
  replace (Nat.ltb (length f) 54) with false by (symmetry; apply Nat.ltb_ge; lia).
  rewrite Hsrc. unfold v6_allowed.
  destruct (binding_of m mac) as [b|]; [destruct (negb (nthb b 21 =? 0))|];
    match goal with |- context [negb ?a && negb ?c] => destruct (negb a && negb c) end; reflexivity.
Qed.

(* ---- strict: forwarded iff the source equals the bound address *)
Theorem strict_iff_equal_v4 : forall m f mac src,
  v4_frame f mac src -> eff_mode m mac = MODE_STRICT ->
  (forwards m f <-> exists b, binding_of m mac = Some b /\ nthb b 20 <> 0 /\ src = firstn 4 b).
Proof.
  intros m f mac src Hf Hm. unfold forwards. rewrite (prog_v4 m f mac src Hf) by (rewrite Hm; discriminate).
  unfold v4_allowed. rewrite Hm. cbn [N.eqb Pos.eqb MODE_STRICT MODE_LOOSE MODE_LOG_ONLY orb].
  destruct (binding_of m mac) as [b|].
  - destruct (nthb b 20 =? 0) eqn:Ev; cbn [negb].
    + split; [discriminate|]. intros (b' & Hb & Hv & _). inversion Hb; subst. apply N.eqb_eq in Ev. contradiction.
    + destruct (bytes_eqb src (firstn 4 b)) eqn:Ee.
      * split; [|reflexivity]. intros _. exists b. apply bytes_eqb_eq in Ee. apply N.eqb_neq in Ev. auto.
      * split; [discriminate|]. intros (b' & Hb & _ & He). inversion Hb; subst. rewrite bytes_eqb_refl in Ee. discriminate.
  - split; [discriminate|]. intros (b' & Hb & _). discriminate.
Qed.

Theorem strict_iff_equal_v6 : forall m f mac src,
  v6_frame f mac src -> eff_mode m mac = MODE_STRICT ->
  (forwards m f <-> exists b, binding_of m mac = Some b /\ nthb b 21 <> 0 /\ src = firstn 16 (skipn 4 b)).
Proof.
  intros m f mac src Hf Hm. unfold forwards. rewrite (prog_v6 m f mac src Hf) by (rewrite Hm; discriminate).
  unfold v6_allowed. rewrite Hm. cbn [N.eqb Pos.eqb MODE_STRICT MODE_LOOSE MODE_LOG_ONLY negb andb].
  destruct (binding_of m mac) as [b|].
  - destruct (nthb b 21 =? 0) eqn:Ev; cbn [negb andb].
    + split; [discriminate|]. intros (b' & Hb & Hv & _). inversion Hb; subst. apply N.eqb_eq in Ev. contradiction.
    + destruct (bytes_eqb src (firstn 16 (skipn 4 b))) eqn:Ee; cbn [negb andb].
      * split; [|reflexivity]. intros _. exists b. apply bytes_eqb_eq in Ee. apply N.eqb_neq in Ev. auto.
      * split; [discriminate|]. intros (b' & Hb & _ & He). inversion Hb; subst. rewrite bytes_eqb_refl in Ee. discriminate.
  - cbn. split; [discriminate|]. intros (b' & Hb & _). discriminate.
Qed.

(* ---- every frame whatsoever is forwarded when the mode in force for its sender is log-only or disabled *)
Lemma prog_total m f : (14 <= length f)%nat -> exists mac proto, rd f 6 6 = Some mac /\ rd f 12 2 = Some proto.
Proof.
  intros H. destruct (rd_some f 6 6 ltac:(lia)) as (mac & Hm). destruct (rd_some f 12 2 ltac:(lia)) as (p & Hp). eauto.
Qed.

Theorem mode_forwards_all : forall m f mo, (mo = MODE_LOG_ONLY \/ mo = MODE_DISABLED) ->
  (forall mac, rd f 6 6 = Some mac -> eff_mode m mac = mo) -> forwards m f.
Proof.
  intros m f mo Hmo Hall. unfold forwards, verdict_of.
  destruct (Nat.ltb (length f) 14) eqn:El; [apply Nat.ltb_lt in El; rewrite short_frame_forwards by exact El; reflexivity|].
  apply Nat.ltb_ge in El. destruct (prog_total m f El) as (mac & proto & Hmac & Hproto).
  specialize (Hall mac Hmac). unfold antispoof_prog.
  replace (Nat.ltb (length f) 14) with false by (symmetry; apply Nat.ltb_ge; lia).
  rewrite Hmac, Hproto. fold (default_mode m). fold (binding_of m mac).
  change (match binding_of m mac with Some b => nthb b 22 | None => default_mode m end) with (eff_mode m mac).
  rewrite Hall. destruct Hmo as [-> | ->]; [|reflexivity]. cbn [N.eqb Pos.eqb MODE_LOG_ONLY MODE_DISABLED MODE_LOOSE MODE_STRICT].
  destruct (bytes_eqb proto [8; 0]).
  - destruct (Nat.ltb (length f) 34) eqn:E34; [reflexivity|]. apply Nat.ltb_ge in E34.
    destruct (rd_some f 26 4 ltac:(lia)) as (src & Hs). rewrite Hs.
    destruct (binding_of m mac) as [b|]; [|reflexivity].
    destruct (negb (nthb b 20 =? 0)); [|reflexivity]. cbn [orb]. destruct (bytes_eqb src (firstn 4 b)); reflexivity.
  - destruct (bytes_eqb proto [134; 221]); [|reflexivity].
    destruct (Nat.ltb (length f) 54) eqn:E54; [reflexivity|]. apply Nat.ltb_ge in E54.
    destruct (rd_some f 22 16 ltac:(lia)) as (src & Hs). rewrite Hs. cbn [negb andb].
    rewrite andb_false_r. reflexivity.
Qed.

(* ---- non-IP traffic and truncated IP headers are forwarded, whatever the maps *)
Theorem non_ip_forwards : forall m f proto, rd f 12 2 = Some proto -> proto <> [8; 0] -> proto <> [134; 221] -> forwards m f.
Proof.
  intros m f proto Hp H4 H6. unfold forwards, verdict_of.
  destruct (Nat.ltb (length f) 14) eqn:El; [apply Nat.ltb_lt in El; rewrite short_frame_forwards by exact El; reflexivity|].
  apply Nat.ltb_ge in El. destruct (prog_total m f El) as (mac & proto' & Hmac & Hproto). rewrite Hp in Hproto. inversion Hproto; subst proto'.
  unfold antispoof_prog. replace (Nat.ltb (length f) 14) with false by (symmetry; apply Nat.ltb_ge; lia).
  rewrite Hmac, Hp. rewrite (bytes_eqb_neq _ _ H4), (bytes_eqb_neq _ _ H6).
  destruct (_ =? MODE_DISABLED); reflexivity.
Qed.

Theorem truncated_ip_forwards : forall m f, (length f < 34)%nat -> rd f 12 2 = Some [8; 0] -> forwards m f.
Proof.
  intros m f Hl Hp. unfold forwards, verdict_of.
  destruct (Nat.ltb (length f) 14) eqn:El; [apply Nat.ltb_lt in El; rewrite short_frame_forwards by exact El; reflexivity|].
  apply Nat.ltb_ge in El. destruct (prog_total m f El) as (mac & proto' & Hmac & Hproto). rewrite Hp in Hproto. inversion Hproto; subst proto'.
  unfold antispoof_prog. replace (Nat.ltb (length f) 14) with false by (symmetry; apply Nat.ltb_ge; lia).
  rewrite Hmac, Hp. cbn [bytes_eqb N.eqb Pos.eqb andb].
  replace (Nat.ltb (length f) 34) with true by (symmetry; apply Nat.ltb_lt; lia).
  destruct (_ =? MODE_DISABLED); reflexivity.
Qed.

(* the program never reads outside the frame *)
Theorem never_oob : forall m f, verdict_of m f <> AOob.
Proof.
  intros m f. unfold verdict_of.
  destruct (Nat.ltb (length f) 14) eqn:El; [apply Nat.ltb_lt in El; rewrite short_frame_forwards by exact El; discriminate|].
  apply Nat.ltb_ge in El. destruct (prog_total m f El) as (mac & proto & Hmac & Hproto).
  unfold antispoof_prog. replace (Nat.ltb (length f) 14) with false by (symmetry; apply Nat.ltb_ge; lia).
  rewrite Hmac, Hproto. destruct (_ =? MODE_DISABLED); [discriminate|].
  destruct (bytes_eqb proto [8; 0]).
  - destruct (Nat.ltb (length f) 34) eqn:E34; [discriminate|]. apply Nat.ltb_ge in E34.
    destruct (rd_some f 26 4 ltac:(lia)) as (src & Hs). rewrite Hs.
    match goal with |- context [if ?c then (ARet TC_ACT_OK, _) else _] => destruct c end; [discriminate|].
    destruct (_ =? MODE_LOG_ONLY); discriminate.
  - destruct (bytes_eqb proto [134; 221]); [|discriminate].
    destruct (Nat.ltb (length f) 54) eqn:E54; [discriminate|]. apply Nat.ltb_ge in E54.
    destruct (rd_some f 22 16 ltac:(lia)) as (src & Hs). rewrite Hs.
    match goal with |- context [if ?c then (ARet TC_ACT_SHOT, _) else _] => destruct c end; discriminate.
Qed.
