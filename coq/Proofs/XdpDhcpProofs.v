(* C03 lemmas about Model/XdpDhcp.v (the fast-path program and the Go side of its cache). *)
From Coq Require Import NArith List Bool Lia ZifyN ZifyNat ZifyBool Arith.
From Verif Require Import Base.Word Model.XdpDhcp Model.XdpDhcpSpec.
Import ListNotations.
Local Open Scope N_scope.

(* ------------------------------------------------------------------ rd / upd basics *)
Lemma upd_length f o bs f' : upd f o bs = Some f' -> length f' = length f.
Proof.
  unfold upd. destruct (Nat.leb (o + length bs) (length f)) eqn:E; [|discriminate].
  intros H; inversion H; subst. apply Nat.leb_le in E.
  rewrite !app_length, firstn_length, skipn_length. lia.
Qed.

Lemma upds_length ws : forall f f', upds f ws = Some f' -> length f' = length f.
Proof.
  induction ws as [|[o bs] ws IH]; cbn; intros f f' H; [inversion H; reflexivity|].
  destruct (upd f o bs) eqn:E; [|discriminate].
  rewrite (IH _ _ H). eapply upd_length; eauto.
Qed.

Lemma rd_length f o n l : rd f o n = Some l -> length l = n.
Proof.
  unfold rd. destruct (Nat.leb (o + n) (length f)) eqn:E; [|discriminate].
  intros H; inversion H; subst. apply Nat.leb_le in E.
  rewrite firstn_length, skipn_length. lia.
Qed.

Lemma in_firstn {A} (x : A) n : forall l, In x (firstn n l) -> In x l.
Proof. induction n; intros [|y l]; cbn; try tauto. intros [H|H]; auto. Qed.
Lemma in_skipn {A} (x : A) n : forall l, In x (skipn n l) -> In x l.
Proof. induction n; intros [|y l]; cbn; try tauto. intros H; auto. Qed.

Lemma rd_wf f o n l : wf_bytes f -> rd f o n = Some l -> wf_bytes l.
Proof.
  unfold rd, wf_bytes. destruct (Nat.leb (o + n) (length f)); [|discriminate].
  intros W H; inversion H; subst. rewrite Forall_forall in *. intros x Hx.
  apply W. eapply in_skipn. eapply in_firstn. exact Hx.
Qed.

(* ------------------------------------------------------------------ the IP checksum (RFC 1071) *)
Lemma fold16_spec x : fold16 x = x mod 65536 + x / 65536.
Proof.
  unfold fold16. change 65535 with (N.ones 16). rewrite N.land_ones, N.shiftr_div_pow2. reflexivity.
Qed.

Lemma land_ones32_small s : s <= 65535 -> N.land s 4294967295 = s.
Proof.
  intros H. change 4294967295 with (N.ones 32). rewrite N.land_ones. apply N.mod_small. cbn. lia.
Qed.

Lemma land_low16 x : N.land x 65535 = x mod 65536.
Proof. change 65535 with (N.ones 16). rewrite N.land_ones. reflexivity. Qed.

(* the checksum of a 20-byte header whose check field is zero, stored into that field (little-endian
   store of the little-endian sum, as the program does), makes the big-endian one's-complement sum of
   the ten words 0xFFFF - for every header content *)
Lemma checksum_valid_20 a0 a1 a2 a3 a4 a5 a6 a7 a8 a9 a12 a13 a14 a15 a16 a17 a18 a19 :
  let h := [a0; a1; a2; a3; a4; a5; a6; a7; a8; a9; 0; 0; a12; a13; a14; a15; a16; a17; a18; a19] in
  wf_bytes h ->
  let c := ip_checksum h in
  ip_checksum_valid [a0; a1; a2; a3; a4; a5; a6; a7; a8; a9; c mod 256; (c / 256) mod 256;
                     a12; a13; a14; a15; a16; a17; a18; a19] = true.
Proof.
  intros h W c.
  assert (B : a0 < 256 /\ a1 < 256 /\ a2 < 256 /\ a3 < 256 /\ a4 < 256 /\ a5 < 256 /\ a6 < 256 /\
              a7 < 256 /\ a8 < 256 /\ a9 < 256 /\ a12 < 256 /\ a13 < 256 /\ a14 < 256 /\ a15 < 256 /\
              a16 < 256 /\ a17 < 256 /\ a18 < 256 /\ a19 < 256).
  { unfold wf_bytes, h in W. repeat (apply Forall_cons_iff in W; destruct W as [? W]). repeat split; assumption. }
  set (S := a0 + 256 * a1 + (a2 + 256 * a3 + (a4 + 256 * a5 + (a6 + 256 * a7 + (a8 + 256 * a9 +
            (0 + 256 * 0 + (a12 + 256 * a13 + (a14 + 256 * a15 + (a16 + 256 * a17 + (a18 + 256 * a19 + 0)))))))))).
  assert (HS : sum_le16 h = S) by reflexivity.
  assert (Hc : c = N.land (4294967295 - N.land (fold16 (fold16 S)) 4294967295) 65535) by (unfold c, ip_checksum; rewrite HS; reflexivity).
  rewrite !fold16_spec in Hc.
  pose proof (N.div_mod' S 65536) as D1. pose proof (N.mod_lt S 65536 ltac:(discriminate)) as L1.
  set (q1 := S / 65536) in *. set (r1 := S mod 65536) in *.
  pose proof (N.div_mod' (r1 + q1) 65536) as D2. pose proof (N.mod_lt (r1 + q1) 65536 ltac:(discriminate)) as L2.
  set (q2 := (r1 + q1) / 65536) in *. set (r2 := (r1 + q1) mod 65536) in *.
  assert (HSb : S <= 655350) by (unfold S; lia).
  assert (HF : r2 + q2 <= 65535) by lia.
  rewrite (land_ones32_small _ HF), land_low16 in Hc.
  pose proof (N.div_mod' (4294967295 - (r2 + q2)) 65536) as D3.
  pose proof (N.mod_lt (4294967295 - (r2 + q2)) 65536 ltac:(discriminate)) as L3.
  rewrite <- Hc in D3, L3. set (q3 := (4294967295 - (r2 + q2)) / 65536) in *.
  assert (Hc' : c = 65535 - (r2 + q2)) by lia.
  pose proof (N.div_mod' c 256) as D4. pose proof (N.mod_lt c 256 ltac:(discriminate)) as L4.
  set (ch := c / 256) in *. set (cl := c mod 256) in *.
  assert (Hch : ch < 256) by lia.
  rewrite (N.mod_small ch 256 Hch).
  unfold ip_checksum_valid.
  set (SB := sum_be16 [a0; a1; a2; a3; a4; a5; a6; a7; a8; a9; cl; ch; a12; a13; a14; a15; a16; a17; a18; a19]).
  assert (HSB : SB = 256 * a0 + a1 + (256 * a2 + a3 + (256 * a4 + a5 + (256 * a6 + a7 + (256 * a8 + a9 +
            (256 * cl + ch + (256 * a12 + a13 + (256 * a14 + a15 + (256 * a16 + a17 + (256 * a18 + a19 + 0)))))))))) by reflexivity.
  assert (E : exists t, SB = 65535 * t /\ 0 < t).
  { exists (256 + 256 * (q1 + q2) - (a1 + a3 + a5 + a7 + a9 + a13 + a15 + a17 + a19) - ch).
    unfold S in *. clearbody q1 r1 q2 r2 q3 ch cl SB. lia. }
  destruct E as [t [Et Pt]].
  rewrite Et. rewrite N.mul_comm, N.mod_mul by discriminate.
  apply andb_true_iff; split; [apply N.ltb_lt; lia | reflexivity].
Qed.

(* ------------------------------------------------------------------ list algebra for rd / upd *)
Lemma skipn_skipn' {A} a : forall b (l : list A), skipn a (skipn b l) = skipn (b + a) l.
Proof.
  intros b; induction b as [|b IH]; intros l; cbn; [reflexivity|].
  destruct l; [destruct a; reflexivity|]. apply IH.
Qed.

Lemma firstn_add {A} a b : forall l : list A, firstn (a + b) l = firstn a l ++ firstn b (skipn a l).
Proof. induction a as [|a IH]; intros [|x l]; cbn; try reflexivity; [destruct b; reflexivity|]. rewrite IH. reflexivity. Qed.

Lemma rd_some f o n : (o + n <= length f)%nat -> rd f o n = Some (firstn n (skipn o f)).
Proof. intros H. unfold rd. apply Nat.leb_le in H. rewrite H. reflexivity. Qed.

Lemma rd_bound f o n l : rd f o n = Some l -> (o + n <= length f)%nat.
Proof. unfold rd. destruct (Nat.leb (o + n) (length f)) eqn:E; [|discriminate]. intros _. apply Nat.leb_le. exact E. Qed.

Lemma rd_app_l A X o n : (o + n <= length A)%nat -> rd (A ++ X) o n = rd A o n.
Proof.
  intros H. rewrite !rd_some by (rewrite ?app_length; lia). f_equal.
  rewrite skipn_app, firstn_app, skipn_length.
  replace (n - (length A - o))%nat with 0%nat by lia. rewrite firstn_O, app_nil_r. reflexivity.
Qed.

Lemma rd_app_r A X k n : rd (A ++ X) (length A + k) n = rd X k n.
Proof.
  unfold rd. rewrite app_length.
  replace (Nat.leb (length A + k + n) (length A + length X)) with (Nat.leb (k + n) (length X)).
  2:{ destruct (Nat.leb (k + n) (length X)) eqn:E; symmetry; [apply Nat.leb_le in E; apply Nat.leb_le; lia|apply Nat.leb_gt in E; apply Nat.leb_gt; lia]. }
  destruct (Nat.leb (k + n) (length X)); [|reflexivity]. f_equal. f_equal.
  rewrite skipn_app, skipn_all2 by lia. cbn. f_equal. lia.
Qed.

Lemma rd_firstn f k o n : (o + n <= k)%nat -> (k <= length f)%nat -> rd (firstn k f) o n = rd f o n.
Proof.
  intros H1 H2. rewrite !rd_some by (rewrite ?firstn_length; lia). f_equal.
  rewrite skipn_firstn_comm, firstn_firstn. f_equal. lia.
Qed.

Lemma rd_skipn f k j n : (k <= length f)%nat -> rd (skipn k f) j n = rd f (k + j) n.
Proof.
  intros H. unfold rd. rewrite skipn_length, skipn_skipn'.
  replace (Nat.leb (j + n) (length f - k)) with (Nat.leb (k + j + n) (length f)); [reflexivity|].
  destruct (Nat.leb (k + j + n) (length f)) eqn:E; symmetry; [apply Nat.leb_le in E; apply Nat.leb_le; lia|apply Nat.leb_gt in E; apply Nat.leb_gt; lia].
Qed.

Lemma upd_shape f o bs f' : upd f o bs = Some f' ->
  f' = firstn o f ++ bs ++ skipn (o + length bs) f /\ (o + length bs <= length f)%nat.
Proof.
  unfold upd. destruct (Nat.leb (o + length bs) (length f)) eqn:E; [|discriminate].
  intros H; inversion H. apply Nat.leb_le in E. auto.
Qed.

Lemma rd_upd_other f o bs f' o' n : upd f o bs = Some f' ->
  (o' + n <= o \/ o + length bs <= o')%nat -> rd f' o' n = rd f o' n.
Proof.
  intros H D. apply upd_shape in H. destruct H as [-> B].
  assert (LA : length (firstn o f) = o) by (rewrite firstn_length; lia).
  destruct D as [D|D].
  - rewrite rd_app_l by lia. apply rd_firstn; lia.
  - replace o' with (length (firstn o f) + (length bs + (o' - o - length bs)))%nat by lia.
    rewrite rd_app_r, rd_app_r, rd_skipn by lia. f_equal. lia.
Qed.

Lemma rd_upd_same f o bs f' : upd f o bs = Some f' -> rd f' o (length bs) = Some bs.
Proof.
  intros H. apply upd_shape in H. destruct H as [-> B].
  assert (LA : length (firstn o f) = o) by (rewrite firstn_length; lia).
  pose proof (rd_app_r (firstn o f) (bs ++ skipn (o + length bs) f) 0 (length bs)) as R.
  rewrite LA, Nat.add_0_r in R. rewrite R.
  rewrite rd_app_l by lia. rewrite rd_some by (cbn; lia). cbn. rewrite firstn_all. reflexivity.
Qed.

Lemma rd_cat f o a b l1 l2 : rd f o a = Some l1 -> rd f (o + a) b = Some l2 -> rd f o (a + b) = Some (l1 ++ l2).
Proof.
  intros H1 H2. pose proof (rd_bound _ _ _ _ H2) as B.
  rewrite rd_some in H1 by lia. rewrite rd_some in H2 by lia. inversion H1; inversion H2; subst.
  rewrite rd_some by lia. f_equal. rewrite firstn_add, skipn_skipn'. reflexivity.
Qed.

Lemma rd_sub f o n l k j : rd f o n = Some l -> (k + j <= n)%nat -> rd f (o + k) j = Some (firstn j (skipn k l)).
Proof.
  intros H B. pose proof (rd_bound _ _ _ _ H) as Bf. rewrite rd_some in H by lia. inversion H; subst.
  rewrite rd_some by lia. f_equal.
  rewrite skipn_firstn_comm, firstn_firstn, skipn_skipn'. f_equal. lia.
Qed.

Lemma rd_all_skipn f o n l : rd f o n = Some l -> length f = (o + n)%nat -> skipn o f = l.
Proof.
  intros H E. rewrite rd_some in H by lia. inversion H. symmetry. apply firstn_all2. rewrite skipn_length. lia.
Qed.

Lemma wf_app a b : wf_bytes a -> wf_bytes b -> wf_bytes (a ++ b).
Proof. unfold wf_bytes. intros. apply Forall_app; auto. Qed.

Lemma upd_wf f o bs f' : wf_bytes f -> wf_bytes bs -> upd f o bs = Some f' -> wf_bytes f'.
Proof.
  intros Wf Wb H. apply upd_shape in H. destruct H as [-> _].
  apply wf_app; [|apply wf_app; auto]; unfold wf_bytes in *; rewrite Forall_forall in *; intros x Hx; apply Wf.
  - eapply in_firstn; eauto.
  - eapply in_skipn; eauto.
Qed.

Lemma upds_wf ws : forall f f', wf_bytes f -> Forall (fun w => wf_bytes (snd w)) ws -> upds f ws = Some f' -> wf_bytes f'.
Proof.
  induction ws as [|[o bs] ws IH]; cbn; intros f f' Wf Ww H; [inversion H; subst; auto|].
  destruct (upd f o bs) eqn:E; [|discriminate]. inversion Ww as [|? ? Hb Hw]; subst. cbn in Hb.
  eapply IH; [exact (upd_wf _ _ _ _ Wf Hb E)|exact Hw|exact H].
Qed.

Lemma be_bytes_wf n v : wf_bytes (be_bytes n v).
Proof. induction n; cbn; constructor; auto. apply N.mod_lt. discriminate. Qed.
Lemma be_bytes_length n v : length (be_bytes n v) = n.
Proof. induction n; cbn; auto. Qed.
Lemma zeros_wf n : wf_bytes (zeros n).
Proof. unfold zeros. induction n; cbn; constructor; auto. reflexivity. Qed.
