(* C03 lemmas about Model/XdpDhcp.v (the fast-path program and the Go side of its cache). *)
From Coq Require Import NArith List Bool Lia ZifyN ZifyNat ZifyBool Arith.
From Verif Require Import Base.Word Base.Check Model.XdpDhcp Model.XdpDhcpSpec Model.XdpDhcpCheck.
Import ListNotations.
Local Open Scope N_scope.

(* ------------------------------------------------------------------ rd / upd basics *)
Lemma upd_length f o bs f' : upd f o bs = Some f' -> length f' = length f.
Proof.
  unfold upd. destruct (Nat.leb (o + length bs) (length f)) eqn:E; [|discriminate].
  intros H; inversion H; subst. apply Nat.leb_le in E.
  rewrite !app_length, firstn_length, skipn_length. lia.
Qed.

Lemma upds_length ws : forall f f', upds f ws = Some f' -> length f' = length f.
Proof.
  induction ws as [|[o bs] ws IH]; cbn; intros f f' H; [inversion H; reflexivity|].
  destruct (upd f o bs) eqn:E; [|discriminate].
  rewrite (IH _ _ H). eapply upd_length; eauto.
Qed.

Lemma rd_length f o n l : rd f o n = Some l -> length l = n.
Proof.
  unfold rd. destruct (Nat.leb (o + n) (length f)) eqn:E; [|discriminate].
  intros H; inversion H; subst. apply Nat.leb_le in E.
  rewrite firstn_length, skipn_length. lia.
Qed.

Lemma in_firstn {A} (x : A) n : forall l, In x (firstn n l) -> In x l.
Proof. induction n; intros [|y l]; cbn; try tauto. intros [H|H]; auto. Qed.
Lemma in_skipn {A} (x : A) n : forall l, In x (skipn n l) -> In x l.
Proof. induction n; intros [|y l]; cbn; try tauto. intros H; auto. Qed.

Lemma rd_wf f o n l : wf_bytes f -> rd f o n = Some l -> wf_bytes l.
Proof.
  unfold rd, wf_bytes. destruct (Nat.leb (o + n) (length f)); [|discriminate].
  intros W H; inversion H; subst. rewrite Forall_forall in *. intros x Hx.
  apply W. eapply in_skipn. eapply in_firstn. exact Hx.
Qed.

(* ------------------------------------------------------------------ the IP checksum (RFC 1071) *)
Lemma fold16_spec x : fold16 x = x mod 65536 + x / 65536.
Proof.
  unfold fold16. change 65535 with (N.ones 16). rewrite N.land_ones, N.shiftr_div_pow2. reflexivity.
Qed.

Lemma land_ones32_small s : s <= 65535 -> N.land s 4294967295 = s.
Proof.
  intros H. change 4294967295 with (N.ones 32). rewrite N.land_ones. apply N.mod_small. cbn. lia.
Qed.

Lemma land_low16 x : N.land x 65535 = x mod 65536.
Proof. change 65535 with (N.ones 16). rewrite N.land_ones. reflexivity. Qed.

(* the checksum of a 20-byte header whose check field is zero, stored into that field (little-endian
   store of the little-endian sum, as the program does), makes the big-endian one's-complement sum of
   the ten words 0xFFFF - for every header content *)
Lemma checksum_valid_20 a0 a1 a2 a3 a4 a5 a6 a7 a8 a9 a12 a13 a14 a15 a16 a17 a18 a19 :
  let h := [a0; a1; a2; a3; a4; a5; a6; a7; a8; a9; 0; 0; a12; a13; a14; a15; a16; a17; a18; a19] in
  wf_bytes h ->
  let c := ip_checksum h in
  ip_checksum_valid [a0; a1; a2; a3; a4; a5; a6; a7; a8; a9; c mod 256; (c / 256) mod 256;
                     a12; a13; a14; a15; a16; a17; a18; a19] = true.
Proof.
  intros h W c.
  assert (B : a0 < 256 /\ a1 < 256 /\ a2 < 256 /\ a3 < 256 /\ a4 < 256 /\ a5 < 256 /\ a6 < 256 /\
              a7 < 256 /\ a8 < 256 /\ a9 < 256 /\ a12 < 256 /\ a13 < 256 /\ a14 < 256 /\ a15 < 256 /\
              a16 < 256 /\ a17 < 256 /\ a18 < 256 /\ a19 < 256).
  { unfold wf_bytes, h in W. repeat (apply Forall_cons_iff in W; destruct W as [? W]). repeat split; assumption. }
  set (S := a0 + 256 * a1 + (a2 + 256 * a3 + (a4 + 256 * a5 + (a6 + 256 * a7 + (a8 + 256 * a9 +
            (0 + 256 * 0 + (a12 + 256 * a13 + (a14 + 256 * a15 + (a16 + 256 * a17 + (a18 + 256 * a19 + 0)))))))))).
  assert (HS : sum_le16 h = S) by reflexivity.
  assert (Hc : c = N.land (4294967295 - N.land (fold16 (fold16 S)) 4294967295) 65535) by (unfold c, ip_checksum; rewrite HS; reflexivity).
  rewrite !fold16_spec in Hc.
  pose proof (N.div_mod' S 65536) as D1. pose proof (N.mod_lt S 65536 ltac:(discriminate)) as L1.
  set (q1 := S / 65536) in *. set (r1 := S mod 65536) in *.
  pose proof (N.div_mod' (r1 + q1) 65536) as D2. pose proof (N.mod_lt (r1 + q1) 65536 ltac:(discriminate)) as L2.
  set (q2 := (r1 + q1) / 65536) in *. set (r2 := (r1 + q1) mod 65536) in *.
  assert (HSb : S <= 655350) by (unfold S; lia).
  assert (HF : r2 + q2 <= 65535) by lia.
  rewrite (land_ones32_small _ HF), land_low16 in Hc.
  pose proof (N.div_mod' (4294967295 - (r2 + q2)) 65536) as D3.
  pose proof (N.mod_lt (4294967295 - (r2 + q2)) 65536 ltac:(discriminate)) as L3.
  rewrite <- Hc in D3, L3. set (q3 := (4294967295 - (r2 + q2)) / 65536) in *.
  assert (Hc' : c = 65535 - (r2 + q2)) by lia.
  pose proof (N.div_mod' c 256) as D4. pose proof (N.mod_lt c 256 ltac:(discriminate)) as L4.
  set (ch := c / 256) in *. set (cl := c mod 256) in *.
  assert (Hch : ch < 256) by lia.
  rewrite (N.mod_small ch 256 Hch).
  unfold ip_checksum_valid.
  set (SB := sum_be16 [a0; a1; a2; a3; a4; a5; a6; a7; a8; a9; cl; ch; a12; a13; a14; a15; a16; a17; a18; a19]).
  assert (HSB : SB = 256 * a0 + a1 + (256 * a2 + a3 + (256 * a4 + a5 + (256 * a6 + a7 + (256 * a8 + a9 +
            (256 * cl + ch + (256 * a12 + a13 + (256 * a14 + a15 + (256 * a16 + a17 + (256 * a18 + a19 + 0)))))))))) by reflexivity.
  assert (E : exists t, SB = 65535 * t /\ 0 < t).
  { exists (256 + 256 * (q1 + q2) - (a1 + a3 + a5 + a7 + a9 + a13 + a15 + a17 + a19) - ch).
    unfold S in *. clearbody q1 r1 q2 r2 q3 ch cl SB. lia. }
  destruct E as [t [Et Pt]].
  rewrite Et. rewrite N.mul_comm, N.mod_mul by discriminate.
  apply andb_true_iff; split; [apply N.ltb_lt; lia | reflexivity].
Qed.

(* ------------------------------------------------------------------ list algebra for rd / upd *)
Lemma skipn_skipn' {A} a : forall b (l : list A), skipn a (skipn b l) = skipn (b + a) l.
Proof.
  intros b; induction b as [|b IH]; intros l; cbn; [reflexivity|].
  destruct l; [destruct a; reflexivity|]. apply IH.
Qed.

Lemma firstn_add {A} a b : forall l : list A, firstn (a + b) l = firstn a l ++ firstn b (skipn a l).
Proof. induction a as [|a IH]; intros [|x l]; cbn; try reflexivity; [destruct b; reflexivity|]. rewrite IH. reflexivity. Qed.

Lemma rd_some f o n : (o + n <= length f)%nat -> rd f o n = Some (firstn n (skipn o f)).
Proof. intros H. unfold rd. apply Nat.leb_le in H. rewrite H. reflexivity. Qed.

Lemma rd_bound f o n l : rd f o n = Some l -> (o + n <= length f)%nat.
Proof. unfold rd. destruct (Nat.leb (o + n) (length f)) eqn:E; [|discriminate]. intros _. apply Nat.leb_le. exact E. Qed.

Lemma rd_app_l A X o n : (o + n <= length A)%nat -> rd (A ++ X) o n = rd A o n.
Proof.
  intros H. rewrite !rd_some by (rewrite ?app_length; lia). f_equal.
  rewrite skipn_app, firstn_app, skipn_length.
  replace (n - (length A - o))%nat with 0%nat by lia. rewrite firstn_O, app_nil_r. reflexivity.
Qed.

Lemma rd_app_r A X k n : rd (A ++ X) (length A + k) n = rd X k n.
Proof.
  unfold rd. rewrite app_length.
  replace (Nat.leb (length A + k + n) (length A + length X)) with (Nat.leb (k + n) (length X)).
  2:{ destruct (Nat.leb (k + n) (length X)) eqn:E; symmetry; [apply Nat.leb_le in E; apply Nat.leb_le; lia|apply Nat.leb_gt in E; apply Nat.leb_gt; lia]. }
  destruct (Nat.leb (k + n) (length X)); [|reflexivity]. f_equal. f_equal.
  rewrite skipn_app, skipn_all2 by lia. cbn. f_equal. lia.
Qed.

Lemma rd_firstn f k o n : (o + n <= k)%nat -> (k <= length f)%nat -> rd (firstn k f) o n = rd f o n.
Proof.
  intros H1 H2. rewrite !rd_some by (rewrite ?firstn_length; lia). f_equal.
  rewrite skipn_firstn_comm, firstn_firstn. f_equal. lia.
Qed.

Lemma rd_skipn f k j n : (k <= length f)%nat -> rd (skipn k f) j n = rd f (k + j) n.
Proof.
  intros H. unfold rd. rewrite skipn_length, skipn_skipn'.
  replace (Nat.leb (j + n) (length f - k)) with (Nat.leb (k + j + n) (length f)); [reflexivity|].
  destruct (Nat.leb (k + j + n) (length f)) eqn:E; symmetry; [apply Nat.leb_le in E; apply Nat.leb_le; lia|apply Nat.leb_gt in E; apply Nat.leb_gt; lia].
Qed.

Lemma upd_shape f o bs f' : upd f o bs = Some f' ->
  f' = firstn o f ++ bs ++ skipn (o + length bs) f /\ (o + length bs <= length f)%nat.
Proof.
  unfold upd. destruct (Nat.leb (o + length bs) (length f)) eqn:E; [|discriminate].
  intros H; inversion H. apply Nat.leb_le in E. auto.
Qed.

Lemma rd_upd_other f o bs f' o' n : upd f o bs = Some f' ->
  (o' + n <= o \/ o + length bs <= o')%nat -> rd f' o' n = rd f o' n.
Proof.
  intros H D. apply upd_shape in H. destruct H as [-> B].
  assert (LA : length (firstn o f) = o) by (rewrite firstn_length; lia).
  destruct D as [D|D].
  - rewrite rd_app_l by lia. apply rd_firstn; lia.
  - replace o' with (length (firstn o f) + (length bs + (o' - o - length bs)))%nat by lia.
    rewrite rd_app_r, rd_app_r, rd_skipn by lia. f_equal. lia.
Qed.

Lemma rd_upd_same f o bs f' : upd f o bs = Some f' -> rd f' o (length bs) = Some bs.
Proof.
  intros H. apply upd_shape in H. destruct H as [-> B].
  assert (LA : length (firstn o f) = o) by (rewrite firstn_length; lia).
  pose proof (rd_app_r (firstn o f) (bs ++ skipn (o + length bs) f) 0 (length bs)) as R.
  rewrite LA, Nat.add_0_r in R. rewrite R.
  rewrite rd_app_l by lia. rewrite rd_some by (cbn; lia). cbn. rewrite firstn_all. reflexivity.
Qed.

Lemma rd_cat f o a b l1 l2 : rd f o a = Some l1 -> rd f (o + a) b = Some l2 -> rd f o (a + b) = Some (l1 ++ l2).
Proof.
  intros H1 H2. pose proof (rd_bound _ _ _ _ H2) as B.
  rewrite rd_some in H1 by lia. rewrite rd_some in H2 by lia. inversion H1; inversion H2; subst.
  rewrite rd_some by lia. f_equal. rewrite firstn_add, skipn_skipn'. reflexivity.
Qed.

Lemma rd_sub f o n l k j : rd f o n = Some l -> (k + j <= n)%nat -> rd f (o + k) j = Some (firstn j (skipn k l)).
Proof.
  intros H B. pose proof (rd_bound _ _ _ _ H) as Bf. rewrite rd_some in H by lia. inversion H; subst.
  rewrite rd_some by lia. f_equal.
  rewrite skipn_firstn_comm, firstn_firstn, skipn_skipn'. f_equal. lia.
Qed.

Lemma rd_all_skipn f o n l : rd f o n = Some l -> length f = (o + n)%nat -> skipn o f = l.
Proof.
  intros H E. rewrite rd_some in H by lia. inversion H. symmetry. apply firstn_all2. rewrite skipn_length. lia.
Qed.

Lemma wf_app a b : wf_bytes a -> wf_bytes b -> wf_bytes (a ++ b).
Proof. unfold wf_bytes. intros. apply Forall_app; auto. Qed.

Lemma upd_wf f o bs f' : wf_bytes f -> wf_bytes bs -> upd f o bs = Some f' -> wf_bytes f'.
Proof.
  intros Wf Wb H. apply upd_shape in H. destruct H as [-> _].
  apply wf_app; [|apply wf_app; auto]; unfold wf_bytes in *; rewrite Forall_forall in *; intros x Hx; apply Wf.
  - eapply in_firstn; eauto.
  - eapply in_skipn; eauto.
Qed.

Lemma upds_wf ws : forall f f', wf_bytes f -> Forall (fun w => wf_bytes (snd w)) ws -> upds f ws = Some f' -> wf_bytes f'.
Proof.
  induction ws as [|[o bs] ws IH]; cbn; intros f f' Wf Ww H; [inversion H; subst; auto|].
  destruct (upd f o bs) eqn:E; [|discriminate]. inversion Ww as [|? ? Hb Hw]; subst. cbn in Hb.
  eapply IH; [exact (upd_wf _ _ _ _ Wf Hb E)|exact Hw|exact H].
Qed.

Lemma be_bytes_wf n v : wf_bytes (be_bytes n v).
Proof. induction n; cbn; constructor; auto. apply N.mod_lt. discriminate. Qed.
Lemma be_bytes_length n v : length (be_bytes n v) = n.
Proof. induction n; cbn; auto. Qed.
Lemma zeros_wf n : wf_bytes (zeros n).
Proof. unfold zeros. induction n; cbn; constructor; auto. reflexivity. Qed.

(* ------------------------------------------------------------------ adjacent writes merge *)
Lemma upd_upd_adjacent f o a f1 b f2 :
  upd f o a = Some f1 -> upd f1 (o + length a) b = Some f2 -> upd f o (a ++ b) = Some f2.
Proof.
  intros H1 H2. apply upd_shape in H1. destruct H1 as [-> B1].
  apply upd_shape in H2. destruct H2 as [-> B2].
  assert (LA : length (firstn o f) = o) by (rewrite firstn_length; lia).
  rewrite !app_length, LA, skipn_length in B2.
  unfold upd. rewrite app_length.
  assert (Hb : Nat.leb (o + (length a + length b)) (length f) = true) by (apply Nat.leb_le; lia).
  rewrite Hb. f_equal.
  set (A := firstn o f) in *.
  assert (E1 : firstn (o + length a) (A ++ a ++ skipn (o + length a) f) = A ++ a).
  { rewrite firstn_app, LA. rewrite (firstn_all2 (n := (o + length a)%nat) A) by lia.
    replace (o + length a - o)%nat with (length a) by lia.
    rewrite firstn_app, firstn_all, Nat.sub_diag, firstn_O, app_nil_r. reflexivity. }
  assert (E2 : skipn (o + length a + length b) (A ++ a ++ skipn (o + length a) f) = skipn (o + (length a + length b)) f).
  { rewrite skipn_app, LA. rewrite (skipn_all2 (n := (o + length a + length b)%nat) A) by lia. cbn [app].
    replace (o + length a + length b - o)%nat with (length a + length b)%nat by lia.
    rewrite skipn_app. rewrite (skipn_all2 (n := (length a + length b)%nat) a) by lia. cbn [app].
    replace (length a + length b - length a)%nat with (length b) by lia.
    rewrite skipn_skipn'. f_equal. lia. }
  rewrite E1, E2. rewrite <- !app_assoc. reflexivity.
Qed.

Lemma put_ok opt f off bs : (opt + off + length bs <= length f)%nat ->
  exists f', put opt (WOk f off) bs = WOk f' (off + length bs) /\ upd f (opt + off) bs = Some f'.
Proof.
  intros H. cbn [put].
  assert (E : Nat.ltb (length f) (opt + off + length bs) = false) by (apply Nat.ltb_ge; lia). rewrite E.
  unfold upd. assert (E2 : Nat.leb (opt + off + length bs) (length f) = true) by (apply Nat.leb_le; lia). rewrite E2.
  eexists; split; reflexivity.
Qed.

(* the options the program writes, as one string *)
Definition opt_bytes (rt : N) (pv : poolv) (sip : bytes) : bytes :=
  [53; 1; rt] ++ ([54; 4] ++ sip) ++ ([51; 4] ++ be_bytes 4 (pv_lease pv)) ++ ([1; 4] ++ prefix_to_mask (pv_prefix pv))
  ++ ([3; 4] ++ pv_gw pv)
  ++ (if all_zero (pv_dns1 pv) then [] else if all_zero (pv_dns2 pv) then [6; 4] ++ pv_dns1 pv else [6; 8] ++ pv_dns1 pv ++ pv_dns2 pv)
  ++ ([58; 4] ++ be_bytes 4 (pv_lease pv / 2)) ++ ([59; 4] ++ be_bytes 4 (((pv_lease pv * 7) mod W32) / 8)) ++ [255].

Lemma prefix_to_mask_length p : length (prefix_to_mask p) = 4%nat.
Proof. unfold prefix_to_mask. destruct (p =? 0); [reflexivity|]. destruct (32 <=? p); reflexivity. Qed.

Record pv_ok (pv : poolv) : Prop := { pvk_gw : length (pv_gw pv) = 4%nat; pvk_d1 : length (pv_dns1 pv) = 4%nat; pvk_d2 : length (pv_dns2 pv) = 4%nat }.

Lemma pool_view_ok v pv : pool_view v = Some pv -> pv_ok pv.
Proof.
  unfold pool_view. destruct (rd8 v 4); [|discriminate]. destruct (rd v 8 4) eqn:E1; [|discriminate].
  destruct (rd v 12 4) eqn:E2; [|discriminate]. destruct (rd v 16 4) eqn:E3; [|discriminate].
  destruct (rd v 20 4); [|discriminate]. intros H; inversion H; subst. constructor; cbn; eapply rd_length; eauto.
Qed.

Lemma opt_bytes_length rt pv sip : length sip = 4%nat -> pv_ok pv ->
  (length (opt_bytes rt pv sip) = 40 \/ length (opt_bytes rt pv sip) = 46 \/ length (opt_bytes rt pv sip) = 50)%nat.
Proof.
  intros Hs [Hg H1 H2]. unfold opt_bytes.
  destruct (all_zero (pv_dns1 pv)); [|destruct (all_zero (pv_dns2 pv))];
  repeat (rewrite ?app_length, ?be_bytes_length, ?prefix_to_mask_length, ?Hs, ?Hg, ?H1, ?H2; cbn [length]); lia.
Qed.

Lemma upd_nil f o : (o <= length f)%nat -> upd f o [] = Some f.
Proof.
  intros H. unfold upd. cbn [length]. assert (E : Nat.leb (o + 0) (length f) = true) by (apply Nat.leb_le; lia).
  rewrite E, Nat.add_0_r. cbn [app]. rewrite firstn_skipn. reflexivity.
Qed.

Lemma put_chain opt f acc g off bs :
  upd f opt acc = Some g -> off = length acc -> (opt + off + length bs <= length f)%nat ->
  exists g', put opt (WOk g off) bs = WOk g' (off + length bs) /\ upd f opt (acc ++ bs) = Some g'.
Proof.
  intros V E B. pose proof (upd_length _ _ _ _ V) as L.
  destruct (put_ok opt g off bs) as [g' [P U]]; [lia|].
  exists g'. split; [exact P|]. subst off. eapply upd_upd_adjacent; eauto.
Qed.

Ltac lens := rewrite ?app_length, ?be_bytes_length, ?prefix_to_mask_length; cbn [length]; lia.
Ltac put_step V :=
  match goal with
  | |- context [put ?opt (WOk ?g ?off) ?bs] =>
      let g' := fresh "g" in let P := fresh "P" in let V' := fresh "V" in
      destruct (put_chain opt _ _ g off bs V) as [g' [P V']]; [ lens | lens | rewrite P; clear P V ]
  end.

Lemma build_options_run f opt rt pv sip : length sip = 4%nat -> pv_ok pv -> (opt + 64 <= length f)%nat ->
  exists f3, build_options f opt rt pv sip = WOk f3 (length (opt_bytes rt pv sip))
             /\ upd f opt (opt_bytes rt pv sip) = Some f3.
Proof.
  intros Hs [Hg H1 H2] HL. unfold build_options, opt_bytes.
  assert (V : upd f opt [] = Some f) by (apply upd_nil; lia).
  put_step V. put_step V0. put_step V. put_step V0. put_step V.
  destruct (all_zero (pv_dns1 pv)) eqn:Z1; [|destruct (all_zero (pv_dns2 pv)) eqn:Z2].
  - put_step V0. put_step V. put_step V0.
    exists g6. split; [f_equal; lens|]. rewrite <- V. f_equal. cbn [app]. rewrite <- ?app_assoc. cbn [app]. rewrite <- ?app_assoc. cbn [app]. reflexivity.
  - put_step V0. put_step V. put_step V0. put_step V.
    exists g7. split; [f_equal; lens|]. rewrite <- V0. f_equal. cbn [app]. rewrite <- ?app_assoc. cbn [app]. rewrite <- ?app_assoc. cbn [app]. reflexivity.
  - put_step V0. put_step V. put_step V0. put_step V.
    exists g7. split; [f_equal; lens|]. rewrite <- V0. f_equal. cbn [app]. rewrite <- ?app_assoc. cbn [app]. rewrite <- ?app_assoc. cbn [app]. reflexivity.
Qed.

(* ------------------------------------------------------------------ what a successful parse says *)
Record layout (f : bytes) (p : pkt) : Prop := {
  L_voff : (p_voff p = 0 \/ p_voff p = 4 \/ p_voff p = 8)%nat;
  L_ip : p_ip p = (14 + p_voff p)%nat;
  L_udp : p_udp p = (p_ip p + 20)%nat;
  L_dhcp : p_dhcp p = (p_ip p + 28)%nat;
  L_len : (p_dhcp p + 240 <= length f)%nat;
  L_l2 : l2_len f = Some (p_ip p);
  L_b0 : exists b0, rd8 f (p_ip p) = Some b0 /\ N.land b0 15 = 5;
  L_proto : rd8 f (p_ip p + 9) = Some 17 }.

Ltac break_H H := repeat match type of H with
  | context [match ?x with _ => _ end] => let E := fresh "E" in destruct x eqn:E; try discriminate H
  end.

Lemma parse_l3_layout f tagged vid ivid voff et l3 p :
  parse_l3 f tagged vid ivid voff et l3 = Parsed p ->
  bytes_eqb et [8; 0] = true /\ p_ip p = l3 /\ p_voff p = voff /\ p_udp p = (l3 + 20)%nat /\ p_dhcp p = (l3 + 28)%nat
  /\ (l3 + 28 + 240 <= length f)%nat /\ (exists b0, rd8 f l3 = Some b0 /\ N.land b0 15 = 5) /\ rd8 f (l3 + 9) = Some 17.
Proof.
  unfold parse_l3. intros H.
  destruct (bytes_eqb et [8; 0]) eqn:Eet; cbn [negb] in H; [|discriminate].
  destruct (Nat.ltb (length f) (l3 + 20)); [discriminate|].
  destruct (rd8 f (l3 + 9)) as [proto|] eqn:Ep; [|discriminate].
  destruct (rd8 f l3) as [b0|] eqn:Eb; [|discriminate].
  destruct (proto =? 17) eqn:E17; cbn [negb] in H; [|discriminate]. apply N.eqb_eq in E17. subst proto.
  destruct (N.land b0 15 =? 5) eqn:E5; cbn [negb] in H; [|discriminate]. apply N.eqb_eq in E5.
  rewrite E5 in H. change (N.to_nat 5 * 4)%nat with 20%nat in H.
  destruct (Nat.ltb (length f) (l3 + 20 + 8)); [discriminate|].
  destruct (rd f (l3 + 20 + 2) 2); [|discriminate].
  destruct (negb (bytes_eqb b [0; 67])); [discriminate|].
  destruct (Nat.ltb (length f) (l3 + 20 + 8 + 240)) eqn:EL; [discriminate|]. apply Nat.ltb_ge in EL.
  inversion H; subst; cbn. repeat split; try lia; eauto.
Qed.

Lemma vlan_et_not_ip et : is_vlan_et et = true -> bytes_eqb et [8; 0] = false.
Proof.
  unfold is_vlan_et. intros H. apply orb_true_iff in H. destruct H as [H|H]; apply bytes_eqb_eq in H; subst; reflexivity.
Qed.

Lemma parse_layout f p : parse f = Parsed p -> layout f p.
Proof.
  unfold parse. intros H.
  destruct (Nat.ltb (length f) 14); [discriminate|].
  destruct (rd f 12 2) as [et|] eqn:E12; [|discriminate].
  destruct (is_vlan_et et) eqn:Ev.
  - destruct (Nat.ltb (length f) 18); [discriminate|].
    destruct (rd f 14 2) as [tci|]; [|discriminate]. destruct (rd f 16 2) as [et2|] eqn:E16; [|discriminate].
    destruct (bytes_eqb et2 [129; 0]) eqn:Eq.
    + destruct (Nat.ltb (length f) 22); [discriminate|].
      destruct (rd f 18 2) as [tci2|]; [|discriminate]. destruct (rd f 20 2) as [et3|] eqn:E20; [|discriminate].
      apply parse_l3_layout in H. destruct H as (A & B & C & D & E & F & G & I).
      apply bytes_eqb_eq in Eq. subst et2.
      constructor; try lia; auto; try (rewrite B; auto).
      unfold l2_len. rewrite E12, (vlan_et_not_ip _ Ev), Ev, E16. cbn. rewrite E20, A, ?B. reflexivity.
    + apply parse_l3_layout in H. destruct H as (A & B & C & D & E & F & G & I).
      constructor; try lia; auto; try (rewrite B; auto).
      unfold l2_len. rewrite E12, (vlan_et_not_ip _ Ev), Ev, E16, A, ?B. reflexivity.
  - apply parse_l3_layout in H. destruct H as (A & B & C & D & E & F & G & I).
    constructor; try lia; auto; try (rewrite B; auto).
    unfold l2_len. rewrite E12, A, ?B. reflexivity.
Qed.

(* ------------------------------------------------------------------ well-formedness of written values *)
Lemma be16b_wf v : wf_bytes (be16b v).
Proof. unfold be16b. repeat constructor; apply N.mod_lt; discriminate. Qed.
Lemma le16b_wf v : wf_bytes (le16b v).
Proof. unfold le16b. repeat constructor; apply N.mod_lt; discriminate. Qed.
Lemma prefix_to_mask_wf p : wf_bytes (prefix_to_mask p).
Proof.
  unfold prefix_to_mask. destruct (p =? 0); [repeat constructor|]. destruct (32 <=? p); [repeat constructor|apply be_bytes_wf].
Qed.
Lemma pool_view_wf v pv : wf_bytes v -> pool_view v = Some pv -> wf_bytes (pv_gw pv) /\ wf_bytes (pv_dns1 pv) /\ wf_bytes (pv_dns2 pv).
Proof.
  unfold pool_view. intros W. destruct (rd8 v 4); [|discriminate]. destruct (rd v 8 4) eqn:E1; [|discriminate].
  destruct (rd v 12 4) eqn:E2; [|discriminate]. destruct (rd v 16 4) eqn:E3; [|discriminate].
  destruct (rd v 20 4); [|discriminate]. intros H; inversion H; subst. cbn. repeat split; eapply rd_wf; eauto.
Qed.
Lemma wf_cons x l : x < 256 -> wf_bytes l -> wf_bytes (x :: l).
Proof. intros. constructor; auto. Qed.
Lemma opt_bytes_wf rt pv sip : rt < 256 -> wf_bytes sip -> wf_bytes (pv_gw pv) -> wf_bytes (pv_dns1 pv) -> wf_bytes (pv_dns2 pv) ->
  wf_bytes (opt_bytes rt pv sip).
Proof.
  intros Hr Ws Wg W1 W2. unfold opt_bytes.
  repeat first [apply wf_app | apply wf_cons; [lia|] | apply be_bytes_wf | apply prefix_to_mask_wf | assumption
               | match goal with |- wf_bytes (if ?c then _ else _) => destruct c end | constructor ].
Qed.
Lemma zeros_length n : length (zeros n) = n.
Proof. apply repeat_length. Qed.

(* both header rewrites are the same nine stores; only some values differ *)
Lemma rewrite_l2l3_shape f p cfgmac sip giaddr f1 :
  wf_bytes f -> wf_bytes cfgmac -> wf_bytes sip -> length cfgmac = 6%nat -> length sip = 4%nat -> length giaddr = 4%nat ->
  wf_bytes giaddr ->
  (if all_zero giaddr then rewrite_direct f p cfgmac sip else rewrite_relay f p cfgmac sip giaddr) = Some f1 ->
  exists w0 w3 w7, length w0 = 6%nat /\ length w3 = 4%nat /\ length w7 = 2%nat /\ wf_bytes w0 /\ wf_bytes w3 /\ wf_bytes w7 /\
    upds f [ (0%nat, w0); (6%nat, cfgmac); ((p_ip p + 12)%nat, sip); ((p_ip p + 16)%nat, w3);
             ((p_ip p + 8)%nat, [64]); ((p_ip p + 10)%nat, [0; 0]);
             (p_udp p, [0; 67]); ((p_udp p + 2)%nat, w7); ((p_udp p + 6)%nat, [0; 0]) ] = Some f1.
Proof.
  intros Wf Wm Ws Lm Ls Lg Wg H. destruct (all_zero giaddr).
  - unfold rewrite_direct in H.
    destruct (rd f (p_dhcp p + 10) 2) as [fl|] eqn:E1; [|discriminate].
    destruct fl as [|fh [|fl [|? ?]]]; try discriminate.
    destruct (rd f (p_dhcp p + 12) 4) as [ci|] eqn:E2; [|discriminate].
    destruct (rd f (p_dhcp p + 28) 6) as [ch|] eqn:E3; [|discriminate].
    exists (if negb (N.land fh 128 =? 0) || all_zero ci then [255; 255; 255; 255; 255; 255] else ch), [255; 255; 255; 255], [0; 68].
    repeat split; try reflexivity; try (repeat constructor; fail); try exact H.
    + destruct (negb (N.land fh 128 =? 0) || all_zero ci); [reflexivity|exact (rd_length _ _ _ _ E3)].
    + destruct (negb (N.land fh 128 =? 0) || all_zero ci); [repeat constructor|exact (rd_wf _ _ _ _ Wf E3)].
  - unfold rewrite_relay in H. destruct (rd f 6 6) as [src|] eqn:E1; [|discriminate].
    exists src, giaddr, [0; 67].
    repeat split; try reflexivity; try (repeat constructor; fail); try exact H; try assumption.
    + exact (rd_length _ _ _ _ E1).
    + exact (rd_wf _ _ _ _ Wf E1).
Qed.

(* ------------------------------------------------------------------ the reply, in phases *)
Ltac inv_upds H :=
  cbn [upds] in H;
  repeat match type of H with
  | match upd ?f ?o ?bs with Some _ => _ | None => None end = Some _ =>
      let U := fresh "U" in let g := fresh "g" in destruct (upd f o bs) as [g|] eqn:U; [|discriminate H]
  end;
  inversion H; subst; clear H.

Ltac side := cbn [length]; rewrite ?zeros_length; lia.
Ltac thru :=
  repeat match goal with
  | U : upd ?g ?o ?bs = Some ?g' |- context [rd ?g' ?o' ?n] =>
      rewrite (rd_upd_other g o bs g' o' n U) by side
  end.

Lemma explode20 (l : bytes) : length l = 20%nat ->
  exists a0 a1 a2 a3 a4 a5 a6 a7 a8 a9 a10 a11 a12 a13 a14 a15 a16 a17 a18 a19,
    l = [a0; a1; a2; a3; a4; a5; a6; a7; a8; a9; a10; a11; a12; a13; a14; a15; a16; a17; a18; a19].
Proof.
  intros H. do 20 (destruct l as [|? l]; [discriminate H|]). destruct l; [|discriminate H].
  repeat eexists.
Qed.

(* the part of [reply] behind build_dhcp_options: lengths, checksum, tail *)
Definition finish (f3 : bytes) (p : pkt) (optlen : nat) (mk : list N) : res :=
  let dhcp_len := (240 + N.of_nat optlen) mod W16 in
  let udp_len := (8 + dhcp_len) mod W16 in
  let ip_len := (20 + udp_len) mod W16 in
  let total := (14 + N.of_nat (p_voff p) + ip_len) mod W16 in
  match upds f3 [ ((p_ip p + 2)%nat, be16b ip_len); ((p_udp p + 4)%nat, be16b udp_len) ] with
  | None => OOB
  | Some f4 =>
      match rd f4 (p_ip p) 20 with
      | None => OOB
      | Some hdr =>
          match upd f4 (p_ip p + 10) (le16b (ip_checksum hdr)) with
          | None => OOB
          | Some f5 =>
              let orig := N.of_nat (length f5) mod W16 in
              if total =? orig then Done XDP_TX f5 mk else
              if N.of_nat (length f5) + total <? orig then Done XDP_PASS f5 [302] else
              match adjust_tail f5 (N.to_nat (N.of_nat (length f5) + total - orig)) with
              | Some f6 => Done XDP_TX f6 mk
              | None => Done XDP_PASS f5 [302]
              end
          end
      end
  end.

Lemma reply_split m unow f p mt asg poolval cfg expiry :
  reply m unow f p mt asg poolval cfg expiry =
  match rd asg 4 4, pool_view poolval, rd cfg 0 6, rd cfg 8 4, rd f (p_dhcp p + 24) 4 with
  | Some yi, Some pv, Some cfgmac, Some cfgip, Some giaddr =>
      let server_ip := if all_zero cfgip then pv_gw pv else cfgip in
      match (if all_zero giaddr then rewrite_direct f p cfgmac server_ip
             else rewrite_relay f p cfgmac server_ip giaddr) with
      | None => OOB
      | Some f1 =>
          match rewrite_dhcp f1 p yi server_ip with
          | None => OOB
          | Some f2 =>
              match build_options f2 (p_dhcp p + 240) (if mt =? 1 then 2 else 5) pv server_ip with
              | WOob => OOB
              | WFail f3 => Done XDP_PASS f3 [302]
              | WOk f3 optlen => finish f3 p optlen (tx_markers m f p mt yi server_ip cfgip pv expiry unow)
              end
          end
      end
  | _, _, _, _, _ => OOB
  end.
Proof. reflexivity. Qed.

Opaque ip_checksum.

Lemma finish_facts f3 p n MK v r mk :
  (p_voff p = 0 \/ p_voff p = 4 \/ p_voff p = 8)%nat -> p_ip p = (14 + p_voff p)%nat ->
  p_udp p = (p_ip p + 20)%nat -> p_dhcp p = (p_ip p + 28)%nat ->
  (p_dhcp p + 240 + 64 <= length f3)%nat -> N.of_nat (length f3) < 65536 ->
  (n = 40 \/ n = 46 \/ n = 50)%nat ->
  finish f3 p n MK = Done v r mk ->
  v = XDP_TX /\ mk = MK /\ length r = (p_dhcp p + 240 + n)%nat /\
  (forall o k, (o + k <= p_dhcp p + 240 + n)%nat -> (o + k <= p_ip p + 2 \/ p_ip p + 4 <= o)%nat ->
               (o + k <= p_ip p + 10 \/ p_ip p + 12 <= o)%nat -> (o + k <= p_udp p + 4 \/ p_udp p + 6 <= o)%nat ->
               rd r o k = rd f3 o k) /\
  rd r (p_ip p + 2) 2 = Some (be16b (N.of_nat (268 + n))) /\
  rd r (p_udp p + 4) 2 = Some (be16b (N.of_nat (248 + n))) /\
  (wf_bytes f3 -> rd f3 (p_ip p + 10) 2 = Some [0; 0] ->
   exists hdr, rd r (p_ip p) 20 = Some hdr /\ ip_checksum_valid hdr = true).
Proof.
  intros Lv Lip Ludp Ldh L64 L16 Hn H. unfold finish in H. cbv zeta in H.
  assert (Edl : (240 + N.of_nat n) mod W16 = N.of_nat (240 + n)) by (unfold W16; rewrite N.mod_small; lia).
  rewrite Edl in H. clear Edl.
  assert (Eul : (8 + N.of_nat (240 + n)) mod W16 = N.of_nat (248 + n)) by (unfold W16; rewrite N.mod_small; lia).
  rewrite Eul in H. clear Eul.
  assert (Eil : (20 + N.of_nat (248 + n)) mod W16 = N.of_nat (268 + n)) by (unfold W16; rewrite N.mod_small; lia).
  rewrite Eil in H. clear Eil.
  assert (Etl : (14 + N.of_nat (p_voff p) + N.of_nat (268 + n)) mod W16 = N.of_nat (p_dhcp p + 240 + n)) by (unfold W16; rewrite N.mod_small; lia).
  rewrite Etl in H. clear Etl.
  destruct (upds f3 [((p_ip p + 2)%nat, be16b (N.of_nat (268 + n))); ((p_udp p + 4)%nat, be16b (N.of_nat (248 + n)))]) as [f4|] eqn:E4; [|discriminate].
  pose proof (upds_length _ _ _ E4) as Lf4.
  destruct (rd f4 (p_ip p) 20) as [hdr0|] eqn:Eh; [|discriminate].
  set (CS := le16b (ip_checksum hdr0)) in *.
  destruct (upd f4 (p_ip p + 10) CS) as [f5|] eqn:U5; [|discriminate].
  pose proof (upd_length _ _ _ _ U5) as Lf5.
  assert (Eor : N.of_nat (length f5) mod W16 = N.of_nat (length f3)) by (unfold W16; rewrite N.mod_small; lia).
  rewrite Eor in H. clear Eor.
  set (T := (p_dhcp p + 240 + n)%nat) in *.
  assert (HT : (T < length f3)%nat) by (unfold T; lia).
  assert (HT14 : (14 <= T)%nat) by (unfold T; lia).
  destruct (N.of_nat T =? N.of_nat (length f3)) eqn:Eq; [apply N.eqb_eq in Eq; lia|].
  destruct (N.of_nat (length f5) + N.of_nat T <? N.of_nat (length f3)) eqn:Elt; [apply N.ltb_lt in Elt; lia|].
  replace (N.to_nat (N.of_nat (length f5) + N.of_nat T - N.of_nat (length f3))) with T in H by lia.
  unfold adjust_tail in H.
  destruct (Nat.ltb T 14) eqn:E14; [apply Nat.ltb_lt in E14; lia|].
  destruct (Nat.leb T (length f5)) eqn:Ele; [|apply Nat.leb_gt in Ele; lia].
  inversion H; subst v r mk. clear H.
  split; [reflexivity|]. split; [reflexivity|].
  split; [rewrite firstn_length; lia|].
  assert (LCS : length CS = 2%nat) by reflexivity.
  assert (Lbe : forall x, length (be16b x) = 2%nat) by reflexivity.
  inv_upds E4.
  split; [|split; [|split]].
  - intros o k B D1 D2 D3. rewrite rd_firstn by lia.
    rewrite (rd_upd_other _ _ _ _ o k U5) by (rewrite LCS; lia).
    rewrite (rd_upd_other _ _ _ _ o k U0) by (rewrite Lbe; lia).
    rewrite (rd_upd_other _ _ _ _ o k U) by (rewrite Lbe; lia). reflexivity.
  - rewrite rd_firstn by lia.
    rewrite (rd_upd_other _ _ _ _ _ _ U5) by (rewrite LCS; lia).
    rewrite (rd_upd_other _ _ _ _ _ _ U0) by (rewrite Lbe; lia).
    change 2%nat with (length (be16b (N.of_nat (268 + n)))). eapply rd_upd_same; eauto.
  - rewrite rd_firstn by lia.
    rewrite (rd_upd_other _ _ _ _ _ _ U5) by (rewrite LCS; lia).
    change 2%nat with (length (be16b (N.of_nat (248 + n)))). eapply rd_upd_same; eauto.
  - intros W3 Z.
    assert (W4 : wf_bytes f4) by (eapply upd_wf; [eapply upd_wf; [exact W3|apply be16b_wf|exact U]|apply be16b_wf|exact U0]).
    pose proof (rd_wf _ _ _ _ W4 Eh) as Wh.
    assert (Z4 : rd f4 (p_ip p + 10) 2 = Some [0; 0]).
    { rewrite (rd_upd_other _ _ _ _ _ _ U0) by (rewrite Lbe; lia).
      rewrite (rd_upd_other _ _ _ _ _ _ U) by (rewrite Lbe; lia). exact Z. }
    destruct (explode20 hdr0 (rd_length _ _ _ _ Eh)) as (a0&a1&a2&a3&a4&a5&a6&a7&a8&a9&a10&a11&a12&a13&a14&a15&a16&a17&a18&a19&->).
    pose proof (rd_sub _ _ _ _ 10 2 Eh ltac:(lia)) as S10. cbn [firstn skipn] in S10. rewrite Z4 in S10. inversion S10; subst a10 a11.
    pose proof (rd_sub _ _ _ _ 0 10 Eh ltac:(lia)) as S0. cbn [firstn skipn] in S0. rewrite Nat.add_0_r in S0.
    pose proof (rd_sub _ _ _ _ 12 8 Eh ltac:(lia)) as S12. cbn [firstn skipn] in S12.
    rewrite <- (rd_upd_other _ _ _ _ _ _ U5) in S0 by (rewrite LCS; lia).
    rewrite <- (rd_upd_other _ _ _ _ _ _ U5) in S12 by (rewrite LCS; lia).
    pose proof (rd_upd_same _ _ _ _ U5) as S10'. rewrite LCS in S10'.
    pose proof (rd_cat _ _ _ _ _ _ S0 S10') as C1.
    replace (p_ip p + 10 + 2)%nat with (p_ip p + 12)%nat in * by lia.
    pose proof (rd_cat _ _ _ _ _ _ C1 S12) as C2. cbn [Nat.add app] in C2.
    eexists. split.
    + rewrite rd_firstn by lia. exact C2.
    + unfold CS, le16b. cbn [app]. apply checksum_valid_20. exact Wh.
Qed.

(* stores of phases 1 and 2 leave every disjoint region alone *)
Lemma phase1_facts f p cfgmac sip w0 w3 w7 f1 :
  length w0 = 6%nat -> length cfgmac = 6%nat -> length sip = 4%nat -> length w3 = 4%nat -> length w7 = 2%nat ->
  upds f [ (0%nat, w0); (6%nat, cfgmac); ((p_ip p + 12)%nat, sip); ((p_ip p + 16)%nat, w3);
           ((p_ip p + 8)%nat, [64]); ((p_ip p + 10)%nat, [0; 0]);
           (p_udp p, [0; 67]); ((p_udp p + 2)%nat, w7); ((p_udp p + 6)%nat, [0; 0]) ] = Some f1 ->
  p_udp p = (p_ip p + 20)%nat -> (14 <= p_ip p)%nat ->
  (forall o k, (12 <= o)%nat -> (o + k <= p_ip p + 8 \/ p_ip p + 9 <= o)%nat -> (o + k <= p_ip p + 10 \/ p_udp p + 4 <= o)%nat ->
               (o + k <= p_udp p + 6 \/ p_udp p + 8 <= o)%nat -> rd f1 o k = rd f o k) /\
  rd f1 (p_ip p + 10) 2 = Some [0; 0] /\ rd f1 (p_udp p) 2 = Some [0; 67].
Proof.
  intros L0 Lm Ls L3 L7 H Ludp Lip. inv_upds H. repeat split.
  - intros o k B D1 D2 D3.
    rewrite (rd_upd_other _ _ _ _ o k U7) by side. rewrite (rd_upd_other _ _ _ _ o k U6) by (rewrite L7; lia).
    rewrite (rd_upd_other _ _ _ _ o k U5) by side. rewrite (rd_upd_other _ _ _ _ o k U4) by side.
    rewrite (rd_upd_other _ _ _ _ o k U3) by side. rewrite (rd_upd_other _ _ _ _ o k U2) by (rewrite L3; lia).
    rewrite (rd_upd_other _ _ _ _ o k U1) by (rewrite Ls; lia). rewrite (rd_upd_other _ _ _ _ o k U0) by (rewrite Lm; lia).
    rewrite (rd_upd_other _ _ _ _ o k U) by (rewrite L0; lia). reflexivity.
  - rewrite (rd_upd_other _ _ _ _ _ _ U7) by side. rewrite (rd_upd_other _ _ _ _ _ _ U6) by (rewrite L7; lia).
    rewrite (rd_upd_other _ _ _ _ _ _ U5) by side. exact (rd_upd_same _ _ _ _ U4).
  - rewrite (rd_upd_other _ _ _ _ _ _ U7) by side. rewrite (rd_upd_other _ _ _ _ _ _ U6) by (rewrite L7; lia).
    exact (rd_upd_same _ _ _ _ U5).
Qed.

Lemma phase1_wf f p cfgmac sip w0 w3 w7 f1 :
  wf_bytes f -> wf_bytes w0 -> wf_bytes cfgmac -> wf_bytes sip -> wf_bytes w3 -> wf_bytes w7 ->
  upds f [ (0%nat, w0); (6%nat, cfgmac); ((p_ip p + 12)%nat, sip); ((p_ip p + 16)%nat, w3);
           ((p_ip p + 8)%nat, [64]); ((p_ip p + 10)%nat, [0; 0]);
           (p_udp p, [0; 67]); ((p_udp p + 2)%nat, w7); ((p_udp p + 6)%nat, [0; 0]) ] = Some f1 -> wf_bytes f1.
Proof.
  intros. eapply upds_wf; [| |eassumption]; [assumption|]. repeat constructor; cbn; auto; lia.
Qed.

Lemma phase2_facts f1 p yi sip f2 :
  length yi = 4%nat -> length sip = 4%nat -> rewrite_dhcp f1 p yi sip = Some f2 ->
  (forall o k, (o + k <= p_dhcp p \/ p_dhcp p + 1 <= o)%nat -> (o + k <= p_dhcp p + 3 \/ p_dhcp p + 4 <= o)%nat ->
               (o + k <= p_dhcp p + 16 \/ p_dhcp p + 24 <= o)%nat -> (o + k <= p_dhcp p + 44 \/ p_dhcp p + 236 <= o)%nat ->
               rd f2 o k = rd f1 o k) /\
  rd f2 (p_dhcp p) 1 = Some [2] /\ rd f2 (p_dhcp p + 16) 4 = Some yi /\ rd f2 (p_dhcp p + 20) 4 = Some sip.
Proof.
  intros Ly Ls H. unfold rewrite_dhcp in H. inv_upds H. repeat split.
  - intros o k D1 D2 D3 D4.
    rewrite (rd_upd_other _ _ _ _ o k U4) by side. rewrite (rd_upd_other _ _ _ _ o k U3) by side.
    rewrite (rd_upd_other _ _ _ _ o k U2) by (rewrite Ls; lia). rewrite (rd_upd_other _ _ _ _ o k U1) by (rewrite Ly; lia).
    rewrite (rd_upd_other _ _ _ _ o k U0) by side. rewrite (rd_upd_other _ _ _ _ o k U) by side. reflexivity.
  - rewrite (rd_upd_other _ _ _ _ _ _ U4) by side. rewrite (rd_upd_other _ _ _ _ _ _ U3) by side.
    rewrite (rd_upd_other _ _ _ _ _ _ U2) by (rewrite Ls; lia). rewrite (rd_upd_other _ _ _ _ _ _ U1) by (rewrite Ly; lia).
    rewrite (rd_upd_other _ _ _ _ _ _ U0) by side. exact (rd_upd_same _ _ _ _ U).
  - rewrite (rd_upd_other _ _ _ _ _ _ U4) by side. rewrite (rd_upd_other _ _ _ _ _ _ U3) by side.
    rewrite (rd_upd_other _ _ _ _ _ _ U2) by (rewrite Ls; lia). pose proof (rd_upd_same _ _ _ _ U1) as X. rewrite Ly in X. exact X.
  - rewrite (rd_upd_other _ _ _ _ _ _ U4) by side. rewrite (rd_upd_other _ _ _ _ _ _ U3) by side.
    pose proof (rd_upd_same _ _ _ _ U2) as X. rewrite Ls in X. exact X.
Qed.

Lemma phase2_wf f1 p yi sip f2 : wf_bytes f1 -> wf_bytes yi -> wf_bytes sip -> rewrite_dhcp f1 p yi sip = Some f2 -> wf_bytes f2.
Proof.
  intros. unfold rewrite_dhcp in *. eapply upds_wf; [| |eassumption]; [assumption|].
  repeat constructor; cbn; auto; try lia; apply zeros_wf.
Qed.

(* ------------------------------------------------------------------ the whole program *)
Definition wf_rawmap (l : rawmap) : Prop := forall k v, In (k, v) l -> wf_bytes v.
Record wf_maps (m : maps) : Prop := {
  WM_sub : wf_rawmap (m_sub m); WM_vlan : wf_rawmap (m_vlan m); WM_cid : wf_rawmap (m_cid m);
  WM_pool : wf_rawmap (m_pool m); WM_cfg : forall c, m_cfg m = Some c -> wf_bytes c }.

Lemma lookup_in k l v : lookup k l = Some v -> exists k', In (k', v) l.
Proof.
  induction l as [|[k' v'] l IH]; cbn; [discriminate|].
  destruct (bytes_eqb k' k); intros H; [inversion H; subst; eauto|]. destruct (IH H) as [k'' ?]. eauto.
Qed.

Lemma find_assignment_wf m f p a : wf_maps m -> find_assignment m f p = Some (Some a) -> wf_bytes a.
Proof.
  intros [Ws Wv Wc _ _] H. unfold find_assignment in H.
  destruct (if p_tagged p then lookup (le16b (p_vid p) ++ le16b (p_ivid p)) (m_vlan m) else None) as [a1|] eqn:E1.
  - inversion H; subst. destruct (p_tagged p); [|discriminate]. destruct (lookup_in _ _ _ E1) as [k I]. eapply Wv; eauto.
  - destruct (extract_cid f (p_dhcp p + 240)) as [ck|]; [|discriminate].
    destruct (match ck with Some k => lookup k (m_cid m) | None => None end) as [a2|] eqn:E2.
    + inversion H; subst. destruct ck; [|discriminate]. destruct (lookup_in _ _ _ E2) as [k I]. eapply Wc; eauto.
    + destruct (rd f (p_dhcp p + 28) 6); [|discriminate]. inversion H as [E3].
      destruct (lookup_in _ _ _ E3) as [k I]. eapply Ws; eauto.
Qed.

(* what every transmitted reply looks like *)
Record tx_facts (f r : bytes) (p : pkt) (yi sip optb : bytes) : Prop := {
  F_len : length r = (p_dhcp p + 240 + length optb)%nat;
  F_opts : rd r (p_dhcp p + 240) (length optb) = Some optb;
  F_yi : rd r (p_dhcp p + 16) 4 = Some yi;
  F_si : rd r (p_dhcp p + 20) 4 = Some sip;
  F_op : rd r (p_dhcp p) 1 = Some [2];
  F_hw : rd r (p_dhcp p + 1) 2 = rd f (p_dhcp p + 1) 2;
  F_xid : rd r (p_dhcp p + 4) 4 = rd f (p_dhcp p + 4) 4;
  F_ch : rd r (p_dhcp p + 28) 16 = rd f (p_dhcp p + 28) 16;
  F_magic : rd r (p_dhcp p + 236) 4 = rd f (p_dhcp p + 236) 4;
  F_l2 : forall o k, (12 <= o)%nat -> (o + k <= p_ip p)%nat -> rd r o k = rd f o k;
  F_vi : rd r (p_ip p) 2 = rd f (p_ip p) 2;
  F_proto : rd r (p_ip p + 9) 1 = rd f (p_ip p + 9) 1;
  F_totlen : rd r (p_ip p + 2) 2 = Some (be16b (N.of_nat (length r - p_ip p)));
  F_udplen : rd r (p_udp p + 4) 2 = Some (be16b (N.of_nat (length r - p_udp p)));
  F_sport : rd r (p_udp p) 2 = Some [0; 67];
  F_csum : exists hdr, rd r (p_ip p) 20 = Some hdr /\ ip_checksum_valid hdr = true }.

Lemma reply_facts m unow f p mt asg poolval cfg expiry v r mk :
  layout f p -> (p_dhcp p + 240 + 64 <= length f)%nat -> N.of_nat (length f) < 65536 ->
  wf_bytes f -> wf_bytes asg -> wf_bytes poolval -> wf_bytes cfg ->
  reply m unow f p mt asg poolval cfg expiry = Done v r mk ->
  v = XDP_TX /\
  exists yi pv cfgip,
    rd asg 4 4 = Some yi /\ pool_view poolval = Some pv /\ rd cfg 8 4 = Some cfgip /\
    let sip := if all_zero cfgip then pv_gw pv else cfgip in
    tx_facts f r p yi sip (opt_bytes (if mt =? 1 then 2 else 5) pv sip).
Proof.
  intros [Lv Lip Ludp Ldh Llen _ _ _] L64 L16 Wf Wa Wp Wc H. rewrite reply_split in H.
  destruct (rd asg 4 4) as [yi|] eqn:Eyi; [|discriminate].
  destruct (pool_view poolval) as [pv|] eqn:Epv; [|discriminate].
  destruct (rd cfg 0 6) as [cfgmac|] eqn:Emac; [|discriminate].
  destruct (rd cfg 8 4) as [cfgip|] eqn:Ecip; [|discriminate].
  destruct (rd f (p_dhcp p + 24) 4) as [giaddr|] eqn:Egi; [|discriminate].
  cbv zeta in H.
  pose proof (pool_view_ok _ _ Epv) as PK. destruct (PK) as [Kg K1 K2].
  destruct (pool_view_wf _ _ Wp Epv) as (Wg & W1 & W2).
  set (sip := if all_zero cfgip then pv_gw pv else cfgip) in *.
  assert (Lsip : length sip = 4%nat) by (unfold sip; destruct (all_zero cfgip); [exact Kg|exact (rd_length _ _ _ _ Ecip)]).
  assert (Wsip : wf_bytes sip) by (unfold sip; destruct (all_zero cfgip); [assumption|exact (rd_wf _ _ _ _ Wc Ecip)]).
  set (rt := if mt =? 1 then 2 else 5) in *.
  assert (Hrt : rt < 256) by (unfold rt; destruct (mt =? 1); lia).
  set (optb := opt_bytes rt pv sip) in *.
  assert (Hn : (length optb = 40 \/ length optb = 46 \/ length optb = 50)%nat) by (apply opt_bytes_length; assumption).
  assert (Wob : wf_bytes optb) by (apply opt_bytes_wf; assumption).
  remember (tx_markers m f p mt yi sip cfgip pv expiry unow) as MK eqn:EMK. clear EMK.
  destruct (if all_zero giaddr then rewrite_direct f p cfgmac sip else rewrite_relay f p cfgmac sip giaddr) as [f1|] eqn:E1; [|discriminate].
  destruct (rewrite_dhcp f1 p yi sip) as [f2|] eqn:E2; [|discriminate].
  assert (Lm : length cfgmac = 6%nat) by exact (rd_length _ _ _ _ Emac).
  assert (Wm : wf_bytes cfgmac) by exact (rd_wf _ _ _ _ Wc Emac).
  assert (Lyi : length yi = 4%nat) by exact (rd_length _ _ _ _ Eyi).
  assert (Wyi : wf_bytes yi) by exact (rd_wf _ _ _ _ Wa Eyi).
  destruct (rewrite_l2l3_shape f p cfgmac sip giaddr f1 Wf Wm Wsip Lm Lsip (rd_length _ _ _ _ Egi) (rd_wf _ _ _ _ Wf Egi) E1)
    as (w0 & w3 & w7 & L0 & L3 & L7 & W0 & W3 & W7 & S1).
  pose proof (upds_length _ _ _ S1) as Lf1.
  assert (Lf2 : length f2 = length f) by (unfold rewrite_dhcp in E2; rewrite (upds_length _ _ _ E2); exact Lf1).
  pose proof (phase1_wf _ _ _ _ _ _ _ _ Wf W0 Wm Wsip W3 W7 S1) as Wf1.
  pose proof (phase2_wf _ _ _ _ _ Wf1 Wyi Wsip E2) as Wf2.
  destruct (phase1_facts _ _ _ _ _ _ _ _ L0 Lm Lsip L3 L7 S1 Ludp ltac:(lia)) as (P1 & P1z & P1s).
  destruct (phase2_facts _ _ _ _ _ Lyi Lsip E2) as (P2 & P2o & P2y & P2s).
  clear E1 S1 E2.
  destruct (build_options_run f2 (p_dhcp p + 240) rt pv sip Lsip PK ltac:(lia)) as [f3 [EB U3]].
  fold optb in EB, U3. rewrite EB in H. clear EB.
  pose proof (upd_length _ _ _ _ U3) as Lf3.
  pose proof (upd_wf _ _ _ _ Wf2 Wob U3) as Wf3.
  assert (P3 : forall o k, (o + k <= p_dhcp p + 240)%nat -> rd f3 o k = rd f2 o k)
    by (intros o k B; apply (rd_upd_other _ _ _ _ o k U3); lia).
  pose proof (rd_upd_same _ _ _ _ U3) as P3o.

  destruct (finish_facts f3 p (length optb) MK v r mk Lv Lip Ludp Ldh ltac:(lia) ltac:(lia) Hn H)
    as (Ev & _ & Lr & Q & Qt & Qu & Qc).
  split; [exact Ev|]. exists yi, pv, cfgip. repeat (split; [reflexivity|]).
  change (tx_facts f r p yi sip optb).
  constructor.
  - exact Lr.
  - rewrite Q by lia. exact P3o.
  - rewrite Q, P3, P2y by lia. reflexivity.
  - rewrite Q, P3, P2s by lia. reflexivity.
  - rewrite Q, P3, P2o by lia. reflexivity.
  - rewrite Q, P3, P2, P1 by lia. reflexivity.
  - rewrite Q, P3, P2, P1 by lia. reflexivity.
  - rewrite Q, P3, P2, P1 by lia. reflexivity.
  - rewrite Q, P3, P2, P1 by lia. reflexivity.
  - intros o k B1 B2. rewrite Q, P3, P2, P1 by lia. reflexivity.
  - rewrite Q, P3, P2, P1 by lia. reflexivity.
  - rewrite Q, P3, P2, P1 by lia. reflexivity.
  - rewrite Qt. do 2 f_equal. lia.
  - rewrite Qu. do 2 f_equal. lia.
  - rewrite Q, P3, P2 by lia. exact P1s.
  - apply Qc; [exact Wf3|]. rewrite P3, P2 by lia. exact P1z.
Qed.

(* ------------------------------------------------------------------ xdp: every outcome *)
Definition rt_of (mt : N) : N := if mt =? 1 then 2 else 5.

Definition tx_case (m : maps) (now : N) (f r : bytes) : Prop :=
  exists (p : pkt) (mt : N) (asg ex pid poolval cfg yi : bytes) (pv : poolv) (cfgip : bytes),
    parse f = Parsed p /\
    (get_msg_type f (p_dhcp p + 240) = Some mt /\ (mt = 1 \/ mt = 3)) /\
    find_assignment m f p = Some (Some asg) /\
    (rd asg 13 8 = Some ex /\ now / NS_PER_S <= le_val ex) /\
    (rd asg 0 4 = Some pid /\ lookup pid (m_pool m) = Some poolval /\ pool_view poolval = Some pv) /\
    (m_cfg m = Some cfg /\ rd cfg 8 4 = Some cfgip) /\
    rd asg 4 4 = Some yi /\
    tx_facts f r p yi (if all_zero cfgip then pv_gw pv else cfgip)
             (opt_bytes (rt_of mt) pv (if all_zero cfgip then pv_gw pv else cfgip)).

Lemma xdp_result m now unow f v r mk :
  wf_bytes f -> wf_maps m -> N.of_nat (length f) < 65536 ->
  xdp m now unow f = Done v r mk ->
  (v = XDP_PASS /\ r = f /\ mk = []) \/ (v = XDP_TX /\ tx_case m now f r).
Proof.
  intros Wf Wm L16 H. unfold xdp in H.
  destruct (parse f) as [|p|] eqn:Ep; [inversion H; auto| |discriminate].
  pose proof (parse_layout _ _ Ep) as LY.
  destruct (rd8 f (p_dhcp p)) as [op|]; [|discriminate].
  destruct (rd f (p_dhcp p + 236) 4) as [magic|]; [|discriminate].
  destruct (negb (op =? 1)); [inversion H; auto|].
  destruct (negb (bytes_eqb magic [99; 130; 83; 99])); [inversion H; auto|].
  destruct (get_msg_type f (p_dhcp p + 240)) as [mt|] eqn:Emt; [|discriminate].
  destruct ((mt =? 1) || (mt =? 3)) eqn:E13; cbn [negb] in H; [|inversion H; auto].
  destruct (find_assignment m f p) as [[asg|]|] eqn:Ef; [| inversion H; auto | discriminate].
  destruct (rd asg 13 8) as [ex|] eqn:Eex; [|discriminate].
  destruct (rd asg 0 4) as [pid|] eqn:Epid; [|discriminate].
  destruct (le_val ex <? now / NS_PER_S) eqn:Elt; [inversion H; auto|]. apply N.ltb_ge in Elt.
  destruct (lookup pid (m_pool m)) as [poolval|] eqn:Epl; [|inversion H; auto].
  destruct (Nat.ltb (length f) (p_dhcp p + 240 + 64)) eqn:E64; [inversion H; auto|]. apply Nat.ltb_ge in E64.
  destruct (m_cfg m) as [cfg|] eqn:Ecfg; [|inversion H; auto].
  pose proof (find_assignment_wf _ _ _ _ Wm Ef) as Wa.
  assert (Wp : wf_bytes poolval) by (destruct (lookup_in _ _ _ Epl) as [k I]; eapply (WM_pool _ Wm); eauto).
  assert (Wc : wf_bytes cfg) by (eapply (WM_cfg _ Wm); eauto).
  destruct (reply_facts _ _ _ _ _ _ _ _ _ _ _ _ LY E64 L16 Wf Wa Wp Wc H) as (Ev & yi & pv & cfgip & A1 & A2 & A3 & A4).
  right. split; [exact Ev|].
  apply orb_true_iff in E13.
  exists p, mt, asg, ex, pid, poolval, cfg, yi, pv, cfgip.
  assert (Hmt : mt = 1 \/ mt = 3) by (destruct E13 as [E|E]; apply N.eqb_eq in E; auto).
  repeat (split; [solve [auto]|]). exact A4.
Qed.

(* clause 4: a frame that is not answered is handed on unchanged (XDP_PASS is the only other verdict) *)
Lemma pass_identity m now unow f v r mk :
  wf_bytes f -> wf_maps m -> N.of_nat (length f) < 65536 ->
  xdp m now unow f = Done v r mk -> v <> XDP_TX -> v = XDP_PASS /\ r = f.
Proof.
  intros Wf Wm L H N. destruct (xdp_result _ _ _ _ _ _ _ Wf Wm L H) as [(A & B & _)|(A & _)]; [auto|contradiction].
Qed.

(* the program never reads or writes outside the frame on well-formed maps *)
Lemma no_entry_pass m now unow f p :
  parse f = Parsed p -> find_assignment m f p = Some None ->
  forall v r mk, xdp m now unow f = Done v r mk -> v = XDP_PASS /\ r = f.
Proof.
  intros Ep Ef v r mk H. unfold xdp in H. rewrite Ep in H.
  destruct (rd8 f (p_dhcp p)); [|discriminate]. destruct (rd f (p_dhcp p + 236) 4); [|discriminate].
  destruct (negb (n =? 1)); [inversion H; auto|].
  destruct (negb (bytes_eqb b [99; 130; 83; 99])); [inversion H; auto|].
  destruct (get_msg_type f (p_dhcp p + 240)); [|discriminate].
  destruct (negb ((n0 =? 1) || (n0 =? 3))); [inversion H; auto|].
  rewrite Ef in H. inversion H; auto.
Qed.

(* the expiry test is right when the kernel clock reads Unix seconds *)
Lemma expired_pass_same_clock m now unow f v r mk :
  wf_bytes f -> wf_maps m -> N.of_nat (length f) < 65536 ->
  now / NS_PER_S = unow ->
  xdp m now unow f = Done v r mk -> v = XDP_TX ->
  exists p asg ex, parse f = Parsed p /\ find_assignment m f p = Some (Some asg) /\ rd asg 13 8 = Some ex /\ unow <= le_val ex.
Proof.
  intros Wf Wm L E H Ev. destruct (xdp_result _ _ _ _ _ _ _ Wf Wm L H) as [(A & _)|(_ & X)]; [rewrite A in Ev; discriminate|].
  destruct X as (p & mt & asg & ex & pid & poolval & cfg & yi & pv & cfgip & A1 & A2 & A3 & (A4 & A5) & _).
  exists p, asg, ex. rewrite <- E. auto.
Qed.

(* ------------------------------------------------------------------ the Go side *)
Lemma lookup_mdel k l : lookup k (mdel k l) = None.
Proof.
  induction l as [|[k' v] l IH]; cbn; [reflexivity|].
  destruct (bytes_eqb k' k) eqn:E; cbn; [exact IH|]. rewrite E. exact IH.
Qed.

Lemma bytes_eqb_refl k : bytes_eqb k k = true.
Proof. apply bytes_eqb_eq. reflexivity. Qed.

Lemma lookup_mput k v l : lookup k (mput k v l) = Some v.
Proof.
  induction l as [|[k' v'] l IH]; cbn; [rewrite bytes_eqb_refl; reflexivity|].
  destruct (bytes_eqb k' k) eqn:E; cbn; [rewrite bytes_eqb_refl; reflexivity|].
  destruct (lex_ltb k k'); cbn; [rewrite bytes_eqb_refl; reflexivity|]. rewrite E. exact IH.
Qed.

(* after RELEASE / DECLINE / expiry sweep the subscriber's entries are gone *)
Lemma gone_entries m mac cid e :
  e = GRelease mac cid \/ e = GDecline mac cid \/ e = GExpire mac cid ->
  let m' := fst (cache_step m e) in
  lookup (go_mac_key mac) (m_sub m') = None /\ (cid <> [] -> lookup (go_cid_key cid) (m_cid m') = None).
Proof.
  intros [-> | [-> | ->]]; unfold cache_step, set_maps; cbn [fst m_sub m_cid]; (split; [apply lookup_mdel|]); intros Hc; destruct cid; try congruence; apply lookup_mdel.
Qed.

Lemma gone_not_answered m mac cid e now unow f p :
  e = GRelease mac cid \/ e = GDecline mac cid \/ e = GExpire mac cid ->
  parse f = Parsed p -> p_tagged p = false ->
  rd f (p_dhcp p + 28) 6 = Some (rev (firstn 6 (go_mac_key mac))) -> skipn 6 (go_mac_key mac) = [0; 0] ->
  (extract_cid f (p_dhcp p + 240) = Some None \/ (cid <> [] /\ extract_cid f (p_dhcp p + 240) = Some (Some (go_cid_key cid)))) ->
  forall v r mk, xdp (fst (cache_step m e)) now unow f = Done v r mk -> v = XDP_PASS /\ r = f.
Proof.
  intros He Ep Et Em Ek Ec. destruct (gone_entries m mac cid e He) as [G1 G2].
  apply (no_entry_pass _ _ _ _ _ Ep). unfold find_assignment. rewrite Et.
  assert (K : rev (rev (firstn 6 (go_mac_key mac))) ++ [0; 0] = go_mac_key mac).
  { rewrite rev_involutive, <- Ek. apply firstn_skipn. }
  destruct Ec as [Ec|[Hc Ec]]; rewrite Ec, Em; cbv beta iota.
  - rewrite K, G1. reflexivity.
  - rewrite (G2 Hc). cbv beta iota. rewrite K, G1. reflexivity.
Qed.

(* what the ACK branch of handleRequest leaves under the subscriber's MAC: the address bytes reversed *)
Lemma ack_entry m mac ip pool vlan class ex cid :
  lookup (go_mac_key mac) (m_sub (fst (cache_step m (GAck mac ip pool vlan class ex cid)))) =
  Some (go_assignment pool ip vlan class ex).
Proof. unfold cache_step, set_maps. cbn [fst m_sub]. apply lookup_mput. Qed.

Lemma le_bytes_length n v : length (le_bytes n v) = n.
Proof. unfold le_bytes. rewrite rev_length. apply be_bytes_length. Qed.

Lemma assignment_ip pool ip vlan class ex : rd (go_assignment pool ip vlan class ex) 4 4 = Some (go_ip ip).
Proof.
  unfold go_assignment, go_u32, go_ip.
  pose proof (rd_app_r (le_bytes 4 (pool mod W32)) (le_bytes 4 (be_val ip) ++ le_bytes 4 (vlan mod W32) ++ [class mod 256] ++ go_u64 ex ++ [0] ++ [0; 0; 0]) 0 4) as R.
  rewrite le_bytes_length in R. cbn [Nat.add] in R. rewrite R.
  rewrite rd_app_l by (rewrite le_bytes_length; lia). rewrite rd_some by (rewrite le_bytes_length; lia).
  cbn [skipn]. rewrite firstn_all2 by (rewrite le_bytes_length; lia). reflexivity.
Qed.

(* ------------------------------------------------------------------ byte order of the cached addresses *)
Lemma go_ip_rev a b c d : a < 256 -> b < 256 -> c < 256 -> d < 256 -> go_ip [a; b; c; d] = [d; c; b; a].
Proof.
  intros Ha Hb Hc Hd. unfold go_ip, le_bytes, be_val. cbn [fold_left be_bytes rev app N.of_nat].
  change (256 ^ N.pos (Pos.of_succ_nat 2)) with 16777216. change (256 ^ N.pos (Pos.of_succ_nat 1)) with 65536.
  change (256 ^ N.pos (Pos.of_succ_nat 0)) with 256. change (256 ^ 0) with 1.
  set (v := ((0 * 256 + a) * 256 + b) * 256 + c).
  assert (E0 : (v * 256 + d) mod 256 = d) by (rewrite N.add_comm, N.mod_add by discriminate; apply N.mod_small; exact Hd).
  assert (D1 : (v * 256 + d) / 256 = v) by (rewrite N.add_comm, N.div_add by discriminate; rewrite (N.div_small d 256 Hd); reflexivity).
  Time cbn [rev app].
  rewrite N.div_1_r, E0.
  repeat f_equal.
  - replace ((v * 256 + d) / 256) with v by (symmetry; exact D1). unfold v.
    rewrite N.add_comm, N.mod_add by discriminate. apply N.mod_small. exact Hc.
  - replace 65536 with (256 * 256) by reflexivity. rewrite <- N.div_div by discriminate. rewrite D1. unfold v.
    rewrite (N.add_comm _ c), N.div_add by discriminate. rewrite (N.div_small c 256 Hc). cbn [N.add].
    rewrite N.add_comm, N.mod_add by discriminate. apply N.mod_small. exact Hb.
  - replace 16777216 with (256 * 256 * 256) by reflexivity. rewrite <- !N.div_div by discriminate. rewrite D1. unfold v.
    rewrite (N.add_comm _ c), N.div_add by discriminate. rewrite (N.div_small c 256 Hc). cbn [N.add].
    rewrite (N.add_comm _ b), N.div_add by discriminate. rewrite (N.div_small b 256 Hb). cbn [N.add].
    cbn. apply N.mod_small. exact Ha.
Qed.

Lemma parsed_inj p q : Parsed p = Parsed q -> p = q.
Proof. intros H; inversion H; reflexivity. Qed.

(* the slow path ACKs (mac, ip); a frame of that client (found through its MAC) that the fast path answers
   carries go_ip ip as yiaddr - the bytes of ip reversed *)
Lemma ack_reply_yiaddr m mac ip pool vlan class ex cid now unow f r mk p ch :
  let m' := fst (cache_step m (GAck mac ip pool vlan class ex cid)) in
  wf_bytes f -> wf_maps m' -> N.of_nat (length f) < 65536 ->
  parse f = Parsed p -> p_tagged p = false -> extract_cid f (p_dhcp p + 240) = Some None ->
  rd f (p_dhcp p + 28) 6 = Some ch -> rev ch ++ [0; 0] = go_mac_key mac ->
  xdp m' now unow f = Done XDP_TX r mk -> rd r (p_dhcp p + 16) 4 = Some (go_ip ip).
Proof.
  intros m' Wf Wm L Ep Et Ec Em Ek H.
  destruct (xdp_result _ _ _ _ _ _ _ Wf Wm L H) as [(A & _)|(_ & X)]; [discriminate|].
  destruct X as (p' & mt & asg & ex' & pid & poolval & cfg & yi & pv & cfgip & A1 & A2 & A3 & A4 & A5 & A6 & A7 & A8).
  rewrite Ep in A1. apply parsed_inj in A1. subst p'.
  unfold find_assignment in A3. rewrite Et, Ec, Em, Ek in A3. unfold m' in A3. rewrite ack_entry in A3.
  inversion A3; subst asg. rewrite assignment_ip in A7. inversion A7; subst yi.
  exact (F_yi _ _ _ _ _ _ A8).
Qed.

(* ------------------------------------------------------------------ reply type *)
Lemma opt_bytes_type rt pv sip : tlv_msg_type (opt_bytes rt pv sip) = rt.
Proof.
  unfold tlv_msg_type, tlv_get, opt_bytes. cbn [app length tlv_find].
  destruct (53 =? 0) eqn:E; [discriminate|]. destruct (53 =? 255) eqn:E2; [discriminate|].
  cbn. reflexivity.
Qed.

(* ------------------------------------------------------------------ recorded witnesses
   Each is one corpus case (corpus/C03/k03*.json) as the driver recorded it on the real code: the slow-path
   events, the raw dump of the kernel maps, the maps rewritten to network order where the case isolates
   another defect, the request frame, the clocks, the userspace reply, and the kernel program's output. *)
Definition wit_k03a : case := [(Ev (GPool {| gp_id := 1; gp_net := [172;20;5;0]; gp_prefix := 24; gp_gw := [172;20;5;1]; gp_dns := [[9;9;9;10]; [192;0;2;53]]; gp_lease := 3600 |}), OUnit); (Ev (GConfig [2;170;187;204;221;1] [172;20;5;254] 7), OUnit); (Ev (GAck [2;0;94;16;0;17] [172;20;5;2] 1 0 1 1790145896 []), ODump [([17;0;16;94;0;2;0;0], [1;0;0;0;2;5;20;172;0;0;0;0;1;104;117;179;106;0;0;0;0;0;0;0;0])] [] [] [([1;0;0;0], [0;5;20;172;24;0;0;0;1;5;20;172;10;9;9;9;53;2;0;192;16;14;0;0;0;0;0;0])] [2;170;187;204;221;1;0;0;254;5;20;172;7;0;0;0]); (Probe (unz [B [255;255;255;255;255;255;2;0;94;16;0;17;8;0;69;0;1;76;243;38;0;0;128;17;70;123;0;0;0;0;255;255;255;255;0;68;0;67;1;56;0;0;1;1;6;0;57;3;243;38]; Z 20; B [2;0;94;16;0;17]; Z 202; B [99;130;83;99;53;1;1;55;4;1;3;6;51;255]; Z 54]) 11823166568629 1790142296 {| sv_kind := 2; sv_yiaddr := [172;20;5;2]; sv_sid := [172;20;5;254]; sv_mask := [255;255;255;0]; sv_router := [172;20;5;1]; sv_dns := [9;9;9;10;192;0;2;53]; sv_lease := 3600; sv_status := 1 |}, OXdp 3 (Some (unz [B [255;255;255;255;255;255;2;170;187;204;221;1;8;0;69;0;1;62;243;38;0;0;64;17;115;215;254;5;20;172;255;255;255;255;0;67;0;68;1;42;0;0;2;1;6;0;57;3;243;38]; Z 8; B [2;5;20;172;254;5;20;172;0;0;0;0;2;0;94;16;0;17]; Z 202; B [99;130;83;99;53;1;2;54;4;254;5;20;172;51;4;0;0;14;16;1;4;255;255;255;0;3;4;1;5;20;172;6;8;10;9;9;9;53;2;0;192;58;4;0;0;7;8;59;4;0;0;12;78;255]]))); (Probe (unz [B [255;255;255;255;255;255;2;0;94;16;0;17;8;0;69;0;1;76;243;38;0;0;128;17;70;123;0;0;0;0;255;255;255;255;0;68;0;67;1;56;0;0;1;1;6;0;57;3;243;38]; Z 20; B [2;0;94;16;0;17]; Z 202; B [99;130;83;99;53;1;3;50;4;172;20;5;2;55;4;1;3;6;51;255]; Z 48]) 11823188934900 1790142296 {| sv_kind := 5; sv_yiaddr := [172;20;5;2]; sv_sid := [172;20;5;254]; sv_mask := [255;255;255;0]; sv_router := [172;20;5;1]; sv_dns := [9;9;9;10;192;0;2;53]; sv_lease := 3600; sv_status := 1 |}, OXdp 3 (Some (unz [B [255;255;255;255;255;255;2;170;187;204;221;1;8;0;69;0;1;62;243;38;0;0;64;17;115;215;254;5;20;172;255;255;255;255;0;67;0;68;1;42;0;0;2;1;6;0;57;3;243;38]; Z 8; B [2;5;20;172;254;5;20;172;0;0;0;0;2;0;94;16;0;17]; Z 202; B [99;130;83;99;53;1;5;54;4;254;5;20;172;51;4;0;0;14;16;1;4;255;255;255;0;3;4;1;5;20;172;6;8;10;9;9;9;53;2;0;192;58;4;0;0;7;8;59;4;0;0;12;78;255]])))].
Definition wit_k03c : case := [(Ev (GPool {| gp_id := 1; gp_net := [172;20;5;0]; gp_prefix := 24; gp_gw := [172;20;5;1]; gp_dns := [[9;9;9;10]; [192;0;2;53]]; gp_lease := 3600 |}), OUnit); (Ev (GConfig [2;170;187;204;221;1] [172;20;5;254] 7), OUnit); (Ev (GAck [2;0;94;16;0;17] [172;20;5;2] 1 0 1 1790145896 []), OUnit); (Ev (GAge 7200), ODump [([17;0;16;94;0;2;0;0], [1;0;0;0;2;5;20;172;0;0;0;0;1;72;89;179;106;0;0;0;0;0;0;0;0])] [] [] [([1;0;0;0], [0;5;20;172;24;0;0;0;1;5;20;172;10;9;9;9;53;2;0;192;16;14;0;0;0;0;0;0])] [2;170;187;204;221;1;0;0;254;5;20;172;7;0;0;0]); (SetMaps {| m_sub := [([17;0;16;94;0;2;0;0], [1;0;0;0;172;20;5;2;0;0;0;0;1;72;89;179;106;0;0;0;0;0;0;0;0])]; m_vlan := []; m_cid := []; m_pool := [([1;0;0;0], [172;20;5;0;24;0;0;0;172;20;5;1;9;9;9;10;192;0;2;53;16;14;0;0;0;0;0;0])]; m_cfg := Some [2;170;187;204;221;1;0;0;172;20;5;254;7;0;0;0]; m_origin := 1 |}, OUnit); (Probe (unz [B [255;255;255;255;255;255;2;0;94;16;0;17;8;0;69;0;1;76;243;38;0;0;128;17;70;123;0;0;0;0;255;255;255;255;0;68;0;67;1;56;0;0;1;1;6;0;57;3;243;38]; Z 20; B [2;0;94;16;0;17]; Z 202; B [99;130;83;99;53;1;1;55;4;1;3;6;51;255]; Z 54]) 11823243667615 1790142296 {| sv_kind := 2; sv_yiaddr := [172;20;5;2]; sv_sid := [172;20;5;254]; sv_mask := [255;255;255;0]; sv_router := [172;20;5;1]; sv_dns := [9;9;9;10;192;0;2;53]; sv_lease := 3600; sv_status := 2 |}, OXdp 3 (Some (unz [B [255;255;255;255;255;255;2;170;187;204;221;1;8;0;69;0;1;62;243;38;0;0;64;17;212;118;172;20;5;254;255;255;255;255;0;67;0;68;1;42;0;0;2;1;6;0;57;3;243;38]; Z 8; B [172;20;5;2;172;20;5;254;0;0;0;0;2;0;94;16;0;17]; Z 202; B [99;130;83;99;53;1;2;54;4;172;20;5;254;51;4;0;0;14;16;1;4;255;255;255;0;3;4;172;20;5;1;6;8;9;9;9;10;192;0;2;53;58;4;0;0;7;8;59;4;0;0;12;78;255]])))].
Definition wit_k03f : case := [(Ev (GPool {| gp_id := 1; gp_net := [172;20;5;0]; gp_prefix := 24; gp_gw := [172;20;5;1]; gp_dns := [[9;9;9;10]; [192;0;2;53]]; gp_lease := 3600 |}), OUnit); (Ev (GConfig [2;170;187;204;221;1] [172;20;5;254] 7), OUnit); (Ev (GAck [2;0;94;16;0;17] [172;20;5;2] 1 0 1 1790145896 []), ODump [([17;0;16;94;0;2;0;0], [1;0;0;0;2;5;20;172;0;0;0;0;1;104;117;179;106;0;0;0;0;0;0;0;0])] [] [] [([1;0;0;0], [0;5;20;172;24;0;0;0;1;5;20;172;10;9;9;9;53;2;0;192;16;14;0;0;0;0;0;0])] [2;170;187;204;221;1;0;0;254;5;20;172;7;0;0;0]); (SetMaps {| m_sub := [([17;0;16;94;0;2;0;0], [1;0;0;0;172;20;5;2;0;0;0;0;1;104;117;179;106;0;0;0;0;0;0;0;0])]; m_vlan := []; m_cid := []; m_pool := [([1;0;0;0], [172;20;5;0;24;0;0;0;172;20;5;1;9;9;9;10;192;0;2;53;16;14;0;0;0;0;0;0])]; m_cfg := Some [2;170;187;204;221;1;0;0;172;20;5;254;7;0;0;0]; m_origin := 1 |}, OUnit); (Probe (unz [B [255;255;255;255;255;255;2;0;94;16;0;17;8;0;69;0;1;76;243;38;0;0;128;17;70;123;0;0;0;0;255;255;255;255;0;68;0;67;1;56;0;0;1;1;6;0;57;3;243;38]; Z 20; B [2;0;94;16;0;17]; Z 202; B [99;130;83;99;53;1;3;50;4;172;20;5;6;255]; Z 54]) 11823366121831 1790142296 {| sv_kind := 6; sv_yiaddr := [0;0;0;0]; sv_sid := [172;20;5;254]; sv_mask := []; sv_router := []; sv_dns := []; sv_lease := 0; sv_status := 1 |}, OXdp 3 (Some (unz [B [255;255;255;255;255;255;2;170;187;204;221;1;8;0;69;0;1;62;243;38;0;0;64;17;212;118;172;20;5;254;255;255;255;255;0;67;0;68;1;42;0;0;2;1;6;0;57;3;243;38]; Z 8; B [172;20;5;2;172;20;5;254;0;0;0;0;2;0;94;16;0;17]; Z 202; B [99;130;83;99;53;1;5;54;4;172;20;5;254;51;4;0;0;14;16;1;4;255;255;255;0;3;4;172;20;5;1;6;8;9;9;9;10;192;0;2;53;58;4;0;0;7;8;59;4;0;0;12;78;255]])))].
Definition wit_k03g : case := [(Ev (GPool {| gp_id := 1; gp_net := [172;20;5;0]; gp_prefix := 24; gp_gw := [172;20;5;1]; gp_dns := [[9;9;9;10]; [192;0;2;53]]; gp_lease := 3600 |}), OUnit); (Ev (GConfig [2;170;187;204;221;1] [172;20;5;254] 7), OUnit); (Ev (GAck [2;0;94;16;0;17] [172;20;5;2] 1 0 1 1790145896 []), ODump [([17;0;16;94;0;2;0;0], [1;0;0;0;2;5;20;172;0;0;0;0;1;104;117;179;106;0;0;0;0;0;0;0;0])] [] [] [([1;0;0;0], [0;5;20;172;24;0;0;0;1;5;20;172;10;9;9;9;53;2;0;192;16;14;0;0;0;0;0;0])] [2;170;187;204;221;1;0;0;254;5;20;172;7;0;0;0]); (SetMaps {| m_sub := [([17;0;16;94;0;2;0;0], [1;0;0;0;172;20;5;2;0;0;0;0;1;104;117;179;106;0;0;0;0;0;0;0;0])]; m_vlan := []; m_cid := []; m_pool := [([1;0;0;0], [172;20;5;0;24;0;0;0;172;20;5;1;9;9;9;10;192;0;2;53;16;14;0;0;0;0;0;0])]; m_cfg := Some [2;170;187;204;221;1;0;0;172;20;5;254;7;0;0;0]; m_origin := 1 |}, OUnit); (Probe (unz [B [255;255;255;255;255;255;2;0;94;16;0;17;8;0;69;0;1;76;243;38;0;0;128;17;149;100;172;20;5;2;255;255;255;255;0;68;0;67;1;56;0;0;1;1;6;0;57;3;243;38;0;0;0;0;172;20;5;2]; Z 12; B [2;0;94;16;0;17]; Z 202; B [99;130;83;99;61;7;1;53;1;1;9;9;9;53;1;7;255]; Z 51]) 11823410717595 1790142296 {| sv_kind := 0; sv_yiaddr := []; sv_sid := []; sv_mask := []; sv_router := []; sv_dns := []; sv_lease := 0; sv_status := 1 |}, OXdp 3 (Some (unz [B [2;0;94;16;0;17;2;170;187;204;221;1;8;0;69;0;1;62;243;38;0;0;64;17;212;118;172;20;5;254;255;255;255;255;0;67;0;68;1;42;0;0;2;1;6;0;57;3;243;38;0;0;0;0;172;20;5;2;172;20;5;2;172;20;5;254;0;0;0;0;2;0;94;16;0;17]; Z 202; B [99;130;83;99;53;1;2;54;4;172;20;5;254;51;4;0;0;14;16;1;4;255;255;255;0;3;4;172;20;5;1;6;8;9;9;9;10;192;0;2;53;58;4;0;0;7;8;59;4;0;0;12;78;255]])))].
Definition wit_k03h : case := [(Ev (GPool {| gp_id := 1; gp_net := [172;20;5;0]; gp_prefix := 24; gp_gw := [172;20;5;1]; gp_dns := [[9;9;9;10]; [192;0;2;53]]; gp_lease := 3600 |}), OUnit); (Ev (GAck [2;0;94;16;0;17] [172;20;5;2] 1 0 1 1790145897 []), ODump [([17;0;16;94;0;2;0;0], [1;0;0;0;2;5;20;172;0;0;0;0;1;105;117;179;106;0;0;0;0;0;0;0;0])] [] [] [([1;0;0;0], [0;5;20;172;24;0;0;0;1;5;20;172;10;9;9;9;53;2;0;192;16;14;0;0;0;0;0;0])] [0;0;0;0;0;0;0;0;0;0;0;0;0;0;0;0]); (SetMaps {| m_sub := [([17;0;16;94;0;2;0;0], [1;0;0;0;172;20;5;2;0;0;0;0;1;105;117;179;106;0;0;0;0;0;0;0;0])]; m_vlan := []; m_cid := []; m_pool := [([1;0;0;0], [172;20;5;0;24;0;0;0;172;20;5;1;9;9;9;10;192;0;2;53;16;14;0;0;0;0;0;0])]; m_cfg := Some [0;0;0;0;0;0;0;0;0;0;0;0;0;0;0;0]; m_origin := 1 |}, OUnit); (Probe (unz [B [255;255;255;255;255;255;2;0;94;16;0;17;8;0;69;0;1;76;243;38;0;0;128;17;70;123;0;0;0;0;255;255;255;255;0;68;0;67;1;56;0;0;1;1;6;0;57;3;243;38]; Z 20; B [2;0;94;16;0;17]; Z 202; B [99;130;83;99;53;1;1;55;4;1;3;6;51;255]; Z 54]) 11823471726683 1790142297 {| sv_kind := 2; sv_yiaddr := [172;20;5;2]; sv_sid := [172;20;5;254]; sv_mask := [255;255;255;0]; sv_router := [172;20;5;1]; sv_dns := [9;9;9;10;192;0;2;53]; sv_lease := 3600; sv_status := 1 |}, OXdp 3 (Some (unz [B [255;255;255;255;255;255]; Z 6; B [8;0;69;0;1;62;243;38;0;0;64;17;213;115;172;20;5;1;255;255;255;255;0;67;0;68;1;42;0;0;2;1;6;0;57;3;243;38]; Z 8; B [172;20;5;2;172;20;5;1;0;0;0;0;2;0;94;16;0;17]; Z 202; B [99;130;83;99;53;1;2;54;4;172;20;5;1;51;4;0;0;14;16;1;4;255;255;255;0;3;4;172;20;5;1;6;8;9;9;9;10;192;0;2;53;58;4;0;0;7;8;59;4;0;0;12;78;255]])))].

(* maps and probe of a recorded case *)
Fixpoint run_maps (s : state) (tr : case) : state :=
  match tr with
  | [] => s
  | (Probe _ _ _ _, _) :: _ => s
  | (o, _) :: tl => run_maps (fst (fst (step s o))) tl
  end.
Fixpoint probe_of (tr : case) : bytes * N * N :=
  match tr with
  | [] => ([], 0, 0)
  | (Probe f now unow _, _) :: _ => (f, now, unow)
  | _ :: tl => probe_of tl
  end.
Definition wmaps (c : case) : maps := s_m (run_maps init c).
Definition wframe (c : case) : bytes := fst (fst (probe_of c)).
Definition wnow (c : case) : N := snd (fst (probe_of c)).
Definition wunow (c : case) : N := snd (probe_of c).

(* the monitor's verdict on the recorded cases: Model output = recorded kernel output (first number 0),
   implementation and Model rejected at the same step for the same clause (+1), marker raised *)
Lemma wit_rows :
  run_cases [wit_k03a; wit_k03c; wit_k03f; wit_k03g; wit_k03h] =
  [[1; 0; 4; 4; 4; 4; 301]; [1; 0; 5; 4; 5; 4; 301]; [2; 0; 6; 6; 6; 6; 304]; [3; 0; 5; 3; 5; 3; 307]; [4; 0; 5; 2; 5; 2; 308]; [5; 0; 4; 4; 4; 4; 309]].
Proof. vm_compute. reflexivity. Qed.

Definition is_tx (x : res) : bool := match x with Done v _ _ => v =? XDP_TX | OOB => false end.
Definition res_frame (x : res) : bytes := match x with Done _ r _ => r | OOB => [] end.

Definition res_marks (x : res) : list N := match x with Done _ _ mk => mk | OOB => [] end.
Definition parsed_of (f : bytes) : pkt :=
  match parse f with
  | Parsed p => p
  | _ => {| p_tagged := false; p_vid := 0; p_ivid := 0; p_voff := 0; p_ip := 0; p_ihl := 0; p_udp := 0; p_dhcp := 0 |}
  end.
Definition some_or_nil (o : option bytes) : bytes := match o with Some x => x | None => [] end.

(* ---- the clauses that fail on the code as it is, as closed statements over the Model ---- *)

(* after the slow path ACKs (mac, ip) the fast path's reply to that client carries ip *)
Definition yiaddr_agrees : Prop :=
  forall m mac ip pool vlan class ex cid now unow f r mk p ch,
    let m' := fst (cache_step m (GAck mac ip pool vlan class ex cid)) in
    parse f = Parsed p -> p_tagged p = false -> extract_cid f (p_dhcp p + 240) = Some None ->
    rd f (p_dhcp p + 28) 6 = Some ch -> rev ch ++ [0; 0] = go_mac_key mac ->
    xdp m' now unow f = Done XDP_TX r mk -> rd r (p_dhcp p + 16) 4 = Some ip.

(* an entry whose lease_expiry lies before the Unix clock is not answered *)
Definition expired_silent : Prop :=
  forall m now unow f p asg ex v r mk,
    parse f = Parsed p -> find_assignment m f p = Some (Some asg) -> rd asg 13 8 = Some ex -> le_val ex < unow ->
    xdp m now unow f = Done v r mk -> v <> XDP_TX.

(* an ACK confirms the address the REQUEST names (option 50, else ciaddr) *)
Definition request_confirmed : Prop :=
  forall m now unow f p a r mk,
    parse f = Parsed p -> get_msg_type f (p_dhcp p + 240) = Some 3 -> requested_addr f p = Some a ->
    xdp m now unow f = Done XDP_TX r mk -> rd r (p_dhcp p + 16) 4 = Some a.

(* OFFER answers a DISCOVER and ACK a REQUEST, the request's type read by a TLV walk *)
Definition type_agrees : Prop :=
  forall m now unow f p r mk,
    parse f = Parsed p -> xdp m now unow f = Done XDP_TX r mk ->
    let tq := tlv_msg_type (skipn (p_dhcp p + 240) f) in
    let tr := tlv_msg_type (skipn (p_dhcp p + 240) r) in
    (tq = 1 /\ tr = 2) \/ (tq = 3 /\ tr = 5).

Definition ack_of (c : case) : gev := match nth_error c 2 with Some (Ev e, _) => e | _ => GAge 0 end.
Definition ack_ex (e : gev) : N := match e with GAck _ _ _ _ _ x _ => x | _ => 0 end.

Lemma yiaddr_agrees_refuted : ~ yiaddr_agrees.
Proof.
  intros H.
  pose (f := wframe wit_k03a). pose (m := s_m (run_maps init (firstn 2 wit_k03a))). pose (ex := ack_ex (ack_of wit_k03a)).
  pose (mac := [2; 0; 94; 16; 0; 17]). pose (ip := [172; 20; 5; 2]).
  pose (x := xdp (fst (cache_step m (GAck mac ip 1 0 1 ex []))) (wnow wit_k03a) (wunow wit_k03a) f).
  pose (p := parsed_of f).
  assert (G1 : parse f = Parsed p) by (vm_compute; reflexivity).
  assert (G2 : p_tagged p = false) by (vm_compute; reflexivity).
  assert (G3 : extract_cid f (p_dhcp p + 240) = Some None) by (vm_compute; reflexivity).
  assert (G4 : rd f (p_dhcp p + 28) 6 = Some mac) by (vm_compute; reflexivity).
  assert (G5 : rev mac ++ [0; 0] = go_mac_key mac) by (vm_compute; reflexivity).
  assert (G6 : xdp (fst (cache_step m (GAck mac ip 1 0 1 ex []))) (wnow wit_k03a) (wunow wit_k03a) f = Done XDP_TX (res_frame x) (res_marks x)) by (vm_compute; reflexivity).
  pose proof (H m mac ip 1 0 1 ex [] (wnow wit_k03a) (wunow wit_k03a) f (res_frame x) (res_marks x) p mac G1 G2 G3 G4 G5 G6) as G.
  assert (G7 : rd (res_frame x) (p_dhcp p + 16) 4 = Some [2; 5; 20; 172]) by (vm_compute; reflexivity).
  rewrite G7 in G. discriminate G.
Qed.

Lemma expired_silent_refuted : ~ expired_silent.
Proof.
  intros H.
  pose (f := wframe wit_k03c). pose (m := wmaps wit_k03c). pose (p := parsed_of f).
  pose (x := xdp m (wnow wit_k03c) (wunow wit_k03c) f).
  pose (asg := match find_assignment m f p with Some (Some a) => a | _ => [] end).
  pose (ex := some_or_nil (rd asg 13 8)).
  assert (G1 : parse f = Parsed p) by (vm_compute; reflexivity).
  assert (G2 : find_assignment m f p = Some (Some asg)) by (vm_compute; reflexivity).
  assert (G3 : rd asg 13 8 = Some ex) by (vm_compute; reflexivity).
  assert (G4 : le_val ex < wunow wit_k03c) by (vm_compute; reflexivity).
  assert (G5 : xdp m (wnow wit_k03c) (wunow wit_k03c) f = Done XDP_TX (res_frame x) (res_marks x)) by (vm_compute; reflexivity).
  exact (H m (wnow wit_k03c) (wunow wit_k03c) f p asg ex XDP_TX (res_frame x) (res_marks x) G1 G2 G3 G4 G5 eq_refl).
Qed.

Lemma request_confirmed_refuted : ~ request_confirmed.
Proof.
  intros H.
  pose (f := wframe wit_k03f). pose (m := wmaps wit_k03f). pose (p := parsed_of f).
  pose (x := xdp m (wnow wit_k03f) (wunow wit_k03f) f).
  pose (a := some_or_nil (requested_addr f p)).
  assert (G1 : parse f = Parsed p) by (vm_compute; reflexivity).
  assert (G2 : get_msg_type f (p_dhcp p + 240) = Some 3) by (vm_compute; reflexivity).
  assert (G3 : requested_addr f p = Some a) by (vm_compute; reflexivity).
  assert (G4 : xdp m (wnow wit_k03f) (wunow wit_k03f) f = Done XDP_TX (res_frame x) (res_marks x)) by (vm_compute; reflexivity).
  pose proof (H m (wnow wit_k03f) (wunow wit_k03f) f p a (res_frame x) (res_marks x) G1 G2 G3 G4) as G.
  assert (G5 : rd (res_frame x) (p_dhcp p + 16) 4 = Some [172; 20; 5; 2]) by (vm_compute; reflexivity).
  assert (G6 : a = [172; 20; 5; 6]) by (vm_compute; reflexivity).
  rewrite G5, G6 in G. discriminate G.
Qed.

Lemma type_agrees_refuted : ~ type_agrees.
Proof.
  intros H.
  pose (f := wframe wit_k03g). pose (m := wmaps wit_k03g). pose (p := parsed_of f).
  pose (x := xdp m (wnow wit_k03g) (wunow wit_k03g) f).
  assert (G1 : parse f = Parsed p) by (vm_compute; reflexivity).
  assert (G2 : xdp m (wnow wit_k03g) (wunow wit_k03g) f = Done XDP_TX (res_frame x) (res_marks x)) by (vm_compute; reflexivity).
  pose proof (H m (wnow wit_k03g) (wunow wit_k03g) f p (res_frame x) (res_marks x) G1 G2) as G. cbv zeta in G.
  assert (G3 : tlv_msg_type (skipn (p_dhcp p + 240) f) = 7) by (vm_compute; reflexivity).
  rewrite G3 in G. destruct G as [[A _]|[A _]]; discriminate A.
Qed.

(* ------------------------------------------------------------------ the same clauses under their guards *)
Lemma yiaddr_agrees_partial m mac a b c d pool vlan class ex cid now unow f r mk p ch :
  let ip := [a; b; c; d] in
  let m' := fst (cache_step m (GAck mac ip pool vlan class ex cid)) in
  a < 256 -> b < 256 -> c < 256 -> d < 256 -> rev ip = ip ->
  wf_bytes f -> wf_maps m' -> N.of_nat (length f) < 65536 ->
  parse f = Parsed p -> p_tagged p = false -> extract_cid f (p_dhcp p + 240) = Some None ->
  rd f (p_dhcp p + 28) 6 = Some ch -> rev ch ++ [0; 0] = go_mac_key mac ->
  xdp m' now unow f = Done XDP_TX r mk -> rd r (p_dhcp p + 16) 4 = Some ip.
Proof.
  intros ip m' Ha Hb Hc Hd Hp Wf Wm L Ep Et Ec Em Ek H.
  rewrite (ack_reply_yiaddr m mac ip pool vlan class ex cid now unow f r mk p ch Wf Wm L Ep Et Ec Em Ek H).
  unfold ip. rewrite go_ip_rev by assumption. f_equal. exact Hp.
Qed.

Lemma expired_silent_partial m now unow f p asg ex v r mk :
  wf_bytes f -> wf_maps m -> N.of_nat (length f) < 65536 -> now / NS_PER_S = unow ->
  parse f = Parsed p -> find_assignment m f p = Some (Some asg) -> rd asg 13 8 = Some ex -> le_val ex < unow ->
  xdp m now unow f = Done v r mk -> v <> XDP_TX.
Proof.
  intros Wf Wm L E Ep Ef Eex Hlt H Ev.
  destruct (xdp_result _ _ _ _ _ _ _ Wf Wm L H) as [(A & _)|(_ & X)]; [rewrite A in Ev; discriminate|].
  destruct X as (p' & mt & asg' & ex' & pid & poolval & cfg & yi & pv & cfgip & A1 & A2 & A3 & (A4 & A5) & _).
  rewrite Ep in A1. apply parsed_inj in A1. subst p'. rewrite Ef in A3. inversion A3; subst asg'.
  rewrite Eex in A4. inversion A4; subst ex'. lia.
Qed.

Lemma request_confirmed_partial m now unow f p a asg r mk :
  wf_bytes f -> wf_maps m -> N.of_nat (length f) < 65536 ->
  parse f = Parsed p -> find_assignment m f p = Some (Some asg) -> rd asg 4 4 = Some a ->
  xdp m now unow f = Done XDP_TX r mk -> rd r (p_dhcp p + 16) 4 = Some a.
Proof.
  intros Wf Wm L Ep Ef Ea H.
  destruct (xdp_result _ _ _ _ _ _ _ Wf Wm L H) as [(A & _)|(_ & X)]; [discriminate|].
  destruct X as (p' & mt & asg' & ex' & pid & poolval & cfg & yi & pv & cfgip & A1 & A2 & A3 & A4 & A5 & A6 & A7 & A8).
  rewrite Ep in A1. apply parsed_inj in A1. subst p'. rewrite Ef in A3. inversion A3; subst asg'.
  rewrite Ea in A7. inversion A7; subst yi. exact (F_yi _ _ _ _ _ _ A8).
Qed.

Lemma type_agrees_partial m now unow f p r mk :
  wf_bytes f -> wf_maps m -> N.of_nat (length f) < 65536 ->
  parse f = Parsed p -> get_msg_type f (p_dhcp p + 240) = Some (tlv_msg_type (skipn (p_dhcp p + 240) f)) ->
  xdp m now unow f = Done XDP_TX r mk ->
  let tq := tlv_msg_type (skipn (p_dhcp p + 240) f) in
  let tr := tlv_msg_type (skipn (p_dhcp p + 240) r) in
  (tq = 1 /\ tr = 2) \/ (tq = 3 /\ tr = 5).
Proof.
  intros Wf Wm L Ep Eg H tq tr.
  destruct (xdp_result _ _ _ _ _ _ _ Wf Wm L H) as [(A & _)|(_ & X)]; [discriminate|].
  destruct X as (p' & mt & asg' & ex' & pid & poolval & cfg & yi & pv & cfgip & A1 & (A2 & A2') & A3 & A4 & A5 & A6 & A7 & A8).
  rewrite Ep in A1. apply parsed_inj in A1. subst p'. rewrite Eg in A2. inversion A2 as [E]. fold tq in E.
  assert (Er : skipn (p_dhcp p + 240) r = opt_bytes (rt_of mt) pv (if all_zero cfgip then pv_gw pv else cfgip))
    by (apply (rd_all_skipn _ _ _ _ (F_opts _ _ _ _ _ _ A8)); exact (F_len _ _ _ _ _ _ A8)).
  unfold tr. rewrite Er, opt_bytes_type.
  destruct A2' as [M|M]; [left|right]; (split; [unfold tq; congruence|]); rewrite M; reflexivity.
Qed.
