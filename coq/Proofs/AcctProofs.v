(* Lemmas for C08 (Model/Acct.v, Model/AcctSpec.v, Model/Gigaword.v). *)
From Coq Require Import ZArith NArith List Bool Lia ZifyN ZifyNat ZifyBool.
From Verif Require Import Model.Gigaword Model.Acct Model.AcctSpec.
Import ListNotations.
Local Open Scope N_scope.

(* ---------------------------------------------------------------- gigaword split *)
Lemma land_mask v : N.land v GMASK = v mod G32.
Proof. change GMASK with (N.ones 32). rewrite N.land_ones. reflexivity. Qed.

Lemma shiftr32 v : N.shiftr v 32 = v / G32.
Proof. rewrite N.shiftr_div_pow2. reflexivity. Qed.

Lemma join_split v : join (split v) = v.
Proof.
  unfold join, split; cbn [fst snd]. rewrite land_mask.
  destruct (GMASK <? v) eqn:E.
  - rewrite shiftr32. rewrite N.mul_comm, N.add_comm. symmetry. apply N.div_mod. discriminate.
  - rewrite N.add_0_r. apply N.mod_small. apply N.ltb_ge in E. unfold GMASK, G32 in *. lia.
Qed.

Lemma split_fits v : v < G64 ->
  fst (split v) < G32 /\ match snd (split v) with Some g => 0 < g /\ g < G32 | None => v < G32 end.
Proof.
  intros Hv. unfold split; cbn [fst snd]. rewrite land_mask. split.
  - apply N.mod_lt. discriminate.
  - destruct (GMASK <? v) eqn:E.
    + rewrite shiftr32. apply N.ltb_lt in E. split.
      * apply N.div_str_pos. unfold GMASK, G32 in *. lia.
      * apply N.div_lt_upper_bound; [discriminate|]. exact Hv.
    + apply N.ltb_ge in E. unfold GMASK, G32 in *. lia.
Qed.
