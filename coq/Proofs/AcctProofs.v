(* Lemmas for C08 (Model/Acct.v, Model/AcctSpec.v, Model/Gigaword.v). *)
From Coq Require Import ZArith NArith List Bool Lia ZifyN ZifyNat ZifyBool.
From Verif Require Import Base.Check Model.Gigaword Model.Acct Model.AcctSpec.
Import ListNotations.
Local Open Scope N_scope.

(* ---------------------------------------------------------------- gigaword split *)
Lemma land_mask v : N.land v GMASK = v mod G32.
Proof. change GMASK with (N.ones 32). rewrite N.land_ones. reflexivity. Qed.

Lemma shiftr32 v : N.shiftr v 32 = v / G32.
Proof. rewrite N.shiftr_div_pow2. reflexivity. Qed.

Lemma join_split v : join (split v) = v.
Proof.
  unfold join, split; cbn [fst snd]. rewrite land_mask.
  destruct (GMASK <? v) eqn:E.
  - rewrite shiftr32. rewrite N.mul_comm, N.add_comm. symmetry. apply N.div_mod. discriminate.
  - rewrite N.add_0_r. apply N.mod_small. apply N.ltb_ge in E. unfold GMASK, G32 in *. lia.
Qed.

Lemma split_fits v : v < G64 ->
  fst (split v) < G32 /\ match snd (split v) with Some g => 0 < g /\ g < G32 | None => v < G32 end.
Proof.
  intros Hv. unfold split; cbn [fst snd]. rewrite land_mask. split.
  - apply N.mod_lt. discriminate.
  - destruct (GMASK <? v) eqn:E.
    + rewrite shiftr32. apply N.ltb_lt in E. split.
      * apply N.div_str_pos. unfold GMASK, G32 in *. lia.
      * apply N.div_lt_upper_bound; [discriminate|]. exact Hv.
    + apply N.ltb_ge in E. unfold GMASK, G32 in *. lia.
Qed.

(* ---------------------------------------------------------------- list helpers *)
Lemma Forall_filter' {A} (P : A -> Prop) f l : Forall P l -> Forall P (filter f l).
Proof. induction 1; cbn; [constructor|]. destruct (f x); auto. Qed.

Lemma Forall_put_sess (P : sess -> Prop) s l : P s -> Forall P l -> Forall P (put_sess s l).
Proof.
  intros Hs. induction 1 as [|h t Hh Ht IH]; cbn; [repeat constructor; auto|].
  destruct (s_id s <? s_id h); [repeat constructor; auto|].
  destruct (s_id s =? s_id h); constructor; auto.
Qed.

Lemma Forall_find {A} (P : A -> Prop) f l a : Forall P l -> find f l = Some a -> P a.
Proof. intros H E. apply find_some in E. rewrite Forall_forall in H. apply H. tauto. Qed.

Lemma Forall_pick {A} (P : A -> Prop) key order : forall l : list A, Forall P l -> Forall P (pick key order l).
Proof.
  induction order as [|k tl IH]; intros l H; cbn; [exact H|].
  destruct (find _ l) eqn:E; [|auto].
  constructor; [eapply Forall_find; eauto|]. apply IH. apply Forall_filter'. exact H.
Qed.

Lemma Forall_number {A} (P : A -> Prop) l : forall i, Forall P l -> Forall (fun e => P (snd e)) (number i l).
Proof. induction l; intros i H; cbn; [constructor|]. inversion H; subst. constructor; auto. Qed.

Lemma Forall_pick_pos {A} (P : A -> Prop) order (l : list A) : Forall P l -> Forall P (pick_pos order l).
Proof.
  intros H. unfold pick_pos. apply Forall_map.
  apply (Forall_pick (fun e => P (snd e))). apply Forall_number. exact H.
Qed.

(* ---------------------------------------------------------------- generic preservation *)
Section Pres.
  Variables (PS : sess -> Prop) (PQ : req -> Prop) (PE : wrec * bool -> Prop) (PC : N -> N -> Prop).
  Hypothesis HQE : forall q a, PQ q -> PE (wire q, a).
  Hypothesis HSC : forall se, PS se -> PC (s_lin se) (s_lout se).
  Hypothesis HC0 : PC 0 0.

  (* fetchCounters yields a good pair: the supplied one, a session's last known one, or zeros *)
  Lemma fetch_PC fe s cin cout l : PC cin cout -> Forall PS l ->
    PC (fst (fetch_ctr fe s cin cout l)) (snd (fetch_ctr fe s cin cout l)).
  Proof.
    intros Hc Hl. unfold fetch_ctr. destruct (existsb _ fe); [|exact Hc].
    destruct (find_sess s l) as [se|] eqn:E; cbn; [|exact HC0]. apply HSC. eapply Forall_find; eauto.
  Qed.

  Lemma src_PC cs s : Forall (fun p => PC (fst (snd p)) (snd (snd p))) cs -> PC (fst (src cs s)) (snd (src cs s)).
  Proof.
    intros H. unfold src. destruct (find _ cs) as [p|] eqn:E; [|exact HC0].
    apply find_some in E. rewrite Forall_forall in H. apply H. tauto.
  Qed.

  Record Inv (x : ms) : Prop := mkInv {
    i_sess : Forall PS (x_sess x);
    i_files : Forall PS (x_files x);
    i_pend : Forall (fun p => PQ (p_req p)) (x_pend x);
    i_chan : Forall (fun e => PQ (snd e)) (x_chan x);
    i_pjson : forall l, x_pjson x = Some l -> Forall (fun p => PQ (p_req p)) l;
    i_ev : Forall PE (x_ev x) }.

  Definition InvR (r : ms + ms) : Prop := match r with inl y => Inv y | inr y => Inv y end.

  Ltac inv_tac := intros [? ? ? ? ? ?]; constructor; cbn in *; auto.

  Lemma Inv_set_c v x : Inv x -> Inv (set_c v x). Proof. inv_tac. Qed.
  Lemma Inv_set_ret v x : Inv x -> Inv (set_ret v x). Proof. inv_tac. Qed.
  Lemma Inv_mark b m x : Inv x -> Inv (mark b m x). Proof. unfold mark. destruct b; [inv_tac|auto]. Qed.
  Lemma Inv_set_sess f x : (Forall PS (x_sess x) -> Forall PS (f (x_sess x))) -> Inv x -> Inv (set_sess f x).
  Proof. intros Hf. inv_tac. Qed.
  Lemma Inv_set_files f x : (Forall PS (x_files x) -> Forall PS (f (x_files x))) -> Inv x -> Inv (set_files f x).
  Proof. intros Hf. inv_tac. Qed.
  Lemma Inv_set_pend f x :
    (Forall (fun p => PQ (p_req p)) (x_pend x) -> Forall (fun p => PQ (p_req p)) (f (x_pend x))) -> Inv x -> Inv (set_pend f x).
  Proof. intros Hf. inv_tac. Qed.
  Lemma Inv_set_chan f x :
    (Forall (fun e => PQ (snd e)) (x_chan x) -> Forall (fun e => PQ (snd e)) (f (x_chan x))) -> Inv x -> Inv (set_chan f x).
  Proof. intros Hf. inv_tac. Qed.
  Lemma Inv_set_pjson v x :
    (forall l, v = Some l -> Forall (fun p => PQ (p_req p)) l) -> Inv x -> Inv (set_pjson v x).
  Proof. intros Hf. inv_tac. Qed.

  Lemma Inv_ctick x : Inv x -> InvR (ctick x).
  Proof. intros H. unfold ctick. destruct (x_c x =? 1); cbn; auto using Inv_set_c. Qed.

  Lemma InvR_bind r f : InvR r -> (forall y, Inv y -> InvR (f y)) -> InvR (bind r f).
  Proof. destruct r; cbn; auto. Qed.

  Lemma InvR_fold_m {A} (f : A -> ms -> ms + ms) l :
    forall x, (forall a y, In a l -> Inv y -> InvR (f a y)) -> Inv x -> InvR (fold_m f l x).
  Proof.
    induction l as [|a tl IH]; intros x Hf Hx; cbn; [exact Hx|].
    pose proof (Hf a x (or_introl eq_refl) Hx) as H1. destruct (f a x); cbn in H1; [|exact H1].
    apply IH; [|exact H1]. intros; apply Hf; [right|]; auto.
  Qed.

  Lemma Inv_raw_send q a x : PQ q -> Inv x -> Inv (raw_send q a x).
  Proof. intros Hq. inv_tac. apply Forall_app. split; auto. Qed.

  Lemma Inv_enqueue q x : PQ q -> Inv x -> Inv (enqueue q x).
  Proof. intros Hq. inv_tac; apply Forall_app; split; auto. Qed.

  Lemma Inv_send q a x : PQ q -> Inv x -> Inv (send q a x).
  Proof. intros Hq Hx. unfold send. destruct a; auto using Inv_raw_send, Inv_enqueue. Qed.

  Lemma Inv_do_start s id dn x :
    (find_sess s (x_sess x) = None -> PS (mkS s id false 0 0 0) /\ PQ (mkQ ST_START s id 0 0 0)) ->
    Inv x -> InvR (do_start s id dn x).
  Proof.
    intros Hn Hx. unfold do_start. destruct (find_sess s (x_sess x)); [cbn; apply Inv_set_ret; exact Hx|].
    destruct (Hn eq_refl) as [Hs Hq].
    apply InvR_bind.
    - apply Inv_ctick. repeat apply Inv_mark. apply Inv_send; [exact Hq|].
      apply Inv_set_sess; [|exact Hx]. apply Forall_put_sess; exact Hs.
    - intros y Hy. apply Inv_ctick. apply Inv_set_files; [|exact Hy]. apply Forall_put_sess; exact Hs.
  Qed.

  Lemma Inv_do_stop s cause cin cout fe dn x :
    PC cin cout ->
    (forall se0 a b, PS se0 -> PC a b -> s_id se0 = s ->
       PS (mkS s (s_ident se0) true cause (s_lin se0) (s_lout se0)) /\ PQ (mkQ ST_STOP s (s_ident se0) a b cause)) ->
    Inv x -> InvR (do_stop s cause cin cout fe dn x).
  Proof.
    intros Hcc Hn Hx. unfold do_stop. destruct (find_sess s (x_sess x)) as [se0|] eqn:E; [|cbn; apply Inv_set_ret; exact Hx].
    assert (Hse : PS se0) by (eapply Forall_find; [apply (i_sess _ Hx)|exact E]).
    assert (Hid : s_id se0 = s) by (apply find_some in E; apply N.eqb_eq; tauto).
    destruct (Hn se0 0 0 Hse HC0 Hid) as [Hs _]. cbn [s_ident] in *.
    apply InvR_bind.
    - apply Inv_ctick. apply Inv_set_files; [apply Forall_put_sess; exact Hs|].
      apply Inv_set_sess; [apply Forall_put_sess; exact Hs|exact Hx].
    - intros y Hy. apply InvR_bind.
      + apply Inv_ctick. apply Inv_send; [|exact Hy].
        apply (Hn se0 _ _ Hse (fetch_PC fe s cin cout (x_sess y) Hcc (i_sess _ Hy)) Hid).
      + intros z Hz. apply Inv_ctick. apply Inv_mark.
        apply Inv_set_files; [apply Forall_filter'|]. apply Inv_set_sess; [apply Forall_filter'|exact Hz].
  Qed.

  Lemma Inv_interim_one cs fe dn se x :
    Forall (fun p => PC (fst (snd p)) (snd (snd p))) cs ->
    (forall h a b, PS h -> PC a b -> PQ (mkQ ST_INTERIM (s_id h) (s_ident h) a b 0) /\
                       PS (mkS (s_id h) (s_ident h) (s_pend h) (s_cause h) a b)) ->
    PS se -> Inv x -> InvR (interim_one cs fe dn se x).
  Proof.
    intros Hcs Hn Hse Hx. unfold interim_one. apply Inv_ctick.
    pose proof (src_PC cs (s_id se) Hcs) as Hcc.
    pose proof (fetch_PC fe (s_id se) _ _ (x_sess x) Hcc (i_sess _ Hx)) as Hfc.
    set (fc := fetch_ctr fe (s_id se) _ _ (x_sess x)) in *.
    assert (Hs : Inv (send (mkQ ST_INTERIM (s_id se) (s_ident se) (fst fc) (snd fc) 0)
                           (acked dn (mkQ ST_INTERIM (s_id se) (s_ident se) (fst fc) (snd fc) 0)) x))
      by (apply Inv_send; [apply Hn; assumption|exact Hx]).
    destruct (acked dn _); [|exact Hs].
    apply Inv_set_sess; [|exact Hs]. intros H. apply Forall_map. eapply Forall_impl; [|exact H].
    intros h Hh. cbn. destruct (s_id h =? s_id se); [apply Hn; assumption|exact Hh].
  Qed.

  Lemma Inv_do_interim cs fe dn order x :
    Forall (fun p => PC (fst (snd p)) (snd (snd p))) cs ->
    (forall h a b, PS h -> PC a b -> PQ (mkQ ST_INTERIM (s_id h) (s_ident h) a b 0) /\
                       PS (mkS (s_id h) (s_ident h) (s_pend h) (s_cause h) a b)) ->
    Inv x -> InvR (do_interim cs fe dn order x).
  Proof.
    intros Hcc Hn Hx. unfold do_interim.
    assert (HF : Forall PS (pick s_id order (filter (fun h => negb (s_pend h)) (x_sess x))))
      by (apply Forall_pick, Forall_filter', (i_sess _ Hx)).
    apply InvR_fold_m; [|exact Hx]. intros a y Ha Hy. apply Inv_interim_one; auto.
    rewrite Forall_forall in HF. auto.
  Qed.

  Lemma Inv_process_rec maxr st q dn x : PQ q -> Inv x -> InvR (process_rec maxr st q dn x).
  Proof.
    intros Hq Hx. unfold process_rec. apply InvR_bind; [apply Inv_ctick, Inv_raw_send; auto|].
    intros y Hy. cbn. destruct (acked dn q).
    - apply Inv_set_pend; [apply Forall_filter'|exact Hy].
    - destruct (find_pend st (x_pend y)); [|exact Hy].
      destruct (maxr <=? p_retry p + 1).
      + apply Inv_set_pend; [apply Forall_filter'|exact Hy].
      + apply Inv_set_pend; [|exact Hy]. intros H. unfold set_retry. apply Forall_map.
        eapply Forall_impl; [|exact H]. intros a Ha. cbn. destruct (p_stamp a =? st); exact Ha.
  Qed.

  Lemma Inv_do_queue maxr dn x : Inv x -> InvR (do_queue maxr dn x).
  Proof.
    intros Hx. unfold do_queue. destruct (x_chan x) as [|[st q] tl] eqn:E; [exact Hx|].
    pose proof (i_chan _ Hx) as Hc. rewrite E in Hc. inversion Hc; subst.
    apply Inv_process_rec; [assumption|]. apply Inv_set_chan; [intros _; assumption|exact Hx].
  Qed.

  Lemma Inv_do_retry maxr dn order x : Inv x -> InvR (do_retry maxr dn order x).
  Proof.
    intros Hx. unfold do_retry.
    assert (HF : Forall (fun p => PQ (p_req p)) (pick_pos order (x_pend x))) by (apply Forall_pick_pos, (i_pend _ Hx)).
    apply InvR_fold_m; [|exact Hx]. intros a y Ha Hy. unfold retry_one.
    apply Inv_process_rec; [|apply Inv_mark; exact Hy]. rewrite Forall_forall in HF. auto.
  Qed.

  Lemma Inv_fold_raw dn qs : forall x, Forall PQ qs -> Inv x -> Inv (fold_left (fun y q => raw_send q (acked dn q) y) qs x).
  Proof. induction qs; intros x H Hx; cbn; [exact Hx|]. inversion H; subst. apply IHqs; auto using Inv_raw_send. Qed.
  Lemma Inv_fold_enq qs : forall x, Forall PQ qs -> Inv x -> Inv (fold_left (fun y q => enqueue q y) qs x).
  Proof. induction qs; intros x H Hx; cbn; [exact Hx|]. inversion H; subst. apply IHqs; auto using Inv_enqueue. Qed.

  Lemma Inv_do_graceful cs fe dn qorder g x :
    Forall (fun p => PC (fst (snd p)) (snd (snd p))) cs ->
    (forall h a b, PS h -> PC a b -> PQ (mkQ ST_STOP (s_id h) (s_ident h) a b CAUSE_NAS_REBOOT)) ->
    Inv x -> InvR (do_graceful cs fe dn qorder g x).
  Proof.
    intros Hcs Hn Hx. unfold do_graceful.
    assert (HQ : Forall PQ (map (drain_req cs fe (x_sess x)) (x_sess x))).
    { apply Forall_map. eapply Forall_impl; [|apply (i_sess _ Hx)]. intros h Hh. unfold drain_req.
      apply Hn; [exact Hh|]. apply fetch_PC; [apply src_PC; exact Hcs|apply (i_sess _ Hx)]. }
    set (qs := map (drain_req cs fe (x_sess x)) (x_sess x)) in *.
    destruct ((g =? 1) && negb (match qs with [] => true | _ => false end)).
    - cbn. destruct Hx as [? ? ? ? ? ?]. constructor; cbn; auto. apply Forall_app. split; [assumption|].
      apply Forall_map. eapply Forall_impl; [|exact HQ]. intros q Hq. apply HQE. exact Hq.
    - assert (H3 : Inv (mark (negb (match qs with [] => true | _ => false end)) 805
                     (fold_left (fun y q => enqueue q y) (pick q_sid qorder (filter (fun q => negb (acked dn q)) qs))
                        (fold_left (fun y q => raw_send q (acked dn q) y) qs x)))).
      { apply Inv_mark. apply Inv_fold_enq; [apply Forall_pick, Forall_filter', HQ|]. apply Inv_fold_raw; auto. }
      destruct (g =? 2); [exact H3|].
      match goal with |- InvR (if _ then inr ?a else inl ?a) => assert (H4 : Inv a) end.
      { destruct (x_pend _) eqn:E; [exact H3|]. apply Inv_set_pjson; [|exact H3].
        intros l0 El. inversion El; subst. rewrite <- E. apply (i_pend _ H3). }
      destruct (g =? 3); exact H4.
  Qed.

  Lemma Inv_recover_one dn f x :
    PQ (mkQ ST_STOP (s_id f) (s_ident f) (s_lin f) (s_lout f) (if s_cause f =? 0 then CAUSE_NAS_REBOOT else s_cause f)) ->
    Inv x -> InvR (recover_one dn f x).
  Proof.
    intros Hq Hx. unfold recover_one. apply InvR_bind; [apply Inv_ctick, Inv_send; auto|].
    intros y Hy. apply Inv_ctick, Inv_mark. apply Inv_set_files; [apply Forall_filter'|exact Hy].
  Qed.

  Lemma Inv_do_restart dn qperm x :
    (forall f, PS f -> PQ (mkQ ST_STOP (s_id f) (s_ident f) (s_lin f) (s_lout f) (if s_cause f =? 0 then CAUSE_NAS_REBOOT else s_cause f))) ->
    Inv x -> InvR (do_restart dn qperm x).
  Proof.
    intros Hn Hx. unfold do_restart. apply InvR_bind.
    - pose proof (i_files _ Hx) as HF. apply InvR_fold_m; [|exact Hx]. intros a y Ha Hy.
      apply Inv_recover_one; [|exact Hy]. apply Hn. rewrite Forall_forall in HF. auto.
    - intros y Hy. destruct (x_pjson y) as [l|] eqn:E; [|exact Hy].
      pose proof (i_pjson _ Hy l E) as Hl.
      apply Inv_ctick, Inv_mark. apply Inv_set_pjson; [discriminate|].
      apply Inv_set_chan; [intros H; apply Forall_app; split; [exact H|]|].
      + apply Forall_map. cbn. apply (Forall_pick_pos (fun p => PQ (p_req p))). exact Hl.
      + apply Inv_set_pend; [intros H; apply Forall_app; split; assumption|exact Hy].
  Qed.
End Pres.

(* ---------------------------------------------------------------- traces and the state-level invariant *)
Definition trace_from (s : state) (ops : list op) : list (op * out) :=
  map (fun x => (fst (fst x), snd (fst x))) (model_trace step s ops).
Definition trace (maxr : N) (ops : list op) : list (op * out) := trace_from (init maxr) ops.

Lemma trace_from_cons s o ops :
  trace_from s (o :: ops) = (o, snd (fst (step s o))) :: trace_from (fst (fst (step s o))) ops.
Proof. unfold trace_from. cbn. destruct (step s o) as [[s' r] mk]. reflexivity. Qed.

Section StateInv.
  Variables (PS : sess -> Prop) (PQ : req -> Prop) (PE : wrec * bool -> Prop) (PC : N -> N -> Prop).
  Hypothesis HQE : forall q a, PQ q -> PE (wire q, a).
  Hypothesis HSC : forall se, PS se -> PC (s_lin se) (s_lout se).
  Hypothesis HC0 : PC 0 0.

  Definition SI (s : state) : Prop :=
    Forall PS (st_sess s) /\ Forall PS (st_files s) /\ Forall (fun p => PQ (p_req p)) (st_pend s) /\
    Forall (fun e => PQ (snd e)) (st_chan s) /\ (forall l, st_pjson s = Some l -> Forall (fun p => PQ (p_req p)) l).

  Lemma Inv_enter s c : SI s -> Inv PS PQ PE (enter s c).
  Proof. intros (H1 & H2 & H3 & H4 & H5). constructor; cbn; auto. Qed.

  Lemma leave_SI s b r : InvR PS PQ PE r ->
    SI (fst (fst (leave s b r))) /\ Forall PE (o_ev (snd (fst (leave s b r)))).
  Proof.
    destruct r as [y|y]; cbn; intros [H1 H2 H3 H4 H5 H6].
    - destruct b; cbn; (split; [unfold SI; cbn; repeat split; auto|auto]).
    - split; [unfold SI; cbn; repeat split; auto|auto].
  Qed.

  Definition opcond (s : state) (o : op) : Prop :=
    match o with
    | Start id idn _ _ => st_alive s = true -> find_sess id (st_sess s) = None ->
                          PS (mkS id idn false 0 0 0) /\ PQ (mkQ ST_START id idn 0 0 0)
    | Stop id cause cin cout _ _ _ => PC cin cout /\ forall se0 a b, PS se0 -> PC a b -> s_id se0 = id ->
         PS (mkS id (s_ident se0) true cause (s_lin se0) (s_lout se0)) /\ PQ (mkQ ST_STOP id (s_ident se0) a b cause)
    | InterimTick cs _ _ _ _ => Forall (fun p => PC (fst (snd p)) (snd (snd p))) cs /\ forall h a b, PS h -> PC a b ->
         PQ (mkQ ST_INTERIM (s_id h) (s_ident h) a b 0) /\ PS (mkS (s_id h) (s_ident h) (s_pend h) (s_cause h) a b)
    | GracefulStop cs _ _ _ _ => Forall (fun p => PC (fst (snd p)) (snd (snd p))) cs /\ forall h a b, PS h -> PC a b ->
         PQ (mkQ ST_STOP (s_id h) (s_ident h) a b CAUSE_NAS_REBOOT)
    | Restart _ _ _ => forall f, PS f ->
         PQ (mkQ ST_STOP (s_id f) (s_ident f) (s_lin f) (s_lout f) (if s_cause f =? 0 then CAUSE_NAS_REBOOT else s_cause f))
    | _ => True
    end.

  Lemma step_SI s o : SI s -> opcond s o ->
    SI (fst (fst (step s o))) /\ Forall PE (o_ev (snd (fst (step s o)))).
  Proof.
    intros Hs Hc. pose proof (fun c => Inv_enter s c Hs) as He.
    destruct o; cbn [step]; try (destruct (st_alive s) eqn:Ea; [|cbn; split; [exact Hs|constructor]]).
    - apply leave_SI. apply Inv_do_start; auto.
    - apply leave_SI. destruct Hc. eapply Inv_do_stop; eauto.
    - apply leave_SI. destruct Hc. eapply Inv_do_interim; eauto.
    - apply leave_SI. apply Inv_do_queue; auto.
    - apply leave_SI. apply Inv_do_retry; auto.
    - apply leave_SI. destruct Hc. eapply Inv_do_graceful; eauto.
    - apply leave_SI. cbn. apply He.
    - destruct (st_alive s); [cbn; split; [exact Hs|constructor]|]. apply leave_SI. apply Inv_do_restart; auto.
    - cbn; split; [exact Hs|constructor].
  Qed.
End StateInv.

(* ---------------------------------------------------------------- instance: clauses 2, 5, 6 *)
Definition PSb (reg : list (N * ident)) (ctr : list (N * N)) (se : sess) : Prop :=
  in_reg (s_id se) (s_ident se) reg = true /\ in_ctr (s_lin se) (s_lout se) ctr = true.
Definition PQb (reg : list (N * ident)) (ctr : list (N * N)) (q : req) : Prop :=
  in_reg (q_sid q) (q_ident q) reg = true /\ in_ctr (q_in q) (q_out q) ctr = true.
Definition PEb (reg : list (N * ident)) (ctr : list (N * N)) (e : wrec * bool) : Prop :=
  in_reg (w_sid (fst e)) (w_ident (fst e)) reg = true /\ in_ctr (join (w_in (fst e))) (join (w_out (fst e))) ctr = true.

Definition regs_ok (ss : sstate) : Prop :=
  in_ctr 0 0 (ss_ctr ss) = true /\
  (forall s i, in_reg s i (ss_reg ss) = true -> (0 <? cnt s (ss_starts ss)) = true).

Lemma HQEb reg ctr : in_ctr 0 0 ctr = true -> forall q a, PQb reg ctr q -> PEb reg ctr (wire q, a).
Proof.
  intros Hz q a [H1 H2]. unfold PEb, wire; cbn. split; [exact H1|].
  destruct (negb (q_st q =? ST_START)); [rewrite !join_split; exact H2|exact Hz].
Qed.

Lemma in_reg_cons s i p l : in_reg s i l = true -> in_reg s i (p :: l) = true.
Proof. unfold in_reg; cbn. intros ->. apply orb_true_r. Qed.
Lemma in_ctr_cons a b p l : in_ctr a b l = true -> in_ctr a b (p :: l) = true.
Proof. unfold in_ctr; cbn. intros ->. apply orb_true_r. Qed.
Lemma in_reg_hd s i l : in_reg s i ((s, i) :: l) = true.
Proof.
  unfold in_reg; cbn. rewrite N.eqb_refl. destruct i as [[a b] c]. cbn. rewrite !N.eqb_refl. reflexivity.
Qed.
Lemma in_ctr_hd a b l : in_ctr a b ((a, b) :: l) = true.
Proof. unfold in_ctr; cbn. rewrite !N.eqb_refl. reflexivity. Qed.

Lemma in_ctr_app_r a b l1 l2 : in_ctr a b l2 = true -> in_ctr a b (l1 ++ l2) = true.
Proof. unfold in_ctr. rewrite existsb_app. intros ->. apply orb_true_r. Qed.
Lemma in_ctr_app_l a b l1 l2 : in_ctr a b l1 = true -> in_ctr a b (l1 ++ l2) = true.
Proof. unfold in_ctr. rewrite existsb_app. intros ->. reflexivity. Qed.
Lemma in_ctr_in a b l : In (a, b) l -> in_ctr a b l = true.
Proof. intros H. unfold in_ctr. apply existsb_exists. exists (a, b). split; [exact H|]. cbn. rewrite !N.eqb_refl. reflexivity. Qed.

Lemma ident_eqb_eq a b : ident_eqb a b = true -> a = b.
Proof.
  destruct a as [[a1 a2] a3], b as [[b1 b2] b3]; cbn. rewrite !andb_true_iff, !N.eqb_eq. intros [[-> ->] ->]. reflexivity.
Qed.

(* registries of the monitor are touched only by [pre] *)
Lemma ev_upd_regs ss e :
  ss_reg (ev_upd ss e) = ss_reg ss /\ ss_ctr (ev_upd ss e) = ss_ctr ss /\ ss_starts (ev_upd ss e) = ss_starts ss /\
  ss_maxr (ev_upd ss e) = ss_maxr ss.
Proof. destruct e as [w a]. unfold ev_upd. repeat (destruct (_ && _)); cbn; auto. Qed.

Lemma fold_ev_upd_regs es : forall ss,
  ss_reg (fold_left ev_upd es ss) = ss_reg ss /\ ss_ctr (fold_left ev_upd es ss) = ss_ctr ss /\
  ss_starts (fold_left ev_upd es ss) = ss_starts ss.
Proof.
  induction es as [|e tl IH]; intros ss; cbn; [auto|].
  destruct (IH (ev_upd ss e)) as (-> & -> & ->). destruct (ev_upd_regs ss e) as (-> & -> & -> & _). auto.
Qed.

Lemma post_regs ss o r :
  ss_reg (post ss o r) = ss_reg ss /\ ss_ctr (post ss o r) = ss_ctr ss /\ ss_starts (post ss o r) = ss_starts ss.
Proof.
  unfold post. destruct (died o r); destruct o; cbn; repeat (match goal with |- context [if ?b then _ else _] => destruct b end; cbn); auto.
Qed.

Lemma supd_regs ss o r :
  ss_reg (supd ss o r) = ss_reg (pre ss o r) /\ ss_ctr (supd ss o r) = ss_ctr (pre ss o r) /\
  ss_starts (supd ss o r) = ss_starts (pre ss o r).
Proof.
  unfold supd. destruct (post_regs (fold_left ev_upd (o_ev r) (pre ss o r)) o r) as (-> & -> & ->).
  apply fold_ev_upd_regs.
Qed.

Lemma cnt_cons_pos s l : (0 <? cnt s (s :: l)) = true.
Proof. unfold cnt. cbn. rewrite N.eqb_refl. cbn. lia. Qed.
Lemma cnt_cons_mono s t l : (0 <? cnt s l) = true -> (0 <? cnt s (t :: l)) = true.
Proof. unfold cnt. cbn. destruct (s =? t); cbn; lia. Qed.

Lemma pre_regs_ok ss o r : regs_ok ss -> regs_ok (pre ss o r).
Proof.
  intros [Hz Hl]. destruct o; cbn; try (split; [try apply in_ctr_cons; try apply in_ctr_app_r; exact Hz|exact Hl]).
  destruct (ran r); [|split; assumption]. split; [exact Hz|]. cbn. intros s0 i. unfold in_reg. cbn.
  rewrite orb_true_iff. intros [H|H].
  - apply andb_true_iff in H. destruct H as [H _]. apply N.eqb_eq in H. subst. apply cnt_cons_pos.
  - apply cnt_cons_mono. apply Hl with i. exact H.
Qed.

Lemma pre_mono_reg ss o r s i : in_reg s i (ss_reg ss) = true -> in_reg s i (ss_reg (pre ss o r)) = true.
Proof. intros H. destruct o; cbn [pre ss_reg]; auto; destruct (ran r); cbn [ss_reg]; auto using in_reg_cons. Qed.
Lemma pre_mono_ctr ss o r a b : in_ctr a b (ss_ctr ss) = true -> in_ctr a b (ss_ctr (pre ss o r)) = true.
Proof. intros H. destruct o; cbn [pre ss_ctr]; auto using in_ctr_cons, in_ctr_app_r; destruct (ran r); cbn [ss_ctr]; auto. Qed.

Lemma SI_mono ss o r s :
  SI (PSb (ss_reg ss) (ss_ctr ss)) (PQb (ss_reg ss) (ss_ctr ss)) s ->
  SI (PSb (ss_reg (pre ss o r)) (ss_ctr (pre ss o r))) (PQb (ss_reg (pre ss o r)) (ss_ctr (pre ss o r))) s.
Proof.
  assert (HS : forall se, PSb (ss_reg ss) (ss_ctr ss) se -> PSb (ss_reg (pre ss o r)) (ss_ctr (pre ss o r)) se)
    by (intros se [H1 H2]; split; auto using pre_mono_reg, pre_mono_ctr).
  assert (HQ : forall q, PQb (ss_reg ss) (ss_ctr ss) q -> PQb (ss_reg (pre ss o r)) (ss_ctr (pre ss o r)) q)
    by (intros q [H1 H2]; split; auto using pre_mono_reg, pre_mono_ctr).
  intros (H1 & H2 & H3 & H4 & H5). unfold SI. repeat split.
  - eapply Forall_impl; [|exact H1]; auto.
  - eapply Forall_impl; [|exact H2]; auto.
  - eapply Forall_impl; [|exact H3]; cbn; auto.
  - eapply Forall_impl; [|exact H4]; cbn; auto.
  - intros l E. eapply Forall_impl; [|exact (H5 l E)]; cbn; auto.
Qed.

(* a Start call that finds no such session runs (returns ok or dies inside) *)
Lemma start_ran s id idn dn c : st_alive s = true -> find_sess id (st_sess s) = None ->
  ran (snd (fst (step s (Start id idn dn c)))) = true.
Proof.
  intros Ea Ef. cbn [step]. rewrite Ea. unfold do_start. cbn [enter x_sess]. rewrite Ef.
  unfold bind, ctick, send, mark. cbn.
  destruct (acked dn _); cbn; repeat (match goal with |- context [if ?b then _ else _] => destruct b eqn:?; cbn end); reflexivity.
Qed.

Definition PCb (ctr : list (N * N)) (a b : N) : Prop := in_ctr a b ctr = true.

Lemma cs_PCb (cs : list (N * (N * N))) l : Forall (fun p => PCb (map snd cs ++ l) (fst (snd p)) (snd (snd p))) cs.
Proof.
  apply Forall_forall. intros [k [a b]] Hin. cbn. unfold PCb. apply in_ctr_app_l, in_ctr_in.
  change (a, b) with (snd (k, (a, b))). apply in_map. exact Hin.
Qed.

Lemma opcond_b ss s o :
  let r := snd (fst (step s o)) in
  SI (PSb (ss_reg ss) (ss_ctr ss)) (PQb (ss_reg ss) (ss_ctr ss)) s -> regs_ok ss ->
  opcond (PSb (ss_reg (pre ss o r)) (ss_ctr (pre ss o r))) (PQb (ss_reg (pre ss o r)) (ss_ctr (pre ss o r)))
         (PCb (ss_ctr (pre ss o r))) s o.
Proof.
  intros r Hs [Hz Hl]. destruct o; cbn [opcond]; auto.
  - intros Ea Ef. subst r. cbn [pre]. rewrite (start_ran s s0 id dn c Ea Ef). cbn.
    split; split; cbn [s_id s_ident s_lin s_lout q_sid q_ident q_in q_out]; auto using in_reg_hd.
  - cbn [pre ss_reg ss_ctr]. split; [apply in_ctr_hd|]. intros se0 a b [H1 H2] Hab <-.
    split; split; cbn [s_id s_ident s_lin s_lout q_sid q_ident q_in q_out]; auto.
  - cbn [pre ss_reg ss_ctr]. split; [apply cs_PCb|]. intros h a b [H1 H2] Hab.
    split; split; cbn [s_id s_ident s_lin s_lout q_sid q_ident q_in q_out]; auto.
  - cbn [pre ss_reg ss_ctr]. split; [apply cs_PCb|]. intros h a b [H1 H2] Hab.
    split; cbn [s_id s_ident s_lin s_lout q_sid q_ident q_in q_out]; auto.
Qed.

Lemma events_ok_b k : (k = 2 \/ k = 5 \/ k = 6) -> forall es ss,
  regs_ok ss -> Forall (PEb (ss_reg ss) (ss_ctr ss)) es -> events_ok k ss es = true.
Proof.
  intros Hk. induction es as [|[w a] tl IH]; intros ss Hr HF; cbn [events_ok]; [reflexivity|].
  inversion HF as [|? ? [H1 H2] HF']; subst. cbn in H1, H2. apply andb_true_iff. split.
  - destruct Hr as [Hz Hl]. destruct Hk as [-> | [-> | ->]]; cbn.
    + rewrite (Hl _ _ H1). apply orb_true_r.
    + rewrite H1. apply orb_true_r.
    + rewrite H2. apply orb_true_r.
  - apply IH.
    + destruct Hr as [Hz Hl]. destruct (ev_upd_regs ss (w, a)) as (E1 & E2 & E3 & _). split; [rewrite E2; exact Hz|].
      rewrite E1, E3. exact Hl.
    + destruct (ev_upd_regs ss (w, a)) as (-> & -> & _). exact HF'.
Qed.

Theorem holds_256 k : (k = 2 \/ k = 5 \/ k = 6) -> forall ops s ss,
  SI (PSb (ss_reg ss) (ss_ctr ss)) (PQb (ss_reg ss) (ss_ctr ss)) s -> regs_ok ss ->
  holds k ss (trace_from s ops) = true.
Proof.
  intros Hk. induction ops as [|o ops IH]; intros s ss Hs Hr; [reflexivity|].
  rewrite trace_from_cons. cbn [holds]. set (r := snd (fst (step s o))).
  pose proof (pre_regs_ok ss o r Hr) as Hr1.
  destruct (step_SI _ _ _ (PCb (ss_ctr (pre ss o r))) (HQEb _ _ (proj1 Hr1)) (fun se H => proj2 H) (proj1 Hr1) s o
              (SI_mono ss o r s Hs) (opcond_b ss s o Hs Hr)) as [Hs' Hev].
  fold r in Hev. apply andb_true_iff. split.
  - unfold op_ok. apply andb_true_iff. split; [apply events_ok_b; auto|].
    destruct Hk as [-> | [-> | ->]]; reflexivity.
  - apply IH.
    + destruct (supd_regs ss o r) as (-> & -> & _). exact Hs'.
    + destruct (supd_regs ss o r) as (E1 & E2 & E3). destruct Hr1 as [Hz Hl]. split; [rewrite E2; exact Hz|].
      rewrite E1, E3. exact Hl.
Qed.

Lemma init_SI maxr PS PQ : SI PS PQ (init maxr).
Proof. unfold SI, init; cbn. repeat split; auto. discriminate. Qed.

Theorem clause_256 k : (k = 2 \/ k = 5 \/ k = 6) -> forall maxr ops, holds k (sinit maxr) (trace maxr ops) = true.
Proof.
  intros Hk maxr ops. apply holds_256; [exact Hk|apply init_SI|]. split; [reflexivity|]. cbn. discriminate.
Qed.


(* ---------------------------------------------------------------- clause 4, crash-free histories *)
Definition quiet_op (o : op) : bool :=
  match o with
  | Start _ _ _ c | Stop _ _ _ _ _ _ c | InterimTick _ _ _ _ c | ProcessQueued _ c | RetryTick _ _ c => c =? 0
  | Final => true
  | _ => false
  end.
Definition crash_free (ops : list op) : bool := forallb quiet_op ops.

Definition isstop (sid : N) (q : req) : bool := (q_st q =? ST_STOP) && (q_sid q =? sid).
Definition nstops (sid : N) (l : list prec) : N := N.of_nat (length (filter (fun p => isstop sid (p_req p)) l)).

Lemma stops_in_pview sid l : stops_in sid (pview l) = nstops sid l.
Proof.
  unfold stops_in, nstops, pview, isstop. f_equal. induction l as [|p tl IH]; cbn; [reflexivity|].
  destruct ((q_st (p_req p) =? ST_STOP) && (q_sid (p_req p) =? sid)); cbn; rewrite IH; reflexivity.
Qed.

Definition fresh (st : N) (l : list prec) : Prop := Forall (fun p => p_stamp p <> st) l.
Fixpoint uniq (l : list prec) : Prop :=
  match l with [] => True | p :: tl => fresh (p_stamp p) tl /\ uniq tl end.

Lemma uniq_filter f l : uniq l -> uniq (filter f l).
Proof.
  induction l as [|p tl IH]; cbn; [auto|]. intros [Hf Hu]. destruct (f p); cbn; [split|]; auto.
  apply Forall_filter'. exact Hf.
Qed.

Lemma uniq_map g l : (forall p, p_stamp (g p) = p_stamp p) -> uniq l -> uniq (map g l).
Proof.
  intros Hg. induction l as [|p tl IH]; cbn; [auto|]. intros [Hf Hu]. split; [|auto].
  unfold fresh in *. apply Forall_map. rewrite Hg. eapply Forall_impl; [|exact Hf]. cbn. intros a. rewrite Hg. auto.
Qed.

Lemma uniq_snoc l p : fresh (p_stamp p) l -> uniq l -> uniq (l ++ [p]).
Proof.
  induction l as [|a tl IH]; cbn; [intros _ _; split; [constructor|exact I]|].
  intros Hf [Ha Hu]. inversion Hf; subst. split; [|apply IH; auto].
  unfold fresh in *. apply Forall_app. split; [exact Ha|]. constructor; [congruence|constructor].
Qed.

Lemma uniq_functional l p p' : uniq l -> In p l -> In p' l -> p_stamp p = p_stamp p' -> p = p'.
Proof.
  induction l as [|a tl IH]; cbn; [tauto|]. intros [Hf Hu] [->|Hp] [->|Hp'] E; auto.
  - unfold fresh in Hf. rewrite Forall_forall in Hf. exfalso. apply (Hf p' Hp'). auto.
  - unfold fresh in Hf. rewrite Forall_forall in Hf. exfalso. apply (Hf p Hp). auto.
Qed.

Lemma cnt_cons s x l : cnt s (x :: l) = cnt s l + (if s =? x then 1 else 0).
Proof. unfold cnt. cbn. destruct (s =? x); cbn; lia. Qed.

(* the part of the state clause 4 depends on, related to the monitor's counters *)
Record M (maxr : N) (pend : list prec) (chan : list (N * req)) (stamp : N) (ss : sstate) : Prop := mkM {
  m_uniq : uniq pend;
  m_lt : Forall (fun p => p_stamp p < stamp) pend;
  m_clt : Forall (fun e => fst e < stamp) chan;
  m_cons : Forall (fun e => Forall (fun p => p_stamp p = fst e -> p_req p = snd e) pend) chan;
  m_budget : Forall (fun p => q_st (p_req p) = ST_STOP -> p_retry p < cnt (q_sid (p_req p)) (ss_dropstop ss)) pend;
  m_count : forall sid, maxr < cnt sid (ss_dropstop ss) \/
                        cnt sid (ss_ended ss) <= cnt sid (ss_ackstop ss) + nstops sid pend }.

(* a record that is not a Stop does not touch the counters clause 4 uses *)
Lemma ev_upd_nonstop ss w a : w_st w <> ST_STOP ->
  ss_dropstop (ev_upd ss (w, a)) = ss_dropstop ss /\ ss_ackstop (ev_upd ss (w, a)) = ss_ackstop ss /\
  ss_ended (ev_upd ss (w, a)) = ss_ended ss.
Proof.
  intros H. unfold ev_upd. apply N.eqb_neq in H. rewrite H. rewrite !andb_false_r.
  destruct (a && (w_st w =? ST_START)); cbn; auto.
Qed.

Lemma ev_upd_stop ss w a : w_st w = ST_STOP ->
  ss_ended (ev_upd ss (w, a)) = ss_ended ss /\
  (if a then ss_ackstop (ev_upd ss (w, a)) = w_sid w :: ss_ackstop ss /\ ss_dropstop (ev_upd ss (w, a)) = ss_dropstop ss
   else ss_ackstop (ev_upd ss (w, a)) = ss_ackstop ss /\ ss_dropstop (ev_upd ss (w, a)) = w_sid w :: ss_dropstop ss).
Proof.
  intros H. unfold ev_upd. rewrite H. cbn. destruct a; cbn; auto.
Qed.

Lemma M_ev_nonstop maxr pend chan stamp ss w a : w_st w <> ST_STOP ->
  M maxr pend chan stamp ss -> M maxr pend chan stamp (ev_upd ss (w, a)).
Proof.
  intros H [H1 H2 H3 H4 H5 H6]. destruct (ev_upd_nonstop ss w a H) as (E1 & E2 & E3).
  constructor; auto; rewrite ?E1, ?E2, ?E3; auto.
Qed.

Lemma nstops_snoc sid l p : nstops sid (l ++ [p]) = nstops sid l + (if isstop sid (p_req p) then 1 else 0).
Proof.
  unfold nstops. rewrite filter_app, app_length. cbn. destruct (isstop sid (p_req p)); cbn; lia.
Qed.

Lemma M_enqueue maxr pend chan stamp ss q :
  (q_st q = ST_STOP -> 0 < cnt (q_sid q) (ss_dropstop ss)) ->
  M maxr pend chan stamp ss -> M maxr (pend ++ [mkP stamp q 0]) (chan ++ [(stamp, q)]) (stamp + 1) ss.
Proof.
  intros Hq [H1 H2 H3 H4 H5 H6]. constructor.
  - apply uniq_snoc; [|exact H1]. cbn. unfold fresh. eapply Forall_impl; [|exact H2]. cbn. intros; lia.
  - apply Forall_app. split; [eapply Forall_impl; [|exact H2]; cbn; intros; lia|]. constructor; [cbn; lia|constructor].
  - apply Forall_app. split; [eapply Forall_impl; [|exact H3]; cbn; intros; lia|]. constructor; [cbn; lia|constructor].
  - apply Forall_app. split.
    + rewrite Forall_forall in *. intros e He. apply Forall_app. split; [apply H4; exact He|].
      constructor; [|constructor]. cbn. intros E. specialize (H3 e He). cbn in H3. lia.
    + constructor; [|constructor]. cbn. apply Forall_app. split; [|constructor; [cbn; auto|constructor]].
      eapply Forall_impl; [|exact H2]. cbn. intros; lia.
  - apply Forall_app. split; [exact H5|]. constructor; [cbn; exact Hq|constructor].
  - intros sid. destruct (H6 sid) as [H|H]; [left; exact H|right]. rewrite nstops_snoc. lia.
Qed.

(* processPendingRecord's effect on the map *)
Definition proc_pend (maxr st : N) (a : bool) (pend : list prec) : list prec :=
  if a then del_pend st pend
  else match find_pend st pend with
       | None => pend
       | Some p => if maxr <=? p_retry p + 1 then del_pend st pend else set_retry st (p_retry p + 1) pend
       end.

Lemma fresh_del st l : fresh st l -> del_pend st l = l.
Proof.
  unfold fresh, del_pend. induction 1 as [|p tl Hp Ht IH]; cbn; [reflexivity|].
  apply N.eqb_neq in Hp. rewrite Hp. cbn. rewrite IH. reflexivity.
Qed.

Lemma nstops_del sid st q l : uniq l -> Forall (fun p => p_stamp p = st -> p_req p = q) l ->
  nstops sid l <= nstops sid (del_pend st l) + (if isstop sid q then 1 else 0).
Proof.
  induction l as [|p tl IH]; cbn [uniq]; intros Hu HF.
  - unfold nstops; cbn. destruct (isstop sid q); lia.
  - destruct Hu as [Hf Hu]. inversion HF as [|? ? Hp HF']; subst.
    unfold del_pend in *. cbn [filter]. destruct (p_stamp p =? st) eqn:E; cbn [negb].
    + apply N.eqb_eq in E. subst st. fold (del_pend (p_stamp p) tl). rewrite (fresh_del _ _ Hf).
      unfold nstops. cbn [filter]. rewrite (Hp eq_refl). destruct (isstop sid q); cbn [length]; lia.
    + specialize (IH Hu HF'). unfold nstops in *. cbn [filter]. destruct (isstop sid (p_req p)); cbn [length]; lia.
Qed.

Lemma nstops_del_le sid st l : nstops sid (del_pend st l) <= nstops sid l.
Proof.
  unfold nstops, del_pend. induction l as [|p tl IH]; cbn; [lia|].
  destruct (negb (p_stamp p =? st)); cbn; destruct (isstop sid (p_req p)); cbn; lia.
Qed.

Lemma nstops_set_retry sid st r l : nstops sid (set_retry st r l) = nstops sid l.
Proof.
  unfold nstops, set_retry. f_equal. induction l as [|p tl IH]; cbn; [reflexivity|].
  destruct (p_stamp p =? st); cbn; destruct (isstop sid (p_req p)); cbn; rewrite IH; reflexivity.
Qed.

(* any property of (stamp, request) pairs survives processPendingRecord *)
Lemma proc_keeps (P : N -> req -> Prop) maxr st a l :
  Forall (fun p => P (p_stamp p) (p_req p)) l -> Forall (fun p => P (p_stamp p) (p_req p)) (proc_pend maxr st a l).
Proof.
  intros H. unfold proc_pend. destruct a; [apply Forall_filter'; exact H|].
  destruct (find_pend st l); [|exact H]. destruct (maxr <=? p_retry p + 1); [apply Forall_filter'; exact H|].
  unfold set_retry. apply Forall_map. eapply Forall_impl; [|exact H]. intros x Hx. cbn.
  destruct (p_stamp x =? st); exact Hx.
Qed.

Lemma M_proc maxr pend chan stamp ss st q a :
  ss_maxr ss = maxr \/ True ->
  Forall (fun p => p_stamp p = st -> p_req p = q) pend ->
  M maxr pend chan stamp ss -> M maxr (proc_pend maxr st a pend) chan stamp (ev_upd ss (wire q, a)).
Proof.
  intros _ HF [H1 H2 H3 H4 H5 H6].
  assert (Huniq : uniq (proc_pend maxr st a pend)).
  { unfold proc_pend. destruct a; [apply uniq_filter; exact H1|]. destruct (find_pend st pend); [|exact H1].
    destruct (maxr <=? _); [apply uniq_filter; exact H1|]. apply uniq_map; [|exact H1].
    intros p0. cbn. destruct (p_stamp p0 =? st); reflexivity. }
  assert (Hlt : Forall (fun p => p_stamp p < stamp) (proc_pend maxr st a pend))
    by (apply (proc_keeps (fun s _ => s < stamp)); exact H2).
  assert (Hcons : Forall (fun e => Forall (fun p => p_stamp p = fst e -> p_req p = snd e) (proc_pend maxr st a pend)) chan).
  { eapply Forall_impl; [|exact H4]. intros e He. apply (proc_keeps (fun s r => s = fst e -> r = snd e)). exact He. }
  destruct (N.eq_dec (q_st q) ST_STOP) as [Hs|Hs].
  - (* a Stop record *)
    assert (Hw : w_st (wire q) = ST_STOP) by exact Hs.
    destruct (ev_upd_stop ss (wire q) a Hw) as [Ee Ea]. cbn [wire w_sid] in Ea.
    destruct a.
    + destruct Ea as [Ek Ed]. constructor; auto.
      * rewrite Ed. unfold proc_pend. apply Forall_filter'. exact H5.
      * intros sid. rewrite Ed, Ee, Ek, cnt_cons. destruct (H6 sid) as [H|H]; [left; exact H|right].
        pose proof (nstops_del sid st q pend H1 HF) as Hd. unfold proc_pend.
        unfold isstop in Hd. rewrite Hs in Hd. cbn in Hd. rewrite (N.eqb_sym sid) . destruct (q_sid q =? sid); lia.
    + destruct Ea as [Ek Ed]. unfold proc_pend in *. destruct (find_pend st pend) as [p|] eqn:Ef.
      * assert (Hin : In p pend) by (apply find_some in Ef; tauto).
        assert (Hst : p_stamp p = st) by (apply find_some in Ef; apply N.eqb_eq; tauto).
        assert (Hpq : p_req p = q) by (rewrite Forall_forall in HF; apply (HF p Hin Hst)).
        assert (Hb : p_retry p < cnt (q_sid q) (ss_dropstop ss))
          by (rewrite Forall_forall in H5; rewrite <- Hpq; apply (H5 p Hin); rewrite Hpq; exact Hs).
        destruct (maxr <=? p_retry p + 1) eqn:Em.
        -- constructor; auto.
           ++ rewrite Ed. apply Forall_filter'. eapply Forall_impl; [|exact H5]. cbn. intros x Hx Hxs.
              specialize (Hx Hxs). rewrite cnt_cons. lia.
           ++ intros sid. rewrite Ed, Ee, Ek, cnt_cons. destruct (N.eqb_spec sid (q_sid q)) as [->|Hne].
              ** left. apply N.leb_le in Em. lia.
              ** destruct (H6 sid) as [H|H]; [left; lia|right].
                 pose proof (nstops_del sid st q pend H1 HF) as Hd. unfold isstop in Hd. rewrite Hs in Hd. cbn in Hd.
                 apply N.eqb_neq in Hne. rewrite N.eqb_sym in Hne. rewrite Hne in Hd. lia.
        -- constructor; auto.
           ++ rewrite Ed. unfold set_retry. apply Forall_map. rewrite Forall_forall in *. intros x Hx. cbn.
              destruct (p_stamp x =? st) eqn:Ex; cbn.
              ** apply N.eqb_eq in Ex. rewrite (HF x Hx Ex). intros _. rewrite cnt_cons, N.eqb_refl. lia.
              ** intros Hxs. specialize (H5 x Hx Hxs). rewrite cnt_cons. lia.
           ++ intros sid. rewrite Ed, Ee, Ek, cnt_cons, nstops_set_retry.
              destruct (H6 sid) as [H|H]; [left; lia|right; exact H].
      * constructor; auto.
        -- rewrite Ed. eapply Forall_impl; [|exact H5]. cbn. intros x Hx Hxs. specialize (Hx Hxs). rewrite cnt_cons. lia.
        -- intros sid. rewrite Ed, Ee, Ek, cnt_cons. destruct (H6 sid) as [H|H]; [left; lia|right; exact H].
  - (* not a Stop record: counters unchanged; the record removed (if any) is not a Stop *)
    assert (Hw : w_st (wire q) <> ST_STOP) by exact Hs.
    destruct (ev_upd_nonstop ss (wire q) a Hw) as (Ed & Ek & Ee).
    assert (Hdel : forall sid, nstops sid pend <= nstops sid (del_pend st pend)).
    { intros sid. pose proof (nstops_del sid st q pend H1 HF) as Hd. unfold isstop in Hd.
      apply N.eqb_neq in Hs. rewrite Hs in Hd. cbn in Hd. lia. }
    constructor; auto.
    + rewrite Ed. unfold proc_pend. destruct a; [apply Forall_filter'; exact H5|].
      destruct (find_pend st pend) as [p|] eqn:Ef; [|exact H5].
      destruct (maxr <=? _); [apply Forall_filter'; exact H5|].
      unfold set_retry. apply Forall_map. rewrite Forall_forall in *. intros x Hx. cbn.
      destruct (p_stamp x =? st) eqn:Ex; cbn; [|apply H5; exact Hx].
      apply N.eqb_eq in Ex. rewrite (HF x Hx Ex). intros Hq. contradiction.
    + intros sid. rewrite Ed, Ee, Ek. destruct (H6 sid) as [H|H]; [left; exact H|right].
      unfold proc_pend. destruct a; [specialize (Hdel sid); lia|].
      destruct (find_pend st pend); [|exact H]. destruct (maxr <=? _); [specialize (Hdel sid); lia|].
      rewrite nstops_set_retry. exact H.
Qed.

Lemma M_same maxr pend chan stamp ss ss' :
  ss_dropstop ss' = ss_dropstop ss -> ss_ackstop ss' = ss_ackstop ss -> ss_ended ss' = ss_ended ss ->
  M maxr pend chan stamp ss -> M maxr pend chan stamp ss'.
Proof. intros E1 E2 E3 [H1 H2 H3 H4 H5 H6]. constructor; auto; rewrite ?E1, ?E2, ?E3; auto. Qed.

(* micro-state version: the monitor has consumed the records of x_ev; no crash is armed *)
Definition MX (maxr : N) (ss0 : sstate) (x : ms) : Prop :=
  M maxr (x_pend x) (x_chan x) (x_stamp x) (fold_left ev_upd (x_ev x) ss0) /\ x_c x = 0.

Lemma ctick0 x : x_c x = 0 -> ctick x = inl (set_c 0 x).
Proof. intros H. unfold ctick. rewrite H. reflexivity. Qed.

Lemma MX_send_nonstop maxr ss0 q a x : q_st q <> ST_STOP -> MX maxr ss0 x -> MX maxr ss0 (send q a x).
Proof.
  intros Hq [Hm Hc]. unfold send.
  assert (H1 : MX maxr ss0 (raw_send q a x)).
  { split; [|exact Hc]. unfold raw_send; cbn [x_pend x_chan x_stamp x_ev]. rewrite fold_left_app. cbn [fold_left].
    apply M_ev_nonstop; [exact Hq|exact Hm]. }
  destruct a; [exact H1|]. destruct H1 as [H1 H1c]. split; [|exact H1c].
  unfold enqueue; cbn [x_pend x_chan x_stamp x_ev].
  apply M_enqueue; [intros E; contradiction|exact H1].
Qed.

Lemma process_rec0 maxr st q dn x : x_c x = 0 ->
  exists y, process_rec maxr st q dn x = inl y /\
            x_pend y = proc_pend maxr st (acked dn q) (x_pend x) /\ x_chan y = x_chan x /\ x_stamp y = x_stamp x /\
            x_ev y = x_ev x ++ [(wire q, acked dn q)] /\ x_c y = 0.
Proof.
  intros Hc. unfold process_rec, bind. rewrite ctick0 by exact Hc. unfold proc_pend.
  change (x_pend (set_c 0 (raw_send q (acked dn q) x))) with (x_pend x).
  destruct (acked dn q); [eexists; split; [reflexivity|repeat split; reflexivity]|].
  destruct (find_pend st (x_pend x)) as [p|]; [|eexists; split; [reflexivity|repeat split; reflexivity]].
  destruct (maxr <=? p_retry p + 1); eexists; (split; [reflexivity|repeat split; reflexivity]).
Qed.

Lemma MX_process_rec maxr ss0 st q dn x :
  Forall (fun p => p_stamp p = st -> p_req p = q) (x_pend x) -> MX maxr ss0 x ->
  exists y, process_rec maxr st q dn x = inl y /\ MX maxr ss0 y /\
            x_pend y = proc_pend maxr st (acked dn q) (x_pend x) /\ x_chan y = x_chan x.
Proof.
  intros HF [Hm Hc]. destruct (process_rec0 maxr st q dn x Hc) as (y & E & Ep & Ech & Es & Ee & Ecy).
  exists y. split; [exact E|]. split; [|auto]. split; [|exact Ecy].
  rewrite Ep, Ech, Es, Ee, fold_left_app. cbn [fold_left]. apply M_proc; auto.
Qed.

(* ---- the loops ---- *)
Lemma interim_one_MX maxr ss0 cs fe dn se x : MX maxr ss0 x ->
  exists y, interim_one cs fe dn se x = inl y /\ MX maxr ss0 y.
Proof.
  intros Hx. unfold interim_one.
  set (fc := fetch_ctr fe (s_id se) _ _ (x_sess x)).
  set (q := mkQ ST_INTERIM (s_id se) (s_ident se) (fst fc) (snd fc) 0).
  assert (H1 : MX maxr ss0 (send q (acked dn q) x)) by (apply MX_send_nonstop; [discriminate|exact Hx]).
  match goal with |- exists y, ctick ?z = inl y /\ _ => assert (H2 : MX maxr ss0 z) end.
  { destruct (acked dn q); [|exact H1]. destruct H1 as [Ha Hb]. split; cbn; assumption. }
  destruct H2 as [Ha Hb]. rewrite ctick0 by exact Hb. eexists. split; [reflexivity|]. split; cbn; auto.
Qed.

Lemma fold_m_MX {A} maxr ss0 (f : A -> ms -> ms + ms) l :
  (forall a x, MX maxr ss0 x -> exists y, f a x = inl y /\ MX maxr ss0 y) ->
  forall x, MX maxr ss0 x -> exists y, fold_m f l x = inl y /\ MX maxr ss0 y.
Proof.
  intros Hf. induction l as [|a tl IH]; intros x Hx; cbn; [eauto|].
  destruct (Hf a x Hx) as (y & -> & Hy). apply IH. exact Hy.
Qed.

Definition fun_at (p : prec) (l : list prec) : Prop :=
  Forall (fun p' => p_stamp p' = p_stamp p -> p_req p' = p_req p) l.

Lemma retry_loop_MX maxr ss0 dn l : forall x,
  MX maxr ss0 x -> Forall (fun p => fun_at p (x_pend x)) l ->
  exists y, fold_m (retry_one maxr dn) l x = inl y /\ MX maxr ss0 y.
Proof.
  induction l as [|p tl IH]; intros x Hx HF; cbn [fold_m]; [eauto|].
  inversion HF as [|? ? Hp HF']; subst. unfold retry_one at 1.
  set (x1 := mark _ 806 x).
  assert (Hx1 : MX maxr ss0 x1 /\ x_pend x1 = x_pend x).
  { unfold x1, mark. destruct (existsb _ _); [|auto]. destruct Hx as [Ha Hb]. split; [split|]; cbn; auto. }
  destruct Hx1 as [Hx1 Ep1].
  destruct (MX_process_rec maxr ss0 (p_stamp p) (p_req p) dn x1) as (y & -> & Hy & Ep & _); [rewrite Ep1; exact Hp|exact Hx1|].
  apply IH; [exact Hy|]. rewrite Ep, Ep1. eapply Forall_impl; [|exact HF'].
  intros p2 H2. unfold fun_at in *. apply (proc_keeps (fun s r => s = p_stamp p2 -> r = p_req p2)). exact H2.
Qed.

Lemma pick_pos_in order (l : list prec) : Forall (fun p => In p l) (pick_pos order l).
Proof. apply Forall_pick_pos. apply Forall_forall. auto. Qed.

(* M only grows weaker premises as the monitor consumes records *)
Lemma M_ev maxr pend chan stamp ss e : M maxr pend chan stamp ss -> M maxr pend chan stamp (ev_upd ss e).
Proof.
  destruct e as [w a]. destruct (N.eq_dec (w_st w) ST_STOP) as [Hs|Hs]; [|apply M_ev_nonstop; exact Hs].
  intros [H1 H2 H3 H4 H5 H6]. destruct (ev_upd_stop ss w a Hs) as [Ee Ea].
  destruct a; destruct Ea as [Ek Ed]; constructor; auto.
  - rewrite Ed. exact H5.
  - intros sid. rewrite Ed, Ee, Ek, cnt_cons. destruct (H6 sid); [left; auto|right; lia].
  - rewrite Ed. eapply Forall_impl; [|exact H5]. cbn. intros x Hx Hq. specialize (Hx Hq). rewrite cnt_cons. lia.
  - intros sid. rewrite Ed, Ee, Ek, cnt_cons. destruct (H6 sid); [left; lia|right; lia].
Qed.

Definition bump_ended (s : N) (ss : sstate) : sstate :=
  mkSS (ss_maxr ss) (ss_reg ss) (ss_ctr ss) (ss_starts ss) (ss_live ss) (s :: ss_ended ss)
       (ss_ackstart ss) (ss_ackstop ss) (ss_dropstop ss) (ss_crashed ss).

(* StopSession's transmit step, seen together with the monitor's "this incarnation has ended" *)
Lemma M_stop_sent maxr (pend : list prec) (chan : list (N * req)) (stamp : N) ss q (a : bool) :
  q_st q = ST_STOP -> M maxr pend chan stamp ss ->
  M maxr (if a then pend else pend ++ [mkP stamp q 0]) (if a then chan else chan ++ [(stamp, q)])
    (if a then stamp else stamp + 1) (bump_ended (q_sid q) (ev_upd ss (wire q, a))).
Proof.
  intros Hs Hm. assert (Hw : w_st (wire q) = ST_STOP) by exact Hs.
  destruct (ev_upd_stop ss (wire q) a Hw) as [Ee Ea]. cbn [wire w_sid] in Ea.
  pose proof (M_ev _ _ _ _ _ (wire q, a) Hm) as Hm1.
  destruct a; destruct Ea as [Ek Ed].
  - destruct Hm1 as [H1 H2 H3 H4 H5 H6]. constructor; auto. intros sid. cbn [bump_ended ss_dropstop ss_ended ss_ackstop].
    destruct Hm as [_ _ _ _ _ G6]. rewrite Ed, Ee, Ek, !cnt_cons. destruct (G6 sid); [left; auto|right; lia].
  - assert (Hm2 : M maxr (pend ++ [mkP stamp q 0]) (chan ++ [(stamp, q)]) (stamp + 1) (ev_upd ss (wire q, false))).
    { apply M_enqueue; [|exact Hm1]. intros _. rewrite Ed, cnt_cons, N.eqb_refl. lia. }
    destruct Hm2 as [H1 H2 H3 H4 H5 H6]. constructor; auto. intros sid. cbn [bump_ended ss_dropstop ss_ended ss_ackstop].
    destruct Hm as [_ _ _ _ _ G6]. rewrite Ed, Ee, Ek, !cnt_cons, nstops_snoc. cbn [p_req]. unfold isstop. rewrite Hs. cbn.
    rewrite (N.eqb_sym (q_sid q) sid). destruct (G6 sid); [left; lia|right; destruct (sid =? q_sid q); lia].
Qed.

(* ---- state level ---- *)
Definition JS (s : state) (ss : sstate) : Prop :=
  st_alive s = true /\ ss_maxr ss = st_maxr s /\ M (st_maxr s) (st_pend s) (st_chan s) (st_stamp s) ss.

Lemma pre_counts ss o r :
  ss_dropstop (pre ss o r) = ss_dropstop ss /\ ss_ackstop (pre ss o r) = ss_ackstop ss /\
  ss_ended (pre ss o r) = ss_ended ss /\ ss_maxr (pre ss o r) = ss_maxr ss.
Proof. destruct o; cbn; auto. destruct (ran r); cbn; auto. Qed.

Lemma fold_ev_maxr es : forall ss, ss_maxr (fold_left ev_upd es ss) = ss_maxr ss.
Proof. induction es as [|e tl IH]; intros ss; cbn; [reflexivity|]. rewrite IH. apply ev_upd_regs. Qed.

Lemma post_counts ss o r : died o r = false ->
  ss_dropstop (post ss o r) = ss_dropstop ss /\ ss_ackstop (post ss o r) = ss_ackstop ss /\
  ss_maxr (post ss o r) = ss_maxr ss /\
  ss_ended (post ss o r) = match o with
                           | Stop s _ _ _ _ _ _ => if o_ret r =? R_OK then s :: ss_ended ss else ss_ended ss
                           | _ => ss_ended ss
                           end.
Proof.
  intros Hd. unfold post. rewrite Hd. unfold died in Hd. apply orb_false_elim in Hd. destruct Hd as [Hc _].
  destruct o; cbn; auto.
  - rewrite Hc. cbn. destruct (o_ret r =? R_OK); cbn; auto.
  - destruct (o_ret r =? R_OK); cbn; auto.
Qed.

Lemma events_ok_4 es : forall ss, events_ok 4 ss es = true.
Proof. induction es as [|[w a] tl IH]; intros ss; cbn; auto. Qed.

(* the ops of a crash-free history never end in inr, and keep MX *)
Lemma do_start_cf maxr ss0 s id dn x : MX maxr ss0 x ->
  exists y, do_start s id dn x = inl y /\ MX maxr ss0 y.
Proof.
  intros Hx. unfold do_start. destruct (find_sess s (x_sess x)); [eexists; split; [reflexivity|]|].
  - destruct Hx as [Ha Hb]. split; cbn; auto.
  - set (q := mkQ ST_START s id 0 0 0).
    assert (H1 : MX maxr ss0 (send q (acked dn q) (set_sess (put_sess (mkS s id false 0 0 0)) x))).
    { apply MX_send_nonstop; [discriminate|]. destruct Hx as [Ha Hb]. split; cbn; auto. }
    match goal with |- exists y, bind (ctick ?z) _ = inl y /\ _ => assert (H2 : MX maxr ss0 z) end.
    { unfold mark. repeat match goal with |- context [if ?b then _ else _] => destruct b end;
        destruct H1 as [Ha Hb]; split; cbn; auto. }
    destruct H2 as [Ha Hb]. rewrite ctick0 by exact Hb. cbn [bind]. rewrite ctick0 by reflexivity.
    eexists. split; [reflexivity|]. split; cbn; auto.
Qed.

Lemma do_interim_cf maxr ss0 cs fe dn order x : MX maxr ss0 x ->
  exists y, do_interim cs fe dn order x = inl y /\ MX maxr ss0 y.
Proof. intros Hx. unfold do_interim. apply fold_m_MX; [|exact Hx]. intros a y Hy. apply interim_one_MX. exact Hy. Qed.

Lemma do_queue_cf maxr ss0 dn x : MX maxr ss0 x ->
  exists y, do_queue maxr dn x = inl y /\ MX maxr ss0 y.
Proof.
  intros Hx. unfold do_queue. destruct (x_chan x) as [|[st q] tl] eqn:E; [eauto|].
  destruct Hx as [[H1 H2 H3 H4 H5 H6] Hc]. rewrite E in H3, H4. inversion H3; subst. inversion H4; subst.
  destruct (MX_process_rec maxr ss0 st q dn (set_chan (fun _ => tl) x)) as (y & Ey & Hy & _); [cbn; assumption| |eauto].
  split; [|exact Hc]. cbn. constructor; auto.
Qed.

Lemma do_retry_cf maxr ss0 dn order x : MX maxr ss0 x ->
  exists y, do_retry maxr dn order x = inl y /\ MX maxr ss0 y.
Proof.
  intros Hx. unfold do_retry. apply retry_loop_MX; [exact Hx|].
  destruct Hx as [[H1 _ _ _ _ _] _]. eapply Forall_impl; [|apply pick_pos_in]. intros p Hp. unfold fun_at.
  apply Forall_forall. intros p' Hp' E. f_equal. apply (uniq_functional (x_pend x)); auto.
Qed.

Lemma do_stop_cf maxr ss0 s cause cin cout fe dn x : MX maxr ss0 x -> x_ret x = 0 ->
  match find_sess s (x_sess x) with
  | None => do_stop s cause cin cout fe dn x = inl (set_ret 1 x)
  | Some se0 =>
      exists fi fo, let q := mkQ ST_STOP s (s_ident se0) fi fo cause in
      exists y, do_stop s cause cin cout fe dn x = inl y /\ x_ret y = 0 /\ x_c y = 0 /\
                x_ev y = x_ev x ++ [(wire q, acked dn q)] /\
                x_pend y = (if acked dn q then x_pend x else x_pend x ++ [mkP (x_stamp x) q 0]) /\
                x_chan y = (if acked dn q then x_chan x else x_chan x ++ [(x_stamp x, q)]) /\
                x_stamp y = (if acked dn q then x_stamp x else x_stamp x + 1)
  end.
Proof.
  intros [_ Hc] Hr. unfold do_stop. destruct (find_sess s (x_sess x)) as [se0|]; [|reflexivity].
  destruct x as [se pe ch fi pj st ev c mk rt]. cbn in Hc, Hr. subst c rt. cbn.
  match goal with |- context [fetch_ctr fe s cin cout ?l] => generalize (fetch_ctr fe s cin cout l) end.
  intros [a b]. exists a, b. cbn.
  destruct (acked dn _); cbn; eexists; (split; [reflexivity|cbn; repeat split; reflexivity]).
Qed.

(* the return code of an op that runs to completion is 0 or 1 *)
Definition RX (r : ms + ms) : Prop := match r with inl y => x_ret y <= 1 | inr _ => True end.
Lemma RX_ctick x : x_ret x <= 1 -> RX (ctick x).
Proof. intros H. unfold ctick. destruct (x_c x =? 1); cbn; auto. Qed.
Lemma RX_bind r f : RX r -> (forall y, x_ret y <= 1 -> RX (f y)) -> RX (bind r f).
Proof. destruct r; cbn; auto. Qed.
Lemma RX_fold_m {A} (f : A -> ms -> ms + ms) l : (forall a y, x_ret y <= 1 -> RX (f a y)) ->
  forall x, x_ret x <= 1 -> RX (fold_m f l x).
Proof.
  intros Hf. induction l as [|a tl IH]; intros x Hx; cbn; [exact Hx|].
  pose proof (Hf a x Hx) as H. destruct (f a x); cbn in *; auto.
Qed.
Lemma ret_send q a x : x_ret (send q a x) = x_ret x.
Proof. unfold send. destruct a; reflexivity. Qed.
Lemma ret_mark b m x : x_ret (mark b m x) = x_ret x.
Proof. unfold mark. destruct b; reflexivity. Qed.

Lemma RX_process_rec maxr st q dn x : x_ret x <= 1 -> RX (process_rec maxr st q dn x).
Proof.
  intros H. unfold process_rec. apply RX_bind; [apply RX_ctick; exact H|]. intros y Hy. cbn.
  destruct (acked dn q); [exact Hy|]. destruct (find_pend st (x_pend y)); [|exact Hy].
  destruct (maxr <=? _); exact Hy.
Qed.
Lemma RX_do_start s id dn x : x_ret x <= 1 -> RX (do_start s id dn x).
Proof.
  intros H. unfold do_start. destruct (find_sess s (x_sess x)); [cbn; lia|].
  apply RX_bind; [apply RX_ctick; rewrite !ret_mark, ret_send; exact H|]. intros y Hy. apply RX_ctick. exact Hy.
Qed.
Lemma RX_do_stop s cause cin cout fe dn x : x_ret x <= 1 -> RX (do_stop s cause cin cout fe dn x).
Proof.
  intros H. unfold do_stop. destruct (find_sess s (x_sess x)); [|cbn; lia].
  apply RX_bind; [apply RX_ctick; exact H|]. intros y Hy.
  apply RX_bind; [apply RX_ctick; rewrite ret_send; exact Hy|]. intros z Hz. apply RX_ctick. rewrite ret_mark. exact Hz.
Qed.
Lemma RX_do_interim cs fe dn order x : x_ret x <= 1 -> RX (do_interim cs fe dn order x).
Proof.
  intros H. unfold do_interim. apply RX_fold_m; [|exact H]. intros a y Hy. unfold interim_one. apply RX_ctick.
  destruct (acked dn _); cbn; rewrite ?ret_send; exact Hy.
Qed.
Lemma RX_do_queue maxr dn x : x_ret x <= 1 -> RX (do_queue maxr dn x).
Proof. intros H. unfold do_queue. destruct (x_chan x) as [|[st q] tl]; [exact H|]. apply RX_process_rec. exact H. Qed.
Lemma RX_do_retry maxr dn order x : x_ret x <= 1 -> RX (do_retry maxr dn order x).
Proof.
  intros H. unfold do_retry. apply RX_fold_m; [|exact H]. intros a y Hy. unfold retry_one. apply RX_process_rec.
  rewrite ret_mark. exact Hy.
Qed.

Lemma JS_enter s ss : JS s ss -> MX (st_maxr s) ss (enter s 0).
Proof. intros (_ & _ & Hm). split; [exact Hm|reflexivity]. Qed.

Lemma M_pre maxr pend chan stamp ss o r : M maxr pend chan stamp ss -> M maxr pend chan stamp (pre ss o r).
Proof. destruct (pre_counts ss o r) as (E1 & E2 & E3 & _). apply M_same; auto. Qed.

(* an op that ran to completion (inl y), seen from the state level *)
Lemma leave_cf s ss o y :
  (match o with Stop _ _ _ _ _ _ _ | GracefulStop _ _ _ _ _ => False | _ => True end) ->
  st_alive s = true -> ss_maxr ss = st_maxr s -> x_ret y <= 1 ->
  MX (st_maxr s) (pre ss o (snd (fst (leave s false (inl y))))) y ->
  JS (fst (fst (leave s false (inl y)))) (supd ss o (snd (fst (leave s false (inl y))))).
Proof.
  intros Ho Ea Em Hr [Hm Hc]. cbn [leave fst snd] in *.
  set (s' := mkSt (st_maxr s) true (x_sess y) (x_pend y) (x_chan y) (x_files y) (x_pjson y) (x_stamp y)) in *.
  set (r := view (x_ret y) (x_ev y) s') in *.
  assert (Hd : died o r = false).
  { unfold died. cbn [o_ret r view]. replace (x_ret y =? R_CRASHED) with false by (unfold R_CRASHED; lia).
    destruct o; try reflexivity; contradiction. }
  unfold supd. destruct (post_counts (fold_left ev_upd (o_ev r) (pre ss o r)) o r Hd) as (E1 & E2 & E3 & E4).
  split; [reflexivity|]. split.
  - rewrite E3, fold_ev_maxr. destruct (pre_counts ss o r) as (_ & _ & _ & ->). exact Em.
  - cbn [st_maxr st_pend st_chan st_stamp s']. eapply M_same; [exact E1|exact E2| |exact Hm].
    rewrite E4. destruct o; try reflexivity; contradiction.
Qed.

Lemma step_cf s ss o : quiet_op o = true -> JS s ss ->
  JS (fst (fst (step s o))) (supd ss o (snd (fst (step s o)))) /\ op_ok 4 ss o (snd (fst (step s o))) = true.
Proof.
  intros Hq Hj. pose proof Hj as (Ea & Em & Hm).
  assert (Hok : forall r, match o with Final => False | _ => True end -> op_ok 4 ss o r = true).
  { intros r Ho. unfold op_ok. rewrite events_ok_4. destruct o; try reflexivity; contradiction. }
  destruct o; cbn in Hq; try discriminate; try (apply N.eqb_eq in Hq; subst c).
  - (* Start *)
    split; [|apply Hok; exact I]. cbn [step]. rewrite Ea.
    destruct (do_start_cf (st_maxr s) (pre ss (Start s0 id dn 0) (snd (fst (leave s false (do_start s0 id dn (enter s 0))))))
                s0 id dn (enter s 0)) as (y & Ey & Hy).
    { split; [apply M_pre; exact Hm|reflexivity]. }
    pose proof (RX_do_start s0 id dn (enter s 0)) as Hr. rewrite Ey in *. apply leave_cf; auto. apply Hr. cbn. lia.
  - (* Stop *)
    split; [|apply Hok; exact I]. cbn [step]. rewrite Ea.
    pose proof (do_stop_cf (st_maxr s) ss s0 cause cin cout fe dn (enter s 0) (JS_enter s ss Hj) eq_refl) as Hs.
    cbn [enter x_sess] in Hs. destruct (find_sess s0 (st_sess s)) as [se0|].
    + destruct Hs as (fi & fo & y & Ey & Hr & Hc & Eev & Ep & Ech & Est). rewrite Ey. cbn [leave fst snd].
      set (q := mkQ ST_STOP s0 (s_ident se0) fi fo cause) in *.
      set (s' := mkSt _ true _ _ _ _ _ _). set (r := view _ _ s').
      assert (Hd : died (Stop s0 cause cin cout fe dn 0) r = false).
      { unfold died. cbn [o_ret r view]. rewrite Hr. reflexivity. }
      unfold supd. destruct (post_counts (fold_left ev_upd (o_ev r) (pre ss (Stop s0 cause cin cout fe dn 0) r)) _ r Hd) as (E1 & E2 & E3 & E4).
      split; [reflexivity|]. split.
      * rewrite E3, fold_ev_maxr. destruct (pre_counts ss (Stop s0 cause cin cout fe dn 0) r) as (_ & _ & _ & ->). exact Em.
      * cbn [st_maxr st_pend st_chan st_stamp s']. cbn [o_ev r view] in *. rewrite Eev in *. cbn [enter x_ev app fold_left] in *.
        pose proof (M_stop_sent (st_maxr s) (st_pend s) (st_chan s) (st_stamp s) (pre ss (Stop s0 cause cin cout fe dn 0) r) q (acked dn q)
                      eq_refl (M_pre _ _ _ _ _ _ _ Hm)) as Hs.
        rewrite Ep, Ech, Est. cbn [enter x_pend x_chan x_stamp].
        eapply M_same; [| | |exact Hs]; cbn [bump_ended ss_dropstop ss_ackstop ss_ended]; auto.
        rewrite E4. unfold r. cbn [o_ret view]. rewrite Hr. reflexivity.
    + rewrite Hs. cbn [leave fst snd set_ret enter x_ret x_ev x_sess x_pend x_chan x_files x_pjson x_stamp].
      set (s' := mkSt _ true _ _ _ _ _ _). set (r := view _ _ s').
      assert (Hd : died (Stop s0 cause cin cout fe dn 0) r = false) by reflexivity.
      unfold supd. destruct (post_counts (fold_left ev_upd (o_ev r) (pre ss (Stop s0 cause cin cout fe dn 0) r)) _ r Hd) as (E1 & E2 & E3 & E4).
      split; [reflexivity|]. split.
      * rewrite E3, fold_ev_maxr. destruct (pre_counts ss (Stop s0 cause cin cout fe dn 0) r) as (_ & _ & _ & ->). exact Em.
      * cbn [st_maxr st_pend st_chan st_stamp s']. eapply M_same; [exact E1|exact E2| |apply M_pre; exact Hm].
        rewrite E4. reflexivity.
  - (* InterimTick *)
    split; [|apply Hok; exact I]. cbn [step]. rewrite Ea.
    destruct (do_interim_cf (st_maxr s) (pre ss (InterimTick cs fe dn order 0) (snd (fst (leave s false (do_interim cs fe dn order (enter s 0))))))
                cs fe dn order (enter s 0)) as (y & Ey & Hy).
    { split; [apply M_pre; exact Hm|reflexivity]. }
    pose proof (RX_do_interim cs fe dn order (enter s 0)) as Hr. rewrite Ey in *. apply leave_cf; auto. apply Hr. cbn. lia.
  - (* ProcessQueued *)
    split; [|apply Hok; exact I]. cbn [step]. rewrite Ea.
    destruct (do_queue_cf (st_maxr s) (pre ss (ProcessQueued dn 0) (snd (fst (leave s false (do_queue (st_maxr s) dn (enter s 0))))))
                dn (enter s 0)) as (y & Ey & Hy).
    { split; [apply M_pre; exact Hm|reflexivity]. }
    pose proof (RX_do_queue (st_maxr s) dn (enter s 0)) as Hr. rewrite Ey in *. apply leave_cf; auto. apply Hr. cbn. lia.
  - (* RetryTick *)
    split; [|apply Hok; exact I]. cbn [step]. rewrite Ea.
    destruct (do_retry_cf (st_maxr s) (pre ss (RetryTick dn order 0) (snd (fst (leave s false (do_retry (st_maxr s) dn order (enter s 0))))))
                dn order (enter s 0)) as (y & Ey & Hy).
    { split; [apply M_pre; exact Hm|reflexivity]. }
    pose proof (RX_do_retry (st_maxr s) dn order (enter s 0)) as Hr. rewrite Ey in *. apply leave_cf; auto. apply Hr. cbn. lia.
  - (* Final *)
    cbn [step fst snd]. split.
    + split; [exact Ea|]. split; [exact Em|]. eapply M_same; [| | |exact Hm]; reflexivity.
    + unfold op_ok. cbn. unfold final_ok. apply forallb_forall. intros sid _. unfold owed_ok.
      destruct Hm as [_ _ _ _ _ H6]. cbn [view o_files o_pjson o_pend]. rewrite stops_in_pview, Em.
      destruct (H6 sid) as [H|H]; [apply orb_true_iff; left; lia|apply orb_true_iff; right].
      destruct (existsb _ _); destruct (option_map pview (st_pjson s)); lia.
Qed.

Theorem holds4_cf : forall ops s ss, crash_free ops = true -> JS s ss -> holds 4 ss (trace_from s ops) = true.
Proof.
  induction ops as [|o ops IH]; intros s ss Hc Hj; [reflexivity|].
  cbn in Hc. apply andb_true_iff in Hc. destruct Hc as [Hq Hc].
  rewrite trace_from_cons. cbn [holds]. destruct (step_cf s ss o Hq Hj) as [Hj' Hok].
  rewrite Hok. cbn. apply IH; assumption.
Qed.

Theorem clause4_partial : forall maxr ops, crash_free ops = true -> holds 4 (sinit maxr) (trace maxr ops) = true.
Proof.
  intros maxr ops Hc. apply holds4_cf; [exact Hc|]. split; [reflexivity|]. split; [reflexivity|].
  constructor; cbn; auto. intros sid. right. cbn. lia.
Qed.

(* ---------------------------------------------------------------- refutation witnesses *)
Definition clause (k : N) : Prop := forall maxr ops, holds k (sinit maxr) (trace maxr ops) = true.

Definition I1 : ident := (1, 2, 3).
(* (1) the Start fails and is queued; the Stop is sent directly and is accepted first *)
Definition w1 : list op := [Start 1 I1 [(1, 1)] 0; Stop 1 1 7 9 [] [] 0; ProcessQueued [] 0].
(* (3) graceful drain leaves sessions/1.json: the restart sends the acknowledged Stop again *)
Definition w3a : list op := [Start 1 I1 [] 0; GracefulStop [(1, (5, 6))] [] [] [] 0; Restart [] [] 0].
(* (3) the record is in the channel and in the retry map: delivered by the scan, sent again from the channel *)
Definition w3b : list op := [Start 1 I1 [] 0; Stop 1 1 1 2 [] [(1, 2)] 0; RetryTick [] [] 0; ProcessQueued [] 0].
(* (4) Stop fails -> queued in memory only, file removed; crash => lost *)
Definition w4a : list op := [Start 1 I1 [] 0; Stop 1 1 1 2 [] [(1, 2)] 0; Crash; Final].
(* (4) crash between the acknowledged Start and the write of the session file *)
Definition w4b : list op := [Start 1 I1 [] 1; Final].
(* (4) pending.json (durable after the graceful stop) is deleted on load; crash => lost *)
Definition w4c : list op :=
  [Start 1 I1 [] 0; Stop 1 1 1 2 [] [(1, 2)] 0; GracefulStop [] [] [] [] 0; Final; Restart [(1, 2)] [] 0; Crash; Final].
(* (4) the Stop recovered from the session file fails: queued in memory, file removed; crash => lost *)
Definition w4d : list op := [Start 1 I1 [] 0; Crash; Restart [(1, 2)] [] 0; Crash; Final].

Lemma clause1_refuted : ~ clause 1.
Proof. intros H. specialize (H 2 w1). vm_compute in H. discriminate. Qed.
Lemma clause3_refuted_drain : holds 3 (sinit 2) (trace 2 w3a) = false.
Proof. vm_compute. reflexivity. Qed.
Lemma clause3_refuted_double : holds 3 (sinit 2) (trace 2 w3b) = false.
Proof. vm_compute. reflexivity. Qed.
Lemma clause3_refuted : ~ clause 3.
Proof. intros H. specialize (H 2 w3a). rewrite clause3_refuted_drain in H. discriminate. Qed.
Lemma clause4_refuted_volatile_queue : holds 4 (sinit 2) (trace 2 w4a) = false.
Proof. vm_compute. reflexivity. Qed.
Lemma clause4_refuted_start_window : holds 4 (sinit 2) (trace 2 w4b) = false.
Proof. vm_compute. reflexivity. Qed.
Lemma clause4_refuted_pending_json : holds 4 (sinit 2) (trace 2 (firstn 4 w4c)) = true /\ holds 4 (sinit 2) (trace 2 w4c) = false.
Proof. split; vm_compute; reflexivity. Qed.
Lemma clause4_refuted_recovery : holds 4 (sinit 2) (trace 2 w4d) = false.
Proof. vm_compute. reflexivity. Qed.
Lemma clause4_refuted : ~ clause 4.
Proof. intros H. specialize (H 2 w4a). rewrite clause4_refuted_volatile_queue in H. discriminate. Qed.

(* the acceptor the harness runs rejects with clause k only where clause k's check fails *)
Lemma accept_sound ss o r :
  match accept ss o r with
  | inl ss' => ss' = supd ss o r /\ forall k, In k [1; 2; 3; 4; 5; 6] -> op_ok k ss o r = true
  | inr k => op_ok k ss o r = false
  end.
Proof.
  unfold accept.
  destruct (op_ok 2 ss o r) eqn:E2; cbn; [|assumption].
  destruct (op_ok 5 ss o r) eqn:E5; cbn; [|assumption].
  destruct (op_ok 6 ss o r) eqn:E6; cbn; [|assumption].
  destruct (op_ok 1 ss o r) eqn:E1; cbn; [|assumption].
  destruct (op_ok 3 ss o r) eqn:E3; cbn; [|assumption].
  destruct (op_ok 4 ss o r) eqn:E4; cbn; [|assumption].
  split; [reflexivity|]. intros k [<-|[<-|[<-|[<-|[<-|[<-|[]]]]]]]; assumption.
Qed.
