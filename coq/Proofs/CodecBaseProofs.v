(* C09 — lemmas about the slice primitives and the [safe] predicate (no Panic, no Hang). *)
From Coq Require Import ZArith NArith List Lia ZifyN ZifyNat ZifyBool Bool.
From Verif Require Import Model.CodecBase.
Import ListNotations.
Local Open Scope N_scope.

Definition safe {A} (r : res A) : Prop := r <> Panic /\ r <> Hang.

Lemma safe_ok {A} (a : A) : safe (Ok a). Proof. split; discriminate. Qed.
Lemma safe_err {A} : safe (@Err A). Proof. split; discriminate. Qed.
Lemma safe_bind {A B} (r : res A) (f : A -> res B) :
  safe r -> (forall a, r = Ok a -> safe (f a)) -> safe (bind r f).
Proof.
  intros [H1 H2] H. destruct r; cbn; try congruence.
  - apply H; reflexivity.
  - apply safe_err.
Qed.

Lemma lenN_app (a b : bytes) : lenN (a ++ b) = lenN a + lenN b.
Proof. unfold lenN. rewrite app_length. lia. Qed.
Lemma lenN_nil : lenN [] = 0. Proof. reflexivity. Qed.
Lemma lenN_cons x (s : bytes) : lenN (x :: s) = 1 + lenN s.
Proof. unfold lenN. cbn [length]. lia. Qed.

Lemma idx_ok (s : bytes) (i : N) : i < lenN s -> exists x, idx s i = Ok x.
Proof.
  unfold idx, lenN. intros H.
  destruct (nth_error s (N.to_nat i)) eqn:E; [eauto|].
  apply nth_error_None in E. lia.
Qed.

Lemma sub_ok (s tail : bytes) (a b : N) :
  a <= b -> b <= lenN s + lenN tail ->
  exists v, sub s tail a b = Ok v /\ lenN v = b - a.
Proof.
  intros Hab Hb. unfold sub.
  replace ((a <=? b) && (b <=? lenN s + lenN tail)) with true by (symmetry; apply andb_true_iff; split; lia).
  eexists. split; [reflexivity|].
  unfold lenN in *. rewrite firstn_length, skipn_length, app_length. lia.
Qed.

Lemma sub0_ok (s : bytes) (a b : N) :
  a <= b -> b <= lenN s -> exists v, sub0 s a b = Ok v /\ lenN v = b - a.
Proof. intros. unfold sub0. apply sub_ok; [assumption|]. rewrite lenN_nil. lia. Qed.

Lemma from_ok (s : bytes) (a : N) : a <= lenN s -> exists v, from s a = Ok v /\ lenN v = lenN s - a.
Proof. intros. unfold from. apply sub0_ok; lia. Qed.

Lemma len2 (w : bytes) : lenN w = 2 -> exists h l, w = [h; l].
Proof. unfold lenN. destruct w as [|h [|l [|]]]; cbn; intros; try lia. eauto. Qed.
Lemma len4 (w : bytes) : lenN w = 4 -> exists a b c d, w = [a; b; c; d].
Proof. unfold lenN. destruct w as [|a [|b [|c [|d [|]]]]]; cbn; intros; try lia. eauto 6. Qed.

Lemma be16_ok (s : bytes) (i : N) : i + 2 <= lenN s -> exists x, be16 s i = Ok x.
Proof.
  intros H. unfold be16. destruct (sub0_ok s i (i + 2)) as [w [Hw Hl]]; [lia|lia|].
  rewrite Hw. cbn [bind]. destruct (len2 w) as [h [l ->]]; [lia|]. eauto.
Qed.
Lemma be32_ok (s : bytes) (i : N) : i + 4 <= lenN s -> exists x, be32 s i = Ok x.
Proof.
  intros H. unfold be32. destruct (sub0_ok s i (i + 4)) as [w [Hw Hl]]; [lia|lia|].
  rewrite Hw. cbn [bind]. destruct (len4 w) as [a [b [c [d ->]]]]; [lia|]. eauto.
Qed.

(* the slice is independent of the spare capacity when it stays inside the visible part *)
Lemma sub_tail_irrel (s tail : bytes) (a b : N) :
  a <= b -> b <= lenN s -> sub s tail a b = sub0 s a b.
Proof.
  intros Hab Hb. unfold sub0, sub. rewrite lenN_nil.
  replace ((a <=? b) && (b <=? lenN s + lenN tail)) with true by (symmetry; apply andb_true_iff; split; lia).
  replace ((a <=? b) && (b <=? lenN s + 0)) with true by (symmetry; apply andb_true_iff; split; lia).
  f_equal. rewrite app_nil_r.
  unfold lenN in Hb.
  rewrite skipn_app, firstn_app, skipn_length.
  replace (N.to_nat (b - a) - (length s - N.to_nat a))%nat with 0%nat by lia.
  cbn [firstn]. rewrite app_nil_r. reflexivity.
Qed.

(* the proof tactic: walk through a straight-line model function *)
Ltac safe_step :=
  match goal with
  | |- safe (Ok _) => apply safe_ok
  | |- safe Err => apply safe_err
  | |- safe (bind (idx ?s ?i) _) =>
      let x := fresh "x" in let H := fresh "Hx" in
      destruct (idx_ok s i) as [x H]; [try lia | rewrite H; cbn [bind]]
  | |- safe (bind (be16 ?s ?i) _) =>
      let x := fresh "x" in let H := fresh "Hx" in
      destruct (be16_ok s i) as [x H]; [try lia | rewrite H; cbn [bind]]
  | |- safe (bind (be32 ?s ?i) _) =>
      let x := fresh "x" in let H := fresh "Hx" in
      destruct (be32_ok s i) as [x H]; [try lia | rewrite H; cbn [bind]]
  | |- safe (bind (sub0 ?s ?a ?b) _) =>
      let x := fresh "v" in let H := fresh "Hv" in let L := fresh "Lv" in
      destruct (sub0_ok s a b) as [x [H L]]; [try lia | try lia | rewrite H; cbn [bind]]
  | |- safe (bind (sub ?s ?t ?a ?b) _) =>
      let x := fresh "v" in let H := fresh "Hv" in let L := fresh "Lv" in
      destruct (sub_ok s t a b) as [x [H L]]; [try lia | try lia | rewrite H; cbn [bind]]
  | |- safe (bind (from ?s ?a) _) =>
      let x := fresh "v" in let H := fresh "Hv" in let L := fresh "Lv" in
      destruct (from_ok s a) as [x [H L]]; [try lia | rewrite H; cbn [bind]]
  | |- safe (if ?c then _ else _) => let E := fresh "E" in destruct c eqn:E
  | |- safe (bind (if ?c then _ else _) _) => let E := fresh "E" in destruct c eqn:E
  | |- safe (bind (Ok _) _) => cbn [bind]
  end.
Ltac safe_go := repeat safe_step.
