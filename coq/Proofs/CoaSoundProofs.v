(* C15: soundness of the trace monitor for the property stated on emitted bytes (CoaSpec.C15_step_ok,
   resp_wire_ok), and the whole-history theorems (the Model run over any list of datagrams is
   accepted by the monitor and therefore satisfies the property at every step). *)
From Coq Require Import ZArith NArith List Bool Lia ZifyN ZifyNat ZifyBool.
From Verif Require Import Base.Word Model.Coa Model.CoaSpec Proofs.CoaProofs.
Import ListNotations.
Local Open Scope nat_scope.

(* ---------- the monitor is sound for the property as stated on emitted bytes ---------- *)
Lemma resp_ok_wire H secret dg r :
  resp_ok (fun k => Some (H k)) secret dg r = None <-> resp_wire_ok H secret dg r = true.
Proof.
  unfold resp_ok, resp_wire_ok.
  destruct (Nat.leb 20 (length r)); cbn [negb andb]; [|split; discriminate].
  destruct (N.eqb (nth 1 r 0%N) (nth 1 dg 0%N)); cbn [negb andb]; [|split; discriminate].
  destruct (N.eqb (nth 0 r 0%N) (s_code dg + 1) || N.eqb (nth 0 r 0%N) (s_code dg + 2)); cbn [negb andb]; [|split; discriminate].
  destruct (Nat.eqb (s_len r) (length r)); cbn [negb andb]; [|split; discriminate].
  destruct (bytes_eqb (digest16 (H (s_respkey secret dg r))) (firstn 16 (skipn 4 r))); split; try discriminate; reflexivity.
Qed.

Lemma resps_ok_wire H secret dg rs :
  resps_ok (fun k => Some (H k)) secret dg rs = None <-> (forall r, In r rs -> resp_wire_ok H secret dg r = true).
Proof.
  induction rs as [|r tl IH]; cbn [resps_ok In].
  - split; [intros _ r []|reflexivity].
  - destruct (resp_ok (fun k => Some (H k)) secret dg r) eqn:E.
    + split; [discriminate|]. intros A. assert (X : resp_wire_ok H secret dg r = true) by (apply A; left; reflexivity).
      apply resp_ok_wire in X. congruence.
    + apply resp_ok_wire in E. rewrite IH. split.
      * intros A x [<-|I]; auto.
      * intros A x I. apply A. right. exact I.
Qed.

Lemma quiet_nil {A B} (c : list A) (r : list B) :
  (match c, r with [], [] => true | _, _ => false end) = true -> c = [] /\ r = [].
Proof. destruct c, r; try discriminate; auto. Qed.

Lemma step_ok_quiet H secret cs ds dg :
  (s_authentic H secret dg && s_isreq dg) = false -> C15_step_ok H secret cs ds dg [] [].
Proof.
  intros N. unfold C15_step_ok. cbn zeta.
  split. { intros [X|X]; congruence. }
  split. { intros c []. }
  split. { intros A B _. rewrite A, B in N. discriminate. }
  split. { cbn [length]. repeat split; lia. }
  intros r [].
Qed.

Lemma monitor_sound H ss o calls resps ss' :
  accept (fun k => Some (H k)) ss o (OObs calls resps) = inl ss' ->
  ss' = ss /\ o_authentic o = s_authentic H (s_secret ss) (o_dg o) /\
  C15_step_ok H (s_secret ss) (s_coa_set ss) (s_dm_set ss) (o_dg o) calls resps.
Proof.
  unfold accept, s_authentic. cbv zeta. set (dg := o_dg o). set (secret := s_secret ss).
  destruct (s_complete dg) eqn:EC; cbn [negb andb].
  2:{ destruct (o_authentic o); [discriminate|].
      destruct (match calls, resps with [], [] => true | _, _ => false end) eqn:Q; [|discriminate].
      intros X; inversion X; subst ss'. apply quiet_nil in Q. destruct Q; subst.
      split; [reflexivity|]. split; [reflexivity|]. apply step_ok_quiet. unfold s_authentic. rewrite EC. reflexivity. }
  set (v := bytes_eqb (digest16 (H (s_reqkey secret dg))) (s_auth dg)).
  destruct (Bool.eqb (o_authentic o) v) eqn:EA; cbn [negb]; [|discriminate].
  apply Bool.eqb_prop in EA.
  destruct (v && s_isreq dg) eqn:EV; cbn [negb].
  2:{ destruct (match calls, resps with [], [] => true | _, _ => false end) eqn:Q; [|discriminate].
      intros X; inversion X; subst ss'. apply quiet_nil in Q. destruct Q; subst.
      split; [reflexivity|]. split; [exact EA|]. apply step_ok_quiet. unfold s_authentic. rewrite EC. exact EV. }
  apply andb_prop in EV. destruct EV as [Ev Ei].
  set (inst := if N.eqb (s_code dg) 43 then s_coa_set ss else s_dm_set ss).
  destruct (forallb (fun c : N * request => N.eqb (fst c) (s_code dg)) calls) eqn:EF; cbn [negb]; [|discriminate].
  destruct (s_wf dg && negb (Nat.eqb (length resps) 1 && Nat.eqb (length calls) (if inst then 1 else 0))) eqn:E1; [discriminate|].
  destruct (Nat.leb (length resps) 1 && Nat.leb (length calls) (if inst then 1 else 0) && Nat.leb (length calls) (length resps)) eqn:E2;
    cbn [negb]; [|discriminate].
  destruct (resps_ok (fun k => Some (H k)) secret dg resps) eqn:ER; [discriminate|].
  intros X; inversion X; subst ss'.
  split; [reflexivity|]. split; [exact EA|].
  apply andb_prop in E2. destruct E2 as [E2 E2c]. apply andb_prop in E2. destruct E2 as [E2a E2b].
  apply Nat.leb_le in E2a, E2b, E2c.
  unfold C15_step_ok. fold dg secret inst. cbn zeta.
  assert (SA : s_complete dg && v = true) by (rewrite EC, Ev; reflexivity).
  split; [intros _; split; [exact SA|exact Ei]|].
  split. { intros c I. rewrite forallb_forall in EF. apply N.eqb_eq. apply EF. exact I. }
  split. { intros _ _ W. rewrite W in E1. cbn [andb] in E1. apply negb_false_iff in E1.
           apply andb_prop in E1. destruct E1 as [A B]. apply Nat.eqb_eq in A, B. auto. }
  split; [auto|]. apply resps_ok_wire. exact ER.
Qed.

(* a panic or a missing digest is never accepted *)
Lemma monitor_rejects_panic Ho ss o : accept Ho ss o OPanic = inr 3%N.
Proof. reflexivity. Qed.

(* ---------- whole traces ---------- *)
Section Traces.
  Variable secret : bytes.
  Variable coa_set dm_set : bool.
  Variable H : bytes -> bytes.
  Let ss := {| s_secret := secret; s_coa_set := coa_set; s_dm_set := dm_set |}.

  (* every accepted trace satisfies the property at every step *)
  Lemma accepted_trace_sound tr :
    accept_list (fun k => Some (H k)) ss tr = true ->
    Forall (fun x => match snd x with
                     | OObs calls resps => C15_step_ok H secret coa_set dm_set (o_dg (fst x)) calls resps
                     | _ => False
                     end) tr.
  Proof.
    induction tr as [|[o r] tl IH]; cbn [accept_list]; [constructor|].
    destruct (accept (fun k => Some (H k)) ss o r) as [ss'|c] eqn:E; [|discriminate].
    destruct r as [| |calls resps]; try discriminate.
    destruct (monitor_sound _ _ _ _ _ _ E) as (-> & _ & S).
    intros A. constructor; [exact S|apply IH; exact A].
  Qed.

  (* the Model run over a whole history: the listener processes the datagrams one after the other, the
     receive buffer keeps what the previous datagrams left (as CoaCheck.step threads it); the handler's
     behaviour may differ from datagram to datagram *)
  Fixpoint model_run (stale : bytes) (h : list (bytes * (N -> request -> hresp))) : list (op * out) :=
    match h with
    | [] => []
    | (dg, handler) :: tl =>
        ({| o_dg := dg; o_hr := coa_default; o_authentic := s_authentic H secret dg; o_tbl := []; o_md5 := true; o_ma := 0 |},
         obs_of (coa_process true secret coa_set dm_set handler H stale dg))
        :: model_run (recv_arr stale dg) tl
    end.

  (* guard of the whole-history theorem: no response of 65536 bytes or more (16-bit Length field) *)
  Definition short_responses (h : list (bytes * (N -> request -> hresp))) : Prop :=
    forall dg handler stale c called req resp, In (dg, handler) h ->
      coa_process true secret coa_set dm_set handler H stale dg = Handle c called req resp ->
      (N.of_nat (length resp) < 65536)%N.

  Lemma monitor_accepts_model_run h : short_responses h ->
    forall stale, accept_list (fun k => Some (H k)) ss (model_run stale h) = true.
  Proof.
    induction h as [|[dg handler] tl IH]; intros G stale; cbn [model_run accept_list]; [reflexivity|].
    unfold s_authentic. rewrite (bytes_eqb_sym (digest16 (H (s_reqkey secret dg))) (s_auth dg)).
    fold (req_verifies secret H dg).
    rewrite (monitor_accepts_model secret coa_set dm_set handler H stale dg).
    - apply IH. intros d hd st c ca rq rs I. apply (G d hd st c ca rq rs). right. exact I.
    - intros c ca rq rs E. apply (G dg handler stale c ca rq rs); [left; reflexivity|exact E].
  Qed.

  (* ... and therefore satisfies the property at every step *)
  Lemma model_run_sound h stale : short_responses h ->
    Forall (fun x => match snd x with
                     | OObs calls resps => C15_step_ok H secret coa_set dm_set (o_dg (fst x)) calls resps
                     | _ => False
                     end) (model_run stale h).
  Proof. intros G. apply accepted_trace_sound. apply monitor_accepts_model_run. exact G. Qed.
End Traces.

(* ---------- non-vacuity ---------- *)
Lemma ex_short_responses :
  short_responses [115%N] true true (fun _ => []) [(ex_dg, fun _ _ => dm_default); (ex_dg, fun _ _ => coa_default)].
Proof.
  intros dg h st c ca rq rs I E.
  destruct I as [I|[I|[]]]; inversion I; subst dg h;
    rewrite (stale_independent [115%N] true true _ (fun _ => []) st []) in E;
    vm_compute in E; inversion E; subst; vm_compute; reflexivity.
Qed.
Lemma ex_silence_not_ok : ~ C15_step_ok (fun _ => []) [115%N] true true ex_dg [] [].
Proof.
  unfold C15_step_ok. intros (_ & _ & A & _).
  assert (X : length (@nil bytes) = 1) by (apply A; vm_compute; reflexivity). discriminate.
Qed.
(* Disconnect-ACK to ex_dg (constant digest = 16 zero bytes): good; the same with one authenticator byte set: bad *)
Definition ex_good_resp : bytes := [41; 7; 0; 20; 0;0;0;0;0;0;0;0;0;0;0;0;0;0;0;0]%N.
Definition ex_bad_resp : bytes := [41; 7; 0; 20; 1;0;0;0;0;0;0;0;0;0;0;0;0;0;0;0]%N.
Lemma ex_wire : resp_wire_ok (fun _ => []) [115%N] ex_dg ex_bad_resp = false /\
                resp_wire_ok (fun _ => []) [115%N] ex_dg ex_good_resp = true.
Proof. split; vm_compute; reflexivity. Qed.
