(* Lemmas about Model/Dhcp4.v for property C02. *)
From Coq Require Import NArith List Bool Lia ZifyN ZifyNat ZifyBool.
From Verif Require Import Model.Dhcp4.
Import ListNotations.
Local Open Scope N_scope.

(* (d) renewing an own unexpired binding: the REQUEST is ACKed with the same address and the
   binding keeps it.  The state is the one reached by ANY history. *)
Lemma v4_renew_same : forall c ops m l,
  alookup (m_mac m) (leases (run4 c ops)) = Some l ->
  now (run4 c ops) < l_exp l ->
  requested m = l_ip l ->
  exists s' mk, step4 c (run4 c ops) (Request m) = (s', RAck (l_ip l), mk) /\
    exists l', alookup (m_mac m) (leases s') = Some l' /\ l_ip l' = l_ip l.
Proof.
  intros c ops m l Hl _ Hr. unfold step4, existing. rewrite Hl. cbn [fst snd]. rewrite Hr, N.eqb_refl.
  eexists _, _. split; [reflexivity|]. unfold do_ack, aset. cbn [leases alookup]. rewrite N.eqb_refl.
  eexists. split; reflexivity.
Qed.
