(* Lemmas about Model/Dhcp4.v for property C02: association lists, the pool partition invariant,
   the lease-table invariant under the circuit-id guard, and the clause lemmas Props/C02.v uses. *)
From Coq Require Import NArith List Bool Lia ZifyN ZifyNat ZifyBool FinFun.
From Verif Require Import Model.Dhcp4.
Import ListNotations.
Local Open Scope N_scope.

(* ---------- association lists ---------- *)
Lemma alookup_in {A} k (v : A) l : alookup k l = Some v -> In (k, v) l.
Proof.
  induction l as [|[k' v'] tl IH]; cbn; [discriminate|].
  destruct (k' =? k) eqn:E; intro H.
  - apply N.eqb_eq in E. inversion H; subst. now left.
  - right; auto.
Qed.
Lemma alookup_none {A} k (l : list (N * A)) : alookup k l = None -> ~ In k (map fst l).
Proof.
  induction l as [|[k' v'] tl IH]; cbn; [tauto|].
  destruct (k' =? k) eqn:E; [discriminate|]. apply N.eqb_neq in E. intros H [H1|H1]; [congruence|]. now apply IH.
Qed.
Lemma in_alookup {A} k (v : A) l : NoDup (map fst l) -> In (k, v) l -> alookup k l = Some v.
Proof.
  induction l as [|[k' v'] tl IH]; cbn; [tauto|]. intros Hn [H|H].
  - inversion H; subst. now rewrite N.eqb_refl.
  - inversion Hn; subst. destruct (k' =? k) eqn:E.
    + apply N.eqb_eq in E. subst. exfalso. apply H2. now apply (in_map fst) in H.
    + auto.
Qed.
Lemma alookup_aremove_eq {A} k (l : list (N * A)) : alookup k (aremove k l) = None.
Proof.
  induction l as [|[k' v'] tl IH]; cbn; [reflexivity|].
  destruct (k' =? k) eqn:E; cbn; [exact IH|]. now rewrite E.
Qed.
Lemma alookup_aremove_ne {A} k k' (l : list (N * A)) : k <> k' -> alookup k (aremove k' l) = alookup k l.
Proof.
  intro Hn. induction l as [|[k2 v2] tl IH]; cbn; [reflexivity|].
  destruct (k2 =? k') eqn:E; cbn.
  - apply N.eqb_eq in E. subst. destruct (k' =? k) eqn:E2; [apply N.eqb_eq in E2; congruence|exact IH].
  - destruct (k2 =? k); [reflexivity|exact IH].
Qed.
Lemma alookup_aset_eq {A} k (v : A) l : alookup k (aset k v l) = Some v.
Proof. unfold aset. cbn. now rewrite N.eqb_refl. Qed.
Lemma alookup_aset_ne {A} k k' (v : A) l : k <> k' -> alookup k (aset k' v l) = alookup k l.
Proof.
  intro Hn. unfold aset. cbn. destruct (k' =? k) eqn:E; [apply N.eqb_eq in E; congruence|]. now apply alookup_aremove_ne.
Qed.
Lemma in_aremove {A} k (p : N * A) l : In p (aremove k l) -> In p l.
Proof. unfold aremove. rewrite filter_In. tauto. Qed.
Lemma in_aset {A} k (v : A) p l : In p (aset k v l) -> p = (k, v) \/ In p l.
Proof. unfold aset. intros [H|H]; [left; auto|right; eapply in_aremove; eauto]. Qed.

Lemma memN_in x l : memN x l = true <-> In x l.
Proof.
  unfold memN. rewrite existsb_exists. split.
  - intros [y [H1 H2]]. apply N.eqb_eq in H2. now subst.
  - intro H. exists x. split; [auto|apply N.eqb_refl].
Qed.
Lemma in_remove1 x y l : In y (remove1 x l) -> In y l.
Proof.
  induction l as [|z tl IH]; cbn; [tauto|]. destruct (z =? x); [tauto|]. intros [H|H]; [now left|right; auto].
Qed.
Lemma nodup_remove1 x l : NoDup l -> NoDup (remove1 x l).
Proof.
  induction 1 as [|z tl Hn Hd IH]; cbn; [constructor|]. destruct (z =? x); [assumption|].
  constructor; [intro H; apply Hn; eapply in_remove1; eauto|assumption].
Qed.
Lemma notin_remove1 x l : NoDup l -> ~ In x (remove1 x l).
Proof.
  induction 1 as [|z tl Hn Hd IH]; cbn; [tauto|]. destruct (z =? x) eqn:E.
  - apply N.eqb_eq in E. now subst.
  - apply N.eqb_neq in E. intros [H|H]; [congruence|tauto].
Qed.
Lemma in_remove1_ne x y l : In y l -> y <> x -> In y (remove1 x l).
Proof.
  induction l as [|z tl IH]; cbn; [tauto|]. intros [H|H] Hn.
  - subst. destruct (y =? x) eqn:E; [apply N.eqb_eq in E; congruence|now left].
  - destruct (z =? x); [assumption|right; auto].
Qed.

(* ---------- usable values: clause (c) and the universe every table draws from ---------- *)
Definition vals_ok (c : cfg4) (s : state4) : Prop :=
  (forall v, In v (avail s) -> usable4 c v = true) /\
  (forall p, In p (alloc s) -> usable4 c (snd p) = true) /\
  (forall p, In p (leases s) -> usable4 c (l_ip (snd p)) = true) /\
  (forall p, In p (cidx s) -> usable4 c (l_ip (snd p)) = true).

Lemma init_vals_ok c : vals_ok c (init4 c).
Proof.
  unfold vals_ok, init4; cbn. repeat split; try tauto.
  intros v Hv. unfold init_avail in Hv. apply filter_In in Hv. destruct Hv as [Hv Hg].
  apply in_map_iff in Hv. destruct Hv as [i [Hi Hs]]. apply in_seq in Hs. subst v.
  unfold usable4. rewrite Hg. rewrite andb_true_r. apply andb_true_iff. split; lia.
Qed.

Lemma drop_first_val_in ip a a' p : drop_first_val ip a = Some a' -> In p a' -> In p a.
Proof.
  revert a'. induction a as [|[h v] tl IH]; cbn; [discriminate|]. intros a'.
  destruct (v =? ip).
  - intros H; inversion H; subst. now right.
  - destruct (drop_first_val ip tl) eqn:E; [|discriminate]. intros H; inversion H; subst.
    intros [Hp|Hp]; [now left|right; eapply IH; eauto].
Qed.

Lemma pool_alloc_in h al av v al' av' :
  pool_alloc h al av = Some (v, al', av') ->
  (In (h, v) al \/ In v av) /\ (forall p, In p al' -> p = (h, v) \/ In p al) /\ (forall x, In x av' -> In x av).
Proof.
  unfold pool_alloc. destruct (alookup h al) eqn:E.
  - intro H; inversion H; subst. apply alookup_in in E. repeat split; auto.
  - destruct av as [|x tl]; [discriminate|]. intro H; inversion H; subst. repeat split.
    + right; now left.
    + intros p [Hp|Hp]; auto.
    + intros y Hy; now right.
Qed.

Ltac inv H := inversion H; subst; clear H.

Lemma pool_release_ok c s ip : vals_ok c s -> usable4 c ip = true -> vals_ok c (pool_release s ip).
Proof.
  intros (H1 & H2 & H3 & H4) Hu. unfold pool_release. destruct (drop_first_val ip (alloc s)) eqn:E; [|repeat split; auto].
  repeat split; cbn; auto.
  - intros v Hv. apply in_app_or in Hv. destruct Hv as [Hv|[Hv|[]]]; [auto|now subst].
  - intros p Hp. apply H2. eapply drop_first_val_in; eauto.
Qed.

Lemma drop_lease_ok c s m l : vals_ok c s -> vals_ok c (drop_lease s m l).
Proof.
  intros (H1 & H2 & H3 & H4). repeat split; cbn; auto.
  - intros p Hp. apply H3. eapply in_aremove; eauto.
  - intros p Hp. destruct (l_cid l =? 0); [auto|apply H4; eapply in_aremove; eauto].
Qed.

Lemma do_ack_ok c s m ex ip : vals_ok c s -> usable4 c ip = true -> vals_ok c (do_ack c s m ex ip).
Proof.
  intros (H1 & H2 & H3 & H4) Hu. repeat split; cbn; auto.
  - intros p Hp. apply in_aset in Hp. destruct Hp as [Hp|Hp]; [subst; exact Hu|auto].
  - assert (Hd : forall cid p, In p (drop_old_cid (cidx s) ex cid) -> In p (cidx s)).
    { intros cid p. unfold drop_old_cid. destruct ex as [e|]; [|auto].
      destruct (negb (l_cid (fst e) =? 0) && negb (l_cid (fst e) =? cid)); [|auto].
      destruct (alookup (l_cid (fst e)) (cidx s)); [|auto].
      destruct (lease4_eqb l (fst e)); [apply in_aremove|auto]. }
    intros p Hp. match type of Hp with In _ (if ?b then _ else _) => destruct b end; [eauto|].
    apply in_aset in Hp. destruct Hp as [Hp|Hp]; [subst; exact Hu|eauto].
Qed.

Lemma existing_usable c s m e : vals_ok c s -> existing s m = Some e -> usable4 c (l_ip (fst e)) = true.
Proof.
  intros (H1 & H2 & H3 & H4). unfold existing. destruct (alookup (m_mac m) (leases s)) eqn:E.
  - intro H; inv H. apply alookup_in in E. apply (H3 _ E).
  - destruct (m_relay m && negb (m_cid m =? 0)); [|discriminate].
    destruct (alookup (m_cid m) (cidx s)) eqn:E2; [|discriminate]. intro H; inv H.
    apply alookup_in in E2. apply (H4 _ E2).
Qed.

Lemma expire_one_ok c s m : vals_ok c s -> vals_ok c (expire_one s m).
Proof.
  intro H. unfold expire_one. destruct (alookup m (leases s)) eqn:E; [|assumption].
  destruct (l_exp l <=? now s); [|assumption].
  apply pool_release_ok; [now apply drop_lease_ok|]. destruct H as (_ & _ & H3 & _). apply alookup_in in E. apply (H3 _ E).
Qed.

Lemma fold_expire_ok c l s : vals_ok c s -> vals_ok c (fold_left expire_one l s).
Proof. revert s. induction l; cbn; auto using expire_one_ok. Qed.

Definition reply_val (r : reply4) : option N :=
  match r with ROffer v | RAck v => Some v | _ => None end.

(* one step: tables stay inside the usable set, and any OFFER/ACK value is usable *)
Lemma step_vals_ok c s o s' r mk :
  vals_ok c s -> step4 c s o = (s', r, mk) ->
  vals_ok c s' /\ (forall v, reply_val r = Some v -> usable4 c v = true).
Proof.
  intros Hok Hs. pose proof Hok as (H1 & H2 & H3 & H4).
  assert (Hal : forall h ip a' v', pool_alloc h (alloc s) (avail s) = Some (ip, a', v') ->
     vals_ok c {| leases := leases s; cidx := cidx s; alloc := a'; avail := v'; unavail := unavail s; now := now s |}
     /\ usable4 c ip = true).
  { intros h ip a' v' Hp. apply pool_alloc_in in Hp. destruct Hp as (Ha & Hb & Hc).
    assert (Hu : usable4 c ip = true) by (destruct Ha as [Ha|Ha]; [apply (H2 _ Ha)|auto]).
    split; [|exact Hu]. repeat split; cbn; auto.
    intros p Hp. apply Hb in Hp. destruct Hp as [Hp|Hp]; [subst; exact Hu|auto]. }
  destruct o as [m|m|m|m|m|d|ord]; cbn in Hs.
  - (* Discover *)
    destruct (existing s m) as [e|] eqn:Ee.
    + destruct (now s <? l_exp (fst e)).
      * inv Hs. split; [assumption|]. cbn. intros v Hv; inv Hv. eapply existing_usable; eauto.
      * destruct (pool_alloc (m_mac m) (alloc s) (avail s)) as [[[ip a'] v']|] eqn:Ep; inv Hs.
        -- destruct (Hal _ _ _ _ Ep). split; [assumption|]. cbn. intros v Hv; inv Hv; assumption.
        -- split; [assumption|discriminate].
    + destruct (pool_alloc (m_mac m) (alloc s) (avail s)) as [[[ip a'] v']|] eqn:Ep; inv Hs.
      * destruct (Hal _ _ _ _ Ep). split; [assumption|]. cbn. intros v Hv; inv Hv; assumption.
      * split; [assumption|discriminate].
  - (* Request *)
    destruct (existing s m) as [e|] eqn:Ee.
    + destruct (l_ip (fst e) =? requested m) eqn:Eq; inv Hs; [|split; [assumption|discriminate]].
      apply N.eqb_eq in Eq. pose proof (existing_usable _ _ _ _ Hok Ee) as Hu. rewrite Eq in Hu.
      split; [now apply do_ack_ok|]. cbn. intros v Hv; inv Hv; assumption.
    + destruct (negb (contains4 c (requested m))); [inv Hs; split; [assumption|discriminate]|].
      destruct (pool_reserve s (m_mac m) (requested m)) as [s1|] eqn:Er; inv Hs; [|split; [assumption|discriminate]].
      unfold pool_reserve in Er. destruct (alookup (m_mac m) (alloc s)) as [cur|] eqn:Ea.
      * destruct (cur =? requested m) eqn:Ec; inv Er. apply N.eqb_eq in Ec. subst cur.
        apply alookup_in in Ea. pose proof (H2 _ Ea) as Hu. cbn in Hu.
        split; [now apply do_ack_ok|]. cbn. intros v Hv; inv Hv; assumption.
      * destruct (memN (requested m) (avail s)) eqn:Em; inv Er. apply memN_in in Em. pose proof (H1 _ Em) as Hu.
        split; [|cbn; intros v Hv; inv Hv; assumption].
        apply do_ack_ok; [|assumption]. repeat split; cbn; auto.
        -- intros v Hv. apply H1. eapply in_remove1; eauto.
        -- intros p [Hp|Hp]; [subst; exact Hu|auto].
  - (* Release *)
    destruct (alookup (m_mac m) (leases s)) eqn:E; inv Hs; (split; [|discriminate]); [|assumption].
    apply pool_release_ok; [now apply drop_lease_ok|]. apply alookup_in in E. apply (H3 _ E).
  - (* Decline *)
    destruct (alookup (m_mac m) (leases s)) eqn:E; inv Hs; (split; [|discriminate]); [|assumption].
    pose proof (drop_lease_ok c s (m_mac m) l Hok) as Hd. destruct (m_req m); [|assumption].
    destruct Hd as (D1 & D2 & D3 & D4). repeat split; cbn [pool_mark leases cidx alloc avail]; auto.
    + intros v Hv. apply D1. eapply in_remove1; eauto.
    + intros p Hp. apply filter_In in Hp. apply D2. tauto.
  - inv Hs. split; [assumption|discriminate].
  - inv Hs. split; [|discriminate]. repeat split; cbn; auto.
  - inv Hs. split; [|discriminate]. now apply fold_expire_ok.
Qed.

Lemma run_vals_ok c ops : vals_ok c (run4 c ops).
Proof.
  unfold run4. set (s0 := init4 c). assert (H0 : vals_ok c s0) by apply init_vals_ok. clearbody s0.
  revert s0 H0. induction ops as [|o tl IH]; cbn; intros s0 H0; [assumption|].
  apply IH. unfold step4s. destruct (step4 c s0 o) as [[s' r] mk] eqn:E. cbn. eapply step_vals_ok; eauto.
Qed.

(* (c) every OFFER / ACK value, after any history *)
Lemma v4_value_usable c ops o s' r mk v :
  step4 c (run4 c ops) o = (s', r, mk) -> reply_val r = Some v -> usable4 c v = true.
Proof. intros Hs Hv. eapply step_vals_ok; eauto using run_vals_ok. Qed.

(* ---------- the pool partition ---------- *)
Record pool_inv (s : state4) : Prop := {
  p_av : NoDup (avail s);
  p_vals : NoDup (map snd (alloc s));
  p_keys : NoDup (map fst (alloc s));
  p_disj : forall v, In v (avail s) -> ~ In v (map snd (alloc s));
  p_un : forall v, In v (unavail s) -> ~ In v (avail s) /\ ~ In v (map snd (alloc s)) }.

Lemma vals_inj (a : list (N * N)) m1 m2 v :
  NoDup (map snd a) -> In (m1, v) a -> In (m2, v) a -> m1 = m2.
Proof.
  induction a as [|[h x] tl IH]; cbn; [tauto|]. intros Hn [H1|H1] [H2|H2]; inv Hn.
  - congruence.
  - inv H1. exfalso. apply H3. now apply (in_map snd) in H2.
  - inv H2. exfalso. apply H3. now apply (in_map snd) in H1.
  - auto.
Qed.
Lemma lookup_vals_inj (a : list (N * N)) m1 m2 v :
  NoDup (map snd a) -> alookup m1 a = Some v -> alookup m2 a = Some v -> m1 = m2.
Proof. intros Hn H1 H2. eapply vals_inj; eauto using alookup_in. Qed.
Lemma lookup_in_vals (a : list (N * N)) m v : alookup m a = Some v -> In v (map snd a).
Proof. intro H. apply alookup_in in H. now apply (in_map snd) in H. Qed.

Lemma nodup_map_filter {A B} (f : A -> B) g l : NoDup (map f l) -> NoDup (map f (filter g l)).
Proof.
  induction l as [|x tl IH]; cbn; [auto|]. intro H; inv H. destruct (g x); cbn; auto.
  constructor; auto. intro Hi. apply H2. apply in_map_iff in Hi. destruct Hi as [y [Hy Hf]].
  apply filter_In in Hf. apply in_map_iff. exists y. tauto.
Qed.

Lemma drop_first_val_split ip a a' :
  drop_first_val ip a = Some a' -> exists h a1 a2, a = a1 ++ (h, ip) :: a2 /\ a' = a1 ++ a2.
Proof.
  revert a'. induction a as [|[h v] tl IH]; cbn; [discriminate|]. intros a'. destruct (v =? ip) eqn:E.
  - apply N.eqb_eq in E. subst. intro H; inv H. exists h, [], a'. auto.
  - destruct (drop_first_val ip tl) eqn:E2; [|discriminate]. intro H; inv H.
    destruct (IH _ eq_refl) as (h' & a1 & a2 & -> & ->). exists h', ((h, v) :: a1), a2. auto.
Qed.
Lemma drop_first_val_none ip a : drop_first_val ip a = None -> ~ In ip (map snd a).
Proof.
  induction a as [|[h v] tl IH]; cbn; [tauto|]. destruct (v =? ip) eqn:E; [discriminate|].
  apply N.eqb_neq in E. destruct (drop_first_val ip tl); [discriminate|]. intros _ [H|H]; [congruence|now apply IH].
Qed.

Definition with_pool (s : state4) a v u : state4 :=
  {| leases := leases s; cidx := cidx s; alloc := a; avail := v; unavail := u; now := now s |}.

Lemma pool_alloc_inv s h ip a' v' :
  pool_inv s -> pool_alloc h (alloc s) (avail s) = Some (ip, a', v') ->
  pool_inv (with_pool s a' v' (unavail s)) /\ alookup h a' = Some ip /\
  (forall h', h' <> h -> alookup h' a' = alookup h' (alloc s)) /\
  (alookup h (alloc s) = Some ip \/ In ip (avail s)).
Proof.
  intros [P1 P2 P6 P3 P4]. unfold pool_alloc. destruct (alookup h (alloc s)) eqn:E.
  - intro H; inv H. split; [constructor; cbn; auto|]. repeat split; auto.
  - destruct (avail s) as [|x tl] eqn:Ea; [discriminate|]. intro H; inv H. inv P1.
    assert (Hx : ~ In ip (map snd (alloc s))) by (apply P3; now left).
    split; [constructor; cbn|split; [|split]; cbn].
    + assumption.
    + constructor; auto.
    + constructor; auto. now apply alookup_none.
    + intros v Hv [Hc|Hc]; [subst; auto|]. apply (P3 v); [now right|assumption].
    + intros v Hv. destruct (P4 v Hv) as [Q1 Q2]. split; [intro; apply Q1; now right|].
      intros [Hc|Hc]; [subst; apply Q1; now left|auto].
    + now rewrite N.eqb_refl.
    + intros h' Hn. destruct (h =? h') eqn:E2; [apply N.eqb_eq in E2; congruence|reflexivity].
    + right; now left.
Qed.

Lemma nodup_snoc {A} (l : list A) x : NoDup l -> ~ In x l -> NoDup (l ++ [x]).
Proof.
  induction 1 as [|y tl Hy Hd IH]; cbn; intro Hx; [constructor; [tauto|constructor]|].
  constructor; [|apply IH; tauto]. intro Hi. apply in_app_or in Hi. cbn in Hi. intuition congruence.
Qed.

Lemma pool_release_inv s ip : pool_inv s -> pool_inv (pool_release s ip).
Proof.
  intros [P1 P2 P6 P3 P4]. unfold pool_release. destruct (drop_first_val ip (alloc s)) eqn:E; [|constructor; auto].
  destruct (drop_first_val_split _ _ _ E) as (h & a1 & a2 & Ha & ->).
  assert (Hs : map snd (alloc s) = map snd a1 ++ ip :: map snd a2) by (rewrite Ha, map_app; reflexivity).
  assert (Hf : map fst (alloc s) = map fst a1 ++ h :: map fst a2) by (rewrite Ha, map_app; reflexivity).
  rewrite Hs in P2. rewrite Hf in P6.
  assert (Hin : forall v, In v (map snd (a1 ++ a2)) -> In v (map snd (alloc s))).
  { intros v Hv. rewrite Hs. rewrite map_app in Hv. apply in_app_or in Hv. apply in_or_app. cbn. tauto. }
  assert (Hip : In ip (map snd (alloc s))) by (rewrite Hs; apply in_or_app; right; now left).
  assert (Hnip : ~ In ip (map snd (a1 ++ a2))) by (rewrite map_app; now apply NoDup_remove_2 in P2).
  constructor; cbn.
  - apply nodup_snoc; auto. intro Hc. now apply (P3 ip Hc).
  - rewrite map_app. now apply NoDup_remove_1 in P2.
  - rewrite map_app. now apply NoDup_remove_1 in P6.
  - intros v Hv Hc. apply in_app_or in Hv. destruct Hv as [Hv|[Hv|[]]].
    + apply (P3 v Hv). auto.
    + subst. auto.
  - intros v Hv. destruct (P4 v Hv) as [Q1 Q2]. split.
    + intro Hc. apply in_app_or in Hc. destruct Hc as [Hc|[Hc|[]]]; [auto|subst; auto].
    + intro Hc. auto.
Qed.

Lemma pool_reserve_inv s m ip s' :
  pool_inv s -> pool_reserve s m ip = Some s' ->
  pool_inv s' /\ alookup m (alloc s') = Some ip /\ leases s' = leases s /\ cidx s' = cidx s /\
  unavail s' = unavail s /\ now s' = now s /\
  (forall h', h' <> m -> alookup h' (alloc s') = alookup h' (alloc s)) /\
  (alookup m (alloc s) = Some ip \/ In ip (avail s)).
Proof.
  intros Hp. pose proof Hp as [P1 P2 P6 P3 P4]. unfold pool_reserve. destruct (alookup m (alloc s)) as [cur|] eqn:E.
  - destruct (cur =? ip) eqn:Ec; [|discriminate]. apply N.eqb_eq in Ec. subst. intro H; inv H. split; [exact Hp|]. repeat split; auto.
  - destruct (memN ip (avail s)) eqn:Em; [|discriminate]. apply memN_in in Em. intro H; inv H. cbn.
    assert (Hx : ~ In ip (map snd (alloc s))) by now apply P3.
    split; [constructor; cbn|repeat split; cbn; auto].
    + now apply nodup_remove1.
    + constructor; auto.
    + constructor; auto. now apply alookup_none.
    + intros v Hv [Hc|Hc]; [subst; now apply (notin_remove1 v (avail s))|]. apply in_remove1 in Hv. now apply (P3 v).
    + intros v Hv. destruct (P4 v Hv) as [Q1 Q2]. split; [intro Hc; apply in_remove1 in Hc; auto|].
      intros [Hc|Hc]; [subst; auto|auto].
    + now rewrite N.eqb_refl.
    + intros h' Hn. destruct (m =? h') eqn:E2; [apply N.eqb_eq in E2; congruence|reflexivity].
Qed.

Lemma pool_mark_inv s d : pool_inv s -> pool_inv (pool_mark s d).
Proof.
  intros [P1 P2 P6 P3 P4]. constructor; cbn.
  - now apply nodup_remove1.
  - now apply nodup_map_filter.
  - now apply nodup_map_filter.
  - intros v Hv Hc. apply in_remove1 in Hv. apply (P3 v Hv). apply in_map_iff in Hc. destruct Hc as [p [Hp Hf]].
    apply filter_In in Hf. apply in_map_iff. exists p. tauto.
  - assert (Hd : ~ In d (remove1 d (avail s)) /\ ~ In d (map snd (filter (fun p => negb (snd p =? d)) (alloc s)))).
    { split; [now apply notin_remove1|]. intro Hc. apply in_map_iff in Hc. destruct Hc as [p [Hp Hf]].
      apply filter_In in Hf. destruct Hf as [_ Hf]. rewrite Hp, N.eqb_refl in Hf. discriminate. }
    assert (Hold : forall v, In v (unavail s) -> ~ In v (remove1 d (avail s)) /\
              ~ In v (map snd (filter (fun p => negb (snd p =? d)) (alloc s)))).
    { intros v Hv. destruct (P4 v Hv) as [Q1 Q2]. split; [intro Hc; apply in_remove1 in Hc; auto|].
      intro Hc. apply Q2. apply in_map_iff in Hc. destruct Hc as [p [Hp Hf]]. apply filter_In in Hf.
      apply in_map_iff. exists p. tauto. }
    intros v Hv. destruct (memN d (unavail s)); [auto|]. destruct Hv as [Hv|Hv]; [subst; auto|auto].
Qed.

Lemma init_pool_inv c : pool_inv (init4 c).
Proof.
  constructor; cbn; try constructor; try tauto.
  unfold init_avail. apply NoDup_filter. apply FinFun.Injective_map_NoDup; [|apply seq_NoDup].
  intros i j H. lia.
Qed.

(* guard of the _partial theorems: no relayed DISCOVER/REQUEST carries an option-82 circuit-id,
   i.e. lookupLeaseByCircuitID is never consulted *)
Definition op_guard (o : op4) : bool :=
  match o with
  | Discover m | Request m => negb (m_relay m && negb (m_cid m =? 0))
  | _ => true
  end.
Definition guard4 (ops : list op4) : bool := forallb op_guard ops.

Record lease_inv (s : state4) : Prop := {
  l_back : forall m l, alookup m (leases s) = Some l ->
             alookup m (alloc s) = Some (l_ip l) \/ In (l_ip l) (unavail s);
  l_inj : forall m1 m2 l1 l2, alookup m1 (leases s) = Some l1 -> alookup m2 (leases s) = Some l2 ->
             l_ip l1 = l_ip l2 -> m1 = m2 }.
Definition inv4 (s : state4) : Prop := pool_inv s /\ lease_inv s.

Lemma existing_guard s m : op_guard (Request m) = true ->
  existing s m = match alookup (m_mac m) (leases s) with Some l => Some (l, false) | None => None end.
Proof.
  cbn. unfold existing. intro H. destruct (alookup (m_mac m) (leases s)); [reflexivity|].
  destruct (m_relay m && negb (m_cid m =? 0)); [discriminate|reflexivity].
Qed.

(* "c holds v": a lease-table entry (expired or not) or a pool allocation (outstanding offer) *)
Definition holds (s : state4) (c v : N) : Prop :=
  (exists l, alookup c (leases s) = Some l /\ l_ip l = v) \/ alookup c (alloc s) = Some v.

(* a value the pool may hand to c *)
Definition grantable (s : state4) (c v : N) : Prop :=
  alookup c (alloc s) = Some v \/ In v (avail s) \/ (exists l, alookup c (leases s) = Some l /\ l_ip l = v).

Lemma grantable_exclusive s c v c' : inv4 s -> grantable s c v -> c' <> c -> ~ holds s c' v.
Proof.
  intros [[P1 P2 P6 P3 P4] [L3 L4]] Hg Hn Hh.
  assert (Hc' : In v (map snd (alloc s)) \/ In v (unavail s) -> alookup c' (alloc s) = Some v \/ In v (unavail s) \/ True) by tauto.
  assert (Hc'v : alookup c' (alloc s) = Some v \/ In v (unavail s)).
  { destruct Hh as [[l [Hl Hv]]|Hh]; [|now left]. subst v. apply (L3 _ _ Hl). }
  destruct Hg as [Hg|[Hg|[l [Hl Hv]]]].
  - destruct Hc'v as [Ha|Hu].
    + apply Hn. eapply lookup_vals_inj; eauto.
    + destruct (P4 v Hu) as [_ Q]. apply Q. eapply lookup_in_vals; eauto.
  - destruct Hc'v as [Ha|Hu].
    + apply (P3 v Hg). eapply lookup_in_vals; eauto.
    + destruct (P4 v Hu) as [Q _]. auto.
  - destruct Hh as [[l' [Hl' Hv']]|Hh].
    + apply Hn. eapply L4; eauto. congruence.
    + subst v. destruct (L3 _ _ Hl) as [Ha|Hu].
      * apply Hn. eapply lookup_vals_inj; eauto.
      * destruct (P4 _ Hu) as [_ Q]. apply Q. eapply lookup_in_vals; eauto.
Qed.

Definition op_client (o : op4) : N :=
  match o with Discover m | Request m | Release m | Decline m | Inform m => m_mac m | _ => 0 end.

(* every value the server OFFERs / ACKs is grantable to that client in the state before *)
Lemma reply_grantable c s o s' r mk v :
  pool_inv s -> op_guard o = true -> step4 c s o = (s', r, mk) -> reply_val r = Some v -> grantable s (op_client o) v.
Proof.
  intros Hp Hg Hs Hv. destruct o as [m|m|m|m|m|d|ord]; cbn in Hs; cbn [op_client].
  - rewrite (existing_guard s m Hg) in Hs. destruct (alookup (m_mac m) (leases s)) as [l|] eqn:El.
    + cbn [fst] in Hs. destruct (now s <? l_exp l).
      * inv Hs. inv Hv. right; right. eauto.
      * destruct (pool_alloc (m_mac m) (alloc s) (avail s)) as [[[ip a'] v']|] eqn:Ep; inv Hs; [|discriminate].
        inv Hv. destruct (pool_alloc_inv _ _ _ _ _ Hp Ep) as (_ & _ & _ & [H|H]); [now left|right; now left].
    + destruct (pool_alloc (m_mac m) (alloc s) (avail s)) as [[[ip a'] v']|] eqn:Ep; inv Hs; [|discriminate].
      inv Hv. destruct (pool_alloc_inv _ _ _ _ _ Hp Ep) as (_ & _ & _ & [H|H]); [now left|right; now left].
  - rewrite (existing_guard s m Hg) in Hs. destruct (alookup (m_mac m) (leases s)) as [l|] eqn:El.
    + cbn [fst] in Hs. destruct (l_ip l =? requested m) eqn:Eq; inv Hs; [|discriminate].
      inv Hv. apply N.eqb_eq in Eq. right; right. eauto.
    + destruct (negb (contains4 c (requested m))); [inv Hs; discriminate|].
      destruct (pool_reserve s (m_mac m) (requested m)) as [s1|] eqn:Er; inv Hs; [|discriminate].
      inv Hv. destruct (pool_reserve_inv _ _ _ _ Hp Er) as (_ & _ & _ & _ & _ & _ & _ & [H|H]); [now left|right; now left].
  - destruct (alookup (m_mac m) (leases s)); inv Hs; discriminate.
  - destruct (alookup (m_mac m) (leases s)); inv Hs; discriminate.
  - inv Hs. discriminate.
  - inv Hs. discriminate.
  - inv Hs. discriminate.
Qed.

Lemma pool_inv_ext s s' : alloc s' = alloc s -> avail s' = avail s -> unavail s' = unavail s -> pool_inv s -> pool_inv s'.
Proof. intros E1 E2 E3 [P1 P2 P6 P3 P4]. constructor; rewrite ?E1, ?E2, ?E3; auto. Qed.

Lemma lease_inv_mono s s' :
  (forall m l, alookup m (leases s') = Some l -> alookup m (leases s) = Some l) ->
  (forall m l, alookup m (leases s') = Some l -> alookup m (alloc s) = Some (l_ip l) \/ In (l_ip l) (unavail s) ->
               alookup m (alloc s') = Some (l_ip l) \/ In (l_ip l) (unavail s')) ->
  lease_inv s -> lease_inv s'.
Proof.
  intros Hsub Hb [L3 L4]. constructor.
  - intros m l Hl. apply Hb; auto.
  - intros m1 m2 l1 l2 H1 H2. apply L4; auto.
Qed.

Lemma notin_alookup {A} k (l : list (N * A)) : ~ In k (map fst l) -> alookup k l = None.
Proof.
  induction l as [|[k' v] tl IH]; cbn; [reflexivity|]. intro H. destruct (k' =? k) eqn:E.
  - apply N.eqb_eq in E. tauto.
  - apply IH. tauto.
Qed.

Lemma drop_first_lookup ip a a' m v :
  NoDup (map fst a) -> NoDup (map snd a) -> drop_first_val ip a = Some a' ->
  alookup m a = Some v -> v <> ip -> alookup m a' = Some v.
Proof.
  revert a'. induction a as [|[h x] tl IH]; cbn; [discriminate|]. intros a' Hk Hv. inv Hk. inv Hv.
  destruct (x =? ip) eqn:E.
  - apply N.eqb_eq in E. subst x. intro H; inv H. destruct (h =? m); [congruence|auto].
  - destruct (drop_first_val ip tl) eqn:E2; [|discriminate]. intro H; inv H. cbn.
    destruct (h =? m); [auto|]. intros. eapply IH; eauto.
Qed.

Lemma alookup_filter_keep (a : list (N * N)) g m v :
  NoDup (map fst a) -> alookup m a = Some v -> g (m, v) = true -> alookup m (filter g a) = Some v.
Proof.
  intros Hn Hl Hg. apply in_alookup; [now apply nodup_map_filter|]. apply filter_In. split; [now apply alookup_in|assumption].
Qed.

Lemma alookup_aremove_some {A} k k' (v : A) l : alookup k (aremove k' l) = Some v -> k <> k' /\ alookup k l = Some v.
Proof.
  intro H. destruct (N.eq_dec k k') as [->|Hn]; [rewrite alookup_aremove_eq in H; discriminate|].
  split; [assumption|]. now rewrite alookup_aremove_ne in H.
Qed.

(* releasing the address of m's lease, after the lease entry is gone *)
Lemma release_inv s m l : inv4 s -> alookup m (leases s) = Some l -> inv4 (pool_release (drop_lease s m l) (l_ip l)).
Proof.
  intros [Hp Hl] Hm. pose proof Hp as [P1 P2 P6 P3 P4]. pose proof Hl as [L3 L4].
  assert (Hp1 : pool_inv (drop_lease s m l)) by (eapply pool_inv_ext; [..|exact Hp]; reflexivity).
  split; [now apply pool_release_inv|].
  unfold pool_release. cbn [alloc drop_lease]. destruct (drop_first_val (l_ip l) (alloc s)) eqn:E.
  - eapply lease_inv_mono; [| |exact Hl]; cbn.
    + intros m' l' H. now apply alookup_aremove_some in H.
    + intros m' l' H Hb. apply alookup_aremove_some in H. destruct H as [Hn H]. destruct Hb as [Hb|Hb]; [|now right].
      left. eapply drop_first_lookup; eauto; try (intro Heq; apply Hn; eapply L4; eauto).
  - eapply lease_inv_mono; [| |exact Hl]; cbn.
    + intros m' l' H. now apply alookup_aremove_some in H.
    + intros m' l' H Hb. exact Hb.
Qed.

Lemma in_unavail_mark d v u : In v u -> In v (if memN d u then u else d :: u).
Proof. intro H. destruct (memN d u); [assumption|now right]. Qed.
Lemma in_unavail_mark_self d u : In d (if memN d u then u else d :: u).
Proof. destruct (memN d u) eqn:E; [now apply memN_in|now left]. Qed.

Lemma decline_inv s m l od : inv4 s -> alookup m (leases s) = Some l ->
  inv4 (match od with Some d => pool_mark (drop_lease s m l) d | None => drop_lease s m l end).
Proof.
  intros [Hp Hl] Hm. pose proof Hp as [P1 P2 P6 P3 P4].
  assert (Hp1 : pool_inv (drop_lease s m l)) by (eapply pool_inv_ext; [..|exact Hp]; reflexivity).
  destruct od as [d|].
  - split; [now apply pool_mark_inv|]. eapply lease_inv_mono; [| |exact Hl]; cbn.
    + intros m' l' H. now apply alookup_aremove_some in H.
    + intros m' l' H [Hb|Hb]; [|right; now apply in_unavail_mark].
      destruct (l_ip l' =? d) eqn:E.
      * apply N.eqb_eq in E. rewrite E. right. apply in_unavail_mark_self.
      * left. apply alookup_filter_keep; auto. cbn. now rewrite E.
  - split; [assumption|]. eapply lease_inv_mono; [| |exact Hl]; cbn; auto.
    intros m' l' H. now apply alookup_aremove_some in H.
Qed.

Lemma expire_one_inv s m : inv4 s -> inv4 (expire_one s m).
Proof.
  intro H. unfold expire_one. destruct (alookup m (leases s)) eqn:E; [|assumption].
  destruct (l_exp l <=? now s); [|assumption]. now apply release_inv.
Qed.
Lemma fold_expire_inv l s : inv4 s -> inv4 (fold_left expire_one l s).
Proof. revert s. induction l; cbn; auto using expire_one_inv. Qed.

Lemma add_alloc_inv s h ip a' v' :
  inv4 s -> pool_alloc h (alloc s) (avail s) = Some (ip, a', v') -> inv4 (with_pool s a' v' (unavail s)).
Proof.
  intros [Hp Hl] Ha. destruct (pool_alloc_inv _ _ _ _ _ Hp Ha) as (Hp' & Hh & Ho & _). split; [assumption|].
  eapply lease_inv_mono; [| |exact Hl]; cbn; auto.
  intros m l Hm [Hb|Hb]; [|now right]. left. destruct (N.eq_dec m h) as [->|Hn].
  - unfold pool_alloc in Ha. rewrite Hb in Ha. inv Ha. assumption.
  - now rewrite Ho.
Qed.

Lemma do_ack_inv c s m ex ip : inv4 s ->
  alookup (m_mac m) (alloc s) = Some ip \/ (exists l, alookup (m_mac m) (leases s) = Some l /\ l_ip l = ip) ->
  inv4 (do_ack c s m ex ip).
Proof.
  intros Hi Hg. pose proof Hi as [Hp [L3 L4]].
  split; [eapply pool_inv_ext; [..|exact Hp]; reflexivity|].
  assert (Hex : forall c', c' <> m_mac m -> ~ holds s c' ip).
  { intros c' Hn. eapply grantable_exclusive; eauto. destruct Hg as [Hg|Hg]; [now left|right; now right]. }
  constructor; unfold do_ack; cbn [leases alloc unavail].
  - intros m' l'. destruct (N.eq_dec m' (m_mac m)) as [->|Hn].
    + rewrite alookup_aset_eq. intro H; inv H. cbn. destruct Hg as [Hg|[l [Hl Hv]]]; [now left|]. subst ip. now apply L3.
    + rewrite alookup_aset_ne by assumption. apply L3.
  - intros m1 m2 l1 l2. destruct (N.eq_dec m1 (m_mac m)) as [->|Hn1]; destruct (N.eq_dec m2 (m_mac m)) as [->|Hn2]; auto.
    + rewrite alookup_aset_eq, alookup_aset_ne by assumption. intros H1 H2 He. inv H1. cbn in He.
      exfalso. apply (Hex m2 Hn2). left. eauto.
    + rewrite alookup_aset_eq, alookup_aset_ne by assumption. intros H1 H2 He. inv H2. cbn in He.
      exfalso. apply (Hex m1 Hn1). left. eauto.
    + rewrite !alookup_aset_ne by assumption. apply L4.
Qed.

Lemma reserve_inv s m ip s' : inv4 s -> pool_reserve s m ip = Some s' -> inv4 s' /\ alookup m (alloc s') = Some ip.
Proof.
  intros [Hp Hl] Hr. destruct (pool_reserve_inv _ _ _ _ Hp Hr) as (Hp' & Hm & El & _ & Eu & _ & Ho & _).
  split; [|assumption]. split; [assumption|]. eapply lease_inv_mono; [| |exact Hl].
  - intros m' l. now rewrite El.
  - intros m' l H [Hb|Hb]; [|right; now rewrite Eu]. left. destruct (N.eq_dec m' m) as [->|Hn]; [|now rewrite Ho].
    unfold pool_reserve in Hr. rewrite Hb in Hr. destruct (l_ip l =? ip) eqn:E; [|discriminate]. apply N.eqb_eq in E. now rewrite E.
Qed.

Lemma step_inv c s o : inv4 s -> op_guard o = true -> inv4 (step4s c s o).
Proof.
  intros Hi Hg. unfold step4s. destruct (step4 c s o) as [[s' r] mk] eqn:Hs. cbn.
  destruct o as [m|m|m|m|m|d|ord]; cbn in Hs.
  - rewrite (existing_guard s m Hg) in Hs. destruct (alookup (m_mac m) (leases s)) as [l|] eqn:El.
    + cbn [fst] in Hs. destruct (now s <? l_exp l); [inv Hs; assumption|].
      destruct (pool_alloc (m_mac m) (alloc s) (avail s)) as [[[ip a'] v']|] eqn:Ep; inv Hs; [|assumption].
      eapply add_alloc_inv; eauto.
    + destruct (pool_alloc (m_mac m) (alloc s) (avail s)) as [[[ip a'] v']|] eqn:Ep; inv Hs; [|assumption].
      eapply add_alloc_inv; eauto.
  - rewrite (existing_guard s m Hg) in Hs. destruct (alookup (m_mac m) (leases s)) as [l|] eqn:El.
    + cbn [fst] in Hs. destruct (l_ip l =? requested m) eqn:Eq; inv Hs; [|assumption].
      apply N.eqb_eq in Eq. apply do_ack_inv; [assumption|]. right. eauto.
    + destruct (negb (contains4 c (requested m))); [inv Hs; assumption|].
      destruct (pool_reserve s (m_mac m) (requested m)) as [s1|] eqn:Er; inv Hs; [|assumption].
      destruct (reserve_inv _ _ _ _ Hi Er) as [Hi1 Ha]. apply do_ack_inv; [assumption|now left].
  - destruct (alookup (m_mac m) (leases s)) eqn:E; inv Hs; [|assumption]. now apply release_inv.
  - destruct (alookup (m_mac m) (leases s)) eqn:E; inv Hs; [|assumption]. now apply decline_inv.
  - inv Hs. assumption.
  - inv Hs. destruct Hi as [Hp Hl]. split; [eapply pool_inv_ext; [..|exact Hp]; reflexivity|].
    eapply lease_inv_mono; [| |exact Hl]; cbn; auto.
  - inv Hs. now apply fold_expire_inv.
Qed.

Lemma init_inv c : inv4 (init4 c).
Proof. split; [apply init_pool_inv|]. constructor; cbn; intros; discriminate. Qed.

Lemma run_inv c ops : guard4 ops = true -> inv4 (run4 c ops).
Proof.
  unfold run4. generalize (init_inv c). generalize (init4 c). induction ops as [|o tl IH]; cbn; intros s0 H0 Hg; [assumption|].
  apply andb_true_iff in Hg. destruct Hg as [Hg1 Hg2]. apply IH; [|assumption]. now apply step_inv.
Qed.

(* (a) under the guard: an OFFER/ACK value is not held (leased, even expired-uncleaned, or offered) by another client *)
Lemma v4_a_partial c ops o s' r mk v c' :
  guard4 (ops ++ [o]) = true ->
  step4 c (run4 c ops) o = (s', r, mk) -> reply_val r = Some v -> c' <> op_client o ->
  ~ holds (run4 c ops) c' v.
Proof.
  intros Hg Hs Hv Hn. unfold guard4 in Hg. rewrite forallb_app in Hg. apply andb_true_iff in Hg. destruct Hg as [Hg1 Hg2].
  cbn in Hg2. rewrite andb_true_r in Hg2. pose proof (run_inv c ops Hg1) as Hi.
  eapply grantable_exclusive; eauto. eapply reply_grantable; eauto. apply Hi.
Qed.

(* (b) under the guard: at most one lease-table entry per address *)
Lemma v4_b_partial c ops m1 m2 l1 l2 :
  guard4 ops = true ->
  alookup m1 (leases (run4 c ops)) = Some l1 -> alookup m2 (leases (run4 c ops)) = Some l2 ->
  l_ip l1 = l_ip l2 -> m1 = m2.
Proof. intros Hg. destruct (run_inv c ops Hg) as [_ [_ L4]]. apply L4. Qed.

(* v is out of service: marked unavailable and in no lease-table entry *)
Definition dead (s : state4) (v : N) : Prop :=
  In v (unavail s) /\ forall m l, alookup m (leases s) = Some l -> l_ip l <> v.

Lemma pool_release_unavail s ip : unavail (pool_release s ip) = unavail s.
Proof. unfold pool_release. destruct (drop_first_val ip (alloc s)); reflexivity. Qed.
Lemma pool_release_leases s ip : leases (pool_release s ip) = leases s.
Proof. unfold pool_release. destruct (drop_first_val ip (alloc s)); reflexivity. Qed.

Lemma expire_one_dead s m v : dead s v -> dead (expire_one s m) v.
Proof.
  intros [Hu Hl]. unfold expire_one. destruct (alookup m (leases s)) eqn:E; [|split; assumption].
  destruct (l_exp l <=? now s); [|split; assumption]. split.
  - now rewrite pool_release_unavail.
  - rewrite pool_release_leases. cbn. intros m' l' H. apply alookup_aremove_some in H. apply (Hl m' l'). tauto.
Qed.
Lemma fold_expire_dead l s v : dead s v -> dead (fold_left expire_one l s) v.
Proof. revert s. induction l; cbn; auto using expire_one_dead. Qed.

Lemma step_dead c s o s' r mk v :
  inv4 s -> op_guard o = true -> dead s v -> step4 c s o = (s', r, mk) ->
  dead s' v /\ reply_val r <> Some v.
Proof.
  intros Hi Hg Hd Hs. pose proof Hi as [Hp _]. pose proof Hd as [Hu Hl].
  assert (Hr : reply_val r <> Some v).
  { intro Hv. pose proof (reply_grantable _ _ _ _ _ _ _ Hp Hg Hs Hv) as Hgr. destruct Hp as [_ _ _ _ P4].
    destruct (P4 v Hu) as [Q1 Q2]. destruct Hgr as [H|[H|[l [H1 H2]]]].
    - apply Q2. eapply lookup_in_vals; eauto.
    - auto.
    - apply (Hl _ _ H1 H2). }
  split; [|assumption].
  destruct o as [m|m|m|m|m|d|ord]; cbn in Hs.
  - destruct (existing s m) as [e|].
    + destruct (now s <? l_exp (fst e)); [inv Hs; assumption|].
      destruct (pool_alloc (m_mac m) (alloc s) (avail s)) as [[[ip a'] v']|]; inv Hs; split; assumption.
    + destruct (pool_alloc (m_mac m) (alloc s) (avail s)) as [[[ip a'] v']|]; inv Hs; split; assumption.
  - assert (Hack : forall s1 ex ip, dead s1 v -> ip <> v -> dead (do_ack c s1 m ex ip) v).
    { intros s1 ex ip [Hu1 Hl1] Hne. split; [assumption|]. unfold do_ack. cbn [leases]. intros m' l'.
      destruct (N.eq_dec m' (m_mac m)) as [->|Hn].
      - rewrite alookup_aset_eq. intro H; inv H. assumption.
      - rewrite alookup_aset_ne by assumption. apply Hl1. }
    destruct (existing s m) as [e|].
    + destruct (l_ip (fst e) =? requested m); inv Hs; [|assumption]. apply Hack; [assumption|]. cbn in Hr. congruence.
    + destruct (negb (contains4 c (requested m))); [inv Hs; assumption|].
      destruct (pool_reserve s (m_mac m) (requested m)) as [s1|] eqn:Er; inv Hs; [|assumption].
      destruct (pool_reserve_inv _ _ _ _ Hp Er) as (_ & _ & El & _ & Eu & _).
      apply Hack; [split; [now rewrite Eu|now rewrite El]|]. cbn in Hr. congruence.
  - destruct (alookup (m_mac m) (leases s)) eqn:E; inv Hs; [|assumption]. split.
    + now rewrite pool_release_unavail.
    + rewrite pool_release_leases. cbn. intros m' l' H. apply alookup_aremove_some in H. apply (Hl m' l'). tauto.
  - destruct (alookup (m_mac m) (leases s)) eqn:E; inv Hs; [|assumption].
    assert (Hl' : forall m' l', alookup m' (aremove (m_mac m) (leases s)) = Some l' -> l_ip l' <> v).
    { intros m' l' H. apply alookup_aremove_some in H. apply (Hl m' l'). tauto. }
    destruct (m_req m); split; cbn; auto. now apply in_unavail_mark.
  - inv Hs. assumption.
  - inv Hs. split; assumption.
  - inv Hs. now apply fold_expire_dead.
Qed.

(* (e) under the guard: once the holder of a lease on v declines v, v is never offered or
   acknowledged again, whatever (guarded) messages follow *)
Lemma v4_e_partial c ops1 ops2 m l o s' r mk :
  guard4 (ops1 ++ Decline m :: ops2 ++ [o]) = true ->
  alookup (m_mac m) (leases (run4 c ops1)) = Some l -> m_req m = Some (l_ip l) ->
  step4 c (run4 c (ops1 ++ Decline m :: ops2)) o = (s', r, mk) ->
  reply_val r <> Some (l_ip l).
Proof.
  intros Hg Hl Hreq Hs. unfold guard4 in Hg. rewrite forallb_app in Hg. apply andb_true_iff in Hg. destruct Hg as [G1 G2].
  cbn in G2. rewrite forallb_app in G2. apply andb_true_iff in G2. destruct G2 as [G2 G3]. cbn in G3. rewrite andb_true_r in G3.
  pose proof (run_inv c ops1 G1) as Hi1. set (s1 := run4 c ops1) in *.
  assert (Hrun : run4 c (ops1 ++ Decline m :: ops2) = fold_left (step4s c) ops2 (step4s c s1 (Decline m))).
  { unfold run4. rewrite fold_left_app. reflexivity. }
  rewrite Hrun in Hs. set (s2 := step4s c s1 (Decline m)) in *.
  assert (Hi2 : inv4 s2) by (apply step_inv; auto).
  assert (Hd2 : dead s2 (l_ip l)).
  { subst s2. unfold step4s. cbn. rewrite Hl, Hreq. cbn. split; [apply in_unavail_mark_self|].
    intros m' l' H. apply alookup_aremove_some in H. destruct H as [Hn H]. intro He. apply Hn.
    destruct Hi1 as [_ [_ L4]]. eapply L4; eauto. }
  clearbody s2. clear Hrun. revert s2 Hi2 Hd2 Hs. induction ops2 as [|o2 tl IH]; cbn; intros s2 Hi2 Hd2 Hs.
  - eapply step_dead; eauto.
  - cbn in G2. apply andb_true_iff in G2. destruct G2 as [Ga Gb]. apply (IH Gb (step4s c s2 o2)); auto.
    + now apply step_inv.
    + unfold step4s. destruct (step4 c s2 o2) as [[s3 r3] mk3] eqn:E3. cbn. exact (proj1 (step_dead _ _ _ _ _ _ _ Hi2 Ga Hd2 E3)).
Qed.

(* (f) release, under the guard: the released address is back on the free list (or was declined) *)
Lemma v4_f_release_partial c ops m l :
  guard4 ops = true -> alookup (m_mac m) (leases (run4 c ops)) = Some l ->
  let s' := step4s c (run4 c ops) (Release m) in
  alookup (m_mac m) (leases s') = None /\ (In (l_ip l) (avail s') \/ In (l_ip l) (unavail s')).
Proof.
  intros Hg Hl. destruct (run_inv c ops Hg) as [Hp [L3 L4]]. unfold step4s. cbn. rewrite Hl. cbn. split.
  - rewrite pool_release_leases. cbn. apply alookup_aremove_eq.
  - unfold pool_release. cbn [alloc drop_lease]. destruct (drop_first_val (l_ip l) (alloc (run4 c ops))) eqn:E; cbn.
    + left. apply in_or_app. right. now left.
    + apply drop_first_val_none in E. destruct (L3 _ _ Hl) as [H|H]; [exfalso; apply E; eapply lookup_in_vals; eauto|now right].
Qed.

(* (f) expiry, under the guard: after a cleanup tick no expired lease is left *)
Lemma expire_keeps s m m' l' : alookup m' (leases (expire_one s m)) = Some l' ->
  alookup m' (leases s) = Some l' /\ (m' = m -> now s < l_exp l').
Proof.
  unfold expire_one. destruct (alookup m (leases s)) eqn:E.
  - destruct (l_exp l <=? now s) eqn:Ex.
    + rewrite pool_release_leases. cbn. intro H. apply alookup_aremove_some in H. destruct H as [Hn H]. split; [assumption|tauto].
    + intro H. split; [assumption|]. intros ->. rewrite E in H. inv H. lia.
  - intro H. split; [assumption|]. intros ->. congruence.
Qed.
Lemma expire_one_now s m : now (expire_one s m) = now s.
Proof.
  unfold expire_one. destruct (alookup m (leases s)); [|reflexivity]. destruct (l_exp l <=? now s); [|reflexivity].
  unfold pool_release. cbn. destruct (drop_first_val (l_ip l) (alloc s)); reflexivity.
Qed.
Lemma fold_expire_keeps ms s m' l' : alookup m' (leases (fold_left expire_one ms s)) = Some l' ->
  alookup m' (leases s) = Some l' /\ (In m' ms -> now s < l_exp l') /\ now (fold_left expire_one ms s) = now s.
Proof.
  revert s. induction ms as [|m tl IH]; cbn; intros s H; [tauto|].
  destruct (IH _ H) as (H1 & H2 & H3). destruct (expire_keeps _ _ _ _ H1) as [H4 H5]. rewrite expire_one_now in *.
  repeat split; auto. intros [->|Hi]; auto.
Qed.
Lemma v4_f_expiry c ops ord m l :
  alookup m (leases (step4s c (run4 c ops) (Cleanup ord))) = Some l ->
  now (run4 c ops) < l_exp l.
Proof.
  unfold step4s. cbn. intro H. destruct (fold_expire_keeps _ _ _ _ H) as (H1 & H2 & _). apply H2.
  apply in_or_app. right. apply alookup_in in H1. now apply (in_map fst) in H1.
Qed.

(* (d) renewing an own unexpired binding: the REQUEST is ACKed with the same address and the
   binding keeps it.  The state is the one reached by ANY history. *)
Lemma v4_renew_same : forall c ops m l,
  alookup (m_mac m) (leases (run4 c ops)) = Some l ->
  now (run4 c ops) < l_exp l ->
  requested m = l_ip l ->
  exists s' mk, step4 c (run4 c ops) (Request m) = (s', RAck (l_ip l), mk) /\
    exists l', alookup (m_mac m) (leases s') = Some l' /\ l_ip l' = l_ip l.
Proof.
  intros c ops m l Hl _ Hr. unfold step4, existing. rewrite Hl. cbn [fst snd]. rewrite Hr, N.eqb_refl.
  eexists _, _. split; [reflexivity|]. unfold do_ack, aset. cbn [leases alookup]. rewrite N.eqb_refl.
  eexists. split; reflexivity.
Qed.

(* ---- witnesses (corpus/C02/k02a-circuit-id-second-mac.json) ---- *)
Definition w_cfg : cfg4 := {| c_net := 167773952; c_size := 4; c_gw := 167774465; c_lt := 100 |}.
Definition w_m (mac : N) (req : option N) (relay : bool) (cid : N) : msg4 :=
  {| m_mac := mac; m_req := req; m_ci := 0; m_relay := relay; m_cid := cid |}.
Definition w_ops : list op4 :=
  [Discover (w_m 1 None false 0); Request (w_m 1 (Some 167773953) true 1)].

Lemma v4_a_refuted : exists c ops o s' r mk v c',
  step4 c (run4 c ops) o = (s', r, mk) /\ reply_val r = Some v /\ c' <> op_client o /\ holds (run4 c ops) c' v.
Proof.
  exists w_cfg, w_ops, (Discover (w_m 2 None true 1)). eexists _, _, _, 167773953, 1.
  split; [vm_compute; reflexivity|]. split; [reflexivity|]. split; [discriminate|]. right. vm_compute. reflexivity.
Qed.

Lemma v4_b_refuted : exists c ops m1 m2 l1 l2,
  alookup m1 (leases (run4 c ops)) = Some l1 /\ alookup m2 (leases (run4 c ops)) = Some l2 /\
  l_ip l1 = l_ip l2 /\ m1 <> m2 /\ now (run4 c ops) < l_exp l1 /\ now (run4 c ops) < l_exp l2.
Proof.
  exists w_cfg, (w_ops ++ [Request (w_m 2 (Some 167773953) true 1)]), 1, 2. eexists _, _.
  split; [vm_compute; reflexivity|]. split; [vm_compute; reflexivity|]. split; [reflexivity|]. split; [discriminate|].
  split; vm_compute; reflexivity.
Qed.

(* the holder declines its address; another MAC that obtained it through the circuit-ID index is offered it again *)
Lemma v4_e_refuted : exists c ops1 ops2 m l o s' r mk,
  alookup (m_mac m) (leases (run4 c ops1)) = Some l /\ m_req m = Some (l_ip l) /\
  step4 c (run4 c (ops1 ++ Decline m :: ops2)) o = (s', r, mk) /\ reply_val r = Some (l_ip l).
Proof.
  exists w_cfg, (w_ops ++ [Request (w_m 2 (Some 167773953) true 1)]), [], (w_m 1 (Some 167773953) false 0).
  eexists _, (Discover (w_m 2 None false 0)), _, _, _.
  split; [vm_compute; reflexivity|]. split; [reflexivity|]. split; vm_compute; reflexivity.
Qed.

Example v4_guard_satisfiable :
  guard4 [Discover (w_m 1 None false 0); Request (w_m 1 (Some 167773953) false 1); Discover (w_m 2 None true 0);
          Decline (w_m 1 (Some 167773953) false 0); Advance 101; Cleanup []] = true /\
  exists l, alookup 1 (leases (run4 w_cfg [Discover (w_m 1 None false 0); Request (w_m 1 (Some 167773953) false 1)])) = Some l
            /\ l_ip l = 167773953.
Proof. split; [reflexivity|]. eexists. split; vm_compute; reflexivity. Qed.

