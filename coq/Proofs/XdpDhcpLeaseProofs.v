(* C03 - the lease-table layer of Model/XdpDhcp.v ([slow_step]) over ALL message histories:
   - a subscriber_pools key that no event writes stays absent ([sub_absent_steps]), hence a client whose
     binding went and that was not ACKed since is passed to userspace ([gone_stays_gone]);
   - every subscriber_pools entry belongs to a lease of the lease table ([sub_has_lease], invariant of
     every history of handled messages), hence "userspace holds no lease whose hardware address maps to
     this key" implies the fast path does not answer ([no_lease_not_answered]). *)
From Coq Require Import NArith List Bool Lia.
From Verif Require Import Base.Word Model.XdpDhcp Proofs.XdpDhcpProofs.
Import ListNotations.
Local Open Scope N_scope.

Lemma beq_false a b : a <> b -> bytes_eqb a b = false.
Proof. intros H. destruct (bytes_eqb a b) eqn:E; [apply bytes_eqb_eq in E; contradiction|reflexivity]. Qed.
Lemma beq_true a : bytes_eqb a a = true.
Proof. apply bytes_eqb_eq. reflexivity. Qed.

(* ---- rawmap algebra ---- *)
Lemma lookup_mput_ne k k' v l : k' <> k -> lookup k (mput k' v l) = lookup k l.
Proof.
  intros N. induction l as [|[a b] tl IH]; cbn.
  - rewrite (beq_false k' k N). reflexivity.
  - destruct (bytes_eqb a k') eqn:E1.
    + apply bytes_eqb_eq in E1. subst a. cbn. rewrite (beq_false k' k N). reflexivity.
    + destruct (lex_ltb k' a); cbn.
      * rewrite (beq_false k' k N). reflexivity.
      * destruct (bytes_eqb a k); [reflexivity|exact IH].
Qed.

Lemma lookup_mdel_none k k' l : lookup k l = None -> lookup k (mdel k' l) = None.
Proof.
  induction l as [|[a b] tl IH]; cbn; [auto|].
  destruct (bytes_eqb a k) eqn:E; [discriminate|]. intros H.
  destruct (negb (bytes_eqb a k')); cbn; [rewrite E|]; auto.
Qed.

Lemma lookup_mdel_ne k k' l : k' <> k -> lookup k (mdel k' l) = lookup k l.
Proof.
  intros N. induction l as [|[a b] tl IH]; cbn; [auto|].
  destruct (bytes_eqb a k') eqn:E1; cbn.
  - apply bytes_eqb_eq in E1. subst a. rewrite (beq_false k' k N). exact IH.
  - destruct (bytes_eqb a k); [reflexivity|exact IH].
Qed.

Lemma lookup_age_none k d l : lookup k l = None -> lookup k (age_map d l) = None.
Proof.
  induction l as [|[a b] tl IH]; cbn; [auto|]. destruct (bytes_eqb a k); [discriminate|auto].
Qed.
Lemma lookup_age_some k d l : lookup k (age_map d l) <> None -> lookup k l <> None.
Proof. intros H C. apply H. apply lookup_age_none. exact C. Qed.

(* ---- a key nobody writes stays absent ---- *)
Definition writes_sub (k : bytes) (e : gev) : bool :=
  match e with GAck mac _ _ _ _ _ _ => bytes_eqb (go_mac_key mac) k | _ => false end.

Lemma sub_absent_step m e k :
  writes_sub k e = false -> lookup k (m_sub m) = None -> lookup k (m_sub (fst (cache_step m e))) = None.
Proof.
  intros W H. destruct e; cbn [cache_step fst set_maps m_sub]; auto.
  - cbn in W. rewrite lookup_mput_ne; [exact H|]. intros E. rewrite E, beq_true in W. discriminate.
  - apply lookup_mdel_none. exact H.
  - apply lookup_mdel_none. exact H.
  - apply lookup_mdel_none. exact H.
  - destruct (lookup (go_mac_key mac) (m_sub m)); cbn; exact H.
  - apply lookup_age_none. exact H.
Qed.

Lemma sub_absent_steps es : forall m k,
  forallb (fun e => negb (writes_sub k e)) es = true -> lookup k (m_sub m) = None ->
  lookup k (m_sub (cache_steps m es)) = None.
Proof.
  induction es as [|e tl IH]; cbn; intros m k W H; [exact H|].
  apply andb_prop in W. destruct W as [W1 W2]. apply IH; [exact W2|].
  apply sub_absent_step; [|exact H]. destruct (writes_sub k e); [discriminate|reflexivity].
Qed.

(* the vlan and circuit-id maps do not matter for an untagged request without circuit-id *)
Lemma find_by_mac m f p ch :
  p_tagged p = false -> extract_cid f (p_dhcp p + 240) = Some None ->
  rd f (p_dhcp p + 28) 6 = Some ch -> lookup (rev ch ++ [0; 0]) (m_sub m) = None ->
  find_assignment m f p = Some None.
Proof. intros T C R L. unfold find_assignment. rewrite T, C, R, L. reflexivity. Qed.

(* after the binding of [mac] went (release / decline / sweep), whatever happens next that is not an
   ACK for a hardware address with the same key, the client's untagged requests are passed unchanged *)
Lemma gone_stays_gone m mac cid e es now unow f p ch :
  e = GRelease mac cid \/ e = GDecline mac cid \/ e = GExpire mac cid ->
  forallb (fun x => negb (writes_sub (go_mac_key mac) x)) es = true ->
  parse f = Parsed p -> p_tagged p = false -> extract_cid f (p_dhcp p + 240) = Some None ->
  rd f (p_dhcp p + 28) 6 = Some ch -> rev ch ++ [0; 0] = go_mac_key mac ->
  forall v r mk, xdp (cache_steps (fst (cache_step m e)) es) now unow f = Done v r mk -> v = XDP_PASS /\ r = f.
Proof.
  intros He W Ep T C R K v r mk H.
  eapply no_entry_pass; [exact Ep| |exact H].
  eapply find_by_mac; eauto. rewrite K. apply sub_absent_steps; [exact W|].
  destruct (gone_entries m mac cid e He) as [G _]. exact G.
Qed.

(* ---- association lists of the lease table ---- *)
Section A.
  Context {A : Type}.
  Lemma aget_aput_eq k (v : A) l : aget k (aput k v l) = Some v.
  Proof.
    induction l as [|[a b] tl IH]; cbn; [rewrite beq_true; reflexivity|].
    destruct (bytes_eqb a k) eqn:E; cbn; [rewrite beq_true; reflexivity|].
    destruct (lex_ltb k a); cbn; [rewrite beq_true; reflexivity|]. rewrite E. exact IH.
  Qed.
  Lemma aget_aput_ne k k' (v : A) l : k' <> k -> aget k (aput k' v l) = aget k l.
  Proof.
    intros N. induction l as [|[a b] tl IH]; cbn; [rewrite (beq_false k' k N); reflexivity|].
    destruct (bytes_eqb a k') eqn:E1.
    - apply bytes_eqb_eq in E1. subst a. cbn. rewrite (beq_false k' k N). reflexivity.
    - destruct (lex_ltb k' a); cbn.
      + rewrite (beq_false k' k N). reflexivity.
      + destruct (bytes_eqb a k); [reflexivity|exact IH].
  Qed.
  Lemma aget_adel_ne k k' (l : list (bytes * A)) : k' <> k -> aget k (adel k' l) = aget k l.
  Proof.
    intros N. induction l as [|[a b] tl IH]; cbn; [auto|].
    destruct (bytes_eqb a k') eqn:E1; cbn.
    - apply bytes_eqb_eq in E1. subst a. rewrite (beq_false k' k N). exact IH.
    - destruct (bytes_eqb a k); [reflexivity|exact IH].
  Qed.
End A.

(* ---- every subscriber_pools entry belongs to a lease ---- *)
Definition sub_has_lease (s : state) : Prop :=
  forall k, lookup k (m_sub (s_m s)) <> None ->
    exists hw l, aget hw (lt_leases (s_l s)) = Some l /\ go_mac_key hw = k.

(* the messages and configuration events of a running server: everything except cache writes that
   bypass the lease table (harness-written maps, the harness' VLAN entries) *)
Definition served (o : op) : bool :=
  match o with
  | Sv _ => true
  | Ev (GPool _) | Ev (GConfig _ _ _) | Ev (GAge _) => true
  | Snap | Probe _ _ _ _ => true
  | _ => false
  end.

Lemma lookup_mput_some k k' v l : lookup k (mput k' v l) <> None -> k' = k \/ lookup k l <> None.
Proof.
  intros H. destruct (bytes_eqb k' k) eqn:E; [left; apply bytes_eqb_eq; exact E|right].
  rewrite lookup_mput_ne in H; [exact H|]. intros C. rewrite C, beq_true in E. discriminate.
Qed.
Lemma lookup_mdel_some k k' l : lookup k (mdel k' l) <> None -> k' <> k /\ lookup k l <> None.
Proof.
  intros H. destruct (bytes_eqb k' k) eqn:E.
  - apply bytes_eqb_eq in E. subst k'. rewrite lookup_mdel in H. contradiction.
  - assert (N : k' <> k) by (intros C; rewrite C, beq_true in E; discriminate).
    rewrite lookup_mdel_ne in H; auto.
Qed.

Lemma end_lease_inv s hw ev :
  (forall m mac cid, m_sub (fst (cache_step m (ev mac cid))) = mdel (go_mac_key mac) (m_sub m)) ->
  sub_has_lease s ->
  let '(t, es) := end_lease (s_l s) hw ev in
  sub_has_lease {| s_m := cache_steps (s_m s) es; s_l := t |}.
Proof.
  intros Hev I. unfold end_lease. destruct (aget hw (lt_leases (s_l s))) as [l|] eqn:E.
  - intros k Hk. cbn [cache_steps s_m s_l lt_leases] in *. rewrite Hev in Hk.
    apply lookup_mdel_some in Hk. destruct Hk as [N Hk].
    destruct (I k Hk) as (hw0 & l0 & G & K). exists hw0, l0. split; [|exact K].
    rewrite aget_adel_ne; [exact G|]. intros C. subst hw0. contradiction.
  - cbn [cache_steps]. destruct s. exact I.
Qed.

Lemma sack_shape t hw ip pool vlan class ex cidreq relayed :
  exists t' drop cid l',
    slow_step t (SAck hw ip pool vlan class ex cidreq relayed) = (t', drop ++ [GAck hw ip pool vlan class ex cid])
    /\ lt_leases t' = aput hw l' (lt_leases t) /\ (drop = [] \/ exists c, drop = [GDropCid c]).
Proof.
  unfold slow_step. cbv zeta.
  match goal with |- context [let '(ix, drop) := ?X in _] => destruct X as [ix drop] eqn:EX end.
  do 4 eexists. split; [reflexivity|]. split; [reflexivity|].
  revert EX.
  repeat match goal with |- context [match ?Y with _ => _ end] => destruct Y end; intros EX; inversion EX; eauto.
Qed.

Lemma served_step_inv s o : served o = true -> sub_has_lease s -> sub_has_lease (fst (fst (step s o))).
Proof.
  intros Sv I. destruct o as [e|e| | | |]; try discriminate; cbn [step].
  - (* Ev: pool / config / age *)
    destruct e; try discriminate; cbn [cache_step fst set_maps]; intros k Hk; cbn [s_m s_l m_sub] in *.
    + exact (I k Hk).
    + exact (I k Hk).
    + apply lookup_age_some in Hk. exact (I k Hk).
  - (* Sv *)
    destruct e as [hw ip pool vlan class ex cidreq relayed|hw|hw|hw].
    + destruct (sack_shape (s_l s) hw ip pool vlan class ex cidreq relayed) as (t' & drop & cid & l' & E & L & Hd).
      rewrite E. cbn [fst]. intros k Hk. cbn [s_m s_l] in *. rewrite L.
      assert (D : m_sub (cache_steps (s_m s) (drop ++ [GAck hw ip pool vlan class ex cid])) =
                  mput (go_mac_key hw) (go_assignment pool ip vlan class ex) (m_sub (s_m s)))
        by (destruct Hd as [->|[c ->]]; reflexivity).
      rewrite D in Hk. apply lookup_mput_some in Hk. destruct Hk as [<-|Hk].
      * exists hw, l'. split; [apply aget_aput_eq|reflexivity].
      * destruct (I k Hk) as (hw0 & l0 & G & K).
        destruct (bytes_eqb hw hw0) eqn:Eh.
        -- apply bytes_eqb_eq in Eh. subst hw0. exists hw, l'. split; [apply aget_aput_eq|exact K].
        -- exists hw0, l0. split; [|exact K]. rewrite aget_aput_ne; [exact G|].
           intros C. rewrite C, beq_true in Eh. discriminate.
    + cbn [slow_step]. pose proof (end_lease_inv s hw GRelease (fun _ _ _ => eq_refl) I) as H.
      destruct (end_lease (s_l s) hw GRelease). exact H.
    + cbn [slow_step]. pose proof (end_lease_inv s hw GDecline (fun _ _ _ => eq_refl) I) as H.
      destruct (end_lease (s_l s) hw GDecline). exact H.
    + cbn [slow_step]. pose proof (end_lease_inv s hw GExpire (fun _ _ _ => eq_refl) I) as H.
      destruct (end_lease (s_l s) hw GExpire). exact H.
  - (* Snap *) exact I.
  - (* Probe *) destruct (xdp (s_m s) now unow f); exact I.
Qed.

Definition run_ops (s : state) (ops : list op) : state :=
  fold_left (fun s o => fst (fst (step s o))) ops s.

Lemma init_inv : sub_has_lease init.
Proof. intros k H. cbn in H. contradiction. Qed.

Lemma sub_has_lease_always ops : forallb served ops = true -> sub_has_lease (run_ops init ops).
Proof.
  intros H. unfold run_ops. revert H. generalize init_inv. generalize init.
  induction ops as [|o tl IH]; cbn; intros s I H; [exact I|].
  apply andb_prop in H. destruct H as [H1 H2]. apply IH; [|exact H2]. apply served_step_inv; assumption.
Qed.

(* the clause the DECLINE seed breaks, over every history of handled messages: when the lease table
   holds no lease whose hardware address maps to the request's six-byte key, an untagged request without
   circuit-id is not answered *)
Lemma no_lease_not_answered ops now unow f p ch :
  forallb served ops = true ->
  let s := run_ops init ops in
  (forall hw l, aget hw (lt_leases (s_l s)) = Some l -> go_mac_key hw <> rev ch ++ [0; 0]) ->
  parse f = Parsed p -> p_tagged p = false -> extract_cid f (p_dhcp p + 240) = Some None ->
  rd f (p_dhcp p + 28) 6 = Some ch ->
  forall v r mk, xdp (s_m s) now unow f = Done v r mk -> v = XDP_PASS /\ r = f.
Proof.
  intros Hs s NL Ep T C R v r mk H.
  eapply no_entry_pass; [exact Ep| |exact H].
  eapply find_by_mac; eauto.
  destruct (lookup (rev ch ++ [0; 0]) (m_sub (s_m s))) eqn:E; [|reflexivity].
  exfalso. destruct (sub_has_lease_always ops Hs (rev ch ++ [0; 0])) as (hw & l & G & K).
  - fold s. rewrite E. discriminate.
  - exact (NL hw l G K).
Qed.

(* non-vacuity: a history with a live lease (entry present) and one where the DECLINE removed it *)
Definition ex_ack : op := Sv (SAck [2; 0; 94; 16; 0; 17] [10; 0; 0; 10] 1 0 1 2000000000 [] false).
Example ex_entry_present :
  lookup (go_mac_key [2; 0; 94; 16; 0; 17]) (m_sub (s_m (run_ops init [ex_ack]))) <> None.
Proof. vm_compute. discriminate. Qed.
Example ex_declined_no_lease :
  lt_leases (s_l (run_ops init [ex_ack; Sv (SDecline [2; 0; 94; 16; 0; 17])])) = [] /\
  m_sub (s_m (run_ops init [ex_ack; Sv (SDecline [2; 0; 94; 16; 0; 17])])) = [].
Proof. vm_compute. split; reflexivity. Qed.

(* the second fold of ip_checksum is needed: a header whose first fold carries again, on which a
   single fold yields a checksum that does not verify *)
Definition ip_checksum1 (hdr20 : bytes) : N :=
  let s := fold16 (sum_le16 hdr20) in N.land (4294967295 - N.land s 4294967295) 65535.
Definition hdr_carry : bytes := [69; 0; 1; 62; 112; 175; 0; 0; 64; 17; 0; 0; 10; 0; 1; 1; 255; 255; 255; 255].
Example second_fold_needed :
  65536 <= fold16 (sum_le16 hdr_carry) /\ ip_checksum1 hdr_carry <> ip_checksum hdr_carry.
Proof. vm_compute. split; [discriminate|discriminate]. Qed.
