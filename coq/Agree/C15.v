(* C15 — constants of Model/Coa.v against the constants regenerated from the working tree on this
   run (VerifRun.Consts; docs/HOWTO.md §6).  Source: pkg/radius/coa.go (Code, Attr, ErrorCause constants).
   The Model uses bare literals; the Examples run dispatch / the attribute folds on inputs built
   from the regenerated constants, with the constant hash H = fun _ => [].
   Compiled per run by lib/verif.py consts_check, not by the main build. *)
From Coq Require Import ZArith NArith List Bool.
From Verif Require Import Base.Word Model.Coa.
From VerifRun Require Import Consts.
Import ListNotations.
Local Open Scope N_scope.

Definition zn (z : Z) : N := Z.to_N z.
Definition H0 (_ : bytes) : bytes := [].
Definition auth0 : gslice := {| arr := repeat 0 16%nat; len := 16%nat |}.
Definition answer (ok : bool) (_ : N) (_ : request) : hresp := {| h_ok := ok; h_cause := 0; h_msg := [] |}.
(* code of the request kind dispatched and first byte of the response written *)
Definition disp (ok : bool) (code : Z) : option (N * N) :=
  match run H0 (dispatch [1] true true (answer ok) (zn code) 9 auth0 []) with
  | Handle k _ _ resp => Some (k, nth 0 resp 999)
  | _ => None
  end.

(* ---- request and response codes ---- *)
Example code_CoARequest_ACK : disp true go_radius_CodeCoARequest = Some (zn go_radius_CodeCoARequest, zn go_radius_CodeCoAACK) := eq_refl.
Example code_CoARequest_NAK : disp false go_radius_CodeCoARequest = Some (zn go_radius_CodeCoARequest, zn go_radius_CodeCoANAK) := eq_refl.
Example code_DisconnectRequest_ACK : disp true go_radius_CodeDisconnectRequest = Some (zn go_radius_CodeDisconnectRequest, zn go_radius_CodeDisconnectACK) := eq_refl.
Example code_DisconnectRequest_NAK : disp false go_radius_CodeDisconnectRequest = Some (zn go_radius_CodeDisconnectRequest, zn go_radius_CodeDisconnectNAK) := eq_refl.
Example code_responses_not_dispatched :
  (disp true go_radius_CodeCoAACK, disp true go_radius_CodeCoANAK, disp true go_radius_CodeDisconnectACK, disp true go_radius_CodeDisconnectNAK) = (None, None, None, None) := eq_refl.

(* ---- default answer of a Disconnect-Request without handler: NAK, Session-Context-Not-Found ---- *)
Example dm_default_ErrorCauseSessionContextNotFound : h_cause dm_default = zn go_radius_ErrorCauseSessionContextNotFound := eq_refl.
Example resp_AttrReplyMessage : nth 6 (resp_attrs dm_default) 999 = zn go_radius_AttrReplyMessage := eq_refl.
Example resp_ErrorCause_value : firstn 4 (skipn 2 (resp_attrs dm_default)) = be_bytes 4 (zn go_radius_ErrorCauseSessionContextNotFound) := eq_refl.

(* ---- attribute types read by parseCoARequest / parseDisconnectRequest ---- *)
Definition v4 : bytes := [10; 0; 0; 1].
Definition coa1 (t : Z) (v : bytes) : request := parse_coa [(zn t, v)].
Definition dm1 (t : Z) (v : bytes) : request := parse_dm [(zn t, v)].
Example coa_AttrUserName : r_user (coa1 go_radius_AttrUserName [97]) = [97] := eq_refl.
Example coa_AttrNASIPAddress : r_nasip (coa1 go_radius_AttrNASIPAddress v4) = Some v4 := eq_refl.
Example coa_AttrFramedIPAddress : r_framed (coa1 go_radius_AttrFramedIPAddress v4) = Some v4 := eq_refl.
Example coa_AttrCallingStationID : r_calling (coa1 go_radius_AttrCallingStationID [97]) = [97] := eq_refl.
Example coa_AttrAcctSessionID : r_session (coa1 go_radius_AttrAcctSessionID [97]) = [97] := eq_refl.
Example coa_AttrSessionTimeout : r_stimeout (coa1 go_radius_AttrSessionTimeout [0; 0; 1; 0]) = 256 := eq_refl.
Example coa_AttrIdleTimeout : r_itimeout (coa1 go_radius_AttrIdleTimeout [0; 0; 1; 0]) = 256 := eq_refl.
Example coa_AttrFilterID : r_filter (coa1 go_radius_AttrFilterID [97]) = [97] := eq_refl.
Example dm_AttrUserName : r_user (dm1 go_radius_AttrUserName [97]) = [97] := eq_refl.
Example dm_AttrNASIPAddress : r_nasip (dm1 go_radius_AttrNASIPAddress v4) = Some v4 := eq_refl.
Example dm_AttrFramedIPAddress : r_framed (dm1 go_radius_AttrFramedIPAddress v4) = Some v4 := eq_refl.
Example dm_AttrCallingStationID : r_calling (dm1 go_radius_AttrCallingStationID [97]) = [97] := eq_refl.
Example dm_AttrAcctSessionID : (r_session (dm1 go_radius_AttrAcctSessionID [97]), r_acct (dm1 go_radius_AttrAcctSessionID [97])) = ([97], [97]) := eq_refl.

(* not tied: 101 (Error-Cause attribute type) in Coa.resp_attrs ~ bare literal in pkg/radius/coa.go:442 (no named constant)
   not tied: 20 (RADIUS header length) and 16 (authenticator length), slice bounds 2:4, 4:20, 20: in Coa.loop_body / verify_req / resp_hdr ~ bare literals in coa.go
   not tied: Coa.BUFSZ 4096 ~ bare literal make([]byte, 4096) in receiveLoop
   not tied: attribute header length 2 in Coa.parse_loop ~ bare literal
   not tied: msg_not_found "Session not found" ~ string literal (strings are not translated)
   not tied: dflt_radius_DefaultCoAProcessorConfig_x ~ coa_handler.go session logic is outside this Model
   not tied: ghost marker 1501 ~ verification-only number *)
