(* C08 — constants of Model/Acct.v and Model/Gigaword.v against the constants regenerated from the
   working tree on this run (VerifRun.Consts; docs/HOWTO.md §6).  Source: pkg/radius/accounting.go
   (AcctStatus, TerminateCause constants).
   Compiled per run by lib/verif.py consts_check, not by the main build. *)
From Coq Require Import ZArith NArith List Bool.
From Verif Require Import Model.Gigaword Model.Acct.
From VerifRun Require Import Consts.
Import ListNotations.
Local Open Scope N_scope.

Definition zn (z : Z) : N := Z.to_N z.

Example acct_AcctStatusStart : ST_START = zn go_radius_AcctStatusStart := eq_refl.
Example acct_AcctStatusStop : ST_STOP = zn go_radius_AcctStatusStop := eq_refl.
Example acct_AcctStatusInterimUpdate : ST_INTERIM = zn go_radius_AcctStatusInterimUpdate := eq_refl.
(* sessions recovered after a crash are stopped with cause NAS-Reboot when none was recorded *)
Example acct_TerminateCauseNASReboot : CAUSE_NAS_REBOOT = zn go_radius_TerminateCauseNASReboot := eq_refl.
(* the PPPoE teardown hands its own cause numbers to the accounting manager: same numbering *)
Example acct_TerminateCauseNASReboot_pppoe : CAUSE_NAS_REBOOT = zn go_pppoe_TerminateCauseNASReboot := eq_refl.

(* not tied: Gigaword.G32 / GMASK / G64 (2^32, 0xFFFFFFFF, 2^64) ~ bare literals 0xFFFFFFFF and >> 32 in pkg/radius/client.go (no named constant)
   not tied: Acct.init maxr (MaxRetries) is a parameter carried by each case; the default is dflt_radius_DefaultAccountingConfig_MaxRetries (10) - not used by the Model
   not tied: dflt_radius_DefaultAccountingConfig_QueueSize / BatchSize / RetryBaseDelay / RetryMaxDelay ~ the Model's channel is unbounded and untimed (stated in docs/C08.md as modelled-not-verified)
   not tied: R_OK / R_ERR / R_CRASHED / R_DEAD, crash points, graceful-stop stages g = 1..3 ~ Model-internal numbering (harness convention)
   not tied: ghost markers 801..806 ~ verification-only numbers *)
