(* C16 — constants of Model/Teardown.v (PPPoE part) against the constants regenerated from the
   working tree on this run (VerifRun.Consts; docs/HOWTO.md §6).  Source: pkg/pppoe/session.go
   (SessionState iota enum: the number stored in ps_state and compared by the driver's snapshot).
   Compiled per run by lib/verif.py consts_check, not by the main build. *)
From Coq Require Import ZArith NArith List Bool.
From Verif Require Import Model.Teardown.
From VerifRun Require Import Consts.
Import ListNotations.
Local Open Scope N_scope.

Definition zn (z : Z) : N := Z.to_N z.
Definition pc : pcfg := {| pc_avail0 := [167772162]; pc_pool := true; pc_radius := false; pc_timeout := 300 |}.
Definition prun (ops : list pop) : pst := fold_left (fun s o => fst (fst (pstep pc s o))) ops (pinit pc).
(* state of the session object created first (instance 1), whether or not it is still in the table *)
Definition st1 (ops : list pop) : option N := option_map ps_state (aget 1 (heap (prun ops))).

Example sess_StateLCPNegotiation : st1 [Padr 7] = Some (zn go_pppoe_StateLCPNegotiation) := eq_refl.
Example sess_StateAuthentication : st1 [Padr 7; LcpAck 1 7] = Some (zn go_pppoe_StateAuthentication) := eq_refl.
Example sess_StateIPCPNegotiation : st1 [Padr 7; LcpAck 1 7; Pap 1 7 true] = Some (zn go_pppoe_StateIPCPNegotiation) := eq_refl.
Example sess_StateEstablished : st1 [Padr 7; LcpAck 1 7; Pap 1 7 true; IpcpAck 1 7] = Some (zn go_pppoe_StateEstablished) := eq_refl.
Example sess_StateClosed_on_reject : st1 [Padr 7; LcpAck 1 7; Pap 1 7 false] = Some (zn go_pppoe_StateClosed) := eq_refl.
Example sess_StateClosed_on_LcpTerm : st1 [Padr 7; LcpAck 1 7; LcpTerm 1 7] = Some (zn go_pppoe_StateClosed) := eq_refl.
Example sess_StateClosed_after_teardown : st1 [Padr 7; LcpAck 1 7; Pap 1 7 true; IpcpAck 1 7; TdTerm 1] = Some (zn go_pppoe_StateClosed) := eq_refl.

(* not tied: ps_state 5 (Terminating) in Teardown.pterm ~ go_pppoe_StateTerminating: set and overwritten by 6 inside one step, never observable from the step function (owner: expose it or name the literal)
   not tied: event kinds (2, i) / (3, id) / (7, ip) of the event lists, reply codes of Teardown.dstep ~ Model-internal numbering (harness convention)
   not tied: terminate causes ~ go_pppoe_TerminateCauseX / go_radius_TerminateCauseX: the Model records only THAT a Stop was sent, not its cause
   not tied: dflt_pppoe_DefaultTeardownConfig_x, dflt_pppoe_DefaultKeepAliveConfig_x (timeouts, retries) ~ the Model is untimed apart from pc_timeout, which each case carries
   not tied: nextid starts at 1 in Teardown.pinit ~ bare literal in pkg/pppoe/session.go NewSessionManager
   not tied: ghost markers 16xx ~ verification-only numbers *)
