(* C20 — constants of Model/Keys.v (session ids, circuit-id keys) against the constants
   regenerated from the working tree on this run (VerifRun.Consts; docs/HOWTO.md §6).
   Compiled per run by lib/verif.py consts_check, not by the main build. *)
From Coq Require Import ZArith NArith List Bool.
From Verif Require Import Base.Word Model.Keys.
From VerifRun Require Import Consts.
Import ListNotations.
Local Open Scope N_scope.

(* HashCircuitID: 64-bit FNV-1a, pkg/ebpf/loader.go fnv1aInit / fnv1aPrime *)
Example ckey_fnv1aInit : fnv_init = Z.to_N go_ebpf_fnv1aInit := eq_refl.
Example ckey_fnv1aPrime : fnv_prm = Z.to_N go_ebpf_fnv1aPrime := eq_refl.
Example ckey_hash_empty : chash [] = Z.to_N go_ebpf_fnv1aInit := eq_refl.
(* MakeCircuitIDKey copies into a [32]byte (Go array type, no named constant); the kernel side of the
   same key is char[CIRCUIT_ID_KEY_LEN] of bpf/maps.h *)
Example ckey_CIRCUIT_ID_KEY_LEN : Z.of_nat ckey_len = c_maps_CIRCUIT_ID_KEY_LEN := eq_refl.
Example ckey_CIRCUIT_ID_KEY_LEN_dhcp_unit : Z.of_nat ckey_len = c_dhcp_fastpath_CIRCUIT_ID_KEY_LEN := eq_refl.
Example ckey_length : Z.of_nat (length (ckey [1; 2; 3])) = c_maps_CIRCUIT_ID_KEY_LEN := eq_refl.
(* truncation marker 2010 is raised exactly above CIRCUIT_ID_KEY_LEN bytes *)
Example ckey_truncation_bound :
  (snd (c_step tt (CKey (repeat 1 (Z.to_nat c_maps_CIRCUIT_ID_KEY_LEN)))),
   snd (c_step tt (CKey (repeat 1 (S (Z.to_nat c_maps_CIRCUIT_ID_KEY_LEN)))))) = ([], [2010]) := eq_refl.
(* the circuit-id the kernel can extract (MAX_CIRCUIT_ID_LEN) is longer than the key: truncation is reachable *)
Example ckey_MAX_CIRCUIT_ID_LEN_truncates :
  snd (c_step tt (CKey (repeat 1 (Z.to_nat c_maps_MAX_CIRCUIT_ID_LEN)))) = [2010] := eq_refl.

(* not tied: 65535 in Keys.session_cap ~ bare literal 0xFFFF in pkg/pppoe/session.go:209 (no named constant)
   not tied: 65536 (uint16 wrap of nextID, fuel of scan_id, pair encoding pk/ps/pc) in Keys ~ uint16 arithmetic, no constant
   not tied: nextID restarts at 1 (Keys.scan_id / s_step) ~ bare literal in pkg/pppoe/session.go:232
   not tied: Keys.ckey_len 32 ~ Go array type [32]byte in pkg/ebpf/loader.go MakeCircuitIDKey (types are not translated; tied above to the C name)
   not tied: VLAN ranges of Keys.v_cfg / q_cfg are parameters of the Model (the case carries the configuration); the defaults dflt_nexus_DefaultVLANConfig_* / dflt_qinq_DefaultConfig_* are not used by the Model
   not tied: math.MaxUint16 sentinel tests of pkg/nexus/vlan.go:189,220 ~ standard-library constant, not regenerated
   not tied: Indexes.dangling 999999 and ghost markers 20xx ~ verification-only numbers *)
