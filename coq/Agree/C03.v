(* C03 — constants of Model/XdpDhcp.v (the XDP DHCP fast path) against the constants regenerated
   from the working tree on this run (VerifRun.Consts; docs/HOWTO.md §6).  Source: bpf/dhcp_fastpath.c,
   bpf/maps.h (translation unit dhcp_fastpath: c_dhcp_fastpath_x).  The Model uses bare literals; the
   Examples run the Model on one recorded DISCOVER/REQUEST exchange (maps and frame of the stored
   witness k03f) patched with bytes built from the regenerated constants: the request is answered
   (XDP_TX) exactly when the patched byte is the one the Model tests for.
   Compiled per run by lib/verif.py consts_check, not by the main build. *)
From Coq Require Import ZArith NArith List Bool.
From Verif Require Import Base.Word Model.XdpDhcp.
From VerifRun Require Import Consts.
Import ListNotations.
Local Open Scope N_scope.

Definition zn (z : Z) : N := Z.to_N z.

(* ---- XDP verdicts ---- *)
Example xdp_XDP_DROP : XDP_DROP = zn c_dhcp_fastpath_XDP_DROP := eq_refl.
Example xdp_XDP_PASS : XDP_PASS = zn c_dhcp_fastpath_XDP_PASS := eq_refl.
Example xdp_XDP_TX : XDP_TX = zn c_dhcp_fastpath_XDP_TX := eq_refl.

(* ---- the recorded exchange ---- *)
Definition m0 : maps :=
  {| m_sub := [([17;0;16;94;0;2;0;0], [1;0;0;0;172;20;5;2;0;0;0;0;1;104;117;179;106;0;0;0;0;0;0;0;0])];
     m_vlan := []; m_cid := [];
     m_pool := [([1;0;0;0], [172;20;5;0;24;0;0;0;172;20;5;1;9;9;9;10;192;0;2;53;16;14;0;0;0;0;0;0])];
     m_cfg := Some [2;170;187;204;221;1;0;0;172;20;5;254;7;0;0;0]; m_origin := 1 |}.
Definition f0 : bytes :=
  [255;255;255;255;255;255; 2;0;94;16;0;17; 8;0] ++
  [69;0;1;76;243;38;0;0;128;17;70;123; 0;0;0;0; 255;255;255;255] ++ [0;68;0;67;1;56;0;0] ++
  [1;1;6;0; 57;3;243;38] ++ repeat 0 20 ++ [2;0;94;16;0;17] ++ repeat 0 202 ++
  [99;130;83;99; 53;1;3; 50;4;172;20;5;6; 255] ++ repeat 0 54.
Definition patch (off : nat) (bs f : bytes) : bytes := firstn off f ++ bs ++ skipn (off + length bs) f.
Definition run (f : bytes) : res := xdp m0 11823366121831 1790142296 f.
Definition code (f : bytes) : N := match run f with Done v _ _ => v | OOB => 99 end.
Definition reply (f : bytes) : bytes := match run f with Done _ r _ => r | OOB => [] end.
Definition marks (f : bytes) : list N := match run f with Done _ _ mk => mk | OOB => [] end.
Definition dh : nat := 42.            (* untagged, IHL 5: the DHCP header starts at 14 + 20 + 8 *)
Definition opts : nat := 282.         (* dh + 240 *)

Example base_is_answered : code f0 = zn c_dhcp_fastpath_XDP_TX := eq_refl.

(* ---- header tests of parse_packet_headers / the main program ---- *)
Example eth_ETH_P_IP : code (patch 12 (be_bytes 2 (zn c_dhcp_fastpath_ETH_P_IP)) f0) = zn c_dhcp_fastpath_XDP_TX := eq_refl.
Example ip_IPPROTO_UDP : code (patch 23 [zn c_dhcp_fastpath_IPPROTO_UDP] f0) = zn c_dhcp_fastpath_XDP_TX := eq_refl.
Example ip_other_proto_passes : code (patch 23 [zn c_dhcp_fastpath_IPPROTO_UDP + 1] f0) = zn c_dhcp_fastpath_XDP_PASS := eq_refl.
Example udp_DHCP_SERVER_PORT : code (patch 36 (be_bytes 2 (zn c_dhcp_fastpath_DHCP_SERVER_PORT)) f0) = zn c_dhcp_fastpath_XDP_TX := eq_refl.
Example udp_other_port_passes : code (patch 36 (be_bytes 2 (zn c_dhcp_fastpath_DHCP_SERVER_PORT + 1)) f0) = zn c_dhcp_fastpath_XDP_PASS := eq_refl.
Example dhcp_BOOTREQUEST : code (patch dh [zn c_dhcp_fastpath_BOOTREQUEST] f0) = zn c_dhcp_fastpath_XDP_TX := eq_refl.
Example dhcp_BOOTREPLY_passes : code (patch dh [zn c_dhcp_fastpath_BOOTREPLY] f0) = zn c_dhcp_fastpath_XDP_PASS := eq_refl.
Example dhcp_MAGIC_COOKIE_NET : code (patch (dh + 236) (le_bytes 4 (zn c_dhcp_fastpath_DHCP_MAGIC_COOKIE_NET)) f0) = zn c_dhcp_fastpath_XDP_TX := eq_refl.
Example dhcp_other_cookie_passes : code (patch (dh + 236) (le_bytes 4 (zn c_dhcp_fastpath_DHCP_MAGIC_COOKIE_NET + 1)) f0) = zn c_dhcp_fastpath_XDP_PASS := eq_refl.
(* room for MAX_DHCP_REPLY_OPTIONS_LEN option bytes is required before anything is written *)
Example room_MAX_DHCP_REPLY_OPTIONS_LEN :
  (code (firstn (opts + Z.to_nat c_dhcp_fastpath_MAX_DHCP_REPLY_OPTIONS_LEN) f0),
   code (firstn (opts + Z.to_nat c_dhcp_fastpath_MAX_DHCP_REPLY_OPTIONS_LEN - 1) f0)) = (zn c_dhcp_fastpath_XDP_TX, zn c_dhcp_fastpath_XDP_PASS) := eq_refl.

(* ---- message types: DISCOVER -> OFFER, REQUEST -> ACK, everything else goes to userspace ---- *)
Definition with_type (t : Z) : bytes := patch opts [zn c_dhcp_fastpath_DHCP_OPT_MSG_TYPE; 1; zn t] f0.
Example msg_DHCP_DISCOVER : code (with_type c_dhcp_fastpath_DHCP_DISCOVER) = zn c_dhcp_fastpath_XDP_TX := eq_refl.
Example msg_DHCP_OFFER : firstn 3 (skipn opts (reply (with_type c_dhcp_fastpath_DHCP_DISCOVER))) = [zn c_dhcp_fastpath_DHCP_OPT_MSG_TYPE; 1; zn c_dhcp_fastpath_DHCP_OFFER] := eq_refl.
Example msg_DHCP_REQUEST : code (with_type c_dhcp_fastpath_DHCP_REQUEST) = zn c_dhcp_fastpath_XDP_TX := eq_refl.
Example msg_DHCP_ACK : firstn 3 (skipn opts (reply (with_type c_dhcp_fastpath_DHCP_REQUEST))) = [zn c_dhcp_fastpath_DHCP_OPT_MSG_TYPE; 1; zn c_dhcp_fastpath_DHCP_ACK] := eq_refl.
Example msg_DHCP_DECLINE_passes : code (with_type c_dhcp_fastpath_DHCP_DECLINE) = zn c_dhcp_fastpath_XDP_PASS := eq_refl.
Example msg_DHCP_NAK_passes : code (with_type c_dhcp_fastpath_DHCP_NAK) = zn c_dhcp_fastpath_XDP_PASS := eq_refl.
Example msg_DHCP_RELEASE_passes : code (with_type c_dhcp_fastpath_DHCP_RELEASE) = zn c_dhcp_fastpath_XDP_PASS := eq_refl.
Example msg_DHCP_INFORM_passes : code (with_type c_dhcp_fastpath_DHCP_INFORM) = zn c_dhcp_fastpath_XDP_PASS := eq_refl.
Example opt_DHCP_OPT_MSG_TYPE_tlv : tlv_msg_type [zn c_dhcp_fastpath_DHCP_OPT_MSG_TYPE; 1; 7] = 7 := eq_refl.
Example opt_DHCP_OPT_MSG_TYPE_fixed : msg_type_fixed ([zn c_dhcp_fastpath_DHCP_OPT_MSG_TYPE; 1; 7] ++ repeat 0 9) = 7 := eq_refl.
Example opt_DHCP_OPT_PAD : tlv_get 53 [zn c_dhcp_fastpath_DHCP_OPT_PAD; 53; 1; 7] = Some [7] := eq_refl.
Example opt_DHCP_OPT_END : tlv_get 53 [zn c_dhcp_fastpath_DHCP_OPT_END; 53; 1; 7] = None := eq_refl.
(* option 50 is what the cached lease is compared with (absent: ciaddr, here 0.0.0.0): naming the cached
   address 172.20.5.2 under the regenerated code raises no marker, under any other code marker 307 *)
Example opt_DHCP_OPT_REQUESTED_IP :
  (marks (patch (opts + 3) [zn c_dhcp_fastpath_DHCP_OPT_REQUESTED_IP; 4; 172; 20; 5; 2] f0),
   marks (patch (opts + 3) [zn c_dhcp_fastpath_DHCP_OPT_REQUESTED_IP + 1; 4; 172; 20; 5; 2] f0)) = ([], [307]) := eq_refl.

(* ---- the reply: BOOTREPLY, ports, option codes in the order build_dhcp_options writes them ---- *)
Definition r0 : bytes := reply f0.
Example reply_BOOTREPLY : nth dh r0 99 = zn c_dhcp_fastpath_BOOTREPLY := eq_refl.
Example reply_sport_DHCP_SERVER_PORT : firstn 2 (skipn 34 r0) = be_bytes 2 (zn c_dhcp_fastpath_DHCP_SERVER_PORT) := eq_refl.
Example reply_dport_DHCP_CLIENT_PORT : firstn 2 (skipn 36 r0) = be_bytes 2 (zn c_dhcp_fastpath_DHCP_CLIENT_PORT) := eq_refl.
Example reply_opt_MSG_TYPE : nth (opts + 0) r0 99 = zn c_dhcp_fastpath_DHCP_OPT_MSG_TYPE := eq_refl.
Example reply_opt_SERVER_ID : nth (opts + 3) r0 99 = zn c_dhcp_fastpath_DHCP_OPT_SERVER_ID := eq_refl.
Example reply_opt_LEASE_TIME : nth (opts + 9) r0 99 = zn c_dhcp_fastpath_DHCP_OPT_LEASE_TIME := eq_refl.
Example reply_opt_SUBNET_MASK : nth (opts + 15) r0 99 = zn c_dhcp_fastpath_DHCP_OPT_SUBNET_MASK := eq_refl.
Example reply_opt_ROUTER : nth (opts + 21) r0 99 = zn c_dhcp_fastpath_DHCP_OPT_ROUTER := eq_refl.
Example reply_opt_DNS : nth (opts + 27) r0 99 = zn c_dhcp_fastpath_DHCP_OPT_DNS := eq_refl.
Example reply_opt_RENEWAL_TIME : nth (opts + 37) r0 99 = zn c_dhcp_fastpath_DHCP_OPT_RENEWAL_TIME := eq_refl.
Example reply_opt_REBIND_TIME : nth (opts + 43) r0 99 = zn c_dhcp_fastpath_DHCP_OPT_REBIND_TIME := eq_refl.
Example reply_opt_END : nth (opts + 49) r0 99 = zn c_dhcp_fastpath_DHCP_OPT_END := eq_refl.
(* broadcast flag: with a non-zero ciaddr the reply goes to chaddr unless DHCP_FLAG_BROADCAST is set *)
Definition with_ciaddr (flags : N) : bytes := patch (dh + 10) (be_bytes 2 flags ++ [172; 20; 5; 2]) f0.
Example flag_DHCP_FLAG_BROADCAST :
  (firstn 6 (reply (with_ciaddr (zn c_dhcp_fastpath_DHCP_FLAG_BROADCAST))), firstn 6 (reply (with_ciaddr (zn c_dhcp_fastpath_DHCP_FLAG_BROADCAST - 1))))
  = (repeat 255 6, [2; 0; 94; 16; 0; 17]) := eq_refl.

(* ---- VLAN parsing ---- *)
Example vlan_ETH_P_8021Q : is_vlan_et (be_bytes 2 (zn c_dhcp_fastpath_ETH_P_8021Q)) = true := eq_refl.
Example vlan_ETH_P_8021AD : is_vlan_et (be_bytes 2 (zn c_dhcp_fastpath_ETH_P_8021AD)) = true := eq_refl.
Example vlan_VLAN_VID_MASK : vid_of [255; 255] = zn c_dhcp_fastpath_VLAN_VID_MASK := eq_refl.

(* ---- Option 82 circuit-id extraction (extract_circuit_id_fixed) ---- *)
Definition o82 (cl : N) : bytes :=
  [53; 1; 3; zn c_dhcp_fastpath_DHCP_OPT_RELAY_AGENT_INFO; cl + 2; zn c_dhcp_fastpath_OPT82_CIRCUIT_ID; cl] ++ repeat 7 (N.to_nat cl) ++ repeat 0 64.
Example cid_DHCP_OPT_RELAY_AGENT_INFO : cid_first (firstn 64 (o82 4)) 1000 0 = Some ([7; 7; 7; 7] ++ repeat 0 28) := eq_refl.
Example cid_OPT82_REMOTE_ID_not_taken :
  cid_first (firstn 64 ([53; 1; 3; 82; 6; zn c_dhcp_fastpath_OPT82_REMOTE_ID; 4; 7; 7; 7; 7] ++ repeat 0 64)) 1000 0 = None := eq_refl.
Example cid_CIRCUIT_ID_KEY_LEN_length :
  option_map (fun k => Z.of_nat (length k)) (cid_first (firstn 64 (o82 4)) 1000 0) = Some c_dhcp_fastpath_CIRCUIT_ID_KEY_LEN := eq_refl.
Example cid_CIRCUIT_ID_KEY_LEN_bound :
  (match cid_first (firstn 64 (o82 (zn c_dhcp_fastpath_CIRCUIT_ID_KEY_LEN))) 1000 0 with Some _ => true | None => false end,
   match cid_first (firstn 64 (o82 (zn c_dhcp_fastpath_CIRCUIT_ID_KEY_LEN + 1))) 1000 0 with Some _ => true | None => false end) = (true, false) := eq_refl.

(* not tied: 1000000000 in XdpDhcp.NS_PER_S ~ bare literal in bpf/dhcp_fastpath.c:696 (no #define)
   not tied: 14 / 18 / 22 / 20 / 240 / 236 and the field offsets of XdpDhcp.parse, parse_l3, rewrite_x, reply ~ sizeof / offsetof of struct ethhdr, vlan_hdr, iphdr, udphdr, dhcp_packet (struct layouts, not constants)
   not tied: TTL 64 in XdpDhcp.rewrite_relay / rewrite_direct ~ bare literal in setup_reply headers
   not tied: 64 bytes read and the scan window (positions 12..19) in XdpDhcp.extract_cid / cid_scan ~ bare literals of extract_circuit_id_fixed (MAX_DHCP_OPTIONS_ITER, MAX_DHCP_OPTIONS_SCAN_LEN, MAX_CIRCUIT_ID_LEN, MAX_REMOTE_ID_LEN are defined in maps.h but not used by this code path)
   not tied: the six fixed positions of XdpDhcp.msg_type_fixed ~ unrolled tests in get_dhcp_msg_type_fixed
   not tied: value sizes 25 / 28 / 16 and field offsets of pool_assignment / ip_pool / dhcp_server_config ~ struct layouts (gen_layouts, C06)
   not tied: XdpDhcp.TAIL_MAX 3520 ~ property of the BPF_PROG_TEST_RUN test page, not of the source
   not tied: T1 = lease/2, T2 = lease*7/8 in XdpDhcp.build_options ~ bare arithmetic in build_dhcp_options
   not tied: KEY_TYPE_MAC / KEY_TYPE_CIRCUIT, STAT_x counters ~ not modelled (statistics are not observed)
   not tied: ghost markers 301..309 ~ verification-only numbers *)
