(* C10 — constants of Model/Nat.v against the constants regenerated from the working tree on this
   run (VerifRun.Consts; docs/HOWTO.md §6).  pkg/nat has no named constant for the port-block
   geometry: NewManager fills zero fields with bare literals (manager.go:269-281).  The same three
   quantities are named in the kernel program bpf/nat44.c, whose port selection works on the blocks
   the manager writes; the Examples state that the Model's defaults (= the manager's) are the
   kernel program's.  Compiled per run by lib/verif.py consts_check, not by the main build. *)
From Coq Require Import ZArith List Bool.
From Verif Require Import Model.Nat.
From VerifRun Require Import Consts.
Local Open Scope Z_scope.

Example nat_default_PORTS_PER_SUBSCRIBER : c_pps (new_cfg 0 0 0) = c_nat44_DEFAULT_PORTS_PER_SUBSCRIBER := eq_refl.
Example nat_default_PORT_RANGE_START : c_start (new_cfg 0 0 0) = c_nat44_PORT_RANGE_START := eq_refl.
Example nat_default_PORT_RANGE_END : c_end (new_cfg 0 0 0) = c_nat44_PORT_RANGE_END := eq_refl.
(* the upper bound of a well-formed configuration is the last port of the kernel's range, and the
   uint16 wrap of the Model is one past it *)
Example nat_cfg_ok_upto_PORT_RANGE_END :
  (cfg_okb (new_cfg 1 1 c_nat44_PORT_RANGE_END), cfg_okb (new_cfg 1 1 (c_nat44_PORT_RANGE_END + 1))) = (true, false) := eq_refl.
Example nat_wrap16_PORT_RANGE_END :
  (wrap16 c_nat44_PORT_RANGE_END, wrap16 (c_nat44_PORT_RANGE_END + 1)) = (c_nat44_PORT_RANGE_END, 0) := eq_refl.
(* with all defaults the manager can serve (65535-1024+1)/1024 = 63 subscribers per public address *)
Example nat_default_max_subs :
  max_subs (new_cfg 0 0 0) = Z.quot (c_nat44_PORT_RANGE_END - c_nat44_PORT_RANGE_START + 1) c_nat44_DEFAULT_PORTS_PER_SUBSCRIBER := eq_refl.

(* not tied: 1024 / 1024 / 65535 in Nat.new_cfg ~ bare literals in pkg/nat/manager.go:270,275,280 (no named Go constant; tied above to the C names of the same quantities)
   not tied: ghost markers 1002 / 1003 in Nat.do_alloc / lost_marker ~ verification-only numbers, no source constant
   not tied: log record kinds of Nat.logrec ~ string literals "port_block_assign" / "allocate" ... in pkg/nat/logging.go (strings are not translated) *)
