(* C07 — constants of the packet-program Models (Model/PktMonad.v, TcNatPkt.v, TcAntispoofPkt.v,
   TcQosPkt.v, XdpDhcpPkt.v) against the constants regenerated from the working tree on this run
   (VerifRun.Consts; docs/HOWTO.md §6).  Source: bpf/nat44.c, bpf/antispoof.c, bpf/qos_ratelimit.c,
   bpf/dhcp_fastpath.c and the system headers they include (XDP_x / TC_ACT_x verdicts, IPPROTO_x).
   Only the constants these Models NAME are tied here; the DHCP literals of XdpDhcpPkt.v are the
   same numbers as those of XdpDhcp.v, tied by observation in Agree/C03.v.
   Compiled per run by lib/verif.py consts_check, not by the main build. *)
From Coq Require Import ZArith NArith List Bool.
From Verif Require Import Model.PktMonad Model.TcNatPkt Model.TcAntispoofPkt Model.TcQosPkt Model.XdpDhcpPkt.
From VerifRun Require Import Consts.
Import ListNotations.
Local Open Scope N_scope.

Definition zn (z : Z) : N := Z.to_N z.

(* ---- verdicts (linux/bpf.h enum xdp_action, linux/pkt_cls.h) as each program's unit sees them ---- *)
Example xdp_XDP_DROP : PktMonad.XDP_DROP = zn c_dhcp_fastpath_XDP_DROP := eq_refl.
Example xdp_XDP_PASS : PktMonad.XDP_PASS = zn c_dhcp_fastpath_XDP_PASS := eq_refl.
Example xdp_XDP_TX : PktMonad.XDP_TX = zn c_dhcp_fastpath_XDP_TX := eq_refl.
Example xdp_XDP_PASS_nat44 : PktMonad.XDP_PASS = zn c_nat44_XDP_PASS := eq_refl.
Example tc_TC_ACT_OK_nat44 : PktMonad.TC_ACT_OK = zn c_nat44_TC_ACT_OK := eq_refl.
Example tc_TC_ACT_SHOT_nat44 : PktMonad.TC_ACT_SHOT = zn c_nat44_TC_ACT_SHOT := eq_refl.
Example tc_TC_ACT_OK_antispoof : PktMonad.TC_ACT_OK = zn c_antispoof_TC_ACT_OK := eq_refl.
Example tc_TC_ACT_SHOT_antispoof : PktMonad.TC_ACT_SHOT = zn c_antispoof_TC_ACT_SHOT := eq_refl.
Example tc_TC_ACT_OK_qos : PktMonad.TC_ACT_OK = zn c_qos_ratelimit_TC_ACT_OK := eq_refl.
Example tc_TC_ACT_SHOT_qos : PktMonad.TC_ACT_SHOT = zn c_qos_ratelimit_TC_ACT_SHOT := eq_refl.

(* ---- nat44.c flags and protocol numbers ---- *)
Example nat_NAT_FLAG_EIM_ENABLED : NAT_FLAG_EIM_ENABLED = zn c_nat44_NAT_FLAG_EIM_ENABLED := eq_refl.
Example nat_NAT_FLAG_HAIRPIN_ENABLED : NAT_FLAG_HAIRPIN_ENABLED = zn c_nat44_NAT_FLAG_HAIRPIN_ENABLED := eq_refl.
Example nat_NAT_FLAG_ALG_FTP : NAT_FLAG_ALG_FTP = zn c_nat44_NAT_FLAG_ALG_FTP := eq_refl.
Example nat_NAT_FLAG_ALG_SIP : NAT_FLAG_ALG_SIP = zn c_nat44_NAT_FLAG_ALG_SIP := eq_refl.
Example nat_NAT_FLAG_PORT_PARITY : NAT_FLAG_PORT_PARITY = zn c_nat44_NAT_FLAG_PORT_PARITY := eq_refl.
Example nat_IPPROTO_ICMP : TcNatPkt.IPPROTO_ICMP = zn c_nat44_IPPROTO_ICMP := eq_refl.
Example nat_IPPROTO_TCP : TcNatPkt.IPPROTO_TCP = zn c_nat44_IPPROTO_TCP := eq_refl.
Example nat_IPPROTO_UDP : TcNatPkt.IPPROTO_UDP = zn c_nat44_IPPROTO_UDP := eq_refl.
(* the userspace manager writes the same flag bits into nat_config *)
Example nat_go_NATFlagEIMEnabled : NAT_FLAG_EIM_ENABLED = zn go_nat_NATFlagEIMEnabled := eq_refl.
Example nat_go_NATFlagHairpinEnabled : NAT_FLAG_HAIRPIN_ENABLED = zn go_nat_NATFlagHairpinEnabled := eq_refl.
Example nat_go_NATFlagALGFTP : NAT_FLAG_ALG_FTP = zn go_nat_NATFlagALGFTP := eq_refl.
Example nat_go_NATFlagALGSIP : NAT_FLAG_ALG_SIP = zn go_nat_NATFlagALGSIP := eq_refl.
Example nat_go_NATFlagPortParity : NAT_FLAG_PORT_PARITY = zn go_nat_NATFlagPortParity := eq_refl.

(* ---- antispoof.c modes ---- *)
Example as_ANTISPOOF_DISABLED : ANTISPOOF_DISABLED = zn c_antispoof_ANTISPOOF_DISABLED := eq_refl.
Example as_ANTISPOOF_STRICT : ANTISPOOF_STRICT = zn c_antispoof_ANTISPOOF_STRICT := eq_refl.
Example as_ANTISPOOF_LOOSE : ANTISPOOF_LOOSE = zn c_antispoof_ANTISPOOF_LOOSE := eq_refl.
Example as_ANTISPOOF_LOG_ONLY : ANTISPOOF_LOG_ONLY = zn c_antispoof_ANTISPOOF_LOG_ONLY := eq_refl.

(* not tied: 0x0800 / 0x86DD / 0x8100 / 0x88A8 inside the program bodies (htons 0x0800 ...) ~ ETH_P_IP, ETH_P_IPV6, ETH_P_8021Q, ETH_P_8021AD (tied for the non-monadic Models in Agree/C03.v, C18.v, C19.v)
   not tied: 64 in TcNatPkt.alloc_port (alloc_loop 64) ~ bare loop bound in bpf/nat44.c:423 (no #define; MAX_ALG_PORTS = 64 is a different quantity)
   not tied: private ranges 10/8, 172.16/12, 192.168/16, 100.64/10 in TcNatPkt.is_private ~ bare literals of is_private_ip
   not tied: DHCP literals of XdpDhcpPkt (53, 82, 32, 64, 240, option codes, ports) ~ same constants as Agree/C03.v ties on Model/XdpDhcp.v
   not tied: header sizes 14 / 20 and field offsets in every program ~ struct layouts of system headers
   not tied: MAP_x identifiers (1..3, 10, 11, 20..26, 30..34) ~ Model-internal numbering of the maps (harness convention)
   not tied: c_nat44_x TIMEOUT_NS, PORT_RANGE_x, MAX_x map capacities ~ do not influence which bytes are accessed; not modelled
   not tied: ghost marker 0703 ~ verification-only number *)
