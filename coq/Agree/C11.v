(* C11 — constants of the PPP automaton Models (Model/Fsm.v, Lcp.v, Ipcp.v, Ipv6cp.v) against the
   constants REGENERATED from the working tree on this run (VerifRun.Consts: tools/gen_consts +
   harness/consts_defaults; docs/HOWTO.md §6).  One Example per source constant; proofs are
   evaluation only.  The Models use bare literals inside functions, so most Examples observe the
   Model on an input built from the regenerated constant: if the source constant moves, the
   observation no longer holds.  Compiled per run by lib/verif.py consts_check, not by the main build. *)
From Coq Require Import ZArith NArith List Bool.
From Verif Require Import Base.Word Model.Fsm Model.Lcp Model.Ipcp Model.Ipv6cp Model.FsmOpts.
From VerifRun Require Import Consts.
Import ListNotations.
Local Open Scope N_scope.

Definition zn (z : Z) : N := Z.to_N z.

(* ---- state numbering reported by GetState() (lcp.go / ipcp.go / ipv6cp.go iota enums) ---- *)
Example lcp_state_Initial : st_n Initial = zn go_pppoe_LCPStateInitial := eq_refl.
Example lcp_state_Starting : st_n Starting = zn go_pppoe_LCPStateStarting := eq_refl.
Example lcp_state_Closed : st_n Closed = zn go_pppoe_LCPStateClosed := eq_refl.
Example lcp_state_Stopped : st_n Stopped = zn go_pppoe_LCPStateStopped := eq_refl.
Example lcp_state_Closing : st_n Closing = zn go_pppoe_LCPStateClosing := eq_refl.
Example lcp_state_Stopping : st_n Stopping = zn go_pppoe_LCPStateStopping := eq_refl.
Example lcp_state_ReqSent : st_n ReqSent = zn go_pppoe_LCPStateReqSent := eq_refl.
Example lcp_state_AckRcvd : st_n AckRcvd = zn go_pppoe_LCPStateAckRcvd := eq_refl.
Example lcp_state_AckSent : st_n AckSent = zn go_pppoe_LCPStateAckSent := eq_refl.
Example lcp_state_Opened : st_n Opened = zn go_pppoe_LCPStateOpened := eq_refl.
Example ipcp_state_Initial : st_n Initial = zn go_pppoe_IPCPStateInitial := eq_refl.
Example ipcp_state_Starting : st_n Starting = zn go_pppoe_IPCPStateStarting := eq_refl.
Example ipcp_state_Closed : st_n Closed = zn go_pppoe_IPCPStateClosed := eq_refl.
Example ipcp_state_Stopped : st_n Stopped = zn go_pppoe_IPCPStateStopped := eq_refl.
Example ipcp_state_Closing : st_n Closing = zn go_pppoe_IPCPStateClosing := eq_refl.
Example ipcp_state_Stopping : st_n Stopping = zn go_pppoe_IPCPStateStopping := eq_refl.
Example ipcp_state_ReqSent : st_n ReqSent = zn go_pppoe_IPCPStateReqSent := eq_refl.
Example ipcp_state_AckRcvd : st_n AckRcvd = zn go_pppoe_IPCPStateAckRcvd := eq_refl.
Example ipcp_state_AckSent : st_n AckSent = zn go_pppoe_IPCPStateAckSent := eq_refl.
Example ipcp_state_Opened : st_n Opened = zn go_pppoe_IPCPStateOpened := eq_refl.
Example ipv6cp_state_Initial : st_n Initial = zn go_pppoe_IPV6CPStateInitial := eq_refl.
Example ipv6cp_state_Starting : st_n Starting = zn go_pppoe_IPV6CPStateStarting := eq_refl.
Example ipv6cp_state_Closed : st_n Closed = zn go_pppoe_IPV6CPStateClosed := eq_refl.
Example ipv6cp_state_Stopped : st_n Stopped = zn go_pppoe_IPV6CPStateStopped := eq_refl.
Example ipv6cp_state_Closing : st_n Closing = zn go_pppoe_IPV6CPStateClosing := eq_refl.
Example ipv6cp_state_Stopping : st_n Stopping = zn go_pppoe_IPV6CPStateStopping := eq_refl.
Example ipv6cp_state_ReqSent : st_n ReqSent = zn go_pppoe_IPV6CPStateReqSent := eq_refl.
Example ipv6cp_state_AckRcvd : st_n AckRcvd = zn go_pppoe_IPV6CPStateAckRcvd := eq_refl.
Example ipv6cp_state_AckSent : st_n AckSent = zn go_pppoe_IPV6CPStateAckSent := eq_refl.
Example ipv6cp_state_Opened : st_n Opened = zn go_pppoe_IPV6CPStateOpened := eq_refl.

(* ---- packet codes (protocol.go LCPCode constants): observed on the packets the Model sends ---- *)
Definition L0 : fsm lcpx := lcp_new 7 1492 49187 5 true true 10 [].
Definition Lreq : fsm lcpx := run lcp_procs L0 [EOpen; EUp].                      (* Req-Sent, our request has id 1 *)
Definition codes (s : fsm lcpx) (e : ev) : list N := map pc (sent lcp_procs s e).
Definition code_in (c : Z) (s : fsm lcpx) (e : ev) : bool := existsb (N.eqb (zn c)) (codes s e).

Example lcp_code_ConfigRequest : codes (next lcp_procs L0 EOpen) EUp = [zn go_pppoe_LCPCodeConfigRequest] := eq_refl.
(* a Configure-Request built with the regenerated code is answered by Ack / Nak / Reject of the regenerated codes *)
Definition cr (opts : list N) : ev := ERecv ([zn go_pppoe_LCPCodeConfigRequest; 3; 0; 4 + len opts] ++ opts).
Example lcp_code_ConfigAck : codes Lreq (cr []) = [zn go_pppoe_LCPCodeConfigAck] := eq_refl.
Example lcp_code_ConfigNak : codes Lreq (cr [1; 4; 7; 208]) = [zn go_pppoe_LCPCodeConfigNak] := eq_refl.       (* MRU 2000 *)
Example lcp_code_ConfigReject : codes Lreq (cr [3; 4; 192; 35]) = [zn go_pppoe_LCPCodeConfigReject] := eq_refl.
Example lcp_code_TermRequest : codes Lreq EClose = [zn go_pppoe_LCPCodeTermRequest] := eq_refl.
Example lcp_code_TermAck : codes Lreq (ERecv [zn go_pppoe_LCPCodeTermRequest; 9; 0; 4]) = [zn go_pppoe_LCPCodeTermAck] := eq_refl.
Example lcp_code_CodeReject : codes Lreq (ERecv [99; 9; 0; 4]) = [zn go_pppoe_LCPCodeCodeReject] := eq_refl.
(* Code-Reject of code 1..4 and Protocol-Reject of LCP itself close the link; Echo-Reply / Discard are ignored *)
Example lcp_code_CodeReject_rx : st_n (f_st (next lcp_procs Lreq (ERecv [zn go_pppoe_LCPCodeCodeReject; 9; 0; 5; 1]))) = st_n Closing := eq_refl.
Example lcp_code_ProtoReject_rx :
  st_n (f_st (next lcp_procs Lreq (ERecv ([zn go_pppoe_LCPCodeProtoReject; 9; 0; 6] ++ be_bytes 2 (zn go_pppoe_ProtocolLCP))))) = st_n Closing := eq_refl.
Example lcp_proto_LCP_only :
  st_n (f_st (next lcp_procs Lreq (ERecv ([8; 9; 0; 6] ++ be_bytes 2 (zn go_pppoe_ProtocolLCP + 1))))) = st_n ReqSent := eq_refl.
Example lcp_code_EchoReply_rx : codes Lreq (ERecv [zn go_pppoe_LCPCodeEchoReply; 9; 0; 8; 0; 0; 0; 1]) = [] := eq_refl.
Example lcp_code_DiscardReq_rx : codes Lreq (ERecv [zn go_pppoe_LCPCodeDiscardReq; 9; 0; 8; 0; 0; 0; 1]) = [] := eq_refl.
(* Opened: matching Ack, then the peer's request *)
Definition Lopen : fsm lcpx := run lcp_procs Lreq [ERecv [zn go_pppoe_LCPCodeConfigAck; 1; 0; 4]; cr []].
Example lcp_reaches_Opened : st_n (f_st Lopen) = zn go_pppoe_LCPStateOpened := eq_refl.
Example lcp_code_EchoRequest : codes Lopen EEcho = [zn go_pppoe_LCPCodeEchoRequest] := eq_refl.
Example lcp_code_EchoReply : codes Lopen (ERecv [zn go_pppoe_LCPCodeEchoRequest; 9; 0; 8; 0; 0; 0; 1]) = [zn go_pppoe_LCPCodeEchoReply] := eq_refl.

(* ---- LCP option types (protocol.go LCPOpt constants) and the CHAP protocol number ---- *)
Definition x0 : lcpx := mklcpx 7 1492 49187 5 true true 10 [].
Example lcp_opt_MRU : nth 0 (map ot (lcp_req x0)) 0 = zn go_pppoe_LCPOptMRU := eq_refl.
Example lcp_opt_MagicNumber : nth 1 (map ot (lcp_req x0)) 0 = zn go_pppoe_LCPOptMagicNumber := eq_refl.
Example lcp_opt_AuthProto : nth 2 (map ot (lcp_req x0)) 0 = zn go_pppoe_LCPOptAuthProto := eq_refl.
Example lcp_opt_PFC : nth 3 (map ot (lcp_req x0)) 0 = zn go_pppoe_LCPOptPFC := eq_refl.
Example lcp_opt_ACFC : nth 4 (map ot (lcp_req x0)) 0 = zn go_pppoe_LCPOptACFC := eq_refl.
(* the algorithm byte is appended to the Authentication-Protocol option exactly for CHAP *)
Example lcp_proto_CHAP :
  (len (od (nth 2 (lcp_req (mklcpx 7 1492 (zn go_pppoe_ProtocolCHAP) 5 true true 10 [])) (mkopt 0 []))),
   len (od (nth 2 (lcp_req (mklcpx 7 1492 (zn go_pppoe_ProtocolPAP) 5 true true 10 [])) (mkopt 0 [])))) = (3, 2) := eq_refl.
(* processConfigureOptions accepts the regenerated option types: MRU, magic, PFC, ACFC acked; auth rejected *)
Definition verdict_n (v : verdict) : N := match v with VAck => 0 | VNak _ => 1 | VRej => 2 end.
Example lcp_opt_MRU_rx : verdict_n (snd (lcp_opt x0 (mkopt (zn go_pppoe_LCPOptMRU) [5; 212]))) = 0 := eq_refl.
Example lcp_opt_Magic_rx : verdict_n (snd (lcp_opt x0 (mkopt (zn go_pppoe_LCPOptMagicNumber) [0; 0; 0; 9]))) = 0 := eq_refl.
Example lcp_opt_Auth_rx : verdict_n (snd (lcp_opt x0 (mkopt (zn go_pppoe_LCPOptAuthProto) [192; 35]))) = 2 := eq_refl.
Example lcp_opt_PFC_rx : verdict_n (snd (lcp_opt x0 (mkopt (zn go_pppoe_LCPOptPFC) []))) = 0 := eq_refl.
Example lcp_opt_ACFC_rx : verdict_n (snd (lcp_opt x0 (mkopt (zn go_pppoe_LCPOptACFC) []))) = 0 := eq_refl.

(* ---- IPCP / IPv6CP option types ---- *)
Definition i0 : ipx := mkipx (Some [10; 0; 0; 1]) (Some [10; 0; 0; 2]) (Some [8; 8; 8; 8]) (Some [8; 8; 4; 4]) 10.
Example ipcp_opt_IPAddress : map ot (ipcp_req i0) = [zn go_pppoe_IPCPOptIPAddress] := eq_refl.
Example ipcp_opt_IPAddress_rx : verdict_n (snd (ipcp_opt i0 (mkopt (zn go_pppoe_IPCPOptIPAddress) [10; 0; 0; 2]))) = 0 := eq_refl.
Example ipcp_opt_PrimaryDNS_rx :
  snd (ipcp_opt i0 (mkopt (zn go_pppoe_IPCPOptPrimaryDNS) [0; 0; 0; 0])) = VNak (mkopt (zn go_pppoe_IPCPOptPrimaryDNS) [8; 8; 8; 8]) := eq_refl.
Example ipcp_opt_SecondaryDNS_rx :
  snd (ipcp_opt i0 (mkopt (zn go_pppoe_IPCPOptSecondaryDNS) [0; 0; 0; 0])) = VNak (mkopt (zn go_pppoe_IPCPOptSecondaryDNS) [8; 8; 4; 4]) := eq_refl.
Definition v0 : v6x := mkv6x 77 77 10 [].
Example ipv6cp_opt_InterfaceID : map ot (v6_req v0) = [zn go_pppoe_IPV6CPOptInterfaceID] := eq_refl.
Example ipv6cp_opt_InterfaceID_rx : verdict_n (snd (v6_opt v0 (mkopt (zn go_pppoe_IPV6CPOptInterfaceID) (be_bytes 8 5)))) = 0 := eq_refl.

(* ---- the value-level policies of Model/FsmOpts.v (specification side of the T4x theorems) speak about the same option types ---- *)
Example lcp_policy_MRU :
  (lcp_acceptable 7 (mkopt (zn go_pppoe_LCPOptMRU) [0; 64]), lcp_offending 7 (mkopt (zn go_pppoe_LCPOptMRU) [0; 63]),
   lcp_rejectable (mkopt (zn go_pppoe_LCPOptMRU) [0])) = (true, true, true) := eq_refl.
Example lcp_policy_MagicNumber :
  (lcp_acceptable 7 (mkopt (zn go_pppoe_LCPOptMagicNumber) [0; 0; 0; 9]), lcp_offending 7 (mkopt (zn go_pppoe_LCPOptMagicNumber) [0; 0; 0; 7]),
   lcp_offending 7 (mkopt (zn go_pppoe_LCPOptMagicNumber) [0; 0; 0; 0])) = (true, true, true) := eq_refl.
Example lcp_policy_AuthProto : lcp_rejectable (mkopt (zn go_pppoe_LCPOptAuthProto) [192; 35]) = true := eq_refl.
Example lcp_policy_PFC :
  (lcp_acceptable 7 (mkopt (zn go_pppoe_LCPOptPFC) []), lcp_rejectable (mkopt (zn go_pppoe_LCPOptPFC) [0])) = (true, true) := eq_refl.
Example lcp_policy_ACFC :
  (lcp_acceptable 7 (mkopt (zn go_pppoe_LCPOptACFC) []), lcp_rejectable (mkopt (zn go_pppoe_LCPOptACFC) [0])) = (true, true) := eq_refl.
Example lcp_policy_default_MRU_is_max :
  (lcp_acceptable 7 (mkopt 1 (be_bytes 2 (zn dflt_pppoe_DefaultLCPConfig_MRU))),
   lcp_offending 7 (mkopt 1 (be_bytes 2 (zn dflt_pppoe_DefaultLCPConfig_MRU + 1))), lcp_mru_max) = (true, true, zn dflt_pppoe_DefaultLCPConfig_MRU) := eq_refl.
Example ipcp_policy_IPAddress :
  (ipcp_acceptable i0 (mkopt (zn go_pppoe_IPCPOptIPAddress) [10; 0; 0; 2]), ipcp_offending i0 (mkopt (zn go_pppoe_IPCPOptIPAddress) [10; 0; 0; 3]),
   ipcp_suggests i0 (mkopt (zn go_pppoe_IPCPOptIPAddress) [0; 0; 0; 0]) (mkopt (zn go_pppoe_IPCPOptIPAddress) [10; 0; 0; 2])) = (true, true, true) := eq_refl.
Example ipcp_policy_PrimaryDNS :
  (ipcp_offending i0 (mkopt (zn go_pppoe_IPCPOptPrimaryDNS) [0; 0; 0; 0]),
   ipcp_suggests i0 (mkopt (zn go_pppoe_IPCPOptPrimaryDNS) [0; 0; 0; 0]) (mkopt (zn go_pppoe_IPCPOptPrimaryDNS) [8; 8; 8; 8])) = (true, true) := eq_refl.
Example ipcp_policy_SecondaryDNS :
  (ipcp_offending i0 (mkopt (zn go_pppoe_IPCPOptSecondaryDNS) [0; 0; 0; 0]),
   ipcp_suggests i0 (mkopt (zn go_pppoe_IPCPOptSecondaryDNS) [0; 0; 0; 0]) (mkopt (zn go_pppoe_IPCPOptSecondaryDNS) [8; 8; 4; 4])) = (true, true) := eq_refl.
Example ipcp_policy_IPCompression_rejected :
  (ipcp_rejectable i0 (mkopt (zn go_pppoe_IPCPOptIPCompression) [0; 45; 15; 1]), ipcp_rejectable i0 (mkopt (zn go_pppoe_IPCPOptIPAddresses) [0; 0; 0; 0])) = (true, true) := eq_refl.
Example ipv6cp_policy_InterfaceID :
  (v6_acceptable 77 (mkopt (zn go_pppoe_IPV6CPOptInterfaceID) (be_bytes 8 5)), v6_offending 77 (mkopt (zn go_pppoe_IPV6CPOptInterfaceID) (be_bytes 8 77)),
   v6_offending 77 (mkopt (zn go_pppoe_IPV6CPOptInterfaceID) (be_bytes 8 0))) = (true, true, true) := eq_refl.

(* ---- defaults measured from the real constructors ---- *)
(* NCP restart counter: MaxRetransmit 0 is replaced by the literal 10 (ipcp.go:671, ipv6cp.go:607); the
   default configuration asks for the same count, so both routes give the same number of requests *)
Example ipcp_default_MaxRetransmit : ncp_irc 0 = ncp_irc dflt_pppoe_DefaultIPCPConfig_MaxRetransmit := eq_refl.
Example ipv6cp_default_MaxRetransmit : ncp_irc 0 = ncp_irc dflt_pppoe_DefaultIPV6CPConfig_MaxRetransmit := eq_refl.
(* the default MRU is the largest MRU processConfigureOptions acknowledges (PPPoE limit, lcp.go:404) *)
Example lcp_default_MRU_acked : verdict_n (snd (lcp_opt x0 (mkopt 1 (be_bytes 2 (zn dflt_pppoe_DefaultLCPConfig_MRU))))) = 0 := eq_refl.
Example lcp_default_MRU_is_max :
  snd (lcp_opt x0 (mkopt 1 (be_bytes 2 (zn dflt_pppoe_DefaultLCPConfig_MRU + 1)))) = VNak (mkopt 1 (be_bytes 2 (zn dflt_pppoe_DefaultLCPConfig_MRU))) := eq_refl.
(* the default authentication protocol is PAP, the one x0 / L0 above are built with *)
Example lcp_default_AuthProtocol : lx_auth x0 = zn dflt_pppoe_DefaultLCPConfig_AuthProtocol := eq_refl.
Example lcp_default_MaxConfigure : lx_maxcfg x0 = dflt_pppoe_DefaultLCPConfig_MaxConfigure := eq_refl.

(* not tied: 64 (minimum MRU) in Lcp.lcp_opt / lcp_nak1 ~ bare literal in lcp.go:404/571 (no named constant)
   not tied: 1492 in Lcp.lcp_opt / lcp_nak1 ~ bare literal in lcp.go:404/414/571 (tied above only through DefaultLCPConfig.MRU)
   not tied: 256 / 65536 (identifier and length wrap) in Fsm.scr / packet ~ uint8 / uint16 arithmetic, no constant
   not tied: strings "Admin close", "Timeout", "LCP rejected" in Fsm.str_admin etc ~ string literals (strings are not translated)
   not tied: MaxTerminate / MaxFailure of DefaultLCPConfig are unused by the code and by the Model *)
