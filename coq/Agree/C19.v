(* C19 — constants of Model/TcQos.v and Model/QosMgr.v against the constants regenerated from the
   working tree on this run (VerifRun.Consts; docs/HOWTO.md §6).  Source: bpf/qos_ratelimit.c
   (TC_ACT_x verdicts, ETH_P_IP), pkg/qos/manager.go (burst clamp, bare literals), pkg/radius/policy.go
   DefaultPolicies() (measured by harness/consts_defaults: the table the Model copies).
   Compiled per run by lib/verif.py consts_check, not by the main build. *)
From Coq Require Import ZArith NArith List Bool.
From Verif Require Import Base.Word Model.TcQos Model.QosMgr.
From VerifRun Require Import Consts.
Import ListNotations.
Local Open Scope N_scope.

Definition zn (z : Z) : N := Z.to_N z.

(* ---- TC verdicts and the EtherType test of the kernel program ---- *)
Example tc_TC_ACT_OK : TC_ACT_OK = zn c_qos_ratelimit_TC_ACT_OK := eq_refl.
Example tc_TC_ACT_SHOT : TC_ACT_SHOT = zn c_qos_ratelimit_TC_ACT_SHOT := eq_refl.
(* an empty bucket at rate 8 bit/s: the subscriber's IPv4 frame is shot, the same frame with another EtherType passes *)
Definition ip1 : bytes := [10; 0; 0; 1].
Definition empty_bucket : bytes := tb_encode {| tokens := 0; last := 0; rate := 8; burst := 0; prio := 0 |}.
Definition frame_et (et : N) : bytes :=
  [255;255;255;255;255;255; 2;0;0;0;0;1] ++ be_bytes 2 et ++ [69;0;0;84; 0;0;0;0; 64;17;0;0] ++ other_end ++ ip1.
Definition vcode_of (f : bytes) : N := vcode (snd (fst (qos_prog Egress [(ip1, empty_bucket)] f 100 0 0))).
Example eth_ETH_P_IP : vcode_of (frame_et (zn c_qos_ratelimit_ETH_P_IP)) = zn c_qos_ratelimit_TC_ACT_SHOT := eq_refl.
Example eth_other_passes : vcode_of (frame_et (zn c_qos_ratelimit_ETH_P_IP + 1)) = zn c_qos_ratelimit_TC_ACT_OK := eq_refl.

(* ---- radius.DefaultPolicies(): every number of the Model's copy against the value the real
   constructor returned on this run ---- *)
Example policy_count : Z.of_nat (length default_policies) = dflt_radius_DefaultPolicies_len := eq_refl.
Definition pol_at (i : nat) : pol := snd (nth i default_policies ([], (0, 0, 0, 0))).
Definition pol_field (j : nat) (p : pol) : N :=
  match j with O => fst (fst (fst p)) | 1%nat => snd (fst (fst p)) | 2%nat => snd (fst p) | _ => snd p end.
Example policy_0_DownloadBPS : pol_field 0 (pol_at 0) = zn dflt_radius_DefaultPolicies_0_DownloadBPS := eq_refl.
Example policy_0_UploadBPS : pol_field 1 (pol_at 0) = zn dflt_radius_DefaultPolicies_0_UploadBPS := eq_refl.
Example policy_0_BurstSize : pol_field 2 (pol_at 0) = zn dflt_radius_DefaultPolicies_0_BurstSize := eq_refl.
Example policy_0_Priority : pol_field 3 (pol_at 0) = zn dflt_radius_DefaultPolicies_0_Priority := eq_refl.
Example policy_1_DownloadBPS : pol_field 0 (pol_at 1) = zn dflt_radius_DefaultPolicies_1_DownloadBPS := eq_refl.
Example policy_1_UploadBPS : pol_field 1 (pol_at 1) = zn dflt_radius_DefaultPolicies_1_UploadBPS := eq_refl.
Example policy_1_BurstSize : pol_field 2 (pol_at 1) = zn dflt_radius_DefaultPolicies_1_BurstSize := eq_refl.
Example policy_1_Priority : pol_field 3 (pol_at 1) = zn dflt_radius_DefaultPolicies_1_Priority := eq_refl.
Example policy_2_DownloadBPS : pol_field 0 (pol_at 2) = zn dflt_radius_DefaultPolicies_2_DownloadBPS := eq_refl.
Example policy_2_UploadBPS : pol_field 1 (pol_at 2) = zn dflt_radius_DefaultPolicies_2_UploadBPS := eq_refl.
Example policy_2_BurstSize : pol_field 2 (pol_at 2) = zn dflt_radius_DefaultPolicies_2_BurstSize := eq_refl.
Example policy_2_Priority : pol_field 3 (pol_at 2) = zn dflt_radius_DefaultPolicies_2_Priority := eq_refl.
Example policy_3_DownloadBPS : pol_field 0 (pol_at 3) = zn dflt_radius_DefaultPolicies_3_DownloadBPS := eq_refl.
Example policy_3_UploadBPS : pol_field 1 (pol_at 3) = zn dflt_radius_DefaultPolicies_3_UploadBPS := eq_refl.
Example policy_3_BurstSize : pol_field 2 (pol_at 3) = zn dflt_radius_DefaultPolicies_3_BurstSize := eq_refl.
Example policy_3_Priority : pol_field 3 (pol_at 3) = zn dflt_radius_DefaultPolicies_3_Priority := eq_refl.
Example policy_4_DownloadBPS : pol_field 0 (pol_at 4) = zn dflt_radius_DefaultPolicies_4_DownloadBPS := eq_refl.
Example policy_4_UploadBPS : pol_field 1 (pol_at 4) = zn dflt_radius_DefaultPolicies_4_UploadBPS := eq_refl.
Example policy_4_BurstSize : pol_field 2 (pol_at 4) = zn dflt_radius_DefaultPolicies_4_BurstSize := eq_refl.
Example policy_4_Priority : pol_field 3 (pol_at 4) = zn dflt_radius_DefaultPolicies_4_Priority := eq_refl.
Example policy_5_DownloadBPS : pol_field 0 (pol_at 5) = zn dflt_radius_DefaultPolicies_5_DownloadBPS := eq_refl.
Example policy_5_UploadBPS : pol_field 1 (pol_at 5) = zn dflt_radius_DefaultPolicies_5_UploadBPS := eq_refl.
Example policy_5_BurstSize : pol_field 2 (pol_at 5) = zn dflt_radius_DefaultPolicies_5_BurstSize := eq_refl.
Example policy_5_Priority : pol_field 3 (pol_at 5) = zn dflt_radius_DefaultPolicies_5_Priority := eq_refl.
Example policy_6_DownloadBPS : pol_field 0 (pol_at 6) = zn dflt_radius_DefaultPolicies_6_DownloadBPS := eq_refl.
Example policy_6_UploadBPS : pol_field 1 (pol_at 6) = zn dflt_radius_DefaultPolicies_6_UploadBPS := eq_refl.
Example policy_6_BurstSize : pol_field 2 (pol_at 6) = zn dflt_radius_DefaultPolicies_6_BurstSize := eq_refl.
Example policy_6_Priority : pol_field 3 (pol_at 6) = zn dflt_radius_DefaultPolicies_6_Priority := eq_refl.
Example policy_7_DownloadBPS : pol_field 0 (pol_at 7) = zn dflt_radius_DefaultPolicies_7_DownloadBPS := eq_refl.
Example policy_7_UploadBPS : pol_field 1 (pol_at 7) = zn dflt_radius_DefaultPolicies_7_UploadBPS := eq_refl.
Example policy_7_BurstSize : pol_field 2 (pol_at 7) = zn dflt_radius_DefaultPolicies_7_BurstSize := eq_refl.
Example policy_7_Priority : pol_field 3 (pol_at 7) = zn dflt_radius_DefaultPolicies_7_Priority := eq_refl.

(* not tied: 1000000000 in TcQos.G ~ bare literal 1000000000ULL in bpf/qos_ratelimit.c:86 (no #define)
   not tied: rate / 8 (TcQos.rate8: shift by 3) ~ bare literal 8 in bpf/qos_ratelimit.c:86 and pkg/qos/manager.go:184,203
   not tied: 65536 and 10485760 in QosMgr.clamp_burst ~ bare literals 65536 / 10*1024*1024 in pkg/qos/manager.go:185-189,204-208
   not tied: 14 / 34 (header ends), offsets 12, 26, 30 in TcQos.qos_lookup ~ sizeof(struct ethhdr / iphdr), offsetof saddr / daddr (system headers)
   not tied: 32-byte value, field offsets 0 / 8 / 16 / 24 / 28 in TcQos.tb_decode / tb_encode ~ struct token_bucket layout (regenerated by gen_layouts for C06)
   not tied: 4294967295 (skb->len is __u32) in TcQos.qos_prog ~ C type width
   not tied: policy names of QosMgr.default_policies ~ string literals (strings are not translated)
   not tied: c_qos_ratelimit_MAX_SUBSCRIBERS (map capacity) ~ the Model's maps are unbounded
   not tied: ghost markers 1901..1904 ~ verification-only numbers *)
