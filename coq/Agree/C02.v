(* C02 — constants of Model/Dhcp6.v against the constants regenerated from the working tree on this
   run (VerifRun.Consts; docs/HOWTO.md §6).  Source: pkg/dhcpv6/protocol.go (Status codes).
   Model/Dhcp4.v works on interned messages (constructors Discover / Request / ..., replies ROffer /
   RAck / RNak): it contains no protocol number; pkg/dhcp has no integer constant the Model uses.
   Compiled per run by lib/verif.py consts_check, not by the main build. *)
From Coq Require Import ZArith NArith List Bool.
From Verif Require Import Model.Dhcp6.
From VerifRun Require Import Consts.
Import ListNotations.
Local Open Scope N_scope.

Definition zn (z : Z) : N := Z.to_N z.

(* a server whose pools are empty (no address, no prefix) and one with one address *)
Definition c_empty : cfg6 := {| a_base := 1000; a_size := 1; p_base := 5000; p_step := 16; p_count := 0; c_valid := 3600 |}.
Definition c_one : cfg6 := {| a_base := 1000; a_size := 3; p_base := 5000; p_step := 16; p_count := 1; c_valid := 3600 |}.
Definition rep (c : cfg6) (ops : list op6) (o : op6) : reply6 := snd (fst (step6 c (run6 c ops) o)).

Example status_NoAddrsAvail : rep c_empty [] (Request6 7 true true false) = R6Reply (IaErr (zn go_dhcpv6_StatusNoAddrsAvail)) IaNone false := eq_refl.
Example status_NoPrefixAvail : rep c_empty [] (Request6 7 true false true) = R6Reply IaNone (IaErr (zn go_dhcpv6_StatusNoPrefixAvail)) false := eq_refl.
Example status_NoBinding_renew : rep c_one [] (Renew 7 true false) = R6Status (zn go_dhcpv6_StatusNoBinding) := eq_refl.
Example status_NoBinding_rebind : rep c_one [] (Rebind 7 true false) = R6Status (zn go_dhcpv6_StatusNoBinding) := eq_refl.
Example status_Success_release : rep c_one [] (Release6 7) = R6Status (zn go_dhcpv6_StatusSuccess) := eq_refl.
Example status_Success_decline : rep c_one [] (Decline6 7) = R6Status (zn go_dhcpv6_StatusSuccess) := eq_refl.
Example status_Success_confirm : rep c_one [] (Confirm 7 (Some 1001)) = R6Status (zn go_dhcpv6_StatusSuccess) := eq_refl.
Example status_NotOnLink_confirm : rep c_one [] (Confirm 7 (Some 9999)) = R6Status (zn go_dhcpv6_StatusNotOnLink) := eq_refl.

(* not tied: 1000 (pool pre-generation limit) in Dhcp6.init_aavail / init_pavail ~ bare literals in pkg/dhcpv6/server.go:212,278-279
   not tied: message kinds of Dhcp6.op6 / reply6 (Solicit, Request, Renew, Rebind, Confirm, Release, Decline, Information-Request; Advertise, Reply) are constructors: the driver maps go_dhcpv6_MsgTypeX numbers to them, the Model holds no number
   not tied: option codes go_dhcpv6_OptX ~ parsing is the driver's (and C09's codec Models), not this Model's
   not tied: Dhcp4 message kinds / reply kinds ~ constructors; DHCPv4 option and message-type numbers come from github.com/insomniacslk/dhcp (third party, not regenerated)
   not tied: lease lifetimes (Dhcp6.c_valid, Dhcp4 c_lease) are configuration parameters carried by each case
   not tied: ghost markers 0201, 0211, 0212 ~ verification-only numbers *)
