(* C09 — constants of the decoder Models (Model/CodecPPPoE.v, CodecLcp.v, CodecAuth.v) against the
   constants regenerated from the working tree on this run (VerifRun.Consts; docs/HOWTO.md §6).
   Source: pkg/pppoe/protocol.go (PPPoE codes, tags, PPP protocol numbers, LCP / PAP / CHAP codes),
   pkg/pppoe/lcp.go (LCPState).  The Models use bare literals; each Example feeds a decoder a
   packet built from the regenerated constants and states the row it must produce.
   Compiled per run by lib/verif.py consts_check, not by the main build. *)
From Coq Require Import ZArith NArith List Bool.
From Verif Require Import Model.CodecBase Model.CodecPPPoE Model.CodecLcp Model.CodecAuth.
From VerifRun Require Import Consts.
Import ListNotations.
Local Open Scope N_scope.

Definition zn (z : Z) : N := Z.to_N z.
Definition b16 (v : N) : bytes := [v / 256; v mod 256].
Definition tag (t : N) (v : bytes) : bytes := b16 t ++ b16 (lenN v) ++ v.
Definition disc (code sid : N) (payload : bytes) : bytes := [17; code] ++ b16 sid ++ b16 (lenN payload) ++ payload.

(* ---- discovery: handleDiscovery / ParsePADT ---- *)
Example disc_PADI_gets_PADO : handle_discovery 0 (disc (zn go_pppoe_CodePADI) 0 []) [] = Ok [[zn go_pppoe_CodePADO; 0; 3]; [0]] := eq_refl.
Example disc_TagHostUniq_echoed :
  handle_discovery 0 (disc (zn go_pppoe_CodePADI) 0 (tag (zn go_pppoe_TagHostUniq) [5; 6])) [] = Ok [[zn go_pppoe_CodePADO; 0; 4; 5; 6]; [0]] := eq_refl.
Example disc_TagServiceName_filter :
  handle_discovery 0 (disc (zn go_pppoe_CodePADI) 0 (tag (zn go_pppoe_TagServiceName) [120])) [] = Ok [[0]] := eq_refl.
Example disc_PADR_gets_PADS :
  handle_discovery 0 (disc (zn go_pppoe_CodePADR) 0 (tag (zn go_pppoe_TagACCookie) [1])) [] = Ok [[zn go_pppoe_CodePADS; 1; 1]; [1]] := eq_refl.
Example disc_PADR_without_TagACCookie : handle_discovery 0 (disc (zn go_pppoe_CodePADR) 0 (tag (zn go_pppoe_TagACCookie + 1) [1])) [] = Ok [[0]] := eq_refl.
Example disc_PADT_ends_session : handle_discovery 5 (disc (zn go_pppoe_CodePADT) 5 []) [] = Ok [[0]] := eq_refl.
Example disc_other_code_ignored : handle_discovery 5 (disc (zn go_pppoe_CodePADT + 1) 5 []) [] = Ok [[1]] := eq_refl.
Example padt_CodePADT : parse_padt (disc (zn go_pppoe_CodePADT) 5 []) [] = Ok [[5]] := eq_refl.
Example padt_other_code : parse_padt (disc (zn go_pppoe_CodePADS) 5 []) [] = Ok [[0]] := eq_refl.
Example tags_TagEndOfList_stops : parse_tags (tag (zn go_pppoe_TagEndOfList) [] ++ tag 258 [1]) = parse_tags (tag (zn go_pppoe_TagEndOfList) []) := eq_refl.

(* ---- session frames: handleSession dispatch on the PPP protocol number ---- *)
Definition sessf (proto : N) (p : bytes) : bytes := [17; 0] ++ b16 5 ++ b16 (2 + lenN p) ++ b16 proto ++ p.
Definition ctl (code id : N) (data : bytes) : bytes := [code; id] ++ b16 (4 + lenN data) ++ data.
Example sess_ProtocolLCP_ConfigRequest_acked :
  handle_session 5 0 (sessf (zn go_pppoe_ProtocolLCP) (ctl (zn go_pppoe_LCPCodeConfigRequest) 7 [])) []
  = Ok [[zn go_pppoe_ProtocolLCP; zn go_pppoe_LCPCodeConfigAck; 7]; [1]] := eq_refl.
Example sess_LCP_ConfigNak_new_request :
  handle_session 5 0 (sessf (zn go_pppoe_ProtocolLCP) (ctl (zn go_pppoe_LCPCodeConfigNak) 7 [])) []
  = Ok [[zn go_pppoe_ProtocolLCP; zn go_pppoe_LCPCodeConfigRequest; 0]; [1]] := eq_refl.
Example sess_LCP_EchoRequest_replied :
  handle_session 5 0 (sessf (zn go_pppoe_ProtocolLCP) (ctl (zn go_pppoe_LCPCodeEchoRequest) 7 [])) []
  = Ok [[zn go_pppoe_ProtocolLCP; zn go_pppoe_LCPCodeEchoReply; 7]; [1]] := eq_refl.
Example sess_LCP_TermRequest_acked :
  handle_session 5 0 (sessf (zn go_pppoe_ProtocolLCP) (ctl (zn go_pppoe_LCPCodeTermRequest) 7 [])) []
  = Ok [[zn go_pppoe_ProtocolLCP; zn go_pppoe_LCPCodeTermAck; 7]; [0]] := eq_refl.
Example sess_ProtocolPAP_AuthRequest_acked :
  handle_session 5 0 (sessf (zn go_pppoe_ProtocolPAP) (ctl (zn go_pppoe_PAPCodeAuthRequest) 7 [1; 97; 1; 98])) []
  = Ok [[zn go_pppoe_ProtocolPAP; zn go_pppoe_PAPCodeAuthAck; 7] ++ login_ok; [1]] := eq_refl.
Example sess_ProtocolIPCP_ConfigRequest_acked :
  handle_session 5 1 (sessf (zn go_pppoe_ProtocolIPCP) (ctl (zn go_pppoe_LCPCodeConfigRequest) 7 [])) []
  = Ok [[zn go_pppoe_ProtocolIPCP; zn go_pppoe_LCPCodeConfigAck; 7]; [1]] := eq_refl.
Example sess_ProtocolIP_not_dispatched :
  handle_session 5 1 (sessf (zn go_pppoe_ProtocolIP) (ctl 1 7 [])) [] = Ok [[1]] := eq_refl.
Example sess_ProtocolIPv6CP_not_dispatched :
  handle_session 5 1 (sessf (zn go_pppoe_ProtocolIPv6CP) (ctl 1 7 [])) [] = Ok [[1]] := eq_refl.

(* ---- auth.go: PAP / CHAP receive paths ---- *)
Example auth_ProtocolPAP :
  auth_receive (zn go_pppoe_ProtocolPAP) 0 (ctl (zn go_pppoe_PAPCodeAuthRequest) 7 [1; 97; 1; 98]) = Ok [[zn go_pppoe_PAPCodeAuthAck; 7]; [97]] := eq_refl.
Example auth_PAP_other_code_ignored :
  auth_receive (zn go_pppoe_ProtocolPAP) 0 (ctl (zn go_pppoe_PAPCodeAuthAck) 7 [1; 97; 1; 98]) = Ok [] := eq_refl.
Example auth_ProtocolCHAP :
  auth_receive (zn go_pppoe_ProtocolCHAP) 7 (ctl (zn go_pppoe_CHAPCodeResponse) 7 [1; 9; 97]) = Ok [[zn go_pppoe_CHAPCodeSuccess; 7]; [97]] := eq_refl.
Example auth_CHAP_other_code_ignored :
  auth_receive (zn go_pppoe_ProtocolCHAP) 7 (ctl (zn go_pppoe_CHAPCodeChallenge) 7 [1; 9; 97]) = Ok [] := eq_refl.
Example auth_other_protocol_refused : auth_receive (zn go_pppoe_ProtocolLCP) 7 (ctl 1 7 []) = Err := eq_refl.

(* ---- lcp.go ReceivePacket: codes and the Opened state number ---- *)
Definition opened : N := zn go_pppoe_LCPStateOpened.
Example lcp_EchoRequest_in_Opened :
  lcp_receive opened 0 (ctl (zn go_pppoe_LCPCodeEchoRequest) 7 [0; 0; 0; 1; 9]) = Ok [[zn go_pppoe_LCPCodeEchoReply; 7]; [9]] := eq_refl.
Example lcp_EchoRequest_not_Opened :
  lcp_receive (zn go_pppoe_LCPStateAckSent) 0 (ctl (zn go_pppoe_LCPCodeEchoRequest) 7 [0; 0; 0; 1; 9]) = Ok [] := eq_refl.
Example lcp_EchoReply_ignored : lcp_receive opened 0 (ctl (zn go_pppoe_LCPCodeEchoReply) 7 [0; 0; 0; 1]) = Ok [] := eq_refl.
Example lcp_DiscardReq_ignored : lcp_receive opened 0 (ctl (zn go_pppoe_LCPCodeDiscardReq) 7 [0; 0; 0; 1]) = Ok [] := eq_refl.
Example lcp_ConfigAck_no_reads : lcp_receive opened 0 (ctl (zn go_pppoe_LCPCodeConfigAck) 7 [9]) = Ok [] := eq_refl.
Example lcp_TermRequest_no_reads : lcp_receive opened 0 (ctl (zn go_pppoe_LCPCodeTermRequest) 7 [9]) = Ok [] := eq_refl.
Example lcp_TermAck_no_reads : lcp_receive opened 0 (ctl (zn go_pppoe_LCPCodeTermAck) 7 [9]) = Ok [] := eq_refl.
Example lcp_unknown_code_gets_CodeReject :
  lcp_receive opened 0 (ctl 77 7 []) = Ok [[zn go_pppoe_LCPCodeCodeReject]; ctl 77 7 []] := eq_refl.
(* Code-Reject of a critical code and Protocol-Reject of LCP itself close the link; of anything else not *)
Example lcp_CodeReject_critical :
  (lcp_receive opened 0 (ctl (zn go_pppoe_LCPCodeCodeReject) 7 [zn go_pppoe_LCPCodeConfigReject]),
   lcp_receive opened 0 (ctl (zn go_pppoe_LCPCodeCodeReject) 7 [zn go_pppoe_LCPCodeTermRequest]))
  = (Ok (close_rows true opened reason_code), Ok (close_rows false opened reason_code)) := eq_refl.
Example lcp_ProtoReject_of_ProtocolLCP :
  (lcp_receive opened 0 (ctl (zn go_pppoe_LCPCodeProtoReject) 7 (b16 (zn go_pppoe_ProtocolLCP))),
   lcp_receive opened 0 (ctl (zn go_pppoe_LCPCodeProtoReject) 7 (b16 (zn go_pppoe_ProtocolIPCP))))
  = (Ok (close_rows true opened reason_lcp), Ok (close_rows false opened reason_lcp)) := eq_refl.
Example lcp_close_rows_differ : Nat.eqb (length (close_rows true opened reason_lcp)) (length (close_rows false opened reason_lcp)) = false := eq_refl.

(* not tied: 65536 / 65537 / restart at 1 in CodecPPPoE.next_id, id_fuel ~ uint16 arithmetic and bare literals of session.go CreateSession
   not tied: header length 6, minimum session frame 8, PPP packet header 4 in CodecPPPoE ~ bare literals of protocol.go / server.go
   not tied: version/type byte 17 (0x11) of the frames above ~ the Models do not test it (ParsePPPoEHeader does not)
   not tied: svc_name "internet", login_ok "Login OK", reason strings ~ string literals (strings are not translated)
   not tied: option kinds 0 / 1 / 2 / 9 of CodecLcp.opt_reads (which option bytes a handler reads) ~ Model-internal numbering
   not tied: DHCPv6 option / message codes in CodecDhcp6, RADIUS / ALG literals in CodecMisc, CodecGlue ~ not covered by this file yet (owner: name the constants or add Examples): go_dhcpv6_OptX, go_dhcpv6_MsgTypeX, go_radius_x
   not tied: row markers 99 / 0 in the result rows ~ Model-internal *)
