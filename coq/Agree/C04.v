(* C04 — constants of Model/PPPoESrv.v against the constants regenerated from the working tree on
   this run (VerifRun.Consts; docs/HOWTO.md §6).  Source: pkg/pppoe/protocol.go (PPPoE codes, tags,
   PPP protocol numbers, LCP / PAP codes, option types), pkg/pppoe/session.go (SessionState).
   Named Model constants are compared directly; literals inside the handlers are observed on the
   frames the Model emits.  Compiled per run by lib/verif.py consts_check, not by the main build. *)
From Coq Require Import ZArith NArith List Bool.
From Verif Require Import Base.Word Model.PPPoESrv.
From VerifRun Require Import Consts.
Import ListNotations.
Local Open Scope N_scope.

Definition zn (z : Z) : N := Z.to_N z.

(* ---- named constants of the Model ---- *)
Example pppoe_CodePADI : CodePADI = zn go_pppoe_CodePADI := eq_refl.
Example pppoe_CodePADO : CodePADO = zn go_pppoe_CodePADO := eq_refl.
Example pppoe_CodePADR : CodePADR = zn go_pppoe_CodePADR := eq_refl.
Example pppoe_CodePADS : CodePADS = zn go_pppoe_CodePADS := eq_refl.
Example pppoe_CodePADT : CodePADT = zn go_pppoe_CodePADT := eq_refl.
Example pppoe_TagServiceName : TagServiceName = zn go_pppoe_TagServiceName := eq_refl.
Example pppoe_TagACName : TagACName = zn go_pppoe_TagACName := eq_refl.
Example pppoe_TagHostUniq : TagHostUniq = zn go_pppoe_TagHostUniq := eq_refl.
Example pppoe_TagACCookie : TagACCookie = zn go_pppoe_TagACCookie := eq_refl.
Example ppp_ProtocolLCP : ProtoLCP = zn go_pppoe_ProtocolLCP := eq_refl.
Example ppp_ProtocolPAP : ProtoPAP = zn go_pppoe_ProtocolPAP := eq_refl.
Example ppp_ProtocolIPCP : ProtoIPCP = zn go_pppoe_ProtocolIPCP := eq_refl.
Example ppp_ProtocolIP : ProtoIP = zn go_pppoe_ProtocolIP := eq_refl.
Example sess_StateDiscovery : StDiscovery = zn go_pppoe_StateDiscovery := eq_refl.
Example sess_StateLCPNegotiation : StLCP = zn go_pppoe_StateLCPNegotiation := eq_refl.
Example sess_StateAuthentication : StAuth = zn go_pppoe_StateAuthentication := eq_refl.
Example sess_StateIPCPNegotiation : StIPCP = zn go_pppoe_StateIPCPNegotiation := eq_refl.
Example sess_StateEstablished : StEstablished = zn go_pppoe_StateEstablished := eq_refl.
Example sess_StateTerminating : StTerminating = zn go_pppoe_StateTerminating := eq_refl.
Example sess_StateClosed : StClosed = zn go_pppoe_StateClosed := eq_refl.

(* ---- literals inside the handlers, observed on emitted frames ---- *)
Definition cfg (chap : bool) : config :=
  {| c_mac := 1; c_service := []; c_acname := [65]; c_chap := chap; c_mru := 1492; c_radius := false;
     c_has_pool := true; c_pool := [167772162]; c_server_ip := 167772161; c_dns1 := Some 134744072; c_dns2 := Some 134743044 |}.
Definition s0 : sess :=
  {| s_id := 1; s_mac := 77; s_state := StLCP; s_auth := false; s_ip := None; s_lcpid := 0; s_pin := 0; s_pout := 0; s_inst := 0;
     s_hu := None; s_svc := []; s_user := [] |}.
Definition payload (f : eframe) : bytes := match f with ESess _ _ _ d => d | EDisc _ _ _ _ => [] end.
Definition proto_of (f : eframe) : N := match f with ESess _ _ p _ => p | EDisc _ _ _ _ => 0 end.
Definition frames (r : sres) : list eframe := r_frames r.
Definition first_payload (r : sres) : bytes := match frames r with f :: _ => payload f | [] => [] end.
Definition st0 : state := init (cfg false).

(* startLCPNegotiation: Configure-Request carrying MRU, Magic-Number, Authentication-Protocol *)
Definition lcpreq (chap : bool) : bytes := payload (snd (lcp_request (cfg chap) s0)).
Example lcp_req_code_ConfigRequest : nth 0 (lcpreq false) 99 = zn go_pppoe_LCPCodeConfigRequest := eq_refl.
Example lcp_req_opt_MRU : nth 4 (lcpreq false) 99 = zn go_pppoe_LCPOptMRU := eq_refl.
Example lcp_req_opt_MagicNumber : nth 8 (lcpreq false) 99 = zn go_pppoe_LCPOptMagicNumber := eq_refl.
Example lcp_req_opt_AuthProto : nth 14 (lcpreq false) 99 = zn go_pppoe_LCPOptAuthProto := eq_refl.
Example lcp_req_auth_PAP : firstn 2 (skipn 16 (lcpreq false)) = be_bytes 2 (zn go_pppoe_ProtocolPAP) := eq_refl.
Example lcp_req_auth_CHAP : firstn 2 (skipn 16 (lcpreq true)) = be_bytes 2 (zn go_pppoe_ProtocolCHAP) := eq_refl.
Example lcp_req_auth_CHAPAlgorithmMD5 : nth 18 (lcpreq true) 99 = zn go_pppoe_CHAPAlgorithmMD5 := eq_refl.
Example lcp_req_default_MRU : c_mru (cfg false) = zn dflt_pppoe_DefaultLCPConfig_MRU := eq_refl.

(* handleLCP: dispatch on the regenerated codes *)
Definition lcp_in (code : Z) : sres := handle_lcp (cfg false) st0 s0 [zn code; 7; 0; 4].
Example lcp_rx_ConfigRequest_acked : first_payload (lcp_in go_pppoe_LCPCodeConfigRequest) = [zn go_pppoe_LCPCodeConfigAck; 7; 0; 4] := eq_refl.
Example lcp_rx_ConfigAck_to_Authentication :
  option_map s_state (r_sess (lcp_in go_pppoe_LCPCodeConfigAck)) = Some (zn go_pppoe_StateAuthentication) := eq_refl.
Example lcp_rx_ConfigNak_new_request : nth 0 (first_payload (lcp_in go_pppoe_LCPCodeConfigNak)) 99 = zn go_pppoe_LCPCodeConfigRequest := eq_refl.
Example lcp_rx_EchoRequest_replied : nth 0 (first_payload (lcp_in go_pppoe_LCPCodeEchoRequest)) 99 = zn go_pppoe_LCPCodeEchoReply := eq_refl.
Example lcp_rx_TermRequest_acked :
  (nth 0 (first_payload (lcp_in go_pppoe_LCPCodeTermRequest)) 99, r_sess (lcp_in go_pppoe_LCPCodeTermRequest)) = (zn go_pppoe_LCPCodeTermAck, None) := eq_refl.
Example lcp_rx_ConfigReject_ignored : frames (lcp_in go_pppoe_LCPCodeConfigReject) = [] := eq_refl.

(* handlePAP: Authenticate-Request in, Ack / Nak out, on protocol PAP; then the IPCP request *)
Definition pap_in (code : Z) (radius : bool) (oracle : N) : sres :=
  handle_pap {| c_mac := 1; c_service := []; c_acname := [65]; c_chap := false; c_mru := 1492; c_radius := radius;
                c_has_pool := true; c_pool := [167772162]; c_server_ip := 167772161; c_dns1 := None; c_dns2 := None |}
             st0 s0 [zn code; 9; 0; 8; 1; 97; 1; 98] oracle.
Example pap_rx_AuthRequest_only : (frames (pap_in (go_pppoe_PAPCodeAuthRequest + 1) false 0)) = [] := eq_refl.
Example pap_tx_AuthAck : nth 0 (first_payload (pap_in go_pppoe_PAPCodeAuthRequest false 0)) 99 = zn go_pppoe_PAPCodeAuthAck := eq_refl.
Example pap_tx_AuthNak : nth 0 (first_payload (pap_in go_pppoe_PAPCodeAuthRequest true 1)) 99 = zn go_pppoe_PAPCodeAuthNak := eq_refl.
Example pap_tx_protocol : map proto_of (frames (pap_in go_pppoe_PAPCodeAuthRequest false 0)) = [zn go_pppoe_ProtocolPAP; zn go_pppoe_ProtocolIPCP] := eq_refl.
Example pap_accept_state : option_map s_state (r_sess (pap_in go_pppoe_PAPCodeAuthRequest false 0)) = Some (zn go_pppoe_StateIPCPNegotiation) := eq_refl.
Example pap_reject_state : option_map s_state (r_sess (pap_in go_pppoe_PAPCodeAuthRequest true 1)) = Some (zn go_pppoe_StateClosed) := eq_refl.
(* startIPCPNegotiation: Configure-Request with the IP-Address option *)
Definition ipcpreq : bytes := match frames (pap_in go_pppoe_PAPCodeAuthRequest false 0) with _ :: f :: _ => payload f | _ => [] end.
Example ipcp_req_code_ConfigRequest : nth 0 ipcpreq 99 = zn go_pppoe_LCPCodeConfigRequest := eq_refl.
Example ipcp_req_opt_IPAddress : nth 4 ipcpreq 99 = zn go_pppoe_IPCPOptIPAddress := eq_refl.

(* handleIPCPConfigRequest: the three option types answered with a Nak *)
Definition s_ip1 : sess := set_auth (set_ip s0 (Some 167772162)) true.
Definition ipcp_in (t : Z) : bytes :=
  first_payload (handle_ipcp gates_on (cfg false) st0 s_ip1 ([zn go_pppoe_LCPCodeConfigRequest; 5; 0; 10] ++ [zn t; 6; 0; 0; 0; 0])).
Example ipcp_rx_opt_IPAddress : firstn 6 (ipcp_in go_pppoe_IPCPOptIPAddress) = [zn go_pppoe_LCPCodeConfigNak; 5; 0; 10; zn go_pppoe_IPCPOptIPAddress; 6] := eq_refl.
Example ipcp_rx_opt_PrimaryDNS : firstn 6 (ipcp_in go_pppoe_IPCPOptPrimaryDNS) = [zn go_pppoe_LCPCodeConfigNak; 5; 0; 10; zn go_pppoe_IPCPOptPrimaryDNS; 6] := eq_refl.
Example ipcp_rx_opt_SecondaryDNS : firstn 6 (ipcp_in go_pppoe_IPCPOptSecondaryDNS) = [zn go_pppoe_LCPCodeConfigNak; 5; 0; 10; zn go_pppoe_IPCPOptSecondaryDNS; 6] := eq_refl.
Example ipcp_rx_opt_IPCompression_acked : nth 0 (ipcp_in go_pppoe_IPCPOptIPCompression) 99 = zn go_pppoe_LCPCodeConfigAck := eq_refl.
Example ipcp_rx_ConfigAck_to_Established :
  option_map s_state (r_sess (handle_ipcp gates_on (cfg false) st0 s_ip1 [zn go_pppoe_LCPCodeConfigAck; 5; 0; 4])) = Some (zn go_pppoe_StateEstablished) := eq_refl.

(* discovery: PADI -> PADO with Service-Name, AC-Name, AC-Cookie; PADR -> PADS *)
Definition padi_out : list eframe := o_frames (snd (fst (handle_padi (cfg false) st0 77 [(zn go_pppoe_TagServiceName, []); (zn go_pppoe_TagHostUniq, [1])]))).
Example disc_PADO : padi_out = [EDisc 77 (zn go_pppoe_CodePADO) 0
   [(zn go_pppoe_TagServiceName, []); (zn go_pppoe_TagACName, [65]); (zn go_pppoe_TagACCookie, []); (zn go_pppoe_TagHostUniq, [1])]] := eq_refl.
Definition padr_out : list eframe := o_frames (snd (fst (handle_padr (cfg false) st0 77 [(zn go_pppoe_TagACCookie, [])]))).
Example disc_PADS : match padr_out with EDisc _ c _ _ :: _ => c | _ => 0 end = zn go_pppoe_CodePADS := eq_refl.
Example disc_PADR_needs_ACCookie : o_frames (snd (fst (handle_padr (cfg false) st0 77 [(zn go_pppoe_TagACCookie + 1, [])]))) = [] := eq_refl.

(* not tied: 65535 (session table full) in PPPoESrv.handle_padr ~ bare literal 0xFFFF in pkg/pppoe/session.go:209
   not tied: 0x8863 / 0x8864 (frame constructors FDisc / FSess) ~ go_pppoe_EtherTypePPPoEDiscovery / EtherTypePPPoESession: the Model has no number for them, the driver classifies frames
   not tied: msg_ok / msg_bad in PPPoESrv ~ string literals "Login OK" / "Login incorrect" in pkg/pppoe/server.go (strings are not translated)
   not tied: length thresholds 6 / 5+ulen+1 / 6+ulen+plen in PPPoESrv.parse_pap ~ bare literals in handlePAP
   not tied: oracle numbering 0..3 of op_rad ~ harness convention, no source constant
   not tied: 1492 MRU of the configurations above ~ the server takes it from its config; default measured as dflt_pppoe_DefaultLCPConfig_MRU (tied) *)
