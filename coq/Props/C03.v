(* C03 - Kernel DHCP fast path answers exactly as the userspace server would.

   Subject: Model/XdpDhcp.v - [xdp m now unow f] is bpf/dhcp_fastpath.c dhcp_fastpath_prog on raw map
   bytes m, kernel clock now (ns) and frame f ([unow] is a ghost input, markers only); [cache_step] is
   what the Go side (ebpf.Loader marshalling, PoolManager.AddPool, SetServerConfig, dhcp.Server
   handleRequest / handleRelease / handleDecline / cleanupExpiredLeases) does to those maps.

   Full statement, clause by clause (the monitor Model/XdpDhcpSpec.v checks the same clauses on the
   real program's output against the real userspace server's reply):
     A  a frame that is not answered is handed on unchanged with XDP_PASS          full
     B  every transmitted reply is well formed and echoes the request                full ([tx_case])
     C  ... carries the address userspace ACKed                                      REFUTED + partial
     D  ... is OFFER for DISCOVER, ACK for REQUEST (type by TLV walk)                REFUTED + partial
     E  ... an ACK confirms the address the REQUEST names                            REFUTED + partial
     F  no reply once the lease is released / declined / swept after expiry          full
     G  no reply for a lease that is expired on the userspace (Unix) clock           REFUTED + partial
   The named propositions [yiaddr_agrees], [type_agrees], [request_confirmed], [expired_silent] (the clauses
   that fail on the code as it is) and [tx_case] / [tx_facts] (what every transmitted reply looks like) are
   defined in Proofs/XdpDhcpProofs.v next to the recorded witnesses [wit_k03*].
   Domain: frames shorter than 2^16 bytes (the program itself keeps the length in a __u16; an XDP
   buffer is at most a page), byte values below 256. *)
From Coq Require Import NArith List.
From Verif Require Import Base.Word Base.Check Model.XdpDhcp Model.XdpDhcpSpec Model.XdpDhcpCheck Proofs.XdpDhcpProofs Proofs.XdpDhcpLeaseProofs.
Import ListNotations.
Local Open Scope N_scope.

(* ---- A: pass identity (clause 4 of the monitor) ---- *)
Theorem C03_pass_identity :
  forall m now unow f v r mk, wf_bytes f -> wf_maps m -> N.of_nat (length f) < 65536 ->
    xdp m now unow f = Done v r mk -> v <> XDP_TX -> v = XDP_PASS /\ r = f.
Proof. exact pass_identity. Qed.
Print Assumptions C03_pass_identity.

(* ---- B: every outcome of the program; [tx_case] = parse succeeded, type 1/3 at a scanned offset,
        an unexpired (kernel clock) assignment with pool and config, and [tx_facts]: frame length,
        ip.tot_len and udp.len equal to what is left of the frame, source port 67, header checksum valid
        (one's-complement sum of the ten words = 0xFFFF, for every header content), BOOTREPLY, xid /
        htype / hlen / chaddr / magic / VLAN tags untouched, yiaddr and siaddr from the maps, and the
        options area exactly [opt_bytes] (53, 54, 51, 1, 3, [6], 58, 59, END) ---- *)
Theorem C03_outcomes :
  forall m now unow f v r mk, wf_bytes f -> wf_maps m -> N.of_nat (length f) < 65536 ->
    xdp m now unow f = Done v r mk ->
    (v = XDP_PASS /\ r = f /\ mk = []) \/ (v = XDP_TX /\ tx_case m now f r).
Proof. exact xdp_result. Qed.
Print Assumptions C03_outcomes.

Theorem C03_ip_checksum_valid :
  forall a0 a1 a2 a3 a4 a5 a6 a7 a8 a9 a12 a13 a14 a15 a16 a17 a18 a19,
    let h := [a0; a1; a2; a3; a4; a5; a6; a7; a8; a9; 0; 0; a12; a13; a14; a15; a16; a17; a18; a19] in
    wf_bytes h ->
    let c := ip_checksum h in
    ip_checksum_valid [a0; a1; a2; a3; a4; a5; a6; a7; a8; a9; c mod 256; (c / 256) mod 256;
                       a12; a13; a14; a15; a16; a17; a18; a19] = true.
Proof. exact checksum_valid_20. Qed.
Print Assumptions C03_ip_checksum_valid.

Theorem C03_reply_type_follows_scan :
  forall rt pv sip, tlv_msg_type (opt_bytes rt pv sip) = rt.
Proof. exact opt_bytes_type. Qed.
Print Assumptions C03_reply_type_follows_scan.

(* subnet mask: prefix_to_mask agrees with the CIDR mask for all 33 prefix lengths (finite domain) *)
Definition cidr_mask (p : N) : bytes := be_bytes 4 (4294967296 - 2 ^ (32 - p)).
Theorem C03_mask_all_prefixes :
  forallb (fun p => bytes_eqb (prefix_to_mask p) (cidr_mask p)) (map N.of_nat (seq 0 33)) = true.
Proof. vm_compute. reflexivity. Qed.
Print Assumptions C03_mask_all_prefixes.

(* ---- C: the address userspace ACKed ---- *)
Theorem C03_yiaddr_is_byte_reversed :
  forall m mac ip pool vlan class ex cid now unow f r mk p ch,
    let m' := fst (cache_step m (GAck mac ip pool vlan class ex cid)) in
    wf_bytes f -> wf_maps m' -> N.of_nat (length f) < 65536 ->
    parse f = Parsed p -> p_tagged p = false -> extract_cid f (p_dhcp p + 240) = Some None ->
    rd f (p_dhcp p + 28) 6 = Some ch -> rev ch ++ [0; 0] = go_mac_key mac ->
    xdp m' now unow f = Done XDP_TX r mk -> rd r (p_dhcp p + 16) 4 = Some (go_ip ip).
Proof. exact ack_reply_yiaddr. Qed.
Print Assumptions C03_yiaddr_is_byte_reversed.

Theorem C03_go_ip_reverses :
  forall a b c d, a < 256 -> b < 256 -> c < 256 -> d < 256 -> go_ip [a; b; c; d] = [d; c; b; a].
Proof. exact go_ip_rev. Qed.
Print Assumptions C03_go_ip_reverses.

Theorem C03_yiaddr_agrees_refuted : ~ yiaddr_agrees.
Proof. exact yiaddr_agrees_refuted. Qed.
Print Assumptions C03_yiaddr_agrees_refuted.

Theorem C03_yiaddr_agrees_partial :
  forall m mac a b c d pool vlan class ex cid now unow f r mk p ch,
    let ip := [a; b; c; d] in
    let m' := fst (cache_step m (GAck mac ip pool vlan class ex cid)) in
    a < 256 -> b < 256 -> c < 256 -> d < 256 -> rev ip = ip ->
    wf_bytes f -> wf_maps m' -> N.of_nat (length f) < 65536 ->
    parse f = Parsed p -> p_tagged p = false -> extract_cid f (p_dhcp p + 240) = Some None ->
    rd f (p_dhcp p + 28) 6 = Some ch -> rev ch ++ [0; 0] = go_mac_key mac ->
    xdp m' now unow f = Done XDP_TX r mk -> rd r (p_dhcp p + 16) 4 = Some ip.
Proof. exact yiaddr_agrees_partial. Qed.
Print Assumptions C03_yiaddr_agrees_partial.

(* ---- D: reply type ---- *)
Theorem C03_type_agrees_refuted : ~ type_agrees.
Proof. exact type_agrees_refuted. Qed.
Print Assumptions C03_type_agrees_refuted.

Theorem C03_type_agrees_partial :
  forall m now unow f p r mk, wf_bytes f -> wf_maps m -> N.of_nat (length f) < 65536 ->
    parse f = Parsed p -> get_msg_type f (p_dhcp p + 240) = Some (tlv_msg_type (skipn (p_dhcp p + 240) f)) ->
    xdp m now unow f = Done XDP_TX r mk ->
    let tq := tlv_msg_type (skipn (p_dhcp p + 240) f) in
    let tr := tlv_msg_type (skipn (p_dhcp p + 240) r) in
    (tq = 1 /\ tr = 2) \/ (tq = 3 /\ tr = 5).
Proof. exact type_agrees_partial. Qed.
Print Assumptions C03_type_agrees_partial.

(* ---- E: REQUEST for another address ---- *)
Theorem C03_request_confirmed_refuted : ~ request_confirmed.
Proof. exact request_confirmed_refuted. Qed.
Print Assumptions C03_request_confirmed_refuted.

Theorem C03_request_confirmed_partial :
  forall m now unow f p a asg r mk, wf_bytes f -> wf_maps m -> N.of_nat (length f) < 65536 ->
    parse f = Parsed p -> find_assignment m f p = Some (Some asg) -> rd asg 4 4 = Some a ->
    xdp m now unow f = Done XDP_TX r mk -> rd r (p_dhcp p + 16) 4 = Some a.
Proof. exact request_confirmed_partial. Qed.
Print Assumptions C03_request_confirmed_partial.

(* ---- F: released / declined / swept ---- *)
Theorem C03_gone_not_answered :
  forall m mac cid e now unow f p,
    e = GRelease mac cid \/ e = GDecline mac cid \/ e = GExpire mac cid ->
    parse f = Parsed p -> p_tagged p = false ->
    rd f (p_dhcp p + 28) 6 = Some (rev (firstn 6 (go_mac_key mac))) -> skipn 6 (go_mac_key mac) = [0; 0] ->
    (extract_cid f (p_dhcp p + 240) = Some None \/
     (cid <> [] /\ extract_cid f (p_dhcp p + 240) = Some (Some (go_cid_key cid)))) ->
    forall v r mk, xdp (fst (cache_step m e)) now unow f = Done v r mk -> v = XDP_PASS /\ r = f.
Proof. exact gone_not_answered. Qed.
Print Assumptions C03_gone_not_answered.

(* F over histories, cache level: once the binding of [mac] went, any later cache events that do not
   ACK a hardware address with the same six-byte key leave the client's requests unanswered *)
Theorem C03_gone_stays_gone :
  forall m mac cid e es now unow f p ch,
    e = GRelease mac cid \/ e = GDecline mac cid \/ e = GExpire mac cid ->
    forallb (fun x => negb (writes_sub (go_mac_key mac) x)) es = true ->
    parse f = Parsed p -> p_tagged p = false -> extract_cid f (p_dhcp p + 240) = Some None ->
    rd f (p_dhcp p + 28) 6 = Some ch -> rev ch ++ [0; 0] = go_mac_key mac ->
    forall v r mk, xdp (cache_steps (fst (cache_step m e)) es) now unow f = Done v r mk -> v = XDP_PASS /\ r = f.
Proof. exact gone_stays_gone. Qed.
Print Assumptions C03_gone_stays_gone.

(* F over histories, lease-table level ([slow_step]: handleRequest's ACK branch with the circuit-ID
   index and dropCircuitIDBindings, handleRelease, handleDecline, cleanupExpiredLeases): after ANY
   history of handled messages (and pool / config / ageing events) every subscriber_pools entry belongs
   to a lease of the lease table ... *)
Theorem C03_cache_entry_has_lease :
  forall ops, forallb served ops = true -> sub_has_lease (run_ops init ops).
Proof. exact sub_has_lease_always. Qed.
Print Assumptions C03_cache_entry_has_lease.

(* ... hence: no lease whose hardware address maps to the request's key => not answered *)
Theorem C03_no_lease_not_answered :
  forall ops now unow f p ch,
    forallb served ops = true ->
    let s := run_ops init ops in
    (forall hw l, aget hw (lt_leases (s_l s)) = Some l -> go_mac_key hw <> rev ch ++ [0; 0]) ->
    parse f = Parsed p -> p_tagged p = false -> extract_cid f (p_dhcp p + 240) = Some None ->
    rd f (p_dhcp p + 28) 6 = Some ch ->
    forall v r mk, xdp (s_m s) now unow f = Done v r mk -> v = XDP_PASS /\ r = f.
Proof. exact no_lease_not_answered. Qed.
Print Assumptions C03_no_lease_not_answered.

(* ---- G: expiry ---- *)
Theorem C03_expired_silent_refuted : ~ expired_silent.
Proof. exact expired_silent_refuted. Qed.
Print Assumptions C03_expired_silent_refuted.

Theorem C03_expired_silent_partial :
  forall m now unow f p asg ex v r mk, wf_bytes f -> wf_maps m -> N.of_nat (length f) < 65536 ->
    now / NS_PER_S = unow ->
    parse f = Parsed p -> find_assignment m f p = Some (Some asg) -> rd asg 13 8 = Some ex -> le_val ex < unow ->
    xdp m now unow f = Done v r mk -> v <> XDP_TX.
Proof. exact expired_silent_partial. Qed.
Print Assumptions C03_expired_silent_partial.

(* ---- the recorded witnesses: Model = kernel program on each, monitor rejection and marker ---- *)
Theorem C03_witness_rows :
  run_cases [wit_k03a; wit_k03c; wit_k03f; wit_k03g; wit_k03h] =
  [[1; 0; 4; 4; 4; 4; 301]; [1; 0; 5; 4; 5; 4; 301]; [2; 0; 6; 6; 6; 6; 304]; [3; 0; 5; 3; 5; 3; 307]; [4; 0; 5; 2; 5; 2; 308]; [5; 0; 4; 4; 4; 4; 309]].
Proof. exact wit_rows. Qed.
Print Assumptions C03_witness_rows.

(* ---- non-vacuity: the hypotheses of the implications are met by a recorded run ---- *)
Example C03_tx_exists :
  exists r mk, xdp (wmaps wit_k03f) (wnow wit_k03f) (wunow wit_k03f) (wframe wit_k03f) = Done XDP_TX r mk.
Proof. eexists. eexists. vm_compute. reflexivity. Qed.
Example C03_palindrome_exists : rev [10; 0; 0; 10] = [10; 0; 0; 10].
Proof. reflexivity. Qed.
Example C03_entry_present :
  lookup (go_mac_key [2; 0; 94; 16; 0; 17]) (m_sub (s_m (run_ops init [ex_ack]))) <> None.
Proof. exact ex_entry_present. Qed.
Example C03_declined_no_lease :
  lt_leases (s_l (run_ops init [ex_ack; Sv (SDecline [2; 0; 94; 16; 0; 17])])) = [] /\
  m_sub (s_m (run_ops init [ex_ack; Sv (SDecline [2; 0; 94; 16; 0; 17])])) = [].
Proof. exact ex_declined_no_lease. Qed.
Example C03_second_fold_needed :
  65536 <= fold16 (sum_le16 hdr_carry) /\ ip_checksum1 hdr_carry <> ip_checksum hdr_carry.
Proof. exact second_fold_needed. Qed.
Example C03_gone_hypotheses_met :
  skipn 6 (go_mac_key [2; 0; 94; 16; 0; 17]) = [0; 0] /\ rev (firstn 6 (go_mac_key [2; 0; 94; 16; 0; 17])) = [2; 0; 94; 16; 0; 17].
Proof. vm_compute. split; reflexivity. Qed.
