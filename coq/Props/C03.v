(* C03 - Kernel DHCP fast path answers exactly as the userspace server would. *)
From Coq Require Import NArith List.
From Verif Require Import Base.Word Model.XdpDhcp Model.XdpDhcpSpec Proofs.XdpDhcpProofs.
Import ListNotations.
Local Open Scope N_scope.

Theorem C03_not_dhcp_passed_unchanged :
  forall m now unow f, parse f = NotDhcp -> xdp m now unow f = Done XDP_PASS f [].
Proof. exact notdhcp_pass. Qed.
Print Assumptions C03_not_dhcp_passed_unchanged.
