(* C07 — kernel programs stay inside the packet and leave other traffic untouched.
   Statements only; proofs are in Proofs/Pkt*Proofs.v.
   Subject: the packet-access skeletons Model/TcAntispoofPkt.v, TcQosPkt.v, TcNatPkt.v, XdpDhcpPkt.v of
   bpf/{antispoof,qos_ratelimit,nat44,dhcp_fastpath}.c in the checked-access monad Model/PktMonad.v: every
   load/store fails with OOB unless off + width <= len, every `ptr + n > data_end` test of the C is an
   explicit test of the Model, loops are the C's constant-trip loops.  Quantifiers: EVERY frame (any
   length including 0, any bytes), EVERY map content ([maps] is an arbitrary function to raw bytes),
   every clock value.  The executable monitor is Model/PktSpec.v (accept_obs, clauses 0..2). *)
From Coq Require Import NArith List Bool.
From Verif Require Import Base.Word Model.PktMonad Model.TcAntispoofPkt Model.TcQosPkt Model.TcNatPkt Model.XdpDhcpPkt
  Model.PktSpec Proofs.PktMonadProofs Proofs.PktAntispoofProofs Proofs.PktQosProofs Proofs.PktNatProofs
  Proofs.PktDhcpProofs Proofs.PktProofs.
Import ListNotations.
Local Open Scope N_scope.

(* ================= clause 0: no access outside [data, data_end) — FULL for all seven programs.
   [run m f = Fault] iff some rd/wr of the run had off + width > length f. *)
Theorem C07_no_oob_antispoof : forall mp f, run (antispoof_ingress mp) f <> Fault.
Proof. exact no_oob_antispoof. Qed.
Print Assumptions C07_no_oob_antispoof.
Theorem C07_no_oob_qos_egress : forall mp e f, run (qos_egress_prog mp e) f <> Fault.
Proof. exact no_oob_qos_egress. Qed.
Print Assumptions C07_no_oob_qos_egress.
Theorem C07_no_oob_qos_ingress : forall mp e f, run (qos_ingress_prog mp e) f <> Fault.
Proof. exact no_oob_qos_ingress. Qed.
Print Assumptions C07_no_oob_qos_ingress.
Theorem C07_no_oob_nat_egress : forall mp f, run (nat44_egress mp) f <> Fault.
Proof. exact no_oob_nat_egress. Qed.
Print Assumptions C07_no_oob_nat_egress.
Theorem C07_no_oob_nat_ingress : forall mp f, run (nat44_ingress mp) f <> Fault.
Proof. exact no_oob_nat_ingress. Qed.
Print Assumptions C07_no_oob_nat_ingress.
Theorem C07_no_oob_nat_hairpin : forall mp f, run (nat44_hairpin_xdp mp) f <> Fault.
Proof. exact no_oob_nat_hairpin. Qed.
Print Assumptions C07_no_oob_nat_hairpin.
Theorem C07_no_oob_dhcp : forall mp e f, run (dhcp_fastpath_prog mp e) f <> Fault.
Proof. exact no_oob_dhcp. Qed.
Print Assumptions C07_no_oob_dhcp.

(* the failure mode is real: the monad faults one byte past the end and not before *)
Example C07_oob_is_detected :
  run (b <- rd8 14 ;; ret b)%pkt (repeat 0 14) = Fault /\ run (wr16 13 7 ;;; ret 0)%pkt (repeat 0 14) = Fault
  /\ run (b <- rd8 13 ;; ret b)%pkt (repeat 0 14) = Done 0 (repeat 0 14).
Proof. exact ex_oob. Qed.

(* ================= clause 1: a defined verdict — FULL (termination is structural: the programs are
   Gallina terms with constant-trip fixpoints) *)
Theorem C07_verdict_antispoof : forall mp f v f', run (antispoof_ingress mp) f = Done v f' -> v = TC_ACT_OK \/ v = TC_ACT_SHOT.
Proof. exact verdict_antispoof. Qed.
Print Assumptions C07_verdict_antispoof.
Theorem C07_verdict_qos_egress : forall mp e f v f', run (qos_egress_prog mp e) f = Done v f' -> v = TC_ACT_OK \/ v = TC_ACT_SHOT.
Proof. exact verdict_qos_egress. Qed.
Print Assumptions C07_verdict_qos_egress.
Theorem C07_verdict_qos_ingress : forall mp e f v f', run (qos_ingress_prog mp e) f = Done v f' -> v = TC_ACT_OK \/ v = TC_ACT_SHOT.
Proof. exact verdict_qos_ingress. Qed.
Print Assumptions C07_verdict_qos_ingress.
Theorem C07_verdict_nat_egress : forall mp f v f', run (nat44_egress mp) f = Done v f' -> v = TC_ACT_OK \/ v = TC_ACT_SHOT.
Proof. exact verdict_nat_egress. Qed.
Print Assumptions C07_verdict_nat_egress.
Theorem C07_verdict_nat_ingress : forall mp f v f', run (nat44_ingress mp) f = Done v f' -> v = TC_ACT_OK.
Proof. exact verdict_nat_ingress. Qed.
Print Assumptions C07_verdict_nat_ingress.
Theorem C07_verdict_nat_hairpin : forall mp f v f', run (nat44_hairpin_xdp mp) f = Done v f' -> v = XDP_PASS.
Proof. exact verdict_nat_hairpin. Qed.
Print Assumptions C07_verdict_nat_hairpin.
Theorem C07_verdict_dhcp : forall mp e f v f', run (dhcp_fastpath_prog mp e) f = Done v f' -> v = XDP_PASS \/ v = XDP_TX.
Proof. exact verdict_dhcp. Qed.
Print Assumptions C07_verdict_dhcp.

(* ================= clause 2: pass => untouched unless the program's act predicate holds.
   antispoof, qos (both directions), nat hairpin: FULL and stronger — these programs never store into
   the packet, whatever the verdict. *)
Theorem C07_untouched_antispoof : forall mp f v f', run (antispoof_ingress mp) f = Done v f' -> f' = f.
Proof. exact untouched_antispoof. Qed.
Print Assumptions C07_untouched_antispoof.
Theorem C07_untouched_qos_egress : forall mp e f v f', run (qos_egress_prog mp e) f = Done v f' -> f' = f.
Proof. exact untouched_qos_egress. Qed.
Print Assumptions C07_untouched_qos_egress.
Theorem C07_untouched_qos_ingress : forall mp e f v f', run (qos_ingress_prog mp e) f = Done v f' -> f' = f.
Proof. exact untouched_qos_ingress. Qed.
Print Assumptions C07_untouched_qos_ingress.
Theorem C07_untouched_nat_hairpin : forall mp f v f', run (nat44_hairpin_xdp mp) f = Done v f' -> f' = f.
Proof. exact untouched_nat_hairpin. Qed.
Print Assumptions C07_untouched_nat_hairpin.

(* nat egress / ingress: FULL with act = "IPv4, >= 34 bytes, subscriber_nat entry for the source,
   TCP/UDP/ICMP" / "the reverse table has the flow the frame carries" (both are readings of the
   ORIGINAL frame and the maps, Model/TcNatPkt.v) *)
Theorem C07_pass_untouched_nat_egress : forall mp f v f',
  run (nat44_egress mp) f = Done v f' -> f' = f \/ act_nat_egress mp f = true.
Proof. exact pass_untouched_nat_egress. Qed.
Print Assumptions C07_pass_untouched_nat_egress.
Theorem C07_pass_untouched_nat_ingress : forall mp f v f',
  run (nat44_ingress mp) f = Done v f' -> f' = f \/ act_nat_ingress mp f = true.
Proof. exact pass_untouched_nat_ingress. Qed.
Print Assumptions C07_pass_untouched_nat_ingress.
(* the act case is reachable and changes the frame; without the port block the same frame passes untouched *)
Example C07_nat_egress_acts :
  exists f', run (nat44_egress w_nat_maps) w_nat_frame = Done TC_ACT_OK f' /\ bytes_eqb f' w_nat_frame = false
             /\ act_nat_egress w_nat_maps w_nat_frame = true /\ firstn 4 (skipn 26 f') = [203;0;113;7].
Proof. exact ex_nat_egress_acts. Qed.
Example C07_nat_egress_nosub : run (nat44_egress (fun _ _ => None)) w_nat_frame = Done TC_ACT_OK w_nat_frame.
Proof. exact ex_nat_egress_nosub. Qed.

(* dhcp fast path (as of /repo c10bfec + 4ab203e): every XDP_PASS hands up the request as it came —
   REFUTED for frames of 64 KiB and more (the C's `(__u16)(data_end - data)` makes it ask
   bpf_xdp_adjust_tail to GROW the frame; when the helper refuses, the rewritten frame is passed up;
   ghost marker 0703), PARTIAL under the decidable guard [dhcp_guard f = (length f <? 65536)], which
   every frame an XDP hook can see satisfies. *)
Theorem C07_pass_untouched_dhcp_refuted : ~ pass_untouched_dhcp_statement.
Proof. exact pass_untouched_dhcp_refuted. Qed.
Print Assumptions C07_pass_untouched_dhcp_refuted.
Theorem C07_pass_untouched_dhcp_partial : forall mp e f v f',
  dhcp_guard f = true -> run (dhcp_fastpath_prog mp e) f = Done v f' -> v = XDP_PASS -> f' = f.
Proof. exact pass_untouched_dhcp_partial. Qed.
Print Assumptions C07_pass_untouched_dhcp_partial.
(* inside the guard both outcomes occur: a cached subscriber's DISCOVER is answered (XDP_TX, 328 bytes);
   the same DISCOVER as a 300-byte BOOTP message (60 option bytes) is passed up untouched — this is the
   frame that came back half-rewritten with XDP_PASS before the fix *)
Example C07_dhcp_answered :
  exists f', run (dhcp_fastpath_prog w_maps w_env) (w_discover 100) = Done XDP_TX f' /\ flen f' = 328
             /\ dhcp_guard (w_discover 100) = true.
Proof. exact ex_dhcp_tx. Qed.
Example C07_dhcp_bootp300_untouched :
  run (dhcp_fastpath_prog w_maps w_env) (w_discover 57) = Done XDP_PASS (w_discover 57).
Proof. exact ex_dhcp_bootp300_pass. Qed.

(* ================= the property as one statement: the Spec acceptor accepts every run of the Model.
   C07_statement := forall p mp e f, valid_prog p -> accept_obs p mp f (obs_of f (run (prog_of p mp e) f)) = inl tt *)
Theorem C07_refuted : ~ C07_statement.
Proof. exact C07_statement_refuted. Qed.
Print Assumptions C07_refuted.
Theorem C07_partial : forall p mp e f,
  valid_prog p = true -> C07_guard p f = true -> accepted p mp e f.
Proof. exact C07_partial. Qed.
Print Assumptions C07_partial.
