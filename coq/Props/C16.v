(* C16 — ending a session by any path releases everything it held.
   Statements only; proofs are in Proofs/TeardownProofs.v. Model: Model/Teardown.v (the code after the
   fix commits 81d6b2b, b42d48d, f58f3aa, fe50cc3, 9686c62, ac242d7 and c878197).

   "Releases everything" is [dheld s' e = []] (DHCP), [pheld s' i ip = []] (PPPoE), [sheld s' mac ip = []]
   (subscriber.Manager): the summary functions list the resources of the property text that a session —
   fixed BEFORE the ending operation — still has in the state after it:
     RAddr  its address is allocated to it, or is neither on the free list nor quarantined   (clause 0)
     RNat / RQos  a NAT block / QoS policy exists for its address                            (clauses 1, 2)
     RCacheMac / RCacheCid / RCacheCidSub / RCacheVlan  a fast-path entry answers for it     (clause 3)
     RAcct  a Start was issued and the number of Stops is not exactly one                     (clause 4)
   Clause 5 (ending twice / by two paths) is stated on the step function: the second ending operation
   returns the state unchanged and emits nothing.
   Guards ([dwf] etc.) are decidable conditions on the state in which the session ends; they say that
   the bookkeeping the session is entitled to assume is intact (docs/C16.md); the harness's guarded
   streams stay inside them and the Examples show them on reachable states. *)
From Coq Require Import ZArith NArith List Bool.
From Verif Require Import Model.Teardown Proofs.TeardownProofs.
Import ListNotations.
Local Open Scope N_scope.

(* ===================================================================== DHCP (dhcp.Server) *)

(* client RELEASE: full (clauses 0-4), for every configuration and every state inside the guard *)
Theorem C16_dhcp_release : forall c s mac l,
  aget mac (leases s) = Some l -> dwf c s mac l = true ->
  dheld (fst (fst (dstep c s (Release mac)))) (dsess_lease mac l) = [].
Proof. exact d_release_releases_all. Qed.
Print Assumptions C16_dhcp_release.

(* DECLINE: refuted as stated in the property (any DECLINE from the client) ... *)
Theorem C16_dhcp_decline_refuted :
  exists c s mac l ip, aget mac (leases s) = Some l /\ dwf c s mac l = true /\
    dheld (fst (fst (dstep c s (Decline mac ip)))) (dsess_lease mac l) <> [].
Proof. exact d_decline_other_refuted. Qed.
Print Assumptions C16_dhcp_decline_refuted.

(* ... and proved under the guard "the DECLINE names the leased address" (the address is then
   quarantined, not freed: a declined address must not be handed out again) *)
Theorem C16_dhcp_decline_partial : forall c s mac l,
  aget mac (leases s) = Some l -> l_ip l <> 0 -> dwf c s mac l = true ->
  dheld (fst (fst (dstep c s (Decline mac (l_ip l))))) (dsess_lease mac l) = [].
Proof. exact d_decline_own_releases_all. Qed.
Print Assumptions C16_dhcp_decline_partial.

(* lease expiry: the body of cleanupExpiredLeases for one expired lease (Tick folds it over the table) *)
Theorem C16_dhcp_expiry : forall c s mac l,
  aget mac (leases s) = Some l -> (l_ttl l < 0)%Z -> dwf c s mac l = true ->
  dheld (fst (fst (expire_one c (s, [], []) mac))) (dsess_lease mac l) = [].
Proof. exact d_expiry_releases_all. Qed.
Print Assumptions C16_dhcp_expiry.

(* a session that ends before its REQUEST (offered only): refuted — the offered address stays allocated *)
Theorem C16_dhcp_offered_only_refuted :
  exists c s mac e, dsess_of s mac = Some e /\ aget mac (leases s) = None /\
    dheld (fst (fst (dstep c s (Release mac)))) e <> [] /\
    dheld (fst (fst (dstep c s (Decline mac (se_ip e))))) e <> [].
Proof. exact d_offered_only_refuted. Qed.
Print Assumptions C16_dhcp_offered_only_refuted.

(* ending twice, or by two paths one after the other (RELEASE/DECLINE in any combination): the second
   operation changes nothing and emits nothing — every state, no guard *)
Theorem C16_dhcp_ending_twice : forall c s mac o1 o2,
  d_is_end mac o1 -> d_is_end mac o2 ->
  let s1 := fst (fst (dstep c s o1)) in fst (dstep c s1 o2) = (s1, (0, 0, [])).
Proof. exact d_ending_twice_no_effect. Qed.
Print Assumptions C16_dhcp_ending_twice.

(* ... and an expiry tick after the end finds nothing of that client *)
Theorem C16_dhcp_expiry_after_end : forall c s mac ev mk,
  aget mac (leases s) = None -> expire_one c (s, ev, mk) mac = (s, ev, mk).
Proof. exact d_expire_after_end_noop. Qed.
Print Assumptions C16_dhcp_expiry_after_end.

(* the VLAN-pair cache is never populated, over every history (so "no VLAN entry answers" holds trivially) *)
Theorem C16_dhcp_vlan_cache_empty : forall c ops, cvlan (drun c ops) = [].
Proof. exact d_vlan_cache_always_empty. Qed.
Print Assumptions C16_dhcp_vlan_cache_empty.

(* renewals. A renewing REQUEST that carries no Circuit-ID (no option 82 at all, or relay information
   without the Circuit-ID sub-option) leaves the lease on its circuit-id, address and accounting session:
   the ending paths above, which remove the circuit-id entries the LEASE records, still find them *)
Theorem C16_dhcp_renewal_keeps_circuit : forall c s mac relayed l,
  aget mac (leases s) = Some l ->
  exists l', aget mac (leases (fst (fst (dstep c s (Request mac (l_ip l) 0 relayed))))) = Some l' /\
             l_cid l' = l_cid l /\ l_ip l' = l_ip l /\ l_sid l' = l_sid l.
Proof. exact d_renewal_keeps_circuit. Qed.
Print Assumptions C16_dhcp_renewal_keeps_circuit.

(* a REQUEST of the owner for its address is a renewal whatever the age of the lease — also in the window
   between its expiry and the reaper's next pass: no second Accounting-Start, the accounting session stays
   (so the one Stop of whatever ends the session later closes the one Start) *)
Theorem C16_dhcp_late_renewal_same_session : forall c s mac cid relayed l,
  aget mac (leases s) = Some l ->
  snd (fst (dstep c s (Request mac (l_ip l) cid relayed))) = (2, l_ip l, []) /\
  starts (fst (fst (dstep c s (Request mac (l_ip l) cid relayed)))) = starts s /\
  exists l', aget mac (leases (fst (fst (dstep c s (Request mac (l_ip l) cid relayed))))) = Some l' /\ l_sid l' = l_sid l.
Proof. exact d_renewal_no_new_session. Qed.
Print Assumptions C16_dhcp_late_renewal_same_session.

(* ... and a renewal from ANOTHER circuit takes the old circuit's bindings away at once (index entry and
   both kernel entries; after fix c878197), so none is left under a circuit-id the lease no longer records.
   Guard: the circuit-ID index still points at this client's lease (it does unless another MAC took the
   circuit over through the index: C02's K02a) *)
Theorem C16_dhcp_renewal_moved_drops_old : forall c s mac cid relayed l,
  aget mac (leases s) = Some l -> cid <> 0 -> l_cid l <> 0 -> cid <> l_cid l ->
  (match aget (l_cid l) (bycid s) with Some p => fst p =? mac | None => false end) = true ->
  let s' := fst (fst (dstep c s (Request mac (l_ip l) cid relayed))) in
  aget (l_cid l) (bycid s') = None /\ aget (l_cid l) (chash s') = None /\ aget (l_cid l) (csub s') = None /\
  exists l', aget mac (leases s') = Some l' /\ l_cid l' = cid.
Proof. exact d_renewal_moved_drops_old. Qed.
Print Assumptions C16_dhcp_renewal_moved_drops_old.

(* fault injection (c_full is part of the configuration every theorem above quantifies over): with
   qos_ingress full the policy is half installed — egress bucket in the kernel, nothing tracked by the
   manager — the state is inside the guard, the session holds the bucket, and RELEASE removes it *)
Example C16_dhcp_half_installed_policy_released :
  exists l, aget 1 (leases stDf) = Some l /\ dwf cfgDf stDf 1 l = true /\
            smem 2 (qos stDf) = true /\ smem 2 (qosi stDf) = false /\ smem 2 (qost stDf) = false /\
            dheld (fst (fst (dstep cfgDf stDf (Release 1)))) (dsess_lease 1 l) = [].
Proof. exact d_half_installed_example. Qed.

Example C16_dhcp_guard_satisfiable :
  exists l, aget 1 (leases stD) = Some l /\ dwf cfgD stD 1 l = true /\ dheld stD (dsess_lease 1 l) <> [] /\
            l_ip l = 2 /\ l_cid l = 1 /\ l_sid l = 1.
Proof. exact d_guard_satisfiable. Qed.

(* ===================================================================== PPPoE (pppoe.Server, SessionTeardown) *)
(* The code path holds one resource, the IPPool address: pppoe.Server programs no NAT, no QoS, and
   sends no Accounting-Start. Guard: a server without pool has allocated nothing. *)

Theorem C16_pppoe_padt : forall c s id mac i x,
  pfind s id mac = Some (i, x) -> (pc_pool c || negb (ahas i (palloc s))) = true ->
  pheld (fst (fst (pstep c s (Padt id mac)))) i (p_ip s i) = [].
Proof. exact p_padt_releases. Qed.
Print Assumptions C16_pppoe_padt.

Theorem C16_pppoe_lcp_terminate : forall c s id mac i x,
  pfind s id mac = Some (i, x) -> (pc_pool c || negb (ahas i (palloc s))) = true ->
  pheld (fst (fst (pstep c s (LcpTerm id mac)))) i (p_ip s i) = [].
Proof. exact p_lcpterm_releases. Qed.
Print Assumptions C16_pppoe_lcp_terminate.

Theorem C16_pppoe_auth_failure : forall c s id mac i x,
  pfind s id mac = Some (i, x) -> (pc_pool c || negb (ahas i (palloc s))) = true ->
  pheld (fst (fst (pstep c s (Pap id mac false)))) i (p_ip s i) = [].
Proof. exact p_authfail_releases. Qed.
Print Assumptions C16_pppoe_auth_failure.

(* idle timeout: refuted (the address stays allocated) ... *)
Theorem C16_pppoe_idle_refuted :
  exists c s i, ahas i (palloc s) = true /\ aget 1 (tbl (fst (fst (pstep c s IdleTick)))) = None /\
                pheld (fst (fst (pstep c s IdleTick))) i (p_ip s i) <> [].
Proof. exact p_idle_cleanup_refuted. Qed.
Print Assumptions C16_pppoe_idle_refuted.

(* ... proved for sessions that hold no address yet (timed out before authentication) *)
Theorem C16_pppoe_idle_partial : forall c s i,
  ahas i (palloc s) = false -> pheld (fst (fst (pstep c s IdleTick))) i (p_ip s i) = [].
Proof. exact p_idle_partial. Qed.
Print Assumptions C16_pppoe_idle_partial.

(* administrative / RADIUS disconnect and shutdown: SessionTeardown.cleanup, reached from
   HandleClientPADT, TerminateSession, TerminateBy*, TerminateAll. Address released, the eBPF-remove
   callback runs, an Accounting-Stop is sent for an authenticated session. *)
Theorem C16_pppoe_teardown : forall c s i x,
  aget i (heap s) = Some x -> ps_torn x = false ->
  (negb (ahas i (palloc s)) || (pc_pool c && negb (ps_ip x =? 0))) = true ->
  let r := pcleanup c s i in
  pheld (fst (fst r)) i (p_ip s i) = [] /\ In (3, ps_id x) (snd (fst r)) /\
  (pc_radius c && ps_auth x = true -> In (2, i) (snd (fst r))).
Proof. exact p_cleanup_releases. Qed.
Print Assumptions C16_pppoe_teardown.

(* teardown twice: the second cleanup of the same session does nothing — no second Accounting-Stop *)
Theorem C16_pppoe_teardown_twice : forall c s i,
  let s1 := fst (fst (pcleanup c s i)) in pcleanup c s1 i = (s1, [], []).
Proof. exact p_cleanup_twice. Qed.
Print Assumptions C16_pppoe_teardown_twice.

(* two paths at once: while one teardown path (administrative / RADIUS disconnect, the shutdown pass, the
   client's PADT) is inside cleanup for a session, a second teardown path for the same session changes
   nothing in the session table, the MAC index, the pool or the Accounting-Stop records and adds no event
   except a repeated PADT — the outcome is that of the first path alone.  (Sequential model of the
   interleaving; the differential run forces the interleaving on the real code: docs/C16.md.) *)
Theorem C16_pppoe_two_paths_at_once : forall c s i held a b,
  (a = TdTerm i \/ exists x, aget i (heap s) = Some x /\ a = TdPadt i (ps_mac x)) -> td_of i b ->
  let r1 := pstep c s a in
  let r2 := pstep c s (POverlap held a b) in
  tbl (fst (fst r2)) = tbl (fst (fst r1)) /\ midx (fst (fst r2)) = midx (fst (fst r1)) /\
  pavail (fst (fst r2)) = pavail (fst (fst r1)) /\ palloc (fst (fst r2)) = palloc (fst (fst r1)) /\
  pstops (fst (fst r2)) = pstops (fst (fst r1)) /\
  filter not_padt (snd (fst r2)) = filter not_padt (snd (fst r1)).
Proof. exact p_two_paths_at_once. Qed.
Print Assumptions C16_pppoe_two_paths_at_once.

Example C16_pppoe_two_paths_example :
  let r := pstep cfgP stP (POverlap true (TdTerm 1) (TdPadt 1 1)) in
  snd (fst r) = [(4, 1); (3, 1); (2, 1)] /\ palloc (fst (fst r)) = [] /\ pstops (fst (fst r)) = [1] /\ tbl (fst (fst r)) = [].
Proof. exact p_two_paths_example. Qed.

(* a PADT / LCP Terminate-Request / PAP reject for a session that is gone ends nothing *)
Theorem C16_pppoe_frame_after_end : forall c s id mac,
  pfind s id mac = None ->
  pstep c s (Padt id mac) = (s, [], []) /\ pstep c s (LcpTerm id mac) = (s, [], []) /\
  pstep c s (Pap id mac false) = (s, [], []).
Proof. exact p_frame_after_end_noop. Qed.
Print Assumptions C16_pppoe_frame_after_end.

Example C16_pppoe_guard_satisfiable :
  exists x, pfind stP 1 1 = Some (1, x) /\ aget 1 (heap stP) = Some x /\ ps_torn x = false /\ p_ip stP 1 = 2 /\
            pheld stP 1 2 <> [].
Proof. exact p_guard_satisfiable. Qed.

(* ===================================================================== subscriber.Manager *)

(* TerminateSession (administrative or RADIUS disconnect, idle and session timeout go through it), with
   any caller context (live, cancelled, deadline expired) and a working allocator: address released once,
   MAC and IP indexes cleared, exactly one terminate event *)
Theorem C16_submgr_terminate : forall c s n x,
  aget n (ssn s) = Some x -> ((ss_ip x =? 0) || smem (ss_ip x) (salloc s)) = true ->
  forall ctx, let r := sstep c s (STerminate n ctx false) in
  sheld (fst (fst r)) (ss_mac x) (ss_ip x) = [] /\
  snd (fst r) = (0, (if ss_ip x =? 0 then [] else [(5, ss_ip x)]) ++ [(6, n)]) /\
  aget n (ssn (fst (fst r))) = None.
Proof. exact s_terminate_releases. Qed.
Print Assumptions C16_submgr_terminate.

(* no termination attempt on a session in the table fails or leaves it behind (nothing can get stuck) *)
Theorem C16_submgr_terminate_never_stuck : forall c s n ctx rf x,
  aget n (ssn s) = Some x ->
  let r := sstep c s (STerminate n ctx rf) in
  fst (snd (fst r)) = 0 /\ aget n (ssn (fst (fst r))) = None /\ In (6, n) (snd (snd (fst r))).
Proof. exact s_terminate_never_stuck. Qed.
Print Assumptions C16_submgr_terminate_never_stuck.

(* ... but an allocator release error is only logged: the session goes, the address stays allocated (refuted) *)
Theorem C16_submgr_release_error_refuted :
  exists c s n x, aget n (ssn s) = Some x /\
    aget n (ssn (fst (fst (sstep c s (STerminate n 0 true))))) = None /\
    sheld (fst (fst (sstep c s (STerminate n 0 true)))) (ss_mac x) (ss_ip x) <> [].
Proof. exact s_release_error_refuted. Qed.
Print Assumptions C16_submgr_release_error_refuted.

Theorem C16_submgr_terminate_twice : forall c s n ctx1 ctx2 f1 f2,
  let s1 := fst (fst (sstep c s (STerminate n ctx1 f1))) in sstep c s1 (STerminate n ctx2 f2) = (s1, (1, []), []).
Proof. exact s_terminate_twice. Qed.
Print Assumptions C16_submgr_terminate_twice.

(* two paths at once: of the concurrent callers, r get past the existence check (r is observed on the
   real code); the terminate event — hence the Accounting-Stop — is emitted exactly r times. The
   sequential model cannot bound r; the harness forces the interleaving and observes r = 1 since fe50cc3. *)
Theorem C16_submgr_concurrent_events : forall c s n r x,
  aget n (ssn s) = Some x -> ss_ip x <> 0 ->
  count n (map snd (filter (fun e => fst e =? 6) (snd (snd (fst (sstep c s (SRace n r))))))) = 1 + (r - 1).
Proof. exact s_race_events. Qed.
Print Assumptions C16_submgr_concurrent_events.

(* shutdown: refuted — Manager.Stop releases nothing and emits nothing *)
Theorem C16_submgr_shutdown_refuted :
  exists c s n x, aget n (ssn s) = Some x /\
    fst (sstep c s SStop) = (s, (0, [])) /\ sheld (fst (fst (sstep c s SStop))) (ss_mac x) (ss_ip x) <> [].
Proof. exact s_stop_refuted. Qed.
Print Assumptions C16_submgr_shutdown_refuted.

Example C16_submgr_guard_satisfiable :
  exists x, aget 1 (ssn stS) = Some x /\ ((ss_ip x =? 0) || smem (ss_ip x) (salloc stS)) = true /\
            sheld stS (ss_mac x) (ss_ip x) <> [].
Proof. exact s_guard_satisfiable. Qed.
