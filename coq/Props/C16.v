(* C16 — ending a session by any path releases everything it held. Statements only. *)
From Coq Require Import ZArith NArith List Bool.
From Verif Require Import Model.Teardown Proofs.TeardownProofs.
Import ListNotations.
Local Open Scope N_scope.

Theorem C16_stub : forall (k : N) (m : amap N), aget k (adel k m) = None.
Proof. exact (@aget_adel_same N). Qed.
Print Assumptions C16_stub.
