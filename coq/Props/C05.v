(* C05 — address pools neither leak nor miscount.  Statements only; proofs in Proofs/*.v. *)
From Coq Require Import NArith List.
From Verif Require Import Base.Word Model.PoolMap Model.Geometry Model.PoolSpec Model.Bitmap
  Proofs.GeometryProofs Proofs.BitmapProofs.
Import ListNotations.
Local Open Scope N_scope.

(* ---------- bitmap allocator, every history, every geometry below 2^64 units ---------- *)
Theorem C05_bitmap_exhausted_only_if_full_partial : forall g ops h, g_total g < W64 ->
  outp (brun g ops) (Alloc h) = OErr 1 ->
  forall i, i < g_total g -> exists h', bholds g ops h' (addr_of_index g i).
Proof. exact bitmap_exhausted_only_if_full. Qed.
Print Assumptions C05_bitmap_exhausted_only_if_full_partial.

(* without the guard: a pool of 2^64 units (a /64 handing out /128s) is "exhausted" while empty,
   because totalPrefixes.Uint64() is 0 (known finding K05b, marker 504) *)
Theorem C05_bitmap_exhausted_only_if_full_refuted :
  geo_wf huge_geo /\ outp (brun huge_geo []) (Alloc 0) = OErr 1 /\ (forall h u, ~ bholds huge_geo [] h u).
Proof. exact bitmap_exhausted_only_if_full_huge_refuted. Qed.
Print Assumptions C05_bitmap_exhausted_only_if_full_refuted.

Theorem C05_bitmap_release_returns : forall g ops h u, bholds g ops h u ->
  outp (brun g ops) (Release h) = OOk /\ forall h', ~ bholds g (ops ++ [Release h]) h' u.
Proof. exact bitmap_release_frees. Qed.
Print Assumptions C05_bitmap_release_returns.

Theorem C05_bitmap_free_unit_is_served_partial : forall g ops h i, g_total g < W64 -> i < g_total g ->
  (forall h', ~ bholds g ops h' (addr_of_index g i)) -> exists u, outp (brun g ops) (Alloc h) = OUnit u.
Proof. exact bitmap_free_unit_served. Qed.
Print Assumptions C05_bitmap_free_unit_is_served_partial.

(* the reported figures are the true counts (after fix 46ed00d; before it, re-applying one record
   twice made the allocated figure exceed the number of holders) *)
Theorem C05_bitmap_stats_exact_partial : forall g ops, g_total g < W64 ->
  outp (brun g ops) Stats =
    OStats (asize (b_alloc (brun g ops))) (g_total g) (asize (b_alloc (brun g ops)) * 100) (g_total g).
Proof. exact bitmap_stats_exact_small. Qed.
Print Assumptions C05_bitmap_stats_exact_partial.

Theorem C05_bitmap_stats_mod64 : forall g ops,
  outp (brun g ops) Stats =
    let al := wrap64 (asize (b_alloc (brun g ops))) in let tot := wrap64 (g_total g) in
    if tot =? 0 then OStats al tot 0 1 else OStats al tot (al * 100) tot.
Proof. exact bitmap_stats_exact. Qed.
Print Assumptions C05_bitmap_stats_mod64.

Theorem C05_bitmap_holders_le_units : forall g ops, asize (b_alloc (brun g ops)) <= g_total g.
Proof. exact bitmap_holders_le_units. Qed.
Print Assumptions C05_bitmap_holders_le_units.

Example C05_bitmap_nonvacuous :
  let g := {| g_bits := 32; g_base := 167772160; g_ppl := 31; g_pl := 32 |} in
  g_total g < W64 /\ outp (brun g [Alloc 1; Alloc 2]) (Alloc 3) = OErr 1 /\
  outp (brun g [Alloc 1; Alloc 2; Release 1]) (Alloc 3) = OUnit 167772160.
Proof. cbv zeta. split; [vm_compute; reflexivity|split; vm_compute; reflexivity]. Qed.
