(* C05 — address pools neither leak nor miscount.  Statements only; proofs in Proofs/*.v. *)
From Coq Require Import NArith List.
From Verif Require Import Base.Word Model.PoolMap Model.Geometry Model.PoolSpec Model.Bitmap Model.Epoch
  Model.FreeList Model.Srv6Pool
  Proofs.GeometryProofs Proofs.BitmapProofs Proofs.EpochProofs Proofs.FreeListProofs Proofs.Srv6PoolProofs.
From Verif Require Model.DistAlloc Proofs.DistAllocProofs.   (* not imported: its epoch model reuses names *)
Import ListNotations.
Local Open Scope N_scope.

(* ---------- bitmap allocator, every history, every geometry below 2^64 units ---------- *)
Theorem C05_bitmap_exhausted_only_if_full_partial : forall g ops h, g_total g < W64 ->
  BitmapProofs.outp (brun g ops) (Alloc h) = OErr 1 ->
  forall i, i < g_total g -> exists h', bholds g ops h' (addr_of_index g i).
Proof. exact bitmap_exhausted_only_if_full. Qed.
Print Assumptions C05_bitmap_exhausted_only_if_full_partial.

(* without the guard: a pool of 2^64 units (a /64 handing out /128s) is "exhausted" while empty,
   because totalPrefixes.Uint64() is 0 (known finding K05b, marker 504) *)
Theorem C05_bitmap_exhausted_only_if_full_refuted :
  geo_wf huge_geo /\ BitmapProofs.outp (brun huge_geo []) (Alloc 0) = OErr 1 /\ (forall h u, ~ bholds huge_geo [] h u).
Proof. exact bitmap_exhausted_only_if_full_huge_refuted. Qed.
Print Assumptions C05_bitmap_exhausted_only_if_full_refuted.

Theorem C05_bitmap_release_returns : forall g ops h u, bholds g ops h u ->
  BitmapProofs.outp (brun g ops) (Release h) = OOk /\ forall h', ~ bholds g (ops ++ [Release h]) h' u.
Proof. exact bitmap_release_frees. Qed.
Print Assumptions C05_bitmap_release_returns.

Theorem C05_bitmap_free_unit_is_served_partial : forall g ops h i, g_total g < W64 -> i < g_total g ->
  (forall h', ~ bholds g ops h' (addr_of_index g i)) -> exists u, BitmapProofs.outp (brun g ops) (Alloc h) = OUnit u.
Proof. exact bitmap_free_unit_served. Qed.
Print Assumptions C05_bitmap_free_unit_is_served_partial.

(* the reported figures are the true counts (after fix 46ed00d; before it, re-applying one record
   twice made the allocated figure exceed the number of holders) *)
Theorem C05_bitmap_stats_exact_partial : forall g ops, g_total g < W64 ->
  BitmapProofs.outp (brun g ops) Stats =
    OStats (asize (b_alloc (brun g ops))) (g_total g) (asize (b_alloc (brun g ops)) * 100) (g_total g).
Proof. exact bitmap_stats_exact_small. Qed.
Print Assumptions C05_bitmap_stats_exact_partial.

Theorem C05_bitmap_stats_mod64 : forall g ops,
  BitmapProofs.outp (brun g ops) Stats =
    let al := wrap64 (asize (b_alloc (brun g ops))) in let tot := wrap64 (g_total g) in
    if tot =? 0 then OStats al tot 0 1 else OStats al tot (al * 100) tot.
Proof. exact bitmap_stats_exact. Qed.
Print Assumptions C05_bitmap_stats_mod64.

Theorem C05_bitmap_holders_le_units : forall g ops, asize (b_alloc (brun g ops)) <= g_total g.
Proof. exact bitmap_holders_le_units. Qed.
Print Assumptions C05_bitmap_holders_le_units.

Example C05_bitmap_nonvacuous :
  let g := {| g_bits := 32; g_base := 167772160; g_ppl := 31; g_pl := 32 |} in
  g_total g < W64 /\ BitmapProofs.outp (brun g [Alloc 1; Alloc 2]) (Alloc 3) = OErr 1 /\
  BitmapProofs.outp (brun g [Alloc 1; Alloc 2; Release 1]) (Alloc 3) = OUnit 167772160.
Proof. cbv zeta. split; [vm_compute; reflexivity|split; vm_compute; reflexivity]. Qed.

(* ---------- epoch / lease allocator ---------- *)
(* renew_protects, full (grace below 256: the code compares byte(gracePeriod)): a lease renewed now
   survives ANY later operations that contain at most grace AdvanceEpoch steps and no Release by the
   holder itself *)
Theorem C05_epoch_renew_protects : forall base ppl pl grace ops h i more,
  aget h (e_subs (erun base ppl pl grace ops)) = Some i ->
  e_grace (erun base ppl pl grace ops) < 256 ->
  forallb (fun o => negb (is_rel h o)) more = true ->
  advances more <= e_grace (erun base ppl pl grace ops) ->
  aget h (e_subs (erun base ppl pl grace (ops ++ Renew h :: more))) = Some i.
Proof. exact epoch_renew_protects. Qed.
Print Assumptions C05_epoch_renew_protects.

(* exhausted_only_if_full: refuted by the 2-bit generation wrap (known finding K05d, marker 502) ... *)
Theorem C05_epoch_wrap_refuted :
  EpochProofs.outp (erun w_base 30 32 1 [Advance; Advance]) (Alloc 0) = OErr 1 /\
  e_subs (erun w_base 30 32 1 [Advance; Advance]) = [].
Proof. exact epoch_wrap_refuted. Qed.
Print Assumptions C05_epoch_wrap_refuted.

Theorem C05_epoch_release_then_two_advances_refuted :
  let s := erun w_base 30 32 1 [Alloc 1; Alloc 2; Release 1; Advance; Renew 2; Advance; Renew 2] in
  EpochProofs.outp s (Alloc 3) = OErr 1 /\ asize (e_subs s) = 1 /\ aget 1 (e_subs s) = None.
Proof. exact epoch_release_then_two_advances_refuted. Qed.
Print Assumptions C05_epoch_release_then_two_advances_refuted.

(* ... and by grace >= 3 (K05e, marker 503): for the first eight epochs (a vm_compute sweep, the bound
   is part of the statement) an empty pool is exhausted *)
Theorem C05_epoch_grace3_never_free_refuted :
  forall n, let s := fold_left EpochProofs.next (repeat Advance n) (einit w_base 30 32 3) in
  (n <= 8)%nat -> EpochProofs.outp s (Alloc 0) = OErr 1 /\ e_subs s = [].
Proof. exact epoch_grace3_never_free_refuted. Qed.
Print Assumptions C05_epoch_grace3_never_free_refuted.

Theorem C05_epoch_stats_refuted :
  EpochProofs.outp (erun w_base 30 32 1 [Advance; Advance]) Stats = OStats 2 2 2 2 /\
  e_subs (erun w_base 30 32 1 [Advance; Advance]) = [].
Proof. exact epoch_stats_wrap_refuted. Qed.
Print Assumptions C05_epoch_stats_refuted.

(* ... and proved under the decidable guard [ages_ok]: grace = 1 and no usable slot's true age
   (epochs since its tag was written; Release writes "two epochs ago", construction too) is 4 or more *)
Theorem C05_epoch_exhausted_only_if_full_partial : forall base ppl pl grace ops h,
  ages_ok (erun base ppl pl grace ops) = true ->
  EpochProofs.outp (erun base ppl pl grace ops) (Alloc h) = OErr 1 ->
  forall i, usable_slot (erun base ppl pl grace ops) i = true -> i < e_total (erun base ppl pl grace ops) ->
  exists h', aget h' (e_subs (erun base ppl pl grace ops)) = Some i.
Proof. exact epoch_exhausted_run. Qed.
Print Assumptions C05_epoch_exhausted_only_if_full_partial.

Theorem C05_epoch_release_returns_partial : forall base ppl pl grace ops h i,
  e_grace (erun base ppl pl grace ops) = 1 -> aget h (e_subs (erun base ppl pl grace ops)) = Some i ->
  EpochProofs.outp (erun base ppl pl grace ops) (Release h) = OOk /\
  aget i (e_rev (EpochProofs.next (erun base ppl pl grace ops) (Release h))) = None /\
  slot_free (EpochProofs.next (erun base ppl pl grace ops) (Release h)) i = true /\
  (forall h', aget h' (e_subs (EpochProofs.next (erun base ppl pl grace ops) (Release h))) <> Some i).
Proof. exact epoch_release_run. Qed.
Print Assumptions C05_epoch_release_returns_partial.

Example C05_epoch_guard_satisfiable :
  let s := erun w_base 30 32 1 [Alloc 1; Alloc 2; Advance; Renew 1; Release 2; Alloc 3; Advance; Renew 1; Renew 3] in
  ages_ok s = true /\ EpochProofs.outp s (Alloc 4) = OErr 1 /\ asize (e_subs s) = 2.
Proof. exact epoch_guard_example. Qed.

(* ---------- free-list pools (one parametric Model), every universe without duplicates, every history ---- *)
(* exhaustion only when every unit is held or was declared unavailable (DHCP DECLINE) *)
Theorem C05_freelist_exhausted_only_if_full : forall univ ops, NoDup univ -> forall h,
  FreeListProofs.outp (frun univ ops) (Alloc h) = OErr 1 ->
  forall u, In u univ -> (exists h', aget h' (f_alloc (frun univ ops)) = Some u) \/ In u (f_unav (frun univ ops)).
Proof. exact freelist_exhausted_only_if_full. Qed.
Print Assumptions C05_freelist_exhausted_only_if_full.

Theorem C05_freelist_release_returns : forall univ ops, NoDup univ -> forall h u,
  aget h (f_alloc (frun univ ops)) = Some u ->
  In u (f_avail (FreeListProofs.next (frun univ ops) (Release h))) /\
  forall h', aget h' (f_alloc (FreeListProofs.next (frun univ ops) (Release h))) <> Some u.
Proof. exact freelist_release_returns. Qed.
Print Assumptions C05_freelist_release_returns.

Theorem C05_freelist_nonempty_serves : forall univ ops h, f_avail (frun univ ops) <> [] ->
  exists u, FreeListProofs.outp (frun univ ops) (Alloc h) = OUnit u.
Proof. exact freelist_nonempty_serves. Qed.
Print Assumptions C05_freelist_nonempty_serves.

(* conservation: every unit of the universe is on the free list, held, or declared unavailable *)
Theorem C05_freelist_no_leak : forall univ ops, NoDup univ ->
  FInv (frun univ ops) /\ FCons (frun univ ops) /\ f_idem (frun univ ops) = true /\ f_univ (frun univ ops) = univ.
Proof. exact frun_all. Qed.
Print Assumptions C05_freelist_no_leak.

(* pppoe.IPPool before fix 9686c62: the first address of a session that allocates twice is lost *)
Theorem C05_pppoe_leak_refuted_before_fix :
  let s := fold_left FreeListProofs.next [Alloc 1; Alloc 1] (finit false [10; 11]) in
  aget 1 (f_alloc s) = Some 11 /\
  FreeListProofs.outp (fold_left FreeListProofs.next [Alloc 1] (finit false [10; 11])) (Alloc 1) = OUnit 11 /\
  FreeListProofs.outp s (Alloc 2) = OErr 1 /\ (forall h, aget h (f_alloc s) <> Some 10).
Proof. exact freelist_nonidem_refuted. Qed.
Print Assumptions C05_pppoe_leak_refuted_before_fix.

Example C05_freelist_nonvacuous :
  FreeListProofs.outp (frun [10; 11] [Alloc 1; Alloc 2]) (Alloc 3) = OErr 1 /\
  FreeListProofs.outp (frun [10; 11] [Alloc 1; Alloc 2; Release 1]) (Alloc 3) = OUnit 10.
Proof. split; vm_compute; reflexivity. Qed.

(* ---------- DistributedAllocator: failed persistence (Model/DistAlloc.v and the lemmas of
   Proofs/DistAllocProofs.v are the C12 builder's; cited here for the C05 clause "a failed persistence
   puts the address back into circulation", every state, both modes) ---------- *)
(* a failed store Put during Allocate: the subscriber holds afterwards exactly what it held before
   (a fresh subscriber nothing: the unit is back), and the store is unchanged *)
Theorem C05_dist_failed_put_gives_back : forall s h mac,
  DistAlloc.d_lookup (DistAlloc.dnext s (DistAlloc.DAlloc h mac true)) h = DistAlloc.d_lookup s h /\
  DistAlloc.d_store (DistAlloc.dnext s (DistAlloc.DAlloc h mac true)) = DistAlloc.d_store s.
Proof. exact DistAllocProofs.write_failure_keeps_alloc. Qed.
Print Assumptions C05_dist_failed_put_gives_back.

(* a failed store Delete during Release changes nothing: memory and store still agree *)
Theorem C05_dist_failed_delete_changes_nothing : forall s h,
  DistAlloc.dnext s (DistAlloc.DRelease h true) = s.
Proof. exact DistAllocProofs.write_failure_keeps_release. Qed.
Print Assumptions C05_dist_failed_delete_changes_nothing.

(* session mode: memory and store agree after EVERY history with any failure pattern (guard
   [hist_ok]: remote notifications are consistent), hence a reload restores exactly the live holders *)
Theorem C05_dist_memory_store_agree_partial : forall c ops,
  DistAlloc.c_lease c = false -> DistAllocProofs.geo_small (DistAlloc.c_geo c) ->
  DistAllocProofs.hist_ok c ops = true -> DistAllocProofs.Agree (DistAlloc.drun c ops).
Proof. exact DistAllocProofs.session_agree. Qed.
Print Assumptions C05_dist_memory_store_agree_partial.

(* ---------- the pools under their only real caller: dhcpv6.Server (Model/Srv6Pool.v = the server's
   lease table and handlers composed over the free-list Model of AddressPool and PrefixPool).  "Live
   subscriber" exists only here: a client whose last Advertise / Reply lifetimes still run ([v_ga] /
   [v_gp], ghost) and that has not Released / Declined.  Every history of messages, every configuration
   (either pool present or not), every pair of universes without duplicates. ---------- *)
(* both pools keep the free-list invariant and conservation (every unit is free or allocated to a DUID,
   nothing is set aside), and what a lease records is allocated to that client in the pool *)
Theorem C05_srv6_pools_conserved : forall k ms, NoDup (k_ua k) -> NoDup (k_up k) -> SInv k (run6 k ms).
Proof. exact run6_inv. Qed.
Print Assumptions C05_srv6_pools_conserved.

(* a Release puts EVERYTHING the lease records back into circulation: the address AND the delegated prefix
   are on their free lists, no DUID holds them, the lease is gone (Decline does the same) *)
Theorem C05_srv6_release_returns : forall k ms d l, NoDup (k_ua k) -> NoDup (k_up k) ->
  aget d (v_l (run6 k ms)) = Some l ->
  let s' := next6 k (run6 k ms) (MRelease d) in
  aget d (v_l s') = None /\
  (forall u, q_na l = Some u -> In u (f_avail (v_a s')) /\ forall d', aget d' (f_alloc (v_a s')) <> Some u) /\
  (forall u, q_pd l = Some u -> In u (f_avail (v_p s')) /\ forall d', aget d' (f_alloc (v_p s')) <> Some u).
Proof. exact release_returns_run. Qed.
Print Assumptions C05_srv6_release_returns.

Theorem C05_srv6_decline_is_release : forall k s d, next6 k s (MDecline d) = next6 k s (MRelease d).
Proof. exact decline_is_release. Qed.
Print Assumptions C05_srv6_decline_is_release.

(* renew_protects, full: whatever a lease records stays recorded and allocated to the client through ANY
   later messages of any clients (Solicit, Request, Renew, Rebind, other clients' Release / Decline, time)
   except the client's own Release / Decline *)
Theorem C05_srv6_lease_never_reclaimed : forall k ms d l more, NoDup (k_ua k) -> NoDup (k_up k) ->
  aget d (v_l (run6 k ms)) = Some l -> forallb (fun m => negb (leaves d m)) more = true ->
  exists l', aget d (v_l (run6 k (ms ++ more))) = Some l' /\
    (forall u, q_na l = Some u -> q_na l' = Some u /\ aget d (f_alloc (v_a (run6 k (ms ++ more)))) = Some u) /\
    (forall u, q_pd l = Some u -> q_pd l' = Some u /\ aget d (f_alloc (v_p (run6 k (ms ++ more)))) = Some u).
Proof. exact lease_kept. Qed.
Print Assumptions C05_srv6_lease_never_reclaimed.

(* "every unit marked allocated in a pool is held by a live subscriber": refuted twice on the code as it is
   (known findings K05f, marker 506: Release frees only what the lease records, an Advertise reserves
   without a lease; K05g, marker 507: nothing ever expires) ... *)
Theorem C05_srv6_release_leaves_advertised_refuted :
  let s := run6 k_demo [MSolicit 1 false true true; MRequest 1 true true false; MRelease 1] in
  aget 1 (v_l s) = None /\ aget 1 (f_alloc (v_p s)) = Some 20 /\ aget 1 (v_gp s) = None /\
  quiet k_demo [MSolicit 1 false true true; MRequest 1 true true false; MRelease 1] = false.
Proof. exact release_leaves_advertised_refuted. Qed.
Print Assumptions C05_srv6_release_leaves_advertised_refuted.

Theorem C05_srv6_never_expires_refuted :
  let s := run6 k_demo [MRequest 1 true true false; MTick 101] in
  aget 1 (f_alloc (v_a s)) = Some 11 /\ aget 1 (v_ga s) = Some 100 /\ v_now s = 101 /\
  reply6 k_demo s (MRequest 2 true true false) = P6Reply (XaErr 2) XaNone false /\
  quiet k_demo [MRequest 1 true true false; MTick 101] = false.
Proof. exact never_expires_refuted. Qed.
Print Assumptions C05_srv6_never_expires_refuted.

(* ... and proved under the decidable guard [quiet]: the history raises neither marker (every departing
   client's lease covers what the pools hold for it; no lifetime runs out while the pool holds the unit) *)
Theorem C05_srv6_allocated_has_live_holder_partial : forall k ms, NoDup (k_ua k) -> NoDup (k_up k) ->
  quiet k ms = true ->
  (forall d u, aget d (f_alloc (v_a (run6 k ms))) = Some u ->
     exists t, aget d (v_ga (run6 k ms)) = Some t /\ v_now (run6 k ms) <= t) /\
  (forall d u, aget d (f_alloc (v_p (run6 k ms))) = Some u ->
     exists t, aget d (v_gp (run6 k ms)) = Some t /\ v_now (run6 k ms) <= t).
Proof. exact quiet_live. Qed.
Print Assumptions C05_srv6_allocated_has_live_holder_partial.

Theorem C05_srv6_noaddrs_only_if_full_partial : forall k ms d, NoDup (k_ua k) -> NoDup (k_up k) ->
  quiet k ms = true ->
  reply6 k (run6 k ms) (MRequest d true true false) = P6Reply (XaErr 2) XaNone false ->
  forall u, In u (k_ua k) ->
    exists d' t, aget d' (f_alloc (v_a (run6 k ms))) = Some u /\ aget d' (v_ga (run6 k ms)) = Some t /\ v_now (run6 k ms) <= t.
Proof. exact exhausted_only_if_full_a. Qed.
Print Assumptions C05_srv6_noaddrs_only_if_full_partial.

Theorem C05_srv6_noprefix_only_if_full_partial : forall k ms d, NoDup (k_ua k) -> NoDup (k_up k) ->
  quiet k ms = true ->
  reply6 k (run6 k ms) (MRequest d true false true) = P6Reply XaNone (XaErr 6) false ->
  forall u, In u (k_up k) ->
    exists d' t, aget d' (f_alloc (v_p (run6 k ms))) = Some u /\ aget d' (v_gp (run6 k ms)) = Some t /\ v_now (run6 k ms) <= t.
Proof. exact exhausted_only_if_full_p. Qed.
Print Assumptions C05_srv6_noprefix_only_if_full_partial.

Example C05_srv6_guard_satisfiable :
  let ms := [MSolicit 1 false true true; MRequest 1 true true true; MTick 60; MRenew 1 false true true; MTick 60;
             MRequest 2 true false true; MRelease 2; MRequest 3 true false true] in
  quiet k_demo ms = true /\
  reply6 k_demo (run6 k_demo ms) (MRequest 4 true true false) = P6Reply (XaErr 2) XaNone false /\
  aget 1 (v_l (run6 k_demo ms)) = Some {| q_na := Some 11; q_pd := Some 20 |} /\
  aget 3 (f_alloc (v_p (run6 k_demo ms))) = Some 21.
Proof. exact quiet_example. Qed.

(* ---------- a CLUSTER of pool.PeerPool nodes (Model/PeerPools.v: every node a free-list pool, Allocate /
   Release routed by the calling node's health view over the subscriber's rendezvous ranking, Get by the
   static owner); conservation judged over ALL nodes.  Every history of calls entering at any node, every
   sequence of health marks, any rankings, any universes without duplicates. ---------- *)
From Verif Require Model.PeerPools Proofs.PeerPoolsProofs.

(* whatever the routing does, every node's pool keeps the free-list invariant and conservation *)
Theorem C05_peers_pools_conserved : forall univs rank ops, Forall (@NoDup N) univs ->
  PeerPoolsProofs.AllInv (PeerPools.prun univs rank ops).
Proof. exact PeerPoolsProofs.prun_inv. Qed.
Print Assumptions C05_peers_pools_conserved.

(* "a release puts the address back / every allocated address is held by a live subscriber": refuted on the
   code as it is - the Release is routed under the PRESENT health view, not to the node that served the
   Allocate (known finding K05h, marker 508) ... *)
Theorem C05_peers_release_misrouted_refuted :
  let univs := [[11; 12]; [21; 22]] in let rank := [(1, [1; 0])] in
  let ops := [PeerPools.PAlloc 0 1; PeerPools.PHealth 0 1 false; PeerPools.PRelease 0 1] in
  snd (fst (PeerPools.pstep (PeerPools.prun univs rank [PeerPools.PAlloc 0 1; PeerPools.PHealth 0 1 false]) (PeerPools.PRelease 0 1))) = OOk /\
  PeerPools.pp_live (PeerPools.prun univs rank ops) = [] /\
  aget 1 (f_alloc (PeerPools.node (PeerPools.prun univs rank ops) 1)) = Some 21 /\
  PeerPoolsProofs.pquiet univs rank ops = false.
Proof. exact PeerPoolsProofs.release_misrouted_refuted. Qed.
Print Assumptions C05_peers_release_misrouted_refuted.

(* ... and proved under the decidable guard [pquiet] (no Release leaves an allocation behind, no Allocate is
   served while another node holds one for the subscriber): every allocation on EVERY node belongs to a
   subscriber that was told an address and has not released since - a released subscriber holds nothing anywhere *)
Theorem C05_peers_allocated_has_live_holder_partial : forall univs rank ops, Forall (@NoDup N) univs ->
  PeerPoolsProofs.pquiet univs rank ops = true ->
  forall f, In f (PeerPools.pp_nodes (PeerPools.prun univs rank ops)) -> forall h u,
    aget h (f_alloc f) = Some u -> In h (PeerPools.pp_live (PeerPools.prun univs rank ops)).
Proof. exact PeerPoolsProofs.pquiet_held. Qed.
Print Assumptions C05_peers_allocated_has_live_holder_partial.

Example C05_peers_guard_satisfiable :
  let univs := [[11; 12]; [21; 22]] in let rank := [(1, [1; 0]); (2, [0; 1])] in
  let ops := [PeerPools.PAlloc 0 1; PeerPools.PAlloc 1 2; PeerPools.PRelease 1 1; PeerPools.PHealth 0 1 false;
              PeerPools.PAlloc 0 1; PeerPools.PRelease 0 1; PeerPools.PHealth 0 1 true; PeerPools.PAlloc 1 1] in
  PeerPoolsProofs.pquiet univs rank ops = true /\ PeerPools.pp_live (PeerPools.prun univs rank ops) = [1; 2] /\
  aget 1 (f_alloc (PeerPools.node (PeerPools.prun univs rank ops) 1)) = Some 22 /\
  aget 2 (f_alloc (PeerPools.node (PeerPools.prun univs rank ops) 0)) = Some 11.
Proof. exact PeerPoolsProofs.pquiet_example. Qed.
