(* C09 — no packet from the network can crash or hang the gateway.
   Statements only; proofs are in Proofs/Codec*Proofs.v.  The Models (Model/Codec*.v) mirror the
   decoders and handlers as they stand after the C09 fix commits; every index / slice expression of
   the Go code is an [idx]/[sub]/[be16] that can [Panic], every loop has fuel ([Hang] when exhausted)
   and an iteration counter.  [safe r] is  r <> Panic /\ r <> Hang. *)
From Coq Require Import NArith List.
From Verif Require Import Model.CodecBase Model.CodecPPPoE Model.CodecLcp Model.CodecAuth Model.CodecDhcp6
  Model.CodecMisc Model.CodecSpec Model.CodecCheck
  Proofs.CodecBaseProofs Proofs.CodecPPPoEProofs Proofs.CodecMiscProofs Proofs.CodecRoundTripProofs.
Import ListNotations.
Local Open Scope N_scope.

(* (1) Full statement, all entry points at once: for every entry-point number except the session-id
   allocator (9: one call, 14: a sequence of calls; theorems (5) below), every parameter vector (protocol state, identifiers), every byte string and every
   content of the spare buffer capacity, the Model neither panics nor runs out of fuel. *)
Theorem C09_no_panic_no_hang_any_entry : forall e p d tail, e <> 9 -> e <> 14 -> safe (call e p d tail).
Proof. exact call_safe. Qed.
Print Assumptions C09_no_panic_no_hang_any_entry.

(* refinement to the Spec acceptor: it accepts every outcome the Model produces *)
Theorem C09_model_accepted : forall e p d tail, e <> 9 -> e <> 14 ->
  accept tt (Call e p d tail) (run_op (Call e p d tail)) = inl tt.
Proof. exact model_call_accepted. Qed.
Print Assumptions C09_model_accepted.

(* (2) the same, entry point by entry point (the named code paths of the property text) *)
Theorem C09_no_panic_discovery : forall sid d tail, safe (handle_discovery sid d tail).
Proof. exact handle_discovery_safe. Qed.
Print Assumptions C09_no_panic_discovery.

Theorem C09_no_panic_session : forall sid authed d tail, safe (handle_session sid authed d tail).
Proof. exact handle_session_safe. Qed.
Print Assumptions C09_no_panic_session.

Theorem C09_no_panic_padt : forall d tail, safe (parse_padt d tail).
Proof. exact parse_padt_safe. Qed.
Print Assumptions C09_no_panic_padt.

Theorem C09_no_panic_lcp_receive : forall state last_id d, safe (lcp_receive state last_id d).
Proof. exact lcp_receive_safe. Qed.
Print Assumptions C09_no_panic_lcp_receive.

Theorem C09_no_panic_ipcp_receive : forall state last_id d, safe (ipcp_receive state last_id d).
Proof. exact ipcp_receive_safe. Qed.
Print Assumptions C09_no_panic_ipcp_receive.

Theorem C09_no_panic_ipv6cp_receive : forall state last_id d, safe (ip6cp_receive state last_id d).
Proof. exact ip6cp_receive_safe. Qed.
Print Assumptions C09_no_panic_ipv6cp_receive.

Theorem C09_no_panic_auth : forall proto chap_id d, safe (auth_receive proto chap_id d).
Proof. exact auth_receive_safe. Qed.
Print Assumptions C09_no_panic_auth.

Theorem C09_no_panic_dhcpv6_handle : forall server_duid d, safe (d6_handle server_duid d).
Proof. exact d6_handle_safe. Qed.
Print Assumptions C09_no_panic_dhcpv6_handle.

Theorem C09_no_panic_sse : forall s, safe (sse_count s).
Proof. exact sse_count_safe. Qed.
Print Assumptions C09_no_panic_sse.

(* (3) never indexes outside its input: where the code re-slices a receive buffer, the result does
   not depend on the bytes lying in the spare capacity *)
Theorem C09_discovery_reads_only_input : forall sid d tail, handle_discovery sid d tail = handle_discovery sid d [].
Proof. exact handle_discovery_no_overread. Qed.
Print Assumptions C09_discovery_reads_only_input.

Theorem C09_session_reads_only_input : forall sid authed d tail, handle_session sid authed d tail = handle_session sid authed d [].
Proof. exact handle_session_no_overread. Qed.
Print Assumptions C09_session_reads_only_input.

Theorem C09_padt_reads_only_input : forall d tail, parse_padt d tail = parse_padt d [].
Proof. exact parse_padt_no_overread. Qed.
Print Assumptions C09_padt_reads_only_input.

(* (4) bound linear in the input length: iterations of each loop (steps) against |input| *)
Theorem C09_tlv16_linear : forall eol d, 4 * snd (tlv16 eol d) <= lenN d + 4.
Proof. exact tlv16_steps. Qed.
Print Assumptions C09_tlv16_linear.

Theorem C09_lcp_options_linear : forall d, 2 * snd (lcpopts d) <= lenN d + 2.
Proof. exact lcpopts_steps. Qed.
Print Assumptions C09_lcp_options_linear.

Theorem C09_option82_linear : forall d, 2 * snd (opt82 d) <= lenN d + 2.
Proof. exact opt82_steps. Qed.
Print Assumptions C09_option82_linear.

Theorem C09_vendor_linear : forall d, 2 * snd (vendor d) <= lenN d + 2.
Proof. exact vendor_steps. Qed.
Print Assumptions C09_vendor_linear.

(* (5) the session-id allocator (PADR flood): terminates within 65537 probes whatever the table,
   refuses when all 65535 ids are live, and otherwise issues a free, non-zero id.
   [table_wf used count]: count = len(m.sessions) < 65535 leaves some id of 1..65535 free
   (pigeonhole on the uint16-keyed map; hypothesis of the Model, not proved about Go maps). *)
Theorem C09_create_session_terminates : forall used count next,
  table_wf used count -> next <= 65535 -> safe (create_session used count next).
Proof. exact create_session_safe. Qed.
Print Assumptions C09_create_session_terminates.

Theorem C09_create_session_probe_bound : forall used next, snd (scan_id id_fuel used next 0) <= 65537.
Proof. exact create_session_steps. Qed.
Print Assumptions C09_create_session_probe_bound.

Theorem C09_create_session_sound : forall used count next id nx,
  create_session used count next = Ok (id, nx) ->
  used id = false /\ nx <> 0 /\ (next <> 0 -> id <> 0) /\ count < 65535.
Proof. exact create_session_sound. Qed.
Print Assumptions C09_create_session_sound.

Theorem C09_create_session_capacity_exact : forall used count next,
  table_wf used count -> next <= 65535 -> count < 65535 ->
  exists id nx, create_session used count next = Ok (id, nx).
Proof. exact create_session_issues. Qed.
Print Assumptions C09_create_session_capacity_exact.

Theorem C09_create_session_full_table : forall used count next, 65535 <= count -> create_session used count next = Err.
Proof. exact create_session_full. Qed.
Print Assumptions C09_create_session_full_table.

Theorem C09_model_create_accepted : forall p,
  table_wf (used_of p) (count_of p) -> pnth p 1 <= 65535 ->
  accept tt (Call 9 p [] []) (run_op (Call 9 p [] [])) = inl tt.
Proof. exact model_create_accepted. Qed.
Print Assumptions C09_model_create_accepted.

(* (6) round trips of the 16-bit TLV codec: parsing what the serializer wrote returns the values.
   [tlv_ok eol t]: type and value length fit 16 bits; for PPPoE tags the type is not End-Of-List (0). *)
Theorem C09_tags_roundtrip : forall ts, Forall (tlv_ok true) ts -> parse_tags (ser_tlv16 ts) = Ok (tlv_rows ts).
Proof. exact parse_tags_roundtrip. Qed.
Print Assumptions C09_tags_roundtrip.

Theorem C09_dhcpv6_options_roundtrip : forall os, Forall (tlv_ok false) os -> d6_options (ser_tlv16 os) = Ok (tlv_rows os).
Proof. exact d6_options_roundtrip. Qed.
Print Assumptions C09_dhcpv6_options_roundtrip.

Example C09_roundtrip_hypothesis_satisfiable :
  Forall (tlv_ok true) [(257, [105; 110]); (259, [])] /\
  parse_tags (ser_tlv16 [(257, [105; 110]); (259, [])]) = Ok [[257; 2; 105; 110]; [259; 0]].
Proof.
  split; [|vm_compute; reflexivity].
  repeat constructor; cbn; try discriminate; try (intros _; discriminate).
Qed.

(* non-vacuity of the hypotheses: a table with ids 1..65534 live and 65535 free, cursor at 2 *)
Example C09_table_wf_satisfiable :
  table_wf (fun id => negb (id =? 65535)) 65534 /\
  create_session (fun id => negb (id =? 65535)) 65534 2 = Ok (65535, 1).
Proof. split; [intros _; exists 65535; repeat split; discriminate|vm_compute; reflexivity]. Qed.

(* the close path of the LCP handler: a Protocol-Reject of LCP itself (0xC021) received in Opened
   sends a Terminate-Request "LCP rejected" and leaves the automaton in Closing (4); a Protocol-Reject
   of IPCP leaves it in Opened; a critical Code-Reject in Stopped gives Closed (2) *)
Example C09_lcp_close_path :
  lcp_receive 9 1 [8; 9; 0; 6; 192; 33] = Ok [5 :: reason_lcp; [99; 4]] /\
  lcp_receive 9 1 [8; 9; 0; 6; 128; 33] = Ok [[99; 9]] /\
  lcp_receive 3 1 [7; 9; 0; 5; 1] = Ok [[99; 2]].
Proof. vm_compute. repeat split; reflexivity. Qed.

(* the boundary the integrator's regression sits on: ids 1..65534 live, 65535 free, cursor 1 —
   the free id is found and issued; the next call is refused (65535 live) *)
Example C09_create_boundary :
  create_seq 2 (fun id => negb (id =? 65535)) 65534 1 = Ok [[1; 65535; 1]; [0]].
Proof. vm_compute. reflexivity. Qed.

(* the witnesses of the repaired defects are rejected inputs now, not panics (regression) *)
Example C09_witnesses :
  handle_discovery 0 [17; 9; 0; 0; 5; 0] [] = Ok [[0]] /\
  handle_session 1 0 [17; 0; 0; 1; 0; 0; 192; 33] [] = Ok [[1]] /\
  auth_receive 49699 1 [2; 1; 0; 0; 16] = Err /\
  lcp_receive 9 1 [9; 7; 0; 6; 1; 2] = Ok [] /\
  parse_padt [17; 167; 0; 1; 0; 9; 1] [] = Err.
Proof. vm_compute. repeat split; reflexivity. Qed.
