(* C09 — no packet from the network can crash or hang the gateway.
   Statements only; proofs are in Proofs/Codec*Proofs.v.  The Models (Model/Codec*.v) mirror the
   decoders and handlers as they stand after the C09 fix commits; every index / slice expression of
   the Go code is an [idx]/[sub]/[be16] that can [Panic], every loop has fuel ([Hang] when exhausted)
   and an iteration counter.  [safe r] is  r <> Panic /\ r <> Hang. *)
From Coq Require Import NArith List.
From Verif Require Import Model.CodecBase Model.CodecPPPoE Model.CodecLcp Model.CodecAuth Model.CodecDhcp6
  Model.CodecMisc Model.CodecGlue Model.CodecSpec Model.CodecCheck
  Proofs.CodecBaseProofs Proofs.CodecPPPoEProofs Proofs.CodecMiscProofs Proofs.CodecTableProofs Proofs.CodecRoundTripProofs.
Import ListNotations.
Local Open Scope N_scope.

(* (1) Full statement, all entry points at once: for every entry-point number except the session-id
   allocator (9: one call, 14: a sequence of calls; their case parameters encode a table by its
   complement, so their theorems are stated on tables directly: (5) and (5b) below), every parameter
   vector (protocol state, identifiers, lease state), every byte string and every content of the
   spare buffer capacity, the Model neither panics nor runs out of fuel.  This includes entry 15
   (the PPPoE receive-loop body on a raw Ethernet frame) and entry 28 (the DHCPv6 handlers with
   lease state and nil-pointer semantics). *)
Theorem C09_no_panic_no_hang_any_entry : forall e p d tail, e <> 9 -> e <> 14 -> safe (call e p d tail).
Proof. exact call_safe. Qed.
Print Assumptions C09_no_panic_no_hang_any_entry.

(* refinement to the Spec acceptor: it accepts every outcome the Model produces *)
Theorem C09_model_accepted : forall e p d tail, e <> 9 -> e <> 14 ->
  accept tt (Call e p d tail) (run_op (Call e p d tail)) = inl tt.
Proof. exact model_call_accepted. Qed.
Print Assumptions C09_model_accepted.

(* (2) the same, entry point by entry point (the named code paths of the property text) *)
Theorem C09_no_panic_discovery : forall sid d tail, safe (handle_discovery sid d tail).
Proof. exact handle_discovery_safe. Qed.
Print Assumptions C09_no_panic_discovery.

Theorem C09_no_panic_session : forall sid authed d tail, safe (handle_session sid authed d tail).
Proof. exact handle_session_safe. Qed.
Print Assumptions C09_no_panic_session.

Theorem C09_no_panic_padt : forall d tail, safe (parse_padt d tail).
Proof. exact parse_padt_safe. Qed.
Print Assumptions C09_no_panic_padt.

Theorem C09_no_panic_lcp_receive : forall state last_id d, safe (lcp_receive state last_id d).
Proof. exact lcp_receive_safe. Qed.
Print Assumptions C09_no_panic_lcp_receive.

Theorem C09_no_panic_ipcp_receive : forall state last_id d, safe (ipcp_receive state last_id d).
Proof. exact ipcp_receive_safe. Qed.
Print Assumptions C09_no_panic_ipcp_receive.

Theorem C09_no_panic_ipv6cp_receive : forall state last_id d, safe (ip6cp_receive state last_id d).
Proof. exact ip6cp_receive_safe. Qed.
Print Assumptions C09_no_panic_ipv6cp_receive.

Theorem C09_no_panic_auth : forall proto chap_id d, safe (auth_receive proto chap_id d).
Proof. exact auth_receive_safe. Qed.
Print Assumptions C09_no_panic_auth.

Theorem C09_no_panic_dhcpv6_handle : forall server_duid d, safe (d6_handle server_duid d).
Proof. exact d6_handle_safe. Qed.
Print Assumptions C09_no_panic_dhcpv6_handle.

Theorem C09_no_panic_sse : forall s, safe (sse_count s).
Proof. exact sse_count_safe. Qed.
Print Assumptions C09_no_panic_sse.

(* (2b) handler glue.  Pointers that may be nil are options and every dereference is [deref], which
   is Panic on None; a map lookup that misses yields the nil pointer.  DHCPv6: every handler, every
   lease state (lookup hit or miss, lease with / without address and prefix), every server DUID. *)
Theorem C09_no_panic_dhcpv6_handle_any_lease_state : forall hit la lp nl server_duid prepared d,
  safe (d6_handle_st hit la lp nl server_duid prepared d).
Proof. exact d6_handle_st_safe. Qed.
Print Assumptions C09_no_panic_dhcpv6_handle_any_lease_state.

(* buildAdvertise / buildReply never return the nil message once the Client Identifier was found
   (handleSolicit appends to response.Options before its nil check) *)
Theorem C09_dhcpv6_response_not_nil : forall os c r, find_opt os 1 = Some c -> build_msg os = Ok r -> r = Some tt.
Proof. exact build_msg_some. Qed.
Print Assumptions C09_dhcpv6_response_not_nil.

(* the PPPoE receive-loop body on any frame of any length, any stale bytes behind it in the buffer *)
Theorem C09_no_panic_recv_frame : forall sid authed frame tail, safe (recv_frame sid authed frame tail).
Proof. exact recv_frame_safe. Qed.
Print Assumptions C09_no_panic_recv_frame.

Theorem C09_recv_frame_reads_only_input : forall sid authed frame tail,
  recv_frame sid authed frame tail = recv_frame sid authed frame [].
Proof. exact recv_frame_no_overread. Qed.
Print Assumptions C09_recv_frame_reads_only_input.

(* non-vacuity: the Model can express the nil dereference and the guards matter.  A Request whose
   Server Identifier has 0 or 1 bytes makes ParseDUID return nil; the guard returns; an unguarded
   dereference of that pointer is a Panic. *)
Example C09_nil_guard_matters :
  as_ptr (d6_duid []) = Ok None /\ as_ptr (d6_duid [7]) = Ok None /\
  deref (@None rows) = Panic /\
  d6_handle_st false false false 0 [0; 3; 0; 1; 2] [] [3; 1; 2; 3; 0; 1; 0; 1; 9; 0; 2; 0; 0] = Ok [[0; 0; 0]] /\
  d6_handle_st false false false 0 [0; 3; 0; 1; 2] [] [3; 1; 2; 3; 0; 1; 0; 1; 9; 0; 2; 0; 5; 0; 3; 0; 1; 2] = Ok [[0; 1; 1]] /\
  (* Renew from a client with a lease (hit) and without (miss); Release removes the lease *)
  d6_handle_st true true false 4 [0; 3] [9] [5; 1; 2; 3; 0; 1; 0; 1; 9] = Ok [[0; 1; 4]] /\
  d6_handle_st true true false 4 [0; 3] [8] [5; 1; 2; 3; 0; 1; 0; 1; 9] = Ok [[0; 0; 4]] /\
  d6_handle_st true true false 4 [0; 3] [9] [8; 1; 2; 3; 0; 1; 0; 1; 9] = Ok [[0; 1; 3]].
Proof. vm_compute. repeat split; reflexivity. Qed.

(* a runt frame, a frame for another station, a PADI to the broadcast address *)
Example C09_recv_frame_paths :
  recv_frame 0 0 [255; 255; 255; 255; 255; 255; 2; 170; 187; 204; 221; 1; 136] [9; 9] = Ok [[0]] /\
  recv_frame 0 0 [2; 0; 0; 0; 0; 7; 2; 170; 187; 204; 221; 1; 136; 99; 17; 9; 0; 0; 0; 0] [] = Ok [[0]] /\
  recv_frame 0 0 [255; 255; 255; 255; 255; 255; 2; 170; 187; 204; 221; 1; 136; 99; 17; 9; 0; 0; 0; 0] [] = Ok [[7; 0; 3]; [0]] /\
  (* a PADT for the live session 1 from its owner ends it; from another station it does not *)
  recv_frame 1 0 [2; 0; 0; 0; 0; 1; 2; 170; 187; 204; 221; 1; 136; 99; 17; 167; 0; 1; 0; 0] [] = Ok [[0]] /\
  recv_frame 1 0 [2; 0; 0; 0; 0; 1; 2; 170; 187; 204; 221; 9; 136; 99; 17; 167; 0; 1; 0; 0] [] = Ok [[1]].
Proof. vm_compute. repeat split; reflexivity. Qed.

(* (3) never indexes outside its input: where the code re-slices a receive buffer, the result does
   not depend on the bytes lying in the spare capacity *)
Theorem C09_discovery_reads_only_input : forall sid d tail, handle_discovery sid d tail = handle_discovery sid d [].
Proof. exact handle_discovery_no_overread. Qed.
Print Assumptions C09_discovery_reads_only_input.

Theorem C09_session_reads_only_input : forall sid authed d tail, handle_session sid authed d tail = handle_session sid authed d [].
Proof. exact handle_session_no_overread. Qed.
Print Assumptions C09_session_reads_only_input.

Theorem C09_padt_reads_only_input : forall d tail, parse_padt d tail = parse_padt d [].
Proof. exact parse_padt_no_overread. Qed.
Print Assumptions C09_padt_reads_only_input.

(* (4) bound linear in the input length: iterations of each loop (steps) against |input| *)
Theorem C09_tlv16_linear : forall eol d, 4 * snd (tlv16 eol d) <= lenN d + 4.
Proof. exact tlv16_steps. Qed.
Print Assumptions C09_tlv16_linear.

Theorem C09_lcp_options_linear : forall d, 2 * snd (lcpopts d) <= lenN d + 2.
Proof. exact lcpopts_steps. Qed.
Print Assumptions C09_lcp_options_linear.

Theorem C09_option82_linear : forall d, 2 * snd (opt82 d) <= lenN d + 2.
Proof. exact opt82_steps. Qed.
Print Assumptions C09_option82_linear.

Theorem C09_vendor_linear : forall d, 2 * snd (vendor d) <= lenN d + 2.
Proof. exact vendor_steps. Qed.
Print Assumptions C09_vendor_linear.

(* (5) the session-id allocator (PADR flood): terminates within 65537 probes whatever the table,
   refuses when all 65535 ids are live, and otherwise issues a free, non-zero id.
   [table_wf used count]: count = len(m.sessions) < 65535 leaves some id of 1..65535 free
   (pigeonhole on the uint16-keyed map; hypothesis of the Model, not proved about Go maps). *)
Theorem C09_create_session_terminates : forall used count next,
  table_wf used count -> next <= 65535 -> safe (create_session used count next).
Proof. exact create_session_safe. Qed.
Print Assumptions C09_create_session_terminates.

Theorem C09_create_session_probe_bound : forall used next, snd (scan_id id_fuel used next 0) <= 65537.
Proof. exact create_session_steps. Qed.
Print Assumptions C09_create_session_probe_bound.

Theorem C09_create_session_sound : forall used count next id nx,
  create_session used count next = Ok (id, nx) ->
  used id = false /\ nx <> 0 /\ (next <> 0 -> id <> 0) /\ count < 65535.
Proof. exact create_session_sound. Qed.
Print Assumptions C09_create_session_sound.

Theorem C09_create_session_capacity_exact : forall used count next,
  table_wf used count -> next <= 65535 -> count < 65535 ->
  exists id nx, create_session used count next = Ok (id, nx).
Proof. exact create_session_issues. Qed.
Print Assumptions C09_create_session_capacity_exact.

Theorem C09_create_session_full_table : forall used count next, 65535 <= count -> create_session used count next = Err.
Proof. exact create_session_full. Qed.
Print Assumptions C09_create_session_full_table.

Theorem C09_model_create_accepted : forall p,
  table_wf (used_of p) (count_of p) -> pnth p 1 <= 65535 ->
  accept tt (Call 9 p [] []) (run_op (Call 9 p [] [])) = inl tt.
Proof. exact model_create_accepted. Qed.
Print Assumptions C09_model_create_accepted.

(* (5b) the same for EVERY state of the session table, without the pigeonhole hypothesis.  The table
   is a Go map keyed by uint16: a key list without duplicates ([NoDup] is the representation
   invariant of a map, not an assumption on its contents); len(m.sessions) is its length.
   [tbl_inv used count] : some duplicate-free key list has membership [used] and length [count]. *)
Theorem C09_table_pigeonhole : forall used count, tbl_inv used count -> table_wf used count.
Proof. exact tbl_inv_wf. Qed.
Print Assumptions C09_table_pigeonhole.

Theorem C09_create_session_any_table : forall keys next,
  NoDup keys -> next <= 65535 -> safe (create_tbl keys next).
Proof. exact create_tbl_safe. Qed.
Print Assumptions C09_create_session_any_table.

Theorem C09_create_session_capacity_any_table : forall keys next,
  NoDup keys -> next <= 65535 -> lenN keys < 65535 ->
  exists id nx, create_tbl keys next = Ok (id, nx) /\ ~ In id keys /\ 1 <= nx <= 65535.
Proof. exact create_tbl_issues. Qed.
Print Assumptions C09_create_session_capacity_any_table.

(* a PADR flood of any length starting from any table: every call returns (entry 14 of the tie) *)
Theorem C09_create_sequence_any_table : forall n used count next,
  tbl_inv used count -> next <= 65535 -> safe (create_seq n used count next).
Proof. exact create_seq_safe. Qed.
Print Assumptions C09_create_sequence_any_table.

Theorem C09_padr_flood_any_table : forall n keys next,
  NoDup keys -> next <= 65535 -> safe (padr_flood n keys next).
Proof. exact padr_flood_safe. Qed.
Print Assumptions C09_padr_flood_any_table.

Example C09_table_hypotheses_satisfiable :
  NoDup [1; 2; 4] /\ tbl_inv (mem [1; 2; 4]) 3 /\
  padr_flood 3 [1; 2; 4] 1 = Ok [[101; 3]; [101; 5]; [101; 6]] /\
  create_tbl [1; 2; 4] 65535 = Ok (65535, 1).
Proof.
  assert (H : NoDup [1; 2; 4]).
  { repeat constructor; cbn; intuition discriminate. }
  split; [exact H|]. split; [exact (tbl_inv_mem _ H)|]. vm_compute. split; reflexivity.
Qed.

(* (6) round trips of the 16-bit TLV codec: parsing what the serializer wrote returns the values.
   [tlv_ok eol t]: type and value length fit 16 bits; for PPPoE tags the type is not End-Of-List (0). *)
Theorem C09_tags_roundtrip : forall ts, Forall (tlv_ok true) ts -> parse_tags (ser_tlv16 ts) = Ok (tlv_rows ts).
Proof. exact parse_tags_roundtrip. Qed.
Print Assumptions C09_tags_roundtrip.

Theorem C09_dhcpv6_options_roundtrip : forall os, Forall (tlv_ok false) os -> d6_options (ser_tlv16 os) = Ok (tlv_rows os).
Proof. exact d6_options_roundtrip. Qed.
Print Assumptions C09_dhcpv6_options_roundtrip.

Example C09_roundtrip_hypothesis_satisfiable :
  Forall (tlv_ok true) [(257, [105; 110]); (259, [])] /\
  parse_tags (ser_tlv16 [(257, [105; 110]); (259, [])]) = Ok [[257; 2; 105; 110]; [259; 0]].
Proof.
  split; [|vm_compute; reflexivity].
  repeat constructor; cbn; try discriminate; try (intros _; discriminate).
Qed.

(* non-vacuity of the hypotheses: a table with ids 1..65534 live and 65535 free, cursor at 2 *)
Example C09_table_wf_satisfiable :
  table_wf (fun id => negb (id =? 65535)) 65534 /\
  create_session (fun id => negb (id =? 65535)) 65534 2 = Ok (65535, 1).
Proof. split; [intros _; exists 65535; repeat split; discriminate|vm_compute; reflexivity]. Qed.

(* the close path of the LCP handler: a Protocol-Reject of LCP itself (0xC021) received in Opened
   sends a Terminate-Request "LCP rejected" and leaves the automaton in Closing (4); a Protocol-Reject
   of IPCP leaves it in Opened; a critical Code-Reject in Stopped gives Closed (2) *)
Example C09_lcp_close_path :
  lcp_receive 9 1 [8; 9; 0; 6; 192; 33] = Ok [5 :: reason_lcp; [99; 4]] /\
  lcp_receive 9 1 [8; 9; 0; 6; 128; 33] = Ok [[99; 9]] /\
  lcp_receive 3 1 [7; 9; 0; 5; 1] = Ok [[99; 2]].
Proof. vm_compute. repeat split; reflexivity. Qed.

(* the boundary the integrator's regression sits on: ids 1..65534 live, 65535 free, cursor 1 —
   the free id is found and issued; the next call is refused (65535 live) *)
Example C09_create_boundary :
  create_seq 2 (fun id => negb (id =? 65535)) 65534 1 = Ok [[1; 65535; 1]; [0]].
Proof. vm_compute. reflexivity. Qed.

(* the witnesses of the repaired defects are rejected inputs now, not panics (regression) *)
Example C09_witnesses :
  handle_discovery 0 [17; 9; 0; 0; 5; 0] [] = Ok [[0]] /\
  handle_session 1 0 [17; 0; 0; 1; 0; 0; 192; 33] [] = Ok [[1]] /\
  auth_receive 49699 1 [2; 1; 0; 0; 16] = Err /\
  lcp_receive 9 1 [9; 7; 0; 6; 1; 2] = Ok [] /\
  parse_padt [17; 167; 0; 1; 0; 9; 1] [] = Err.
Proof. vm_compute. repeat split; reflexivity. Qed.
