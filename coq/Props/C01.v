(* C01 — no address or prefix is ever held by two subscribers at once.
   Statements only; proofs are in Proofs/*.v.  Each theorem is closed by [exact] and followed by
   Print Assumptions.  Histories are arbitrary lists of operations ([brun g ops] = fold_left over
   [ops] from the empty pool); geometries are arbitrary ([geo_wf] is what net.ParseCIDR guarantees). *)
From Coq Require Import NArith List.
From Verif Require Import Base.Word Model.PoolMap Model.Geometry Model.PoolSpec Model.Bitmap Model.Epoch
  Model.FreeList Model.HashAlloc
  Proofs.GeometryProofs Proofs.BitmapProofs Proofs.EpochProofs Proofs.FreeListProofs Proofs.HashAllocProofs.
Import ListNotations.
Local Open Scope N_scope.

(* ---------- geometry: every base / prefix-length combination ---------- *)
Theorem C01_geometry_in_range : forall g i, geo_wf g -> i < g_total g -> inside g (addr_of_index g i) (g_step g).
Proof. exact addr_in_range. Qed.
Print Assumptions C01_geometry_in_range.

Theorem C01_geometry_in_address_space : forall g i, geo_wf g -> i < g_total g ->
  addr_of_index g i + g_step g <= 2 ^ g_bits g.
Proof. exact addr_below_space. Qed.
Print Assumptions C01_geometry_in_address_space.

Theorem C01_geometry_disjoint : forall g i j, i < j -> addr_of_index g i + g_step g <= addr_of_index g j.
Proof. exact addr_disjoint. Qed.
Print Assumptions C01_geometry_disjoint.

Theorem C01_geometry_roundtrip : forall g i d, i < g_total g -> d < g_step g ->
  index_of_addr g (addr_of_index g i + d) (g_pl g) = Some i.
Proof. exact index_of_addr_of. Qed.
Print Assumptions C01_geometry_roundtrip.

(* byte-wise addition without carry (epoch indexToIP, dhcp.Pool, nexus) is plain addition for every base
   aligned to 2^k and every offset below 2^k, k <= 32: no geometry makes a byte overflow *)
Theorem C01_nocarry_is_addition : forall base off k,
  k <= 32 -> base < 4294967296 -> base mod 2 ^ k = 0 -> off < 2 ^ k -> add_nocarry32 base off = base + off.
Proof. exact nocarry_is_addition. Qed.
Print Assumptions C01_nocarry_is_addition.

(* ---------- bitmap allocator (allocator.IPAllocator), every history ---------- *)
Theorem C01_bitmap_unique : forall g ops h1 h2 u, bholds g ops h1 u -> bholds g ops h2 u -> h1 = h2.
Proof. exact bitmap_unique. Qed.
Print Assumptions C01_bitmap_unique.

Theorem C01_bitmap_prefixes_disjoint : forall g ops h1 h2 u1 u2,
  h1 <> h2 -> bholds g ops h1 u1 -> bholds g ops h2 u2 -> u1 + g_step g <= u2 \/ u2 + g_step g <= u1.
Proof. exact bitmap_disjoint. Qed.
Print Assumptions C01_bitmap_prefixes_disjoint.

Theorem C01_bitmap_in_range : forall g ops h u, geo_wf g -> bholds g ops h u -> inside g u (g_step g).
Proof. exact bitmap_in_range. Qed.
Print Assumptions C01_bitmap_in_range.

Theorem C01_bitmap_stable : forall g ops h u, bholds g ops h u ->
  Bitmap.step (brun g ops) (Alloc h) = (brun g ops, OUnit u, []) /\
  Bitmap.step (brun g ops) (Lookup h) = (brun g ops, OUnit u, []).
Proof. exact bitmap_stable. Qed.
Print Assumptions C01_bitmap_stable.

Theorem C01_bitmap_answer_is_held : forall g ops h u,
  BitmapProofs.outp (brun g ops) (Alloc h) = OUnit u -> bholds g (ops ++ [Alloc h]) h u.
Proof. exact bitmap_alloc_answer. Qed.
Print Assumptions C01_bitmap_answer_is_held.

(* non-vacuity: a history with reload, release from the middle and re-allocation after which two
   subscribers hold units *)
Example C01_bitmap_nonvacuous :
  let g := {| g_bits := 32; g_base := 167772160; g_ppl := 29; g_pl := 32 |} in
  let ops := [Alloc 1; Alloc 2; Alloc 3; Release 2; SetAlloc 4 167772165 32; Alloc 5; Release 1] in
  geo_wf g /\ bholds g ops 5 167772161 /\ bholds g ops 4 167772165 /\ bholds g ops 3 167772162.
Proof.
  cbv zeta. split; [apply geo_wfb_ok; vm_compute; reflexivity|].
  split; [|split]; (eexists; split; [vm_compute; reflexivity|vm_compute; reflexivity]).
Qed.

(* ---------- epoch / lease allocator (allocator.EpochBitmapAllocator), every history ----------
   [erun base ppl pl grace ops] is the state after any operation list, [EInv] its invariant
   (EpochProofs.erun_inv : forall ..., EInv (erun ...)). *)
Theorem C01_epoch_invariant : forall base ppl pl grace ops, EInv (erun base ppl pl grace ops).
Proof. exact erun_inv. Qed.
Print Assumptions C01_epoch_invariant.

Theorem C01_epoch_unique : forall base ppl pl grace ops h1 h2 i,
  aget h1 (e_subs (erun base ppl pl grace ops)) = Some i ->
  aget h2 (e_subs (erun base ppl pl grace ops)) = Some i -> h1 = h2.
Proof. exact epoch_unique_run. Qed.
Print Assumptions C01_epoch_unique.

(* a held slot is never the network (0) or broadcast (total-1) slot and lies below total; its address
   is base + slot (C01_nocarry_is_addition) *)
Theorem C01_epoch_in_range : forall base ppl pl grace ops h i,
  aget h (e_subs (erun base ppl pl grace ops)) = Some i ->
  0 < i /\ i + 1 < e_total (erun base ppl pl grace ops).
Proof. exact epoch_in_range_run. Qed.
Print Assumptions C01_epoch_in_range.

(* asking again: same unit from Allocate and from Lookup, still held afterwards, lease renewed *)
Theorem C01_epoch_unit_is_base_plus_slot : forall base ppl pl grace ops i,
  ppl <= pl -> pl <= 32 -> base < 4294967296 -> base mod 2 ^ (32 - ppl) = 0 ->
  i < e_total (erun base ppl pl grace ops) ->
  eunit (erun base ppl pl grace ops) i = base + i /\ base + i < base + 2 ^ (32 - ppl).
Proof. exact epoch_unit_is_addition. Qed.
Print Assumptions C01_epoch_unit_is_base_plus_slot.

Theorem C01_epoch_stable : forall base ppl pl grace ops h i,
  aget h (e_subs (erun base ppl pl grace ops)) = Some i ->
  EpochProofs.outp (erun base ppl pl grace ops) (Alloc h) = OUnit (eunit (erun base ppl pl grace ops) i) /\
  EpochProofs.outp (erun base ppl pl grace ops) (Lookup h) = OUnit (eunit (erun base ppl pl grace ops) i) /\
  aget h (e_subs (EpochProofs.next (erun base ppl pl grace ops) (Alloc h))) = Some i /\
  eage (EpochProofs.next (erun base ppl pl grace ops) (Alloc h)) i = 0.
Proof. exact epoch_stable_run. Qed.
Print Assumptions C01_epoch_stable.

Theorem C01_epoch_answer_is_held : forall base ppl pl grace ops h u,
  EpochProofs.outp (erun base ppl pl grace ops) (Alloc h) = OUnit u ->
  exists i, aget h (e_subs (EpochProofs.next (erun base ppl pl grace ops) (Alloc h))) = Some i /\
            u = eunit (erun base ppl pl grace ops) i.
Proof. exact epoch_answer_run. Qed.
Print Assumptions C01_epoch_answer_is_held.

Example C01_epoch_nonvacuous :
  let s := erun 167772160 29 32 1 [Alloc 1; Alloc 2; Advance; Renew 2; Release 1; Alloc 3; Advance] in
  aget 2 (e_subs s) = Some 2 /\ aget 3 (e_subs s) = Some 1 /\ aget 1 (e_subs s) = None.
Proof. vm_compute. split; [reflexivity|split; reflexivity]. Qed.

(* ---------- free-list pools: dhcp.Pool, dhcpv6 AddressPool / PrefixPool, pppoe.IPPool (after fix
   9686c62), pool.LocalPool -- one parametric Model; every universe without duplicates, every history ---- *)
Theorem C01_freelist_unique : forall univ ops, NoDup univ -> forall h1 h2 u,
  aget h1 (f_alloc (frun univ ops)) = Some u -> aget h2 (f_alloc (frun univ ops)) = Some u -> h1 = h2.
Proof. exact freelist_unique. Qed.
Print Assumptions C01_freelist_unique.

Theorem C01_freelist_in_range : forall univ ops, NoDup univ -> forall h u,
  aget h (f_alloc (frun univ ops)) = Some u -> In u univ.
Proof. exact freelist_in_range. Qed.
Print Assumptions C01_freelist_in_range.

Theorem C01_freelist_stable : forall univ ops, NoDup univ -> forall h u,
  aget h (f_alloc (frun univ ops)) = Some u ->
  FreeList.step (frun univ ops) (Alloc h) = (frun univ ops, OUnit u, []).
Proof. exact freelist_stable. Qed.
Print Assumptions C01_freelist_stable.

Theorem C01_freelist_answer_is_held : forall univ ops, NoDup univ -> forall h u,
  FreeListProofs.outp (frun univ ops) (Alloc h) = OUnit u ->
  aget h (f_alloc (FreeListProofs.next (frun univ ops) (Alloc h))) = Some u.
Proof. exact freelist_answer. Qed.
Print Assumptions C01_freelist_answer_is_held.

(* the universes built by walking the CIDR have no duplicates and stay inside it, for every base and
   prefix length (the byte-adding / bit-placing constructors are covered by C01_nocarry_is_addition
   and, per generated case, by the NoDup/inside check evaluated in Model/PoolCheck.v) *)
Theorem C01_v6addr_universe : forall base ppl,
  NoDup (v6addr_univ base ppl) /\
  forall u, In u (v6addr_univ base ppl) -> base < u /\ u < base + 2 ^ (128 - ppl).
Proof. exact v6addr_universe. Qed.
Print Assumptions C01_v6addr_universe.

Theorem C01_pppoe_universe : forall base ppl gw,
  NoDup (pppoe_univ base ppl gw) /\
  forall u, In u (pppoe_univ base ppl gw) -> base < u /\ u < base + 2 ^ (32 - ppl) /\ u <> gw.
Proof. exact pppoe_universe. Qed.
Print Assumptions C01_pppoe_universe.

(* pppoe.IPPool as it was before fix 9686c62 (no look-up of the session): stability refuted *)
Theorem C01_pppoe_stable_refuted_before_fix :
  let s := fold_left FreeListProofs.next [Alloc 1; Alloc 1] (finit false [10; 11]) in
  aget 1 (f_alloc s) = Some 11 /\
  FreeListProofs.outp (fold_left FreeListProofs.next [Alloc 1] (finit false [10; 11])) (Alloc 1) = OUnit 11 /\
  FreeListProofs.outp s (Alloc 2) = OErr 1 /\ (forall h, aget h (f_alloc s) <> Some 10).
Proof. exact freelist_nonidem_refuted. Qed.
Print Assumptions C01_pppoe_stable_refuted_before_fix.

Example C01_freelist_nonvacuous :
  aget 2 (f_alloc (frun [10; 11; 12] [Alloc 1; Alloc 2; Release 1; Alloc 3; Alloc 4])) = Some 11 /\
  aget 4 (f_alloc (frun [10; 11; 12] [Alloc 1; Alloc 2; Release 1; Alloc 3; Alloc 4])) = Some 10.
Proof. split; vm_compute; reflexivity. Qed.

(* ---------- hash-based central allocation (nexus allocateFromPool) ---------- *)
(* uniqueness is refuted: pigeonhole in a /30, and a concrete FNV-1a collision modulo a /24
   (known finding K01a, marker 102) *)
Theorem C01_hash_unique_refuted_slash30 :
  exists h1 h2 a, h1 <> h2 /\ aget h1 (hs_addr (hrun c30 [Alloc 1; Alloc 2; Alloc 3])) = Some a /\
                  aget h2 (hs_addr (hrun c30 [Alloc 1; Alloc 2; Alloc 3])) = Some a.
Proof. exact hash_unique_refuted_slash30. Qed.
Print Assumptions C01_hash_unique_refuted_slash30.

Theorem C01_hash_unique_refuted_slash24 :
  exists h1 h2, coll24 = Some (h1, h2) /\ h1 <> h2 /\ hash_addr c24 h1 = hash_addr c24 h2.
Proof. exact hash_unique_refuted_slash24. Qed.
Print Assumptions C01_hash_unique_refuted_slash24.

(* in_range is refuted for a CIDR written with host bits (K01b, marker 103) *)
Theorem C01_hash_in_range_refuted : hash_usable c26 (hash_addr c26 11) = false.
Proof. exact hash_in_range_refuted. Qed.
Print Assumptions C01_hash_in_range_refuted.

(* ... and proved under the guard "the CIDR is written with its network address" (and at least a /30) *)
Theorem C01_hash_in_range_partial : forall c h,
  h_ppl c <= 30 -> h_base c < 4294967296 -> h_base c mod h_size c = 0 -> hash_usable c (hash_addr c h) = true.
Proof. exact hash_in_range_partial. Qed.
Print Assumptions C01_hash_in_range_partial.

Example C01_hash_guard_satisfiable :
  h_ppl c24 <= 30 /\ h_base c24 < 4294967296 /\ h_base c24 mod h_size c24 = 0.
Proof. exact hash_in_range_guard_satisfiable. Qed.

Theorem C01_hash_stable : forall c ops h a, aget h (hs_addr (hrun c ops)) = Some a ->
  HashAlloc.step (hrun c ops) (Alloc h) = (hrun c ops, OUnit a, []).
Proof. exact hash_stable. Qed.
Print Assumptions C01_hash_stable.
