(* C01 — no address or prefix is ever held by two subscribers at once.
   Statements only; proofs are in Proofs/*.v.  Each theorem is closed by [exact] and followed by
   Print Assumptions.  Histories are arbitrary lists of operations ([brun g ops] = fold_left over
   [ops] from the empty pool); geometries are arbitrary ([geo_wf] is what net.ParseCIDR guarantees). *)
From Coq Require Import NArith List.
From Verif Require Import Base.Word Model.PoolMap Model.Geometry Model.PoolSpec Model.Bitmap
  Proofs.GeometryProofs Proofs.BitmapProofs.
Import ListNotations.
Local Open Scope N_scope.

(* ---------- geometry: every base / prefix-length combination ---------- *)
Theorem C01_geometry_in_range : forall g i, geo_wf g -> i < g_total g -> inside g (addr_of_index g i) (g_step g).
Proof. exact addr_in_range. Qed.
Print Assumptions C01_geometry_in_range.

Theorem C01_geometry_in_address_space : forall g i, geo_wf g -> i < g_total g ->
  addr_of_index g i + g_step g <= 2 ^ g_bits g.
Proof. exact addr_below_space. Qed.
Print Assumptions C01_geometry_in_address_space.

Theorem C01_geometry_disjoint : forall g i j, i < j -> addr_of_index g i + g_step g <= addr_of_index g j.
Proof. exact addr_disjoint. Qed.
Print Assumptions C01_geometry_disjoint.

Theorem C01_geometry_roundtrip : forall g i d, i < g_total g -> d < g_step g ->
  index_of_addr g (addr_of_index g i + d) (g_pl g) = Some i.
Proof. exact index_of_addr_of. Qed.
Print Assumptions C01_geometry_roundtrip.

(* ---------- bitmap allocator (allocator.IPAllocator), every history ---------- *)
Theorem C01_bitmap_unique : forall g ops h1 h2 u, bholds g ops h1 u -> bholds g ops h2 u -> h1 = h2.
Proof. exact bitmap_unique. Qed.
Print Assumptions C01_bitmap_unique.

Theorem C01_bitmap_prefixes_disjoint : forall g ops h1 h2 u1 u2,
  h1 <> h2 -> bholds g ops h1 u1 -> bholds g ops h2 u2 -> u1 + g_step g <= u2 \/ u2 + g_step g <= u1.
Proof. exact bitmap_disjoint. Qed.
Print Assumptions C01_bitmap_prefixes_disjoint.

Theorem C01_bitmap_in_range : forall g ops h u, geo_wf g -> bholds g ops h u -> inside g u (g_step g).
Proof. exact bitmap_in_range. Qed.
Print Assumptions C01_bitmap_in_range.

Theorem C01_bitmap_stable : forall g ops h u, bholds g ops h u ->
  step (brun g ops) (Alloc h) = (brun g ops, OUnit u, []) /\
  step (brun g ops) (Lookup h) = (brun g ops, OUnit u, []).
Proof. exact bitmap_stable. Qed.
Print Assumptions C01_bitmap_stable.

Theorem C01_bitmap_answer_is_held : forall g ops h u,
  outp (brun g ops) (Alloc h) = OUnit u -> bholds g (ops ++ [Alloc h]) h u.
Proof. exact bitmap_alloc_answer. Qed.
Print Assumptions C01_bitmap_answer_is_held.

(* non-vacuity: a history with reload, release from the middle and re-allocation after which two
   subscribers hold units *)
Example C01_bitmap_nonvacuous :
  let g := {| g_bits := 32; g_base := 167772160; g_ppl := 29; g_pl := 32 |} in
  let ops := [Alloc 1; Alloc 2; Alloc 3; Release 2; SetAlloc 4 167772165 32; Alloc 5; Release 1] in
  geo_wf g /\ bholds g ops 5 167772161 /\ bholds g ops 4 167772165 /\ bholds g ops 3 167772162.
Proof.
  cbv zeta. split; [apply geo_wfb_ok; vm_compute; reflexivity|].
  split; [|split]; (eexists; split; [vm_compute; reflexivity|vm_compute; reflexivity]).
Qed.
