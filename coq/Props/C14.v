(* C14 — a standby promotes itself only after sustained partner failure.
   Statements only; proofs are in Proofs/FailoverProofs.v.  Every theorem is closed by [exact] and
   followed by Print Assumptions.

   Reading guide.  [monitor m c s ss evs] (Model/FailoverSpec.v) runs the Model of
   pkg/ha/failover.go on the event list [evs] and feeds each (event, observation) to the trace monitor
   — the same monitor the harness runs on traces of the real controller — restricted to the clauses
   selected by [m]; [None] = no step of the run violates a selected clause.  The event lists range
   over ALL sequences of health checks, clock moves, timer-function runs (fresh and stale), control
   loop ticks, operator commands and callback returns (ok / error, any outstanding callback, any
   moment).  Guards are booleans evaluated along the same run ([run_ok]). *)
From Coq Require Import NArith List.
From Verif Require Import Base.Check Model.HealthHyst Model.Failover Model.FailoverSpec
  Proofs.HealthHystProofs Proofs.FailoverProofs Proofs.FailoverHistory.
Import ListNotations.
Local Open Scope N_scope.

(* the full statement, clause by clause *)
Definition C14_clause (k : N) : Prop :=
  forall c evs, monitor (only k) c (init c) (sinit c) evs = None.
Definition C14_statement : Prop :=
  C14_clause 0 /\ C14_clause 1 /\ C14_clause 2 /\ C14_clause 3 /\ C14_clause 4 /\ C14_clause 5 /\
  C14_clause 6.

(* (0) the reported role changes only at a step where a role-change callback returned nil, and
   becomes that callback's newRole — full, stale timers and overlapping executions included *)
Theorem C14_role_changes_only_after_callback_ok : C14_clause 0.
Proof. exact mon_role_changes_only_after_callback_ok. Qed.
Print Assumptions C14_role_changes_only_after_callback_ok.

(* the same fact without the monitor, from ANY controller state *)
Theorem C14_role_change_needs_callback_ok : forall c s e,
  role_ (nxt c s e) <> role_ s ->
  exists i x, e = CbReturn i true /\ nth_error (inflight s) (N.to_nat i) = Some x /\
              role_ (nxt c s e) = snd (xabs c x).
Proof. exact role_change_needs_callback_ok. Qed.
Print Assumptions C14_role_change_needs_callback_ok.

(* (1) a failback execution starts only while the partner is reported healthy — full *)
Theorem C14_failback_only_if_partner_healthy : C14_clause 1.
Proof. exact mon_failback_only_if_partner_healthy. Qed.
Print Assumptions C14_failback_only_if_partner_healthy.

(* (5) ... but it COMPLETES regardless of a partner failure reported during its grace period /
   callback (the event is ignored in state failback_pending): refuted without any stale timer;
   holds when no failure is reported while a failback callback is outstanding.  Known finding K14d *)
Theorem C14_failback_completes_healthy_refuted : ~ C14_clause 5.
Proof.
  intros H. destruct failback_completes_healthy_refuted as (c & evs & _ & E).
  rewrite (H c evs) in E. discriminate.
Qed.
Print Assumptions C14_failback_completes_healthy_refuted.

Theorem C14_failback_completes_healthy_partial : forall c evs,
  run_ok (quiet_fb c) c (init c) evs = true -> monitor (only 5) c (init c) (sinit c) evs = None.
Proof. exact mon_failback_completes_healthy_partial. Qed.
Print Assumptions C14_failback_completes_healthy_partial.

(* (6) sustained FAILURE: the health monitor (recordFailure / recordSuccess, inside the Model) reports
   the partner down only at a failed check that completes >= FailureThreshold consecutive failed
   checks, and healthy again only at a successful check that completes >= RecoveryThreshold
   consecutive successes — for every sequence of check results interleaved with every other event,
   every pair of thresholds.  "Reported down / healthy" in clauses 1, 2 and 5 is the monitor's own
   hysteresis over the check results (Model/HealthHyst.v), so those clauses are statements about the
   check results, not about the implementation's flag — full *)
Theorem C14_partner_down_only_after_threshold : C14_clause 6.
Proof. exact mon_health_report_sound. Qed.
Print Assumptions C14_partner_down_only_after_threshold.

(* the same without the trace monitor, over histories.  [checks evs] = the results of the health checks
   in the history (false = failed), [trail b l] = length of the trailing run of b in l.
   The health monitor inside the Model is the documented hysteresis over the check results, whatever
   else happens in between ... *)
Theorem C14_model_health_is_hysteresis : forall c evs,
  hy (run c (init c) evs) = hyst_run (c_fthr c) (c_rthr c) hyst0 (checks evs).
Proof. exact model_health_is_hysteresis. Qed.
Print Assumptions C14_model_health_is_hysteresis.

(* ... ConsecutiveFailures / ConsecutiveSuccesses are the trailing runs of the check history (a
   successful check ends the failure streak, a failed one the success streak) ... *)
Theorem C14_counters_are_trailing_runs : forall c evs,
  h_cf (run c (init c) evs) = trail false (checks evs) /\
  h_cs (run c (init c) evs) = trail true (checks evs).
Proof. exact counters_are_trailing_runs. Qed.
Print Assumptions C14_counters_are_trailing_runs.

(* ... the partner is reported down only at a failed check that completes >= FailureThreshold
   consecutive failed checks, reported healthy again only at a successful check that completes
   >= RecoveryThreshold consecutive successful ones ... *)
Theorem C14_partner_down_needs_consecutive_failures : forall c evs e,
  healthy (run c (init c) evs) = true -> healthy (run c (init c) (evs ++ [e])) = false ->
  e = Down /\ c_fthr c <= trail false (checks (evs ++ [e])) /\ 1 <= trail false (checks (evs ++ [e])).
Proof. exact partner_down_only_after_threshold. Qed.
Print Assumptions C14_partner_down_needs_consecutive_failures.

Theorem C14_partner_up_needs_consecutive_successes : forall c evs e,
  healthy (run c (init c) evs) = false -> healthy (run c (init c) (evs ++ [e])) = true ->
  e = Up /\ c_rthr c <= trail true (checks (evs ++ [e])) /\ 1 <= trail true (checks (evs ++ [e])).
Proof. exact partner_up_only_after_threshold. Qed.
Print Assumptions C14_partner_up_needs_consecutive_successes.

(* ... and it is reported down EXACTLY when the check history splits into a part that ends with
   >= max FailureThreshold 1 consecutive failures and a rest that contains no max RecoveryThreshold 1
   consecutive successes *)
Theorem C14_partner_down_iff : forall c evs,
  healthy (run c (init c) evs) = false <->
  exists a b, checks evs = a ++ b /\ c_fthr c <= trail false a /\ 1 <= trail false a /\
              quiet (c_rthr c) b.
Proof. exact partner_down_iff. Qed.
Print Assumptions C14_partner_down_iff.

(* (2) a timer-started failover execution starts only if the partner has been reported down without
   interruption for the configured delay (so a recovery before that cancels the promotion):
   full in the timer-atomic semantics (no stale timer function runs) ... *)
Theorem C14_promotion_requires_sustained_down_partial : forall c evs,
  run_ok not_stale c (init c) evs = true -> monitor (only 2) c (init c) (sinit c) evs = None.
Proof. exact mon_sustained_down_partial. Qed.
Print Assumptions C14_promotion_requires_sustained_down_partial.

(* ... refuted when a timer that was already due when handleHealthEvent stopped it runs afterwards:
   Down, Advance delay, Up, Down, StaleFO promotes with the partner down for 0 s.  Known finding K14b *)
Theorem C14_promotion_requires_sustained_down_refuted : ~ C14_clause 2.
Proof.
  intros H. destruct sustained_down_refuted as (c & evs & E). rewrite (H c evs) in E. discriminate.
Qed.
Print Assumptions C14_promotion_requires_sustained_down_refuted.

(* (2), composition of monitor and controller in history form, timer-atomic semantics: whenever the
   failover timer's function starts an execution after the history evs, then evs = pre ++ Down :: post
   where that failed check completed >= FailureThreshold consecutive failed checks of a partner reported
   healthy until then, the partner has been reported down after every single event since (no
   RecoveryThreshold consecutive successes, by C14_partner_down_iff), and at least the failover delay of
   model time has elapsed since that check.  (Outside the guard: K14b.) *)
Theorem C14_promotion_needs_sustained_check_failure : forall c evs,
  run_ok not_stale c (init c) evs = true ->
  o_cb (obs c (run c (init c) evs) FireFO) <> None ->
  exists pre post, evs = pre ++ Down :: post /\
    healthy (run c (init c) pre) = true /\
    c_fthr c <= trail false (checks (pre ++ [Down])) /\ 1 <= trail false (checks (pre ++ [Down])) /\
    (forall k, healthy (run c (init c) (pre ++ Down :: firstn k post)) = false) /\
    c_delay c <= elapsed post.
Proof. exact promotion_needs_sustained_check_failure. Qed.
Print Assumptions C14_promotion_needs_sustained_check_failure.

(* the armed deadline, EVERY history (stale timers and overlapping executions included, any number of
   earlier down episodes, promotions, failbacks, forced failovers): whenever the controller is pending,
   the partner is reported down and the failover timer is armed with deadline = (model time of the down
   report that started the CURRENT uninterrupted down episode) + FailoverDelay — full *)
Theorem C14_pending_deadline_is_since_plus_delay : forall c evs,
  st (run c (init c) evs) = Pending ->
  healthy (run c (init c) evs) = false /\
  fo (run c (init c) evs) = Some (since (run c (init c) evs) + c_delay c).
Proof. exact pending_deadline_is_since_plus_delay. Qed.
Print Assumptions C14_pending_deadline_is_since_plus_delay.

Theorem C14_armed_deadline_is_episode_start_plus_delay : forall c evs,
  st (run c (init c) evs) = Pending ->
  exists pre post, evs = pre ++ Down :: post /\
    healthy (run c (init c) pre) = true /\
    (forall k, healthy (run c (init c) (pre ++ Down :: firstn k post)) = false) /\
    fo (run c (init c) evs) = Some (now (run c (init c) pre) + c_delay c).
Proof. exact armed_deadline_is_episode_start_plus_delay. Qed.
Print Assumptions C14_armed_deadline_is_episode_start_plus_delay.

Example C14_second_episode_deadline :
  st (run cfg0 (init cfg0) [Down; Advance 9; Up; Advance 3; Down; Advance 5]) = Pending /\
  fo (run cfg0 (init cfg0) [Down; Advance 9; Up; Advance 3; Down; Advance 5]) = Some 22.
Proof. exact second_episode_deadline. Qed.

(* non-vacuity (thresholds 3 / 2): F F S F F does not take the partner down, the sixth check does; one
   success in between does not bring it back; the timer promotes after the delay; the complete monitor
   accepts the run *)
Example C14_flapping_partner_promotes_only_after_three_in_a_row :
  run_ok not_stale cfg32 (init cfg32) h_flap = true /\
  o_cb (obs cfg32 (run cfg32 (init cfg32) h_flap) FireFO) = Some Active /\
  healthy (run cfg32 (init cfg32) [Down; Down; Up; Down; Down]) = true /\
  healthy (run cfg32 (init cfg32) [Down; Down; Up; Down; Down; Down]) = false /\
  monitor (fun _ => true) cfg32 (init cfg32) (sinit cfg32) (h_flap ++ [FireFO; CbReturn 0 true]) = None.
Proof. exact h_flap_promotes. Qed.

(* (3) exactly one "completed" event per promotion (and none without one): holds while at most one
   role-change callback is outstanding at a time ... *)
Theorem C14_one_completed_event_per_promotion_partial : forall c evs,
  run_ok (serial_step c) c (init c) evs = true -> monitor (only 3) c (init c) (sinit c) evs = None.
Proof. exact mon_one_completed_partial. Qed.
Print Assumptions C14_one_completed_event_per_promotion_partial.

(* ... refuted otherwise: by a stale timer function running beside the fresh one, and — without any
   stale timer — by executions that overlap because callbacks stay outstanding.  Known finding K14c *)
Theorem C14_one_completed_event_per_promotion_refuted : ~ C14_clause 3.
Proof.
  intros H. destruct one_completed_refuted_stale as (c & evs & E). rewrite (H c evs) in E. discriminate.
Qed.
Print Assumptions C14_one_completed_event_per_promotion_refuted.

Theorem C14_one_completed_event_refuted_without_stale_timers : exists c evs,
  run_ok not_stale c (init c) evs = true /\ monitor (only 3) c (init c) (sinit c) evs = Some 3.
Proof. exact one_completed_refuted_atomic. Qed.
Print Assumptions C14_one_completed_event_refuted_without_stale_timers.

(* (4) never stuck: in_progress => a failover execution is outstanding; pending => its timer is
   pending; failback_pending => its timer is pending or a failback execution is outstanding.
   Full (after the fix of ForceFailover, /repo 7b78a27; before it ForceFO alone refuted it) *)
Theorem C14_never_stuck_in_progress : C14_clause 4.
Proof. exact mon_never_stuck. Qed.
Print Assumptions C14_never_stuck_in_progress.

Theorem C14_in_progress_has_execution : forall c evs,
  st (run c (init c) evs) = InProgress ->
  exists x, In x (inflight (run c (init c) evs)) /\ x_kind x = FO.
Proof. exact in_progress_has_execution. Qed.
Print Assumptions C14_in_progress_has_execution.

(* all clauses together, as the harness runs the monitor: inside the three guards the complete
   monitor never rejects the Model; hence a rejection of an implementation trace inside the guards
   is never explained by the Model *)
Theorem C14_all_clauses_partial : forall c evs,
  run_ok (all_guards c) c (init c) evs = true ->
  monitor (fun _ => true) c (init c) (sinit c) evs = None.
Proof. exact mon_all_partial. Qed.
Print Assumptions C14_all_clauses_partial.

(* the same in terms of Base/Check.v, which is what the case files evaluate *)
Theorem C14_monitor_is_harness_check : forall m c evs s ss i,
  monitor m c s ss evs = None ->
  accept_trace (accept_m m c) i ss
    (map (fun x => (fst (fst x), snd (fst x))) (model_trace (step c) s evs)) = (0, 0).
Proof. exact monitor_is_check. Qed.
Print Assumptions C14_monitor_is_harness_check.

(* non-vacuity: a history inside all guards with a cancelled promotion, a promotion after the full
   delay, a failback, a forced failover whose callback fails, and a second promotion *)
Example C14_guards_satisfiable :
  run_ok (all_guards cfg0) cfg0 (init cfg0) h_ok = true /\
  role_ (run cfg0 (init cfg0) h_ok) = Active /\ n_comp (run cfg0 (init cfg0) h_ok) = 2 /\
  n_fb (run cfg0 (init cfg0) h_ok) = 1 /\ n_canc (run cfg0 (init cfg0) h_ok) = 1.
Proof. exact h_ok_guards. Qed.
