(* C14 — placeholder while the end-to-end pipeline is brought up *)
From Coq Require Import NArith List.
From Verif Require Import Model.Failover Model.FailoverSpec.
