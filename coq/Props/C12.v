(* C12 — allocations survive restart and replication unchanged.
   Statements only; proofs are in Proofs/DistAllocProofs.v.  Each theorem is closed by [exact] and
   followed by Print Assumptions.

   Model: Model/DistAlloc.v (DistributedAllocator over the bitmap allocator of Model/Bitmap.v or the
   epoch allocator, a store map, store-failure oracles in the ops, restart with an explicit
   enumeration order, watch notifications as ops), Model/Persist.v (Marshal/Unmarshal).
   [drun c ops] = fold_left over an arbitrary op list from the empty allocator and empty store; the ops
   include Allocate/Release/Renew with a failing store call at any position, restarts at any point under
   any enumeration order, remote changes and watch echoes.
   [hist_ok c ops] is the decidable guard on the remote ops of a history: every announced record names
   a canonical pool address that no other subscriber holds, and every echo carries the current store
   content (DistAllocProofs.op_ok).  Local calls, failures and restarts are unrestricted. *)
From Coq Require Import NArith List Permutation.
From Verif Require Import Base.Word Model.PoolMap Model.Geometry Model.PoolSpec Model.Bitmap
  Model.DistAlloc Model.Persist Proofs.BitmapProofs Proofs.DistAllocProofs.
Import ListNotations.
Local Open Scope N_scope.

(* ---------- (1) restart, session mode: full ---------- *)
(* every history, every stop point (the stop is after [ops]; ops is arbitrary), every enumeration
   order [l] of the store: a subscriber recorded in the store held the recorded address before the
   stop and holds it after the restart; the store is untouched *)
Theorem C12_restart_preserves_session : forall c ops l h r,
  c_lease c = false -> geo_small (c_geo c) -> hist_ok c ops = true ->
  Permutation l (d_store (drun c ops)) ->
  aget h (d_store (drun c ops)) = Some r ->
  d_lookup (drun c ops) h = Some (r_addr r) /\
  d_lookup (restart_with l (drun c ops)) h = Some (r_addr r) /\
  d_store (restart_with l (drun c ops)) = d_store (drun c ops).
Proof. exact restart_preserves_session. Qed.
Print Assumptions C12_restart_preserves_session.

(* the op the harness drives, [DRestart ord], is such a restart for every [ord], and every
   enumeration order is reached by some [ord] *)
Theorem C12_restart_op_enumerates : forall s ord,
  awf (d_store s) ->
  dnext s (DRestart ord) = restart_with (enum ord (d_store s)) s /\ Permutation (enum ord (d_store s)) (d_store s).
Proof. intros s ord H. split; [apply drestart_is_restart|apply enum_perm; exact H]. Qed.
Print Assumptions C12_restart_op_enumerates.

Theorem C12_every_order_is_enumerated : forall l st, awf st -> Permutation l st -> enum (map fst l) st = l.
Proof. exact enum_complete. Qed.
Print Assumptions C12_every_order_is_enumerated.

(* no address is assigned to two subscribers: every history (NO guard), before and after any restart *)
Theorem C12_unique_session : forall c ops h1 h2 u, c_lease c = false ->
  d_lookup (drun c ops) h1 = Some u -> d_lookup (drun c ops) h2 = Some u -> h1 = h2.
Proof. exact unique_session. Qed.
Print Assumptions C12_unique_session.

Theorem C12_unique_after_restart_session : forall c ops l h1 h2 u, c_lease c = false ->
  d_lookup (restart_with l (drun c ops)) h1 = Some u -> d_lookup (restart_with l (drun c ops)) h2 = Some u -> h1 = h2.
Proof. exact restart_unique_session. Qed.
Print Assumptions C12_unique_after_restart_session.

(* ---------- (2) a store write failure leaves memory and store in agreement ---------- *)
(* session mode, every history with store failures at any call: memory and store name the same
   address for every subscriber, at every point (full after fix fba14eb) *)
Theorem C12_write_failure_agreement_session : forall c ops h,
  c_lease c = false -> geo_small (c_geo c) -> hist_ok c ops = true ->
  d_lookup (drun c ops) h = store_addr (drun c ops) h.
Proof.
  intros c ops h Hl Hs Hg. apply agree_lookup; [apply drun_sinv; exact Hl|apply session_agree; assumption].
Qed.
Print Assumptions C12_write_failure_agreement_session.

(* both modes, ANY state: an Allocate whose Put fails changes neither the store nor what the
   subscriber holds; a Release whose Delete fails changes nothing at all *)
Theorem C12_write_failure_allocate : forall s h mac,
  d_lookup (dnext s (DAlloc h mac true)) h = d_lookup s h /\ d_store (dnext s (DAlloc h mac true)) = d_store s.
Proof. exact write_failure_keeps_alloc. Qed.
Print Assumptions C12_write_failure_allocate.

Theorem C12_write_failure_release : forall s h, dnext s (DRelease h true) = s.
Proof. exact write_failure_keeps_release. Qed.
Print Assumptions C12_write_failure_release.

(* ---------- (3) a change announced by another node ---------- *)
(* session mode, every reachable state: the announced unit is applied unless another subscriber
   holds it (or it lies outside the pool); in that case the change is dropped and the memory is
   untouched — applying it would give one address to two subscribers *)
Theorem C12_remote_put_applies_announced_session : forall c ops h a pl ep i,
  c_lease c = false ->
  index_of (d_bm (drun c ops)) a pl = Some i ->
  (forall h', aget i (b_rev (d_bm (drun c ops))) = Some h' -> h' = h) ->
  d_lookup (dnext (drun c ops) (DRemotePut h a pl ep)) h = Some (addr_of_index (c_geo c) i).
Proof.
  intros c ops h a pl ep i Hl Hi Hf.
  rewrite <- (drun_cfg c ops) at 2. apply remote_put_applies_session; [apply drun_sinv; exact Hl|exact Hi|exact Hf].
Qed.
Print Assumptions C12_remote_put_applies_announced_session.

Theorem C12_remote_put_conflict_dropped_session : forall c ops h a pl ep,
  c_lease c = false ->
  (index_of (d_bm (drun c ops)) a pl = None \/
   exists i h', index_of (d_bm (drun c ops)) a pl = Some i /\ aget i (b_rev (d_bm (drun c ops))) = Some h' /\ h' <> h) ->
  d_bm (dnext (drun c ops) (DRemotePut h a pl ep)) = d_bm (drun c ops).
Proof. intros c ops h a pl ep Hl. apply remote_put_dropped_session. apply drun_sinv. exact Hl. Qed.
Print Assumptions C12_remote_put_conflict_dropped_session.

Theorem C12_remote_delete_applies : forall s h, d_lookup (dnext s (DRemoteDel h)) h = None.
Proof. exact remote_del_applies. Qed.
Print Assumptions C12_remote_delete_applies.

(* store keys and subscriber ids: every id — any bytes: '/', "..", empty segments, ids that are suffixes
   of each other, the key prefix itself — is recovered from its key exactly as handleRemoteChange
   recovers it (key[len(prefix):]); so an event delivered under a subscriber's key acts on that subscriber
   and, for deletes, on no other *)
Theorem C12_id_key_roundtrip : forall pool id, id_of_key pool (key_of_id pool id) = Some id.
Proof. exact id_of_key_of_id. Qed.
Print Assumptions C12_id_key_roundtrip.

Theorem C12_key_of_id_injective : forall pool id1 id2, key_of_id pool id1 = key_of_id pool id2 -> id1 = id2.
Proof. exact key_of_id_inj. Qed.
Print Assumptions C12_key_of_id_injective.

Theorem C12_wire_remote_delete_applies : forall w s id h, intern (w_names w) id = Some h ->
  d_lookup (wnext w s (WRemoteDel (key_of_id (w_pool w) id))) h = None.
Proof. exact wire_remote_del_applies. Qed.
Print Assumptions C12_wire_remote_delete_applies.

Theorem C12_wire_remote_delete_touches_no_other : forall w s id h h', intern (w_names w) id = Some h -> h' <> h ->
  d_lease s = false -> d_lookup (wnext w s (WRemoteDel (key_of_id (w_pool w) id))) h' = d_lookup s h'.
Proof. exact wire_remote_del_others. Qed.
Print Assumptions C12_wire_remote_delete_touches_no_other.

(* (after fix e669782) whatever subscriber id the JSON value carries *)
Theorem C12_wire_remote_put_is_remote_put : forall w s id vid h a pl ep, intern (w_names w) id = Some h ->
  wnext w s (WRemotePut (key_of_id (w_pool w) id) vid a pl ep) = dnext s (DRemotePut h a pl ep).
Proof. exact wire_remote_put. Qed.
Print Assumptions C12_wire_remote_put_is_remote_put.

Theorem C12_wire_echo_is_echo : forall w s id vid h r, intern (w_names w) id = Some h ->
  wnext w s (WEcho (key_of_id (w_pool w) id) (Some (vid, r))) = dnext s (DEcho h (Some r)).
Proof. exact wire_echo. Qed.
Print Assumptions C12_wire_echo_is_echo.

(* keys of DIFFERENT pools on one store: separated when no pool id contains '/' (guard [no_slash]); in general
   not — pool "a" / subscriber "b/c" and pool "a/b" / subscriber "c" write the same key, and the pool with the
   shorter id reads (Query and Watch are by prefix) the other pool's record of [id] as its own subscriber "q/id".
   Stated as a limit of the key scheme: the property text speaks of one allocator's records *)
Theorem C12_keys_separate_pools_refuted : exists p1 id1 p2 id2, p1 <> p2 /\ key_of_id p1 id1 = key_of_id p2 id2.
Proof. exact key_of_id_pools_refuted. Qed.
Print Assumptions C12_keys_separate_pools_refuted.

Theorem C12_keys_separate_pools_partial : forall p1 id1 p2 id2, no_slash p1 = true -> no_slash p2 = true ->
  key_of_id p1 id1 = key_of_id p2 id2 -> p1 = p2 /\ id1 = id2.
Proof. exact key_of_id_inj_pools. Qed.
Print Assumptions C12_keys_separate_pools_partial.

Theorem C12_nested_pool_reads_foreign_records : forall p q id,
  id_of_key p (key_of_id (p ++ 47 :: q) id) = Some (q ++ 47 :: id).
Proof. exact nested_pool_alias. Qed.
Print Assumptions C12_nested_pool_reads_foreign_records.

(* ---------- lease mode: refuted + partial (known findings K12a, K12b) ---------- *)
(* loadAllocations re-Allocates every stored subscriber in enumeration order: the stored address is
   not used (marker 1201) *)
Theorem C12_restart_preserves_lease_refuted :
  exists c ops ord h r, c_lease c = true /\ aget h (d_store (drun c ops)) = Some r /\
    d_lookup (drun c ops) h = Some (r_addr r) /\
    d_lookup (dnext (drun c ops) (DRestart ord)) h <> Some (r_addr r).
Proof. exact restart_preserves_lease_refuted. Qed.
Print Assumptions C12_restart_preserves_lease_refuted.

(* guard [lease_guard]: grace period 1, the k-th enumerated record carries the k-th pool address
   (what a fresh allocator hands out k-th), distinct subscribers, and they fit the pool *)
Theorem C12_restart_preserves_lease_partial : forall s l, d_lease s = true -> lease_guard (d_cfg s) l = true ->
  forall h r, In (h, r) l -> d_lookup (restart_with l s) h = Some (r_addr r).
Proof. exact restart_preserves_lease_partial. Qed.
Print Assumptions C12_restart_preserves_lease_partial.

(* what exactly survives a lease-mode restart (all states, all enumerations):
   - the store: untouched (a fresh allocator is at epoch 2, so the "expired, delete from the store" branch of
     loadAllocations can never fire at Start);
   - the SET of stored subscribers, not their addresses: under [lease_fits] (grace period 0/1, distinct
     subscribers, they fit the pool) the n-th enumerated record's subscriber holds the (n+1)-th pool address,
     whatever address its record carries — [lease_guard] of the _partial theorem above is [lease_fits] plus
     "the record happens to carry that address";
   - with a grace period >= 2 (mod 256) nobody is restored at all: every slot of a fresh allocator reads as
     inside the grace window (C05's fresh-allocator-exhausted defect seen from here) *)
Theorem C12_restart_lease_store_untouched : forall s l, d_store (restart_with l s) = d_store s.
Proof. exact restart_store_lease. Qed.
Print Assumptions C12_restart_lease_store_untouched.

Theorem C12_restart_lease_positional : forall s l n h r, d_lease s = true -> lease_fits (d_cfg s) l = true ->
  nth_error l n = Some (h, r) ->
  d_lookup (restart_with l s) h = Some (add_nocarry32 (g_base (c_geo (d_cfg s))) (1 + N.of_nat n)).
Proof. exact restart_lease_positional. Qed.
Print Assumptions C12_restart_lease_positional.

Theorem C12_lease_guard_implies_fits : forall c l, lease_guard c l = true -> lease_fits c l = true.
Proof. exact lease_guard_fits. Qed.
Print Assumptions C12_lease_guard_implies_fits.

Theorem C12_restart_lease_nobody_when_grace_ge_2 : forall s l h, d_lease s = true ->
  2 <= e_grace (fresh_ep (d_cfg s)) mod 256 -> d_lookup (restart_with l s) h = None.
Proof. exact restart_lease_grace2_nobody. Qed.
Print Assumptions C12_restart_lease_nobody_when_grace_ge_2.

(* handleRemoteChange re-Allocates as well (marker 1202) *)
Theorem C12_remote_put_applies_announced_lease_refuted :
  exists c h a, c_lease c = true /\ d_lookup (dnext (dinit c) (DRemotePut h a 32 2)) h <> Some a /\
                d_lookup (dnext (dinit c) (DRemotePut h a 32 2)) h <> None.
Proof. exact remote_put_lease_refuted. Qed.
Print Assumptions C12_remote_put_applies_announced_lease_refuted.

Theorem C12_remote_put_applies_announced_lease_partial : forall s h a ep i,
  d_lease s = true -> lease_expired (d_ep s) ep = false -> aget h (e_sub (d_ep s)) = None ->
  e_find (d_ep s) = Some i -> a = e_ip (d_ep s) i ->
  d_lookup (dnext s (DRemotePut h a 32 ep)) h = Some a.
Proof. exact remote_put_lease_partial. Qed.
Print Assumptions C12_remote_put_applies_announced_lease_partial.

(* ---------- (4) serialise then restore: every query answered identically ---------- *)
(* IPAllocator: both address families ([fam_ok]: 32- or 128-bit, what net.ParseCIDR produces), every
   geometry, every history (incl. reload via SetAllocation), every query with its full result (prefix
   address AND mask length AND mask width, IsIPv6, PrefixLength, ListAllocations, Stats).  The family
   flag is a field of the marshalled record; indexToSubscriber is rebuilt and allocatedCount recomputed:
   both need the invariant of reachable states (maps mutually inverse, count exact — C05's stats_exact) *)
Theorem C12_marshal_roundtrip_bitmap : forall g ops q, fam_ok g ->
  b_query (b_unmarshal (b_marshal (brun g ops))) q = b_query (brun g ops) q.
Proof.
  intros g ops q Hf. apply marshal_roundtrip_bitmap; [rewrite brun_geo; exact Hf|apply brun_inv].
Qed.
Print Assumptions C12_marshal_roundtrip_bitmap.

(* EpochBitmapAllocator (after fix 36dc5fb): every history over every IPv4 geometry net.ParseCIDR can
   produce; the restore succeeds and every query is answered identically *)
Theorem C12_marshal_roundtrip_epoch : forall base ones pl grace ops,
  ones <= pl -> pl <= 32 -> base mod 2 ^ (32 - ones) = 0 ->
  exists s', e_unmarshal (e_marshal (e_run base ones pl grace ops)) = Some s' /\
             forall q, e_query s' q = e_query (e_run base ones pl grace ops) q.
Proof. intros. apply marshal_roundtrip_epoch. apply e_run_EG; assumption. Qed.
Print Assumptions C12_marshal_roundtrip_epoch.

(* MemoryAllocationStore (after fix c5f7c8e): every history of SaveAllocation / RemoveAllocation /
   SetPoolTotal; byIP is rebuilt from the flattened records *)
Theorem C12_marshal_roundtrip_store : forall ops q, m_query (m_roundtrip (m_run ops)) q = m_query (m_run ops) q.
Proof. exact marshal_roundtrip_store. Qed.
Print Assumptions C12_marshal_roundtrip_store.

(* ---------- non-vacuity ---------- *)
(* a session-mode history with a failing Put on a held subscriber, a failing Delete, a guarded remote
   put, a restart in the middle: it satisfies [hist_ok], leaves three records in the store, and the
   final restart is under a non-identity order *)
Definition ex_cfg : cfg :=
  {| c_lease := false; c_geo := {| g_bits := 32; g_base := 167772160; g_ppl := 29; g_pl := 32 |}; c_grace := 0; c_univ := [0; 1; 2; 3] |}.
Definition ex_ops : list dop :=
  [DAlloc 0 false false; DAlloc 1 true false; DAlloc 0 false true; DRelease 1 true; DAlloc 2 false false;
   DRelease 1 false; DRestart [2; 0]; DRemotePut 3 167772165 32 0; DAlloc 1 false false; DEcho 1 (Some {| r_addr := 167772161; r_pl := 32; r_ep := 0 |})].
Example C12_session_nonvacuous :
  c_lease ex_cfg = false /\ hist_ok ex_cfg ex_ops = true /\
  map fst (d_store (drun ex_cfg ex_ops)) = [1; 3; 2; 0] /\
  d_lookup (restart_with (enum [3; 0; 2; 1] (d_store (drun ex_cfg ex_ops))) (drun ex_cfg ex_ops)) 3 = Some 167772165.
Proof. repeat split; vm_compute; reflexivity. Qed.

Example C12_geo_small_satisfiable : geo_small (c_geo ex_cfg).
Proof. unfold geo_small. vm_compute. discriminate. Qed.

(* lease guard satisfiable: three records enumerated in address order *)
Example C12_lease_guard_satisfiable :
  lease_guard wit_cfg [(5, {| r_addr := 167772161; r_pl := 32; r_ep := 2 |}); (7, {| r_addr := 167772162; r_pl := 32; r_ep := 3 |});
                       (1, {| r_addr := 167772163; r_pl := 32; r_ep := 2 |})] = true.
Proof. vm_compute. reflexivity. Qed.

Example C12_remote_lease_partial_satisfiable :
  d_lease (dinit wit_cfg) = true /\ lease_expired (d_ep (dinit wit_cfg)) 2 = false /\
  e_find (d_ep (dinit wit_cfg)) = Some 1 /\ 167772161 = e_ip (d_ep (dinit wit_cfg)) 1.
Proof. repeat split; vm_compute; reflexivity. Qed.

Example C12_bitmap_roundtrip_nonvacuous :
  let g := {| g_bits := 32; g_base := 167772160; g_ppl := 30; g_pl := 32 |} in
  let s := brun g [Alloc 1; Alloc 2; Alloc 3; Release 2; SetAlloc 4 167772163 32] in
  b_query s (QLookupUnit 167772163 32) = BOut (OHolder 4) /\ b_hint s <> b_hint (b_unmarshal (b_marshal s)) /\
  b_query (b_unmarshal (b_marshal s)) (QLookupUnit 167772163 32) = BOut (OHolder 4).
Proof. cbv zeta. repeat split; vm_compute; try reflexivity; discriminate. Qed.

(* an IPv6 prefix-delegation pool (/56 out of 2001:db8::/52): the restored allocator still answers with
   128-bit masks and IsIPv6 *)
Example C12_bitmap_roundtrip_v6 :
  let g := {| g_bits := 128; g_base := 42540766411282592856903984951653826560; g_ppl := 52; g_pl := 56 |} in
  let s := b_unmarshal (b_marshal (brun g [Alloc 1; Alloc 2])) in
  fam_ok g /\ b_query s QIsV6 = BFlag true /\
  b_query s (QLookup 2) = BPfx (42540766411282592856903984951653826560 + 2 ^ 72) 56 128.
Proof. cbv zeta. split; [right; reflexivity|]. split; vm_compute; reflexivity. Qed.

(* ids that are suffixes of one another are kept apart *)
Example C12_wire_ids_nonvacuous :
  let w := {| w_pool := [112]; w_names := [(0, [97; 47; 98]); (1, [98]); (2, [47; 97; 108; 108; 111; 99; 97; 116; 105; 111; 110; 47; 112; 47])] |} in
  holder_of_key w (key_of_id [112] [97; 47; 98]) = Some 0 /\ holder_of_key w (key_of_id [112] [98]) = Some 1 /\
  holder_of_key w (key_of_id [112] (key_prefix [112])) = Some 2.
Proof. cbv zeta. repeat split; vm_compute; reflexivity. Qed.

(* lease_fits without lease_guard: two records enumerated against their address order; each subscriber
   comes back on the address of its POSITION (subscriber 1 was recorded with .2 and holds .1) *)
Example C12_lease_positional_nonvacuous :
  let l := [(1, {| r_addr := 167772162; r_pl := 32; r_ep := 2 |}); (0, {| r_addr := 167772161; r_pl := 32; r_ep := 2 |})] in
  lease_fits wit_cfg l = true /\ lease_guard wit_cfg l = false /\
  d_lookup (restart_with l (drun wit_cfg wit_ops)) 1 = Some 167772161 /\
  d_lookup (restart_with l (drun wit_cfg wit_ops)) 0 = Some 167772162.
Proof. cbv zeta. repeat split; vm_compute; reflexivity. Qed.

Example C12_lease_grace2_satisfiable :
  let c := {| c_lease := true; c_geo := c_geo wit_cfg; c_grace := 2; c_univ := [0; 1] |} in
  d_lease (drun c wit_ops) = true /\ 2 <= e_grace (fresh_ep (d_cfg (drun c wit_ops))) mod 256 /\
  aget 0 (d_store (drun c wit_ops)) = None.
Proof. cbv zeta. split; [vm_compute; reflexivity|]. split; [vm_compute; discriminate|vm_compute; reflexivity]. Qed.

(* an id that is not valid UTF-8 and the id encoding/json would write for it are different subscribers with
   different keys; a put delivered under the first one's key acts on it whatever the value says *)
Example C12_wire_binary_ids_nonvacuous :
  let w := {| w_pool := [112]; w_names := [(0, [255]); (1, [239; 191; 189])] |} in
  holder_of_key w (key_of_id [112] [255]) = Some 0 /\
  wtrans w (WRemotePut (key_of_id [112] [255]) [239; 191; 189] 167772161 32 0) = Some (DRemotePut 0 167772161 32 0).
Proof. cbv zeta. split; vm_compute; reflexivity. Qed.

Example C12_no_slash_satisfiable : no_slash [112; 111; 111; 108; 45; 49] = true /\ no_slash [97; 47; 98] = false.
Proof. split; vm_compute; reflexivity. Qed.

(* ---------- (4') ids inside JSON: refuted + partial (known findings K12d, K12e, K12f) ---------- *)
(* Subscriber ids travel inside the JSON text; encoding/json rewrites every byte that does not start a
   valid UTF-8 sequence to U+FFFD ([json_coerce], tied against the real package).  [b_roundtrip names ord],
   [e_roundtrip], [m_roundtrip_ids] are Marshal;Unmarshal with that coercion applied to the ids of the
   case's table [names] ([ord]: byte order of the ids = order of the keys in the marshalled object, later
   duplicates overwrite).  The theorems above (names = []: ids "s<h>") are the instance "all ids ASCII".
   Refuted with the id "\xff"; full strength under the decidable guard [ids_valid]: every id held by the
   allocator is valid UTF-8 (marker 1204 where it is not) *)
Theorem C12_marshal_roundtrip_bitmap_ids_refuted :
  exists names ord g ops q, fam_ok g /\ b_query (b_roundtrip names ord (brun g ops)) q <> b_query (brun g ops) q.
Proof. exact marshal_roundtrip_bitmap_ids_refuted. Qed.
Print Assumptions C12_marshal_roundtrip_bitmap_ids_refuted.

Theorem C12_marshal_roundtrip_bitmap_ids_partial : forall names ord g ops q, fam_ok g ->
  ids_valid names (map fst (b_alloc (brun g ops))) = true ->
  b_query (b_roundtrip names ord (brun g ops)) q = b_query (brun g ops) q.
Proof. exact marshal_roundtrip_bitmap_ids_partial. Qed.
Print Assumptions C12_marshal_roundtrip_bitmap_ids_partial.

Theorem C12_marshal_roundtrip_epoch_ids_refuted :
  exists names ord base ones pl grace ops q s',
    e_roundtrip names ord (e_run base ones pl grace ops) = Some s' /\ e_query s' q <> e_query (e_run base ones pl grace ops) q.
Proof. exact marshal_roundtrip_epoch_ids_refuted. Qed.
Print Assumptions C12_marshal_roundtrip_epoch_ids_refuted.

Theorem C12_marshal_roundtrip_epoch_ids_partial : forall names ord base ones pl grace ops,
  ones <= pl -> pl <= 32 -> base mod 2 ^ (32 - ones) = 0 ->
  ids_valid names (map fst (e_sub (e_run base ones pl grace ops))) = true ->
  exists s', e_roundtrip names ord (e_run base ones pl grace ops) = Some s' /\
             forall q, e_query s' q = e_query (e_run base ones pl grace ops) q.
Proof. exact marshal_roundtrip_epoch_ids_partial. Qed.
Print Assumptions C12_marshal_roundtrip_epoch_ids_partial.

Theorem C12_marshal_roundtrip_store_ids_refuted :
  exists names ops q, m_query (m_roundtrip_ids names (m_run ops)) q <> m_query (m_run ops) q.
Proof. exact marshal_roundtrip_store_ids_refuted. Qed.
Print Assumptions C12_marshal_roundtrip_store_ids_refuted.

Theorem C12_marshal_roundtrip_store_ids_partial : forall names ops q,
  ids_valid names (map sr_sub (ms_recs (m_run ops))) = true ->
  m_query (m_roundtrip_ids names (m_run ops)) q = m_query (m_run ops) q.
Proof. exact marshal_roundtrip_store_ids_partial. Qed.
Print Assumptions C12_marshal_roundtrip_store_ids_partial.

(* ids without a byte >= 128 are inside the guard *)
Theorem C12_ascii_ids_are_valid : forall l, forallb (fun b => b <? 128) l = true -> utf8_valid l = true.
Proof. exact ascii_utf8_valid. Qed.
Print Assumptions C12_ascii_ids_are_valid.

(* the coercion on the boundary cases of the UTF-8 table: lone 0xFF, truncated 2-byte sequence inside
   text, overlong "/", a surrogate, > U+10FFFF are rewritten byte by byte; "é", U+FFFD itself, U+10FFFF
   and an emoji pass *)
Example C12_json_coerce_examples :
  json_coerce [255] = [239; 191; 189] /\ json_coerce [97; 195] = [97; 239; 191; 189] /\
  json_coerce [192; 175] = [239; 191; 189; 239; 191; 189] /\
  json_coerce [237; 160; 128] = [239; 191; 189; 239; 191; 189; 239; 191; 189] /\
  utf8_valid [244; 144; 128; 128] = false /\
  utf8_valid [195; 169] = true /\ utf8_valid [239; 191; 189] = true /\ utf8_valid [244; 143; 191; 191] = true /\
  utf8_valid [240; 159; 152; 128] = true /\ utf8_valid [195; 40] = false.
Proof. repeat split; vm_compute; reflexivity. Qed.

(* the guard is satisfiable by a table that also contains hostile ids, as long as those are not held *)
Example C12_ids_valid_nonvacuous :
  let names := [(0, [255]); (1, [239; 191; 189]); (2, [195; 169; 47; 120])] in
  ids_valid names (map fst (b_alloc (brun ff_geo [Alloc 2; Alloc 1]))) = true /\
  ids_valid names (map fst (b_alloc (brun ff_geo [Alloc 2; Alloc 0]))) = false /\ alias names 0 = 1.
Proof. cbv zeta. repeat split; vm_compute; reflexivity. Qed.
