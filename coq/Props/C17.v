(* C17 — all peers agree on who owns a subscriber.  Statements only; proofs are in
   Proofs/RendezvousProofs.v.  Each theorem is closed by [exact] and followed by Print Assumptions. *)
From Coq Require Import NArith List Permutation Sorted.
From Verif Require Import Base.Word Model.Rendezvous Proofs.RendezvousProofs.
Import ListNotations.
Local Open Scope N_scope.

(* (1) every configuration order of one peer multiset yields the same owner, at every node *)
Theorem C17_owner_order_invariant : forall k id c1 c2,
  Permutation c1 c2 -> owner k (peers (new_node id c1)) = owner k (peers (new_node id c2)).
Proof. exact owner_perm_invariant. Qed.
Print Assumptions C17_owner_order_invariant.

Theorem C17_all_nodes_agree : forall k id1 id2 c1 c2,
  Permutation c1 c2 -> In id1 c1 -> In id2 c1 ->
  owner k (peers (new_node id1 c1)) = owner k (peers (new_node id2 c2)).
Proof. exact owner_all_nodes_agree. Qed.
Print Assumptions C17_all_nodes_agree.

(* (1') every order of AddPeer calls yields the same node list (hence the same owner) *)
Theorem C17_add_order_invariant : forall l ps1 ps2,
  StronglySorted lex_le l -> NoDup l -> Permutation ps1 ps2 ->
  fold_left add_peer ps1 l = fold_left add_peer ps2 l.
Proof. exact add_order_invariant. Qed.
Print Assumptions C17_add_order_invariant.

(* (2) the owner is one of the peers (guard: no score is 0; the code's arg-max starts from ("",0)) *)
Theorem C17_owner_in_peers_partial : forall k l, l <> [] -> scores_pos k l -> In (owner k l) l.
Proof. exact owner_in. Qed.
Print Assumptions C17_owner_in_peers_partial.

(* (3) the ranked list is a permutation of the peer set and (distinct scores) starts with the owner *)
Theorem C17_ranked_is_permutation : forall k l, Permutation (ranked k l) l.
Proof. exact ranked_perm. Qed.
Print Assumptions C17_ranked_is_permutation.

Theorem C17_ranked_head_is_owner_partial : forall k l h r,
  scores_pos k l -> scores_inj k l -> ranked k l = h :: r -> h = owner k l.
Proof. exact ranked_head_owner. Qed.
Print Assumptions C17_ranked_head_is_owner_partial.

(* (4) removing a peer changes ownership only for subscribers that peer owned *)
Theorem C17_removal_minimal_partial : forall k l p,
  scores_pos k l -> owner k (remove_first p l) <> owner k l -> owner k l = p.
Proof. exact removal_minimal. Qed.
Print Assumptions C17_removal_minimal_partial.

(* (5) under one shared health vector, all nodes the vector calls healthy agree, and marking p
   unhealthy moves only p's subscribers *)
Theorem C17_healthy_nodes_agree : forall s1 s2 un k l,
  In s1 l -> In s2 l -> mem_s s1 un = false -> mem_s s2 un = false ->
  healthy_owner s1 un k l = healthy_owner s2 un k l.
Proof. exact healthy_nodes_agree. Qed.
Print Assumptions C17_healthy_nodes_agree.

Theorem C17_unhealthy_minimal : forall s un p k l,
  In s l -> mem_s s (p :: un) = false ->
  healthy_owner s (p :: un) k l <> healthy_owner s un k l -> healthy_owner s un k l = p.
Proof. exact unhealthy_minimal. Qed.
Print Assumptions C17_unhealthy_minimal.

(* (5') ... but the node the vector marks unhealthy still elects itself: full agreement is refuted *)
Theorem C17_all_nodes_agree_under_health_refuted :
  exists k, healthy_owner ha [hb] k [ha; hb] <> healthy_owner hb [hb] k [ha; hb].
Proof. exact agree_under_health_refuted. Qed.
Print Assumptions C17_all_nodes_agree_under_health_refuted.

(* non-vacuity: the guards hold on a concrete cluster *)
Example C17_guards_satisfiable :
  scores_pos [115;49] [[98;110;103;45;49]; [98;110;103;45;50]; [98;110;103;45;51]] /\
  owner [115;49] [[98;110;103;45;49]; [98;110;103;45;50]; [98;110;103;45;51]] <> [].
Proof. split; [apply scores_pos_b_ok; vm_compute; reflexivity|vm_compute; discriminate]. Qed.
