(* C17 — all peers agree on who owns a subscriber.  Statements only; proofs are in
   Proofs/RendezvousProofs.v, Proofs/RendezvousRefine.v and Proofs/RendezvousRaceProofs.v.  Each theorem is closed by [exact] and
   followed by Print Assumptions. *)
From Coq Require Import NArith List Bool Permutation Sorted.
From Verif Require Import Base.Word Base.Check Model.Rendezvous Model.RendezvousSpec Model.RendezvousRace
  Proofs.RendezvousProofs Proofs.RendezvousRefine Proofs.RendezvousRaceProofs.
Import ListNotations.
Local Open Scope N_scope.

(* (1) every configuration order of one peer multiset yields the same owner, at every node *)
Theorem C17_owner_order_invariant : forall k id c1 c2,
  Permutation c1 c2 -> owner k (peers (new_node id c1)) = owner k (peers (new_node id c2)).
Proof. exact owner_perm_invariant. Qed.
Print Assumptions C17_owner_order_invariant.

Theorem C17_all_nodes_agree : forall k id1 id2 c1 c2,
  Permutation c1 c2 -> In id1 c1 -> In id2 c1 ->
  owner k (peers (new_node id1 c1)) = owner k (peers (new_node id2 c2)).
Proof. exact owner_all_nodes_agree. Qed.
Print Assumptions C17_all_nodes_agree.

(* (1') every order of AddPeer calls yields the same node list (hence the same owner) *)
Theorem C17_add_order_invariant : forall l ps1 ps2,
  StronglySorted lex_le l -> NoDup l -> Permutation ps1 ps2 ->
  fold_left add_peer ps1 l = fold_left add_peer ps2 l.
Proof. exact add_order_invariant. Qed.
Print Assumptions C17_add_order_invariant.

(* (2) the owner is one of the peers (guard: no score is 0; the code's arg-max starts from ("",0)) *)
Theorem C17_owner_in_peers_partial : forall k l, l <> [] -> scores_pos k l -> In (owner k l) l.
Proof. exact owner_in. Qed.
Print Assumptions C17_owner_in_peers_partial.

(* (2') the zero-score edge, unguarded, for an arbitrary score function sc (the code's instance is
   sc := score k, C17_owner_is_instance).  With at least two nodes:
     - every score 0            => the owner is "" (not a peer unless "" is one),
     - some score positive      => the owner is the FIRST node of the sorted list with the maximal score,
     - owner is a peer         <=> some score is positive or "" is itself a peer.
   Whether the FNV-1a/Wang score has an all-zero row for some key is not decided here. *)
Theorem C17_owner_is_instance : forall k l, owner k l = owner_g (score k) l.
Proof. exact owner_instance. Qed.
Print Assumptions C17_owner_is_instance.

Theorem C17_owner_all_scores_zero : forall sc l,
  (2 <= length l)%nat -> (forall n, In n l -> sc n = 0) -> owner_g sc l = [].
Proof. exact owner_g_all_zero. Qed.
Print Assumptions C17_owner_all_scores_zero.

Theorem C17_owner_is_first_maximum : forall sc l,
  (2 <= length l)%nat -> (exists n, In n l /\ 0 < sc n) ->
  exists l1 l2, l = l1 ++ owner_g sc l :: l2 /\ 0 < sc (owner_g sc l) /\
                (forall n, In n l1 -> sc n < sc (owner_g sc l)) /\
                (forall n, In n l2 -> sc n <= sc (owner_g sc l)).
Proof. exact owner_g_first_max. Qed.
Print Assumptions C17_owner_is_first_maximum.

Theorem C17_owner_member_iff : forall sc l,
  (2 <= length l)%nat -> (In (owner_g sc l) l <-> (exists n, In n l /\ 0 < sc n) \/ In [] l).
Proof. exact owner_g_in_iff. Qed.
Print Assumptions C17_owner_member_iff.

(* all scores 0: the ranked list (which Allocate follows) is the sorted node list, its head is a
   node, while GetOwner answers "" *)
Theorem C17_ranked_all_scores_zero : forall sc l, (forall n, In n l -> sc n = 0) -> ranked_g sc l = l.
Proof. exact ranked_g_all_zero. Qed.
Print Assumptions C17_ranked_all_scores_zero.

(* a zero row breaks membership and removal-minimality (abstract score; hence the guards below) *)
Theorem C17_membership_zero_row_refuted : ~ In (owner_g sc0 [[97]; [98]]) [[97]; [98]].
Proof. exact owner_g_zero_not_member. Qed.
Print Assumptions C17_membership_zero_row_refuted.

Theorem C17_removal_minimal_zero_row_refuted :
  owner_g sc0 (remove_first [97] [[97]; [98]]) <> owner_g sc0 [[97]; [98]] /\ owner_g sc0 [[97]; [98]] <> [97].
Proof. exact removal_minimal_g_zero_refuted. Qed.
Print Assumptions C17_removal_minimal_zero_row_refuted.

Example C17_zero_row_hypotheses_satisfiable :
  (2 <= length [[97]; [98]])%nat /\ (forall n, In n [[97]; [98]] -> sc0 n = 0).
Proof. exact ex_zero_row. Qed.

(* (3) the ranked list is a permutation of the peer set and (distinct scores) starts with the owner *)
Theorem C17_ranked_is_permutation : forall k l, Permutation (ranked k l) l.
Proof. exact ranked_perm. Qed.
Print Assumptions C17_ranked_is_permutation.

Theorem C17_ranked_head_is_owner_partial : forall k l h r,
  scores_pos k l -> scores_inj k l -> ranked k l = h :: r -> h = owner k l.
Proof. exact ranked_head_owner. Qed.
Print Assumptions C17_ranked_head_is_owner_partial.

(* (4) removing a peer changes ownership only for subscribers that peer owned *)
Theorem C17_removal_minimal_partial : forall k l p,
  scores_pos k l -> owner k (remove_first p l) <> owner k l -> owner k l = p.
Proof. exact removal_minimal. Qed.
Print Assumptions C17_removal_minimal_partial.

(* (5) under one shared health vector, all nodes the vector calls healthy agree, and marking p
   unhealthy moves only p's subscribers *)
Theorem C17_healthy_nodes_agree : forall s1 s2 un k l,
  In s1 l -> In s2 l -> mem_s s1 un = false -> mem_s s2 un = false ->
  healthy_owner s1 un k l = healthy_owner s2 un k l.
Proof. exact healthy_nodes_agree. Qed.
Print Assumptions C17_healthy_nodes_agree.

Theorem C17_unhealthy_minimal : forall s un p k l,
  In s l -> mem_s s (p :: un) = false ->
  healthy_owner s (p :: un) k l <> healthy_owner s un k l -> healthy_owner s un k l = p.
Proof. exact unhealthy_minimal. Qed.
Print Assumptions C17_unhealthy_minimal.

(* (5') ... but the node the vector marks unhealthy still elects itself: full agreement is refuted *)
Theorem C17_all_nodes_agree_under_health_refuted :
  exists k, healthy_owner ha [hb] k [ha; hb] <> healthy_owner hb [hb] k [ha; hb].
Proof. exact agree_under_health_refuted. Qed.
Print Assumptions C17_all_nodes_agree_under_health_refuted.

(* (6) health bookkeeping (checkPeer): a checkPeer step of the Model applies [chk] to the peer's
   record and touches nothing else of the view; from a fresh pool a peer is unhealthy exactly when
   its check history ends with at least 3 consecutive failures; one success restores it *)
Theorem C17_checkpeer_step_is_chk : forall s n p up,
  (N.to_nat n < length s)%nat -> host_ok (peer_addr (getn s n) p) = true ->
  let h' := chk (health_of (getn s n) p) (up && reachable s n p) in
  let s' := fst (fst (step s (CheckPeer n p up))) in
  snd (fst (step s (CheckPeer n p up))) = OHealth (fst h') (snd h') /\
  health_of (getn s' n) p = h' /\
  (forall q, q <> p -> health_of (getn s' n) q = health_of (getn s n) q) /\
  cfg (getn s' n) = cfg (getn s n) /\ (forall a, find_idx 0 s' a = find_idx 0 s a) /\ length s' = length s.
Proof. exact checkpeer_step. Qed.
Print Assumptions C17_checkpeer_step_is_chk.

Theorem C17_unhealthy_iff_three_consecutive_failures : forall rs,
  fst (run_chk rs) = false <-> 3 <= consec_fails rs.
Proof. exact unhealthy_iff_three_fails. Qed.
Print Assumptions C17_unhealthy_iff_three_consecutive_failures.

Theorem C17_healthy_after_one_success : forall rs, run_chk (rs ++ [true]) = (true, 0).
Proof. exact healthy_after_success. Qed.
Print Assumptions C17_healthy_after_one_success.

Theorem C17_third_failure_flips : forall rs,
  fst (run_chk rs) = true -> (fst (run_chk (rs ++ [false])) = false <-> consec_fails rs = 2).
Proof. exact third_failure_flips. Qed.
Print Assumptions C17_third_failure_flips.

Theorem C17_checkpeer_threshold_in_model : forall cfgs n p ups,
  (N.to_nat n < length cfgs)%nat -> host_ok (peer_addr (getn (init cfgs) n) p) = true ->
  let outcomes := map (fun up => up && reachable (init cfgs) n p) ups in
  (mem_s p (unhealthy (getn (run_model (init cfgs) (map (CheckPeer n p) ups)) n)) = true
   <-> 3 <= consec_fails outcomes).
Proof. exact checkpeer_threshold. Qed.
Print Assumptions C17_checkpeer_threshold_in_model.

(* (7) refinement: the trace monitor the harness runs (Model/RendezvousSpec.v accept, clauses 0-8:
   agreement, membership, ranked, removal-minimality, health agreement and minimality, one pool per
   subscriber, release, persistence; clause 8: the response names the requested id) never rejects a
   run of the Model, for every configuration and
   every op sequence inside the decidable guard:
     - the scores of every key asked by GetOwner/IsLocalOwner/ranked are positive and pairwise
       distinct over the names U (clauses 1-3 only; clauses 0, 4-7 need no score guard),
     - no "X" / "X:8081" pair among the names (K17b),
     - no node marks itself unhealthy or health-checks itself (K17a), no node removes itself,
     - node indices are valid, configured and added names are in U,
     - the ids given to Allocate are valid UTF-8 (utf8_coerce k = k; K17d).
   [accept_trace], [model_trace] are Base/Check.v's, as evaluated on every harness case. *)
Theorem C17_monitor_accepts_model_partial : forall U K cfgs ops,
  guard U K cfgs ops = true ->
  accept_trace accept 1 (sinit cfgs)
    (map (fun x => (fst (fst x), snd (fst x))) (model_trace step (init cfgs) ops)) = (0, 0).
Proof. exact monitor_accepts_model. Qed.
Print Assumptions C17_monitor_accepts_model_partial.

(* (7') outside the last guard: an id that is not valid UTF-8 is allocated under two names by its one
   owner depending on the entry node, and the forwarded response names another subscriber: the Model
   (as the code, K17d) is rejected by clause 8 at the first forwarded Allocate *)
Theorem C17_alloc_names_requested_id_refuted :
  map (fun x => snd (fst x)) (model_trace step (init ex_cfgs) [Alloc 0 [255]; Alloc 1 [255]; Holds [255]; Holds ufffd])
    = [OServed ex_b2 ufffd; OServed ex_b2 [255]; OHold [1]; OHold [1]] /\
  accept_trace accept 1 (sinit ex_cfgs)
    (map (fun x => (fst (fst x), snd (fst x))) (model_trace step (init ex_cfgs) [Alloc 0 [255]])) = (1, 9).
Proof. exact alloc_identity_refuted. Qed.
Print Assumptions C17_alloc_names_requested_id_refuted.

(* (8) the peer list is a set: for every history on any number of nodes whose configured lists repeat no
   name, every node's peer list stays sorted and duplicate-free, and the ranked list (a permutation of it)
   names no peer twice.  This is the yardstick of the concurrent stream `race`: a real PeerPool that shows a
   peer twice after concurrent AddPeer calls is in a state no sequential order produces. *)
Theorem C17_peer_list_is_a_sorted_set : forall cfgs ops,
  Forall (fun c => NoDup (snd c)) cfgs ->
  Forall (fun nd => StronglySorted lex_le (peers nd) /\ NoDup (peers nd)) (run_model (init cfgs) ops).
Proof. exact peer_lists_stay_sets. Qed.
Print Assumptions C17_peer_list_is_a_sorted_set.

Theorem C17_ranked_names_no_peer_twice : forall cfgs ops k,
  Forall (fun c => NoDup (snd c)) cfgs ->
  Forall (fun nd => NoDup (ranked k (peers nd)) /\ Permutation (ranked k (peers nd)) (peers nd)) (run_model (init cfgs) ops).
Proof. exact ranked_has_no_duplicates. Qed.
Print Assumptions C17_ranked_names_no_peer_twice.

(* (8') outside the guard: NewPeerPool keeps a name the configured list repeats *)
Theorem C17_configured_duplicate_survives_refuted :
  peers (new_node [97] [[98]; [98]; [97]]) = [[97]; [98]; [98]].
Proof. exact configured_duplicate_survives. Qed.
Print Assumptions C17_configured_duplicate_survives_refuted.

(* (9) IsLocalOwner is (GetOwner = own id) in every state of every node, and a node that is absent from its
   own peer list (drained by RemovePeer of itself) claims no subscriber *)
Theorem C17_is_local_iff_owner_is_self : forall s n k,
  step_out s (IsLocal n k) =
  OBool (match step_out s (GetOwner n k) with OStr o => bytes_eqb o (self (getn s n)) | _ => false end).
Proof. exact is_local_iff_owner_is_self. Qed.
Print Assumptions C17_is_local_iff_owner_is_self.

Theorem C17_drained_node_owns_nothing_partial : forall s n k,
  peers (getn s n) <> [] -> scores_pos k (peers (getn s n)) -> ~ In (self (getn s n)) (peers (getn s n)) ->
  step_out s (IsLocal n k) = OBool false.
Proof. exact drained_node_owns_nothing. Qed.
Print Assumptions C17_drained_node_owns_nothing_partial.

(* (10) the judge of the concurrent stream (Model/RendezvousRace.v judge_round) accepts every round that was
   executed sequentially: the calls (updates and queries, updates pairwise distinct) one after the other in
   the listed order, the view read afterwards; it continues from a state with that view.  So a rejected
   round has no explanation "in the listed order"; the judge itself tries every order of the updates. *)
Theorem C17_race_judge_accepts_sequential_rounds : forall s ops,
  forallb (fun o => is_update o || is_query o) ops = true ->
  dedup_updates (filter is_update ops) = filter is_update ops ->
  let s' := seq_final s ops in
  exists s'', judge_round s (seq_trace s ops, (peers (getn s' 0), unhealthy (getn s' 0))) = inl s'' /\
              peers (getn s'' 0) = peers (getn s' 0) /\ unhealthy (getn s'' 0) = unhealthy (getn s' 0).
Proof. exact judge_accepts_sequential_round. Qed.
Print Assumptions C17_race_judge_accepts_sequential_rounds.

(* non-vacuity of (10), and what the judge rejects: a peer twice in the list after two concurrent
   announcements (clause 2), a removed peer still listed (clause 3), an owner no admissible set explains (0) *)
Example C17_race_round_sequential_example :
  forallb (fun o => is_update o || is_query o) rx_ops = true /\
  dedup_updates (filter is_update rx_ops) = filter is_update rx_ops /\
  peers (getn (seq_final rx_s rx_ops) 0) = [rx_a; rx_x] /\ unhealthy (getn (seq_final rx_s rx_ops) 0) = [rx_b].
Proof. exact ex_sequential_round. Qed.

Example C17_race_judge_verdicts :
  (exists s', judge_round rx_s ([(AddPeer 0 rx_x, ONone); (AddPeer 0 rx_x, ONone)], ([rx_a; rx_b; rx_x], [])) = inl s') /\
  judge_round rx_s ([(AddPeer 0 rx_x, ONone); (AddPeer 0 rx_x, ONone)], ([rx_a; rx_b; rx_x; rx_x], [])) = inr 2 /\
  judge_round [new_node rx_a [rx_a; rx_b; rx_x]] ([(RemovePeer 0 rx_x, ONone)], ([rx_a; rx_b; rx_x], [])) = inr 3 /\
  judge_round rx_s ([(AddPeer 0 rx_x, ONone); (GetOwner 0 [115;49], OStr [122])], ([rx_a; rx_b; rx_x], [])) = inr 0.
Proof. exact ex_judge_verdicts. Qed.

(* non-vacuity: the guards hold on a concrete cluster *)
Example C17_guards_satisfiable :
  scores_pos [115;49] [[98;110;103;45;49]; [98;110;103;45;50]; [98;110;103;45;51]] /\
  owner [115;49] [[98;110;103;45;49]; [98;110;103;45;50]; [98;110;103;45;51]] <> [].
Proof. split; [apply scores_pos_b_ok; vm_compute; reflexivity|vm_compute; discriminate]. Qed.

(* non-vacuity of (7): a 33-step history on three nodes inside the guard (queries, Allocate/Release of a
   plain id and of "a/../b?x" through a peer, three failed health checks, a shared health change,
   AddPeer, RemovePeer); in it a subscriber is held by exactly one pool and by none after Release,
   and a peer turns unhealthy at the third failure and healthy at the first success *)
Example C17_refinement_guard_satisfiable :
  guard [ex_b1; ex_b2; ex_b3; ex_b4] [ex_k1] ex_cfgs ex_ops = true /\
  map (fun x => snd (fst x)) (model_trace step (init ex_cfgs) [Alloc 0 ex_k1; Alloc 1 ex_k1; Holds ex_k1; Release 2 ex_k1; Holds ex_k1])
    = [OServed ex_b1 ex_k1; OServed ex_b1 ex_k1; OHold [0]; ONone; OHold []] /\
  map (fun x => snd (fst x)) (model_trace step (init ex_cfgs)
        [CheckPeer 0 ex_b2 false; CheckPeer 0 ex_b2 false; CheckPeer 0 ex_b2 false; CheckPeer 0 ex_b2 true])
    = [OHealth true 1; OHealth true 2; OHealth false 3; OHealth true 0].
Proof. exact ex_guard_holds. Qed.
