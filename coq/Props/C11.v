(* C11 — PPP control protocols open only on mutual agreement and always terminate.
   Statements only; proofs are in Proofs/FsmProofs.v.  The Model is Model/Fsm.v (the RFC 1661
   automaton as coded three times in pkg/pppoe) instantiated with the option processors
   lcp_procs / ipcp_procs / v6_procs.  "forall X (P : procs X)" = for every option processor, hence
   for all three copies and every configuration; [run P s evs] = fold_left over the event list.
   Events: Up, Down, Open, Close, received bytes, timer expiry [EFire t] of ANY started and not yet
   delivered timer t — including one the code has already stopped or replaced (stale fire). *)
From Coq Require Import ZArith NArith List Bool.
From Verif Require Import Base.Word Model.Fsm Model.Lcp Model.Ipcp Model.Ipv6cp Model.FsmSpec Model.FsmCheck
                          Model.FsmOpts Proofs.FsmProofs Proofs.FsmOptProofs.
Import ListNotations.
Local Open Scope N_scope.

(* ------------------------------------------------------------------------------------------- T1
   Opened => we acknowledged the peer's most recent Configure-Request (g_we) and the peer
   acknowledged our most recent one (g_peer): every event sequence, stale timer fires included.
   FULL since fix 9b2a861/8c383e7 (before it: refuted by [Up; Open; RCA; stale EFire 1; RCR+], kept
   as corpus/C11/k11a-*.json and as ex_stale_expiry_no_longer_opens below). *)
Theorem C11_T1_opened_implies_mutual_ack : forall X (P : procs X) (x : X) (evs : list ev),
  f_st (run P (init x) evs) = Opened ->
  g_we (run P (init x) evs) = true /\ g_peer (run P (init x) evs) = true.
Proof. exact @opened_implies_mutual_ack. Qed.
Print Assumptions C11_T1_opened_implies_mutual_ack.

(* what the two ghost fields mean in observables, for every state and event: g_peer can hold after a
   step only if no Configure-Request was sent in that step and it held before or the step received a
   Configure-Ack carrying the identifier of our latest request; g_we can hold after a step only if
   the step answered a well-formed Configure-Request with a Configure-Ack of the same identifier, or
   was no Configure-Request and it held before.  (The monitor recomputes both from packets alone.) *)
Theorem C11_T1_g_peer_meaning : forall X (P : procs X) (s : fsm X) (e : ev),
  g_peer (next P s e) = true ->
  sends_cr (sent P s e) = false /\ (g_peer s = true \/ is_rca_match s e = true).
Proof. exact @g_peer_meaning. Qed.
Print Assumptions C11_T1_g_peer_meaning.
Theorem C11_T1_g_we_meaning : forall X (P : procs X) (s : fsm X) (e : ev),
  g_we (next P s e) = true ->
  match rcr_id e with
  | Some i => existsb (fun p => (pc p =? 2) && (pi p =? i)) (sent P s e) = true
  | None => g_we s = true
  end.
Proof. exact @g_we_meaning. Qed.
Print Assumptions C11_T1_g_we_meaning.

Example C11_T1_opened_reachable :
  f_st (run lcp_procs (init lx0) [EOpen; EUp; rcr_lcp; ERecv [2;1;0;4]]) = Opened.
Proof. exact ex_opened_reachable. Qed.
Example C11_T1_stale_expiry_no_longer_opens :
  f_st (run lcp_procs (init lx0) [EUp; EOpen; ERecv [2;1;0;4]; EFire 1; rcr_lcp]) = AckSent.
Proof. exact ex_stale_expiry_no_longer_opens. Qed.

(* ------------------------------------------------------------------------------------------- T2
   In Opened (any state record whatsoever with f_st = Opened) every renegotiation, terminate or
   lower-layer-down event leaves Opened.  [leaving_of lcp last e] (Model/FsmSpec.v, shared with the
   monitor): Down, Close; a well-formed Configure-Request; Configure-Ack with identifier [last];
   well-formed Configure-Nak/Reject with identifier [last]; Terminate-Request; Terminate-Ack; and,
   where the copy handles them (LCP), Code-Reject of codes 1..4 and Protocol-Reject of 0xC021. *)
Theorem C11_T2_leaves_opened : forall X (P : procs X) (s : fsm X) (e : ev),
  f_st s = Opened -> leaving_of (pr_lcp P) (f_last s) e = true -> f_st (next P s e) <> Opened.
Proof. exact @leaves_opened. Qed.
Print Assumptions C11_T2_leaves_opened.

Example C11_T2_example :
  let s := run lcp_procs (init lx0) [EOpen; EUp; rcr_lcp; ERecv [2;1;0;4]] in
  leaving_of true (f_last s) (ERecv [5;9;0;4]) = true /\ f_st (next lcp_procs s (ERecv [5;9;0;4])) = Stopping.
Proof. exact ex_leaving_event. Qed.

(* ------------------------------------------------------------------------------------------- T3
   Every reply echoes the request's identifier: in any state, for any event, each Configure-Ack/
   Nak/Reject, Terminate-Ack and Echo-Reply handed to the send callback answers a received packet of
   the matching kind and carries its identifier ([chk_ids] is clause 2 of the monitor). *)
Theorem C11_T3_reply_echoes_id : forall X (P : procs X) (s : fsm X) (e : ev),
  chk_ids e (sent P s e) = true.
Proof. exact @reply_echoes_id. Qed.
Print Assumptions C11_T3_reply_echoes_id.

(* ------------------------------------------------------------------------------------------- T4
   For every state, every received byte string that parses as a Configure-Request with options
   [opts], every packet p sent in reply: an Ack carries exactly [opts]; a Reject carries a
   subsequence of [opts] none of which the protocol's policy ([acceptable], Model/FsmSpec.v) accepts;
   a Nak carries, in order, only option types of the request. *)
Theorem C11_T4_lcp_reply_options : forall s d i data opts p,
  parse_pkt d = Some (1, i, data) -> parse_opts data = Some opts -> In p (sent lcp_procs s (ERecv d)) ->
  (pc p = 2 -> pd p = ser_opts opts) /\
  (pc p = 4 -> exists l, pd p = ser_opts l /\ sublist l opts /\
               forall o, In o l -> forall k a b, mk_kind k = 0 -> acceptable k a b o = false) /\
  (pc p = 3 -> exists l, pd p = ser_opts l /\ sublist (map ot l) (map ot opts)).
Proof. exact lcp_reply_options. Qed.
Print Assumptions C11_T4_lcp_reply_options.

Theorem C11_T4_ipv6cp_reply_options : forall s d i data opts p,
  parse_pkt d = Some (1, i, data) -> parse_opts data = Some opts -> In p (sent v6_procs s (ERecv d)) ->
  (pc p = 2 -> pd p = ser_opts opts) /\
  (pc p = 4 -> exists l, pd p = ser_opts l /\ sublist l opts /\
               forall o, In o l -> forall k a b, mk_kind k = 2 -> acceptable k a b o = false) /\
  (pc p = 3 -> exists l, pd p = ser_opts l /\ sublist (map ot l) (map ot opts)).
Proof. exact v6_reply_options. Qed.
Print Assumptions C11_T4_ipv6cp_reply_options.

(* T4 + T5 for IPCP; [ipcp_mcfg x k]: k is the policy (assigned address, DNS configured) of option
   state x.  Ack: exactly the request's options, and (T5, guard: an address is assigned) every
   IP-Address option in it is the assigned address.  Nak: each entry answers a not-acceptable option
   of the request of the same type. *)
Theorem C11_T4_T5_ipcp_reply_options_partial : forall s d i data opts p k,
  ipcp_mcfg (f_x s) k ->
  parse_pkt d = Some (1, i, data) -> parse_opts data = Some opts -> In p (sent ipcp_procs s (ERecv d)) ->
  (pc p = 2 -> pd p = ser_opts opts /\
               forall a o, ix_peer (f_x s) = Some a -> In o opts -> ot o = 3 -> od o = a) /\
  (pc p = 4 -> exists l, pd p = ser_opts l /\ sublist l opts /\
               forall o, In o l -> forall a b, acceptable k a b o = false) /\
  (pc p = 3 -> exists l, pd p = ser_opts l /\ sublist (map ot l) (map ot opts) /\
               forall o', In o' l -> exists o, In o opts /\ ot o = ot o' /\ forall a b, acceptable k a b o = false).
Proof. exact ipcp_reply_options. Qed.
Print Assumptions C11_T4_T5_ipcp_reply_options_partial.

Example C11_T4_reject_example :
  sent lcp_procs (run lcp_procs (init lx0) [EOpen; EUp]) (ERecv [1;9;0;12;1;4;5;220;3;4;192;35])
  = [packet 4 9 [3;4;192;35]].
Proof. exact ex_reject_lists_offending. Qed.
Example C11_T5_ack_example :
  sent ipcp_procs (run ipcp_procs (init ix0) [EOpen; EUp]) (ERecv [1;3;0;10;3;6;10;0;0;9])
  = [packet 2 3 [3;6;10;0;0;9]].
Proof. exact ex_ipcp_ack_assigned. Qed.

(* ------------------------------------------------------------------------------------------- T4x
   T4 at VALUE level, exact, for ALL option lists.  Model/FsmOpts.v states each protocol's policy as
   predicates over one option: rejectable (unknown type / never negotiated / wrong length),
   offending (well-formed but the value is not acceptable: MRU outside [64,1492], magic number zero
   or our own, address zero or not the assigned one, DNS zero with a server configured, interface
   identifier zero or our own) and acceptable (the rest).  In any state, for any received bytes that
   parse as a Configure-Request with options [opts]: the first packet sent is the reply, carries the
   request's identifier, no other Ack/Nak/Reject is sent, and
     some option rejectable          => Configure-Reject listing EXACTLY the rejectable options;
     else every option acceptable    => Configure-Ack repeating the request's option bytes;
     else                            => Configure-Nak with one entry per offending option, in order,
                                        same type, carrying the coded suggestion ([*_suggests]: MRU 64
                                        below the range and 1492 above it; the assigned address; the
                                        configured DNS server; 4 / 8 bytes for magic / interface id).
   [offenders f off x opts] pairs each offending option with the option state in which the loop
   examines it (a loopback magic number / colliding interface id regenerates ours in mid-list). *)
Theorem C11_T4_lcp_reply_exact : forall s d i data opts,
  parse_pkt d = Some (1, i, data) -> parse_opts data = Some opts ->
  exists p rest, sent lcp_procs s (ERecv d) = p :: rest /\ pi p = i /\
    forallb (fun q => negb (in_range 2 (pc q) 4)) rest = true /\
    (if existsb lcp_rejectable opts then pc p = 4 /\ pd p = ser_opts (filter lcp_rejectable opts)
     else if forallb (lcp_acceptable (lx_magic (f_x s))) opts then pc p = 2 /\ pd p = ser_opts opts
     else pc p = 3 /\ exists l, l <> [] /\ pd p = ser_opts l /\
          Forall2 (fun xo o' => lcp_suggests (snd xo) o' = true) (offenders lcp_opt lcp_off (f_x s) opts) l).
Proof. exact lcp_reply_exact. Qed.
Print Assumptions C11_T4_lcp_reply_exact.

Theorem C11_T4_ipcp_reply_exact : forall s d i data opts,
  parse_pkt d = Some (1, i, data) -> parse_opts data = Some opts ->
  let x := f_x s in
  exists p rest, sent ipcp_procs s (ERecv d) = p :: rest /\ pi p = i /\
    forallb (fun q => negb (in_range 2 (pc q) 4)) rest = true /\
    (if existsb (ipcp_rejectable x) opts then pc p = 4 /\ pd p = ser_opts (filter (ipcp_rejectable x) opts)
     else if forallb (ipcp_acceptable x) opts then pc p = 2 /\ pd p = ser_opts opts
     else pc p = 3 /\ exists l, l <> [] /\ pd p = ser_opts l /\
          Forall2 (fun o o' => ipcp_suggests x o o' = true) (filter (ipcp_offending x) opts) l).
Proof. exact ipcp_reply_exact. Qed.
Print Assumptions C11_T4_ipcp_reply_exact.

Theorem C11_T4_ipv6cp_reply_exact : forall s d i data opts,
  parse_pkt d = Some (1, i, data) -> parse_opts data = Some opts ->
  exists p rest, sent v6_procs s (ERecv d) = p :: rest /\ pi p = i /\
    forallb (fun q => negb (in_range 2 (pc q) 4)) rest = true /\
    (if existsb v6_rejectable opts then pc p = 4 /\ pd p = ser_opts (filter v6_rejectable opts)
     else if forallb (v6_acceptable (vx_cfg (f_x s))) opts then pc p = 2 /\ pd p = ser_opts opts
     else pc p = 3 /\ exists l, l <> [] /\ pd p = ser_opts l /\
          Forall2 (fun xo o' => v6_suggests (snd xo) o' = true) (offenders v6_opt v6_off (f_x s) opts) l).
Proof. exact v6_reply_exact. Qed.
Print Assumptions C11_T4_ipv6cp_reply_exact.

(* ... and what the request does to the automaton is decided by the same predicates alone: the
   "we acknowledged the peer's latest request" bit becomes [ok]; from Ack-Rcvd the layer opens iff
   every option is acceptable; an acknowledged request changes none of our own options. *)
Theorem C11_T4_lcp_request_effect : forall s d i data opts,
  parse_pkt d = Some (1, i, data) -> parse_opts data = Some opts ->
  let ok := negb (existsb lcp_rejectable opts) && forallb (lcp_acceptable (lx_magic (f_x s))) opts in
  let s' := next lcp_procs s (ERecv d) in
  (ok = true -> f_x s' = f_x s) /\
  g_we s' = ok /\
  (f_st s = AckRcvd -> f_st s' = if ok then Opened else AckRcvd) /\
  (f_st s = ReqSent -> f_st s' = if ok then AckSent else ReqSent) /\
  (f_st s = AckSent -> f_st s' = if ok then AckSent else ReqSent) /\
  (f_st s = Opened -> f_st s' = if ok then AckSent else ReqSent) /\
  (f_st s = Stopped -> f_st s' = if ok then AckSent else ReqSent).
Proof. exact lcp_rcr_effect. Qed.
Print Assumptions C11_T4_lcp_request_effect.

Theorem C11_T4_ipcp_request_effect : forall s d i data opts,
  parse_pkt d = Some (1, i, data) -> parse_opts data = Some opts ->
  let ok := negb (existsb (ipcp_rejectable (f_x s)) opts) && forallb (ipcp_acceptable (f_x s)) opts in
  let s' := next ipcp_procs s (ERecv d) in
  (ok = true -> f_x s' = f_x s) /\
  g_we s' = ok /\
  (f_st s = AckRcvd -> f_st s' = if ok then Opened else AckRcvd) /\
  (f_st s = ReqSent -> f_st s' = if ok then AckSent else ReqSent) /\
  (f_st s = AckSent -> f_st s' = if ok then AckSent else ReqSent) /\
  (f_st s = Opened -> f_st s' = if ok then AckSent else ReqSent) /\
  (f_st s = Stopped -> f_st s' = if ok then AckSent else ReqSent).
Proof. exact ipcp_rcr_effect. Qed.
Print Assumptions C11_T4_ipcp_request_effect.

Theorem C11_T4_ipv6cp_request_effect : forall s d i data opts,
  parse_pkt d = Some (1, i, data) -> parse_opts data = Some opts ->
  let ok := negb (existsb v6_rejectable opts) && forallb (v6_acceptable (vx_cfg (f_x s))) opts in
  let s' := next v6_procs s (ERecv d) in
  (ok = true -> f_x s' = f_x s) /\
  g_we s' = ok /\
  (f_st s = AckRcvd -> f_st s' = if ok then Opened else AckRcvd) /\
  (f_st s = ReqSent -> f_st s' = if ok then AckSent else ReqSent) /\
  (f_st s = AckSent -> f_st s' = if ok then AckSent else ReqSent) /\
  (f_st s = Opened -> f_st s' = if ok then AckSent else ReqSent) /\
  (f_st s = Stopped -> f_st s' = if ok then AckSent else ReqSent).
Proof. exact v6_rcr_effect. Qed.
Print Assumptions C11_T4_ipv6cp_request_effect.

(* the predicate [acceptable] by which the MONITOR judges the implementation's Naks and Rejects
   (clause 3) is this same policy: evaluated with our own magic number / interface identifier before
   ([a]) and after ([b]) the event for LCP / IPv6CP, and with the session's assignment for IPCP *)
Theorem C11_T4_monitor_policy_lcp : forall k a b o, mk_kind k = 0 ->
  acceptable k a b o = lcp_acceptable (be_val (firstn 4 a)) o && lcp_acceptable (be_val (firstn 4 b)) o.
Proof. exact lcp_acceptable_monitor. Qed.
Print Assumptions C11_T4_monitor_policy_lcp.
Theorem C11_T4_monitor_policy_ipcp : forall x k a b o, ipcp_mcfg x k -> acceptable k a b o = ipcp_acceptable x o.
Proof. exact ipcp_acceptable_monitor. Qed.
Print Assumptions C11_T4_monitor_policy_ipcp.
Theorem C11_T4_monitor_policy_ipv6cp : forall k a b o, mk_kind k = 2 ->
  acceptable k a b o = v6_acceptable (be_val (firstn 8 a)) o && v6_acceptable (be_val (firstn 8 b)) o.
Proof. exact v6_acceptable_monitor. Qed.
Print Assumptions C11_T4_monitor_policy_ipv6cp.

(* boundary values: MRU 64 (the minimum) in Ack-Rcvd is acknowledged unchanged and opens the layer;
   63 is Nak'ed with 64 and does not; 1493 is Nak'ed with 1492 *)
Example C11_T4_mru_min_opens :
  let s := run lcp_procs (init lx0) [EOpen; EUp; ERecv [2;1;0;4]] in
  f_st s = AckRcvd /\
  sent lcp_procs s (ERecv [1;9;0;8;1;4;0;64]) = [packet 2 9 [1;4;0;64]] /\
  f_st (next lcp_procs s (ERecv [1;9;0;8;1;4;0;64])) = Opened.
Proof. exact ex_lcp_mru_min_opens. Qed.
Example C11_T4_mru_below_min_nak :
  let s := run lcp_procs (init lx0) [EOpen; EUp; ERecv [2;1;0;4]] in
  sent lcp_procs s (ERecv [1;9;0;8;1;4;0;63]) = [packet 3 9 [1;4;0;64]] /\
  f_st (next lcp_procs s (ERecv [1;9;0;8;1;4;0;63])) = AckRcvd.
Proof. exact ex_lcp_mru_below_min_nak. Qed.
Example C11_T4_mru_above_max_nak :
  sent lcp_procs (run lcp_procs (init lx0) [EOpen; EUp]) (ERecv [1;9;0;8;1;4;5;213]) = [packet 3 9 [1;4;5;212]].
Proof. exact ex_lcp_mru_above_max_nak. Qed.
Example C11_T4_offenders_threaded :
  map snd (offenders lcp_opt lcp_off lx0 [mkopt 1 [0;63]; mkopt 5 [17;34;51;68]; mkopt 7 []; mkopt 1 [5;213]])
  = [mkopt 1 [0;63]; mkopt 5 [17;34;51;68]; mkopt 1 [5;213]].
Proof. exact ex_lcp_offenders_threaded. Qed.
Example C11_T4_ipcp_wrong_address_nak :
  sent ipcp_procs (run ipcp_procs (init ix0) [EOpen; EUp]) (ERecv [1;3;0;10;3;6;10;0;0;10])
  = [packet 3 3 [3;6;10;0;0;9]].
Proof. exact ex_ipcp_wrong_address_nak. Qed.

(* ------------------------------------------------------------------------------------------- T5h
   T5 over ALL histories (guard: an address was assigned when the machine was created; no pool):
   no event — Down/Up cycles, Close/Open, Naks, Rejects, expiries — changes the assignment, and
   after any event sequence a Configure-Ack is sent only in reply to a well-formed Configure-Request,
   repeats its options, and every IP-Address option in it is the assigned address. *)
Theorem C11_T5_ipcp_assignment_invariant : forall evs s,
  ix_peer (f_x (run ipcp_procs s evs)) = ix_peer (f_x s) /\
  ix_dns1 (f_x (run ipcp_procs s evs)) = ix_dns1 (f_x s) /\
  ix_dns2 (f_x (run ipcp_procs s evs)) = ix_dns2 (f_x s).
Proof. exact ipcp_assignment_invariant. Qed.
Print Assumptions C11_T5_ipcp_assignment_invariant.

Theorem C11_T5_ipcp_acks_only_assigned_all_histories_partial : forall x a evs d p,
  ix_peer x = Some a ->
  In p (sent ipcp_procs (run ipcp_procs (init x) evs) (ERecv d)) -> pc p = 2 ->
  exists i data opts, parse_pkt d = Some (1, i, data) /\ parse_opts data = Some opts /\
    pd p = ser_opts opts /\ forall o, In o opts -> ot o = 3 -> od o = a.
Proof. exact ipcp_acks_only_assigned_histories. Qed.
Print Assumptions C11_T5_ipcp_acks_only_assigned_all_histories_partial.

Example C11_T5_assignment_survives_down_up :
  let s := run ipcp_procs (init ix0) [EOpen; EUp; ERecv [1;3;0;10;3;6;10;0;0;9]; ERecv [2;1;0;4]; EDown; EUp] in
  f_st s = ReqSent /\ sent ipcp_procs s (ERecv [1;4;0;10;3;6;10;0;0;10]) = [packet 3 4 [3;6;10;0;0;9]].
Proof. exact ex_ipcp_assignment_survives_down_up. Qed.

(* T5 without the guard is REFUTED: with no address assigned (config.PeerIP = nil) any non-zero
   address is acknowledged — known finding K11c (marker 1103). *)
Theorem C11_T5_ipcp_acks_only_assigned_refuted :
  ~ (forall x evs d p opts o,
       In p (sent ipcp_procs (run ipcp_procs (init x) evs) (ERecv d)) -> pc p = 2 ->
       parse_opts (pd p) = Some opts -> In o opts -> ot o = 3 -> ix_peer x = Some (od o)).
Proof. exact ipcp_acks_only_assigned_refuted. Qed.
Print Assumptions C11_T5_ipcp_acks_only_assigned_refuted.

(* ------------------------------------------------------------------------------------------- T6
   Silent peer.  [silent P n s]: n rounds in which the only thing that happens is the regular expiry
   of the running restart timer (if there is one).  After Open, Up: for every n beyond the count,
   the state is Stopped and exactly max(configured count, 1) Configure-Requests were sent in total
   ([pr_irc] = MaxConfigure for LCP; MaxRetransmit, 0 => 10, for the NCPs). *)
Theorem C11_T6_silent_peer_after_open_up : forall X (P : procs X) (x : X) (n : nat),
  (Z.to_nat (pr_irc P x - 1) < n)%nat ->
  let s1 := run P (init x) [EOpen; EUp] in
  f_st (silent P n s1) = Stopped /\
  (count_req (sent P (init x) EOpen ++ sent P (next P (init x) EOpen) EUp ++ silent_sent P n s1)
   = Z.to_nat (Z.max (pr_irc P x) 1))%nat.
Proof. exact @silent_peer_after_open_up. Qed.
Print Assumptions C11_T6_silent_peer_after_open_up.

(* Close in a negotiating or opened state, then silence: Closed after exactly max(count, 1)
   Terminate-Requests (the code initialises the counter from the same configured count). *)
Theorem C11_T6_silent_peer_after_close : forall X (P : procs X) (s : fsm X) (n : nat),
  (f_st s = ReqSent \/ f_st s = AckRcvd \/ f_st s = AckSent \/ f_st s = Opened) ->
  (Z.to_nat (pr_irc P (f_x s) - 1) < n)%nat ->
  let s1 := next P s EClose in
  f_st (silent P n s1) = Closed /\
  (count_req (sent P s EClose ++ silent_sent P n s1) = Z.to_nat (Z.max (pr_irc P (f_x s)) 1))%nat.
Proof. exact @silent_peer_after_close. Qed.
Print Assumptions C11_T6_silent_peer_after_close.

Example C11_T6_example :
  let s1 := run lcp_procs (init lx0) [EOpen; EUp] in
  f_st (silent lcp_procs 3 s1) = Stopped /\ count_req (silent_sent lcp_procs 3 s1) = 2%nat.
Proof. exact ex_silent_peer. Qed.

(* ------------------------------------------------------------------------------------------- T6'
   The same when the peer falls silent in ANY state is REFUTED for all three copies: a matching
   Configure-Ack stops the restart timer and nothing re-arms it in Ack-Rcvd (known finding K11b,
   marker 1102). *)
Theorem C11_T6p_lcp_always_terminates_refuted :
  ~ (forall x evs, exists n, terminal (f_st (silent lcp_procs n (run lcp_procs (init x) evs))) = true).
Proof. exact lcp_not_always_terminates. Qed.
Print Assumptions C11_T6p_lcp_always_terminates_refuted.
Theorem C11_T6p_ipcp_always_terminates_refuted :
  ~ (forall x evs, exists n, terminal (f_st (silent ipcp_procs n (run ipcp_procs (init x) evs))) = true).
Proof. exact ipcp_not_always_terminates. Qed.
Print Assumptions C11_T6p_ipcp_always_terminates_refuted.
Theorem C11_T6p_ipv6cp_always_terminates_refuted :
  ~ (forall x evs, exists n, terminal (f_st (silent v6_procs n (run v6_procs (init x) evs))) = true).
Proof. exact v6_not_always_terminates. Qed.
Print Assumptions C11_T6p_ipv6cp_always_terminates_refuted.

(* T6' under the decidable guard [live s] (the state needs no timer, or its restart timer is set and
   has not fired): silence from ANY such state ends, within restartCount+1 expiries, in a state
   without timer, after at most restartCount further requests. *)
Theorem C11_T6p_silent_peer_terminates_partial : forall X (P : procs X) (s : fsm X) (n : nat),
  live s = true -> (Z.to_nat (f_rc s) < n)%nat ->
  terminal (f_st (silent P n s)) = true /\ (count_req (silent_sent P n s) <= Z.to_nat (f_rc s))%nat.
Proof. exact @silent_peer_terminates_live. Qed.
Print Assumptions C11_T6p_silent_peer_terminates_partial.

(* the guard is the weakest possible: silence ends in a state without timer IF AND ONLY IF the state is
   live — so K11b is exactly the set of steps that lose [live] (marker 1102), no more and no less *)
Theorem C11_T6p_silence_terminates_iff_live : forall X (P : procs X) (s : fsm X),
  (exists n, terminal (f_st (silent P n s)) = true) <-> live s = true.
Proof. exact @silence_terminates_iff_live. Qed.
Print Assumptions C11_T6p_silence_terminates_iff_live.

(* ... and the guard can only be lost at the sites of K11b: a step from a live state to a state
   that is not live is the receipt of a Configure-Ack/Nak/Reject with the identifier of our latest
   request, or of a Terminate-Request / Terminate-Ack.  Up, Down, Open, Close, Configure-Requests,
   timer expiries (fresh or stale), Code-/Protocol-Rejects, Echo never lose it. *)
Theorem C11_T6p_only_receive_handlers_stop_the_timer : forall X (P : procs X) (s : fsm X) (e : ev),
  live s = true -> stops_timer_ev (f_last s) e = false -> live (next P s e) = true.
Proof. exact @live_preserved. Qed.
Print Assumptions C11_T6p_only_receive_handlers_stop_the_timer.

Example C11_T6p_live_example : live (run v6_procs (init vx0) [EOpen; EUp; ERecv [3;1;0;4]]) = true.
Proof. exact ex_live_state. Qed.
