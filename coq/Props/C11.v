From Coq Require Import ZArith NArith List.
From Verif Require Import Base.Word Model.Fsm Model.Lcp Model.Ipcp Model.Ipv6cp Model.FsmSpec Model.FsmCheck.
