(* C02 — DHCP servers never bind one address or prefix to two clients.  Statements only. *)
From Coq Require Import NArith List.
From Verif Require Import Model.Dhcp4 Model.Dhcp6 Proofs.Dhcp4Proofs.
Import ListNotations.
Local Open Scope N_scope.

Theorem C02_v4_d_renew_same_value : forall c ops m l,
  alookup (m_mac m) (leases (run4 c ops)) = Some l ->
  now (run4 c ops) < l_exp l ->
  requested m = l_ip l ->
  exists s' mk, step4 c (run4 c ops) (Request m) = (s', RAck (l_ip l), mk) /\
    exists l', alookup (m_mac m) (leases s') = Some l' /\ l_ip l' = l_ip l.
Proof. exact v4_renew_same. Qed.
Print Assumptions C02_v4_d_renew_same_value.
