(* C02 — DHCP servers never bind one address or prefix to two clients.
   Statements only; proofs are in Proofs/Dhcp4Proofs.v and Proofs/Dhcp6Proofs.v.  Every theorem
   quantifies over ALL histories [ops] (message interleavings, time advances, cleanup ticks with any
   map-iteration order) through run4 / run6 = fold_left of the Model's step from the initial state.

   Guard of the DHCPv4 _partial theorems: [quiet4 c ops] = no DISCOVER/REQUEST of the history takes
   its "existing lease" from the circuit-ID index (decidable by running the Model; ghost marker 0201
   is never raised).  Two static guards imply it (C02_v4_quiet_of_guard4, C02_v4_quiet_of_owned):
   [guard4 ops] = no relayed DISCOVER/REQUEST carries an option-82 circuit-id, and
   [cid_owned ops] = every circuit-id of the history is used by one MAC only (relayed option-82
   traffic allowed).  Without a guard the clauses are refuted (known finding K02a). *)
From Coq Require Import NArith List.
From Verif Require Import Model.Dhcp4 Model.Dhcp4Alloc Model.Dhcp6 Proofs.Dhcp4Proofs Proofs.Dhcp4Circuit Proofs.Dhcp4AllocProofs Proofs.Dhcp6Proofs.
Import ListNotations.
Local Open Scope N_scope.

(* ------------------------------------------------------------------ DHCPv4 *)

(* (a) an OFFER/ACK value is not leased (even expired-uncleaned) or offered to another client *)
Theorem C02_v4_a_refuted : exists c ops o s' r mk v c',
  step4 c (run4 c ops) o = (s', r, mk) /\ reply_val r = Some v /\ c' <> op_client o /\ holds (run4 c ops) c' v.
Proof. exact v4_a_refuted. Qed.
Print Assumptions C02_v4_a_refuted.

(* the guards *)
Theorem C02_v4_quiet_of_guard4 : forall c ops, guard4 ops = true -> quiet4 c ops = true.
Proof. exact quiet_of_guard. Qed.
Print Assumptions C02_v4_quiet_of_guard4.

Theorem C02_v4_quiet_of_owned : forall c ops, cid_owned ops = true -> quiet4 c ops = true.
Proof. exact quiet_of_owned. Qed.
Print Assumptions C02_v4_quiet_of_owned.

(* with circuit-ids never shared between MACs no stale lease object stays reachable through the
   circuit-ID index: every index entry is the live lease-table entry of its MAC (fix c878197) *)
Theorem C02_v4_index_live_owned : forall c ops k o,
  cid_owned ops = true -> alookup k (cidx (run4 c ops)) = Some o ->
  l_cid o = k /\ alookup (l_mac o) (leases (run4 c ops)) = Some o.
Proof. exact v4_index_live_owned. Qed.
Print Assumptions C02_v4_index_live_owned.

Theorem C02_v4_a_partial : forall c ops o s' r mk v c',
  quiet4 c (ops ++ [o]) = true ->
  step4 c (run4 c ops) o = (s', r, mk) -> reply_val r = Some v -> c' <> op_client o ->
  ~ holds (run4 c ops) c' v.
Proof. exact v4_a_quiet. Qed.
Print Assumptions C02_v4_a_partial.

(* (b) at most one (unexpired) binding per address *)
Theorem C02_v4_b_refuted : exists c ops m1 m2 l1 l2,
  alookup m1 (leases (run4 c ops)) = Some l1 /\ alookup m2 (leases (run4 c ops)) = Some l2 /\
  l_ip l1 = l_ip l2 /\ m1 <> m2 /\ now (run4 c ops) < l_exp l1 /\ now (run4 c ops) < l_exp l2.
Proof. exact v4_b_refuted. Qed.
Print Assumptions C02_v4_b_refuted.

Theorem C02_v4_b_partial : forall c ops m1 m2 l1 l2,
  quiet4 c ops = true ->
  alookup m1 (leases (run4 c ops)) = Some l1 -> alookup m2 (leases (run4 c ops)) = Some l2 ->
  l_ip l1 = l_ip l2 -> m1 = m2.
Proof. exact v4_b_quiet. Qed.
Print Assumptions C02_v4_b_partial.

(* (c) every OFFER/ACK value is inside the pool and not the network, broadcast or gateway address *)
Theorem C02_v4_c_value_usable : forall c ops o s' r mk v,
  step4 c (run4 c ops) o = (s', r, mk) -> reply_val r = Some v -> usable4 c v = true.
Proof. exact v4_value_usable. Qed.
Print Assumptions C02_v4_c_value_usable.

(* (d) renewing an own unexpired binding is ACKed with the same address, which stays bound *)
Theorem C02_v4_d_renew_same_value : forall c ops m l,
  alookup (m_mac m) (leases (run4 c ops)) = Some l ->
  now (run4 c ops) < l_exp l ->
  requested m = l_ip l ->
  exists s' mk, step4 c (run4 c ops) (Request m) = (s', RAck (l_ip l), mk) /\
    exists l', alookup (m_mac m) (leases s') = Some l' /\ l_ip l' = l_ip l.
Proof. exact v4_renew_same. Qed.
Print Assumptions C02_v4_d_renew_same_value.

(* (e) an address declined by its holder is never offered or acknowledged again *)
Theorem C02_v4_e_refuted : exists c ops1 ops2 m l o s' r mk,
  alookup (m_mac m) (leases (run4 c ops1)) = Some l /\ m_req m = Some (l_ip l) /\
  step4 c (run4 c (ops1 ++ Decline m :: ops2)) o = (s', r, mk) /\ reply_val r = Some (l_ip l).
Proof. exact v4_e_refuted. Qed.
Print Assumptions C02_v4_e_refuted.

Theorem C02_v4_e_partial : forall c ops1 ops2 m l o s' r mk,
  quiet4 c (ops1 ++ Decline m :: ops2 ++ [o]) = true ->
  alookup (m_mac m) (leases (run4 c ops1)) = Some l -> m_req m = Some (l_ip l) ->
  step4 c (run4 c (ops1 ++ Decline m :: ops2)) o = (s', r, mk) ->
  reply_val r <> Some (l_ip l).
Proof. exact v4_e_quiet. Qed.
Print Assumptions C02_v4_e_partial.

(* (f) a released address is back on the free list (or was declined); after a cleanup tick no
   expired lease is left in the table *)
Theorem C02_v4_f_release_partial : forall c ops m l,
  quiet4 c ops = true -> alookup (m_mac m) (leases (run4 c ops)) = Some l ->
  let s' := step4s c (run4 c ops) (Release m) in
  alookup (m_mac m) (leases s') = None /\ (In (l_ip l) (avail s') \/ In (l_ip l) (unavail s')).
Proof. exact v4_f_release_quiet. Qed.
Print Assumptions C02_v4_f_release_partial.

Theorem C02_v4_f_expiry_cleanup : forall c ops ord m l,
  alookup m (leases (step4s c (run4 c ops) (Cleanup ord))) = Some l -> now (run4 c ops) < l_exp l.
Proof. exact v4_f_expiry. Qed.
Print Assumptions C02_v4_f_expiry_cleanup.

(* (f) expiry, second half: the address of a lease that has run out is, after the cleanup tick
   (any map order), back on the free list (or was declined) and the lease is gone *)
Theorem C02_v4_f_expiry_frees_partial : forall c ops ord m l,
  quiet4 c ops = true -> alookup m (leases (run4 c ops)) = Some l -> l_exp l <= now (run4 c ops) ->
  let s' := step4s c (run4 c ops) (Cleanup ord) in
  alookup m (leases s') = None /\ (In (l_ip l) (avail s') \/ In (l_ip l) (unavail s')).
Proof. exact v4_f_expiry_frees. Qed.
Print Assumptions C02_v4_f_expiry_frees_partial.

(* non-vacuity: a guarded history with relay, option 82, a decline, expiry and a cleanup tick, and a
   reachable state in which a client holds a lease *)
Example C02_v4_guard_satisfiable :
  guard4 [Discover (w_m 1 None false 0); Request (w_m 1 (Some 167773953) false 1); Discover (w_m 2 None true 0);
          Decline (w_m 1 (Some 167773953) false 0); Advance 101; Cleanup []] = true /\
  exists l, alookup 1 (leases (run4 w_cfg [Discover (w_m 1 None false 0); Request (w_m 1 (Some 167773953) false 1)])) = Some l
            /\ l_ip l = 167773953.
Proof. exact v4_guard_satisfiable. Qed.

(* non-vacuity of cid_owned: relayed option-82 traffic of two clients, a renewal from another
   circuit; guard4 is false on it.  quiet4 is strictly weaker than cid_owned (a circuit-id changing
   hands after a RELEASE), and fails on the K02a history *)
Example C02_v4_owned_satisfiable :
  cid_owned w_owned = true /\ guard4 w_owned = false /\
  (exists l, alookup 2 (cidx (run4 w_cfg (firstn 5 w_owned))) = Some l /\ l_mac l = 2) /\
  alookup 1 (cidx (run4 w_cfg (firstn 5 w_owned))) = None.
Proof. exact owned_satisfiable. Qed.
Example C02_v4_quiet_weaker :
  cid_owned w_swap = false /\ quiet4 w_cfg w_swap = true /\
  quiet4 w_cfg (w_ops ++ [Discover (w_m 2 None true 1)]) = false.
Proof. exact quiet_weaker. Qed.

(* ------------------------------------------------------------------ DHCPv4, external allocator configured
   Model/Dhcp4Alloc.v (code after fix 9e598d4): an op is (message, answer of the allocator's lookup during
   that message).  The allocator is an oracle; guard [guardh c ops] =
     oracle_inj ops    two hits naming the same address are hits for the same MAC
     oracle_ext c ops  no hit names an assignable address of the local pool
     quiet4h c ops     no DISCOVER/REQUEST takes its existing lease from the circuit-id index (as quiet4). *)

Theorem C02_v4h_a_partial : forall c ops o s' r mk v c',
  guardh c (ops ++ [o]) = true ->
  step4h c (run4h c ops) o = (s', r, mk) -> reply_val r = Some v -> c' <> op_client (fst o) ->
  ~ holds (run4h c ops) c' v.
Proof. exact v4h_a_partial. Qed.
Print Assumptions C02_v4h_a_partial.

(* without oracle_inj: an allocator naming one address for two MACs gets it ACKed to both *)
Theorem C02_v4h_a_refuted_bad_oracle : exists c ops o s' r mk v c',
  oracle_inj (ops ++ [o]) = false /\ oracle_ext c (ops ++ [o]) = true /\ quiet4h c (ops ++ [o]) = true /\
  step4h c (run4h c ops) o = (s', r, mk) /\ reply_val r = Some v /\ c' <> op_client (fst o) /\ holds (run4h c ops) c' v.
Proof. exact v4h_a_refuted_bad_oracle. Qed.
Print Assumptions C02_v4h_a_refuted_bad_oracle.

Theorem C02_v4h_b_partial : forall c ops m1 m2 l1 l2,
  guardh c ops = true ->
  alookup m1 (leases (run4h c ops)) = Some l1 -> alookup m2 (leases (run4h c ops)) = Some l2 ->
  l_ip l1 = l_ip l2 -> m1 = m2.
Proof. exact v4h_b_partial. Qed.
Print Assumptions C02_v4h_b_partial.

(* (c): the value is an assignable address of the local pool, or an address the allocator named
   for that very client in this history *)
Theorem C02_v4h_c_partial : forall c ops o s' r mk v,
  guardh c (ops ++ [o]) = true ->
  step4h c (run4h c ops) o = (s', r, mk) -> reply_val r = Some v ->
  usable4 c v = true \/ hit_of (ops ++ [o]) (op_client (fst o)) v.
Proof. exact v4h_c_partial. Qed.
Print Assumptions C02_v4h_c_partial.

(* (e): refuted for allocator addresses (known finding K02d, marker 0203); what holds: an address that
   is marked unavailable and that no lease holds comes back only as the allocator's answer *)
Theorem C02_v4h_e_refuted : exists c ops1 m l o s' r mk,
  guardh c (ops1 ++ [(Decline m, LkMiss); o]) = true /\
  alookup (m_mac m) (leases (run4h c ops1)) = Some l /\ m_req m = Some (l_ip l) /\
  step4h c (run4h c (ops1 ++ [(Decline m, LkMiss)])) o = (s', r, mk) /\ reply_val r = Some (l_ip l) /\ mk = [203].
Proof. exact v4h_e_refuted. Qed.
Print Assumptions C02_v4h_e_refuted.

Theorem C02_v4h_e_partial : forall c ops o s' r mk v,
  guardh c (ops ++ [o]) = true ->
  step4h c (run4h c ops) o = (s', r, mk) -> reply_val r = Some v ->
  In v (unavail (run4h c ops)) -> (forall m l, alookup m (leases (run4h c ops)) = Some l -> l_ip l <> v) ->
  snd o = LkHit v.
Proof. exact v4h_e_partial. Qed.
Print Assumptions C02_v4h_e_partial.

Example C02_v4h_guard_satisfiable :
  guardh w_cfg w_h = true /\
  (exists l, alookup 1 (leases (run4h w_cfg w_h)) = Some l /\ l_ip l = nx1) /\
  (exists l, alookup 2 (leases (run4h w_cfg w_h)) = Some l /\ l_ip l = 167773953) /\
  alookup 3 (leases (run4h w_cfg w_h)) = None.
Proof. exact guardh_satisfiable. Qed.

(* ------------------------------------------------------------------ DHCPv6 *)

(* configuration side condition: the delegated-prefix step is positive (always: 2^(128-dlen)) *)

(* (a)+(c) a value in an Advertise/Reply is one of the pool's addresses / prefixes, and no other
   client holds it (lease entry or outstanding Advertise) *)
Theorem C02_v6_ac_address : forall c ops o s' r mk v d',
  wf6 c -> step6 c (run6 c ops) o = (s', r, mk) -> na_of r = IaVal v ->
  In v (init_aavail c) /\ (d' <> client6 o -> ~ holds6a (run6 c ops) d' v).
Proof. exact v6_a_addr. Qed.
Print Assumptions C02_v6_ac_address.

Theorem C02_v6_ac_prefix : forall c ops o s' r mk v d',
  wf6 c -> step6 c (run6 c ops) o = (s', r, mk) -> pd_of r = IaVal v ->
  In v (init_pavail c) /\ (d' <> client6 o -> ~ holds6p (run6 c ops) d' v).
Proof. exact v6_a_pfx. Qed.
Print Assumptions C02_v6_ac_prefix.

(* (b) no two lease-table entries share an address or a prefix *)
Theorem C02_v6_b_one_binding : forall c ops d1 d2 l1 l2,
  wf6 c -> alookup d1 (leases6 (run6 c ops)) = Some l1 -> alookup d2 (leases6 (run6 c ops)) = Some l2 ->
  (forall a, l6_addr l1 = Some a -> l6_addr l2 = Some a -> d1 = d2) /\
  (forall p, l6_pfx l1 = Some p -> l6_pfx l2 = Some p -> d1 = d2).
Proof. exact v6_b. Qed.
Print Assumptions C02_v6_b_one_binding.

(* (d) Renew (and Rebind, which is the same transition) of a held address returns the same address *)
Theorem C02_v6_d_renew_same_value : forall c ops d l a pd,
  wf6 c -> alookup d (leases6 (run6 c ops)) = Some l -> l6_addr l = Some a ->
  step6 c (run6 c ops) (Rebind d true pd) = step6 c (run6 c ops) (Renew d true pd) /\
  exists s' rpd mk, step6 c (run6 c ops) (Renew d true pd) = (s', R6Reply (IaVal a) rpd false, mk).
Proof. exact v6_d. Qed.
Print Assumptions C02_v6_d_renew_same_value.

(* (f) release: the released address is back on the free list and the binding is gone *)
Theorem C02_v6_f_release : forall c ops d l a,
  wf6 c -> alookup d (leases6 (run6 c ops)) = Some l -> l6_addr l = Some a ->
  In a (aavail (step6s c (run6 c ops) (Release6 d))) /\ alookup d (leases6 (step6s c (run6 c ops) (Release6 d))) = None.
Proof. exact v6_f_release. Qed.
Print Assumptions C02_v6_f_release.


(* (d) for delegated prefixes *)
Theorem C02_v6_d_renew_same_prefix : forall c ops d l p na,
  wf6 c -> alookup d (leases6 (run6 c ops)) = Some l -> l6_pfx l = Some p ->
  step6 c (run6 c ops) (Rebind d na true) = step6 c (run6 c ops) (Renew d na true) /\
  exists s' rna mk, step6 c (run6 c ops) (Renew d na true) = (s', R6Reply rna (IaVal p) false, mk).
Proof. exact v6_d_pfx. Qed.
Print Assumptions C02_v6_d_renew_same_prefix.

(* (f) release for delegated prefixes *)
Theorem C02_v6_f_release_prefix : forall c ops d l p,
  wf6 c -> alookup d (leases6 (run6 c ops)) = Some l -> l6_pfx l = Some p ->
  In p (pavail (step6s c (run6 c ops) (Release6 d))) /\ alookup d (leases6 (step6s c (run6 c ops) (Release6 d))) = None.
Proof. exact v6_f_release_pfx. Qed.
Print Assumptions C02_v6_f_release_prefix.

(* Information-Request is stateless: no value, no change of the binding state *)
Theorem C02_v6_inforeq_stateless : forall c s d, step6 c s (InfoReq d) = (s, R6Info, []).
Proof. exact v6_inforeq_stateless. Qed.
Print Assumptions C02_v6_inforeq_stateless.

(* (e) Decline is Release: the declined address is handed to the next client *)
Theorem C02_v6_e_refuted : exists c ops d l a o s' r mk,
  alookup d (leases6 (run6 c ops)) = Some l /\ l6_addr l = Some a /\
  step6 c (run6 c (ops ++ [Decline6 d])) o = (s', r, mk) /\ na_of r = IaVal a.
Proof. exact v6_e_refuted. Qed.
Print Assumptions C02_v6_e_refuted.

(* (f) expiry: a request is refused while a binding whose valid lifetime has run out holds the address *)
Theorem C02_v6_f_expiry_refuted : exists c ops o s' r mk,
  step6 c (run6 c ops) o = (s', r, mk) /\ na_of r = IaErr 2 /\ expired_holder (run6 c ops) false = true.
Proof. exact v6_f_expiry_refuted. Qed.
Print Assumptions C02_v6_f_expiry_refuted.

Theorem C02_v6_f_expiry_partial : forall c ops pd,
  wf6 c -> now6 (run6 c ops) <= c_valid c -> expired_holder (run6 c ops) pd = false.
Proof. exact v6_f_expiry_partial. Qed.
Print Assumptions C02_v6_f_expiry_partial.

(* (e) partial: the declined address goes to the END of the free list; while another free address
   exists the next client is given that one, not the declined one *)
Theorem C02_v6_e_partial : forall c ops d l a d2 x tl,
  wf6 c -> alookup d (leases6 (run6 c ops)) = Some l -> l6_addr l = Some a ->
  aavail (run6 c ops) = x :: tl -> d2 <> d -> alookup d2 (aalloc (run6 c ops)) = None ->
  exists s' rpd mk, step6 c (step6s c (run6 c ops) (Decline6 d)) (Request6 d2 true true false) = (s', R6Reply (IaVal x) rpd false, mk) /\ x <> a.
Proof. exact v6_e_partial. Qed.
Print Assumptions C02_v6_e_partial.

Example C02_v6_hyps_satisfiable :
  wf6 w6 /\ (exists l, alookup 1 (leases6 (run6 w6 [Solicit 1 false true true; Request6 1 true true true; Advance6 50])) = Some l
                       /\ l6_addr l = Some (a_base w6 + 1) /\ l6_pfx l = Some (p_base w6)) /\
  now6 (run6 w6 [Solicit 1 false true true; Request6 1 true true true; Advance6 50]) <= c_valid w6.
Proof. exact v6_hyps_satisfiable. Qed.
