From Coq Require Import NArith List.
From Verif Require Import Base.Word Model.TcQos Model.TcAntispoof Model.AntispoofMgr Model.TcAntispoofSpec Proofs.TcAntispoofProofs.
Import ListNotations.
Local Open Scope N_scope.

Theorem C18_short_frame_forwards : forall m f, (length f < 14)%nat -> antispoof_prog m f = (ARet TC_ACT_OK, []).
Proof. exact short_frame_forwards. Qed.
Print Assumptions C18_short_frame_forwards.
