(* C18 — a subscriber can only source traffic from its bound address.
   Statements only; proofs are in Proofs/TcAntispoofProofs.v.  Subject: Model/TcAntispoof.v (bpf/antispoof.c
   antispoof_ingress as coded, after the loose-mode fix d9f017c) and Model/AntispoofMgr.v
   (pkg/antispoof/manager.go); the executable property monitor is Model/TcAntispoofSpec.v.
   Vocabulary: [eff_mode m mac] = the binding's mode if [mac] has a binding, else the configured default;
   [v4_frame f mac src] / [v6_frame f mac src] = f carries a complete Ethernet + IPv4 / IPv6 header, source MAC
   mac, source address src; bindings are RAW map values (bytes 0..3 IPv4 in network order, 4..19 IPv6,
   20/21 valid flags, 22 mode). *)
From Coq Require Import NArith List Lia.
From Verif Require Import Base.Word Model.TcQos Model.TcAntispoof Model.AntispoofMgr Model.TcAntispoofSpec Proofs.TcAntispoofProofs.
Import ListNotations.
Local Open Scope N_scope.

(* ---- on raw bindings: all maps, all frames *)
Theorem C18_strict_iff_equal_v4 : forall m f mac src,
  v4_frame f mac src -> eff_mode m mac = MODE_STRICT ->
  (forwards m f <-> exists b, binding_of m mac = Some b /\ nthb b 20 <> 0 /\ src = firstn 4 b).
Proof. exact strict_iff_equal_v4. Qed.
Print Assumptions C18_strict_iff_equal_v4.

Theorem C18_strict_iff_equal_v6 : forall m f mac src,
  v6_frame f mac src -> eff_mode m mac = MODE_STRICT ->
  (forwards m f <-> exists b, binding_of m mac = Some b /\ nthb b 21 <> 0 /\ src = firstn 16 (skipn 4 b)).
Proof. exact strict_iff_equal_v6. Qed.
Print Assumptions C18_strict_iff_equal_v6.

(* log-only and disabled: every frame (any length, any ethertype, any content) is forwarded *)
Theorem C18_log_only_and_disabled_always_forward : forall m f mo, (mo = MODE_LOG_ONLY \/ mo = MODE_DISABLED) ->
  (forall mac, rd f 6 6 = Some mac -> eff_mode m mac = mo) -> forwards m f.
Proof. exact mode_forwards_all. Qed.
Print Assumptions C18_log_only_and_disabled_always_forward.

Theorem C18_non_ip_forwards : forall m f proto,
  rd f 12 2 = Some proto -> proto <> [8; 0] -> proto <> [134; 221] -> forwards m f.
Proof. exact non_ip_forwards. Qed.
Print Assumptions C18_non_ip_forwards.

Theorem C18_short_frame_forwards : forall m f, (length f < 14)%nat -> antispoof_prog m f = (ARet TC_ACT_OK, []).
Proof. exact short_frame_forwards. Qed.
Print Assumptions C18_short_frame_forwards.

Theorem C18_truncated_ipv4_forwards : forall m f, (length f < 34)%nat -> rd f 12 2 = Some [8; 0] -> forwards m f.
Proof. exact truncated_ip_forwards. Qed.
Print Assumptions C18_truncated_ipv4_forwards.

Theorem C18_never_reads_outside_the_frame : forall m f, verdict_of m f <> AOob.
Proof. exact never_oob. Qed.
Print Assumptions C18_never_reads_outside_the_frame.

(* loose, IPv4: FULL after the fix (before it: refuted for every bound subscriber) *)
Theorem C18_loose_v4_iff_in_range : forall m f mac src,
  v4_frame f mac src -> eff_mode m mac = MODE_LOOSE -> (forwards m f <-> in_ranges (a_ranges m) src = true).
Proof. exact loose_v4_iff_in_range. Qed.
Print Assumptions C18_loose_v4_iff_in_range.

Theorem C18_in_ranges_meaning : forall rs ip, in_ranges rs ip = true <->
  exists plen d, In (plen, d) rs /\ plen <= 32 /\ bits_match (N.to_nat plen) d ip = true.
Proof. exact in_ranges_spec. Qed.
Print Assumptions C18_in_ranges_meaning.

(* loose, IPv6: there is no IPv6 range map, so no IPv6 source lies in an allowed range; the program forwards
   every unbound IPv6 sender — REFUTED; under the guard "bound and different" it drops *)
Theorem C18_loose_v6_refuted : ~ loose_v6_statement.
Proof. exact loose_v6_refuted. Qed.
Print Assumptions C18_loose_v6_refuted.

Theorem C18_loose_v6_partial : forall m f mac src b,
  v6_frame f mac src -> eff_mode m mac = MODE_LOOSE ->
  binding_of m mac = Some b -> nthb b 21 <> 0 -> src <> firstn 16 (skipn 4 b) -> drops m f.
Proof. exact loose_v6_partial. Qed.
Print Assumptions C18_loose_v6_partial.

(* ---- through the manager *)
Theorem C18_binding_takes_effect_refuted : ~ binding_takes_effect_statement.
Proof. exact binding_takes_effect_refuted. Qed.
Print Assumptions C18_binding_takes_effect_refuted.

Theorem C18_binding_admits_mirror_image :
  forwards (maps (after init [AddBinding mac1 [10;20;30;40]])) (v4_test_frame [40;30;20;10]).
Proof. exact binding_admits_mirror_image. Qed.
Print Assumptions C18_binding_admits_mirror_image.

(* guard: palindromic address (decidable: palin4) — from ANY prior manager state *)
Theorem C18_binding_takes_effect_partial : forall s mac ip f src,
  length mac = 6%nat -> length ip = 4%nat -> palin4 ip = true -> mgr_mode s = MODE_STRICT -> v4_frame f mac src ->
  (forwards (maps (after s [AddBinding mac ip])) f <-> src = ip).
Proof. exact binding_takes_effect_partial. Qed.
Print Assumptions C18_binding_takes_effect_partial.

Theorem C18_v6_binding_survives_refuted : ~ v6_binding_survives_statement.
Proof. exact v6_binding_survives_refuted. Qed.
Print Assumptions C18_v6_binding_survives_refuted.

(* guard: the IPv6 binding is added after the IPv4 one *)
Theorem C18_v6_binding_survives_partial : forall s mac ip4 ip6 f,
  length mac = 6%nat -> length ip4 = 4%nat -> length ip6 = 16%nat -> mgr_mode s = MODE_STRICT -> v6_frame f mac ip6 ->
  forwards (maps (after s [AddBinding mac ip4; AddBindingV6 mac ip6])) f.
Proof. exact v6_binding_survives_partial. Qed.
Print Assumptions C18_v6_binding_survives_partial.

(* non-vacuity: the hypotheses are satisfiable by concrete frames and states *)
Example C18_frames_exist :
  v4_frame (v4_test_frame [10;1;1;10]) mac1 [10;1;1;10] /\ palin4 [10;1;1;10] = true /\
  v6_frame v6_test_frame [2;0;0;0;0;1] ip6_1 /\
  eff_mode (maps (after init [AddBinding mac1 [10;1;1;10]])) mac1 = MODE_STRICT /\
  forwards (maps (after init [AddBinding mac1 [10;1;1;10]])) (v4_test_frame [10;1;1;10]) /\
  drops (maps (after init [AddBinding mac1 [10;1;1;10]])) (v4_test_frame [10;1;1;11]).
Proof. repeat split; try reflexivity; cbn; lia. Qed.
