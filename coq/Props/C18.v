(* C18 — a subscriber can only source traffic from its bound address.
   Statements only; proofs are in Proofs/TcAntispoofProofs.v.  Subject: Model/TcAntispoof.v (bpf/antispoof.c
   antispoof_ingress as coded, after the loose-mode fix d9f017c) and Model/AntispoofMgr.v
   (pkg/antispoof/manager.go); the executable property monitor is Model/TcAntispoofSpec.v.
   Vocabulary: [eff_mode m mac] = the binding's mode if [mac] has a binding, else the configured default;
   [v4_frame f mac src] / [v6_frame f mac src] = f carries a complete Ethernet + IPv4 / IPv6 header, source MAC
   mac, source address src; bindings are RAW map values (bytes 0..3 IPv4 in network order, 4..19 IPv6,
   20/21 valid flags, 22 mode). *)
From Coq Require Import NArith List Lia.
From Verif Require Import Base.Word Model.TcQos Model.TcAntispoofC Model.TcAntispoof Model.AntispoofMgr Model.TcAntispoofSpec
  Proofs.TcAntispoofCProofs Proofs.TcAntispoofProofs.
Import ListNotations.
Local Open Scope N_scope.

(* ---- on raw bindings: all maps, all frames *)
Theorem C18_strict_iff_equal_v4 : forall m f mac src,
  v4_frame f mac src -> eff_mode m mac = MODE_STRICT ->
  (forwards m f <-> exists b, binding_of m mac = Some b /\ nthb b 20 <> 0 /\ src = firstn 4 b).
Proof. exact strict_iff_equal_v4. Qed.
Print Assumptions C18_strict_iff_equal_v4.

Theorem C18_strict_iff_equal_v6 : forall m f mac src,
  v6_frame f mac src -> eff_mode m mac = MODE_STRICT ->
  (forwards m f <-> exists b, binding_of m mac = Some b /\ nthb b 21 <> 0 /\ src = firstn 16 (skipn 4 b)).
Proof. exact strict_iff_equal_v6. Qed.
Print Assumptions C18_strict_iff_equal_v6.

(* log-only and disabled: every frame (any length, any ethertype, any content) is forwarded *)
Theorem C18_log_only_and_disabled_always_forward : forall m f mo, (mo = MODE_LOG_ONLY \/ mo = MODE_DISABLED) ->
  (forall mac, rd f 6 6 = Some mac -> eff_mode m mac = mo) -> forwards m f.
Proof. exact mode_forwards_all. Qed.
Print Assumptions C18_log_only_and_disabled_always_forward.

Theorem C18_non_ip_forwards : forall m f proto,
  rd f 12 2 = Some proto -> proto <> [8; 0] -> proto <> [134; 221] -> forwards m f.
Proof. exact non_ip_forwards. Qed.
Print Assumptions C18_non_ip_forwards.

Theorem C18_short_frame_forwards : forall m f, (length f < 14)%nat -> antispoof_prog m f = (ARet TC_ACT_OK, []).
Proof. exact short_frame_forwards. Qed.
Print Assumptions C18_short_frame_forwards.

Theorem C18_truncated_ipv4_forwards : forall m f, (length f < 34)%nat -> rd f 12 2 = Some [8; 0] -> forwards m f.
Proof. exact truncated_ip_forwards. Qed.
Print Assumptions C18_truncated_ipv4_forwards.

Theorem C18_truncated_ipv6_forwards : forall m f, (length f < 54)%nat -> rd f 12 2 = Some [134; 221] -> forwards m f.
Proof. exact truncated_ipv6_forwards. Qed.
Print Assumptions C18_truncated_ipv6_forwards.

Theorem C18_never_reads_outside_the_frame : forall m f, verdict_of m f <> AOob.
Proof. exact never_oob. Qed.
Print Assumptions C18_never_reads_outside_the_frame.

(* loose, IPv4: FULL after the fix (before it: refuted for every bound subscriber) *)
Theorem C18_loose_v4_iff_in_range : forall m f mac src,
  v4_frame f mac src -> eff_mode m mac = MODE_LOOSE -> (forwards m f <-> in_ranges (a_ranges m) src = true).
Proof. exact loose_v4_iff_in_range. Qed.
Print Assumptions C18_loose_v4_iff_in_range.

Theorem C18_in_ranges_meaning : forall rs ip, in_ranges rs ip = true <->
  exists plen d, In (plen, d) rs /\ plen <= 32 /\ bits_match (N.to_nat plen) d ip = true.
Proof. exact in_ranges_spec. Qed.
Print Assumptions C18_in_ranges_meaning.

(* loose, IPv6: there is no IPv6 range map, so no IPv6 source lies in an allowed range; the program forwards
   every unbound IPv6 sender — REFUTED; under the guard "bound and different" it drops *)
Theorem C18_loose_v6_refuted : ~ loose_v6_statement.
Proof. exact loose_v6_refuted. Qed.
Print Assumptions C18_loose_v6_refuted.

Theorem C18_loose_v6_partial : forall m f mac src b,
  v6_frame f mac src -> eff_mode m mac = MODE_LOOSE ->
  binding_of m mac = Some b -> nthb b 21 <> 0 -> src <> firstn 16 (skipn 4 b) -> drops m f.
Proof. exact loose_v6_partial. Qed.
Print Assumptions C18_loose_v6_partial.

(* ---- through the manager *)
Theorem C18_binding_takes_effect_refuted : ~ binding_takes_effect_statement.
Proof. exact binding_takes_effect_refuted. Qed.
Print Assumptions C18_binding_takes_effect_refuted.

Theorem C18_binding_admits_mirror_image :
  forwards (maps (after init [AddBinding mac1 [10;20;30;40]])) (v4_test_frame [40;30;20;10]).
Proof. exact binding_admits_mirror_image. Qed.
Print Assumptions C18_binding_admits_mirror_image.

(* guard: palindromic address (decidable: palin4) — from ANY prior manager state *)
Theorem C18_binding_takes_effect_partial : forall s mac ip f src,
  length mac = 6%nat -> length ip = 4%nat -> palin4 ip = true -> mgr_mode s = MODE_STRICT -> v4_frame f mac src ->
  (forwards (maps (after s [AddBinding mac ip])) f <-> src = ip).
Proof. exact binding_takes_effect_partial. Qed.
Print Assumptions C18_binding_takes_effect_partial.

Theorem C18_v6_binding_survives_refuted : ~ v6_binding_survives_statement.
Proof. exact v6_binding_survives_refuted. Qed.
Print Assumptions C18_v6_binding_survives_refuted.

(* guard: the IPv6 binding is added after the IPv4 one *)
Theorem C18_v6_binding_survives_partial : forall s mac ip4 ip6 f,
  length mac = 6%nat -> length ip4 = 4%nat -> length ip6 = 16%nat -> mgr_mode s = MODE_STRICT -> v6_frame f mac ip6 ->
  forwards (maps (after s [AddBinding mac ip4; AddBindingV6 mac ip6])) f.
Proof. exact v6_binding_survives_partial. Qed.
Print Assumptions C18_v6_binding_survives_partial.

(* ---- key and field derivations: the C expressions with the C type of every intermediate value
   (Model/TcAntispoofC.v) against the Go expressions of the manager, for ALL 2^48 MACs / all byte values *)
(* the key the program looks up (mac_to_u64 with its per-octet __u64 casts, 8 bytes in memory) is the key the
   manager writes (macToUint64, marshalled natively) - for every list, no side condition *)
Theorem C18_mac_key_c_equals_go : forall mac, mac_key mac = go_mac_key mac.
Proof. exact mac_key_c_equals_go. Qed.
Print Assumptions C18_mac_key_c_equals_go.

(* ... and it is the MAC as a 48-bit big-endian number in a little-endian u64 (the form the harness writes raw
   entries under) *)
Theorem C18_mac_key_is_mac48 : forall mac, length mac = 6%nat -> wf_bytes mac -> mac_key mac = rev mac ++ [0; 0].
Proof. exact mac_key_is_mac48. Qed.
Print Assumptions C18_mac_key_is_mac48.

Theorem C18_mac_key_injective : forall a b,
  length a = 6%nat -> length b = 6%nat -> wf_bytes a -> wf_bytes b -> mac_key a = mac_key b -> a = b.
Proof. exact mac_key_injective. Qed.
Print Assumptions C18_mac_key_injective.

(* the typed semantics is not vacuous: the same expression with int shifts (no per-octet cast) sign-extends when
   octet 2 has its top bit set and agrees otherwise *)
Example C18_int_shifts_would_sign_extend :
  c_mac_to_u64_int_shifts [2; 17; 162; 51; 68; 85] = 18446744072135853141 /\
  c_mac_to_u64 [2; 17; 162; 51; 68; 85] = 2274758968405 /\
  c_mac_to_u64_int_shifts [2; 17; 127; 51; 68; 85] = c_mac_to_u64 [2; 17; 127; 51; 68; 85].
Proof. exact int_shifts_sign_extend. Qed.

(* a binding written through the manager is found for frames from that MAC - every 6-byte MAC, any prior state *)
Theorem C18_binding_found_for_its_mac : forall s mac ip, length mac = 6%nat ->
  binding_of (maps (after s [AddBinding mac ip])) mac <> None /\
  binding_of (maps (after s [AddBindingV6 mac ip])) mac <> None.
Proof. exact add_binding_found_for_its_mac. Qed.
Print Assumptions C18_binding_found_for_its_mac.

(* ... and leaves what any other sender is judged against untouched *)
Theorem C18_binding_other_mac_untouched : forall s mac mac' ip,
  length mac = 6%nat -> length mac' = 6%nat -> wf_bytes mac -> wf_bytes mac' -> mac' <> mac ->
  binding_of (maps (after s [AddBinding mac ip])) mac' = binding_of (maps s) mac' /\
  binding_of (maps (after s [AddBindingV6 mac ip])) mac' = binding_of (maps s) mac'.
Proof. exact add_binding_other_mac_untouched. Qed.
Print Assumptions C18_binding_other_mac_untouched.

(* ---- all control-plane histories from the initial state *)
(* a removal takes effect exactly as written: afterwards the program finds no binding for that MAC and the default
   mode decides (the Model's map keeps one entry per key, like the kernel hash map - invariant over all histories) *)
Theorem C18_remove_binding_takes_effect : forall ops mac, length mac = 6%nat ->
  let s := after init ops in
  binding_of (maps (after s [RemoveBinding mac])) mac = None /\
  eff_mode (maps (after s [RemoveBinding mac])) mac = default_mode (maps s).
Proof. exact remove_binding_takes_effect. Qed.
Print Assumptions C18_remove_binding_takes_effect.

Theorem C18_remove_binding_other_mac_untouched : forall s mac mac',
  length mac = 6%nat -> length mac' = 6%nat -> wf_bytes mac -> wf_bytes mac' -> mac' <> mac ->
  binding_of (maps (after s [RemoveBinding mac])) mac' = binding_of (maps s) mac'.
Proof. exact remove_binding_other_mac_untouched. Qed.
Print Assumptions C18_remove_binding_other_mac_untouched.

(* strict IPv6 through the manager - FULL, after any history (every map value is a 24-byte struct: invariant) *)
Theorem C18_v6_binding_takes_effect : forall ops mac ip6 f src,
  length mac = 6%nat -> length ip6 = 16%nat -> mgr_mode (after init ops) = MODE_STRICT -> v6_frame f mac src ->
  (forwards (maps (after (after init ops) [AddBindingV6 mac ip6])) f <-> src = ip6).
Proof. exact v6_binding_takes_effect. Qed.
Print Assumptions C18_v6_binding_takes_effect.

(* strict IPv4 through the manager exactly as coded, every address (K18a in general): the admitted source is the
   byte-reversed address; C18_binding_takes_effect_partial is the palindromic corollary *)
Theorem C18_binding_effect_as_coded : forall s mac ip f src,
  length mac = 6%nat -> length ip = 4%nat -> mgr_mode s = MODE_STRICT -> v4_frame f mac src ->
  (forwards (maps (after s [AddBinding mac ip])) f <-> src = rev ip).
Proof. exact binding_effect_as_coded. Qed.
Print Assumptions C18_binding_effect_as_coded.

(* ---- modes through the manager *)
Theorem C18_set_mode_takes_effect : forall s m mac, binding_of (maps s) mac = None ->
  eff_mode (maps (after s [SetMode m])) mac = N.land m 255 /\ mgr_mode (after s [SetMode m]) = N.land m 255.
Proof. exact set_mode_takes_effect. Qed.
Print Assumptions C18_set_mode_takes_effect.

(* "in log-only mode it is always forwarded", through the control plane: any frame of any sender without a binding *)
Theorem C18_log_only_default_forwards_unbound : forall s f,
  (forall mac, rd f 6 6 = Some mac -> binding_of (maps s) mac = None) -> forwards (maps (after s [SetMode 3])) f.
Proof. exact log_only_default_forwards_unbound. Qed.
Print Assumptions C18_log_only_default_forwards_unbound.

(* the mode in force for a subscriber is the manager's mode when its binding was last written *)
Theorem C18_add_binding_mode : forall s mac ip, length mac = 6%nat ->
  eff_mode (maps (after s [AddBinding mac ip])) mac = mgr_mode s.
Proof. exact add_binding_mode. Qed.
Print Assumptions C18_add_binding_mode.

Theorem C18_add_binding_v6_mode : forall ops mac ip, length mac = 6%nat ->
  eff_mode (maps (after (after init ops) [AddBindingV6 mac ip])) mac = mgr_mode (after init ops).
Proof. exact add_binding_v6_mode. Qed.
Print Assumptions C18_add_binding_v6_mode.

(* the comparisons of the program, as C computes them (little-endian loads, integer promotion, the 16-round loop
   with early break, bpf_htons of a constant, the LPM key struct), are the byte-wise forms used by antispoof_prog *)
Theorem C18_c_ethertype_tests : forall p, length p = 2%nat -> wf_bytes p ->
  c_proto_is p 2048 = bytes_eqb p [8; 0] /\ c_proto_is p 34525 = bytes_eqb p [134; 221].
Proof. exact c_ethertype_tests. Qed.
Print Assumptions C18_c_ethertype_tests.

Theorem C18_c_saddr_compare : forall src bound,
  length src = 4%nat -> length bound = 4%nat -> wf_bytes src -> wf_bytes bound -> c_saddr_eq src bound = bytes_eqb src bound.
Proof. exact c_saddr_eq_bytes. Qed.
Print Assumptions C18_c_saddr_compare.

Theorem C18_c_ipv6_loop_compare : forall a b,
  length a = 16%nat -> length b = 16%nat -> wf_bytes a -> wf_bytes b -> c_ip6_eq a b = bytes_eqb a b.
Proof. exact c_ip6_eq_bytes. Qed.
Print Assumptions C18_c_ipv6_loop_compare.

Theorem C18_c_lpm_lookup_key : forall src, length src = 4%nat -> wf_bytes src -> c_lpm_lookup_key src = [32; 0; 0; 0] ++ src.
Proof. exact c_lpm_lookup_key_bytes. Qed.
Print Assumptions C18_c_lpm_lookup_key.

Example C18_high_octet_mac_found :
  wf_bytes mac_hi /\ length mac_hi = 6%nat /\
  mac_key mac_hi = [213; 196; 179; 162; 145; 130; 0; 0] /\
  forwards (maps (after init [AddBinding mac_hi [10;1;1;10]]))
           ([255;255;255;255;255;255] ++ mac_hi ++ [8;0] ++ [69;0;0;40;0;0;0;0;64;17;0;0] ++ [10;1;1;10] ++ [192;0;2;1]) /\
  drops (maps (after init [AddBinding mac_hi [10;1;1;10]]))
        ([255;255;255;255;255;255] ++ mac_hi ++ [8;0] ++ [69;0;0;40;0;0;0;0;64;17;0;0] ++ [10;1;1;11] ++ [192;0;2;1]).
Proof. exact add_binding_high_octets. Qed.

(* non-vacuity: the hypotheses are satisfiable by concrete frames and states *)
Example C18_frames_exist :
  v4_frame (v4_test_frame [10;1;1;10]) mac1 [10;1;1;10] /\ palin4 [10;1;1;10] = true /\
  v6_frame v6_test_frame [2;0;0;0;0;1] ip6_1 /\
  eff_mode (maps (after init [AddBinding mac1 [10;1;1;10]])) mac1 = MODE_STRICT /\
  forwards (maps (after init [AddBinding mac1 [10;1;1;10]])) (v4_test_frame [10;1;1;10]) /\
  drops (maps (after init [AddBinding mac1 [10;1;1;10]])) (v4_test_frame [10;1;1;11]).
Proof. repeat split; try reflexivity; cbn; lia. Qed.
