(* C15 — CoA and Disconnect requests are acted on only if authentic.
   Statements only; proofs are in Proofs/CoaProofs.v. Each theorem is closed by [exact] and followed
   by Print Assumptions.

   Subject: [coa_process fixed secret coa_set dm_set handler H stale dg] (Model/Coa.v), the outcome of
   one iteration of CoAServer.receiveLoop on the UDP datagram [dg]:
     Drop | Panic | Handle code called request response_bytes.
   [fixed = true] is the tree that exists (with the `Length < 20` check of finding K15a).
   Every theorem is for ALL digest functions H (MD5 in the code), all secrets, all handler behaviours,
   all contents of the reused receive buffer [stale], all byte strings [dg]. *)
From Coq Require Import NArith List.
From Verif Require Import Base.Word Model.Coa Model.CoaSpec Proofs.CoaProofs Proofs.CoaSoundProofs.
Import ListNotations.
Local Open Scope N_scope.

(* "complete RADIUS packet whose Request Authenticator verifies", as the code decides it
   (Model/CoaSpec.v, plain lists):
     s_complete dg   : >= 20 bytes received (a read takes at most 4096) and 20 <= Length <= received
     req_verifies    : bytes 4..19 = digest(bytes 0..3 ++ 0^16 ++ bytes 20..Length-1 ++ secret)
     attrs_parse     : the attribute area parses (type, length >= 2, value)*, a lone trailing byte ignored
     s_isreq         : Code is 40 (Disconnect-Request) or 43 (CoA-Request) *)
Definition C15_acted_on secret H dg : Prop :=
  s_complete dg = true /\ req_verifies secret H dg = true /\
  (exists attrs, attrs_parse (s_attrs dg) = POk attrs) /\ s_isreq dg = true.

(* (0) refinement: the Model of the code (checked slices over the 4096-byte buffer, offsets, loops)
   computes the reference semantics on plain lists — for every input *)
Theorem C15_model_is_reference : forall secret cs ds handler H stale dg,
  coa_process true secret cs ds handler H stale dg = coa_reference secret cs ds handler H dg.
Proof. exact model_is_reference. Qed.
Print Assumptions C15_model_is_reference.

(* (1) if and only if: a handler is dispatched and an ACK/NAK is sent exactly for complete, verifying,
   parseable CoA/Disconnect requests *)
Theorem C15_handle_iff : forall secret cs ds handler H stale dg,
  (exists c called req resp, coa_process true secret cs ds handler H stale dg = Handle c called req resp)
  <-> C15_acted_on secret H dg.
Proof. exact handle_iff. Qed.
Print Assumptions C15_handle_iff.

(* (2) every other datagram is dropped: no handler call, nothing sent *)
Theorem C15_otherwise_dropped : forall secret cs ds handler H stale dg,
  ~ C15_acted_on secret H dg -> coa_process true secret cs ds handler H stale dg = Drop.
Proof. exact otherwise_dropped. Qed.
Print Assumptions C15_otherwise_dropped.

(* (3) every response: request's identifier, ACK/NAK code of the request's kind, Response Authenticator
   = digest(resp[0..3] ++ request authenticator ++ resp attributes ++ secret), correct Length field;
   the request kind is the datagram's code and the handler is invoked iff one is installed *)
Theorem C15_response_verifies : forall secret cs ds handler H stale dg c called req resp,
  coa_process true secret cs ds handler H stale dg = Handle c called req resp ->
  c = s_code dg /\ (c = 40 \/ c = 43) /\
  called = (if c =? 43 then cs else ds) /\
  nth 1 resp 0 = nth 1 dg 0 /\
  (nth 0 resp 0 = c + 1 \/ nth 0 resp 0 = c + 2) /\
  firstn 16 (skipn 4 resp) = digest16 (H (s_respkey secret dg resp)) /\
  (N.of_nat (length resp) < 65536 -> s_len resp = length resp) /\
  (20 <= length resp)%nat.
Proof. exact response_props. Qed.
Print Assumptions C15_response_verifies.

(* (4) no datagram makes the listener panic (every slice expression and index of the loop body,
   verifyRequestAuthenticator and parseAttributes is a checked operation in the Model; the parse loop
   terminates within its fuel) *)
Theorem C15_no_panic : forall secret cs ds handler H stale dg,
  coa_process true secret cs ds handler H stale dg <> Panic.
Proof. exact no_panic. Qed.
Print Assumptions C15_no_panic.

(* (5) nothing left in the receive buffer by earlier datagrams influences the outcome *)
Theorem C15_stale_buffer_irrelevant : forall secret cs ds handler H s1 s2 dg,
  coa_process true secret cs ds handler H s1 dg = coa_process true secret cs ds handler H s2 dg.
Proof. exact stale_independent. Qed.
Print Assumptions C15_stale_buffer_irrelevant.

(* (6) Model ⊑ monitor: the trace monitor of Model/CoaSpec.v (the executable reading of the property text
   that also judges the real code's traces) accepts what the Model does with ANY datagram, when the
   observable "complete and verifies" is the true one. Guard: the response is shorter than 65536 bytes
   (a Reply-Message of > 65 KB would wrap the 16-bit Length field). *)
Theorem C15_monitor_accepts_model : forall secret cs ds handler H stale dg hr tbl fl ma,
  (forall c called req resp, coa_process true secret cs ds handler H stale dg = Handle c called req resp ->
                             N.of_nat (length resp) < 65536) ->
  let ss := {| s_secret := secret; s_coa_set := cs; s_dm_set := ds |} in
  accept (fun k => Some (H k)) ss
         {| o_dg := dg; o_hr := hr; o_authentic := andb (s_complete dg) (req_verifies secret H dg);
            o_tbl := tbl; o_md5 := fl; o_ma := ma |}
         (obs_of (coa_process true secret cs ds handler H stale dg)) = inl ss.
Proof. exact monitor_accepts_model. Qed.
Print Assumptions C15_monitor_accepts_model.

(* (8) The property stated on what is EMITTED, independently of the Model (Model/CoaSpec.v):
     resp_wire_ok H secret dg r : the datagram r that was sent, as a byte string with whatever attribute
       bytes it carries: id = request id, code = ACK/NAK of the request's code, Length field = datagram
       length, bytes 4..19 = digest(code, id, length, Request Authenticator of dg, attributes-as-sent, secret);
     C15_step_ok H secret cs ds dg calls resps : the property text for one delivered datagram and the
       handler calls / responses observed for it (only-if, if, at most one, every response verifies).
   The response the Model emits satisfies resp_wire_ok (guard: shorter than 65536 bytes). *)
Theorem C15_response_wire_verifies : forall secret cs ds handler H stale dg c called req resp,
  coa_process true secret cs ds handler H stale dg = Handle c called req resp ->
  N.of_nat (length resp) < 65536 -> resp_wire_ok H secret dg resp = true.
Proof. exact response_wire. Qed.
Print Assumptions C15_response_wire_verifies.

(* (9) soundness of the trace monitor: whatever handler calls and response BYTES are observed for a
   datagram (from the Model, from the real code, predicted by the Model or not), if the monitor accepts
   the step then the property holds for it, and the driver's verdict "authentic" is the true one *)
Theorem C15_monitor_sound : forall H ss o calls resps ss',
  accept (fun k => Some (H k)) ss o (OObs calls resps) = inl ss' ->
  ss' = ss /\ o_authentic o = s_authentic H (s_secret ss) (o_dg o) /\
  C15_step_ok H (s_secret ss) (s_coa_set ss) (s_dm_set ss) (o_dg o) calls resps.
Proof. exact monitor_sound. Qed.
Print Assumptions C15_monitor_sound.

(* the monitor's response clause is exactly the wire-level predicate *)
Theorem C15_monitor_response_clause : forall H secret dg r,
  resp_ok (fun k => Some (H k)) secret dg r = None <-> resp_wire_ok H secret dg r = true.
Proof. exact resp_ok_wire. Qed.
Print Assumptions C15_monitor_response_clause.

(* (10) whole histories. Every trace the monitor accepts satisfies the property at every step (a panic is
   never accepted); the Model run over ANY list of datagrams (receive buffer threaded through, handler
   behaviour arbitrary per datagram) is accepted, hence satisfies the property at every step.
   Guard of the last two: no response of 65536 bytes or more (16-bit Length field). *)
Theorem C15_accepted_trace_satisfies_property : forall secret cs ds H tr,
  accept_list (fun k => Some (H k)) {| s_secret := secret; s_coa_set := cs; s_dm_set := ds |} tr = true ->
  Forall (fun x => match snd x with
                   | OObs calls resps => C15_step_ok H secret cs ds (o_dg (fst x)) calls resps
                   | _ => False
                   end) tr.
Proof. exact accepted_trace_sound. Qed.
Print Assumptions C15_accepted_trace_satisfies_property.

Theorem C15_monitor_accepts_model_history : forall secret cs ds H h,
  short_responses secret cs ds H h ->
  forall stale, accept_list (fun k => Some (H k)) {| s_secret := secret; s_coa_set := cs; s_dm_set := ds |}
                            (model_run secret cs ds H stale h) = true.
Proof. exact monitor_accepts_model_run. Qed.
Print Assumptions C15_monitor_accepts_model_history.

Theorem C15_model_history_satisfies_property : forall secret cs ds H h stale,
  short_responses secret cs ds H h ->
  Forall (fun x => match snd x with
                   | OObs calls resps => C15_step_ok H secret cs ds (o_dg (fst x)) calls resps
                   | _ => False
                   end) (model_run secret cs ds H stale h).
Proof. exact model_run_sound. Qed.
Print Assumptions C15_model_history_satisfies_property.

(* strict attribute tiling (the monitor's "well-formed") implies the code's parser succeeds *)
Theorem C15_wellformed_attributes_parse : forall dg, s_wf dg = true -> exists a, attrs_parse (s_attrs dg) = POk a.
Proof. exact wellformed_attributes_parse. Qed.
Print Assumptions C15_wellformed_attributes_parse.

(* (7) the tree before the fix (finding K15a, commit ce0927a): no_panic is refuted, exactly for
   datagrams of >= 20 bytes whose Length field is below 20; elsewhere the fix changes nothing *)
Theorem C15_no_panic_before_fix_refuted : exists dg, forall secret cs ds handler H stale,
  coa_process false secret cs ds handler H stale dg = Panic.
Proof. exists k15a_witness. exact unfixed_panics_on_witness. Qed.
Print Assumptions C15_no_panic_before_fix_refuted.

Theorem C15_before_fix_panic_iff : forall secret cs ds handler H stale dg,
  coa_process false secret cs ds handler H stale dg = Panic <-> unfixed_panics dg = true.
Proof. exact unfixed_panic_iff. Qed.
Print Assumptions C15_before_fix_panic_iff.

Theorem C15_before_fix_partial : forall secret cs ds handler H stale dg,
  unfixed_panics dg = false ->
  coa_process false secret cs ds handler H stale dg = coa_process true secret cs ds handler H stale dg.
Proof. exact unfixed_same_when_length_ok. Qed.
Print Assumptions C15_before_fix_partial.

(* non-vacuity: both sides of (1)/(2) are inhabited (constant digests; secret "s") *)
Example C15_acted_on_satisfiable : C15_acted_on [115] (fun _ => []) ex_dg.
Proof. exact ex_acted_on. Qed.
Example C15_not_acted_on_satisfiable : ~ C15_acted_on [115] (fun _ => [1]) ex_dg.
Proof. exact ex_not_acted_on. Qed.
(* the guard of (10) is satisfiable by a history with an acted-on datagram, and C15_step_ok is not
   trivially true: silence on an authentic well-formed request violates it *)
Example C15_short_responses_satisfiable :
  short_responses [115] true true (fun _ => []) [(ex_dg, fun _ _ => dm_default); (ex_dg, fun _ _ => coa_default)].
Proof. exact ex_short_responses. Qed.
Example C15_step_ok_excludes_silence : ~ C15_step_ok (fun _ => []) [115] true true ex_dg [] [].
Proof. exact ex_silence_not_ok. Qed.
Example C15_wire_rejects_unverifiable_response :
  resp_wire_ok (fun _ => []) [115] ex_dg ex_bad_resp = false /\ resp_wire_ok (fun _ => []) [115] ex_dg ex_good_resp = true.
Proof. exact ex_wire. Qed.
