(* C15 — CoA and Disconnect requests are acted on only if authentic. Statements only. *)
From Coq Require Import NArith List.
From Verif Require Import Base.Word Model.Coa Model.CoaSpec Proofs.CoaProofs.
Import ListNotations.
Local Open Scope N_scope.

Theorem C15_short_datagram_dropped : forall fixed secret cs ds handler H stale dg,
  (length dg < 20)%nat -> coa_process fixed secret cs ds handler H stale dg = Drop.
Proof. exact short_datagram_dropped. Qed.
Print Assumptions C15_short_datagram_dropped.
