(* C06 - userspace and eBPF programs agree on every map layout and key encoding.
   Statements only; proofs are in Proofs/LayoutProofs.v and Proofs/LayoutEncProofs.v.  Each theorem is closed by [exact] and followed by
   Print Assumptions.  Gen/Layouts.v is REGENERATED from the working tree by checks/C06.py before this file is
   compiled: the subject of C06_generated_pairs_ok and its corollaries is the current declarations. *)
From Coq Require Import NArith List Bool String.
From Verif Require Import Base.Word Model.Layout Model.KeyDeriv Model.LayoutEnc Model.LayoutCheck Gen.Layouts Proofs.LayoutProofs Proofs.LayoutEncProofs.
Import ListNotations.
Local Open Scope N_scope.

(* ---------------------------------------------------------------- (A) layouts, once and for all *)
(* write direction: for every pair that passes the decidable check and every tuple of member values within the
   member widths, the bytes Go marshals decode, at the offsets and widths of the C declaration, to those values *)
Theorem C06_write_roundtrip : forall p, layout_ok p = true ->
  forall vs, fits (pgo p) vs -> decode_c (pc p) (encode_go (pgo p) vs) = vs.
Proof. exact layout_ok_write. Qed.
Print Assumptions C06_write_roundtrip.

(* ... and they are exactly as many bytes as the map declares *)
Theorem C06_write_size : forall p, layout_ok p = true ->
  forall vs, fits (pgo p) vs -> List.length (encode_go (pgo p) vs) = pdecl p.
Proof. exact layout_ok_size. Qed.
Print Assumptions C06_write_size.

(* read-back direction: on EVERY byte string the Go reader and the C member reads yield the same member values *)
Theorem C06_read_agree : forall p, layout_ok p = true -> forall bs, decode_go (pgo p) bs = decode_c (pc p) bs.
Proof. exact layout_ok_read. Qed.
Print Assumptions C06_read_agree.

(* records (ring buffer / perf event samples, read as a prefix) *)
Theorem C06_record_read_agree : forall g c, fields_ok g c = true -> forall bs, decode_go g bs = decode_c c bs.
Proof. exact fields_ok_read. Qed.
Print Assumptions C06_record_read_agree.

(* non-vacuity: a pair with padding on both sides, an array member and a nested name passes the check and carries
   non-trivial values *)
Definition ex_pair : pair :=
  MkPair "example"
    [F "Tokens" 0 8 1 false; F "Mac" 8 1 6 false; F "_" 14 1 2 true; F "Block.NextPort" 16 4 1 false]
    [F "tokens" 0 8 1 false; F "mac" 8 1 6 false; F "_pad" 14 1 2 true; F "block.next_port" 16 4 1 false]
    20 20 false false true.
Example C06_guard_satisfiable :
  layout_ok ex_pair = true /\ fits (pgo ex_pair) [[18446744073709551615]; [1; 2; 3; 4; 5; 255]; [4294967295]] /\
  decode_c (pc ex_pair) (encode_go (pgo ex_pair) [[18446744073709551615]; [1; 2; 3; 4; 5; 255]; [4294967295]])
    = [[18446744073709551615]; [1; 2; 3; 4; 5; 255]; [4294967295]].
Proof. split; [vm_compute; reflexivity|]. split; [apply fitsb_fits; vm_compute; reflexivity|vm_compute; reflexivity]. Qed.

(* the check is not a rubber stamp: a widened member, a swapped pair of equally wide members and a per-CPU value
   read into a single struct are all refused *)
Example C06_check_refuses :
  layout_ok (MkPair "w" [F "A" 0 2 1 false; F "B" 2 2 1 false] [F "a" 0 4 1 false; F "b" 4 4 1 false] 8 8 false false true) = false /\
  layout_ok (MkPair "s" [F "A" 0 4 1 false; F "B" 4 4 1 false] [F "b" 0 4 1 false; F "a" 4 4 1 false] 8 8 false false true) = false /\
  layout_ok (MkPair "p" [F "A" 0 8 1 false] [F "a" 0 8 1 false] 8 8 true false true) = false.
Proof. vm_compute. repeat split; reflexivity. Qed.

(* ---------------------------------------------------------------- (B) the regenerated declarations *)
(* finite obligation, decided by computation: every (Go type, C type, map) triple the translator found in the
   working tree passes the check (record pairs: the prefix rule) *)
Theorem C06_generated_pairs_ok : all_pairs_ok all_pairs = true.
Proof. vm_compute. reflexivity. Qed.
Print Assumptions C06_generated_pairs_ok.

Theorem C06_generated_pairs_write : forall p, In p all_pairs -> is_record p = false ->
  forall vs, fits (pgo p) vs ->
    decode_c (pc p) (encode_go (pgo p) vs) = vs /\ List.length (encode_go (pgo p) vs) = pdecl p.
Proof.
  exact (fun p Hin Hr vs Hf =>
    let H := all_pairs_ok_in all_pairs p C06_generated_pairs_ok Hin Hr in
    conj (layout_ok_write p H vs Hf) (layout_ok_size p H vs Hf)).
Qed.
Print Assumptions C06_generated_pairs_write.

Theorem C06_generated_pairs_read : forall p, In p all_pairs -> is_record p = false ->
  forall bs, decode_go (pgo p) bs = decode_c (pc p) bs.
Proof. exact (fun p Hin Hr => layout_ok_read p (all_pairs_ok_in all_pairs p C06_generated_pairs_ok Hin Hr)). Qed.
Print Assumptions C06_generated_pairs_read.

(* ---------------------------------------------------------------- (C) Model against the monitor *)
Theorem C06_model_put_accepted : forall p vs, layout_ok p = true -> fits (pgo p) vs ->
  accept tt (OPut false p vs) (snd (fst (step tt (OPut false p vs)))) = inl tt.
Proof. exact model_put_accepted. Qed.
Print Assumptions C06_model_put_accepted.

Theorem C06_model_get_accepted : forall p bs, layout_ok p = true ->
  accept tt (OGet false p bs) (snd (fst (step tt (OGet false p bs)))) = inl tt.
Proof. exact model_get_accepted. Qed.
Print Assumptions C06_model_get_accepted.

Theorem C06_bad_pair_rejected : forall p vs r, layout_ok p = false -> accept tt (OPut false p vs) r = inr CL_WRITE.
Proof. exact bad_pair_rejected. Qed.
Print Assumptions C06_bad_pair_rejected.

(* ---------------------------------------------------------------- (D) key derivations *)
(* MAC -> 64-bit.  6-byte MACs (the only length antispoof accepts, and what Ethernet carries): both Go helpers against
   both C helpers and the closed form *)
Theorem C06_mac_key_agree_len6 : forall mac, wf_bytes_n 6 mac ->
  go_mac_key_ebpf mac = c_mac_key_dhcp mac /\ go_mac_key_antispoof mac = c_mac_key_antispoof mac /\
  go_mac_key_ebpf mac = spec_mac_key mac /\ go_mac_key_antispoof mac = spec_mac_key mac.
Proof. exact mac_key_agree. Qed.
Print Assumptions C06_mac_key_agree_len6.

(* DHCP hardware addresses of ANY length >= 6 (hlen 6..16, e.g. EUI-64): ebpf.MACToUint64 uses the first six bytes,
   as the program does with chaddr.  Guard [mac_len_guard] = 6 <= len, the one the driver steers with. *)
Theorem C06_mac_key_agree_partial : forall mac, (6 <= List.length mac)%nat -> Forall (fun b => b < 256) mac ->
  go_mac_key_ebpf mac = c_mac_key_dhcp_chaddr mac /\ go_mac_key_ebpf mac = spec_mac_key (firstn 6 mac).
Proof. exact mac_key_agree_ge6. Qed.
Print Assumptions C06_mac_key_agree_partial.
Example C06_mac_guard_satisfiable : mac_len_guard [2; 0; 94; 16; 0; 0; 0; 1] = true /\
  go_mac_key_ebpf [2; 0; 94; 16; 0; 0; 0; 1] = [0; 0; 16; 94; 0; 2; 0; 0].
Proof. vm_compute. split; reflexivity. Qed.

(* below six bytes the Go helper returns 0 whatever the address (pinned by loader_test.go), the program still reads
   chaddr[0..5]: refuted (hlen 1, address 01) *)
Theorem C06_mac_key_short_is_zero : forall mac, (List.length mac < 6)%nat -> go_mac_key_ebpf mac = zeros 8.
Proof. exact mac_key_short_zero. Qed.
Print Assumptions C06_mac_key_short_is_zero.
Theorem C06_mac_key_agree_refuted :
  ~ (forall mac, (List.length mac <= 16)%nat -> Forall (fun b => b < 256) mac -> go_mac_key_ebpf mac = c_mac_key_dhcp_chaddr mac).
Proof. exact mac_key_short_refuted. Qed.
Print Assumptions C06_mac_key_agree_refuted.
(* antispoof.AddBinding writes a key only for 6-byte MACs *)
Theorem C06_antispoof_add_only_len6 : forall mac, (List.length mac <> 6)%nat -> go_mac_antispoof_add mac = None.
Proof. exact antispoof_add_only_len6. Qed.
Print Assumptions C06_antispoof_add_only_len6.

(* VLAN pair: full, for every pair of 12-bit ids and every priority/DEI bits carried in the two tags *)
Theorem C06_vlan_key_agree : forall s c p1 p2, s < 4096 -> c < 4096 ->
  c_vlan_key (p1 * 4096 + s) (p2 * 4096 + c) = go_vlan_key s c.
Proof. exact vlan_key_agree. Qed.
Print Assumptions C06_vlan_key_agree.

(* ALG port key: full *)
Theorem C06_alg_key_agree : forall port proto, port < 65536 -> proto < 256 ->
  go_alg_key port proto = c_alg_key port proto /\ alg_u32 port proto = port * 65536 + proto.
Proof. exact alg_key_agree. Qed.
Print Assumptions C06_alg_key_agree.

(* circuit-id: agreement for lengths 1..32 (guard [cid_guard], the one the driver steers with) ... *)
Theorem C06_circuit_key_agree_partial : forall cid, cid_guard cid = true -> c_cid_key cid = Some (go_cid_key cid).
Proof. exact circuit_key_agree_partial. Qed.
Print Assumptions C06_circuit_key_agree_partial.
Example C06_circuit_guard_satisfiable : cid_guard [101; 116; 104; 32; 48; 47; 49] = true /\ cid_guard (repeat 7 32) = true.
Proof. vm_compute. split; reflexivity. Qed.

(* ... refuted beyond: Go writes the truncated key, the C derives none (for EVERY longer id) *)
Theorem C06_circuit_key_agree_refuted : ~ (forall cid, cid <> [] -> c_cid_key cid = Some (go_cid_key cid)).
Proof. exact circuit_key_agree_refuted. Qed.
Print Assumptions C06_circuit_key_agree_refuted.
Theorem C06_circuit_key_long_no_c_key : forall cid, (CID_LEN < List.length cid)%nat ->
  c_cid_key cid = None /\ go_cid_key cid = firstn CID_LEN cid.
Proof. exact circuit_key_long_no_c_key. Qed.
Print Assumptions C06_circuit_key_long_no_c_key.

(* the extraction as coded (Model c_extract_cid: branch 1 = option 82 at options offset 3, branch 2 = scan of offsets
   12..19): whenever a circuit-id of 1..32 bytes sits where either branch looks, in the sub-option layout the program
   expects, the key it extracts is the key MakeCircuitIDKey writes *)
Theorem C06_circuit_extract_branch1_agree : forall opts avail cid,
  (64 <= avail)%nat -> ob opts 3 = 82 -> 4 <= ob opts 4 -> (5 + N.to_nat (ob opts 4) <= avail)%nat -> ob opts 5 = 1 ->
  ob opts 6 = N.of_nat (List.length cid) -> cid_guard cid = true -> (7 + List.length cid <= avail)%nat -> embedded opts 7 cid ->
  c_extract_cid opts avail = Some (go_cid_key cid).
Proof. exact extract_branch1_agree. Qed.
Print Assumptions C06_circuit_extract_branch1_agree.
Theorem C06_circuit_extract_branch2_agree : forall opts avail p cid,
  In p scan_positions -> (64 <= avail)%nat -> ob opts 3 <> 82 ->
  (forall q, In q scan_positions -> (q < p)%nat -> ob opts q <> 82) ->
  ob opts p = 82 -> (p + 8 <= avail)%nat -> 4 <= ob opts (p + 1) -> ob opts (p + 2) = 1 ->
  ob opts (p + 3) = N.of_nat (List.length cid) -> cid_guard cid = true -> (p + 4 + List.length cid <= avail)%nat ->
  embedded opts (p + 4) cid -> c_extract_cid opts avail = Some (go_cid_key cid).
Proof. exact extract_branch2_agree. Qed.
Print Assumptions C06_circuit_extract_branch2_agree.
Example C06_circuit_extract_satisfiable :
  c_extract_cid [53; 1; 1; 82; 9; 1; 3; 97; 98; 99; 2; 2; 114; 114; 255] 312 = Some (go_cid_key [97; 98; 99]) /\
  c_extract_cid [53; 1; 1; 61; 7; 1; 170; 170; 170; 170; 170; 170; 82; 9; 1; 3; 97; 98; 99; 2; 2; 114; 114; 255] 312 = Some (go_cid_key [97; 98; 99]).
Proof. vm_compute. split; reflexivity. Qed.
(* the hypothesis 4 <= option length is needed: an option 82 holding only a one-byte circuit-id is skipped *)
Theorem C06_circuit_extract_short_option_refuted :
  cid_guard [65] = true /\ c_extract_cid [53; 1; 1; 82; 3; 1; 1; 65; 255] 312 = None /\ go_cid_key [65] <> zeros 32.
Proof. exact extract_short_option_refuted. Qed.
Print Assumptions C06_circuit_extract_short_option_refuted.

(* IPv4 -> 32-bit: every Go helper leaves the address byte-reversed in the map (full statement of the defect) ... *)
Theorem C06_ipv4_go_bytes_reversed : forall ip, wf_bytes_n 4 ip -> go_ip_bytes ip = rev ip /\ go_ip_bytes_qos ip = rev ip.
Proof. exact (fun ip H => conj (go_ip_bytes_reversed ip H) (go_ip_bytes_qos_reversed ip H)). Qed.
Print Assumptions C06_ipv4_go_bytes_reversed.
(* ... so agreement with the raw network-order word the C reads holds exactly for byte palindromes *)
Theorem C06_ipv4_key_agree_iff : forall ip, wf_bytes_n 4 ip -> (go_ip_bytes ip = c_ip_bytes ip <-> ip_palin ip = true).
Proof. exact ipv4_key_agree_iff. Qed.
Print Assumptions C06_ipv4_key_agree_iff.
Theorem C06_ipv4_key_agree_partial : forall ip, wf_bytes_n 4 ip -> ip_palin ip = true ->
  go_ip_bytes ip = c_ip_bytes ip /\ go_ip_bytes_qos ip = c_ip_bytes ip.
Proof. exact ipv4_key_agree_partial. Qed.
Print Assumptions C06_ipv4_key_agree_partial.
Example C06_ipv4_guard_satisfiable : wf_bytes_n 4 [10; 7; 7; 10] /\ ip_palin [10; 7; 7; 10] = true.
Proof. split; [split; [reflexivity|repeat constructor; vm_compute; reflexivity]|reflexivity]. Qed.
Theorem C06_ipv4_key_agree_refuted :
  ~ (forall ip, wf_bytes_n 4 ip -> go_ip_bytes ip = c_ip_bytes ip) /\
  ~ (forall ip, wf_bytes_n 4 ip -> go_ip_bytes_qos ip = c_ip_bytes ip).
Proof. exact ipv4_key_agree_refuted. Qed.
Print Assumptions C06_ipv4_key_agree_refuted.

(* LPM key of the loose-mode ranges: an address inside the configured prefix is not matched *)
Theorem C06_lpm_key_agree_refuted :
  exists plen net src, wf_bytes_n 4 net /\ wf_bytes_n 4 src /\ in_prefix plen net src = true /\
    lpm_entry_matches (go_lpm_key plen net) (c_lpm_lookup src) = false.
Proof. exact lpm_key_agree_refuted. Qed.
Print Assumptions C06_lpm_key_agree_refuted.
Theorem C06_lpm_key_agree_partial : forall plen net src, plen <= 32 -> wf_bytes_n 4 net -> ip_palin net = true ->
  lpm_entry_matches (go_lpm_key plen net) (c_lpm_lookup src) = in_prefix plen net src.
Proof. exact lpm_key_agree_partial. Qed.
Print Assumptions C06_lpm_key_agree_partial.

(* ---------------------------------------------------------------- (C) meaning-level encoding of value members *)
(* The two families by which Go derives the stored elements of an address / MAC member from the wire bytes of the
   value it means.  Native (copy of the bytes, or NativeEndian words): for EVERY element width w and count k the
   marshalled member is the wire bytes - what a program that compares raw memory with packet bytes needs. *)
Theorem C06_enc_native_agree : forall w k bs, List.length bs = (w * k)%nat -> Forall (fun b => b < 256) bs ->
  marshal w (words_ne w k bs) = c_net_bytes bs.
Proof. exact marshal_words_ne_exact. Qed.
Print Assumptions C06_enc_native_agree.
(* BigEndian idiom (binary.BigEndian.UintN per group, the IPv4Addr idiom): every group of w bytes lands reversed ... *)
Theorem C06_enc_bigendian_groups_reversed : forall w k bs, (w * k <= List.length bs)%nat -> Forall (fun b => b < 256) bs ->
  marshal w (words_be w k bs) = flat_map (@rev N) (chunks w k bs).
Proof. exact marshal_words_be. Qed.
Print Assumptions C06_enc_bigendian_groups_reversed.
(* ... so it agrees with the wire bytes exactly when every group is a byte palindrome (w = 1: always) *)
Theorem C06_enc_bigendian_agree_iff : forall w k bs, List.length bs = (w * k)%nat -> Forall (fun b => b < 256) bs ->
  (marshal w (words_be w k bs) = c_net_bytes bs <-> group_palin w k bs = true).
Proof. exact marshal_words_be_agree_iff. Qed.
Print Assumptions C06_enc_bigendian_agree_iff.
Theorem C06_ipv4_is_bigendian_family : forall ip, wf_bytes_n 4 ip -> go_ip_bytes ip = marshal 4 (words_be 4 1 ip).
Proof. exact go_ip_bytes_words_be. Qed.
Print Assumptions C06_ipv4_is_bigendian_family.

(* IPv6 source binding (subscriber_binding.ipv6_addr, 16 x u8 on both sides, AddBindingV6 copies the bytes): full *)
Theorem C06_ipv6_member_agree : forall ip6, wf_bytes_n 16 ip6 -> go_ip6_member ip6 = c_ip6_member ip6.
Proof. exact ip6_member_agree. Qed.
Print Assumptions C06_ipv6_member_agree.
Example C06_ipv6_guard_satisfiable : wf_bytes_n 16 ip6_doc /\ go_ip6_member ip6_doc = ip6_doc.
Proof. split; [exact ip6_doc_wf|vm_compute; reflexivity]. Qed.
(* the same 16 bytes declared as four 32-bit words and filled with the BigEndian idiom: same size, offsets and widths on
   both sides, but agreement only for addresses whose four groups are palindromes; refuted in general *)
Theorem C06_ipv6_member_words_be_iff : forall ip6, wf_bytes_n 16 ip6 ->
  (go_ip6_member_be32 ip6 = c_ip6_member ip6 <-> group_palin 4 4 ip6 = true).
Proof. exact ip6_member_be32_agree_iff. Qed.
Print Assumptions C06_ipv6_member_words_be_iff.
Theorem C06_ipv6_member_words_be_refuted : ~ (forall ip6, wf_bytes_n 16 ip6 -> go_ip6_member_be32 ip6 = c_ip6_member ip6).
Proof. exact ip6_member_be32_refuted. Qed.
Print Assumptions C06_ipv6_member_words_be_refuted.

(* server MAC (dhcp_server_config.server_mac, SetServerConfig copies mac[:6]): every hardware address of six or more bytes *)
Theorem C06_mac_member_agree : forall mac, (6 <= List.length mac)%nat -> Forall (fun b => b < 256) mac ->
  go_mac_member mac = c_mac_member mac.
Proof. exact mac_member_agree. Qed.
Print Assumptions C06_mac_member_agree.

(* 16-bit ports: a member the program does arithmetic on (bpf_htons at use) agrees for every port; a member the program
   fills from / compares with the raw L4 header word (nat_key.src_port / dst_port) agrees iff the two bytes are equal *)
Theorem C06_port_host_agree : forall p, go_port_member p = c_port_host p.
Proof. exact port_host_agree. Qed.
Print Assumptions C06_port_host_agree.
Theorem C06_port_net_agree_iff : forall p, p < 65536 -> (go_port_member p = c_port_net p <-> port_palin p = true).
Proof. exact port_net_agree_iff. Qed.
Print Assumptions C06_port_net_agree_iff.
Theorem C06_port_net_agree_refuted : ~ (forall p, p < 65536 -> go_port_member p = c_port_net p).
Proof. exact port_net_refuted. Qed.
Print Assumptions C06_port_net_agree_refuted.
Example C06_port_guard_satisfiable : 13621 < 65536 /\ port_palin 13621 = true /\ go_port_member 13621 = c_port_net 13621.
Proof. repeat split. Qed.

(* Model inside the monitor; a member that does not hold the wire bytes is rejected whatever the program did *)
Theorem C06_model_val_accepted : forall ip6 mac, wf_bytes_n 16 ip6 -> (6 <= List.length mac)%nat -> Forall (fun b => b < 256) mac ->
  accept tt (OVal 1 ip6) (snd (fst (step tt (OVal 1 ip6)))) = inl tt /\
  accept tt (OVal 2 mac) (snd (fst (step tt (OVal 2 mac)))) = inl tt.
Proof. exact (fun ip6 mac H6 Hl Hw => conj (model_val6_accepted ip6 H6) (model_valmac_accepted mac Hl Hw)). Qed.
Print Assumptions C06_model_val_accepted.
Theorem C06_val_wrong_bytes_rejected : forall fam v bs h,
  l_eqb bs (if (fam =? 1) then c_ip6_member v else c_mac_member v) = false -> accept tt (OVal fam v) [bs; [h]] = inr CL_VAL.
Proof. exact val_wrong_bytes_rejected. Qed.
Print Assumptions C06_val_wrong_bytes_rejected.

(* the usage table covers every regenerated member, and every member it classifies as network-order bytes still has the
   element width / count the classification was established for (finite; recomputed on the regenerated list) *)
Theorem C06_generated_members_encoding_established : enc_table_ok all_pairs = true.
Proof. vm_compute. reflexivity. Qed.
Print Assumptions C06_generated_members_encoding_established.
