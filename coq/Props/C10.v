(* C10 -- CGNAT port blocks never overlap and are always attributable.
   Statements only; proofs are in Proofs/NatProofs.v.  Subject: Model/Nat.v, the model of
   pkg/nat/manager.go + the allocation records of pkg/nat/logging.go as they are after the three
   repairs listed in known_findings/C10.json (lowest free block, re-check under the pool lock,
   duplicate public IP rejected).

   [hist c m ops] is the Manager state after the operation list [ops] (AddPublicIP / AllocateNAT /
   DeallocateNAT / GetAllocation / stats, in any order and number) from NewManager with effective
   configuration [c] and log mode [m].  The operation alphabet includes AllocateNAT / DeallocateNAT
   with FAULT ORACLES ([AllocF priv fm fl], [DeallocF priv fm fl]: fm = the subscriber_nat map call
   of this operation fails, fl = the log writer fails while its record is written), so "every
   operation list" means: every history under every pattern of failing map calls and log writes.  All theorems quantify over every [ops] and every
   configuration in the guard [cfg_ok c] := 1 <= pps /\ 0 <= start <= end <= 65535
   (decidable: [cfg_okb]); what happens outside the guard is shown by the _refuted theorems. *)
From Coq Require Import ZArith List.
From Verif Require Import Base.Check Model.Nat Model.NatSpec Model.NatK Model.NatKSpec Model.PktMonad Model.TcNatPkt Proofs.NatProofs Proofs.NatKProofs Proofs.NatDpProofs.
Import ListNotations.
Local Open Scope Z_scope.

(* (1) no two subscribers hold overlapping port ranges on the same public address *)
Theorem C10_no_overlap : forall c m ops a b, cfg_ok c ->
  In a (s_allocs (hist c m ops)) -> In b (s_allocs (hist c m ops)) ->
  a_priv a <> a_priv b -> a_pub a = a_pub b -> a_end a < a_start b \/ a_end b < a_start a.
Proof. exact c10_no_overlap. Qed.
Print Assumptions C10_no_overlap.

(* (2) every block lies inside the configured port range (and inside 16 bits) ... *)
Theorem C10_in_range : forall c m ops a, cfg_ok c -> In a (s_allocs (hist c m ops)) ->
  c_start c <= a_start a /\ a_start a <= a_end a /\ a_end a <= c_end c /\ a_end a <= 65535.
Proof. exact c10_in_range. Qed.
Print Assumptions C10_in_range.

(* (3) ... with the configured size (also when the size does not divide the range) *)
Theorem C10_block_size : forall c m ops a, cfg_ok c -> In a (s_allocs (hist c m ops)) ->
  a_end a - a_start a + 1 = c_pps c.
Proof. exact c10_block_size. Qed.
Print Assumptions C10_block_size.

(* (4) a subscriber keeps the same block until it is released: whatever happens after [ops1]
   short of DeallocateNAT for that private IP, the table entry is the same and both
   AllocateNAT and GetAllocation answer with it; at most one entry per subscriber; a release
   removes it *)
Theorem C10_stable : forall c m ops1 ops2 priv a,
  find_alloc priv (s_allocs (hist c m ops1)) = Some a ->
  Forall (fun o => releases o priv = false) ops2 ->   (* no DeallocateNAT for priv, faulted or not *)
  find_alloc priv (s_allocs (hist c m (ops1 ++ ops2))) = Some a /\
  result (hist c m (ops1 ++ ops2)) (Alloc priv) = RAlloc (view a) /\
  result (hist c m (ops1 ++ ops2)) (Get priv) = RGet (Some (view a)).
Proof. exact c10_stable. Qed.
Print Assumptions C10_stable.

Theorem C10_one_block_per_subscriber : forall c m ops, NoDup (map a_priv (s_allocs (hist c m ops))).
Proof. exact c10_one_block_per_subscriber. Qed.
Print Assumptions C10_one_block_per_subscriber.

Theorem C10_released : forall c m ops priv fl,
  find_alloc priv (s_allocs (hist c m (ops ++ [DeallocF priv false fl]))) = None.
Proof. exact c10_released. Qed.
Print Assumptions C10_released.

(* (4') failed calls leave nothing behind.  A release whose subscriber_nat delete fails is refused:
   the table is as before (the subscriber keeps the block, after the repair K10f).  An allocation
   whose subscriber_nat update fails reserves nothing: table, pool bookkeeping and log are as before
   (only the subscriber id stays registered) -- the state the seeded change C10-b2 broke. *)
Theorem C10_refused_release_keeps_block : forall c m ops priv fl,
  s_allocs (hist c m (ops ++ [DeallocF priv true fl])) = s_allocs (hist c m ops).
Proof. exact c10_refused_release_keeps. Qed.
Print Assumptions C10_refused_release_keeps_block.

Theorem C10_failed_alloc_reserves_nothing : forall c m ops priv fl,
  find_alloc priv (s_allocs (hist c m ops)) = None ->
  let s' := hist c m (ops ++ [AllocF priv true fl]) in
  s_allocs s' = s_allocs (hist c m ops) /\ s_pool s' = s_pool (hist c m ops) /\ s_log s' = s_log (hist c m ops).
Proof. exact c10_failed_alloc_reserves_nothing. Qed.
Print Assumptions C10_failed_alloc_reserves_nothing.

(* (5) attribution.  [attribute bs log ip port t] (Model/NatSpec.v) reads the log alone: records
   stamped <= t, assign adds a block, release removes it, then the blocks covering (ip, port).
   Bulk (RFC 6908) records: for every history, every time t, every (ip, port) and whatever block
   size the reader assumes, the answer is exactly the holders in the table as it was after the
   first t operations -- every allocation and release is in the log, nothing else is. *)
(* Guard [all_lossless ops]: no operation of the history has the log-writer fault (decidable:
   [lossless]); map-call faults are unrestricted.  Partial + refuted: when the writer fails the record
   is lost and the code carries on (known finding K10e). *)
Theorem C10_attributable_bulk_partial : forall c ops bs ip port t, all_lossless ops -> 0 <= t ->
  attribute bs (s_log (hist c LogBulk ops)) ip port t =
  holders (hist c LogBulk (firstn (Z.to_nat t) ops)) ip port.
Proof. exact c10_attributable_bulk. Qed.
Print Assumptions C10_attributable_bulk_partial.

Theorem C10_attributable_bulk_refuted :
  ~ (forall c ops bs ip port t, 0 <= t ->
       attribute bs (s_log (hist c LogBulk ops)) ip port t =
       holders (hist c LogBulk (firstn (Z.to_nat t) ops)) ip port).
Proof. exact c10_attributable_lost_record_refuted. Qed.
Print Assumptions C10_attributable_bulk_refuted.

(* the witness of K10e as the check sees it: the monitor rejects the Model's own trace at the
   faulted call (step 2, clause 4) and the Model raises ghost marker 1003 there *)
Theorem C10_lost_record_is_rejected_and_marked :
  (accept_trace accept 1%N (sinit w_cfg_lost LogBulk) (mtrace (init w_cfg_lost LogBulk) w_ops_lost) = (2%N, 5%N)) /\
  (snd (step (next (init w_cfg_lost LogBulk) (AddIP 9)) (AllocF 1 false true)) = [1003%N]).
Proof. exact c10_lost_record_rejected. Qed.
Print Assumptions C10_lost_record_is_rejected_and_marked.

(* ... and that answer is one subscriber: at most one holder of any (ip, port), exactly the
   block's owner for a port inside a block *)
Theorem C10_at_most_one_holder : forall c m ops ip port, cfg_ok c ->
  (length (holders (hist c m ops) ip port) <= 1)%nat.
Proof. exact c10_at_most_one_holder. Qed.
Print Assumptions C10_at_most_one_holder.

Theorem C10_attribute_names_the_holder : forall c ops bs a port t, all_lossless ops -> cfg_ok c -> 0 <= t ->
  In a (s_allocs (hist c LogBulk (firstn (Z.to_nat t) ops))) -> a_start a <= port <= a_end a ->
  attribute bs (s_log (hist c LogBulk ops)) (a_pub a) port t = [a_priv a].
Proof. exact c10_attribute_names_the_holder. Qed.
Print Assumptions C10_attribute_names_the_holder.

(* Traditional records carry the block start only.  Partial: the same equation holds when the
   reader supplies the configured block size (guard: cfg_ok and bs = pps) ... *)
Theorem C10_attributable_traditional_partial : forall c ops ip port t, all_lossless ops -> cfg_ok c -> 0 <= t ->
  attribute (c_pps c) (s_log (hist c LogTrad ops)) ip port t =
  holders (hist c LogTrad (firstn (Z.to_nat t) ops)) ip port.
Proof. exact c10_attributable_trad. Qed.
Print Assumptions C10_attributable_traditional_partial.

(* ... refuted without it: two in-guard configurations write identical traditional logs for one
   history and disagree on the holder of a port; the record alone does not attribute *)
Theorem C10_attributable_traditional_refuted :
  exists c1 c2 ops ip port, cfg_ok c1 /\ cfg_ok c2 /\
    s_log (hist c1 LogTrad ops) = s_log (hist c2 LogTrad ops) /\
    holders (hist c1 LogTrad ops) ip port <> holders (hist c2 LogTrad ops) ip port.
Proof. exact c10_traditional_record_alone_insufficient. Qed.
Print Assumptions C10_attributable_traditional_refuted.

(* stated: with the logger absent or disabled nothing is written, so nothing is attributable *)
Theorem C10_logging_off_no_records : forall c ops, s_log (hist c LogOff ops) = [].
Proof. exact c10_logging_off_no_records. Qed.
Print Assumptions C10_logging_off_no_records.

(* (6) configurations.  NewManager's defaulting leaves an in-guard configuration unchanged; the
   all-zero configuration defaults into the guard *)
Theorem C10_new_cfg_in_guard : forall pps st en, 1 <= pps -> 1 <= st -> st <= en -> en <= 65535 ->
  new_cfg pps st en = {| c_pps := pps; c_start := st; c_end := en |} /\ cfg_ok (new_cfg pps st en).
Proof. exact c10_new_cfg_in_guard. Qed.
Print Assumptions C10_new_cfg_in_guard.

(* outside the guard NewManager accepts the values and the uint16 conversions wrap (known
   finding K10b): each clause fails *)
Theorem C10_in_range_outside_guard_refuted :
  ~ (forall c m ops a, In a (s_allocs (hist c m ops)) ->
       c_start c <= a_start a /\ a_start a <= a_end a /\ a_end a <= c_end c).
Proof. exact c10_in_range_outside_guard_refuted. Qed.
Print Assumptions C10_in_range_outside_guard_refuted.

Theorem C10_block_size_outside_guard_refuted :
  ~ (forall c m ops a, In a (s_allocs (hist c m ops)) -> a_end a - a_start a + 1 = c_pps c).
Proof. exact c10_size_outside_guard_refuted. Qed.
Print Assumptions C10_block_size_outside_guard_refuted.

Theorem C10_no_overlap_outside_guard_refuted :
  ~ (forall c m ops a b, In a (s_allocs (hist c m ops)) -> In b (s_allocs (hist c m ops)) ->
       a_priv a <> a_priv b -> a_pub a = a_pub b -> a_end a < a_start b \/ a_end b < a_start a).
Proof. exact c10_no_overlap_outside_guard_refuted. Qed.
Print Assumptions C10_no_overlap_outside_guard_refuted.

(* (7) refinement Model <= Spec: the trace monitor of Model/NatSpec.v (the acceptor bin/check runs
   over the implementation's traces, clauses 0-4) accepts every trace the Model produces, for
   every sequential history and every in-guard configuration and log mode: inside the guard a
   rejection of an implementation trace can never be shared by the Model *)
Theorem C10_model_refines_spec : forall c m ops, cfg_ok c -> Forall seq_op ops -> all_lossless ops ->
  accept_trace accept 1%N (sinit c m)
    (map (fun x => (fst (fst x), snd (fst x))) (model_trace step (init c m) ops)) = (0%N, 0%N).
Proof. exact c10_model_refines_spec_check. Qed.
Print Assumptions C10_model_refines_spec.

(* (8) the Manager writing into a real subscriber_nat map (Model/NatK.v): [khist c m mx kops] is the
   state (Manager + map content) after the K operations [kops] on a hash map of [mx] entries: Manager
   calls (with or without fault oracles; an update of a new key also fails when the map is full),
   the harness's own foreign entries (KPut / KDel: keys >= 192.168.0.0, guard [kops_ok], decidable
   [kop_ok]) and dumps.  Every such history is a history of (1)-(7) with the effective faults, so all
   theorems above hold for it -- for every fault pattern and capacity. *)
Theorem C10_fault_histories_are_histories : forall c m mx kops,
  k_s (khist c m mx kops) = hist c m (kproj (kinit c m mx) kops).
Proof. exact khist_is_hist. Qed.
Print Assumptions C10_fault_histories_are_histories.

(* table and datapath map agree after every operation, also after a failed one: one entry per
   holder carrying its block and cursor = block start, no other entry below the foreign keys *)
Theorem C10_datapath_map_mirrors_table : forall c m mx kops, kops_ok kops ->
  let ks := khist c m mx kops in
  (forall a, In a (s_allocs (k_s ks)) -> In (kentry_of c a) (k_map ks)) /\
  (forall e, In e (k_map ks) -> ke_key e < FB -> exists a, In a (s_allocs (k_s ks)) /\ e = kentry_of c a) /\
  NoDup (map ke_key (k_map ks)).
Proof. exact c10_datapath_mirrors_table. Qed.
Print Assumptions C10_datapath_map_mirrors_table.

Theorem C10_datapath_no_overlap : forall c m mx kops e1 e2, cfg_ok c -> kops_ok kops ->
  In e1 (k_map (khist c m mx kops)) -> In e2 (k_map (khist c m mx kops)) ->
  ke_key e1 < FB -> ke_key e2 < FB -> ke_key e1 <> ke_key e2 -> ke_pub e1 = ke_pub e2 ->
  ke_end e1 < ke_start e2 \/ ke_end e2 < ke_start e1.
Proof. exact c10_datapath_no_overlap. Qed.
Print Assumptions C10_datapath_no_overlap.

Theorem C10_datapath_entry_in_range : forall c m mx kops e, cfg_ok c -> kops_ok kops ->
  In e (k_map (khist c m mx kops)) -> ke_key e < FB ->
  c_start c <= ke_start e /\ ke_start e <= ke_next e <= ke_end e /\ ke_end e <= c_end c /\
  ke_end e - ke_start e + 1 = c_pps c.
Proof. exact c10_datapath_entry_in_range. Qed.
Print Assumptions C10_datapath_entry_in_range.

(* refinement for the K layer: the monitor [kaccept] (clauses 0-5, run by bin/check over the
   implementation's kernel-map traces) accepts every trace of the K Model, for every pattern of
   map-call faults and every capacity (log-writer faults excluded: K10e) *)
Theorem C10_kmodel_refines_spec : forall c m mx kops, cfg_ok c -> kops_ok kops -> Forall kseq_op kops ->
  Forall (fun o => klossless o = true) kops ->
  accept_trace kaccept 1%N (ksinit c m)
    (map (fun x => (fst (fst x), snd (fst x))) (model_trace kstep (kinit c m mx) kops)) = (0%N, 0%N).
Proof. exact c10_kmodel_refines_spec. Qed.
Print Assumptions C10_kmodel_refines_spec.

(* non-vacuity of (8): a one-entry map; B's update fails (map full), B is then unknown; A's release
   is refused while the delete fails; after the real release B gets A's former block *)
Example C10_fault_hypotheses_satisfiable :
  cfg_ok kex_cfg /\ kops_ok kex_ops /\ Forall kseq_op kex_ops /\ Forall (fun o => klossless o = true) kex_ops /\
  map (fun a => (a_priv a, a_start a)) (s_allocs (k_s (khist kex_cfg LogBulk 1 kex_ops))) = [(2, 60000)] /\
  map ke_key (k_map (khist kex_cfg LogBulk 1 kex_ops)) = [2].
Proof.
  split; [reflexivity|]. split; [repeat constructor|]. split; [repeat constructor|]. split; [repeat constructor|].
  vm_compute. split; reflexivity.
Qed.

(* (9) the data-plane half: the source port bpf/nat44.c translates a NEW flow to.  Subject:
   [alloc_loop] / [choose_mapping] of Model/TcNatPkt.v (allocate_port_from_block and the mapping choice
   of nat44_egress; the Model built and tied to the compiled program for C07).  From any cursor inside
   the block -- AllocateNAT writes cursor = block start, (8) -- and for every parity request, EIM table
   content, flow and iteration bound: the port is 0 (exhausted, the packet is dropped) or inside
   [port_start, port_end], and the cursor left behind is inside the block again (wrap at the block end,
   block ending at 65535 included); hence for any sequence of new flows.  Flows that hit an existing
   session / EIM entry use the cached port: see docs/C10.md (K10g). *)
Theorem C10_dataplane_new_flow_port_in_block : forall k mp pstart pend next parity op ip proto,
  (pstart <= pend)%N -> (pend <= 65535)%N -> in_block pstart pend next ->
  let '(p, next') := alloc_loop k mp pstart pend next parity op ip proto in
  (p = 0%N \/ in_block pstart pend p) /\ in_block pstart pend next'.
Proof. exact alloc_loop_in_block. Qed.
Print Assumptions C10_dataplane_new_flow_port_in_block.

Theorem C10_dataplane_flow_sequence_in_block : forall k mp pstart pend flows next,
  (pstart <= pend)%N -> (pend <= 65535)%N -> in_block pstart pend next ->
  Forall (fun p => p = 0%N \/ in_block pstart pend p) (alloc_seq k mp pstart pend next flows).
Proof. exact alloc_seq_in_block. Qed.
Print Assumptions C10_dataplane_flow_sequence_in_block.

Theorem C10_dataplane_mapping_in_block : forall mp sn saddr sport proto ip port,
  (fld 4 2 sn <= fld 6 2 sn)%N -> (fld 6 2 sn <= 65535)%N -> in_block (fld 4 2 sn) (fld 6 2 sn) (fld 8 4 sn) ->
  mp MAP_EIM (eim_key saddr sport proto) = None ->
  choose_mapping mp sn saddr sport proto = Some (ip, port) ->
  ip = fld 0 4 sn /\ exists p, port = htons p /\ in_block (fld 4 2 sn) (fld 6 2 sn) p.
Proof. exact choose_mapping_in_block. Qed.
Print Assumptions C10_dataplane_mapping_in_block.

(* refuted without the cursor invariant: the C never compares the candidate with port_start *)
Theorem C10_dataplane_cursor_outside_block_refuted :
  ~ (forall mp pstart pend next, (pstart <= pend)%N -> (pend <= 65535)%N ->
       let '(p, _) := alloc_loop 64 mp pstart pend next false 0%N 0%N 0%N in p = 0%N \/ in_block pstart pend p).
Proof. exact alloc_loop_outside_block_refuted. Qed.
Print Assumptions C10_dataplane_cursor_outside_block_refuted.

Example C10_dataplane_wrap_at_65535 :
  alloc_seq 64 (fun _ _ => None) 65532%N 65535%N 65534%N
    [(false, 0%N, 0%N, 6%N); (false, 0%N, 0%N, 6%N); (false, 0%N, 0%N, 6%N); (false, 0%N, 0%N, 6%N)]
  = [65534%N; 65535%N; 65532%N; 65533%N].
Proof. exact alloc_wraps_at_block_end. Qed.

(* non-vacuity: A, B, C allocate, A releases, D allocates (the history that used to give D the
   ports of C), range 60000-65535 with 1000 ports each (non-dividing).  Three subscribers hold
   blocks, D holds A's former block, and the log attributes port 62500 at time 6 to C only and
   port 60500 to A at time 2, to nobody at time 5, to D at time 6. *)
Definition ex_cfg : cfg := {| c_pps := 1000; c_start := 60000; c_end := 65535 |}.
Definition ex_ops : list op := [AddIP 9; Alloc 1; Alloc 2; Alloc 3; Dealloc 1; Alloc 4].
Example C10_hypotheses_satisfiable :
  cfg_ok ex_cfg /\
  map (fun a => (a_priv a, a_start a, a_end a)) (s_allocs (hist ex_cfg LogBulk ex_ops)) =
    [(4, 60000, 60999); (3, 62000, 62999); (2, 61000, 61999)] /\
  attribute 0 (s_log (hist ex_cfg LogBulk ex_ops)) 9 62500 6 = [3] /\
  attribute 0 (s_log (hist ex_cfg LogBulk ex_ops)) 9 60500 2 = [1] /\
  attribute 0 (s_log (hist ex_cfg LogBulk ex_ops)) 9 60500 5 = [] /\
  attribute 0 (s_log (hist ex_cfg LogBulk ex_ops)) 9 60500 6 = [4] /\
  find_alloc 3 (s_allocs (hist ex_cfg LogBulk (firstn 4 ex_ops))) =
  find_alloc 3 (s_allocs (hist ex_cfg LogBulk ex_ops)).
Proof. vm_compute. repeat split; reflexivity. Qed.

(* the 65535 edge and a non-dividing size: range 1024-65535 with 64512 ports is one block per
   address ending exactly at 65535; range 1-10 with 3 ports is three blocks, port 10 unused *)
Example C10_edge_65535 :
  map (fun a => (a_start a, a_end a)) (s_allocs (hist {| c_pps := 64512; c_start := 1024; c_end := 65535 |} LogBulk [AddIP 9; Alloc 1; Alloc 2])) = [(1024, 65535)] /\
  map (fun a => (a_start a, a_end a)) (s_allocs (hist {| c_pps := 3; c_start := 1; c_end := 10 |} LogBulk [AddIP 9; Alloc 1; Alloc 2; Alloc 3; Alloc 4])) = [(7, 9); (4, 6); (1, 3)].
Proof. vm_compute. split; reflexivity. Qed.
