(* C10 -- placeholder while the Model and driver are being tied; theorems follow. *)
From Coq Require Import ZArith List.
From Verif Require Import Model.Nat Model.NatSpec.
