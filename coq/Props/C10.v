(* C10 -- CGNAT port blocks never overlap and are always attributable.
   Statements only; proofs are in Proofs/NatProofs.v.  Subject: Model/Nat.v, the model of
   pkg/nat/manager.go + the allocation records of pkg/nat/logging.go as they are after the three
   repairs listed in known_findings/C10.json (lowest free block, re-check under the pool lock,
   duplicate public IP rejected).

   [hist c m ops] is the Manager state after the operation list [ops] (AddPublicIP / AllocateNAT /
   DeallocateNAT / GetAllocation / stats, in any order and number) from NewManager with effective
   configuration [c] and log mode [m].  All theorems quantify over every [ops] and every
   configuration in the guard [cfg_ok c] := 1 <= pps /\ 0 <= start <= end <= 65535
   (decidable: [cfg_okb]); what happens outside the guard is shown by the _refuted theorems. *)
From Coq Require Import ZArith List.
From Verif Require Import Base.Check Model.Nat Model.NatSpec Proofs.NatProofs.
Import ListNotations.
Local Open Scope Z_scope.

(* (1) no two subscribers hold overlapping port ranges on the same public address *)
Theorem C10_no_overlap : forall c m ops a b, cfg_ok c ->
  In a (s_allocs (hist c m ops)) -> In b (s_allocs (hist c m ops)) ->
  a_priv a <> a_priv b -> a_pub a = a_pub b -> a_end a < a_start b \/ a_end b < a_start a.
Proof. exact c10_no_overlap. Qed.
Print Assumptions C10_no_overlap.

(* (2) every block lies inside the configured port range (and inside 16 bits) ... *)
Theorem C10_in_range : forall c m ops a, cfg_ok c -> In a (s_allocs (hist c m ops)) ->
  c_start c <= a_start a /\ a_start a <= a_end a /\ a_end a <= c_end c /\ a_end a <= 65535.
Proof. exact c10_in_range. Qed.
Print Assumptions C10_in_range.

(* (3) ... with the configured size (also when the size does not divide the range) *)
Theorem C10_block_size : forall c m ops a, cfg_ok c -> In a (s_allocs (hist c m ops)) ->
  a_end a - a_start a + 1 = c_pps c.
Proof. exact c10_block_size. Qed.
Print Assumptions C10_block_size.

(* (4) a subscriber keeps the same block until it is released: whatever happens after [ops1]
   short of DeallocateNAT for that private IP, the table entry is the same and both
   AllocateNAT and GetAllocation answer with it; at most one entry per subscriber; a release
   removes it *)
Theorem C10_stable : forall c m ops1 ops2 priv a,
  find_alloc priv (s_allocs (hist c m ops1)) = Some a ->
  Forall (fun o => o <> Dealloc priv) ops2 ->
  find_alloc priv (s_allocs (hist c m (ops1 ++ ops2))) = Some a /\
  result (hist c m (ops1 ++ ops2)) (Alloc priv) = RAlloc (view a) /\
  result (hist c m (ops1 ++ ops2)) (Get priv) = RGet (Some (view a)).
Proof. exact c10_stable. Qed.
Print Assumptions C10_stable.

Theorem C10_one_block_per_subscriber : forall c m ops, NoDup (map a_priv (s_allocs (hist c m ops))).
Proof. exact c10_one_block_per_subscriber. Qed.
Print Assumptions C10_one_block_per_subscriber.

Theorem C10_released : forall c m ops priv,
  find_alloc priv (s_allocs (hist c m (ops ++ [Dealloc priv]))) = None.
Proof. exact c10_released. Qed.
Print Assumptions C10_released.

(* (5) attribution.  [attribute bs log ip port t] (Model/NatSpec.v) reads the log alone: records
   stamped <= t, assign adds a block, release removes it, then the blocks covering (ip, port).
   Bulk (RFC 6908) records: for every history, every time t, every (ip, port) and whatever block
   size the reader assumes, the answer is exactly the holders in the table as it was after the
   first t operations -- every allocation and release is in the log, nothing else is. *)
Theorem C10_attributable_bulk : forall c ops bs ip port t, 0 <= t ->
  attribute bs (s_log (hist c LogBulk ops)) ip port t =
  holders (hist c LogBulk (firstn (Z.to_nat t) ops)) ip port.
Proof. exact c10_attributable_bulk. Qed.
Print Assumptions C10_attributable_bulk.

(* ... and that answer is one subscriber: at most one holder of any (ip, port), exactly the
   block's owner for a port inside a block *)
Theorem C10_at_most_one_holder : forall c m ops ip port, cfg_ok c ->
  (length (holders (hist c m ops) ip port) <= 1)%nat.
Proof. exact c10_at_most_one_holder. Qed.
Print Assumptions C10_at_most_one_holder.

Theorem C10_attribute_names_the_holder : forall c ops bs a port t, cfg_ok c -> 0 <= t ->
  In a (s_allocs (hist c LogBulk (firstn (Z.to_nat t) ops))) -> a_start a <= port <= a_end a ->
  attribute bs (s_log (hist c LogBulk ops)) (a_pub a) port t = [a_priv a].
Proof. exact c10_attribute_names_the_holder. Qed.
Print Assumptions C10_attribute_names_the_holder.

(* Traditional records carry the block start only.  Partial: the same equation holds when the
   reader supplies the configured block size (guard: cfg_ok and bs = pps) ... *)
Theorem C10_attributable_traditional_partial : forall c ops ip port t, cfg_ok c -> 0 <= t ->
  attribute (c_pps c) (s_log (hist c LogTrad ops)) ip port t =
  holders (hist c LogTrad (firstn (Z.to_nat t) ops)) ip port.
Proof. exact c10_attributable_trad. Qed.
Print Assumptions C10_attributable_traditional_partial.

(* ... refuted without it: two in-guard configurations write identical traditional logs for one
   history and disagree on the holder of a port; the record alone does not attribute *)
Theorem C10_attributable_traditional_refuted :
  exists c1 c2 ops ip port, cfg_ok c1 /\ cfg_ok c2 /\
    s_log (hist c1 LogTrad ops) = s_log (hist c2 LogTrad ops) /\
    holders (hist c1 LogTrad ops) ip port <> holders (hist c2 LogTrad ops) ip port.
Proof. exact c10_traditional_record_alone_insufficient. Qed.
Print Assumptions C10_attributable_traditional_refuted.

(* stated: with the logger absent or disabled nothing is written, so nothing is attributable *)
Theorem C10_logging_off_no_records : forall c ops, s_log (hist c LogOff ops) = [].
Proof. exact c10_logging_off_no_records. Qed.
Print Assumptions C10_logging_off_no_records.

(* (6) configurations.  NewManager's defaulting leaves an in-guard configuration unchanged; the
   all-zero configuration defaults into the guard *)
Theorem C10_new_cfg_in_guard : forall pps st en, 1 <= pps -> 1 <= st -> st <= en -> en <= 65535 ->
  new_cfg pps st en = {| c_pps := pps; c_start := st; c_end := en |} /\ cfg_ok (new_cfg pps st en).
Proof. exact c10_new_cfg_in_guard. Qed.
Print Assumptions C10_new_cfg_in_guard.

(* outside the guard NewManager accepts the values and the uint16 conversions wrap (known
   finding K10b): each clause fails *)
Theorem C10_in_range_outside_guard_refuted :
  ~ (forall c m ops a, In a (s_allocs (hist c m ops)) ->
       c_start c <= a_start a /\ a_start a <= a_end a /\ a_end a <= c_end c).
Proof. exact c10_in_range_outside_guard_refuted. Qed.
Print Assumptions C10_in_range_outside_guard_refuted.

Theorem C10_block_size_outside_guard_refuted :
  ~ (forall c m ops a, In a (s_allocs (hist c m ops)) -> a_end a - a_start a + 1 = c_pps c).
Proof. exact c10_size_outside_guard_refuted. Qed.
Print Assumptions C10_block_size_outside_guard_refuted.

Theorem C10_no_overlap_outside_guard_refuted :
  ~ (forall c m ops a b, In a (s_allocs (hist c m ops)) -> In b (s_allocs (hist c m ops)) ->
       a_priv a <> a_priv b -> a_pub a = a_pub b -> a_end a < a_start b \/ a_end b < a_start a).
Proof. exact c10_no_overlap_outside_guard_refuted. Qed.
Print Assumptions C10_no_overlap_outside_guard_refuted.

(* (7) refinement Model <= Spec: the trace monitor of Model/NatSpec.v (the acceptor bin/check runs
   over the implementation's traces, clauses 0-4) accepts every trace the Model produces, for
   every sequential history and every in-guard configuration and log mode: inside the guard a
   rejection of an implementation trace can never be shared by the Model *)
Theorem C10_model_refines_spec : forall c m ops, cfg_ok c -> Forall seq_op ops ->
  accept_trace accept 1%N (sinit c m)
    (map (fun x => (fst (fst x), snd (fst x))) (model_trace step (init c m) ops)) = (0%N, 0%N).
Proof. exact c10_model_refines_spec_check. Qed.
Print Assumptions C10_model_refines_spec.

(* non-vacuity: A, B, C allocate, A releases, D allocates (the history that used to give D the
   ports of C), range 60000-65535 with 1000 ports each (non-dividing).  Three subscribers hold
   blocks, D holds A's former block, and the log attributes port 62500 at time 6 to C only and
   port 60500 to A at time 2, to nobody at time 5, to D at time 6. *)
Definition ex_cfg : cfg := {| c_pps := 1000; c_start := 60000; c_end := 65535 |}.
Definition ex_ops : list op := [AddIP 9; Alloc 1; Alloc 2; Alloc 3; Dealloc 1; Alloc 4].
Example C10_hypotheses_satisfiable :
  cfg_ok ex_cfg /\
  map (fun a => (a_priv a, a_start a, a_end a)) (s_allocs (hist ex_cfg LogBulk ex_ops)) =
    [(4, 60000, 60999); (3, 62000, 62999); (2, 61000, 61999)] /\
  attribute 0 (s_log (hist ex_cfg LogBulk ex_ops)) 9 62500 6 = [3] /\
  attribute 0 (s_log (hist ex_cfg LogBulk ex_ops)) 9 60500 2 = [1] /\
  attribute 0 (s_log (hist ex_cfg LogBulk ex_ops)) 9 60500 5 = [] /\
  attribute 0 (s_log (hist ex_cfg LogBulk ex_ops)) 9 60500 6 = [4] /\
  find_alloc 3 (s_allocs (hist ex_cfg LogBulk (firstn 4 ex_ops))) =
  find_alloc 3 (s_allocs (hist ex_cfg LogBulk ex_ops)).
Proof. vm_compute. repeat split; reflexivity. Qed.

(* the 65535 edge and a non-dividing size: range 1024-65535 with 64512 ports is one block per
   address ending exactly at 65535; range 1-10 with 3 ports is three blocks, port 10 unused *)
Example C10_edge_65535 :
  map (fun a => (a_start a, a_end a)) (s_allocs (hist {| c_pps := 64512; c_start := 1024; c_end := 65535 |} LogBulk [AddIP 9; Alloc 1; Alloc 2])) = [(1024, 65535)] /\
  map (fun a => (a_start a, a_end a)) (s_allocs (hist {| c_pps := 3; c_start := 1; c_end := 10 |} LogBulk [AddIP 9; Alloc 1; Alloc 2; Alloc 3; Alloc 4])) = [(7, 9); (4, 6); (1, 3)].
Proof. vm_compute. split; reflexivity. Qed.
