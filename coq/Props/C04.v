(* C04 — no PPPoE session gets IP service without successful authentication.
   Statements only; proofs are in Proofs/PPPoESrvProofs.v. Each theorem is closed by [exact] and
   followed by Print Assumptions.

   Subject: Model/PPPoESrv.v [step] = pppoe.Server's frame handlers as they are after the three C04
   fix commits (docs/C04.md); [step_g g] switches single repairs off (the tree as it was).
   Vocabulary (Model/PPPoESrvSpec.v):
     exec c ops              state after the frame sequence ops (any frames, any peers, any RADIUS answers)
     out_at c ops o          what frame o produces after ops: frames sent, RADIUS answer, the session table
     outs c ops              the outputs of all frames of ops, in order
     accepts c r             creation indexes of the sessions on which output r carries a PAP
                             Authenticate-Ack, provided RADIUS answered Access-Accept in that step when a
                             RADIUS client is configured (no RADIUS configured: the Ack alone)
     accepted_in c rs k      some output in rs is an accept event for session k
     verdicts r              creation indexes of the sessions on which output r carries a PAP Authenticate-Ack
                             or Authenticate-Nak (the session's PAP exchange got a verdict in that step)
     accepted_latest c rs k  some output in rs is an accept event for session k and no later output in rs
                             carries another PAP verdict for k: the session's LATEST PAP exchange was accepted
   A "session" is the record created by one PADR; [s_inst] numbers creations, so an id reused after the
   uint16 wrap is a different session. *)
From Coq Require Import NArith List.
From Verif Require Import Base.Word Base.Check Model.PPPoESrv Model.PPPoESrvSpec Model.PPPoESrvCheck
  Proofs.PPPoESrvProofs.
Import ListNotations.
Local Open Scope N_scope.

(* The full statement, clause by clause, for every configuration c (RADIUS configured or not, pool or
   not, ...), every frame sequence ops from any set of peers, every further frame o:

   established_after_auth g : every session the table shows Established after o has an accept event in
                              the outputs of ops ++ [o]
   ipcp_ack_after_auth g    : every IPCP Configure-Ack sent while handling o is on a session of the
                              table that has an accept event in the outputs of ops ++ [o]
   clientip_after_auth g    : every session holding a client address after o has such an accept event
   mac_ownership g          : every session record whose owner MAC differs from o's source MAC is in the
                              table after o exactly as it was before (state, flags, address, identifier,
                              counters, Host-Uniq, Service-Name, user name) - o being ANY frame: PADI, PADR,
                              PADT or another discovery code with any tags and any session-id field, or a
                              session-stage frame
   emitted_to_owner g       : every frame sent while handling o that names a session (PADS, session-stage
                              frames) is addressed to o's sender, and that station owns a session with
                              that id (after o or before o)                                               *)
Definition C04_statement : Prop :=
  established_after_latest_auth gates_on /\ ipcp_ack_after_latest_auth gates_on /\
  established_after_auth gates_on /\ ipcp_ack_after_auth gates_on /\
  clientip_after_auth gates_on /\ mac_ownership gates_on /\ emitted_to_owner gates_on /\
  verdict_on_requester gates_on.

(* auth_gate, part 1: reported Established only after the PAP accept of that same session *)
Theorem C04_auth_gate_established : forall c ops o s,
  In s (o_sessions (out_at c ops o)) -> s_state s = StEstablished ->
  accepted_in c (outs c (ops ++ [o])) (s_inst s).
Proof. exact established_gate. Qed.
Print Assumptions C04_auth_gate_established.

(* auth_gate, part 2: IP-layer negotiation acknowledged only after the PAP accept of that same session *)
Theorem C04_auth_gate_ipcp_ack : forall c ops o f sid,
  In f (o_frames (out_at c ops o)) -> ef_is ProtoIPCP 2 f = Some sid ->
  exists s, In s (o_sessions (out_at c ops o)) /\ s_id s = sid /\
            accepted_in c (outs c (ops ++ [o])) (s_inst s).
Proof. exact ipcp_ack_gate. Qed.
Print Assumptions C04_auth_gate_ipcp_ack.

(* the strict reading of both: the accept must be the session's LATEST PAP verdict - a session whose PAP
   exchange was accepted and later rejected (Authenticate-Nak after a RADIUS reject, error or timeout) is
   neither shown Established nor answered with an IPCP Configure-Ack until a new exchange is accepted *)
Theorem C04_auth_gate_established_latest : forall c ops o s,
  In s (o_sessions (out_at c ops o)) -> s_state s = StEstablished ->
  accepted_latest c (outs c (ops ++ [o])) (s_inst s).
Proof. exact established_gate_latest. Qed.
Print Assumptions C04_auth_gate_established_latest.

Theorem C04_auth_gate_ipcp_ack_latest : forall c ops o f sid,
  In f (o_frames (out_at c ops o)) -> ef_is ProtoIPCP 2 f = Some sid ->
  exists s, In s (o_sessions (out_at c ops o)) /\ s_id s = sid /\
            accepted_latest c (outs c (ops ++ [o])) (s_inst s).
Proof. exact ipcp_ack_gate_latest. Qed.
Print Assumptions C04_auth_gate_ipcp_ack_latest.

(* clientip_after_auth: a client address is assigned only after the PAP accept of that same session *)
Theorem C04_clientip_after_auth : forall c ops o s,
  In s (o_sessions (out_at c ops o)) -> s_ip s <> None ->
  accepted_in c (outs c (ops ++ [o])) (s_inst s).
Proof. exact clientip_gate. Qed.
Print Assumptions C04_clientip_after_auth.

(* mac_ownership: frames whose source MAC is not the owner never change, advance or terminate the session *)
Theorem C04_mac_ownership : forall c ops o s,
  In s (st_sessions (exec c ops)) -> s_mac s <> op_src o ->
  In s (st_sessions (exec c (ops ++ [o]))).
Proof. exact ownership. Qed.
Print Assumptions C04_mac_ownership.

(* ... and the server never answers on a session towards a station that does not own it: whatever names
   a session (the PADS of a PADR, every session-stage frame) goes to the sender of the frame being
   handled, who owns a session with that id *)
Theorem C04_emitted_to_owner : forall c ops o f d sid,
  In f (o_frames (out_at c ops o)) -> ef_sid f = Some (d, sid) ->
  d = op_src o /\
  exists s, In s (st_sessions (exec c (ops ++ [o])) ++ st_sessions (exec c ops)) /\ s_id s = sid /\ s_mac s = d.
Proof. exact emitted_owner. Qed.
Print Assumptions C04_emitted_to_owner.

(* "that same session's PAP exchange": a PAP Authenticate-Ack / Authenticate-Nak is only ever sent on the
   session id named by the session-stage frame being handled, so the accept event of a session answers a
   request made on that session (never a verdict carried over to another session of the same station) *)
Theorem C04_verdict_on_requester : forall c ops o f sid,
  In f (o_frames (out_at c ops o)) -> ef_pap_verdict f = Some sid -> op_sid o = Some sid.
Proof. exact verdict_requester. Qed.
Print Assumptions C04_verdict_on_requester.

(* the table the outputs show (what the harness compares with the real server) is the Model's table *)
Theorem C04_snapshot_is_table : forall c ops o,
  o_sessions (out_at c ops o) = st_sessions (exec c (ops ++ [o])).
Proof. exact snapshot_table. Qed.
Print Assumptions C04_snapshot_is_table.

(* "that same session" is well defined: a creation index identifies one record of the table, and every
   index in use is below the counter from which the next PADR takes its index *)
Theorem C04_creation_index_identifies_session : forall c ops a b,
  In a (st_sessions (exec c ops)) -> In b (st_sessions (exec c ops)) -> s_inst a = s_inst b -> a = b.
Proof. exact inst_identifies. Qed.
Print Assumptions C04_creation_index_identifies_session.

Theorem C04_creation_index_fresh : forall c ops s,
  In s (st_sessions (exec c ops)) -> s_inst s < st_ninst (exec c ops).
Proof. exact inst_below_counter. Qed.
Print Assumptions C04_creation_index_fresh.

Theorem C04_full : C04_statement.
Proof. exact (conj established_gate_latest (conj ipcp_ack_gate_latest (conj established_gate (conj ipcp_ack_gate (conj clientip_gate (conj ownership (conj emitted_owner verdict_requester))))))). Qed.
Print Assumptions C04_full.

(* the executable monitor the check runs over the real server's traces never rejects a trace of the
   Model: a rejection on the real code therefore means the code left the Model (or the property) *)
Theorem C04_monitor_accepts_model : forall c ops,
  accept_trace caccept 1 (c, sinit) (combine ops (outs c ops)) = (0, 0).
Proof. exact monitor_accepts_model. Qed.
Print Assumptions C04_monitor_accepts_model.

(* ... and it is sound for ANY observed trace, in particular the real server's: if it accepts tr, then
   at every step (o, r) of tr, with rs the outputs up to and including r and [table_after [] pre] the
   table shown after the previous frame (empty before the first), the four clauses hold of the
   observations (the fifth: every emitted frame naming a session is addressed to the owner of a session
   with that id in the table after or before the frame). So what the check enforces on the implementation is the property, not a proxy. *)
Theorem C04_monitor_sound : forall c tr,
  accept_trace caccept 1 (c, sinit) tr = (0, 0) ->
  forall pre o r post, tr = pre ++ (o, r) :: post ->
  let rs := map snd pre ++ [r] in
  (forall s, In s (o_sessions r) -> s_state s = StEstablished -> accepted_latest c rs (s_inst s)) /\
  (forall s, In s (o_sessions r) -> s_ip s <> None -> accepted_in c rs (s_inst s)) /\
  (forall f sid, In f (o_frames r) -> ef_is ProtoIPCP 2 f = Some sid ->
     exists s, In s (o_sessions r) /\ s_id s = sid /\ accepted_latest c rs (s_inst s)) /\
  (forall s, In s (table_after [] pre) -> s_mac s <> op_src o -> In s (o_sessions r)) /\
  (forall f d sid, In f (o_frames r) -> ef_sid f = Some (d, sid) ->
     exists s, In s (o_sessions r ++ table_after [] pre) /\ s_id s = sid /\ s_mac s = d) /\
  (forall f sid, In f (o_frames r) -> ef_pap_verdict f = Some sid -> op_sid o = Some sid).
Proof. exact monitor_sound. Qed.
Print Assumptions C04_monitor_sound.

(* ---- the tree before the fixes: each repair is necessary (witnesses replayed on the real code then,
        kept in corpus/C04 as regression cases) ---- *)
(* without the authentication gate in handleIPCP: PADR; IPCP Configure-Ack => Established *)
Theorem C04_auth_gate_refuted_without_ipcp_gate : ~ established_after_auth no_auth_gate.
Proof. exact established_refuted_no_auth_gate. Qed.
Print Assumptions C04_auth_gate_refuted_without_ipcp_gate.

(* without the owner check: PADR from station 1; PADT from station 2 removes the session *)
Theorem C04_mac_ownership_refuted_without_owner_check : ~ mac_ownership no_owner_gate.
Proof. exact ownership_refuted_no_owner_gate. Qed.
Print Assumptions C04_mac_ownership_refuted_without_owner_check.

(* without copying the MAC in NewSession: PADR from station 1; a PADI from station 2 rewrites the owner *)
Theorem C04_mac_ownership_refuted_without_mac_copy : ~ mac_ownership no_mac_copy.
Proof. exact ownership_refuted_no_mac_copy. Qed.
Print Assumptions C04_mac_ownership_refuted_without_mac_copy.

(* the tree as it was (commit c16d767): both clauses fail *)
Theorem C04_prefix_tree_refuted : ~ established_after_auth gates_off /\ ~ mac_ownership gates_off.
Proof. exact (conj established_refuted_prefix ownership_refuted_prefix). Qed.
Print Assumptions C04_prefix_tree_refuted.

(* ---- non-vacuity: the hypotheses are met by reachable states ---- *)
(* the intended order from one peer reaches Established with an address, authenticated *)
Example C04_established_reachable :
  exists s, In s (o_sessions (out_at cfg0 w_happy (w_sess 1 1 ProtoIPCP (ctl 2 2 []) 0))) /\
            s_state s = StEstablished /\ s_ip s <> None /\ s_auth s = true.
Proof. exact established_reachable. Qed.

(* an IPCP Configure-Ack is really sent (after PAP) *)
Example C04_ipcp_ack_reachable :
  exists f sid, In f (o_frames (out_at cfg0 (firstn 3 w_happy) (w_sess 1 1 ProtoIPCP (ctl 1 7 []) 0))) /\
                ef_is ProtoIPCP 2 f = Some sid.
Proof. exact ipcp_ack_reachable. Qed.

(* a PADT for session 1 from station 2 leaves the table as it was; the same PADT from the owner empties it *)
Example C04_foreign_frame :
  exists s, In s (st_sessions (exec cfg0 w_happy)) /\ s_mac s <> op_src (w_padt 2 1) /\ s_id s = 1 /\
            st_sessions (exec cfg0 (w_happy ++ [w_padt 2 1])) = st_sessions (exec cfg0 w_happy) /\
            st_sessions (exec cfg0 (w_happy ++ [w_padt 1 1])) = [].
Proof. exact foreign_frame_example. Qed.

(* a PADR from station 2 that copies station 1's Host-Uniq, Service-Name and AC-Cookie (and carries station
   1's session id in its header) gets a session of its own; station 1's Established record is untouched and
   the PADS names the new session *)
Example C04_foreign_padr_same_hostuniq :
  exists a, In a (st_sessions (exec cfg0 w_happy_hu)) /\ s_mac a = 1 /\ s_hu a = Some [7;7] /\ s_state a = StEstablished /\
            st_sessions (exec cfg0 (w_happy_hu ++ [w_padr_hu 2 1])) =
              st_sessions (exec cfg0 w_happy_hu) ++ [fst (lcp_request cfg0 (w_new_sess 2 2 1))] /\
            In (EDisc 2 CodePADS 2 [(TagServiceName, c_service cfg0); (TagHostUniq, [7;7])])
               (o_frames (out_at cfg0 w_happy_hu (w_padr_hu 2 1))).
Proof. exact foreign_padr_example. Qed.

(* accept, then a rejected re-authentication on the same session: the record is Closed and unauthenticated,
   keeps its ClientIP value (as coded), and the owner's IPCP Configure-Ack / Configure-Request change nothing
   and are not answered *)
Example C04_reject_after_accept :
  exists s, st_sessions (exec cfg0 (w_happy ++ [w_sess 1 1 ProtoPAP w_pap 1])) = [s] /\
            s_state s = StClosed /\ s_auth s = false /\ s_ip s <> None /\
            s_state (set_state s StEstablished) = StEstablished /\
            o_frames (out_at cfg0 (w_happy ++ [w_sess 1 1 ProtoPAP w_pap 1]) (w_sess 1 1 ProtoIPCP (ctl 2 2 []) 0)) = [] /\
            o_frames (out_at cfg0 (w_happy ++ [w_sess 1 1 ProtoPAP w_pap 1]) (w_sess 1 1 ProtoIPCP (ctl 1 7 []) 0)) = [] /\
            map s_state (st_sessions (exec cfg0 (w_happy ++ [w_sess 1 1 ProtoPAP w_pap 1; w_sess 1 1 ProtoIPCP (ctl 2 2 []) 0]))) = [StClosed].
Proof. exact reject_after_accept_example. Qed.
