(* C20 — subscriber-identifying keys map to at most one subscriber.  Statements only; proofs are in
   Proofs/KeysProofs.v and Proofs/IndexesProofs.v.  Every theorem is closed by [exact] and followed by
   Print Assumptions. *)
From Coq Require Import NArith List Bool.
From Verif Require Import Base.Word Model.Keys Proofs.KeysProofs.
Import ListNotations.
Local Open Scope N_scope.

(* ---- qinq.Mapper: after ANY sequence of Register / Unregister / UnregisterSubscriber ---- *)
Theorem C20_qinq_bijective : forall c subs probe ops v id,
  let st := q_run (q_init c subs probe) ops in
  aget (q_v2s st) v = Some id <-> aget (q_s2v st) id = Some v.
Proof. exact qinq_bijective. Qed.
Print Assumptions C20_qinq_bijective.

Theorem C20_qinq_in_range : forall c subs probe ops v id,
  let st := q_run (q_init c subs probe) ops in
  aget (q_s2v st) id = Some v -> exists s x, v = pk s x /\ q_valid c s x = true.
Proof. exact qinq_in_range. Qed.
Print Assumptions C20_qinq_in_range.
