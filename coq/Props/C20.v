(* C20 — subscriber-identifying keys map to at most one subscriber.  Statements only; proofs are in
   Proofs/KeysProofs.v and Proofs/IndexesProofs.v.  Every theorem is closed by [exact] and followed by
   Print Assumptions.  "run ... ops" is a fold over an ARBITRARY operation list: no bound on length. *)
From Coq Require Import NArith List Bool.
From Verif Require Import Base.Word Model.Keys Model.Indexes Model.KeysMgr Proofs.KeysProofs Proofs.IndexesProofs
  Proofs.KeysHashProofs Proofs.KeysMgrProofs.
Import ListNotations.
Local Open Scope N_scope.

(* ================= qinq.Mapper (Register / Unregister / UnregisterSubscriber) ================= *)
Theorem C20_qinq_bijective : forall c subs probe ops v id,
  let st := q_run (q_init c subs probe) ops in
  aget (q_v2s st) v = Some id <-> aget (q_s2v st) id = Some v.
Proof. exact qinq_bijective. Qed.
Print Assumptions C20_qinq_bijective.

Theorem C20_qinq_in_range : forall c subs probe ops v id,
  let st := q_run (q_init c subs probe) ops in
  aget (q_s2v st) id = Some v -> exists s x, v = pk s x /\ q_valid c s x = true.
Proof. exact qinq_in_range. Qed.
Print Assumptions C20_qinq_in_range.

(* release: the pair is free, only its holder loses a mapping, and the pair can be registered again *)
Theorem C20_qinq_unregister_frees : forall c subs probe ops s x,
  let st := q_run (q_init c subs probe) ops in
  let st' := q_next st (QUnreg s x) in
  aget (q_v2s st') (pk s x) = None /\
  (forall id, aget (q_s2v st) id <> Some (pk s x) -> aget (q_s2v st') id = aget (q_s2v st) id) /\
  (forall id, aget (q_s2v st) id = Some (pk s x) -> aget (q_s2v st') id = None) /\
  (forall id, q_valid c s x = true -> o_ret (snd (fst (q_step st' (QReg s x id)))) = RKey (pk s x)).
Proof. exact qinq_unregister_frees. Qed.
Print Assumptions C20_qinq_unregister_frees.

Theorem C20_qinq_register_frame : forall c subs probe ops s x id id',
  let st := q_run (q_init c subs probe) ops in
  id' <> id -> aget (q_s2v (q_next st (QReg s x id))) id' = aget (q_s2v st) id'.
Proof. exact qinq_register_frame. Qed.
Print Assumptions C20_qinq_register_frame.

(* ================= nexus.VLANAllocator (Allocate / AllocateWithSTag / Release / LoadFromStore) =====
   on the code after the fix: commits 693c44e, c6ea5fb, ca4533f.  v_wf = both configured ranges non-empty *)
Theorem C20_vlan_alloc_unique_in_range : forall c ntes probe ops,
  v_wf c ->
  let st := v_run (v_init c ntes probe) ops in
  (forall n s x, aget (v_alloc st) n = Some (s, x) <-> get2 (v_usage st) s x = Some n) /\
  (forall n s x, aget (v_alloc st) n = Some (s, x) -> in_s c s = true /\ in_c c x = true) /\
  (forall n n' s x, aget (v_alloc st) n = Some (s, x) -> aget (v_alloc st) n' = Some (s, x) -> n = n').
Proof. exact vlan_alloc_unique_in_range. Qed.
Print Assumptions C20_vlan_alloc_unique_in_range.

Theorem C20_vlan_exhausted_only_if_full : forall c ntes probe ops n,
  v_wf c ->
  let st := v_run (v_init c ntes probe) ops in
  o_ret (snd (fst (v_step st (VAlloc n)))) = RErr EExhausted ->
  forall s x, in_s c s = true -> in_c c x = true -> get2 (v_usage st) s x <> None.
Proof. exact vlan_exhausted_only_if_full. Qed.
Print Assumptions C20_vlan_exhausted_only_if_full.

Theorem C20_vlan_release_frees : forall c ntes probe ops n s x,
  v_wf c ->
  let st := v_run (v_init c ntes probe) ops in
  aget (v_alloc st) n = Some (s, x) ->
  let st' := v_next st (VRelease n) in
  aget (v_alloc st') n = None /\ get2 (v_usage st') s x = None /\
  (forall n', n' <> n -> aget (v_alloc st') n' = aget (v_alloc st) n') /\
  (forall s' x', (s', x') <> (s, x) -> get2 (v_usage st') s' x' = get2 (v_usage st) s' x').
Proof. exact vlan_release_frees. Qed.
Print Assumptions C20_vlan_release_frees.

(* non-vacuity: a range that ends at 65535, filled, released and re-filled; tags stay in range *)
Example C20_vlan_example :
  let c := {| v_ss := 65534; v_se := 65535; v_cs := 65535; v_ce := 65535 |} in
  v_wf c /\
  map (fun o => o_ret (snd (fst (v_step (v_run (v_init c [] []) [VAlloc 0; VAlloc 1]) o))))
      [VAlloc 2; VAllocS 0 65535; VAllocS 0 0] = [RErr EExhausted; RErr EExhausted; RErr ERange] /\
  aget (v_alloc (v_run (v_init c [] []) [VAlloc 0; VAlloc 1; VRelease 0; VAlloc 2])) 2 = Some (65534, 65535).
Proof. vm_compute. repeat split; discriminate. Qed.

(* ================= pppoe.SessionManager (CreateSession / RemoveSession) =====================
   on the code after commits 420446d (skip id 0 on wrap) and e9f5407 (refuse when the table is full) *)
Theorem C20_session_ids_unique : forall next pids pmacs ops,
  1 <= next <= 65535 ->
  let st := s_run (s_init next pids pmacs) ops in
  (forall x y, In x (s_live st) -> In y (s_live st) -> sid x = sid y -> x = y) /\
  (forall x, In x (s_live st) -> 1 <= sid x <= 65535 /\ aget (s_sess st) (sid x) = Some (shold x, smac x)) /\
  (forall id h mac, aget (s_sess st) id = Some (h, mac) -> In (h, id, mac) (s_live st)).
Proof. exact session_ids_unique. Qed.
Print Assumptions C20_session_ids_unique.

Theorem C20_session_create_fresh : forall next pids pmacs ops h mac id,
  1 <= next <= 65535 ->
  let st := s_run (s_init next pids pmacs) ops in
  o_ret (snd (fst (s_step st (SCreate h mac)))) = RKey id ->
  aget (s_sess st) id = None /\ 1 <= id <= 65535.
Proof. exact session_create_fresh. Qed.
Print Assumptions C20_session_create_fresh.

(* the op lists of the two theorems above contain [SSetNext n] (1 <= n <= 65535) at any position: the counter
   may stand ANYWHERE relative to the ids in use, not only where consecutive creations from 1 leave it.
   Non-vacuity at the wrap: ids 65535 and 1 are in use, the counter stands on 65535; the scan crosses
   65535 -> (0 skipped) -> 1, finds 1 in use and issues 2; the session on id 1 is untouched *)
Example C20_session_wrap_occupied_example :
  let st := s_run (s_init 1 [] []) [SSetNext 65535; SCreate 0 10; SCreate 1 11; SSetNext 65535; SCreate 2 12] in
  map sid (s_live st) = [65535; 1; 2] /\ aget (s_sess st) 1 = Some (1, 11) /\ aget (s_mac st) 11 = Some 1 /\
  s_next st = 3 /\
  o_ret (snd (fst (s_step (s_run (s_init 1 [] []) [SSetNext 65535; SCreate 0 10; SCreate 1 11; SSetNext 65535])
                          (SCreate 2 12)))) = RKey 2.
Proof. vm_compute. repeat split. Qed.

(* the MAC index: refuted for two sessions from one MAC (known finding K20a, marker 2005) ... *)
Theorem C20_session_mac_index_agrees_refuted :
  exists ops, ~ mac_index_agrees (s_run (s_init 1 [] []) ops).
Proof. exact session_mac_index_agrees_refuted. Qed.
Print Assumptions C20_session_mac_index_agrees_refuted.

(* ... and proved, in both directions, for histories in which live sessions have pairwise distinct MACs
   (decidable guard s_guard, the one the harness uses for its guarded stream) *)
Theorem C20_session_mac_index_agrees_partial : forall next pids pmacs ops st,
  1 <= next <= 65535 ->
  s_run_g (s_init next pids pmacs) ops = Some st ->
  (forall x, In x (s_live st) -> aget (s_mac st) (smac x) = Some (sid x)) /\
  (forall mac id, aget (s_mac st) mac = Some id -> exists h, In (h, id, mac) (s_live st)).
Proof. exact session_mac_index_agrees_partial. Qed.
Print Assumptions C20_session_mac_index_agrees_partial.

(* non-vacuity: wrap-around inside the guard: ids 65535, 1, 2 (0 is skipped), MAC index intact *)
Example C20_session_example :
  exists st, s_run_g (s_init 65535 [] []) [SCreate 0 10; SCreate 1 11; SRemove 65535; SCreate 2 10] = Some st /\
             map sid (s_live st) = [1; 2] /\ aget (s_mac st) 10 = Some 2.
Proof. eexists. split; [vm_compute; reflexivity|split; reflexivity]. Qed.

(* ================= ebpf.MakeCircuitIDKey ===================================================== *)
Theorem C20_circuit_key_length : forall l, length (ckey l) = 32%nat.
Proof. exact ckey_length. Qed.
Print Assumptions C20_circuit_key_length.

(* injective on circuit-ids of at most 32 bytes that do not end in a zero byte *)
Theorem C20_circuit_key_injective_partial : forall a b,
  (length a <= 32)%nat -> (length b <= 32)%nat ->
  trailing_zero a = false -> trailing_zero b = false ->
  ckey a = ckey b -> a = b.
Proof. exact ckey_injective_partial. Qed.
Print Assumptions C20_circuit_key_injective_partial.

(* not injective: zero padding (known finding K20c, marker 2011) ... *)
Theorem C20_circuit_key_injective_refuted_padding : ~ (forall a b, ckey a = ckey b -> a = b).
Proof. exact ckey_injective_refuted_padding. Qed.
Print Assumptions C20_circuit_key_injective_refuted_padding.

(* ... and truncation beyond 32 bytes, even without trailing zeros (known finding K20b, marker 2010) *)
Theorem C20_circuit_key_injective_refuted_truncation :
  exists a b, length a = 33%nat /\ length b = 33%nat /\ trailing_zero a = false /\ trailing_zero b = false /\
              a <> b /\ ckey a = ckey b.
Proof. exact ckey_injective_refuted_truncation. Qed.
Print Assumptions C20_circuit_key_injective_refuted_truncation.

(* exactly: two circuit-ids (any length) share a key iff they agree after cutting to 32 bytes and dropping
   trailing zero bytes; that normalisation is the identity on the guard of the _partial theorem *)
Theorem C20_circuit_key_collide_iff : forall a b, ckey a = ckey b <-> cnorm a = cnorm b.
Proof. exact ckey_collide_iff. Qed.
Print Assumptions C20_circuit_key_collide_iff.

Theorem C20_circuit_key_norm_id_on_guard : forall l,
  (length l <= 32)%nat -> trailing_zero l = false -> cnorm l = l.
Proof. exact cnorm_id_on_guard. Qed.
Print Assumptions C20_circuit_key_norm_id_on_guard.

(* ================= ebpf.HashCircuitID ======================================================== *)
(* the hash is 64-bit FNV-1a over the whole input: every byte, in order, one round
   ((h xor b) * 0x100000001b3) mod 2^64 from the offset basis, for every byte string *)
Theorem C20_circuit_hash_is_fnv1a :
  chash [] = 14695981039346656037 /\
  forall l b, chash (l ++ [b]) = (N.lxor (chash l) b * 1099511628211) mod 18446744073709551616.
Proof. exact (conj chash_nil (fun l b => eq_trans (chash_snoc l b) (hstep_mod (chash l) b))). Qed.
Print Assumptions C20_circuit_hash_is_fnv1a.

(* circuit-ids of any length that differ in exactly one byte (first, middle or last) never share a hash *)
Theorem C20_circuit_hash_one_byte_differs : forall pre a b suf,
  wf_bytes suf -> a < 256 -> b < 256 -> a <> b ->
  chash (pre ++ a :: suf) <> chash (pre ++ b :: suf).
Proof. exact chash_one_byte_differs. Qed.
Print Assumptions C20_circuit_hash_one_byte_differs.

(* ================= primary map + secondary indexes ===========================================
   state.Store (kinds 0-3), subscriber.Manager (kind 4), allocator.MemoryAllocationStore (kind 5) *)
Theorem C20_idx_agree_refuted_duplicate_key :      (* known finding K20d, marker 2020 *)
  exists ops, ~ idx_agree (i_run (i_init 1 [] []) ops).
Proof. exact idx_agree_refuted_duplicate_key. Qed.
Print Assumptions C20_idx_agree_refuted_duplicate_key.

Theorem C20_idx_agree_refuted_update :             (* known finding K20e, marker 2021 *)
  exists ops, ~ idx_agree (i_run (i_init 2 [] []) ops).
Proof. exact idx_agree_refuted_update. Qed.
Print Assumptions C20_idx_agree_refuted_update.

Theorem C20_idx_agree_refuted_reassign :           (* known finding K20f, marker 2022 *)
  exists ops, ~ idx_agree (i_run (i_init 4 [] []) ops).
Proof. exact idx_agree_refuted_reassign. Qed.
Print Assumptions C20_idx_agree_refuted_reassign.

(* every store kind: Create with an unused id and keys no other entity holds, AssignAddress of an unheld
   address to a session without one, and any Delete keep primary map and indexes in agreement
   (decidable guard i_guard; record updates of kinds 0-3 are outside this theorem) *)
Theorem C20_idx_agree_partial : forall kind ids probe ops st,
  i_run_g (i_init kind ids probe) ops = Some st -> idx_agree st.
Proof. exact idx_agree_partial. Qed.
Print Assumptions C20_idx_agree_partial.

Example C20_idx_example :
  exists st, i_run_g (i_init 4 [] []) [ICreate 0 [(0, 1)]; ICreate 1 [(0, 2)]; IUpdate 0 [(1, 9)]; IDelete 1] = Some st /\
             get2 (i_idx st) 1 9 = Some 0.
Proof. exact idx_guard_satisfiable. Qed.

(* ================= subscriber.Manager under concurrent callers ================================
   Model/KeysMgr.v: one step = one critical section of CreateSession / AssignAddress / ActivateSession /
   TerminateSession; [ops] is ANY list of such steps, i.e. every interleaving of any number of calls.
   On the code after commit 060c165 (AssignAddress re-checks the session after the allocator call). *)
Theorem C20_mgr_mac_index_refuted_double_teardown :     (* known finding K20g, marker 2024 *)
  exists ops, ~ mac_agree (g_run (g_init 100 [] []) ops).
Proof. exact mac_agree_refuted_double_teardown. Qed.
Print Assumptions C20_mgr_mac_index_refuted_double_teardown.

Theorem C20_mgr_ip_index_refuted_reassign :              (* known finding K20f, marker 2022 *)
  exists ops, ~ ip_agree (g_run (g_init 100 [] []) ops).
Proof. exact ip_agree_refuted_reassign. Qed.
Print Assumptions C20_mgr_ip_index_refuted_reassign.

(* MAC index: forward and reverse agree after every interleaving in which the second section of a
   TerminateSession finds its session still stored (decidable guard g_guard_mac) *)
Theorem C20_mgr_mac_index_agrees_partial : forall cap pm pi ops st,
  g_run_with g_guard_mac (g_init cap pm pi) ops = Some st ->
  forall m id, aget (g_mac st) m = Some id <->
               exists o, aget (g_heap st) id = Some o /\ so_stored o = true /\ so_mac o = m.
Proof. exact mgr_mac_index_agrees_partial. Qed.
Print Assumptions C20_mgr_mac_index_agrees_partial.

(* both indexes: moreover an address is written only for a session without one and only when no session
   is indexed under it (guard g_guard) *)
Theorem C20_mgr_indexes_agree_partial : forall cap pm pi ops st,
  g_run_with g_guard (g_init cap pm pi) ops = Some st ->
  (forall m id, aget (g_mac st) m = Some id <->
                exists o, aget (g_heap st) id = Some o /\ so_stored o = true /\ so_mac o = m) /\
  (forall k id, aget (g_ip st) k = Some id <->
                exists o, aget (g_heap st) id = Some o /\ so_stored o = true /\ so_ip o = Some k).
Proof. exact mgr_indexes_agree_partial. Qed.
Print Assumptions C20_mgr_indexes_agree_partial.

(* consequently a MAC / an address identifies at most one stored session *)
Theorem C20_mgr_key_identifies_one : forall st a b oa ob,
  aget (g_heap st) a = Some oa -> aget (g_heap st) b = Some ob ->
  so_stored oa = true -> so_stored ob = true ->
  (mac_agree st -> so_mac oa = so_mac ob -> a = b) /\
  (ip_agree st -> forall k, so_ip oa = Some k -> so_ip ob = Some k -> a = b).
Proof. exact mgr_key_identifies_one. Qed.
Print Assumptions C20_mgr_key_identifies_one.

(* release: the second section of TerminateSession frees the session's MAC and address, leaves every
   other entry alone, and the MAC is accepted again at once (capacity permitting) *)
Theorem C20_mgr_term_end_frees : forall st id o,
  aget (g_heap st) id = Some o ->
  let st' := g_next_st st (GTermEnd id) in
  aget (g_mac st') (so_mac o) = None /\
  (forall m, m <> so_mac o -> aget (g_mac st') m = aget (g_mac st) m) /\
  (forall k, so_ip o <> Some k -> aget (g_ip st') k = aget (g_ip st) k) /\
  (forall k, so_ip o = Some k -> aget (g_ip st') k = None) /\
  (g_count st' < g_cap st' ->
   o_ret (snd (fst (g_step st' (GCreate (g_next st') (so_mac o))))) = RKey (g_next st')).
Proof. exact mgr_term_end_frees. Qed.
Print Assumptions C20_mgr_term_end_frees.

(* non-vacuity: overlapping AssignAddress / TerminateSession of one session, the MAC reused meanwhile *)
Example C20_mgr_example :
  exists st, g_run_with g_guard (g_init 100 [] [])
               [GCreate 0 0; GCreate 1 1; GAssignBegin 1; GAssignWrite 1 11; GAssignEnd 1;
                GAssignBegin 0; GAssignWrite 0 10; GAssignBegin 0; GTermBegin 0; GAssignEnd 0; GAssignWrite 0 12;
                GTermEnd 0; GCreate 2 0; GTerm 2; GCreate 3 0] = Some st /\
             aget (g_mac st) 0 = Some 3 /\ aget (g_mac st) 1 = Some 1 /\ aget (g_ip st) 11 = Some 1 /\
             aget (g_ip st) 10 = None /\ aget (g_ip st) 12 = None.
Proof. exact mgr_guard_satisfiable. Qed.
