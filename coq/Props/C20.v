(* C20 — subscriber-identifying keys map to at most one subscriber.  Statements only; proofs are in
   Proofs/KeysProofs.v and Proofs/IndexesProofs.v.  Every theorem is closed by [exact] and followed by
   Print Assumptions.  "run ... ops" is a fold over an ARBITRARY operation list: no bound on length. *)
From Coq Require Import NArith List Bool.
From Verif Require Import Base.Word Model.Keys Model.Indexes Proofs.KeysProofs Proofs.IndexesProofs.
Import ListNotations.
Local Open Scope N_scope.

(* ================= qinq.Mapper (Register / Unregister / UnregisterSubscriber) ================= *)
Theorem C20_qinq_bijective : forall c subs probe ops v id,
  let st := q_run (q_init c subs probe) ops in
  aget (q_v2s st) v = Some id <-> aget (q_s2v st) id = Some v.
Proof. exact qinq_bijective. Qed.
Print Assumptions C20_qinq_bijective.

Theorem C20_qinq_in_range : forall c subs probe ops v id,
  let st := q_run (q_init c subs probe) ops in
  aget (q_s2v st) id = Some v -> exists s x, v = pk s x /\ q_valid c s x = true.
Proof. exact qinq_in_range. Qed.
Print Assumptions C20_qinq_in_range.

(* release: the pair is free, only its holder loses a mapping, and the pair can be registered again *)
Theorem C20_qinq_unregister_frees : forall c subs probe ops s x,
  let st := q_run (q_init c subs probe) ops in
  let st' := q_next st (QUnreg s x) in
  aget (q_v2s st') (pk s x) = None /\
  (forall id, aget (q_s2v st) id <> Some (pk s x) -> aget (q_s2v st') id = aget (q_s2v st) id) /\
  (forall id, aget (q_s2v st) id = Some (pk s x) -> aget (q_s2v st') id = None) /\
  (forall id, q_valid c s x = true -> o_ret (snd (fst (q_step st' (QReg s x id)))) = RKey (pk s x)).
Proof. exact qinq_unregister_frees. Qed.
Print Assumptions C20_qinq_unregister_frees.

Theorem C20_qinq_register_frame : forall c subs probe ops s x id id',
  let st := q_run (q_init c subs probe) ops in
  id' <> id -> aget (q_s2v (q_next st (QReg s x id))) id' = aget (q_s2v st) id'.
Proof. exact qinq_register_frame. Qed.
Print Assumptions C20_qinq_register_frame.

(* ================= nexus.VLANAllocator (Allocate / AllocateWithSTag / Release / LoadFromStore) =====
   on the code after the fix: commits 693c44e, c6ea5fb, ca4533f.  v_wf = both configured ranges non-empty *)
Theorem C20_vlan_alloc_unique_in_range : forall c ntes probe ops,
  v_wf c ->
  let st := v_run (v_init c ntes probe) ops in
  (forall n s x, aget (v_alloc st) n = Some (s, x) <-> get2 (v_usage st) s x = Some n) /\
  (forall n s x, aget (v_alloc st) n = Some (s, x) -> in_s c s = true /\ in_c c x = true) /\
  (forall n n' s x, aget (v_alloc st) n = Some (s, x) -> aget (v_alloc st) n' = Some (s, x) -> n = n').
Proof. exact vlan_alloc_unique_in_range. Qed.
Print Assumptions C20_vlan_alloc_unique_in_range.

Theorem C20_vlan_exhausted_only_if_full : forall c ntes probe ops n,
  v_wf c ->
  let st := v_run (v_init c ntes probe) ops in
  o_ret (snd (fst (v_step st (VAlloc n)))) = RErr EExhausted ->
  forall s x, in_s c s = true -> in_c c x = true -> get2 (v_usage st) s x <> None.
Proof. exact vlan_exhausted_only_if_full. Qed.
Print Assumptions C20_vlan_exhausted_only_if_full.

Theorem C20_vlan_release_frees : forall c ntes probe ops n s x,
  v_wf c ->
  let st := v_run (v_init c ntes probe) ops in
  aget (v_alloc st) n = Some (s, x) ->
  let st' := v_next st (VRelease n) in
  aget (v_alloc st') n = None /\ get2 (v_usage st') s x = None /\
  (forall n', n' <> n -> aget (v_alloc st') n' = aget (v_alloc st) n') /\
  (forall s' x', (s', x') <> (s, x) -> get2 (v_usage st') s' x' = get2 (v_usage st) s' x').
Proof. exact vlan_release_frees. Qed.
Print Assumptions C20_vlan_release_frees.

(* non-vacuity: a range that ends at 65535, filled, released and re-filled; tags stay in range *)
Example C20_vlan_example :
  let c := {| v_ss := 65534; v_se := 65535; v_cs := 65535; v_ce := 65535 |} in
  v_wf c /\
  map (fun o => o_ret (snd (fst (v_step (v_run (v_init c [] []) [VAlloc 0; VAlloc 1]) o))))
      [VAlloc 2; VAllocS 0 65535; VAllocS 0 0] = [RErr EExhausted; RErr EExhausted; RErr ERange] /\
  aget (v_alloc (v_run (v_init c [] []) [VAlloc 0; VAlloc 1; VRelease 0; VAlloc 2])) 2 = Some (65534, 65535).
Proof. vm_compute. repeat split; discriminate. Qed.

(* ================= pppoe.SessionManager (CreateSession / RemoveSession) =====================
   on the code after commits 420446d (skip id 0 on wrap) and e9f5407 (refuse when the table is full) *)
Theorem C20_session_ids_unique : forall next pids pmacs ops,
  1 <= next <= 65535 ->
  let st := s_run (s_init next pids pmacs) ops in
  (forall x y, In x (s_live st) -> In y (s_live st) -> sid x = sid y -> x = y) /\
  (forall x, In x (s_live st) -> 1 <= sid x <= 65535 /\ aget (s_sess st) (sid x) = Some (shold x, smac x)) /\
  (forall id h mac, aget (s_sess st) id = Some (h, mac) -> In (h, id, mac) (s_live st)).
Proof. exact session_ids_unique. Qed.
Print Assumptions C20_session_ids_unique.

Theorem C20_session_create_fresh : forall next pids pmacs ops h mac id,
  1 <= next <= 65535 ->
  let st := s_run (s_init next pids pmacs) ops in
  o_ret (snd (fst (s_step st (SCreate h mac)))) = RKey id ->
  aget (s_sess st) id = None /\ 1 <= id <= 65535.
Proof. exact session_create_fresh. Qed.
Print Assumptions C20_session_create_fresh.

(* the MAC index: refuted for two sessions from one MAC (known finding K20a, marker 2005) ... *)
Theorem C20_session_mac_index_agrees_refuted :
  exists ops, ~ mac_index_agrees (s_run (s_init 1 [] []) ops).
Proof. exact session_mac_index_agrees_refuted. Qed.
Print Assumptions C20_session_mac_index_agrees_refuted.

(* ... and proved, in both directions, for histories in which live sessions have pairwise distinct MACs
   (decidable guard s_guard, the one the harness uses for its guarded stream) *)
Theorem C20_session_mac_index_agrees_partial : forall next pids pmacs ops st,
  1 <= next <= 65535 ->
  s_run_g (s_init next pids pmacs) ops = Some st ->
  (forall x, In x (s_live st) -> aget (s_mac st) (smac x) = Some (sid x)) /\
  (forall mac id, aget (s_mac st) mac = Some id -> exists h, In (h, id, mac) (s_live st)).
Proof. exact session_mac_index_agrees_partial. Qed.
Print Assumptions C20_session_mac_index_agrees_partial.

(* non-vacuity: wrap-around inside the guard: ids 65535, 1, 2 (0 is skipped), MAC index intact *)
Example C20_session_example :
  exists st, s_run_g (s_init 65535 [] []) [SCreate 0 10; SCreate 1 11; SRemove 65535; SCreate 2 10] = Some st /\
             map sid (s_live st) = [1; 2] /\ aget (s_mac st) 10 = Some 2.
Proof. eexists. split; [vm_compute; reflexivity|split; reflexivity]. Qed.

(* ================= ebpf.MakeCircuitIDKey ===================================================== *)
Theorem C20_circuit_key_length : forall l, length (ckey l) = 32%nat.
Proof. exact ckey_length. Qed.
Print Assumptions C20_circuit_key_length.

(* injective on circuit-ids of at most 32 bytes that do not end in a zero byte *)
Theorem C20_circuit_key_injective_partial : forall a b,
  (length a <= 32)%nat -> (length b <= 32)%nat ->
  trailing_zero a = false -> trailing_zero b = false ->
  ckey a = ckey b -> a = b.
Proof. exact ckey_injective_partial. Qed.
Print Assumptions C20_circuit_key_injective_partial.

(* not injective: zero padding (known finding K20c, marker 2011) ... *)
Theorem C20_circuit_key_injective_refuted_padding : ~ (forall a b, ckey a = ckey b -> a = b).
Proof. exact ckey_injective_refuted_padding. Qed.
Print Assumptions C20_circuit_key_injective_refuted_padding.

(* ... and truncation beyond 32 bytes, even without trailing zeros (known finding K20b, marker 2010) *)
Theorem C20_circuit_key_injective_refuted_truncation :
  exists a b, length a = 33%nat /\ length b = 33%nat /\ trailing_zero a = false /\ trailing_zero b = false /\
              a <> b /\ ckey a = ckey b.
Proof. exact ckey_injective_refuted_truncation. Qed.
Print Assumptions C20_circuit_key_injective_refuted_truncation.

(* ================= primary map + secondary indexes ===========================================
   state.Store (kinds 0-3), subscriber.Manager (kind 4), allocator.MemoryAllocationStore (kind 5) *)
Theorem C20_idx_agree_refuted_duplicate_key :      (* known finding K20d, marker 2020 *)
  exists ops, ~ idx_agree (i_run (i_init 1 [] []) ops).
Proof. exact idx_agree_refuted_duplicate_key. Qed.
Print Assumptions C20_idx_agree_refuted_duplicate_key.

Theorem C20_idx_agree_refuted_update :             (* known finding K20e, marker 2021 *)
  exists ops, ~ idx_agree (i_run (i_init 2 [] []) ops).
Proof. exact idx_agree_refuted_update. Qed.
Print Assumptions C20_idx_agree_refuted_update.

Theorem C20_idx_agree_refuted_reassign :           (* known finding K20f, marker 2022 *)
  exists ops, ~ idx_agree (i_run (i_init 4 [] []) ops).
Proof. exact idx_agree_refuted_reassign. Qed.
Print Assumptions C20_idx_agree_refuted_reassign.

(* every store kind: Create with an unused id and keys no other entity holds, AssignAddress of an unheld
   address to a session without one, and any Delete keep primary map and indexes in agreement
   (decidable guard i_guard; record updates of kinds 0-3 are outside this theorem) *)
Theorem C20_idx_agree_partial : forall kind ids probe ops st,
  i_run_g (i_init kind ids probe) ops = Some st -> idx_agree st.
Proof. exact idx_agree_partial. Qed.
Print Assumptions C20_idx_agree_partial.

Example C20_idx_example :
  exists st, i_run_g (i_init 4 [] []) [ICreate 0 [(0, 1)]; ICreate 1 [(0, 2)]; IUpdate 0 [(1, 9)]; IDelete 1] = Some st /\
             get2 (i_idx st) 1 9 = Some 0.
Proof. exact idx_guard_satisfiable. Qed.
