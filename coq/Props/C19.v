From Coq Require Import NArith List.
From Verif Require Import Base.Word Model.TcQos Model.QosMgr Model.TcQosSpec Proofs.TcQosProofs.
Import ListNotations.
Local Open Scope N_scope.

Theorem C19_rate_zero_step : forall t now len, rate t = 0 -> tb_step t now len = (t, true).
Proof. exact rate_zero_step. Qed.
Print Assumptions C19_rate_zero_step.
