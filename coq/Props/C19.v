(* C19 — rate limiter admits no more than the contract and never starves a subscriber.
   Statements only; proofs are in Proofs/TcQosProofs.v.  Subject: Model/TcQos.v (bpf/qos_ratelimit.c as
   coded: 64-bit wraps, per-packet floor) and Model/QosMgr.v (pkg/qos/manager.go SetSubscriberQoS);
   the executable property monitor is Model/TcQosSpec.v. *)
From Coq Require Import NArith List.
From Verif Require Import Base.Word Base.Check Model.TcQos Model.QosMgr Model.TcQosSpec Proofs.TcQosProofs.
Import ListNotations.
Local Open Scope N_scope.

(* ---- clause 0: upper bound — FULL.  For every bucket configuration with tokens <= burst (wf), every
   rate > 0, every arrival sequence with a non-decreasing clock below 2^64, every history [pre] and every
   window that starts with the packet at [now]: bytes admitted in the window
       <= burst + (rate/8) * (window length in ns) / 10^9
   (run = fold of token_bucket_check over (now, len) pairs, 64-bit product wrap and per-packet floor included) *)
Theorem C19_admitted_upper_bound : forall t pre now len rest,
  wf t -> rate t <> 0 -> mono (last t) (pre ++ (now, len) :: rest) ->
  admitted_after t pre ((now, len) :: rest) <= burst t + (last_time now rest - now) * (rate t / 8) / G.
Proof. exact admitted_upper_bound. Qed.
Print Assumptions C19_admitted_upper_bound.

(* the monitor's clause 0 agrees with this: in lockstep with the bucket (usync: H + tokens <= burst) it never
   rejects the Model's own verdicts, for every arrival sequence *)
Theorem C19_upper_clause_never_rejects_model : forall pks t c,
  wf t -> rate t <> 0 -> usync t c -> mono (last t) pks -> judge_run c t pks <> Some 0.
Proof. exact upper_clause_never_rejects_model. Qed.
Print Assumptions C19_upper_clause_never_rejects_model.

(* ---- clause 2: rate 0 = unlimited — FULL, for the bucket and for the whole TC program *)
Theorem C19_rate_zero_unlimited : forall pks t, rate t = 0 ->
  run t pks = (t, fold_right (fun p a => snd p + a) 0 pks).
Proof. exact rate_zero_admits_all. Qed.
Print Assumptions C19_rate_zero_unlimited.

Theorem C19_rate_zero_unlimited_prog : forall d m f plen now pin key v t,
  qos_lookup d m f = LHit key v t -> rate t = 0 ->
  exists p, qos_prog d m f plen now pin = (m, VRet TC_ACT_OK p, []).
Proof. exact rate_zero_prog. Qed.
Print Assumptions C19_rate_zero_unlimited_prog.

(* ---- clause 1: no starvation — REFUTED on the faithful Model.
   Statement: the monitor (TcQosSpec.judge, clause 1: credit discarded at the cap while the subscriber is
   being refused stays <= burst + 65535 bytes) never rejects the Model's own trace. *)
Theorem C19_no_starvation_refuted : ~ no_starvation_statement.
Proof. exact no_starvation_refuted. Qed.
Print Assumptions C19_no_starvation_refuted.

(* witness (i): 8 kbit/s, 100-byte packets every 999 999 ns: rejected (clause 1) inside the Rep op *)
Theorem C19_starvation_by_truncation : model_verdict starve_trunc_ops = (2, 2).
Proof. exact starve_trunc_rejected. Qed.
Print Assumptions C19_starvation_by_truncation.

(* ... and it is permanent: with every gap shorter than one token period nothing is admitted, for any
   number of packets (rate 8 kbit/s: any gap < 1 ms, e.g. the 0.5 ms of the design note) *)
Theorem C19_starved_forever : forall n t gap len,
  wf t -> rate t <> 0 -> gap * rate8 t < G -> tokens t < len -> last t + N.of_nat n * gap < W64 ->
  snd (run t (arrivals n (last t) gap len)) = 0.
Proof. exact starved_forever. Qed.
Print Assumptions C19_starved_forever.

(* witness (ii): 100 Gbit/s, one gap of 1.4757 s: elapsed * (rate/8) wraps past 2^64 *)
Theorem C19_starvation_by_product_wrap : exists ops, snd (model_verdict ops) = 2 /\
  exists t now, refill_product t now >= W64 /\ In (PutRaw Egress sub1 (tb_encode t)) ops.
Proof. exact no_starvation_refuted_by_wrap. Qed.
Print Assumptions C19_starvation_by_product_wrap.

(* ---- clause 1 under the decidable guard [exact_gaps] (rate a multiple of 8, every gap a whole number of
   token periods, product below 2^64): the monitor, run in lockstep with the bucket on the Model's own
   verdicts, never reports clause 1 — for every packet sequence and every synchronised contract. *)
Theorem C19_no_starvation_partial : forall pks t c,
  wf t -> rate t <> 0 -> rate t = 8 * rate8 t -> sync t c -> exact_gaps (last t) (rate8 t) pks ->
  judge_run c t pks <> Some 1.
Proof. exact no_starvation_partial. Qed.
Print Assumptions C19_no_starvation_partial.

Example C19_guard_satisfiable :
  let t := {| tokens := 1500; last := 0; rate := 8000; burst := 1500; prio := 0 |} in
  wf t /\ rate t = 8 * rate8 t /\
  exact_gaps (last t) (rate8 t) [(1000000, 100); (2000000, 100); (1000000000, 1500)] /\
  sync t (new_contract Egress sub1 8000 1500 None 1500 (Some 0)).
Proof. exact exact_guard_satisfiable. Qed.

(* ---- clause 3: the policy set through the control plane is the one enforced — REFUTED.
   [enforced s d ip r b]: the data path, given a frame of subscriber ip, finds a full bucket with rate r and
   burst b.  Refuted by the key byte order (any non-palindromic address) and, independently, by the ingress
   burst (policy burst ignored). *)
Theorem C19_policy_enforced_refuted : ~ policy_enforced_statement.
Proof. exact policy_enforced_refuted. Qed.
Print Assumptions C19_policy_enforced_refuted.

Theorem C19_policy_ingress_burst_refuted :
  ~ enforced (fst (fst (step init (SetQoS false [7; 7; 7; 7] 80000 80000 1500 0)))) Ingress [7; 7; 7; 7] 80000 1500.
Proof. exact policy_enforced_refuted_ingress_burst. Qed.
Print Assumptions C19_policy_ingress_burst_refuted.

(* guard: palindromic address, default burst, rates below 2^35 bit/s — from ANY prior state *)
Theorem C19_policy_enforced_partial : forall s viap ip down up pr,
  palindromic ip -> down < 34359738368 -> up < 34359738368 -> pr < 256 ->
  let s' := fst (fst (step s (SetQoS viap ip down up 0 pr))) in
  enforced s' Egress ip down (contract_burst down 0) /\ enforced s' Ingress ip up (contract_burst up 0).
Proof. exact policy_enforced_partial. Qed.
Print Assumptions C19_policy_enforced_partial.

(* the policy table (pkg/radius/policy.go): a plan that is RE-defined and re-applied is the plan in force —
   FULL, for every prior state, every name, every old and new value (lower / higher rate, rate 0, burst,
   priority): GetPolicy returns the new definition and SetSubscriberPolicy writes exactly what
   SetSubscriberQoS writes for the new values *)
Theorem C19_policy_redefinition_applied : forall s n ip d1 u1 b1 p1 d2 u2 b2 p2, n <> [] ->
  let s2 := after_ops s [PolAdd n d1 u1 b1 p1; ApplyPol ip n; PolAdd n d2 u2 b2 p2] in
  step s2 (PolGet n) = (s2, OPol (Some (d2, u2, b2, p2)), []) /\ step s2 (ApplyPol ip n) = step s2 (SetQoS true ip d2 u2 b2 p2).
Proof. exact policy_redefinition_applied. Qed.
Print Assumptions C19_policy_redefinition_applied.

Theorem C19_policy_via_plan_enforced_partial : forall s n ip down up pr,
  n <> [] -> palindromic ip -> down < 34359738368 -> up < 34359738368 -> pr < 256 ->
  let s' := after_ops s [PolAdd n down up 0 pr; ApplyPol ip n] in
  enforced s' Egress ip down (contract_burst down 0) /\ enforced s' Ingress ip up (contract_burst up 0).
Proof. exact policy_via_plan_enforced_partial. Qed.
Print Assumptions C19_policy_via_plan_enforced_partial.

Example C19_policy_guard_satisfiable : palindromic [10; 1; 1; 10] /\ contract_burst 50000000 0 = 6250000.
Proof. split; [exists 10, 1; repeat split; reflexivity|reflexivity]. Qed.
