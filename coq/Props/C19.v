(* C19 — rate limiter admits no more than the contract and never starves a subscriber.
   Statements only; proofs are in Proofs/TcQosProofs.v.  Subject: Model/TcQos.v (bpf/qos_ratelimit.c as
   coded: 64-bit wraps, per-packet floor) and Model/QosMgr.v (pkg/qos/manager.go SetSubscriberQoS);
   the executable property monitor is Model/TcQosSpec.v. *)
From Coq Require Import NArith List.
From Verif Require Import Base.Word Base.Check Model.TcQos Model.QosMgr Model.TcQosSpec Proofs.TcQosProofs Proofs.TcQosE2E.
Import ListNotations.
Local Open Scope N_scope.

(* ---- clause 0: upper bound — FULL.  For every bucket configuration with tokens <= burst (wf), every
   rate > 0, every arrival sequence with a non-decreasing clock below 2^64, every history [pre] and every
   window that starts with the packet at [now]: bytes admitted in the window
       <= burst + (rate/8) * (window length in ns) / 10^9
   (run = fold of token_bucket_check over (now, len) pairs, 64-bit product wrap and per-packet floor included) *)
Theorem C19_admitted_upper_bound : forall t pre now len rest,
  wf t -> rate t <> 0 -> mono (last t) (pre ++ (now, len) :: rest) ->
  admitted_after t pre ((now, len) :: rest) <= burst t + (last_time now rest - now) * (rate t / 8) / G.
Proof. exact admitted_upper_bound. Qed.
Print Assumptions C19_admitted_upper_bound.

(* the monitor's clause 0 agrees with this: in lockstep with the bucket (usync: H + tokens <= burst) it never
   rejects the Model's own verdicts, for every arrival sequence *)
Theorem C19_upper_clause_never_rejects_model : forall pks t c,
  wf t -> rate t <> 0 -> usync t c -> mono (last t) pks -> judge_run c t pks <> Some 0.
Proof. exact upper_clause_never_rejects_model. Qed.
Print Assumptions C19_upper_clause_never_rejects_model.

(* ---- clause 2: rate 0 = unlimited — FULL, for the bucket and for the whole TC program *)
Theorem C19_rate_zero_unlimited : forall pks t, rate t = 0 ->
  run t pks = (t, fold_right (fun p a => snd p + a) 0 pks).
Proof. exact rate_zero_admits_all. Qed.
Print Assumptions C19_rate_zero_unlimited.

Theorem C19_rate_zero_unlimited_prog : forall d m f plen now pin key v t,
  qos_lookup d m f = LHit key v t -> rate t = 0 ->
  exists p, qos_prog d m f plen now pin = (m, VRet TC_ACT_OK p, []).
Proof. exact rate_zero_prog. Qed.
Print Assumptions C19_rate_zero_unlimited_prog.

(* ---- clause 1: no starvation — REFUTED on the faithful Model.
   Statement: the monitor (TcQosSpec.judge, clause 1: credit discarded at the cap while the subscriber is
   being refused stays <= burst + 65535 bytes) never rejects the Model's own trace. *)
Theorem C19_no_starvation_refuted : ~ no_starvation_statement.
Proof. exact no_starvation_refuted. Qed.
Print Assumptions C19_no_starvation_refuted.

(* witness (i): 8 kbit/s, 100-byte packets every 999 999 ns: rejected (clause 1) inside the Rep op *)
Theorem C19_starvation_by_truncation : model_verdict starve_trunc_ops = (2, 2).
Proof. exact starve_trunc_rejected. Qed.
Print Assumptions C19_starvation_by_truncation.

(* ... and it is permanent: with every gap shorter than one token period nothing is admitted, for any
   number of packets (rate 8 kbit/s: any gap < 1 ms, e.g. the 0.5 ms of the design note) *)
Theorem C19_starved_forever : forall n t gap len,
  wf t -> rate t <> 0 -> gap * rate8 t < G -> tokens t < len -> last t + N.of_nat n * gap < W64 ->
  snd (run t (arrivals n (last t) gap len)) = 0.
Proof. exact starved_forever. Qed.
Print Assumptions C19_starved_forever.

(* witness (ii): 100 Gbit/s, one gap of 1.4757 s: elapsed * (rate/8) wraps past 2^64 *)
Theorem C19_starvation_by_product_wrap : exists ops, snd (model_verdict ops) = 2 /\
  exists t now, refill_product t now >= W64 /\ In (PutRaw Egress sub1 (tb_encode t)) ops.
Proof. exact no_starvation_refuted_by_wrap. Qed.
Print Assumptions C19_starvation_by_product_wrap.

(* ---- clause 1 under the decidable guard [exact_gaps] (rate a multiple of 8, every gap a whole number of
   token periods, product below 2^64): the monitor, run in lockstep with the bucket on the Model's own
   verdicts, never reports clause 1 — for every packet sequence and every synchronised contract. *)
Theorem C19_no_starvation_partial : forall pks t c,
  wf t -> rate t <> 0 -> rate t = 8 * rate8 t -> sync t c -> exact_gaps (last t) (rate8 t) pks ->
  judge_run c t pks <> Some 1.
Proof. exact no_starvation_partial. Qed.
Print Assumptions C19_no_starvation_partial.

Example C19_guard_satisfiable :
  let t := {| tokens := 1500; last := 0; rate := 8000; burst := 1500; prio := 0 |} in
  wf t /\ rate t = 8 * rate8 t /\
  exact_gaps (last t) (rate8 t) [(1000000, 100); (2000000, 100); (1000000000, 1500)] /\
  sync t (new_contract Egress sub1 8000 1500 None 1500 (Some 0)).
Proof. exact exact_guard_satisfiable. Qed.

(* ---- clause 3: the policy set through the control plane is the one enforced — REFUTED.
   [enforced s d ip r b]: the data path, given a frame of subscriber ip, finds a full bucket with rate r and
   burst b.  Refuted by the key byte order (any non-palindromic address) and, independently, by the ingress
   burst (policy burst ignored). *)
Theorem C19_policy_enforced_refuted : ~ policy_enforced_statement.
Proof. exact policy_enforced_refuted. Qed.
Print Assumptions C19_policy_enforced_refuted.

Theorem C19_policy_ingress_burst_refuted :
  ~ enforced (fst (fst (step init (SetQoS false [7; 7; 7; 7] 80000 80000 1500 0)))) Ingress [7; 7; 7; 7] 80000 1500.
Proof. exact policy_enforced_refuted_ingress_burst. Qed.
Print Assumptions C19_policy_ingress_burst_refuted.

(* guard: palindromic address, default burst, rates below 2^35 bit/s — from ANY prior state *)
Theorem C19_policy_enforced_partial : forall s viap ip down up pr,
  palindromic ip -> down < 34359738368 -> up < 34359738368 -> pr < 256 ->
  let s' := fst (fst (step s (SetQoS viap ip down up 0 pr))) in
  enforced s' Egress ip down (contract_burst down 0) /\ enforced s' Ingress ip up (contract_burst up 0).
Proof. exact policy_enforced_partial. Qed.
Print Assumptions C19_policy_enforced_partial.

(* the policy table (pkg/radius/policy.go): a plan that is RE-defined and re-applied is the plan in force —
   FULL, for every prior state, every name, every old and new value (lower / higher rate, rate 0, burst,
   priority): GetPolicy returns the new definition and SetSubscriberPolicy writes exactly what
   SetSubscriberQoS writes for the new values *)
Theorem C19_policy_redefinition_applied : forall s n ip d1 u1 b1 p1 d2 u2 b2 p2, n <> [] ->
  let s2 := after_ops s [PolAdd n d1 u1 b1 p1; ApplyPol ip n; PolAdd n d2 u2 b2 p2] in
  step s2 (PolGet n) = (s2, OPol (Some (d2, u2, b2, p2)), []) /\ step s2 (ApplyPol ip n) = step s2 (SetQoS true ip d2 u2 b2 p2).
Proof. exact policy_redefinition_applied. Qed.
Print Assumptions C19_policy_redefinition_applied.

(* ---- the policy table over ALL histories — FULL.  [plan_after n ops cur] tells, without the table, what the
   name n is bound to after the history ops: the last AddPolicy of that (non-empty) name, nothing after a
   RemovePolicy, the built-in value after LoadDefaultPolicies for built-in names; every other op (packets,
   SetSubscriberQoS, snapshots, GetPolicy, other names) leaves it alone.  For every history, every prior
   table and every name the table agrees with it ... *)
Theorem C19_policy_table_last_definition_wins : forall ops s n,
  p_get (pols (after_ops s ops)) n = plan_after n ops (p_get (pols s) n).
Proof. exact policy_table_last_definition_wins. Qed.
Print Assumptions C19_policy_table_last_definition_wins.

(* ... and that binding is what GetPolicy returns and what SetSubscriberPolicy writes (an unbound name is
   refused and nothing is written) *)
Theorem C19_policy_plan_in_force : forall ops s n ip,
  let s' := after_ops s ops in
  match plan_after n ops (p_get (pols s) n) with
  | Some (d, u, b, p) => step s' (PolGet n) = (s', OPol (Some (d, u, b, p)), []) /\
                         step s' (ApplyPol ip n) = step s' (SetQoS true ip d u b p)
  | None => step s' (PolGet n) = (s', OPol None, []) /\ step s' (ApplyPol ip n) = (s', OErr, [])
  end.
Proof. exact policy_plan_in_force. Qed.
Print Assumptions C19_policy_plan_in_force.

Example C19_plan_history_nontrivial :
  let guest := [103;117;101;115;116] in
  plan_after guest [PolAdd guest 1000 1000 1500 0; PolLoadDefaults; PolAdd guest 80000000 20000000 0 3;
                    PolRemove [1]; Sub Egress [10;1;1;10] 100 5] None = Some (80000000, 20000000, 0, 3) /\
  plan_after guest [PolAdd guest 1000 1000 1500 0; PolLoadDefaults] None = Some (10000000, 5000000, 500000, 2) /\
  plan_after guest [PolLoadDefaults; PolRemove guest] None = None.
Proof. exact plan_guard_satisfiable. Qed.

(* enforcement through a named plan, for EVERY history that leaves the plan bound to these values (first
   definition, re-definition, operator override of a built-in, built-in loaded over an operator plan ...),
   under the same guard as for SetSubscriberQoS *)
Theorem C19_policy_via_plan_enforced_partial : forall ops s n ip down up pr,
  plan_after n ops (p_get (pols s) n) = Some (down, up, 0, pr) ->
  palindromic ip -> down < 34359738368 -> up < 34359738368 -> pr < 256 ->
  let s' := after_ops s (ops ++ [ApplyPol ip n]) in
  enforced s' Egress ip down (contract_burst down 0) /\ enforced s' Ingress ip up (contract_burst up 0).
Proof. exact policy_via_plan_enforced_partial_gen. Qed.
Print Assumptions C19_policy_via_plan_enforced_partial.

(* the egress direction alone under a weaker guard: any rate below 2^64, any explicit burst below 2^32 (the
   default burst still needs the rate below 2^35); what remains is the key byte order *)
Theorem C19_policy_enforced_egress_partial : forall s viap ip down up b pr,
  palindromic ip -> down < W64 -> b < W32 -> pr < 256 -> (b = 0 -> down < 34359738368) ->
  let s' := fst (fst (step s (SetQoS viap ip down up b pr))) in
  enforced s' Egress ip down (contract_burst down b).
Proof. exact policy_enforced_egress_partial. Qed.
Print Assumptions C19_policy_enforced_egress_partial.

(* ---- rate 0 set through the control plane is unlimited at the data path (guard: key byte order only).
   Every packet length, clock value and incoming priority; the map is left unchanged, so it holds for every
   sequence of packets.  Directly, and through a plan that any history left bound to rate 0 (a limited plan
   re-defined to unlimited and re-applied, the built-in "unlimited") *)
Theorem C19_rate_zero_set_unlimited : forall s viap ip up b pr plen now pin,
  palindromic ip -> b < W32 -> pr < 256 ->
  let s' := fst (fst (step s (SetQoS viap ip 0 up b pr))) in
  exists p, qos_prog Egress (eg s') (sub_frame Egress ip) plen now pin = (eg s', VRet TC_ACT_OK p, []).
Proof. exact rate_zero_set_unlimited. Qed.
Print Assumptions C19_rate_zero_set_unlimited.

Theorem C19_rate_zero_set_unlimited_ingress : forall s viap ip down b pr plen now pin,
  palindromic ip -> pr < 256 ->
  let s' := fst (fst (step s (SetQoS viap ip down 0 b pr))) in
  exists p, qos_prog Ingress (ing s') (sub_frame Ingress ip) plen now pin = (ing s', VRet TC_ACT_OK p, []).
Proof. exact rate_zero_set_unlimited_ingress. Qed.
Print Assumptions C19_rate_zero_set_unlimited_ingress.

Theorem C19_rate_zero_via_plan_unlimited : forall ops s n ip up b pr plen now pin,
  plan_after n ops (p_get (pols s) n) = Some (0, up, b, pr) ->
  palindromic ip -> b < W32 -> pr < 256 ->
  let s' := after_ops s (ops ++ [ApplyPol ip n]) in
  exists p, qos_prog Egress (eg s') (sub_frame Egress ip) plen now pin = (eg s', VRet TC_ACT_OK p, []).
Proof. exact rate_zero_via_plan_unlimited. Qed.
Print Assumptions C19_rate_zero_via_plan_unlimited.

(* ---- clause 0 at the level of the whole TC program — FULL.  [prog_run] threads the map through successive
   runs of the program (parse, lookup, token_bucket_check, write-back of tokens/last_update into the 32-byte
   value) on one frame; for every map, direction, frame that hits a bucket with tokens <= burst and rate > 0,
   every history and window of every arrival sequence (non-decreasing 64-bit clock, 32-bit skb->len) *)
Theorem C19_prog_upper_bound : forall d m f key v t pre now len rest,
  qos_lookup d m f = LHit key v t -> wf t -> rate t <> 0 ->
  mono (last t) (pre ++ (now, len) :: rest) -> lens32 (pre ++ (now, len) :: rest) ->
  prog_admitted_after d m f pre ((now, len) :: rest) <= burst t + (last_time now rest - now) * (rate t / 8) / G.
Proof. exact prog_upper_bound. Qed.
Print Assumptions C19_prog_upper_bound.

(* ---- end to end: the contract set through the control plane bounds what the data path admits.  Download:
   any rate 1 .. 2^64-1, any explicit burst below 2^32 (default burst: rate below 2^35), from ANY prior state;
   guard = the key byte order (K19a).  Upload: default burst only (K19b).  Through a plan: for every
   control-plane history that leaves the plan bound to these values. *)
Theorem C19_policy_upper_bound_end_to_end : forall s viap ip down up b pr pre now len rest,
  palindromic ip -> down <> 0 -> down < W64 -> b < W32 -> pr < 256 -> (b = 0 -> down < 34359738368) ->
  mono 0 (pre ++ (now, len) :: rest) -> lens32 (pre ++ (now, len) :: rest) ->
  let s' := fst (fst (step s (SetQoS viap ip down up b pr))) in
  prog_admitted_after Egress (eg s') (sub_frame Egress ip) pre ((now, len) :: rest)
    <= contract_burst down b + (last_time now rest - now) * (down / 8) / G.
Proof. exact policy_upper_bound_end_to_end. Qed.
Print Assumptions C19_policy_upper_bound_end_to_end.

Theorem C19_policy_upper_bound_end_to_end_ingress : forall s viap ip down up pr pre now len rest,
  palindromic ip -> up <> 0 -> up < 34359738368 -> pr < 256 ->
  mono 0 (pre ++ (now, len) :: rest) -> lens32 (pre ++ (now, len) :: rest) ->
  let s' := fst (fst (step s (SetQoS viap ip down up 0 pr))) in
  prog_admitted_after Ingress (ing s') (sub_frame Ingress ip) pre ((now, len) :: rest)
    <= contract_burst up 0 + (last_time now rest - now) * (up / 8) / G.
Proof. exact policy_upper_bound_end_to_end_ingress. Qed.
Print Assumptions C19_policy_upper_bound_end_to_end_ingress.

Theorem C19_plan_upper_bound_end_to_end : forall ops s n ip down up b pr pre now len rest,
  plan_after n ops (p_get (pols s) n) = Some (down, up, b, pr) ->
  palindromic ip -> down <> 0 -> down < W64 -> b < W32 -> pr < 256 -> (b = 0 -> down < 34359738368) ->
  mono 0 (pre ++ (now, len) :: rest) -> lens32 (pre ++ (now, len) :: rest) ->
  let s' := after_ops s (ops ++ [ApplyPol ip n]) in
  prog_admitted_after Egress (eg s') (sub_frame Egress ip) pre ((now, len) :: rest)
    <= contract_burst down b + (last_time now rest - now) * (down / 8) / G.
Proof. exact plan_upper_bound_end_to_end. Qed.
Print Assumptions C19_plan_upper_bound_end_to_end.

(* a plan re-defined from 200 Mbit/s to 8 kbit/s, burst 3000, and re-applied: of five 1500-byte packets the
   program admits three (two from the burst, one after 2 s) *)
Example C19_end_to_end_nontrivial :
  let s' := after_ops init [PolAdd [103] 200000000 50000000 0 4; ApplyPol [10; 1; 1; 10] [103];
                            PolAdd [103] 8000 8000 3000 4; ApplyPol [10; 1; 1; 10] [103]] in
  let pks := [(1000, 1500); (1000, 1500); (1000, 1500); (2000000000, 1500); (2000000001, 1500)] in
  mono 0 pks /\ lens32 pks /\ prog_run Egress (eg s') (sub_frame Egress [10; 1; 1; 10]) pks =
  ([([10; 1; 1; 10], tb_encode {| tokens := 499; last := 2000000001; rate := 8000; burst := 3000; prio := 4 |})], 4500).
Proof. exact end_to_end_nontrivial. Qed.

(* ---- the monitor accepts the Model on the control plane — FULL: on every history without packet runs
   (AddPolicy / RemovePolicy / GetPolicy / LoadDefaultPolicies / ListPolicies / SetSubscriberPolicy /
   SetSubscriberQoS / RemoveSubscriberQoS / raw writes / snapshots), from every state with the monitor's
   table equal to the Model's, no clause fires on the Model's own outputs *)
Theorem C19_monitor_accepts_model_control_plane : forall ops s ss i,
  s_p ss = pols s -> forallb ctl_op ops = true ->
  accept_trace accept i ss (model_io_from s ops) = (0, 0).
Proof. exact monitor_accepts_model_control_plane. Qed.
Print Assumptions C19_monitor_accepts_model_control_plane.

Example C19_control_plane_history_nontrivial :
  let guest := [103;117;101;115;116] in
  let ops := [PolLoadDefaults; PolGet guest; PolAdd guest 80000000 20000000 0 3; PolGet guest; ApplyPol [10;1;1;10] guest;
              PolAdd [] 1 1 1 1; PolRemove guest; ApplyPol [10;1;1;10] guest; PolGet guest; PolList; Snap Egress] in
  forallb ctl_op ops = true /\
  map snd (model_io_from init ops) =
    [OUnit; OPol (Some (10000000, 5000000, 500000, 2)); OUnit; OPol (Some (80000000, 20000000, 0, 3)); OUnit;
     OErr; OUnit; OErr; OPol None;
     ONames (map fst (p_del (fold_left (fun t x => p_put t (fst x) (snd x)) default_policies []) guest));
     OSnap [([10;1;1;10], full_bucket 80000000 10000000 3)]].
Proof. exact control_plane_history_nontrivial. Qed.

Example C19_policy_guard_satisfiable : palindromic [10; 1; 1; 10] /\ contract_burst 50000000 0 = 6250000.
Proof. split; [exists 10, 1; repeat split; reflexivity|reflexivity]. Qed.
