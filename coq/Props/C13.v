(* C13 — the standby converges to the active node's session table.
   Statements only; proofs are in Proofs/HaSyncProofs.v.  Every theorem is closed by [exact] and
   followed by Print Assumptions.

   [monitor m c init sinit ops] (Model/HaSyncSpec.v) runs the Model of the HA sync message layer on
   the operation list [ops] — any interleaving of session adds/updates/deletes on the active,
   broadcast-loop iterations, heartbeats, full syncs, stream attaches, deliveries, disconnects, streams
   the standby lost while their handler stays registered on the active (Drop) and the late exit of such
   handlers (Reap),
   failed full syncs and restarts of the active, for any queue capacities [c]; a session is an id and
   a record with one value per field of ha.SessionState (generated list Model/HaSyncFields.v) — and
   feeds every (operation, observation) to the trace monitor the
   harness also runs on the real code, restricted to the clauses selected by [m]. *)
From Coq Require Import NArith List.
From Verif Require Import Base.Check Model.HaSyncFields Model.HaSync Model.HaSyncSpec Proofs.HaSyncProofs.
Import ListNotations.
Local Open Scope N_scope.

Definition C13_clause (k : N) : Prop := forall c ops, monitor (only k) c init sinit ops = None.
Definition C13_statement : Prop := C13_clause 0 /\ C13_clause 1 /\ C13_clause 2 /\ C13_clause 3.

(* (0) immediately after a completed full synchronisation the standby's store and received map
   equal the active's snapshot — full, after fix ff081a5 (before it: sessions deleted on the active
   while the standby was away survived, witness corpus/C13/k13a-*.json) *)
Theorem C13_after_full_sync_equal : C13_clause 0.
Proof. exact mon_after_full_sync_equal. Qed.
Print Assumptions C13_after_full_sync_equal.

(* from EVERY state, reachable or not: whatever the standby held, after the full sync it holds the
   active's records ([norm] is the identity on a record that has exactly the struct's fields, see
   C13_record_roundtrip; every record of a reachable state has) *)
Theorem C13_full_sync_copies_snapshot : forall c s,
  lnk s <> LStreaming ->
  forall id, lookup (sby (nxt c s FullSync)) id = option_map norm (lookup (act s) id) /\
             lookup (rcv (nxt c s FullSync)) id = option_map norm (lookup (act s) id).
Proof. exact full_sync_copies_snapshot. Qed.
Print Assumptions C13_full_sync_copies_snapshot.

(* the JSON round trip of a session record (encoding/json with the struct's omitempty tags, decoded
   into a fresh SessionState) is the identity on every record: a field omitted because it is zero
   comes back as zero *)
Theorem C13_record_roundtrip : forall r, length r = nf -> wire r = r.
Proof. exact record_roundtrip. Qed.
Print Assumptions C13_record_roundtrip.

Theorem C13_record_roundtrip_total : forall r, wire r = norm r /\ length (norm r) = nf /\ norm (norm r) = norm r.
Proof. exact record_roundtrip_total. Qed.
Print Assumptions C13_record_roundtrip_total.

(* ... which depends on decoding into a FRESH struct: decoding the same bytes into the record already
   held would keep every omitted field's old value *)
Example C13_decode_into_old_record_differs :
  dec_into (repeat 1 nf) (enc fields zero_rec) <> zero_rec /\ wire zero_rec = zero_rec.
Proof. exact merge_decode_differs. Qed.

(* (1) changes leave the pending queue in push order, reach the standby in the order they entered
   the stream, each delivery changes the standby's store by exactly that message and nothing but
   deliveries and full syncs changes it — full *)
Theorem C13_stream_applies_in_order : C13_clause 1.
Proof. exact mon_stream_applies_in_order. Qed.
Print Assumptions C13_stream_applies_in_order.

(* (1, record by record, from EVERY state) an add/update that reaches the standby REPLACES the record
   stored under its id — in the store and in the received map — by the pushed one, whatever the old
   record was and whatever fields went back to zero, and touches no other session; a delete removes
   exactly that session; the session manager's record enters the active's store as given *)
Theorem C13_update_replaces_record : forall c s id u r sq tl,
  lnk s = LStreaming -> cq s = MPut id u r sq :: tl ->
  let s' := nxt c s Deliver in
  lookup (sby s') id = Some (norm r) /\ lookup (rcv s') id = Some (norm r) /\
  (forall j, j <> id -> lookup (sby s') j = lookup (sby s) j /\ lookup (rcv s') j = lookup (rcv s) j).
Proof. exact deliver_replaces_record. Qed.
Print Assumptions C13_update_replaces_record.

Theorem C13_delete_removes_record : forall c s id sq tl,
  lnk s = LStreaming -> cq s = MDel id sq :: tl ->
  let s' := nxt c s Deliver in
  lookup (sby s') id = None /\ lookup (rcv s') id = None /\
  (forall j, j <> id -> lookup (sby s') j = lookup (sby s) j /\ lookup (rcv s') j = lookup (rcv s) j).
Proof. exact deliver_delete_removes. Qed.
Print Assumptions C13_delete_removes_record.

Theorem C13_put_stores_record : forall c s id r, lookup (act (nxt c s (Put id r))) id = Some (norm r).
Proof. exact put_stores_record. Qed.
Print Assumptions C13_put_stores_record.

(* (3) ... but "every change pushed while the stream is connected is applied" fails when the client
   channel (100) or the pending queue (1000) is full: the change is dropped.  Known finding K13c *)
Theorem C13_no_change_lost_while_connected_refuted : ~ C13_clause 3.
Proof. intros H. destruct no_change_lost_refuted as (c & ops & E). rewrite (H c ops) in E. discriminate. Qed.
Print Assumptions C13_no_change_lost_while_connected_refuted.

Theorem C13_no_change_lost_while_connected_partial : forall c ops,
  lossless c init ops = true -> monitor (only 3) c init sinit ops = None.
Proof. exact mon_no_change_lost_partial. Qed.
Print Assumptions C13_no_change_lost_while_connected_partial.

(* (2) link up, nothing pending, nothing in the stream => standby = active: refuted by a change that
   is broadcast between the full sync's snapshot and the stream attach (in neither; known finding
   K13b) and by overflow (K13c); proved for every history in which no change is lost that way *)
Theorem C13_quiescent_convergence_refuted : ~ C13_clause 2.
Proof. intros H. destruct quiescent_convergence_refuted as (c & ops & E). rewrite (H c ops) in E. discriminate. Qed.
Print Assumptions C13_quiescent_convergence_refuted.

Theorem C13_quiescent_convergence_partial : forall c ops,
  lossless c init ops = true -> monitor (only 2) c init sinit ops = None.
Proof. exact mon_quiescent_convergence_partial. Qed.
Print Assumptions C13_quiescent_convergence_partial.

Theorem C13_quiescent_tables_equal : forall c ops,
  lossless c init ops = true ->
  let s := run c init ops in
  lnk s = LStreaming -> pend s = [] -> cq s = [] -> forall id, lookup (sby s) id = lookup (act s) id.
Proof. exact quiescent_tables_equal. Qed.
Print Assumptions C13_quiescent_tables_equal.

(* the convergence clause under the WEAKER guard [healed]: a change lost on the stream (broadcast to
   nobody between snapshot and attach, dropped on the full client channel) no longer matters once a
   later full sync completed, and nothing lost before a restart of the active matters after it; only
   a push refused by the full pending queue (the store changed, nothing was queued) stays harmful
   until the active restarts — and it really is (C13_refused_push_not_repaired: a full sync followed
   by the stream re-applies the older queued message) *)
Theorem C13_quiescent_tables_equal_healed : forall c ops,
  healed c init ops = true ->
  let s := run c init ops in
  lnk s = LStreaming -> pend s = [] -> cq s = [] -> forall id, lookup (sby s) id = lookup (act s) id.
Proof. exact quiescent_tables_equal_healed. Qed.
Print Assumptions C13_quiescent_tables_equal_healed.

Theorem C13_lossless_implies_healed : forall c ops, lossless c init ops = true -> healed c init ops = true.
Proof. exact lossless_healed. Qed.
Print Assumptions C13_lossless_implies_healed.

Theorem C13_refused_push_not_repaired : exists c ops,
  monitor (only 2) c init sinit ops = Some 2 /\ taint_run c init Clean ops = PushLoss.
Proof. exact quiescent_convergence_refuted_push. Qed.
Print Assumptions C13_refused_push_not_repaired.

(* what the guards mean, exactly: the three ways a change is lost (ghost markers of the Model), in
   terms of the state and the real capacities — a push when the pending queue holds c_pcap (1000)
   messages; a broadcast of a change into a client channel holding c_ccap (100 + the one in the
   handler's hands) messages; a broadcast of a change between a completed full sync and the attach —
   and the queues never exceed their capacities *)
Theorem C13_push_refused_exactly_when : forall c s o,
  In 1304 (mks c s o) <-> is_push o = true /\ c_pcap c <= len (pend s).
Proof. exact marker_1304_exact. Qed.
Print Assumptions C13_push_refused_exactly_when.

Theorem C13_stream_drop_exactly_when : forall c s o,
  In 1303 (mks c s o) <-> o = Broadcast /\ pend s <> [] /\ lnk s = LStreaming /\ c_ccap c <= len (cq s).
Proof. exact marker_1303_exact. Qed.
Print Assumptions C13_stream_drop_exactly_when.

Theorem C13_gap_loss_exactly_when : forall c s o,
  In 1302 (mks c s o) <-> o = Broadcast /\ pend s <> [] /\ lnk s = LSynced.
Proof. exact marker_1302_exact. Qed.
Print Assumptions C13_gap_loss_exactly_when.

(* 1 <= c_ccap: the slot for the message in the stream handler's hands always exists *)
Theorem C13_queues_bounded : forall c ops, 1 <= c_ccap c -> bounded c (run c init ops).
Proof. exact queues_bounded. Qed.
Print Assumptions C13_queues_bounded.

(* all clauses, as the harness runs the monitor, inside the guard *)
Theorem C13_all_clauses_partial : forall c ops,
  lossless c init ops = true -> monitor (fun _ => true) c init sinit ops = None.
Proof. exact mon_all_partial. Qed.
Print Assumptions C13_all_clauses_partial.

Theorem C13_monitor_is_harness_check : forall m c ops s ss i,
  monitor m c s ss ops = None ->
  accept_trace (accept_m m) i ss
    (map (fun x => (fst (fst x), snd (fst x))) (model_trace (step c) s ops)) = (0, 0).
Proof. exact monitor_is_check. Qed.
Print Assumptions C13_monitor_is_harness_check.

(* non-vacuity: a lossless history (adds, an update that resets every other field, a heartbeat, deletes
   while away, a failed full sync, reconnection) ending quiescent with a non-empty table *)
Example C13_guard_satisfiable :
  lossless cfg_real init h_ok = true /\ lnk (run cfg_real init h_ok) = LStreaming /\
  pend (run cfg_real init h_ok) = [] /\ cq (run cfg_real init h_ok) = [] /\
  sby (run cfg_real init h_ok) = [Some rH; None; Some rB; None].
Proof. exact h_ok_facts. Qed.

(* non-vacuity of the weaker guard: a history that loses a change in the snapshot/attach gap, goes on,
   sees the active restart, and is healed: NOT lossless, yet quiescent and equal at the end *)
Example C13_healed_guard_satisfiable :
  lossless cfg_real init h_healed = false /\ healed cfg_real init h_healed = true /\
  lnk (run cfg_real init h_healed) = LStreaming /\
  pend (run cfg_real init h_healed) = [] /\ cq (run cfg_real init h_healed) = [] /\
  sby (run cfg_real init h_healed) = [None; None; Some rH] /\
  act (run cfg_real init h_healed) = [None; None; Some rH].
Proof. exact h_healed_facts. Qed.
