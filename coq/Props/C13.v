(* C13 — the standby converges to the active node's session table.
   Statements only; proofs are in Proofs/HaSyncProofs.v.  Every theorem is closed by [exact] and
   followed by Print Assumptions.

   [monitor m c init sinit ops] (Model/HaSyncSpec.v) runs the Model of the HA sync message layer on
   the operation list [ops] — any interleaving of session adds/updates/deletes on the active,
   broadcast-loop iterations, heartbeats, full syncs, stream attaches, deliveries and disconnects,
   for any queue capacities [c] — and feeds every (operation, observation) to the trace monitor the
   harness also runs on the real code, restricted to the clauses selected by [m]. *)
From Coq Require Import NArith List.
From Verif Require Import Base.Check Model.HaSync Model.HaSyncSpec Proofs.HaSyncProofs.
Import ListNotations.
Local Open Scope N_scope.

Definition C13_clause (k : N) : Prop := forall c ops, monitor (only k) c init sinit ops = None.
Definition C13_statement : Prop := C13_clause 0 /\ C13_clause 1 /\ C13_clause 2 /\ C13_clause 3.

(* (0) immediately after a completed full synchronisation the standby's store and received map
   equal the active's snapshot — full, after fix ff081a5 (before it: sessions deleted on the active
   while the standby was away survived, witness corpus/C13/k13a-*.json) *)
Theorem C13_after_full_sync_equal : C13_clause 0.
Proof. exact mon_after_full_sync_equal. Qed.
Print Assumptions C13_after_full_sync_equal.

Theorem C13_full_sync_copies_snapshot : forall c s,
  lnk s <> LStreaming ->
  forall id, lookup (sby (nxt c s FullSync)) id = lookup (act s) id /\
             lookup (rcv (nxt c s FullSync)) id = lookup (act s) id.
Proof. exact full_sync_copies_snapshot. Qed.
Print Assumptions C13_full_sync_copies_snapshot.

(* (1) changes leave the pending queue in push order, reach the standby in the order they entered
   the stream, each delivery changes the standby's store by exactly that message and nothing but
   deliveries and full syncs changes it — full *)
Theorem C13_stream_applies_in_order : C13_clause 1.
Proof. exact mon_stream_applies_in_order. Qed.
Print Assumptions C13_stream_applies_in_order.

(* (3) ... but "every change pushed while the stream is connected is applied" fails when the client
   channel (100) or the pending queue (1000) is full: the change is dropped.  Known finding K13c *)
Theorem C13_no_change_lost_while_connected_refuted : ~ C13_clause 3.
Proof. intros H. destruct no_change_lost_refuted as (c & ops & E). rewrite (H c ops) in E. discriminate. Qed.
Print Assumptions C13_no_change_lost_while_connected_refuted.

Theorem C13_no_change_lost_while_connected_partial : forall c ops,
  lossless c init ops = true -> monitor (only 3) c init sinit ops = None.
Proof. exact mon_no_change_lost_partial. Qed.
Print Assumptions C13_no_change_lost_while_connected_partial.

(* (2) link up, nothing pending, nothing in the stream => standby = active: refuted by a change that
   is broadcast between the full sync's snapshot and the stream attach (in neither; known finding
   K13b) and by overflow (K13c); proved for every history in which no change is lost that way *)
Theorem C13_quiescent_convergence_refuted : ~ C13_clause 2.
Proof. intros H. destruct quiescent_convergence_refuted as (c & ops & E). rewrite (H c ops) in E. discriminate. Qed.
Print Assumptions C13_quiescent_convergence_refuted.

Theorem C13_quiescent_convergence_partial : forall c ops,
  lossless c init ops = true -> monitor (only 2) c init sinit ops = None.
Proof. exact mon_quiescent_convergence_partial. Qed.
Print Assumptions C13_quiescent_convergence_partial.

Theorem C13_quiescent_tables_equal : forall c ops,
  lossless c init ops = true ->
  let s := run c init ops in
  lnk s = LStreaming -> pend s = [] -> cq s = [] -> forall id, lookup (sby s) id = lookup (act s) id.
Proof. exact quiescent_tables_equal. Qed.
Print Assumptions C13_quiescent_tables_equal.

(* all clauses, as the harness runs the monitor, inside the guard *)
Theorem C13_all_clauses_partial : forall c ops,
  lossless c init ops = true -> monitor (fun _ => true) c init sinit ops = None.
Proof. exact mon_all_partial. Qed.
Print Assumptions C13_all_clauses_partial.

Theorem C13_monitor_is_harness_check : forall m c ops s ss i,
  monitor m c s ss ops = None ->
  accept_trace (accept_m m) i ss
    (map (fun x => (fst (fst x), snd (fst x))) (model_trace (step c) s ops)) = (0, 0).
Proof. exact monitor_is_check. Qed.
Print Assumptions C13_monitor_is_harness_check.

(* non-vacuity: a lossless history (adds, update, deletes while away, reconnection) ending quiescent
   with a non-empty table *)
Example C13_guard_satisfiable :
  lossless cfg_real init h_ok = true /\ lnk (run cfg_real init h_ok) = LStreaming /\
  pend (run cfg_real init h_ok) = [] /\ cq (run cfg_real init h_ok) = [] /\
  sby (run cfg_real init h_ok) = [Some 2; None; Some 5; None].
Proof. exact h_ok_facts. Qed.
