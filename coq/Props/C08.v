(* C08 - every started session is accounted to a Stop, across outages and crashes.
   Statements only; proofs are in Proofs/AcctProofs.v.

   Subject: Model/Acct.v [step] (AccountingManager + accounting half of the RADIUS client as a
   crash-aware persistence protocol) observed through Model/AcctSpec.v ([holds k]: clause k of the
   monitor holds at every step of a trace).  [trace maxr ops] is the Model's own (op, output)
   trace from the initial state; ops range over ALL histories: every op carries its oracle (which
   requests the server drops), its crash countdown (which crash point kills the process) and the
   observed iteration orders. *)
From Coq Require Import NArith List.
From Verif Require Import Model.Gigaword Model.Acct Model.AcctSpec Proofs.AcctProofs Proofs.AcctExact.
Import ListNotations.
Local Open Scope N_scope.

Definition C08_clause (k : N) : Prop :=
  forall maxr ops, holds k (sinit maxr) (trace maxr ops) = true.

(* (2) never a Stop for a session that was not started: full *)
Theorem C08_no_stop_for_unstarted_session : C08_clause 2.
Proof. exact (clause_256 2 (or_introl eq_refl)). Qed.
Print Assumptions C08_no_stop_for_unstarted_session.

(* (5) records carry the session's own id / user / MAC / IP: full *)
Theorem C08_records_carry_own_identifiers : C08_clause 5.
Proof. exact (clause_256 5 (or_intror (or_introl eq_refl))). Qed.
Print Assumptions C08_records_carry_own_identifiers.

(* (6) counters: the wire split is exact for every value, fits the two 32-bit attributes for every
   64-bit value, and every accepted Stop/Interim record of every history decodes to a supplied pair *)
Theorem C08_gigaword_join_split : forall v, join (split v) = v.
Proof. exact join_split. Qed.
Print Assumptions C08_gigaword_join_split.

Theorem C08_gigaword_fits : forall v, v < G64 ->
  fst (split v) < G32 /\ match snd (split v) with Some g => 0 < g /\ g < G32 | None => v < G32 end.
Proof. exact split_fits. Qed.
Print Assumptions C08_gigaword_fits.

Theorem C08_counters_reported_exactly : C08_clause 6.
Proof. exact (clause_256 6 (or_intror (or_intror eq_refl))). Qed.
Print Assumptions C08_counters_reported_exactly.

(* (7) "records report the session's 64-bit counters EXACTLY", stated on what reaches the RADIUS server
   (decoded through the low-word/gigaword split), over ALL histories, outage patterns, crash points
   and patterns of counter-fetcher failure ([fe] of Stop / InterimTick / GracefulStop = the sessions for
   which the counter callback fails during that op; [cs] = what the callback returns per session):
     - a Stop / Interim-Update built by StopSession, the interim scan or the shutdown drain reports
       the counter source's value for ITS OWN session; when the source fails for that session it
       reports the values of the session's last Interim-Update that RADIUS acknowledged when it was
       first sent (0,0 if there was none since the session started) - never anything else;
     - a record re-sent from the pending queue / retry scan (also after pending.json was reloaded by
       a later process) repeats what an earlier transmission of a record of that session and status
       reported;
     - a Stop produced by orphan recovery (no counter source) reports the session's last accepted
       values or 0,0.
   [holds7] = Model/AcctSpec.v [ev7]/[run7] along the trace; this is the clause-7 monitor the harness
   runs on the implementation's traces. *)
Theorem C08_counters_exact_or_last_accepted : forall maxr ops, holds7 ainit (trace maxr ops) = true.
Proof. exact clause7_all. Qed.
Print Assumptions C08_counters_exact_or_last_accepted.

(* non-vacuity of (7): two sessions with their own counters; session 1's fetcher fails at the second
   interim and at StopSession, the Stop is dropped and re-sent from the queue: every record of
   session 1 after the first interim reports the last ACCEPTED values 5368709137 / 9663676419 (> 2^32:
   through gigawords), not the 99/99 the failing source would have given and not 0 *)
Theorem C08_counters_fallback_example : w7_reports =
  [(1, 1, (0, 0)); (1, 2, (0, 0));
   (3, 1, (5368709137, 9663676419)); (3, 2, (7, 4294967296));
   (3, 1, (5368709137, 9663676419)); (3, 2, (8, 8));
   (2, 1, (5368709137, 9663676419)); (3, 2, (8, 8)); (2, 1, (5368709137, 9663676419));
   (2, 2, (18446744073709551615, 3))].
Proof. exact w7_ok. Qed.
Print Assumptions C08_counters_fallback_example.

(* ... and the monitor does reject the same history when session 1's Stop reports 0,0 instead (what a
   StopSession that forgets the session before the fallback runs would send), although clause 6
   (membership in the supplied pairs, where 0,0 is always allowed) accepts it *)
Theorem C08_clause7_rejects_zeroed_stop : holds7 ainit w7_bad = false /\ holds 6 (sinit 3) w7_bad = true.
Proof. exact w7_bad_rejected. Qed.
Print Assumptions C08_clause7_rejects_zeroed_stop.

(* the acceptor with clause 7: rejects with 7 only where clauses 1-6 accept and the clause-7 run fails *)
Theorem C08_acceptor7_sound : forall st o r,
  match accept7 st o r with
  | inl st' => accept (fst st) o r = inl (fst st') /\ run7 o (pre7 (snd st) o r) (o_ev r) = (true, snd st')
  | inr k => accept (fst st) o r = inr k \/
             (k = 7 /\ (exists ss', accept (fst st) o r = inl ss') /\ fst (run7 o (pre7 (snd st) o r) (o_ev r)) = false)
  end.
Proof. exact accept7_sound. Qed.
Print Assumptions C08_acceptor7_sound.

(* (1) no Stop before its Start: refuted (K08a) *)
Theorem C08_stop_after_start_refuted : ~ C08_clause 1.
Proof. exact clause1_refuted. Qed.
Print Assumptions C08_stop_after_start_refuted.

(* (3) absent a crash an acknowledged Stop is not sent again: refuted twice (K08e, K08f) *)
Theorem C08_no_resend_refuted : ~ C08_clause 3.
Proof. exact clause3_refuted. Qed.
Print Assumptions C08_no_resend_refuted.

Theorem C08_no_resend_refuted_drain_leaves_files : holds 3 (sinit 2) (trace 2 w3a) = false.
Proof. exact clause3_refuted_drain. Qed.
Print Assumptions C08_no_resend_refuted_drain_leaves_files.

Theorem C08_no_resend_refuted_queue_and_retry_scan : holds 3 (sinit 2) (trace 2 w3b) = false.
Proof. exact clause3_refuted_double. Qed.
Print Assumptions C08_no_resend_refuted_queue_and_retry_scan.

(* (4) every ended session has an acknowledged or durably queued Stop: refuted four ways
   (K08b volatile queue, K08c Start window, K08d pending.json deleted on load, K08b at recovery) *)
Theorem C08_stop_delivered_or_durable_refuted : ~ C08_clause 4.
Proof. exact clause4_refuted. Qed.
Print Assumptions C08_stop_delivered_or_durable_refuted.

Theorem C08_stop_lost_volatile_queue : holds 4 (sinit 2) (trace 2 w4a) = false.
Proof. exact clause4_refuted_volatile_queue. Qed.
Print Assumptions C08_stop_lost_volatile_queue.

Theorem C08_stop_lost_start_window : holds 4 (sinit 2) (trace 2 w4b) = false.
Proof. exact clause4_refuted_start_window. Qed.
Print Assumptions C08_stop_lost_start_window.

Theorem C08_stop_lost_pending_json_deleted_on_load :
  holds 4 (sinit 2) (trace 2 (firstn 4 w4c)) = true /\ holds 4 (sinit 2) (trace 2 w4c) = false.
Proof. exact clause4_refuted_pending_json. Qed.
Print Assumptions C08_stop_lost_pending_json_deleted_on_load.

Theorem C08_stop_lost_at_recovery : holds 4 (sinit 2) (trace 2 w4d) = false.
Proof. exact clause4_refuted_recovery. Qed.
Print Assumptions C08_stop_lost_at_recovery.

(* (4) partial: crash-free histories (no crash point armed, no kill, no graceful stop / restart),
   under every outage pattern.  "Within the retry budget" is part of clause 4 itself: a session is
   exempt only when the server dropped more than MaxRetries of its Stop transmissions. *)
Theorem C08_stop_delivered_or_durable_partial : forall maxr ops,
  crash_free ops = true -> holds 4 (sinit maxr) (trace maxr ops) = true.
Proof. exact clause4_partial. Qed.
Print Assumptions C08_stop_delivered_or_durable_partial.

(* non-vacuity: a crash-free history with an outage that the retry path repairs within the budget;
   the guard holds, the Stop is dropped twice, delivered on the third transmission, and the Final
   observation has something to check (one ended session) *)
Definition C08_ex_ops : list op :=
  [Start 1 (1, 2, 3) [] 0; InterimTick [(1, (4294967296, 7))] [] [(1, 3)] [1] 0; Stop 1 1 18446744073709551615 4294967295 [] [(1, 2)] 0;
   ProcessQueued [] 0; ProcessQueued [(1, 2)] 0; RetryTick [] [0] 0; Final].
Example C08_partial_guard_satisfiable :
  (crash_free C08_ex_ops = true) /\
  (N.of_nat (length (filter (fun e : wrec * bool => negb (snd e))
                            (flat_map (fun x : op * out => o_ev (snd x)) (trace 3 C08_ex_ops)))) = 3) /\
  (st_pend (fold_left (fun s o => fst (fst (step s o))) C08_ex_ops (init 3)) = []).
Proof. vm_compute. repeat split. Qed.

(* the acceptor run on the implementation's traces rejects with clause k only where clause k fails *)
Theorem C08_acceptor_sound : forall ss o r,
  match accept ss o r with
  | inl ss' => ss' = supd ss o r /\ forall k, In k [1; 2; 3; 4; 5; 6] -> op_ok k ss o r = true
  | inr k => op_ok k ss o r = false
  end.
Proof. exact accept_sound. Qed.
Print Assumptions C08_acceptor_sound.
