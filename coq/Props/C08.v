(* C08 - every started session is accounted to a Stop, across outages and crashes. *)
From Coq Require Import NArith List.
From Verif Require Import Model.Gigaword Model.Acct Model.AcctSpec Proofs.AcctProofs.
Import ListNotations.
Local Open Scope N_scope.

Theorem C08_gigaword_exact : forall v, join (split v) = v.
Proof. exact join_split. Qed.
Print Assumptions C08_gigaword_exact.
