#!/bin/sh
# regenerate _CoqProject (file list is a glob so that components can be added without editing a shared file)
cd "$(dirname "$0")"
{
  echo "-Q . Verif"
  echo "-arg -w -arg -notation-overridden,-deprecated-hint-without-locality,-deprecated-instance-without-locality,-ambiguous-paths"
  ls Base/*.v Gen/*.v Model/*.v Proofs/*.v Props/*.v 2>/dev/null
} > _CoqProject.new
if ! cmp -s _CoqProject.new _CoqProject; then mv _CoqProject.new _CoqProject; coq_makefile -f _CoqProject -o Makefile >/dev/null; else rm _CoqProject.new; [ -f Makefile ] || coq_makefile -f _CoqProject -o Makefile >/dev/null; fi
