(* Generic correspondence / monitor evaluation, shared by every component.

   A component gives
     step   : state -> op -> state * out * list N     (Model; the list is ghost defect markers)
     accept : sstate -> op -> out -> sstate + N        (Spec acceptor; inr c = clause c rejected)
     out_eqb: equality on projected observables.
   A case is an initial pair of states and a list of (op, observed implementation output).
   [check_case] runs the Model on the ops and returns, as plain numbers the harness parses,
     - the first step where Model output differs from the implementation's (tie-1),
     - the first step / clause where the acceptor rejects the IMPLEMENTATION trace (tie-2),
     - the first step / clause where the acceptor rejects the MODEL's own trace,
     - ghost markers the Model raised up to the first impl rejection (all if none).
   Step numbers are 1-based; 0 means "none". *)
From Coq Require Import NArith List Bool.
Import ListNotations.
Local Open Scope N_scope.

Section Check.
  Context {state op out sstate : Type}.
  Variable step : state -> op -> state * out * list N.
  Variable accept : sstate -> op -> out -> sstate + N.
  Variable out_eqb : out -> out -> bool.

  (* run the acceptor over a trace; result: 0,0 or (step, clause+1) of the first rejection *)
  Fixpoint accept_trace (i : N) (ss : sstate) (tr : list (op * out)) : N * N :=
    match tr with
    | [] => (0, 0)
    | (o, r) :: tl =>
        match accept ss o r with
        | inl ss' => accept_trace (i + 1) ss' tl
        | inr c => (i, c + 1)
        end
    end.

  (* Model trace with markers *)
  Fixpoint model_trace (s : state) (ops : list op) : list (op * out * list N) :=
    match ops with
    | [] => []
    | o :: tl => let '(s', r, mk) := step s o in (o, r, mk) :: model_trace s' tl
    end.

  Fixpoint first_mismatch (i : N) (m : list (op * out * list N)) (tr : list (op * out)) : N :=
    match m, tr with
    | (_, r, _) :: m', (_, r') :: tr' => if out_eqb r r' then first_mismatch (i + 1) m' tr' else i
    | [], [] => 0
    | _, _ => i
    end.

  Fixpoint markers_upto (i lim : N) (m : list (op * out * list N)) : list N :=
    match m with
    | [] => []
    | (_, _, mk) :: m' =>
        if (lim =? 0) || (i <=? lim) then mk ++ markers_upto (i + 1) lim m' else []
    end.

  Fixpoint dedup (l : list N) : list N :=
    match l with
    | [] => []
    | x :: tl => if existsb (N.eqb x) tl then dedup tl else x :: dedup tl
    end.

  (* [mismatch; impl_rej_step; impl_clause+1; model_rej_step; model_clause+1; markers...] *)
  Definition check_case (s0 : state) (ss0 : sstate) (tr : list (op * out)) : list N :=
    let m := model_trace s0 (map fst tr) in
    let mm := first_mismatch 1 m tr in
    let '(ir, ic) := accept_trace 1 ss0 tr in
    let '(mr, mc) := accept_trace 1 ss0 (map (fun x => (fst (fst x), snd (fst x))) m) in
    mm :: ir :: ic :: mr :: mc :: dedup (markers_upto 1 ir m).

  (* Keep only the interesting cases: index :: verdict, for cases with a mismatch, a rejection or markers *)
  Fixpoint check_all (i : N) (cs : list (state * sstate * list (op * out))) : list (list N) :=
    match cs with
    | [] => []
    | (s0, ss0, tr) :: tl =>
        let v := check_case s0 ss0 tr in
        match v with
        | 0 :: 0 :: 0 :: 0 :: 0 :: [] => check_all (i + 1) tl
        | _ => (i :: v) :: check_all (i + 1) tl
        end
    end.
End Check.
