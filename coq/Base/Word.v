(* Fixed-width unsigned arithmetic on N, as Go's uint64/uint32/uint16/uint8 and C's __u64 etc.
   The wrap is explicit: every operation that can overflow is reduced mod 2^k. *)
From Coq Require Import NArith List Lia ZifyN ZifyNat ZifyBool.
Import ListNotations.
Local Open Scope N_scope.

Definition W64 : N := 18446744073709551616.   (* 2^64 *)
Definition W32 : N := 4294967296.             (* 2^32 *)
Definition W16 : N := 65536.
Definition W8  : N := 256.

(* wrap64 a = a mod 2^64, computed with a mask (N.modulo is two orders of magnitude slower under
   vm_compute); [wrap64_mod] below is the characterising lemma proofs use. *)
Definition mask64 : N := 18446744073709551615.
Definition wrap64 (a : N) : N := N.land a mask64.
Definition add64 (a b : N) : N := wrap64 (a + b).
Definition mul64 (a b : N) : N := wrap64 (a * b).
Definition sub64 (a b : N) : N := wrap64 (a + W64 - wrap64 b).
Definition shl64 (a n : N) : N := wrap64 (N.shiftl a n).
Definition shr64 (a n : N) : N := N.shiftr a n.
Definition not64 (a : N) : N := W64 - 1 - wrap64 a.

Lemma wrap64_mod a : wrap64 a = a mod W64.
Proof. unfold wrap64. change mask64 with (N.ones 64). rewrite N.land_ones. reflexivity. Qed.
Lemma wrap64_lt a : wrap64 a < W64.
Proof. rewrite wrap64_mod. apply N.mod_lt. discriminate. Qed.
Definition xor64 (a b : N) : N := N.lxor a b.

Definition u16 (a : N) : N := a mod W16.
Definition u32 (a : N) : N := a mod W32.
Definition u8  (a : N) : N := a mod W8.

(* byte strings *)
Definition byte := N.
Definition bytes := list N.
Definition wf_bytes (l : bytes) : Prop := Forall (fun b => b < 256) l.

Fixpoint bytes_eqb (a b : bytes) : bool :=
  match a, b with
  | [], [] => true
  | x :: a', y :: b' => (x =? y) && bytes_eqb a' b'
  | _, _ => false
  end.

Lemma bytes_eqb_eq a b : bytes_eqb a b = true <-> a = b.
Proof.
  revert b; induction a as [|x a IH]; intros [|y b]; cbn; try (split; congruence).
  rewrite Bool.andb_true_iff, N.eqb_eq, IH. split; [intros [-> ->]; reflexivity|intros H; inversion H; auto].
Qed.

(* lexicographic order on byte strings: Go's string comparison (sort.Strings) *)
Fixpoint lex_leb (a b : bytes) : bool :=
  match a, b with
  | [], _ => true
  | _ :: _, [] => false
  | x :: a', y :: b' => if x <? y then true else if y <? x then false else lex_leb a' b'
  end.

Lemma lex_leb_refl a : lex_leb a a = true.
Proof. induction a as [|x a IH]; cbn; [reflexivity|]. rewrite N.ltb_irrefl. exact IH. Qed.

Lemma lex_leb_total a b : lex_leb a b = true \/ lex_leb b a = true.
Proof.
  revert b; induction a as [|x a IH]; intros [|y b]; cbn; auto.
  destruct (x <? y) eqn:E1; auto. destruct (y <? x) eqn:E2; auto.
Qed.

Lemma lex_leb_antisym a b : lex_leb a b = true -> lex_leb b a = true -> a = b.
Proof.
  revert b; induction a as [|x a IH]; intros [|y b]; cbn; try congruence.
  destruct (x <? y) eqn:E1; destruct (y <? x) eqn:E2; try congruence; try lia.
  intros H1 H2. assert (x = y) by lia. subst. f_equal. auto.
Qed.

Lemma lex_leb_trans a b c : lex_leb a b = true -> lex_leb b c = true -> lex_leb a c = true.
Proof.
  revert b c; induction a as [|x a IH]; intros [|y b] [|z c]; cbn; try congruence.
  destruct (x <? y) eqn:E1; destruct (y <? x) eqn:E2; try lia;
  destruct (y <? z) eqn:E3; destruct (z <? y) eqn:E4; try lia; try congruence;
  destruct (x <? z) eqn:E5; destruct (z <? x) eqn:E6; try lia; try congruence.
  intros; eapply IH; eauto.
Qed.

(* big-/little-endian readers used by the codec models *)
Definition be16 (a b : N) : N := a * 256 + b.
Definition be32 (a b c d : N) : N := ((a * 256 + b) * 256 + c) * 256 + d.
Definition le32 (a b c d : N) : N := be32 d c b a.

Fixpoint be_bytes (n : nat) (v : N) : bytes :=   (* n bytes, most significant first *)
  match n with
  | O => []
  | S k => ((v / 256 ^ N.of_nat k) mod 256) :: be_bytes k v
  end.
Definition le_bytes (n : nat) (v : N) : bytes := rev (be_bytes n v).

Definition be_val (l : bytes) : N := fold_left (fun acc b => acc * 256 + b) l 0.
Definition le_val (l : bytes) : N := be_val (rev l).
