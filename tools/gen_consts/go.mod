module veriftools/gen_consts

go 1.25
