// gen_consts — translator (DESIGN §4.1): named integer constants of the repository under
// verification -> a Coq file of `Definition name : Z := value.`
//
//	gen_consts -repo <dir> -out <Consts.v> [-json <side.json>] [-cinc <dir with the shim bpf/ headers>]
//
// Go side:  every package-level integer constant (typed, untyped, iota enums, time.Duration as
// nanoseconds) of the non-test files (default build tags, i.e. WITHOUT -tags verif) of every package
// directory under <repo>/pkg, evaluated by go/types:        go_<pkg>_<ConstName>
// C side:   every object-like macro visible in the translation unit of each bpf/*.c and bpf/*.h
// (clang -dM -E with the flags of bin/setup-bpf) whose name occurs textually in the bpf sources and
// whose body evaluates to an integer, plus every enum constant with the same name filter:
//
//	c_<file-stem>_<NAME>
//
// Only declarations are read; no function body is translated.  Output is sorted and carries no
// absolute path, so two runs on the same tree give the same bytes and a changed constant is a
// one-line diff.  The side-car lists name -> value -> source position (and what was skipped).
package main

import (
	"encoding/json"
	"flag"
	"fmt"
	"go/ast"
	"go/build"
	"go/constant"
	"go/importer"
	"go/parser"
	"go/token"
	"go/types"
	"math/big"
	"os"
	"os/exec"
	"path/filepath"
	"regexp"
	"sort"
	"strings"
	"sync"
)

type entry struct {
	Name  string `json:"name"`
	Value string `json:"value"`
	Kind  string `json:"kind"` // go | c-macro | c-enum
	Type  string `json:"type,omitempty"`
	Src   string `json:"src"`
	Expr  string `json:"expr,omitempty"`
	grp   string
}

type skipped struct {
	Name string `json:"name"`
	Kind string `json:"kind"`
	Src  string `json:"src"`
	Why  string `json:"why"`
}

var (
	entries []entry
	skips   []skipped
)

// ---------------------------------------------------------------------------- Go side

type loader struct {
	fset    *token.FileSet
	repo    string
	modpath string
	pkgs    map[string]*types.Package
	loading map[string]bool
	std     types.Importer
	ctxt    build.Context
	fake    map[string]*types.Package
	needStd map[string]bool // standard packages that some const declaration mentions (time, math, ...)
}

func (l *loader) Import(path string) (*types.Package, error) {
	if path == "unsafe" {
		return types.Unsafe, nil
	}
	if path == l.modpath || strings.HasPrefix(path, l.modpath+"/") {
		rel := strings.TrimPrefix(strings.TrimPrefix(path, l.modpath), "/")
		if p, _ := l.load(rel, path); p != nil {
			return p, nil
		}
		return l.fakePkg(path), nil
	}
	first := path
	if i := strings.Index(path, "/"); i >= 0 {
		first = path[:i]
	}
	if !strings.Contains(first, ".") && l.needStd[path] {
		// standard library package mentioned by a const declaration: type-check it from GOROOT source
		// (the others are stubbed like third-party modules: nothing a constant can depend on)
		if p, err := l.std.Import(path); err == nil && p != nil {
			return p, nil
		}
	}
	// third-party module: not needed for constants; references to it stay unevaluated
	return l.fakePkg(path), nil
}

func (l *loader) fakePkg(path string) *types.Package {
	if p, ok := l.fake[path]; ok {
		return p
	}
	name := path[strings.LastIndex(path, "/")+1:]
	if m := regexp.MustCompile(`^v[0-9]+$`); m.MatchString(name) {
		rest := strings.TrimSuffix(path, "/"+name)
		name = rest[strings.LastIndex(rest, "/")+1:]
	}
	name = strings.TrimPrefix(name, "go-")
	name = strings.ReplaceAll(name, "-", "_")
	name = strings.ReplaceAll(name, ".", "_")
	p := types.NewPackage(path, name)
	p.MarkComplete()
	l.fake[path] = p
	return p
}

func (l *loader) files(dir string) []string {
	des, err := os.ReadDir(dir)
	if err != nil {
		return nil
	}
	var out []string
	for _, de := range des {
		n := de.Name()
		if de.IsDir() || !strings.HasSuffix(n, ".go") || strings.HasSuffix(n, "_test.go") {
			continue
		}
		if ok, err := l.ctxt.MatchFile(dir, n); err != nil || !ok {
			continue
		}
		out = append(out, n)
	}
	sort.Strings(out)
	return out
}

// load type-checks the package in <repo>/<rel>; type errors are tolerated (third-party imports are
// stubs), constants that do not evaluate are reported as skipped by the caller.
func (l *loader) load(rel, path string) (*types.Package, []*ast.File) {
	if p, ok := l.pkgs[path]; ok {
		return p, nil
	}
	if l.loading[path] {
		return nil, nil
	}
	l.loading[path] = true
	defer delete(l.loading, path)
	dir := filepath.Join(l.repo, rel)
	var files []*ast.File
	pkgname := ""
	for _, n := range l.files(dir) {
		f, err := parser.ParseFile(l.fset, filepath.Join(dir, n), nil, parser.SkipObjectResolution)
		if err != nil && f == nil {
			continue
		}
		if pkgname == "" {
			pkgname = f.Name.Name
		}
		if f.Name.Name != pkgname {
			continue
		}
		files = append(files, f)
	}
	if len(files) == 0 {
		l.pkgs[path] = nil
		return nil, nil
	}
	for _, f := range files {
		imp := map[string]string{}
		for _, is := range f.Imports {
			p := strings.Trim(is.Path.Value, "\"`")
			n := p[strings.LastIndex(p, "/")+1:]
			if is.Name != nil {
				n = is.Name.Name
			}
			imp[n] = p
		}
		for _, d := range f.Decls {
			gd, ok := d.(*ast.GenDecl)
			if !ok || gd.Tok != token.CONST {
				continue
			}
			ast.Inspect(gd, func(n ast.Node) bool {
				if se, ok := n.(*ast.SelectorExpr); ok {
					if x, ok := se.X.(*ast.Ident); ok {
						if p, ok := imp[x.Name]; ok {
							l.needStd[p] = true
						}
					}
				}
				return true
			})
		}
	}
	conf := types.Config{Importer: l, Error: func(error) {}, FakeImportC: true, IgnoreFuncBodies: true}
	p, _ := conf.Check(path, l.fset, files, nil)
	l.pkgs[path] = p
	return p, files
}

func isIntegerType(t types.Type) bool {
	b, ok := t.Underlying().(*types.Basic)
	if !ok {
		return false
	}
	return b.Info()&types.IsInteger != 0
}

func (l *loader) relpos(p token.Pos) string {
	pos := l.fset.Position(p)
	r, err := filepath.Rel(l.repo, pos.Filename)
	if err != nil {
		r = pos.Filename
	}
	return fmt.Sprintf("%s:%d", r, pos.Line)
}

func goConsts(l *loader, pkgdirs []string) {
	for _, rel := range pkgdirs {
		path := l.modpath + "/" + rel
		p, _ := l.load(rel, path)
		if p == nil {
			continue
		}
		tag := strings.ReplaceAll(strings.TrimPrefix(rel, "pkg/"), "/", "_")
		sc := p.Scope()
		for _, n := range sc.Names() {
			c, ok := sc.Lookup(n).(*types.Const)
			if !ok || n == "_" {
				continue
			}
			v := c.Val()
			src := l.relpos(c.Pos())
			if v.Kind() == constant.Unknown {
				skips = append(skips, skipped{"go_" + tag + "_" + n, "go", src, "constant expression not evaluated (depends on a third-party package?)"})
				continue
			}
			if v.Kind() != constant.Int || !isIntegerType(c.Type()) {
				continue // strings, floats, bools: not translated
			}
			entries = append(entries, entry{Name: "go_" + tag + "_" + n, Value: v.ExactString(), Kind: "go", grp: "1 " + rel,
				Type: types.TypeString(c.Type(), func(q *types.Package) string { return q.Name() }), Src: src})
		}
	}
}

// ---------------------------------------------------------------------------- C side

// cval is a C integer value with the type information the usual arithmetic conversions need.
type cval struct {
	v        *big.Int
	bits     uint
	unsigned bool
}

func (c cval) norm() cval {
	mod := new(big.Int).Lsh(big.NewInt(1), c.bits)
	v := new(big.Int).Mod(c.v, mod)
	if !c.unsigned {
		half := new(big.Int).Lsh(big.NewInt(1), c.bits-1)
		if v.Cmp(half) >= 0 {
			v.Sub(v, mod)
		}
	}
	return cval{v, c.bits, c.unsigned}
}

type ctok struct {
	k string // num id op chr
	s string
}

var ctokRe = regexp.MustCompile(`\s*(0[xX][0-9a-fA-F]+[uUlL]*|[0-9]+[uUlL]*|[A-Za-z_][A-Za-z0-9_]*|'(?:\\.|[^'\\])'|<<|>>|<=|>=|==|!=|&&|\|\||[-+*/%&|^~!()<>?:])`)

func ctokenize(s string) ([]ctok, bool) {
	var out []ctok
	s = strings.TrimSpace(s)
	for len(s) > 0 {
		m := ctokRe.FindStringSubmatchIndex(s)
		if m == nil || m[0] != 0 {
			return nil, false
		}
		t := s[m[2]:m[3]]
		s = strings.TrimSpace(s[m[1]:])
		switch {
		case t[0] >= '0' && t[0] <= '9':
			out = append(out, ctok{"num", t})
		case t[0] == '\'':
			out = append(out, ctok{"chr", t})
		case t[0] == '_' || (t[0] >= 'a' && t[0] <= 'z') || (t[0] >= 'A' && t[0] <= 'Z'):
			out = append(out, ctok{"id", t})
		default:
			out = append(out, ctok{"op", t})
		}
	}
	return out, true
}

type cenv struct {
	macros map[string]string // object-like macro bodies of this translation unit
	enums  map[string]cval
	memo   map[string]*cval
	busy   map[string]bool
}

var ctypeWords = map[string]bool{"unsigned": true, "signed": true, "int": true, "long": true, "short": true, "char": true,
	"__u8": true, "__u16": true, "__u32": true, "__u64": true, "__s8": true, "__s16": true, "__s32": true, "__s64": true,
	"__be16": true, "__be32": true, "__be64": true, "__le16": true, "__le32": true, "__le64": true,
	"u8": true, "u16": true, "u32": true, "u64": true, "s8": true, "s16": true, "s32": true, "s64": true,
	"uint8_t": true, "uint16_t": true, "uint32_t": true, "uint64_t": true, "int8_t": true, "int16_t": true, "int32_t": true, "int64_t": true,
	"size_t": true, "__sum16": true, "__wsum": true}

func ctypeOf(words []string) (uint, bool, bool) {
	bits, uns, longs, seen := uint(32), false, 0, false
	for _, w := range words {
		seen = true
		switch w {
		case "unsigned":
			uns = true
		case "signed", "int":
		case "long":
			longs++
		case "short":
			bits = 16
		case "char":
			bits = 8
		case "__u8", "u8", "uint8_t":
			bits, uns = 8, true
		case "__s8", "s8", "int8_t":
			bits = 8
		case "__u16", "u16", "uint16_t", "__be16", "__le16", "__sum16":
			bits, uns = 16, true
		case "__s16", "s16", "int16_t":
			bits = 16
		case "__u32", "u32", "uint32_t", "__be32", "__le32", "__wsum":
			bits, uns = 32, true
		case "__s32", "s32", "int32_t":
			bits = 32
		case "__u64", "u64", "uint64_t", "__be64", "__le64", "size_t":
			bits, uns = 64, true
		case "__s64", "s64", "int64_t":
			bits = 64
		default:
			return 0, false, false
		}
	}
	if longs > 0 {
		bits = 64
	}
	return bits, uns, seen
}

type cparser struct {
	t   []ctok
	i   int
	env *cenv
	err string
}

func (p *cparser) peek() *ctok {
	if p.i < len(p.t) {
		return &p.t[p.i]
	}
	return nil
}
func (p *cparser) isop(s string) bool { t := p.peek(); return t != nil && t.k == "op" && t.s == s }
func (p *cparser) fail(s string) cval {
	if p.err == "" {
		p.err = s
	}
	return cval{big.NewInt(0), 32, false}
}

func promote(a cval) cval {
	if a.bits < 32 {
		return cval{a.v, 32, false}
	}
	return a
}

func usual(a, b cval) (cval, cval) {
	a, b = promote(a), promote(b)
	bits := a.bits
	if b.bits > bits {
		bits = b.bits
	}
	uns := (a.bits == bits && a.unsigned) || (b.bits == bits && b.unsigned)
	return cval{a.v, bits, uns}.norm(), cval{b.v, bits, uns}.norm()
}

func boolv(b bool) cval {
	if b {
		return cval{big.NewInt(1), 32, false}
	}
	return cval{big.NewInt(0), 32, false}
}

var cprec = map[string]int{"||": 1, "&&": 2, "|": 3, "^": 4, "&": 5, "==": 6, "!=": 6, "<": 7, ">": 7, "<=": 7, ">=": 7,
	"<<": 8, ">>": 8, "+": 9, "-": 9, "*": 10, "/": 10, "%": 10}

func (p *cparser) expr() cval { return p.ternary() }

func (p *cparser) ternary() cval {
	c := p.binary(1)
	if p.isop("?") {
		p.i++
		a := p.expr()
		if !p.isop(":") {
			return p.fail("expected ':'")
		}
		p.i++
		b := p.ternary()
		a, b = usual(a, b)
		if c.v.Sign() != 0 {
			return a
		}
		return b
	}
	return c
}

func (p *cparser) binary(min int) cval {
	l := p.unary()
	for {
		t := p.peek()
		if t == nil || t.k != "op" {
			return l
		}
		pr, ok := cprec[t.s]
		if !ok || pr < min {
			return l
		}
		p.i++
		r := p.binary(pr + 1)
		l = p.apply(t.s, l, r)
		if p.err != "" {
			return l
		}
	}
}

func (p *cparser) apply(op string, l, r cval) cval {
	switch op {
	case "<<", ">>":
		l = promote(l)
		n := uint(r.v.Uint64())
		if r.v.Sign() < 0 || n >= 128 {
			return p.fail("bad shift count")
		}
		if op == "<<" {
			return cval{new(big.Int).Lsh(l.v, n), l.bits, l.unsigned}.norm()
		}
		return cval{new(big.Int).Rsh(l.v, n), l.bits, l.unsigned}.norm()
	case "&&":
		return boolv(l.v.Sign() != 0 && r.v.Sign() != 0)
	case "||":
		return boolv(l.v.Sign() != 0 || r.v.Sign() != 0)
	}
	a, b := usual(l, r)
	z := new(big.Int)
	switch op {
	case "+":
		z.Add(a.v, b.v)
	case "-":
		z.Sub(a.v, b.v)
	case "*":
		z.Mul(a.v, b.v)
	case "/", "%":
		if b.v.Sign() == 0 {
			return p.fail("division by zero")
		}
		if op == "/" {
			z.Quo(a.v, b.v)
		} else {
			z.Rem(a.v, b.v)
		}
	case "&":
		z.And(a.v, b.v)
	case "|":
		z.Or(a.v, b.v)
	case "^":
		z.Xor(a.v, b.v)
	case "==":
		return boolv(a.v.Cmp(b.v) == 0)
	case "!=":
		return boolv(a.v.Cmp(b.v) != 0)
	case "<":
		return boolv(a.v.Cmp(b.v) < 0)
	case ">":
		return boolv(a.v.Cmp(b.v) > 0)
	case "<=":
		return boolv(a.v.Cmp(b.v) <= 0)
	case ">=":
		return boolv(a.v.Cmp(b.v) >= 0)
	}
	return cval{z, a.bits, a.unsigned}.norm()
}

func (p *cparser) unary() cval {
	t := p.peek()
	if t == nil {
		return p.fail("unexpected end")
	}
	if t.k == "op" {
		switch t.s {
		case "-":
			p.i++
			a := promote(p.unary())
			return cval{new(big.Int).Neg(a.v), a.bits, a.unsigned}.norm()
		case "+":
			p.i++
			return promote(p.unary())
		case "~":
			p.i++
			a := promote(p.unary())
			return cval{new(big.Int).Not(a.v), a.bits, a.unsigned}.norm()
		case "!":
			p.i++
			return boolv(p.unary().v.Sign() == 0)
		case "(":
			// cast?  ( type-words ) unary
			j := p.i + 1
			var words []string
			for j < len(p.t) && p.t[j].k == "id" && ctypeWords[p.t[j].s] {
				words = append(words, p.t[j].s)
				j++
			}
			if len(words) > 0 && j < len(p.t) && p.t[j].k == "op" && p.t[j].s == ")" {
				bits, uns, ok := ctypeOf(words)
				if !ok {
					return p.fail("unknown cast")
				}
				p.i = j + 1
				a := p.unary()
				return cval{a.v, bits, uns}.norm()
			}
			p.i++
			a := p.expr()
			if !p.isop(")") {
				return p.fail("expected ')'")
			}
			p.i++
			return a
		}
		return p.fail("unexpected operator " + t.s)
	}
	p.i++
	switch t.k {
	case "num":
		return p.number(t.s)
	case "chr":
		s := t.s[1 : len(t.s)-1]
		if s[0] != '\\' {
			return cval{big.NewInt(int64(s[0])), 32, false}
		}
		esc := map[byte]int64{'n': 10, 't': 9, 'r': 13, '0': 0, '\\': 92, '\'': 39, '"': 34, 'a': 7, 'b': 8, 'f': 12, 'v': 11}
		if v, ok := esc[s[1]]; ok {
			return cval{big.NewInt(v), 32, false}
		}
		return p.fail("character escape")
	case "id":
		v, why := p.env.lookup(t.s)
		if v == nil {
			return p.fail(why)
		}
		return *v
	}
	return p.fail("unexpected token")
}

func (p *cparser) number(s string) cval {
	body := strings.TrimRight(s, "uUlL")
	suf := strings.ToLower(s[len(body):])
	v := new(big.Int)
	base := 10
	digits := body
	switch {
	case strings.HasPrefix(body, "0x") || strings.HasPrefix(body, "0X"):
		base, digits = 16, body[2:]
	case len(body) > 1 && body[0] == '0':
		base, digits = 8, body[1:]
	}
	if _, ok := v.SetString(digits, base); !ok {
		return p.fail("bad number " + s)
	}
	uns := strings.Contains(suf, "u")
	bits := uint(32)
	if strings.Contains(suf, "l") {
		bits = 64
	}
	// C11 6.4.4.1: first type of the list in which the value fits
	fits := func(b uint, u bool) bool {
		if u {
			return v.BitLen() <= int(b)
		}
		return v.BitLen() <= int(b)-1
	}
	for {
		if fits(bits, uns) {
			break
		}
		if !uns && base != 10 && fits(bits, true) {
			uns = true
			break
		}
		if bits == 64 {
			if !uns && fits(64, true) {
				uns = true
				break
			}
			return p.fail("literal too large " + s)
		}
		bits = 64
	}
	return cval{v, bits, uns}
}

func (e *cenv) lookup(name string) (*cval, string) {
	if v, ok := e.enums[name]; ok {
		return &v, ""
	}
	if v, ok := e.memo[name]; ok {
		if v == nil {
			return nil, "depends on " + name + " (not an integer constant)"
		}
		return v, ""
	}
	body, ok := e.macros[name]
	if !ok {
		return nil, "unknown identifier " + name
	}
	if e.busy[name] {
		return nil, "recursive macro " + name
	}
	e.busy[name] = true
	defer delete(e.busy, name)
	v, why := e.eval(body)
	if v == nil {
		e.memo[name] = nil
		return nil, why
	}
	e.memo[name] = v
	return v, ""
}

func (e *cenv) eval(body string) (*cval, string) {
	body = strings.TrimSpace(body)
	if body == "" {
		return nil, "empty body"
	}
	toks, ok := ctokenize(body)
	if !ok || len(toks) == 0 {
		return nil, "not an integer expression"
	}
	p := &cparser{t: toks, env: e}
	v := p.expr()
	if p.err != "" {
		return nil, p.err
	}
	if p.i != len(toks) {
		return nil, "trailing tokens"
	}
	return &v, ""
}

var (
	cCommentRe = regexp.MustCompile(`(?s)/\*.*?\*/|//[^\n]*`)
	cIdentRe   = regexp.MustCompile(`[A-Za-z_][A-Za-z0-9_]*`)
	cDefineRe  = regexp.MustCompile(`^#define\s+([A-Za-z_][A-Za-z0-9_]*)(\(?)\s*(.*)$`)
	cEnumRe    = regexp.MustCompile(`\benum\b\s*([A-Za-z_][A-Za-z0-9_]*)?\s*\{([^{}]*)\}`)
	cLineRe    = regexp.MustCompile(`(?m)^#\s*(?:line\s+)?[0-9]+\s+"[^"]*".*$`)
	cDefLineRe = regexp.MustCompile(`(?m)^[ \t]*#[ \t]*define[ \t]+([A-Za-z_][A-Za-z0-9_]*)`)
)

func lineOf(text, pat string) int {
	re := regexp.MustCompile(`(?m)^.*\b` + regexp.QuoteMeta(pat) + `\b`)
	loc := re.FindStringIndex(text)
	if loc == nil {
		return 0
	}
	return 1 + strings.Count(text[:loc[0]], "\n")
}

type clangRes struct {
	dm, pp     []byte
	err1, err2 error
}

var (
	clangPre = map[string]*clangRes{}
	clangWG  sync.WaitGroup
)

func cFlags(repo, cinc string) []string {
	return []string{"-target", "bpf", "-D__x86_64__", "-D__TARGET_ARCH_x86", "-I" + cinc, "-I/usr/include/x86_64-linux-gnu",
		"-I" + filepath.Join(repo, "bpf"), "-x", "c"}
}

// cPrefetch starts the preprocessor runs (two per translation unit) in the background so that they
// overlap with the Go type-checking; cConsts waits for them.
func cPrefetch(repo, cinc string) {
	for _, pat := range []string{"*.c", "*.h"} {
		m, _ := filepath.Glob(filepath.Join(repo, "bpf", pat))
		for _, f := range m {
			r := &clangRes{}
			clangPre[f] = r
			clangWG.Add(2)
			go func(f string) {
				defer clangWG.Done()
				r.dm, r.err1 = exec.Command("clang", append(append([]string{"-dM", "-E"}, cFlags(repo, cinc)...), f)...).Output()
			}(f)
			go func(f string) {
				defer clangWG.Done()
				r.pp, r.err2 = exec.Command("clang", append(append([]string{"-E"}, cFlags(repo, cinc)...), f)...).Output()
			}(f)
		}
	}
}

func cConsts(repo, cinc string) error {
	clangWG.Wait()
	bpf := filepath.Join(repo, "bpf")
	var srcs []string
	for _, pat := range []string{"*.c", "*.h"} {
		m, _ := filepath.Glob(filepath.Join(bpf, pat))
		srcs = append(srcs, m...)
	}
	sort.Strings(srcs)
	if len(srcs) == 0 {
		return nil
	}
	// identifiers that occur in the bpf sources (comments removed); where each name is #defined / enumerated
	raw := map[string]string{}
	ftokens := map[string]map[string]bool{}
	for _, f := range srcs {
		b, err := os.ReadFile(f)
		if err != nil {
			return err
		}
		raw[f] = string(b)
		ftokens[f] = map[string]bool{}
		for _, id := range cIdentRe.FindAllString(cCommentRe.ReplaceAllString(string(b), " "), -1) {
			ftokens[f][id] = true
		}
	}
	where := func(tu, name, kind string) string {
		// position of the definition inside the bpf sources if it is there, else "<system header>"
		order := []string{tu}
		for _, h := range srcs {
			if strings.HasSuffix(h, ".h") && h != tu {
				order = append(order, h)
			}
		}
		for _, f := range order {
			var ln int
			if kind == "c-macro" {
				for _, m := range cDefLineRe.FindAllStringSubmatchIndex(raw[f], -1) {
					if raw[f][m[2]:m[3]] == name {
						ln = 1 + strings.Count(raw[f][:m[0]], "\n")
						break
					}
				}
			} else if strings.Contains(raw[f], "enum") {
				for _, m := range cEnumRe.FindAllStringSubmatchIndex(cCommentRe.ReplaceAllStringFunc(raw[f], func(s string) string {
					return regexp.MustCompile(`[^\n]`).ReplaceAllString(s, " ")
				}), -1) {
					blk := raw[f][m[4]:m[5]]
					if regexp.MustCompile(`\b` + regexp.QuoteMeta(name) + `\b`).MatchString(blk) {
						ln = 1 + strings.Count(raw[f][:m[4]], "\n") + lineOf(blk, name) - 1
						break
					}
				}
			}
			if ln > 0 {
				r, _ := filepath.Rel(repo, f)
				return fmt.Sprintf("%s:%d", r, ln)
			}
		}
		return "<system header>"
	}
	for _, f := range srcs {
		stem := strings.TrimSuffix(strings.TrimSuffix(filepath.Base(f), ".c"), ".h")
		// name filter of this unit: identifiers of the file itself and of the bpf/ headers
		tokens := map[string]bool{}
		for g, t := range ftokens {
			if g == f || strings.HasSuffix(g, ".h") {
				for id := range t {
					tokens[id] = true
				}
			}
		}
		rel, _ := filepath.Rel(repo, f)
		pre := clangPre[f]
		if pre == nil {
			continue
		}
		dm, err := pre.dm, pre.err1
		if err != nil {
			skips = append(skips, skipped{"c_" + stem + "_*", "c", rel, "clang -dM -E failed: " + err.Error()})
			continue
		}
		pp, err := pre.pp, pre.err2
		if err != nil {
			skips = append(skips, skipped{"c_" + stem + "_*", "c", rel, "clang -E failed: " + err.Error()})
			continue
		}
		env := &cenv{macros: map[string]string{}, enums: map[string]cval{}, memo: map[string]*cval{}, busy: map[string]bool{}}
		for _, line := range strings.Split(string(dm), "\n") {
			m := cDefineRe.FindStringSubmatch(line)
			if m == nil || m[2] == "(" {
				continue
			}
			env.macros[m[1]] = m[3]
		}
		// enums of the preprocessed translation unit (macros already expanded)
		type en struct {
			name string
			v    cval
		}
		var enums []en
		text := cLineRe.ReplaceAllString(string(pp), "")
		for _, m := range cEnumRe.FindAllStringSubmatch(text, -1) {
			next := cval{big.NewInt(0), 32, false}
			valid := true
			for _, item := range strings.Split(m[2], ",") {
				item = strings.TrimSpace(item)
				if item == "" {
					continue
				}
				name, init := item, ""
				if i := strings.Index(item, "="); i >= 0 {
					name, init = strings.TrimSpace(item[:i]), strings.TrimSpace(item[i+1:])
				}
				if !regexp.MustCompile(`^[A-Za-z_][A-Za-z0-9_]*$`).MatchString(name) {
					valid = false
					continue
				}
				if init != "" {
					v, why := env.eval(init)
					if v == nil {
						valid = false
						if tokens[name] {
							skips = append(skips, skipped{"c_" + stem + "_" + name, "c-enum", rel, why})
						}
						continue
					}
					next, valid = *v, true
				}
				if !valid {
					continue
				}
				env.enums[name] = next
				enums = append(enums, en{name, next})
				next = cval{new(big.Int).Add(next.v, big.NewInt(1)), next.bits, next.unsigned}
			}
		}
		seen := map[string]bool{}
		for _, e := range enums {
			if !tokens[e.name] || strings.HasPrefix(e.name, "__") || seen[e.name] {
				continue
			}
			seen[e.name] = true
			entries = append(entries, entry{Name: "c_" + stem + "_" + e.name, Value: e.v.v.String(), Kind: "c-enum", grp: "2 " + rel, Src: where(f, e.name, "c-enum")})
		}
		var names []string
		for n := range env.macros {
			names = append(names, n)
		}
		sort.Strings(names)
		for _, n := range names {
			if !tokens[n] || strings.HasPrefix(n, "__") || seen[n] {
				continue
			}
			v, why := env.lookup(n)
			if v == nil {
				if cDefLineRe.MatchString(raw[f]) && where(f, n, "c-macro") != "<system header>" {
					skips = append(skips, skipped{"c_" + stem + "_" + n, "c-macro", where(f, n, "c-macro"), why + ": " + env.macros[n]})
				}
				continue
			}
			seen[n] = true
			entries = append(entries, entry{Name: "c_" + stem + "_" + n, Value: v.v.String(), Kind: "c-macro", grp: "2 " + rel, Src: where(f, n, "c-macro"), Expr: env.macros[n]})
		}
	}
	return nil
}

// ---------------------------------------------------------------------------- output

func zlit(s string) string {
	if strings.HasPrefix(s, "-") {
		return "(" + s + ")"
	}
	return s
}

func main() {
	repo := flag.String("repo", "/repo", "repository working tree")
	out := flag.String("out", "", "Coq file to write")
	js := flag.String("json", "", "side-car JSON (name -> value -> source position)")
	cinc := flag.String("cinc", "", "directory holding the shim bpf/bpf_helpers.h (default: <tool>/../../cbpf/include)")
	pkgsFlag := flag.String("pkgs", "", "comma-separated package directories relative to the repository (default: every directory under pkg/)")
	flag.Parse()
	if *out == "" {
		fmt.Fprintln(os.Stderr, "usage: gen_consts -repo <dir> -out <Consts.v> [-json <side.json>] [-cinc <dir>] [-pkgs a,b]")
		os.Exit(2)
	}
	r, err := filepath.Abs(*repo)
	if err != nil {
		panic(err)
	}
	if *cinc == "" {
		for _, c := range []string{os.Getenv("VERIF_CINC"), "/verif/cbpf/include"} {
			if c != "" {
				if _, err := os.Stat(c); err == nil {
					*cinc = c
					break
				}
			}
		}
	}
	modpath := ""
	if b, err := os.ReadFile(filepath.Join(r, "go.mod")); err == nil {
		if m := regexp.MustCompile(`(?m)^module\s+(\S+)`).FindStringSubmatch(string(b)); m != nil {
			modpath = m[1]
		}
	}
	if modpath == "" {
		fmt.Fprintln(os.Stderr, "gen_consts: no module line in", filepath.Join(r, "go.mod"))
		os.Exit(1)
	}
	var pkgdirs []string
	if *pkgsFlag != "" {
		pkgdirs = strings.Split(*pkgsFlag, ",")
	} else {
		filepath.WalkDir(filepath.Join(r, "pkg"), func(p string, d os.DirEntry, err error) error {
			if err == nil && d.IsDir() {
				if d.Name() == "testdata" || strings.HasPrefix(d.Name(), ".") {
					return filepath.SkipDir
				}
				rel, _ := filepath.Rel(r, p)
				pkgdirs = append(pkgdirs, rel)
			}
			return nil
		})
	}
	sort.Strings(pkgdirs)
	build.Default.CgoEnabled = false
	ctxt := build.Default
	ctxt.BuildTags = nil
	fset := token.NewFileSet()
	l := &loader{fset: fset, repo: r, modpath: modpath, pkgs: map[string]*types.Package{}, loading: map[string]bool{},
		std: importer.ForCompiler(fset, "source", nil), ctxt: ctxt, fake: map[string]*types.Package{}, needStd: map[string]bool{}}
	cPrefetch(r, *cinc)
	goConsts(l, pkgdirs)
	if err := cConsts(r, *cinc); err != nil {
		fmt.Fprintln(os.Stderr, "gen_consts:", err)
		os.Exit(1)
	}

	sort.SliceStable(entries, func(i, j int) bool {
		if entries[i].grp != entries[j].grp {
			return entries[i].grp < entries[j].grp
		}
		return entries[i].Name < entries[j].Name
	})
	// duplicate names cannot happen for Go (one scope per package) nor for C (seen-set per unit), but
	// two packages could map to one tag; keep the first and report
	var uniq []entry
	have := map[string]bool{}
	for _, e := range entries {
		if have[e.Name] {
			skips = append(skips, skipped{e.Name, e.Kind, e.Src, "duplicate generated name"})
			continue
		}
		have[e.Name] = true
		uniq = append(uniq, e)
	}
	entries = uniq
	sort.SliceStable(skips, func(i, j int) bool { return skips[i].Name < skips[j].Name })

	var b strings.Builder
	b.WriteString("(* GENERATED on every run by tools/gen_consts (+ harness/consts_defaults) from the working tree.\n")
	b.WriteString("   Do not edit; do not commit.  go_<pkg>_<Const>: package-level integer constants (go/types);\n")
	b.WriteString("   c_<file>_<NAME>: object-like macros / enum constants of bpf/ (clang -dM -E);\n")
	b.WriteString("   dflt_<pkg>_<Func>_<Field>: fields returned by the real Default*Config constructors. *)\n")
	b.WriteString("From Coq Require Import ZArith.\nOpen Scope Z_scope.\n")
	group := ""
	for _, e := range entries {
		g := e.grp[2:]
		if g != group {
			fmt.Fprintf(&b, "\n(* ---- %s ---- *)\n", g)
			group = g
		}
		cm := e.Src
		if e.Type != "" {
			cm += " " + e.Type
		}
		if v, ok := new(big.Int).SetString(e.Value, 10); ok && v.CmpAbs(big.NewInt(255)) > 0 {
			cm += fmt.Sprintf(" 0x%s", new(big.Int).Abs(v).Text(16))
		}
		fmt.Fprintf(&b, "Definition %s : Z := %s. (* %s *)\n", e.Name, zlit(e.Value), cm)
	}
	if err := os.WriteFile(*out, []byte(b.String()), 0o644); err != nil {
		fmt.Fprintln(os.Stderr, "gen_consts:", err)
		os.Exit(1)
	}
	if *js != "" {
		nGo, nC := 0, 0
		for _, e := range entries {
			if e.Kind == "go" {
				nGo++
			} else {
				nC++
			}
		}
		if skips == nil {
			skips = []skipped{}
		}
		side := map[string]any{"go": nGo, "c": nC, "consts": entries, "skipped": skips, "packages": pkgdirs}
		jb, _ := json.MarshalIndent(side, "", " ")
		if err := os.WriteFile(*js, append(jb, '\n'), 0o644); err != nil {
			fmt.Fprintln(os.Stderr, "gen_consts:", err)
			os.Exit(1)
		}
	}
	fmt.Printf("gen_consts: %d definitions (%d skipped) -> %s\n", len(entries), len(skips), *out)
}
