module veriftools/gen_hafields

go 1.23
