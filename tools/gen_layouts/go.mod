module veriftools/gen_layouts

go 1.25

require github.com/cilium/ebpf v0.12.3

require (
	golang.org/x/exp v0.0.0-20250718183923-645b1fa84792 // indirect
	golang.org/x/sys v0.39.0 // indirect
)
