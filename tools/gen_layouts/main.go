// gen_layouts — translator for DECLARATIONS only (DESIGN §4.1, C06).
//
// C side : for every map of the freshly compiled bpf/*.o its key and value type, flattened to leaf
//
//	members (name, byte offset, element width, element count) from the object's BTF
//	(cilium/ebpf btf package), plus the declared key/value sizes and the map kind (per-CPU or not).
//	Record structs that are not map keys/values (ring-buffer / perf records) are absent from BTF;
//	their layout is taken from `clang -Xclang -fdump-record-layouts`.
//
// Go side: the manager sources are parsed and type-checked (go/parser + go/types, stdlib only, imports
//
//	are not resolved: only locally declared types matter). Every call  <recv>.<field>.Put/Lookup/
//	Delete/Update(...)  whose <field> was bound by  <recv>.<field> = coll.Maps["<name>"]  yields a
//	(map, role, Go type) triple; the Go type is flattened by the encoding/binary rules cilium's
//	sysenc applies (sequential, no padding, blank fields written as zero, native endian).
//
// Output : coq/Gen/Layouts.v (two `list field` constants and the declared sizes per triple), a JSON
//
//	side-car for the driver and the report, and one C file per object holding an offsetof/sizeof
//	table (compiled by the check for the BPF target and for x86-64; the tables must equal Layouts.v).
//
// Function bodies are never translated.
package main

import (
	"encoding/json"
	"flag"
	"fmt"
	"go/ast"
	"go/build"
	"go/parser"
	"go/token"
	"go/types"
	"os"
	"os/exec"
	"path/filepath"
	"regexp"
	"sort"
	"strconv"
	"strings"

	"github.com/cilium/ebpf"
	"github.com/cilium/ebpf/btf"
)

// Field is one leaf member.
type Field struct {
	Name  string `json:"name"`
	Off   int    `json:"off"`
	Width int    `json:"width"`
	Count int    `json:"count"`
	Pad   bool   `json:"pad"`
	Elem  string `json:"elem,omitempty"` // element type as declared (Go basic type / C typedef or int name): side-car only
}

type Site struct {
	File  string `json:"file"`
	Line  int    `json:"line"`
	Func  string `json:"func"`
	Op    string `json:"op"`
	Slice bool   `json:"slice,omitempty"` // the value argument at this call site is a slice (one element per CPU)
}

type Pair struct {
	ID        string  `json:"id"`     // Coq identifier suffix
	Name      string  `json:"name"`   // object/map/role/GoType
	Object    string  `json:"object"` // nat44, ...
	Map       string  `json:"map"`    // C map name ("" for record pairs)
	Role      string  `json:"role"`   // key | value | record
	GoPkg     string  `json:"go_pkg"`
	GoType    string  `json:"go_type"`
	GoLocal   string  `json:"go_local,omitempty"` // function holding a local type
	CType     string  `json:"c_type"`
	Go        []Field `json:"go"`
	C         []Field `json:"c"`
	GoSize    int     `json:"go_size"`
	CSize     int     `json:"c_size"`
	Decl      int     `json:"decl"`
	PerCPU    bool    `json:"percpu"`
	Slice     bool    `json:"slice"`     // per-CPU map: EVERY value call site passes a slice; otherwise: SOME call site does
	SliceAny  bool    `json:"slice_any"` // some value call site passes a slice
	SliceAll  bool    `json:"slice_all"` // every value call site passes a slice
	nValSites int
	GoOK      bool   `json:"go_supported"`
	COK       bool   `json:"c_supported"`
	Writes    bool   `json:"writes"`
	Reads     bool   `json:"reads"`
	Sites     []Site `json:"sites"`
	MapType   string `json:"map_type,omitempty"`
	CSource   string `json:"c_source"` // btf | record-layout
	problems  []string
}

type Out struct {
	Repo         string              `json:"repo"`
	Pairs        []*Pair             `json:"pairs"`
	UnpairedMaps []string            `json:"c_maps_without_go_access"`
	UnboundGo    map[string][]string `json:"go_map_fields_without_c_map"`
	GoStructs    map[string][]string `json:"go_struct_types"`
	Notes        []string            `json:"notes"`
}

var pkgObject = map[string]string{"ebpf": "dhcp_fastpath", "nat": "nat44", "qos": "qos_ratelimit", "antispoof": "antispoof", "walledgarden": ""}
var pkgOrder = []string{"ebpf", "nat", "qos", "antispoof", "walledgarden"}

// record structs (not map keys/values): Go type <-> C struct written into a ring buffer / perf event
var recordPairs = []struct{ pkg, goType, object, cType string }{
	{"nat", "BPFLogEntry", "nat44", "nat_log_entry"},
	{"antispoof", "SpoofEvent", "antispoof", "spoof_event"},
}

func die(f string, a ...interface{}) {
	fmt.Fprintf(os.Stderr, "gen_layouts: "+f+"\n", a...)
	os.Exit(1)
}

// ------------------------------------------------------------------------------ C side (BTF)

func under(t btf.Type) btf.Type {
	for {
		switch v := t.(type) {
		case *btf.Typedef:
			t = v.Type
		case *btf.Const:
			t = v.Type
		case *btf.Volatile:
			t = v.Type
		case *btf.Restrict:
			t = v.Type
		default:
			return t
		}
	}
}

func isPadName(n string) bool {
	if i := strings.LastIndex(n, "."); i >= 0 {
		n = n[i+1:]
	}
	return strings.HasPrefix(n, "_pad") || n == "_"
}

// flattenC returns leaf members with absolute byte offsets; ok=false on an unsupported construct.
// cElemName: the element type as the source spells it (outermost typedef, e.g. __u32 / __be32), else the BTF name
func cElemName(t btf.Type) string {
	for {
		switch v := t.(type) {
		case *btf.Typedef:
			return v.Name
		case *btf.Const:
			t = v.Type
		case *btf.Volatile:
			t = v.Type
		case *btf.Restrict:
			t = v.Type
		case *btf.Enum:
			return "enum " + v.Name
		case *btf.Pointer:
			return "pointer"
		default:
			return t.TypeName()
		}
	}
}

func flattenC(t btf.Type, prefix string, base int, out *[]Field) bool {
	switch v := under(t).(type) {
	case *btf.Int:
		*out = append(*out, Field{prefix, base, int(v.Size), 1, isPadName(prefix), cElemName(t)})
	case *btf.Enum:
		*out = append(*out, Field{prefix, base, int(v.Size), 1, isPadName(prefix), cElemName(t)})
	case *btf.Pointer:
		*out = append(*out, Field{prefix, base, 8, 1, isPadName(prefix), "pointer"})
	case *btf.Array:
		switch e := under(v.Type).(type) {
		case *btf.Int:
			*out = append(*out, Field{prefix, base, int(e.Size), int(v.Nelems), isPadName(prefix), cElemName(v.Type)})
		case *btf.Enum:
			*out = append(*out, Field{prefix, base, int(e.Size), int(v.Nelems), isPadName(prefix), cElemName(v.Type)})
		default:
			sz, err := btf.Sizeof(v.Type)
			if err != nil {
				return false
			}
			for i := 0; i < int(v.Nelems); i++ {
				if !flattenC(v.Type, fmt.Sprintf("%s[%d]", prefix, i), base+i*sz, out) {
					return false
				}
			}
		}
	case *btf.Struct:
		for _, m := range v.Members {
			if m.BitfieldSize != 0 || m.Offset%8 != 0 {
				return false
			}
			n := m.Name
			if prefix != "" {
				n = prefix + "." + m.Name
			}
			if !flattenC(m.Type, n, base+int(m.Offset/8), out) {
				return false
			}
		}
	default: // unions, floats, functions ...
		return false
	}
	return true
}

func cTypeName(t btf.Type) string {
	switch v := t.(type) {
	case *btf.Typedef:
		return v.Name
	case *btf.Struct:
		return "struct " + v.Name
	case *btf.Int:
		return v.Name
	}
	return t.TypeName()
}

// record layout fallback: parse `clang -Xclang -fdump-record-layouts` for one struct
var reRec = regexp.MustCompile(`^\s*(\d+) \|\s+(.*)$`)

func cWidth(ty string) int {
	switch strings.TrimSpace(ty) {
	case "__u8", "__s8", "char", "unsigned char", "signed char", "_Bool":
		return 1
	case "__u16", "__s16", "__be16", "__le16", "short", "unsigned short":
		return 2
	case "__u32", "__s32", "__be32", "__le32", "int", "unsigned int", "__wsum":
		return 4
	case "__u64", "__s64", "__be64", "__le64", "long", "unsigned long", "long long", "unsigned long long":
		return 8
	}
	return 0
}

func recordLayout(repo, verif, object, cType string) (fields []Field, size int, ok bool) {
	src := filepath.Join(repo, "bpf", object+".c")
	cmd := exec.Command("clang", "-target", "bpf", "-D__x86_64__", "-D__TARGET_ARCH_x86", "-I"+filepath.Join(verif, "cbpf", "include"),
		"-I/usr/include/x86_64-linux-gnu", "-fsyntax-only", "-w", "-Xclang", "-fdump-record-layouts", src)
	b, _ := cmd.CombinedOutput()
	blocks := strings.Split(string(b), "*** Dumping AST Record Layout")
	for _, bl := range blocks {
		lines := strings.Split(bl, "\n")
		hdr := -1
		for i, l := range lines {
			if m := reRec.FindStringSubmatch(l); m != nil {
				hdr = i
				if strings.TrimSpace(m[2]) != "struct "+cType {
					hdr = -2
				}
				break
			}
		}
		if hdr < 0 {
			continue
		}
		fields, ok = nil, true
		for _, l := range lines[hdr+1:] {
			if m := regexp.MustCompile(`\[sizeof=(\d+)`).FindStringSubmatch(l); m != nil {
				size, _ = strconv.Atoi(m[1])
				break
			}
			m := reRec.FindStringSubmatch(l)
			if m == nil {
				continue
			}
			off, _ := strconv.Atoi(m[1])
			decl := strings.TrimSpace(m[2])
			sp := strings.LastIndex(decl, " ")
			if sp < 0 {
				ok = false
				continue
			}
			ty, name := decl[:sp], decl[sp+1:]
			count := 1
			if a := regexp.MustCompile(`^(.*)\[(\d+)\]$`).FindStringSubmatch(ty); a != nil {
				ty = a[1]
				count, _ = strconv.Atoi(a[2])
			}
			w := cWidth(ty)
			if w == 0 {
				ok = false
				continue
			}
			fields = append(fields, Field{name, off, w, count, isPadName(name), strings.TrimSpace(ty)})
		}
		return fields, size, ok && size > 0
	}
	return nil, 0, false
}

// ------------------------------------------------------------------------------ Go side

type failImporter struct{}

func (failImporter) Import(path string) (*types.Package, error) {
	return nil, fmt.Errorf("imports are not resolved by gen_layouts")
}

type goPkg struct {
	name  string
	fset  *token.FileSet
	files []*ast.File
	info  *types.Info
	pkg   *types.Package
}

func loadGo(repo, name string) *goPkg {
	dir := filepath.Join(repo, "pkg", name)
	ents, err := os.ReadDir(dir)
	if err != nil {
		die("read %s: %v", dir, err)
	}
	g := &goPkg{name: name, fset: token.NewFileSet()}
	ctx := build.Default
	ctx.GOOS, ctx.GOARCH, ctx.BuildTags = "linux", "amd64", nil
	for _, e := range ents {
		n := e.Name()
		if !strings.HasSuffix(n, ".go") || strings.HasSuffix(n, "_test.go") {
			continue
		}
		if ok, _ := ctx.MatchFile(dir, n); !ok {
			continue
		}
		f, err := parser.ParseFile(g.fset, filepath.Join(dir, n), nil, parser.SkipObjectResolution)
		if err != nil {
			die("parse %s: %v", n, err)
		}
		g.files = append(g.files, f)
	}
	g.info = &types.Info{Types: map[ast.Expr]types.TypeAndValue{}, Defs: map[*ast.Ident]types.Object{}, Uses: map[*ast.Ident]types.Object{}}
	conf := types.Config{Importer: failImporter{}, Error: func(error) {}, DisableUnusedImportCheck: true}
	g.pkg, _ = conf.Check(name, g.fset, g.files, g.info)
	return g
}

// binary-encoding flatten of a Go type (encoding/binary rules)
func flattenGo(t types.Type, prefix string, off *int, out *[]Field) bool {
	switch u := t.Underlying().(type) {
	case *types.Basic:
		w := 0
		switch u.Kind() {
		case types.Bool, types.Int8, types.Uint8:
			w = 1
		case types.Int16, types.Uint16:
			w = 2
		case types.Int32, types.Uint32, types.Float32:
			w = 4
		case types.Int64, types.Uint64, types.Float64:
			w = 8
		default: // int, uint, uintptr, string, invalid: encoding/binary refuses them
			return false
		}
		*out = append(*out, Field{prefix, *off, w, 1, false, u.Name()})
		*off += w
	case *types.Array:
		switch e := u.Elem().Underlying().(type) {
		case *types.Basic:
			var tmp []Field
			o := 0
			if !flattenGo(e, "", &o, &tmp) {
				return false
			}
			*out = append(*out, Field{prefix, *off, tmp[0].Width, int(u.Len()), false, tmp[0].Elem})
			*off += tmp[0].Width * int(u.Len())
		default:
			for i := 0; i < int(u.Len()); i++ {
				if !flattenGo(u.Elem(), fmt.Sprintf("%s[%d]", prefix, i), off, out) {
					return false
				}
			}
		}
	case *types.Struct:
		for i := 0; i < u.NumFields(); i++ {
			f := u.Field(i)
			n := f.Name()
			if prefix != "" {
				n = prefix + "." + f.Name()
			}
			if f.Name() == "_" { // blank: binary.Write emits zeros for the whole field
				var tmp []Field
				o := 0
				if !flattenGo(f.Type(), "", &o, &tmp) {
					return false
				}
				*out = append(*out, Field{n, *off, 1, o, true, ""})
				*off += o
				continue
			}
			if !flattenGo(f.Type(), n, off, out) {
				return false
			}
		}
	default:
		return false
	}
	return true
}

func typeLabel(t types.Type) string {
	if n, ok := t.(*types.Named); ok {
		return n.Obj().Name()
	}
	return t.String()
}

// enclosing function of a position
func enclosingFunc(f *ast.File, pos token.Pos) string {
	for _, d := range f.Decls {
		if fd, ok := d.(*ast.FuncDecl); ok && fd.Pos() <= pos && pos <= fd.End() {
			return fd.Name.Name
		}
	}
	return ""
}

type access struct {
	mapName, field, op string
	key, val           types.Type
	valSlice           bool
	site               Site
}

func scanGo(g *goPkg, repo string) (acc []access, bound map[string]string, unbound []string, objectHint string) {
	bound = map[string]string{}
	mapFields := map[string]bool{}
	reObj := regexp.MustCompile(`^bpf/([a-z0-9_]+)\.bpf\.o$`)
	for _, f := range g.files {
		ast.Inspect(f, func(n ast.Node) bool {
			switch v := n.(type) {
			case *ast.BasicLit:
				if v.Kind == token.STRING {
					if s, err := strconv.Unquote(v.Value); err == nil {
						if m := reObj.FindStringSubmatch(s); m != nil {
							objectHint = m[1]
						}
					}
				}
			case *ast.StructType:
				for _, fl := range v.Fields.List {
					if st, ok := fl.Type.(*ast.StarExpr); ok {
						if se, ok := st.X.(*ast.SelectorExpr); ok && se.Sel.Name == "Map" {
							if id, ok := se.X.(*ast.Ident); ok && id.Name == "ebpf" {
								for _, nm := range fl.Names {
									mapFields[nm.Name] = true
								}
							}
						}
					}
				}
			case *ast.AssignStmt:
				if len(v.Lhs) == 1 && len(v.Rhs) == 1 {
					l, ok1 := v.Lhs[0].(*ast.SelectorExpr)
					r, ok2 := v.Rhs[0].(*ast.IndexExpr)
					if ok1 && ok2 {
						if rs, ok := r.X.(*ast.SelectorExpr); ok && rs.Sel.Name == "Maps" {
							if lit, ok := r.Index.(*ast.BasicLit); ok && lit.Kind == token.STRING {
								s, _ := strconv.Unquote(lit.Value)
								bound[l.Sel.Name] = s
							}
						}
					}
				}
			}
			return true
		})
	}
	for f := range mapFields {
		if _, ok := bound[f]; !ok {
			unbound = append(unbound, f)
		}
	}
	sort.Strings(unbound)
	deref := func(e ast.Expr) (types.Type, bool) {
		tv, ok := g.info.Types[e]
		if !ok || tv.Type == nil {
			return nil, false
		}
		t := tv.Type
		if p, ok := t.Underlying().(*types.Pointer); ok {
			t = p.Elem()
		}
		if s, ok := t.Underlying().(*types.Slice); ok {
			return s.Elem(), true
		}
		return t, false
	}
	for _, f := range g.files {
		ast.Inspect(f, func(n ast.Node) bool {
			ce, ok := n.(*ast.CallExpr)
			if !ok {
				return true
			}
			se, ok := ce.Fun.(*ast.SelectorExpr)
			if !ok {
				return true
			}
			op := se.Sel.Name
			if op != "Put" && op != "Update" && op != "Lookup" && op != "Delete" && op != "LookupAndDelete" {
				return true
			}
			fe, ok := se.X.(*ast.SelectorExpr)
			if !ok {
				return true
			}
			mn, ok := bound[fe.Sel.Name]
			if !ok {
				return true
			}
			p := g.fset.Position(ce.Pos())
			rel, _ := filepath.Rel(repo, p.Filename)
			a := access{mapName: mn, field: fe.Sel.Name, op: op, site: Site{File: rel, Line: p.Line, Func: enclosingFunc(f, ce.Pos()), Op: op}}
			if len(ce.Args) >= 1 {
				a.key, _ = deref(ce.Args[0])
			}
			if len(ce.Args) >= 2 && op != "Delete" {
				a.val, a.valSlice = deref(ce.Args[1])
			}
			acc = append(acc, a)
			return true
		})
	}
	return
}

// ------------------------------------------------------------------------------ emit

func coqIdent(s string) string {
	var b strings.Builder
	for _, r := range s {
		if r >= 'a' && r <= 'z' || r >= 'A' && r <= 'Z' || r >= '0' && r <= '9' {
			b.WriteRune(r)
		} else {
			b.WriteByte('_')
		}
	}
	return b.String()
}

func coqFields(fs []Field) string {
	if len(fs) == 0 {
		return "[]"
	}
	var l []string
	for _, f := range fs {
		l = append(l, fmt.Sprintf("F %q %d %d %d %v", f.Name, f.Off, f.Width, f.Count, f.Pad))
	}
	return "[ " + strings.Join(l, ";\n    ") + " ]"
}

func main() {
	repo := flag.String("repo", "/repo", "repository working tree")
	bpfdir := flag.String("bpfdir", "", "directory with the compiled objects (bin/setup-bpf)")
	verif := flag.String("verif", "/verif", "verification tree (shim headers)")
	coqOut := flag.String("coq", "", "output: Gen/Layouts.v")
	jsonOut := flag.String("json", "", "output: side-car JSON")
	offsDir := flag.String("offs", "", "output directory for the offsetof tables (C)")
	flag.Parse()
	if *bpfdir == "" || *coqOut == "" {
		die("missing -bpfdir / -coq")
	}
	out := Out{Repo: *repo, UnboundGo: map[string][]string{}, GoStructs: map[string][]string{}}

	specs := map[string]*ebpf.CollectionSpec{}
	for _, o := range []string{"dhcp_fastpath", "nat44", "qos_ratelimit", "antispoof"} {
		sp, err := ebpf.LoadCollectionSpec(filepath.Join(*bpfdir, o+".o"))
		if err != nil {
			out.Notes = append(out.Notes, fmt.Sprintf("object %s.o missing or unparsable: %v", o, err))
			continue
		}
		specs[o] = sp
	}
	usedMaps := map[string]bool{}
	byKey := map[string]*Pair{}
	var order []string

	addPair := func(object, mapName, role string, g *goPkg, gt types.Type, slice bool, a access) {
		sp := specs[object]
		if sp == nil {
			return
		}
		ms := sp.Maps[mapName]
		if ms == nil {
			out.Notes = append(out.Notes, fmt.Sprintf("%s: Go accesses map %q which object %s does not declare (%s:%d)", g.name, mapName, object, a.site.File, a.site.Line))
			p := &Pair{ID: coqIdent(object + "_" + mapName + "_" + role + "_missing"), Name: object + "/" + mapName + "/" + role + "/<no C map>", Object: object, Map: mapName, Role: role, GoPkg: g.name, Sites: []Site{a.site}}
			if _, ok := byKey[p.Name]; !ok {
				byKey[p.Name] = p
				order = append(order, p.Name)
			}
			return
		}
		usedMaps[object+"/"+mapName] = true
		label := "<untyped>"
		if gt != nil {
			label = typeLabel(gt)
		}
		name := fmt.Sprintf("%s/%s/%s/%s.%s", object, mapName, role, g.name, label)
		p := byKey[name]
		if p == nil {
			p = &Pair{Name: name, ID: coqIdent(object + "_" + mapName + "_" + role + "_" + g.name + "_" + label), Object: object, Map: mapName, Role: role,
				GoPkg: g.name, GoType: label, MapType: ms.Type.String(), CSource: "btf"}
			var ct btf.Type
			if role == "key" {
				ct, p.Decl = ms.Key, int(ms.KeySize)
			} else {
				ct, p.Decl = ms.Value, int(ms.ValueSize)
				p.PerCPU = ms.Type == ebpf.PerCPUArray || ms.Type == ebpf.PerCPUHash || ms.Type == ebpf.LRUCPUHash
			}
			if ct != nil {
				p.CType = cTypeName(ct)
				p.COK = flattenC(ct, "", 0, &p.C)
				if sz, err := btf.Sizeof(ct); err == nil {
					p.CSize = sz
				}
			}
			if gt != nil {
				off := 0
				p.GoOK = flattenGo(gt, "", &off, &p.Go)
				p.GoSize = off
				if n, ok := gt.(*types.Named); ok && n.Obj().Parent() != g.pkg.Scope() {
					p.GoLocal = a.site.Func
				}
			}
			byKey[name] = p
			order = append(order, name)
		}
		if role == "value" {
			// shape of the value argument per call site against the map type: a per-CPU map wants a slice at every site,
			// any other map a single value at every site
			if p.nValSites == 0 {
				p.SliceAll = slice
			} else {
				p.SliceAll = p.SliceAll && slice
			}
			p.nValSites++
			p.SliceAny = p.SliceAny || slice
			if p.PerCPU {
				p.Slice = p.SliceAll
			} else {
				p.Slice = p.SliceAny
			}
			a.site.Slice = slice
		}
		switch a.op {
		case "Put", "Update":
			p.Writes = true
		case "Lookup", "LookupAndDelete":
			if role == "value" {
				p.Reads = true
			} else {
				p.Writes = true
			}
		case "Delete":
			p.Writes = true
		}
		p.Sites = append(p.Sites, a.site)
	}

	gos := map[string]*goPkg{}
	for _, pn := range pkgOrder {
		g := loadGo(*repo, pn)
		gos[pn] = g
		acc, bound, unbound, hint := scanGo(g, *repo)
		object := pkgObject[pn]
		if hint != "" {
			object = hint
		}
		if len(unbound) > 0 {
			out.UnboundGo[pn] = unbound
		}
		_ = bound
		// struct types declared at package level (for the report)
		sc := g.pkg.Scope()
		for _, n := range sc.Names() {
			if tn, ok := sc.Lookup(n).(*types.TypeName); ok {
				if _, ok := tn.Type().Underlying().(*types.Struct); ok {
					var fs []Field
					off := 0
					if flattenGo(tn.Type(), "", &off, &fs) && len(fs) > 0 {
						out.GoStructs[pn] = append(out.GoStructs[pn], fmt.Sprintf("%s(%d)", n, off))
					}
				}
			}
		}
		for _, a := range acc {
			if object == "" {
				continue
			}
			addPair(object, a.mapName, "key", g, a.key, false, a)
			if a.op != "Delete" {
				addPair(object, a.mapName, "value", g, a.val, a.valSlice, a)
			}
		}
	}
	// record pairs
	for _, rp := range recordPairs {
		g := gos[rp.pkg]
		obj := g.pkg.Scope().Lookup(rp.goType)
		p := &Pair{Name: fmt.Sprintf("%s/-/record/%s.%s", rp.object, rp.pkg, rp.goType), ID: coqIdent(rp.object + "_record_" + rp.pkg + "_" + rp.goType),
			Object: rp.object, Role: "record", GoPkg: rp.pkg, GoType: rp.goType, CType: "struct " + rp.cType, CSource: "record-layout", Reads: true}
		if obj != nil {
			off := 0
			p.GoOK = flattenGo(obj.Type(), "", &off, &p.Go)
			p.GoSize = off
		}
		p.C, p.CSize, p.COK = recordLayout(*repo, *verif, rp.object, rp.cType)
		p.Decl = p.CSize
		byKey[p.Name] = p
		order = append(order, p.Name)
	}
	for o, sp := range specs {
		for mn := range sp.Maps {
			if !usedMaps[o+"/"+mn] {
				out.UnpairedMaps = append(out.UnpairedMaps, o+"/"+mn)
			}
		}
	}
	sort.Strings(out.UnpairedMaps)
	sort.Strings(order)
	for _, k := range order {
		out.Pairs = append(out.Pairs, byKey[k])
	}

	// ---- Coq
	var b strings.Builder
	b.WriteString("(* GENERATED by tools/gen_layouts from the working tree (bpf/*.o BTF + go/types) - do not edit.\n   Regenerated by checks/C06.py on every run; a change of a declaration changes the subject of the C06 theorems. *)\n")
	b.WriteString("From Coq Require Import NArith List String Bool.\nFrom Verif Require Import Model.Layout.\nImport ListNotations.\nLocal Open Scope string_scope.\n\n")
	for _, p := range out.Pairs {
		fmt.Fprintf(&b, "(* %s   Go: %s.%s (%d bytes)   C: %s (%d bytes, declared %d) *)\n", p.Name, p.GoPkg, p.GoType, p.GoSize, p.CType, p.CSize, p.Decl)
		fmt.Fprintf(&b, "Definition go_%s : list field :=\n  %s.\n", p.ID, coqFields(p.Go))
		fmt.Fprintf(&b, "Definition c_%s : list field :=\n  %s.\n", p.ID, coqFields(p.C))
		fmt.Fprintf(&b, "Definition pair_%s : pair :=\n  MkPair %q go_%s c_%s %d %d %v %v %v.\n\n", p.ID, p.Name, p.ID, p.ID, p.CSize, p.Decl, p.PerCPU, p.Slice, p.GoOK && p.COK)
	}
	b.WriteString("Definition all_pairs : list pair :=\n  [ ")
	for i, p := range out.Pairs {
		if i > 0 {
			b.WriteString(";\n    ")
		}
		b.WriteString("pair_" + p.ID)
	}
	b.WriteString(" ].\n")
	writeIfChanged(*coqOut, b.String())

	if *jsonOut != "" {
		j, _ := json.MarshalIndent(out, "", " ")
		os.WriteFile(*jsonOut, j, 0o644)
	}
	// ---- offsetof tables
	if *offsDir != "" {
		os.MkdirAll(*offsDir, 0o755)
		byObj := map[string][]*Pair{}
		for _, p := range out.Pairs {
			if p.COK && strings.HasPrefix(p.CType, "struct ") {
				byObj[p.Object] = append(byObj[p.Object], p)
			}
		}
		for o, ps := range byObj {
			var c strings.Builder
			fmt.Fprintf(&c, "/* GENERATED by gen_layouts: offsetof/sizeof table for %s.c */\n#include \"%s\"\n", o, filepath.Join(*repo, "bpf", o+".c"))
			c.WriteString("#define FSZ(T, m) sizeof(((T *)0)->m)\nconst unsigned long long c06_offs[] = {\n")
			var idx []map[string]interface{}
			seen := map[string]bool{}
			for _, p := range ps {
				if seen[p.CType] {
					continue
				}
				seen[p.CType] = true
				fmt.Fprintf(&c, "  sizeof(%s),\n", p.CType)
				ent := map[string]interface{}{"c_type": p.CType, "fields": []string{}}
				var names []string
				for _, f := range p.C {
					fmt.Fprintf(&c, "  __builtin_offsetof(%s, %s), FSZ(%s, %s),\n", p.CType, f.Name, p.CType, f.Name)
					names = append(names, f.Name)
				}
				ent["fields"] = names
				idx = append(idx, ent)
			}
			c.WriteString("  0xC06C06C06ULL };\nconst unsigned long long c06_offs_n = sizeof(c06_offs) / sizeof(c06_offs[0]);\n")
			os.WriteFile(filepath.Join(*offsDir, "c06_offs_"+o+".c"), []byte(c.String()), 0o644)
			j, _ := json.MarshalIndent(idx, "", " ")
			os.WriteFile(filepath.Join(*offsDir, "c06_offs_"+o+".json"), j, 0o644)
		}
	}
}

func writeIfChanged(path, content string) {
	if old, err := os.ReadFile(path); err == nil && string(old) == content {
		return
	}
	os.MkdirAll(filepath.Dir(path), 0o755)
	tmp := path + ".tmp"
	if err := os.WriteFile(tmp, []byte(content), 0o644); err != nil {
		die("write %s: %v", tmp, err)
	}
	os.Rename(tmp, path)
}
