module veriftools/lockscan

go 1.25
