// lockscan: a lock-discipline observation for one Go type (std library only: go/parser, go/ast).
//
//	lockscan -file pkg/pool/peer.go -type PeerPool -mutexes mu,healthMu \
//	         -guard mu=peers,peerNodes -guard healthMu=peerHealthMap,healthy,consecutiveFailures
//
// For every method of the type it lists, in source order, the mutex calls (Lock / RLock / Unlock /
// RUnlock, "defer" marked) and the reads / writes of the guarded fields, and it reports every access
// made while the guarding mutex is not held and every method that takes the same mutex more than
// once (a check-then-act sequence that lets go of the lock in between).  Output: JSON on stdout:
//
//	{"methods": {"AddPeer": "mu.Lock defer:mu.Unlock r:peerNodes w:peerNodes", ...},
//	 "unguarded": ["Stats r:peerNodes"], "reacquired": ["AddPeer mu"]}
//
// The scan is linear in source order (it does not follow branches or calls): an observation that is
// compared with an expected table by the check, not a proof of race freedom.
package main

import (
	"encoding/json"
	"flag"
	"fmt"
	"go/ast"
	"go/parser"
	"go/token"
	"os"
	"sort"
	"strings"
)

type guards []string

func (g *guards) String() string     { return strings.Join(*g, " ") }
func (g *guards) Set(s string) error { *g = append(*g, s); return nil }

type event struct {
	pos  token.Pos
	text string // "mu.Lock", "defer:mu.Unlock", "r:peerNodes", "w:peerNodes"
}

func main() {
	file := flag.String("file", "", "Go source file")
	typ := flag.String("type", "", "receiver type")
	mutexes := flag.String("mutexes", "", "comma-separated mutex field names")
	var gs guards
	flag.Var(&gs, "guard", "mutex=field,field (repeatable)")
	flag.Parse()
	guardOf := map[string]string{}
	for _, g := range gs {
		kv := strings.SplitN(g, "=", 2)
		for _, f := range strings.Split(kv[1], ",") {
			guardOf[f] = kv[0]
		}
	}
	isMutex := map[string]bool{}
	for _, m := range strings.Split(*mutexes, ",") {
		isMutex[m] = true
	}
	fset := token.NewFileSet()
	f, err := parser.ParseFile(fset, *file, nil, 0)
	if err != nil {
		fmt.Fprintln(os.Stderr, err)
		os.Exit(1)
	}
	methods := map[string]string{}
	unguarded, reacquired := []string{}, []string{}
	for _, d := range f.Decls {
		fd, ok := d.(*ast.FuncDecl)
		if !ok || fd.Recv == nil || fd.Body == nil || len(fd.Recv.List) != 1 {
			continue
		}
		rt := fd.Recv.List[0].Type
		if st, ok := rt.(*ast.StarExpr); ok {
			rt = st.X
		}
		if id, ok := rt.(*ast.Ident); !ok || id.Name != *typ {
			continue
		}
		evs := scan(fd.Body, isMutex, guardOf)
		sort.SliceStable(evs, func(i, j int) bool { return evs[i].pos < evs[j].pos })
		var words []string
		held := map[string]int{}      // mutex -> 0 free, 1 held
		deferred := map[string]bool{} // released at return only
		taken := map[string]int{}
		for _, e := range evs {
			if len(words) == 0 || words[len(words)-1] != e.text {
				words = append(words, e.text)
			}
			switch {
			case strings.HasPrefix(e.text, "defer:"):
				deferred[strings.SplitN(e.text[6:], ".", 2)[0]] = true
			case strings.HasPrefix(e.text, "r:") || strings.HasPrefix(e.text, "w:"):
				if m := guardOf[e.text[2:]]; held[m] == 0 {
					unguarded = append(unguarded, fd.Name.Name+" "+e.text)
				}
			default:
				mc := strings.SplitN(e.text, ".", 2)
				if mc[1] == "Lock" || mc[1] == "RLock" {
					held[mc[0]] = 1
					taken[mc[0]]++
				} else if !deferred[mc[0]] {
					held[mc[0]] = 0
				}
			}
		}
		if len(words) > 0 {
			methods[fd.Name.Name] = strings.Join(words, " ")
		}
		for m, n := range taken {
			if n > 1 {
				reacquired = append(reacquired, fd.Name.Name+" "+m)
			}
		}
	}
	sort.Strings(unguarded)
	sort.Strings(reacquired)
	unguarded = uniq(unguarded)
	out, _ := json.MarshalIndent(map[string]interface{}{"methods": methods, "unguarded": unguarded, "reacquired": reacquired}, "", " ")
	fmt.Println(string(out))
}

func uniq(l []string) []string {
	o := []string{}
	for i, s := range l {
		if i == 0 || s != l[i-1] {
			o = append(o, s)
		}
	}
	return o
}

// scan collects the mutex calls and guarded-field accesses below n.
func scan(n ast.Node, isMutex map[string]bool, guardOf map[string]string) []event {
	var evs []event
	written := map[ast.Expr]bool{}
	inDefer := map[*ast.CallExpr]bool{}
	ast.Inspect(n, func(x ast.Node) bool {
		switch s := x.(type) {
		case *ast.AssignStmt:
			for _, l := range s.Lhs {
				written[l] = true
			}
		case *ast.IncDecStmt:
			written[s.X] = true
		case *ast.DeferStmt:
			inDefer[s.Call] = true
		case *ast.CallExpr: // <recv>.<mutex>.Lock()
			if sel, ok := s.Fun.(*ast.SelectorExpr); ok {
				if in, ok := sel.X.(*ast.SelectorExpr); ok && isMutex[in.Sel.Name] {
					if _, direct := in.X.(*ast.Ident); !direct {
						break // the mutex of another object (p.localPool.mu): not one of the receiver's
					}
					t := in.Sel.Name + "." + sel.Sel.Name
					if inDefer[s] {
						t = "defer:" + t
					}
					evs = append(evs, event{s.Pos(), t})
				}
			}
		case *ast.SelectorExpr:
			if _, ok := guardOf[s.Sel.Name]; ok {
				k := "r:"
				if written[s] {
					k = "w:"
				}
				evs = append(evs, event{s.Pos(), k + s.Sel.Name})
			}
		case *ast.IndexExpr: // m[k] = v writes m
			if written[s] {
				written[s.X] = true
			}
		}
		return true
	})
	return evs
}
