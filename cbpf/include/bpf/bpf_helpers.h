/* Shim for <bpf/bpf_helpers.h> (libbpf headers are not installed in this sandbox).
 *
 * Two modes:
 *   default (clang -target bpf): helpers are function pointers whose value is the helper number,
 *     exactly as libbpf's bpf_helper_defs.h declares them; map definitions use the BTF-map macros.
 *   -DVERIF_NATIVE (x86-64 build of the same sources for /verif/cbpf/native/runner.c): helpers are
 *     ordinary functions implemented by the runner (hash/array/LPM maps in C, scripted clock,
 *     adjust_tail on a guard-page buffer); SEC() expands to nothing; the map macros stay the same,
 *     so `sizeof(*map.key)` etc. give the runner the declared geometry.
 * Only what the sources under /repo/bpf use is declared; add a line when a source needs another helper.
 */
#ifndef VERIF_BPF_HELPERS_H
#define VERIF_BPF_HELPERS_H

#include <linux/types.h>
#include <linux/bpf.h>

#ifndef NULL
#define NULL ((void *)0)
#endif
#ifndef __always_inline
#define __always_inline inline __attribute__((always_inline))
#endif
#ifndef __noinline
#define __noinline __attribute__((noinline))
#endif
#ifndef __maybe_unused
#define __maybe_unused __attribute__((__unused__))
#endif
#ifndef offsetof
#define offsetof(T, m) __builtin_offsetof(T, m)
#endif
#ifndef likely
#define likely(x) __builtin_expect(!!(x), 1)
#define unlikely(x) __builtin_expect(!!(x), 0)
#endif
#ifndef barrier
#define barrier() asm volatile("" ::: "memory")
#endif

/* BTF-style map definition macros (libbpf bpf_helpers.h) */
#define __uint(name, val) int (*name)[val]
#define __type(name, val) typeof(val) *name
#define __array(name, val) typeof(val) *name[]

#ifndef VERIF_NATIVE
/* ------------------------------------------------------------------ BPF target */
#define SEC(name) __attribute__((section(name), used))

static void *(*bpf_map_lookup_elem)(void *map, const void *key) = (void *)1;
static long (*bpf_map_update_elem)(void *map, const void *key, const void *value, __u64 flags) = (void *)2;
static long (*bpf_map_delete_elem)(void *map, const void *key) = (void *)3;
static __u64 (*bpf_ktime_get_ns)(void) = (void *)5;
static long (*bpf_trace_printk)(const char *fmt, __u32 fmt_size, ...) = (void *)6;
static __u32 (*bpf_get_prandom_u32)(void) = (void *)7;
static __u32 (*bpf_get_smp_processor_id)(void) = (void *)8;
static long (*bpf_skb_store_bytes)(struct __sk_buff *skb, __u32 offset, const void *from, __u32 len, __u64 flags) = (void *)9;
static long (*bpf_l3_csum_replace)(struct __sk_buff *skb, __u32 offset, __u64 from, __u64 to, __u64 size) = (void *)10;
static long (*bpf_l4_csum_replace)(struct __sk_buff *skb, __u32 offset, __u64 from, __u64 to, __u64 flags) = (void *)11;
static long (*bpf_redirect)(__u32 ifindex, __u64 flags) = (void *)23;
static long (*bpf_perf_event_output)(void *ctx, void *map, __u64 flags, void *data, __u64 size) = (void *)25;
static long (*bpf_skb_load_bytes)(const void *skb, __u32 offset, void *to, __u32 len) = (void *)26;
static __s64 (*bpf_csum_diff)(__be32 *from, __u32 from_size, __be32 *to, __u32 to_size, __wsum seed) = (void *)28;
static long (*bpf_xdp_adjust_head)(struct xdp_md *xdp_md, int delta) = (void *)44;
static long (*bpf_xdp_adjust_tail)(struct xdp_md *xdp_md, int delta) = (void *)65;
static long (*bpf_ringbuf_output)(void *ringbuf, void *data, __u64 size, __u64 flags) = (void *)130;
static void *(*bpf_ringbuf_reserve)(void *ringbuf, __u64 size, __u64 flags) = (void *)131;
static void (*bpf_ringbuf_submit)(void *data, __u64 flags) = (void *)132;
static void (*bpf_ringbuf_discard)(void *data, __u64 flags) = (void *)133;

#define bpf_printk(fmt, ...) ({ char ____fmt[] = fmt; bpf_trace_printk(____fmt, sizeof(____fmt), ##__VA_ARGS__); })

#else
/* ------------------------------------------------------------------ native runner */
#define SEC(name)
#define VERIF_NATIVE_BUILD 1

void *bpf_map_lookup_elem(void *map, const void *key);
long bpf_map_update_elem(void *map, const void *key, const void *value, __u64 flags);
long bpf_map_delete_elem(void *map, const void *key);
__u64 bpf_ktime_get_ns(void);
long bpf_trace_printk(const char *fmt, __u32 fmt_size, ...);
__u32 bpf_get_prandom_u32(void);
__u32 bpf_get_smp_processor_id(void);
long bpf_skb_store_bytes(struct __sk_buff *skb, __u32 offset, const void *from, __u32 len, __u64 flags);
long bpf_l3_csum_replace(struct __sk_buff *skb, __u32 offset, __u64 from, __u64 to, __u64 size);
long bpf_l4_csum_replace(struct __sk_buff *skb, __u32 offset, __u64 from, __u64 to, __u64 flags);
long bpf_redirect(__u32 ifindex, __u64 flags);
long bpf_perf_event_output(void *ctx, void *map, __u64 flags, void *data, __u64 size);
long bpf_skb_load_bytes(const void *skb, __u32 offset, void *to, __u32 len);
__s64 bpf_csum_diff(__be32 *from, __u32 from_size, __be32 *to, __u32 to_size, __wsum seed);
long bpf_xdp_adjust_head(struct xdp_md *xdp_md, int delta);
long bpf_xdp_adjust_tail(struct xdp_md *xdp_md, int delta);
long bpf_ringbuf_output(void *ringbuf, void *data, __u64 size, __u64 flags);
void *bpf_ringbuf_reserve(void *ringbuf, __u64 size, __u64 flags);
void bpf_ringbuf_submit(void *data, __u64 flags);
void bpf_ringbuf_discard(void *data, __u64 flags);

#define bpf_printk(fmt, ...) ((void)0)
#endif /* VERIF_NATIVE */

#endif
