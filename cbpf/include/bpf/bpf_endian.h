/* Shim for <bpf/bpf_endian.h>: x86-64 and the BPF target used here are both little-endian. */
#ifndef VERIF_BPF_ENDIAN_H
#define VERIF_BPF_ENDIAN_H
#include <linux/types.h>
#if __BYTE_ORDER__ != __ORDER_LITTLE_ENDIAN__
#error "shim assumes a little-endian target"
#endif
#define ___bpf_swab16(x) ((__u16)((((__u16)(x) & 0x00ffU) << 8) | (((__u16)(x) & 0xff00U) >> 8)))
#define ___bpf_swab32(x) ((__u32)__builtin_bswap32((__u32)(x)))
#define ___bpf_swab64(x) ((__u64)__builtin_bswap64((__u64)(x)))
#define bpf_htons(x) (__builtin_constant_p(x) ? ___bpf_swab16(x) : __builtin_bswap16(x))
#define bpf_ntohs(x) bpf_htons(x)
#define bpf_htonl(x) ___bpf_swab32(x)
#define bpf_ntohl(x) ___bpf_swab32(x)
#define bpf_cpu_to_be64(x) ___bpf_swab64(x)
#define bpf_be64_to_cpu(x) ___bpf_swab64(x)
#endif
