/* Native runner for the eBPF sources of /repo/bpf (see /verif/docs/BPF.md).
 *
 * The eBPF C file is compiled *unchanged* for x86-64 inside this translation unit
 * (-DVERIF_NATIVE -DVERIF_PROG_SRC="…/x.c" -DVERIF_MAPS_INC="…/x.maps.inc"); the shim
 * <bpf/bpf_helpers.h> turns the helpers into ordinary functions that are implemented here:
 *   - maps: HASH / LRU_HASH (linear list, stable value pointers), ARRAY / PERCPU_ARRAY (1 cpu),
 *     LPM_TRIE (longest prefix over the key's data bytes, most significant bit first),
 *     PERF_EVENT_ARRAY and RINGBUF (event sink, read back with `events`);
 *   - bpf_ktime_get_ns: scripted clock (`clock NOW [STEP]`: every call returns the current value and
 *     then adds STEP, modulo 2^64);
 *   - the frame lives in a MAP_32BIT arena (xdp_md / __sk_buff carry 32-bit data pointers) with its
 *     END flush against a PROT_NONE page (guard=end, default) or its START flush after one
 *     (guard=start): any access outside [data, data_end) on that side faults and is reported as
 *     `fault`; frames of any length >= 0 are accepted (BPF_PROG_TEST_RUN needs >= 14 bytes);
 *   - bpf_xdp_adjust_tail / adjust_head move the frame so that the guard stays flush.
 * Driven over stdin/stdout, one reply line per command line (harness/bpfrun.Native).
 */
#define _GNU_SOURCE
#include <stdio.h>
#include <stdlib.h>
#include <string.h>
#include <stdint.h>
#include <errno.h>
#include <signal.h>
#include <setjmp.h>
#include <unistd.h>
#include <sys/mman.h>

#include VERIF_PROG_SRC

/* ------------------------------------------------------------------ registry */
struct vr_ent { struct vr_ent *next; unsigned char *key; unsigned char *val; unsigned long stamp; };
struct vr_map {
	const char *name; void *addr; unsigned type, ksz, vsz, max;
	struct vr_ent *head; unsigned n; unsigned char *arr;
};
struct vr_prog { const char *name; int kind; int (*fn)(void *); };

#define MAP(n, t, k, v, m) { #n, (void *)&n, (t), (unsigned)(k), (unsigned)(v), (unsigned)(m), 0, 0, 0 },
#define PROG(n, k)
static struct vr_map vr_maps[] = {
#include VERIF_MAPS_INC
	{ 0 }
};
#undef MAP
#undef PROG
#define MAP(n, t, k, v, m)
#define PROG(n, k) { #n, (k), (int (*)(void *))n },
static struct vr_prog vr_progs[] = {
#include VERIF_MAPS_INC
	{ 0 }
};

static unsigned long vr_stamp;
static __u64 vr_now, vr_step_ns;
static unsigned long vr_ktime_calls;
static __u64 vr_rng = 0x9e3779b97f4a7c15ULL;

struct vr_event { struct vr_event *next; const char *map; unsigned len; unsigned char *data; };
static struct vr_event *vr_ev_head, *vr_ev_tail;
static unsigned vr_ev_count;

static struct vr_map *vr_find_addr(void *addr) {
	for (struct vr_map *m = vr_maps; m->name; m++) if (m->addr == addr) return m;
	fprintf(stderr, "native runner: helper called with an unknown map pointer %p\n", addr);
	abort();
}
static struct vr_map *vr_find_name(const char *name) {
	for (struct vr_map *m = vr_maps; m->name; m++) if (!strcmp(m->name, name)) return m;
	return NULL;
}
static int vr_is_array(struct vr_map *m) { return m->type == BPF_MAP_TYPE_ARRAY || m->type == BPF_MAP_TYPE_PERCPU_ARRAY; }
static int vr_is_hash(struct vr_map *m) {
	return m->type == BPF_MAP_TYPE_HASH || m->type == BPF_MAP_TYPE_LRU_HASH || m->type == BPF_MAP_TYPE_PERCPU_HASH ||
	       m->type == BPF_MAP_TYPE_LRU_PERCPU_HASH;
}
static unsigned char *vr_arr(struct vr_map *m) {
	if (!m->arr) { m->arr = calloc((size_t)m->max ? m->max : 1, m->vsz ? m->vsz : 1); if (!m->arr) abort(); }
	return m->arr;
}

/* longest-prefix match: key = { __u32 prefixlen; u8 data[ksz-4] } */
static unsigned vr_common_bits(const unsigned char *a, const unsigned char *b, unsigned nbytes) {
	unsigned bits = 0;
	for (unsigned i = 0; i < nbytes; i++) {
		unsigned char x = a[i] ^ b[i];
		if (!x) { bits += 8; continue; }
		for (int j = 7; j >= 0; j--) { if (x & (1u << j)) return bits; bits++; }
	}
	return bits;
}

static void *vr_lookup(struct vr_map *m, const void *key) {
	if (vr_is_array(m)) {
		__u32 i; memcpy(&i, key, 4);
		if (i >= m->max) return NULL;
		return vr_arr(m) + (size_t)i * m->vsz;
	}
	if (vr_is_hash(m)) {
		for (struct vr_ent *e = m->head; e; e = e->next)
			if (!memcmp(e->key, key, m->ksz)) { e->stamp = ++vr_stamp; return e->val; }
		return NULL;
	}
	if (m->type == BPF_MAP_TYPE_LPM_TRIE) {
		__u32 plen; memcpy(&plen, key, 4);
		unsigned nb = m->ksz - 4; struct vr_ent *best = NULL; __u32 bestlen = 0;
		if (plen > nb * 8) plen = nb * 8;
		for (struct vr_ent *e = m->head; e; e = e->next) {
			__u32 el; memcpy(&el, e->key, 4);
			if (el > plen) continue;
			if (vr_common_bits(e->key + 4, (const unsigned char *)key + 4, nb) < el) continue;
			if (!best || el > bestlen) { best = e; bestlen = el; }
		}
		return best ? best->val : NULL;
	}
	return NULL;
}

static long vr_update(struct vr_map *m, const void *key, const void *val, __u64 flags) {
	if (flags > BPF_EXIST) return -EINVAL;
	if (vr_is_array(m)) {
		__u32 i; memcpy(&i, key, 4);
		if (i >= m->max) return -E2BIG;
		if (flags == BPF_NOEXIST) return -EEXIST;
		memcpy(vr_arr(m) + (size_t)i * m->vsz, val, m->vsz);
		return 0;
	}
	if (vr_is_hash(m) || m->type == BPF_MAP_TYPE_LPM_TRIE) {
		unsigned char kb[512];
		if (m->ksz > sizeof kb) abort();
		memcpy(kb, key, m->ksz);
		if (m->type == BPF_MAP_TYPE_LPM_TRIE) {
			__u32 plen; memcpy(&plen, kb, 4);
			unsigned nb = m->ksz - 4;
			if (plen > nb * 8) return -EINVAL;
			/* bits past the prefix are not significant */
			for (unsigned b = plen; b < nb * 8; b++) kb[4 + b / 8] &= (unsigned char)~(0x80u >> (b % 8));
		}
		for (struct vr_ent *e = m->head; e; e = e->next)
			if (!memcmp(e->key, kb, m->ksz)) {
				if (flags == BPF_NOEXIST) return -EEXIST;
				memcpy(e->val, val, m->vsz); e->stamp = ++vr_stamp; return 0;
			}
		if (flags == BPF_EXIST) return -ENOENT;
		if (m->n >= m->max) {
			if (m->type != BPF_MAP_TYPE_LRU_HASH && m->type != BPF_MAP_TYPE_LRU_PERCPU_HASH)
				return m->type == BPF_MAP_TYPE_LPM_TRIE ? -ENOSPC : -E2BIG;
			struct vr_ent **pp = &m->head, **old = NULL;   /* evict least recently used */
			for (; *pp; pp = &(*pp)->next) if (!old || (*pp)->stamp < (*old)->stamp) old = pp;
			if (old) { struct vr_ent *d = *old; *old = d->next; free(d->key); free(d->val); free(d); m->n--; }
		}
		struct vr_ent *e = calloc(1, sizeof *e);
		e->key = malloc(m->ksz ? m->ksz : 1); e->val = malloc(m->vsz ? m->vsz : 1);
		memcpy(e->key, kb, m->ksz); memcpy(e->val, val, m->vsz);
		e->stamp = ++vr_stamp; e->next = m->head; m->head = e; m->n++;
		return 0;
	}
	return -EINVAL;
}

static long vr_delete(struct vr_map *m, const void *key) {
	if (vr_is_array(m)) return -EINVAL;
	for (struct vr_ent **pp = &m->head; *pp; pp = &(*pp)->next)
		if (!memcmp((*pp)->key, key, m->ksz)) {
			struct vr_ent *d = *pp; *pp = d->next; free(d->key); free(d->val); free(d); m->n--; return 0;
		}
	return -ENOENT;
}

static void vr_clear(struct vr_map *m) {
	while (m->head) { struct vr_ent *d = m->head; m->head = d->next; free(d->key); free(d->val); free(d); }
	m->n = 0;
	if (m->arr) memset(m->arr, 0, (size_t)m->max * m->vsz);
}

/* ------------------------------------------------------------------ helpers seen by the program */
void *bpf_map_lookup_elem(void *map, const void *key) { return vr_lookup(vr_find_addr(map), key); }
long bpf_map_update_elem(void *map, const void *key, const void *value, __u64 flags) { return vr_update(vr_find_addr(map), key, value, flags); }
long bpf_map_delete_elem(void *map, const void *key) { return vr_delete(vr_find_addr(map), key); }
__u64 bpf_ktime_get_ns(void) { __u64 t = vr_now; vr_now += vr_step_ns; vr_ktime_calls++; return t; }
long bpf_trace_printk(const char *fmt, __u32 fmt_size, ...) { (void)fmt; (void)fmt_size; return 0; }
__u32 bpf_get_prandom_u32(void) {
	vr_rng += 0x9e3779b97f4a7c15ULL; __u64 z = vr_rng;
	z = (z ^ (z >> 30)) * 0xbf58476d1ce4e5b9ULL; z = (z ^ (z >> 27)) * 0x94d049bb133111ebULL;
	return (__u32)(z ^ (z >> 31));
}
__u32 bpf_get_smp_processor_id(void) { return 0; }

static void vr_event_add(const char *map, const void *data, unsigned len) {
	struct vr_event *e = calloc(1, sizeof *e);
	e->map = map; e->len = len; e->data = malloc(len ? len : 1); memcpy(e->data, data, len);
	if (vr_ev_tail) vr_ev_tail->next = e; else vr_ev_head = e;
	vr_ev_tail = e; vr_ev_count++;
}
long bpf_perf_event_output(void *ctx, void *map, __u64 flags, void *data, __u64 size) {
	(void)ctx; (void)flags; vr_event_add(vr_find_addr(map)->name, data, (unsigned)size); return 0;
}
long bpf_ringbuf_output(void *rb, void *data, __u64 size, __u64 flags) {
	(void)flags; vr_event_add(vr_find_addr(rb)->name, data, (unsigned)size); return 0;
}
struct vr_rsv { const char *map; __u64 size; __u64 pad; };
void *bpf_ringbuf_reserve(void *rb, __u64 size, __u64 flags) {
	(void)flags; struct vr_rsv *r = calloc(1, sizeof *r + size); r->map = vr_find_addr(rb)->name; r->size = size; return r + 1;
}
void bpf_ringbuf_submit(void *data, __u64 flags) { (void)flags; struct vr_rsv *r = (struct vr_rsv *)data - 1; vr_event_add(r->map, data, (unsigned)r->size); free(r); }
void bpf_ringbuf_discard(void *data, __u64 flags) { (void)flags; free((struct vr_rsv *)data - 1); }

/* ------------------------------------------------------------------ frame arena */
#define VR_PAGE 4096u
#define VR_DATA_PAGES 32u                 /* room for frames up to 64 KiB + adjust */
#define VR_MAX_XDP_FRAME 3520u            /* 4096 - 256 headroom - 320 skb_shared_info, as test_run */
static unsigned char *vr_arena;           /* [guard][data pages][guard] */
static unsigned char *vr_lo, *vr_hi;      /* usable range */
static int vr_guard_end = 1;
static unsigned char *vr_data; static unsigned vr_len;
static struct xdp_md vr_xdp; static struct __sk_buff vr_skb; static int vr_kind;

static void vr_arena_init(void) {
	size_t sz = (size_t)(VR_DATA_PAGES + 2) * VR_PAGE;
	vr_arena = mmap(NULL, sz, PROT_READ | PROT_WRITE, MAP_PRIVATE | MAP_ANONYMOUS | MAP_32BIT, -1, 0);
	if (vr_arena == MAP_FAILED) { perror("mmap"); exit(3); }
	if (mprotect(vr_arena, VR_PAGE, PROT_NONE) || mprotect(vr_arena + sz - VR_PAGE, VR_PAGE, PROT_NONE)) { perror("mprotect"); exit(3); }
	vr_lo = vr_arena + VR_PAGE; vr_hi = vr_arena + sz - VR_PAGE;
}
static void vr_sync_ctx(void) {
	if (vr_kind == 0) { vr_xdp.data = (__u32)(uintptr_t)vr_data; vr_xdp.data_end = (__u32)(uintptr_t)(vr_data + vr_len); vr_xdp.data_meta = vr_xdp.data; }
	else { vr_skb.data = (__u32)(uintptr_t)vr_data; vr_skb.data_end = (__u32)(uintptr_t)(vr_data + vr_len); }
}
static void vr_place(const unsigned char *src, unsigned len) {
	unsigned char *dst = vr_guard_end ? vr_hi - len : vr_lo;
	if (src && len) memmove(dst, src, len);
	vr_data = dst; vr_len = len; vr_sync_ctx();
}
long bpf_xdp_adjust_tail(struct xdp_md *x, int delta) {
	(void)x;
	long nl = (long)vr_len + delta;
	if (nl < 14 || nl > (long)VR_MAX_XDP_FRAME) return -EINVAL;
	unsigned old = vr_len;
	if (vr_guard_end) { unsigned char *nd = vr_hi - nl; memmove(nd, vr_data, (unsigned)nl < old ? (unsigned)nl : old); vr_data = nd; }
	if ((unsigned)nl > old) memset(vr_data + old, 0, (unsigned)nl - old);
	vr_len = (unsigned)nl; vr_sync_ctx(); return 0;
}
long bpf_xdp_adjust_head(struct xdp_md *x, int delta) {
	(void)x;
	long nl = (long)vr_len - delta;
	if (nl < 14 || nl > (long)VR_MAX_XDP_FRAME || delta < -256) return -EINVAL;
	if (vr_guard_end) { vr_data += delta; }
	else { /* keep the start flush: move the surviving bytes */
		if (delta > 0) memmove(vr_lo, vr_data + delta, (unsigned)nl);
		else { memmove(vr_lo - delta, vr_data, vr_len); memset(vr_lo, 0, (unsigned)-delta); }
		vr_data = vr_lo;
	}
	vr_len = (unsigned)nl; vr_sync_ctx(); return 0;
}
long bpf_skb_load_bytes(const void *skb, __u32 off, void *to, __u32 len) {
	(void)skb; if ((__u64)off + len > vr_len) return -EFAULT; memcpy(to, vr_data + off, len); return 0;
}
long bpf_skb_store_bytes(struct __sk_buff *skb, __u32 off, const void *from, __u32 len, __u64 flags) {
	(void)skb; (void)flags; if ((__u64)off + len > vr_len) return -EFAULT; memcpy(vr_data + off, from, len); return 0;
}
static void vr_unimplemented(const char *n) { fprintf(stderr, "native runner: helper %s is not implemented (add it to cbpf/native/runner.c)\n", n); abort(); }
long bpf_l3_csum_replace(struct __sk_buff *s, __u32 o, __u64 f, __u64 t, __u64 z) { (void)s;(void)o;(void)f;(void)t;(void)z; vr_unimplemented("bpf_l3_csum_replace"); return 0; }
long bpf_l4_csum_replace(struct __sk_buff *s, __u32 o, __u64 f, __u64 t, __u64 z) { (void)s;(void)o;(void)f;(void)t;(void)z; vr_unimplemented("bpf_l4_csum_replace"); return 0; }
__s64 bpf_csum_diff(__be32 *f, __u32 fs, __be32 *t, __u32 ts, __wsum seed) { (void)f;(void)fs;(void)t;(void)ts;(void)seed; vr_unimplemented("bpf_csum_diff"); return 0; }
long bpf_redirect(__u32 ifindex, __u64 flags) { (void)ifindex; (void)flags; return 7; /* TC_ACT_REDIRECT */ }

/* ------------------------------------------------------------------ command loop */
static sigjmp_buf vr_jmp; static volatile sig_atomic_t vr_in_run; static void *vr_fault_addr; static int vr_fault_sig;
static void vr_on_fault(int sig, siginfo_t *si, void *uc) {
	(void)uc;
	if (!vr_in_run) { signal(sig, SIG_DFL); raise(sig); return; }
	vr_fault_addr = si->si_addr; vr_fault_sig = sig; siglongjmp(vr_jmp, 1);
}

static int vr_hexval(int c) { if (c >= '0' && c <= '9') return c - '0'; if (c >= 'a' && c <= 'f') return c - 'a' + 10; if (c >= 'A' && c <= 'F') return c - 'A' + 10; return -1; }
static int vr_unhex(const char *s, unsigned char *out, unsigned cap) {
	if (!strcmp(s, "-")) return 0;
	size_t n = strlen(s); if (n % 2 || n / 2 > cap) return -1;
	for (size_t i = 0; i < n / 2; i++) { int a = vr_hexval(s[2*i]), b = vr_hexval(s[2*i+1]); if (a < 0 || b < 0) return -1; out[i] = (unsigned char)(a << 4 | b); }
	return (int)(n / 2);
}
static void vr_puthex(const unsigned char *p, unsigned n) { if (!n) { putchar('-'); return; } for (unsigned i = 0; i < n; i++) printf("%02x", p[i]); }

static const char *vr_opt(char **tok, int nt, const char *name) {
	size_t l = strlen(name);
	for (int i = 0; i < nt; i++) if (!strncmp(tok[i], name, l) && tok[i][l] == '=') return tok[i] + l + 1;
	return NULL;
}

static struct vr_prog *vr_prog_find(const char *n) { for (struct vr_prog *p = vr_progs; p->name; p++) if (!strcmp(p->name, n)) return p; return NULL; }

static unsigned char vr_frame[VR_DATA_PAGES * VR_PAGE];

/* one execution; returns 0 and *ret, or -1 on a memory fault */
static int vr_exec(struct vr_prog *p, const unsigned char *frame, unsigned flen, char **tok, int nt, int *ret) {
	const char *o;
	vr_kind = p->kind;
	memset(&vr_xdp, 0, sizeof vr_xdp); memset(&vr_skb, 0, sizeof vr_skb);
	vr_guard_end = !((o = vr_opt(tok, nt, "guard")) && !strcmp(o, "start"));
	vr_place(frame, flen);
	if (p->kind == 0) {
		if ((o = vr_opt(tok, nt, "ifindex"))) vr_xdp.ingress_ifindex = (__u32)strtoul(o, 0, 0);
	} else {
		vr_skb.len = flen;
		if ((o = vr_opt(tok, nt, "len"))) vr_skb.len = (__u32)strtoul(o, 0, 0);   /* non-linear skb: len > data_end - data */
		vr_skb.wire_len = vr_skb.len;
		if (flen >= 14) vr_skb.protocol = (__u32)frame[12] | (__u32)frame[13] << 8;  /* network order as the kernel stores it */
		if ((o = vr_opt(tok, nt, "ifindex"))) vr_skb.ifindex = vr_skb.ingress_ifindex = (__u32)strtoul(o, 0, 0);
		if ((o = vr_opt(tok, nt, "prio"))) vr_skb.priority = (__u32)strtoul(o, 0, 0);
		if ((o = vr_opt(tok, nt, "mark"))) vr_skb.mark = (__u32)strtoul(o, 0, 0);
	}
	vr_in_run = 1;
	if (sigsetjmp(vr_jmp, 1)) { vr_in_run = 0; return -1; }
	*ret = p->fn(p->kind == 0 ? (void *)&vr_xdp : (void *)&vr_skb);
	vr_in_run = 0;
	return 0;
}

static int vr_keycmp(const void *a, const void *b, void *arg) { return memcmp(*(unsigned char *const *)a, *(unsigned char *const *)b, *(unsigned *)arg); }

int main(void) {
	static char line[2 * VR_DATA_PAGES * VR_PAGE + 4096];
	static char obuf[1 << 16];
	setvbuf(stdout, obuf, _IOFBF, sizeof obuf);
	vr_arena_init();
	struct sigaction sa; memset(&sa, 0, sizeof sa); sa.sa_sigaction = vr_on_fault; sa.sa_flags = SA_SIGINFO | SA_NODEFER;
	sigaction(SIGSEGV, &sa, NULL); sigaction(SIGBUS, &sa, NULL);
	while (fgets(line, sizeof line, stdin)) {
		char *tok[64]; int nt = 0;
		for (char *s = strtok(line, " \t\r\n"); s && nt < 64; s = strtok(NULL, " \t\r\n")) tok[nt++] = s;
		if (!nt) continue;
		const char *c = tok[0];
		if (!strcmp(c, "quit")) break;
		if (!strcmp(c, "flush")) { printf("ok\n"); fflush(stdout); continue; }
		if (!strcmp(c, "maps")) {
			printf("ok");
			for (struct vr_map *m = vr_maps; m->name; m++) printf(" %s:%u:%u:%u:%u", m->name, m->type, m->ksz, m->vsz, m->max);
			printf("\n");
		} else if (!strcmp(c, "progs")) {
			printf("ok");
			for (struct vr_prog *p = vr_progs; p->name; p++) printf(" %s:%s", p->name, p->kind ? "tc" : "xdp");
			printf("\n");
		} else if (!strcmp(c, "clock") && nt >= 2) {
			vr_now = strtoull(tok[1], 0, 0); vr_step_ns = nt >= 3 ? strtoull(tok[2], 0, 0) : 0; printf("ok\n");
		} else if (!strcmp(c, "seed") && nt >= 2) {
			vr_rng = strtoull(tok[1], 0, 0); printf("ok\n");
		} else if ((!strcmp(c, "put") && nt >= 4) || (!strcmp(c, "get") && nt >= 3) || (!strcmp(c, "del") && nt >= 3) ||
			   (!strcmp(c, "clear") && nt >= 2) || (!strcmp(c, "dump") && nt >= 2)) {
			struct vr_map *m = vr_find_name(tok[1]);
			unsigned char kb[512], vb[4096];
			if (!m) { printf("err nomap\n"); goto done; }
			if (!strcmp(c, "clear")) { vr_clear(m); printf("ok\n"); goto done; }
			if (!strcmp(c, "dump")) {
				printf("ok");
				if (vr_is_array(m)) {
					for (unsigned i = 0; i < m->max && i < 4096; i++) { printf(" "); vr_puthex((unsigned char *)&i, 4); printf("="); vr_puthex(vr_arr(m) + (size_t)i * m->vsz, m->vsz); }
				} else {
					unsigned n = m->n, i = 0; unsigned char **ks = calloc(n ? n : 1, sizeof *ks);
					for (struct vr_ent *e = m->head; e; e = e->next) ks[i++] = e->key;
					qsort_r(ks, n, sizeof *ks, vr_keycmp, &m->ksz);
					for (i = 0; i < n; i++) {
						for (struct vr_ent *e = m->head; e; e = e->next) if (e->key == ks[i]) { printf(" "); vr_puthex(e->key, m->ksz); printf("="); vr_puthex(e->val, m->vsz); }
					}
					free(ks);
				}
				printf("\n"); goto done;
			}
			if (vr_unhex(tok[2], kb, sizeof kb) != (int)m->ksz) { printf("err keysize want=%u\n", m->ksz); goto done; }
			if (!strcmp(c, "put")) {
				if (m->vsz > sizeof vb || vr_unhex(tok[3], vb, sizeof vb) != (int)m->vsz) { printf("err valuesize want=%u\n", m->vsz); goto done; }
				long r = vr_update(m, kb, vb, nt >= 5 ? strtoull(tok[4], 0, 0) : 0);
				if (r) printf("err %ld\n", -r); else printf("ok\n");
			} else if (!strcmp(c, "get")) {
				/* exact lookup for LPM tries too (control-plane view): compare whole key */
				void *v = NULL;
				if (m->type == BPF_MAP_TYPE_LPM_TRIE) { for (struct vr_ent *e = m->head; e; e = e->next) if (!memcmp(e->key, kb, m->ksz)) v = e->val; }
				else v = vr_lookup(m, kb);
				if (v) { printf("ok "); vr_puthex(v, m->vsz); printf("\n"); } else printf("none\n");
			} else {
				long r = vr_delete(m, kb); printf(r ? "none\n" : "ok\n");
			}
		} else if (!strcmp(c, "events")) {
			printf("ok");
			while (vr_ev_head) { struct vr_event *e = vr_ev_head; vr_ev_head = e->next; printf(" %s:", e->map); vr_puthex(e->data, e->len); free(e->data); free(e); }
			vr_ev_tail = NULL; vr_ev_count = 0; printf("\n");
		} else if (!strcmp(c, "run") && nt >= 3) {
			struct vr_prog *p = vr_prog_find(tok[1]);
			int fl = vr_unhex(tok[2], vr_frame, sizeof vr_frame), ret = 0;
			if (!p) { printf("err noprog\n"); goto done; }
			if (fl < 0) { printf("err frame\n"); goto done; }
			unsigned ev0 = vr_ev_count; unsigned long kc0 = vr_ktime_calls;
			if (vr_exec(p, vr_frame, (unsigned)fl, tok + 3, nt - 3, &ret) < 0) {
				printf("fault sig=%d addr=%p data=%p end=%p\n", vr_fault_sig, vr_fault_addr, (void *)vr_data, (void *)(vr_data + vr_len)); goto done;
			}
			printf("ok ret=%d data=", ret); vr_puthex(vr_data, vr_len);
			printf(" prio=%u mark=%u now=%llu ktime_calls=%lu events=%u\n", p->kind ? vr_skb.priority : 0, p->kind ? vr_skb.mark : 0,
			       (unsigned long long)vr_now, vr_ktime_calls - kc0, vr_ev_count - ev0);
		} else if (!strcmp(c, "runseq") && nt >= 3) {
			/* runseq PROG FRAME n=N start=T gap=G [len=L ...]: N runs, clock set to T + i*G (mod 2^64) before run i;
			   reply: run-length encoded verdicts  ok rle=RETxCOUNT,RETxCOUNT,... faults=F */
			struct vr_prog *p = vr_prog_find(tok[1]);
			int fl = vr_unhex(tok[2], vr_frame, sizeof vr_frame), ret = 0;
			const char *o; unsigned long n = (o = vr_opt(tok + 3, nt - 3, "n")) ? strtoul(o, 0, 0) : 1;
			__u64 t = (o = vr_opt(tok + 3, nt - 3, "start")) ? strtoull(o, 0, 0) : vr_now;
			__u64 gap = (o = vr_opt(tok + 3, nt - 3, "gap")) ? strtoull(o, 0, 0) : 0;
			if (!p || fl < 0) { printf("err args\n"); goto done; }
			static unsigned char keep[VR_DATA_PAGES * VR_PAGE]; memcpy(keep, vr_frame, (unsigned)fl);
			printf("ok rle=");
			int cur = 0; unsigned long cnt = 0, faults = 0; int first = 1;
			for (unsigned long i = 0; i < n; i++) {
				vr_now = t + i * gap; vr_step_ns = 0;
				if (vr_exec(p, keep, (unsigned)fl, tok + 3, nt - 3, &ret) < 0) { faults++; ret = -999; }
				if (cnt && ret == cur) cnt++;
				else { if (cnt) { printf("%s%dx%lu", first ? "" : ",", cur, cnt); first = 0; } cur = ret; cnt = 1; }
			}
			if (cnt) printf("%s%dx%lu", first ? "" : ",", cur, cnt);
			printf(" faults=%lu\n", faults);
		} else {
			printf("err unknown-command\n");
		}
done:
		fflush(stdout);
	}
	return 0;
}
