#!/usr/bin/env python3
"""genmaps.py SRC.c  ->  X-macro list of the maps and programs of one eBPF source (and of the local
headers it includes), consumed by runner.c:   MAP(name, type, key_size, value_size, max_entries)   PROG(name, kind)   kind: 0 = XDP, 1 = TC.
Declarations only, found by regular expressions on the preprocessed-free source text:
   } NAME SEC(".maps");            SEC("xdp...") / SEC("tc...") / SEC("classifier...") int NAME(..."""
import os, re, sys

def read(path, seen):
    if path in seen or not os.path.exists(path):
        return ""
    seen.add(path)
    txt = open(path, errors="replace").read()
    out = ""
    for m in re.finditer(r'^\s*#\s*include\s+"([^"]+)"', txt, re.M):
        out += read(os.path.join(os.path.dirname(path), m.group(1)), seen)
    return out + txt

def strip_comments(s):
    return re.sub(r"/\*.*?\*/|//[^\n]*", " ", s, flags=re.S)

src = strip_comments(read(sys.argv[1], set()))
maps = re.findall(r"struct\s*\{([^{}]*)\}\s*(\w+)\s+SEC\(\s*\"\.maps\"\s*\)", src)
progs = re.findall(r"SEC\(\s*\"(xdp|tc|classifier)[^\"]*\"\s*\)\s*int\s+(\w+)\s*\(", src)
seen = set()
def field(body, kind, name):
    m = re.search(r"__%s\(\s*%s\s*,\s*(.*?)\)\s*;" % (kind, name), body, re.S)
    return m.group(1).strip() if m else None

for body, m in maps:
    if m in seen:
        continue
    seen.add(m)
    typ = field(body, "uint", "type") or "0"
    kt, vt = field(body, "type", "key"), field(body, "type", "value")
    ks = "sizeof(%s)" % kt if kt else (field(body, "uint", "key_size") or "0")
    vs = "sizeof(%s)" % vt if vt else (field(body, "uint", "value_size") or "0")
    mx = field(body, "uint", "max_entries") or "0"
    print("MAP(%s, %s, %s, %s, %s)" % (m, typ, ks, vs, mx))
for kind, name in progs:
    print("PROG(%s, %d)" % (name, 0 if kind == "xdp" else 1))
if not progs:
    sys.exit("no programs found in " + sys.argv[1])
