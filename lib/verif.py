"""Shared machinery for /verif checks (see DESIGN.md §2.3, §5).

A check for property P:
  1. builds the Rocq targets P needs (full .vo build through coq_makefile; theorems in Props/P.v
     re-checked, Print Assumptions output captured),
  2. builds the Go correspondence driver against the repository working tree with -tags verif,
  3. runs the driver (corpus first, then generated cases); the driver executes the REAL code and
     writes Coq files holding ops + observed outputs,
  4. evaluates the Model and the Spec acceptor on those cases inside Coq (vm_compute),
  5. applies the verdict logic and writes evidence/P.json.
"""
import fcntl, json, os, re, subprocess, sys, time, glob, hashlib, shutil
from concurrent.futures import ThreadPoolExecutor

VERIF = os.path.dirname(os.path.dirname(os.path.abspath(__file__)))
WORK = os.path.join(VERIF, ".work")
COQ = os.path.join(VERIF, "coq")
HARNESS = os.path.join(VERIF, "harness")


class Ctx:
    def __init__(self, pid, tier, seed, replay=None):
        self.pid = pid
        self.tier = tier
        self.seed = seed
        self.replay = replay
        self.repo = os.environ.get("VERIF_REPO", "/repo")
        self.t0 = time.time()
        self.work = os.path.join(WORK, pid + ("" if self.repo == "/repo" else "-" + hashlib.md5(self.repo.encode()).hexdigest()[:6]))
        self.lines = []          # stdout lines of interest
        self.violations = []     # dicts
        self.known_hits = {}     # finding id -> count
        self.notes = []
        os.makedirs(self.work, exist_ok=True)

    def log(self, *a):
        print(*a, flush=True)


def sh(cmd, cwd=None, timeout=1800, env=None):
    e = dict(os.environ)
    e.setdefault("GOFLAGS", "-mod=mod")
    e["GOPROXY"] = "off"
    e.pop("GOTOOLCHAIN", None) if e.get("GOTOOLCHAIN") == "local" else None
    e.pop("GOSUMDB", None) if e.get("GOSUMDB") == "off" else None
    if env:
        e.update(env)
    try:
        p = subprocess.run(cmd, shell=isinstance(cmd, str), cwd=cwd, env=e, timeout=timeout,
                           stdout=subprocess.PIPE, stderr=subprocess.STDOUT, text=True, errors="replace")
        return p.returncode, p.stdout
    except subprocess.TimeoutExpired as ex:
        out = ex.stdout or ""
        if isinstance(out, bytes):
            out = out.decode(errors="replace")
        return 124, out + "\n[timeout after %ss]" % timeout


class Lock:
    def __init__(self, name):
        os.makedirs(WORK, exist_ok=True)
        self.path = os.path.join(WORK, name + ".lock")

    def __enter__(self):
        self.f = open(self.path, "w")
        fcntl.flock(self.f, fcntl.LOCK_EX)

    def __exit__(self, *a):
        fcntl.flock(self.f, fcntl.LOCK_UN)
        self.f.close()


# ---------------------------------------------------------------------------- Coq

def coq_make(targets, timeout=2400):
    """Build the given .vo targets (and what they depend on). Returns (ok, log)."""
    # The lock covers only the shared part (project file + Base/); component files are disjoint
    # between properties, so their builds may overlap.
    with Lock("coq"):
        rc, out = sh("./mkproject.sh", cwd=COQ, timeout=120)
        if rc != 0:
            return False, out
        base = [f[:-2] + ".vo" for f in sorted(glob.glob(os.path.join(COQ, "Base", "*.v")))]
        base = [os.path.relpath(f, COQ) for f in base]
        rc, out = sh(["make", "-j16"] + base, cwd=COQ, timeout=timeout)
        if rc != 0:
            return False, out
    rc, out = sh(["make", "-j8"] + targets, cwd=COQ, timeout=timeout)
    return rc == 0, out


def props_check(props_file):
    """Re-compile Props/<P>.v capturing Print Assumptions. Returns dict."""
    src = open(os.path.join(COQ, props_file)).read()
    theorems = re.findall(r"^\s*(?:Theorem|Lemma)\s+(\w+)", src, re.M)
    examples = re.findall(r"^\s*Example\s+(\w+)", src, re.M)
    prints = re.findall(r"^\s*Print Assumptions\s+(\w+)", src, re.M)
    # compile a copy so that the build tree's .vo is not rewritten while other checks read it
    tmpd = os.path.join(WORK, "props-" + os.path.basename(props_file)[:-2] + "-%d" % os.getpid())
    os.makedirs(tmpd, exist_ok=True)
    tmpf = os.path.join(tmpd, "PropsCopy.v")
    shutil.copy(os.path.join(COQ, props_file), tmpf)
    rc, out = sh(["coqc", "-Q", COQ, "Verif", "-w", "-notation-overridden", tmpf], cwd=tmpd, timeout=900)
    shutil.rmtree(tmpd, ignore_errors=True)
    closed = out.count("Closed under the global context")
    axioms = []
    if "Axioms:" in out:
        for m in re.finditer(r"Axioms:\n((?:.+\n?)+?)(?=\n\S|\Z)", out):
            axioms.append(m.group(1).strip())
    bad = [t for t in theorems if t not in prints]
    forbidden = re.findall(r"\b(Admitted|admit|Axiom|Parameter|Conjecture)\b", strip_comments(src))
    return {"ok": rc == 0 and closed == len(prints) and not bad and not forbidden and not axioms,
            "rc": rc, "theorems": theorems, "examples": examples, "closed": closed, "prints": len(prints),
            "axioms": axioms, "unprinted": bad, "forbidden": forbidden, "log": out[-4000:]}


def coqchk(props_file, timeout=3000):
    """Independent re-check of the compiled Props module and everything it depends on (thorough tier)."""
    mod = "Verif." + props_file[:-2].replace("/", ".")
    rc, out = sh(["coqchk", "-silent", "-o", "-Q", ".", "Verif", mod], cwd=COQ, timeout=timeout)
    m = re.search(r"\* Axioms:(.*?)\n\s*\n\* Constants", out, re.S)
    axioms = m.group(1).strip() if m else "?"
    ok = rc == 0 and axioms == "<none>" and all(
        re.search(r"\* %s: <none>" % re.escape(k), out) for k in
        ["Constants/Inductives relying on type-in-type", "Constants/Inductives relying on unsafe (co)fixpoints",
         "Inductives whose positivity is assumed"])
    return {"ok": ok, "rc": rc, "axioms": axioms, "tail": out[-1200:]}


def strip_comments(s):
    out, depth, i = [], 0, 0
    while i < len(s):
        if s.startswith("(*", i):
            depth += 1; i += 2
        elif s.startswith("*)", i) and depth:
            depth -= 1; i += 2
        else:
            if not depth:
                out.append(s[i])
            i += 1
    return "".join(out)


def audit_sources(files):
    """No Admitted/admit/Axiom/... in the development files this property depends on."""
    bad = []
    for f in files:
        src = strip_comments(open(os.path.join(COQ, f)).read())
        for m in re.finditer(r"\b(Admitted|admit|Axiom|Axioms|Parameter|Parameters|Conjecture|Admit Obligations|Unset Guard Checking|bypass_check|Unset Positivity Checking|Unset Universe Checking)\b", src):
            bad.append("%s: %s" % (f, m.group(1)))
        # Variable / Hypothesis / Context outside a Section declares an axiom
        depth = 0
        for line in src.splitlines():
            t = line.strip()
            if re.match(r"(Section|Module)\s+\w+", t) and not re.match(r"Module\s+\w+\s*:=", t):
                depth += 1
            elif re.match(r"End\s+\w+\s*\.", t):
                depth = max(0, depth - 1)
            elif depth == 0 and re.match(r"(Variable|Variables|Hypothesis|Hypotheses|Context)\b", t):
                bad.append("%s: %s outside a Section" % (f, t.split()[0]))
    return bad


def vo_deps(target_v):
    """Transitive Verif.* dependencies of a .v file, as .v paths relative to coq/."""
    seen, todo = [], [target_v]
    while todo:
        f = todo.pop()
        if f in seen or not os.path.exists(os.path.join(COQ, f)):
            continue
        seen.append(f)
        src = strip_comments(open(os.path.join(COQ, f)).read())
        for m in re.finditer(r"(?:From\s+Verif\s+)?Require\s+(?:Import\s+|Export\s+)?((?:\w+(?:\.\w+)*\s+)*\w+(?:\.\w+)*)\.(?=\s|$)", src):
            for mod in m.group(1).split():
                if mod.startswith("Verif."):
                    mod = mod[len("Verif."):]
                todo.append(mod.replace(".", "/") + ".v")
    return seen


_ROW = re.compile(r"R\s*=\s*(.*?)\n\s*:\s*list", re.S)


def eval_cases_file(path, timeout=1500):
    rc, out = sh(["coqc", "-Q", COQ, "Verif", "-w", "-notation-overridden", path], cwd=os.path.dirname(path), timeout=timeout)
    if rc != 0:
        return None, out[-3000:]
    m = _ROW.search(out)
    if not m:
        return None, out[-3000:]
    txt = m.group(1).replace(";", ",").replace("%N", "")
    try:
        return json.loads(txt), ""
    except Exception as ex:
        return None, "parse error %s: %s" % (ex, txt[:500])


def eval_stream(outdir, stream, jobs=int(os.environ.get("VERIF_JOBS", "8"))):
    """Evaluate every shard of a stream. Returns (rows with global case index, errors, meta)."""
    meta = json.load(open(os.path.join(outdir, stream + ".meta.json")))
    files = [os.path.join(outdir, "%s_%d.v" % (stream, k)) for k in range(meta["shards"])]
    rows, errs = [], []
    with ThreadPoolExecutor(max_workers=jobs) as ex:
        for k, (r, e) in enumerate(ex.map(eval_cases_file, files)):
            if r is None:
                errs.append("%s: %s" % (files[k], e))
                continue
            for row in r:
                rows.append([k * meta["shard_size"] + row[0]] + row[1:])
    for f in files:
        for ext in (".vo", ".glob", ".vok", ".vos"):
            try:
                os.remove(f[:-2] + ext)
            except OSError:
                pass
        try:
            os.remove(os.path.join(os.path.dirname(f), "." + os.path.basename(f)[:-2] + ".aux"))
        except OSError:
            pass
    return rows, errs, meta


def load_case(outdir, stream, idx):
    with open(os.path.join(outdir, stream + ".cases.jsonl")) as f:
        for i, line in enumerate(f, 1):
            if i == idx:
                return json.loads(line)
    return None


# ---------------------------------------------------------------------------- Go

def go_build(ctx, driver, extra_tags=""):
    """Build harness/<driver> against ctx.repo with -tags verif. Returns (binary or None, log)."""
    moddir = os.path.join(ctx.work, "gomod")
    os.makedirs(moddir, exist_ok=True)
    gomod = open(os.path.join(HARNESS, "go.mod")).read().replace("=> /repo", "=> " + ctx.repo)
    open(os.path.join(moddir, "go.mod"), "w").write(gomod)
    shutil.copy(os.path.join(ctx.repo, "go.sum"), os.path.join(moddir, "go.sum"))
    bindir = os.path.join(ctx.work, "bin")
    os.makedirs(bindir, exist_ok=True)
    out = os.path.join(bindir, driver)
    tags = "verif" + ("," + extra_tags if extra_tags else "")
    rc, log = sh(["go", "build", "-modfile=" + os.path.join(moddir, "go.mod"), "-tags", tags, "-o", out, "./" + driver],
                 cwd=HARNESS, timeout=1200)
    return (out if rc == 0 else None), log


def repo_status(ctx):
    rc, out = sh(["git", "-C", ctx.repo, "status", "--porcelain"])
    return out


# ---------------------------------------------------------------------------- constants (DESIGN §4.1, HOWTO §6)

_EX_START = re.compile(r"^\s*Example\s+(\w+)")
_EX_END = re.compile(r"(eq_refl|Qed|Defined)\s*\.\s*(\(\*.*\*\)\s*)?$")


def _example_spans(lines):
    """[(name, first_line_index, last_line_index)] of the Example sentences of an Agree file."""
    spans, i = [], 0
    while i < len(lines):
        m = _EX_START.match(lines[i])
        if m:
            j = i
            while j < len(lines) - 1 and not _EX_END.search(lines[j]):
                j += 1
            spans.append((m.group(1), i, j))
            i = j + 1
        else:
            i += 1
    return spans


def consts_check(ctx, pid=None, max_report=12):
    """Regenerate the numeric constants of the working tree and prove them equal to the Model's.

    (a) builds tools/gen_consts and harness/consts_defaults (binaries in <ctx.work>/bin),
    (b) runs them on ctx.repo -> <ctx.work>/genrun/Consts.v (+ consts.json side-car),
    (c) compiles it as VerifRun.Consts,
    (d) compiles a private copy of coq/Agree/<pid>.v (one `Example` per constant, proofs by
        evaluation) against the Model .vo files of the main tree and the regenerated constants.
    Returns (ok, cause, info).  cause holds one 'theorem:consts-agree:<ExampleName>' per Example
    that no longer checks (the failing Example is blanked out and the file re-compiled, so several
    moved constants are all named), or 'theorem:consts-agree:<file>:<line>' / 'corr:gen_consts ...'
    when something else breaks.  info: consts_regenerated, consts_go, consts_c, consts_defaults,
    consts_tied, consts_failed, agree_file, wall_s.  Extend the check's `cause` list with the
    returned cause: the verdict logic then searches for a failing input and otherwise prints
    VIOLATION ... no-failing-input-found naming these entries."""
    pid = pid or ctx.pid
    t0 = time.time()
    cause = []
    info = {"consts_regenerated": 0, "consts_go": 0, "consts_c": 0, "consts_defaults": 0, "consts_tied": 0,
            "consts_failed": [], "agree_file": None, "notes": []}

    def done(ok):
        info["wall_s"] = round(time.time() - t0, 2)
        ctx.log("[consts] regenerated=%d (go %d, c %d, defaults %d) tied=%d failed=%d  %.1fs" % (
            info["consts_regenerated"], info["consts_go"], info["consts_c"], info["consts_defaults"],
            info["consts_tied"], len(info["consts_failed"]), info["wall_s"]))
        return ok, cause, info

    agree_src = os.path.join(COQ, "Agree", pid + ".v")
    has_agree = os.path.exists(agree_src)
    bindir = os.path.join(ctx.work, "bin")
    gen = os.path.join(ctx.work, "genrun")
    shutil.rmtree(gen, ignore_errors=True)
    os.makedirs(bindir, exist_ok=True)
    os.makedirs(gen, exist_ok=True)

    # (a) translators, built from source on every run (go build is incremental)
    gc_bin = os.path.join(bindir, "gen_consts")
    gc_dir = os.path.join(VERIF, "tools", "gen_consts")
    rc, log = 0, ""
    # the translator depends only on its own source (not on the repository): rebuild when that is newer
    if not os.path.exists(gc_bin) or os.path.getmtime(gc_bin) < max(os.path.getmtime(f) for f in glob.glob(os.path.join(gc_dir, "*"))):
        rc, log = sh(["go", "build", "-o", gc_bin, "."], cwd=gc_dir, timeout=600)
    if rc != 0:
        ctx.log("[consts] gen_consts build failed:\n" + log[-2000:])
        cause.append("corr:gen_consts does not build")
        return done(False)
    d_bin, dlog = go_build(ctx, "consts_defaults")
    if d_bin is None:
        # a Default*Config constructor changed shape: the dflt_* definitions are absent from this run's
        # Consts.v, so exactly the Examples that use them fail below (and are named)
        info["notes"].append("harness/consts_defaults does not build against the working tree: " + dlog[-400:])
        ctx.log("[consts] consts_defaults build failed (dflt_* constants absent this run):\n" + dlog[-1500:])

    # (b) regenerate
    consts_v = os.path.join(gen, "Consts.v")
    side = os.path.join(gen, "consts.json")
    rc, log = sh([gc_bin, "-repo", ctx.repo, "-out", consts_v, "-json", side, "-cinc", os.path.join(VERIF, "cbpf", "include")],
                 cwd=gen, timeout=180)
    if rc != 0 or not os.path.exists(consts_v):
        ctx.log("[consts] gen_consts failed:\n" + log[-2000:])
        cause.append("corr:gen_consts failed on the working tree")
        return done(False)
    try:
        sc = json.load(open(side))
        info["consts_go"], info["consts_c"] = sc.get("go", 0), sc.get("c", 0)
        if sc.get("skipped"):
            info["notes"].append("gen_consts skipped %d declarations (see %s)" % (len(sc["skipped"]), side))
    except Exception as ex:
        info["notes"].append("side-car unreadable: %s" % ex)
    if d_bin:
        frag, dside = os.path.join(gen, "defaults.v.frag"), os.path.join(gen, "defaults.json")
        rc, log = sh([d_bin, "-out", frag, "-json", dside], cwd=gen, timeout=120)
        if rc == 0 and os.path.exists(frag):
            with open(consts_v, "a") as f:
                f.write(open(frag).read())
            try:
                info["consts_defaults"] = json.load(open(dside)).get("defaults", 0)
            except Exception:
                pass
        else:
            info["notes"].append("consts_defaults exited %d: %s" % (rc, log[-300:]))
            ctx.log("[consts] consts_defaults failed:\n" + log[-1500:])
    info["consts_regenerated"] = info["consts_go"] + info["consts_c"] + info["consts_defaults"]

    # (c) the regenerated file is a Coq library of its own, bound to the logical root VerifRun
    rc, out = sh(["coqc", "-Q", gen, "VerifRun", consts_v], cwd=gen, timeout=300)
    if rc != 0:
        ctx.log("[consts] regenerated Consts.v does not compile:\n" + out[-1500:])
        cause.append("theorem:consts-agree:Consts.v (regenerated file does not compile)")
        return done(False)

    # (d) agreement with the Model's constants
    if not has_agree:
        return done(True)
    info["agree_file"] = "coq/Agree/%s.v" % pid
    src = open(agree_src).read()
    bad = re.findall(r"\b(Admitted|admit|Axiom|Axioms|Parameter|Parameters|Conjecture|Variable|Hypothesis|Context)\b", strip_comments(src))
    if bad:
        cause.append("theorem:consts-agree:forbidden-constructs %s" % ",".join(sorted(set(bad))))
    lines = src.split("\n")
    spans = _example_spans(lines)
    info["consts_tied"] = len(spans)
    name = "Agree" + pid
    priv = os.path.join(gen, name + ".v")
    deadline = time.time() + 600
    for attempt in range(max_report + 1):
        open(priv, "w").write("\n".join(lines))
        rc, out = sh(["coqc", "-Q", COQ, "Verif", "-Q", gen, "VerifRun", "-w", "-notation-overridden", priv], cwd=gen, timeout=300)
        if rc == 0:
            break
        m = re.search(r'File "[^"]*%s\.v", line (\d+), characters [^\n]*\n((?:.*\n?){0,6})' % re.escape(name), out)
        if not m:
            cause.append("theorem:consts-agree:%s.v (coqc exited %d: %s)" % (pid, rc, out.strip()[-300:].replace("\n", " ")))
            break
        ln = int(m.group(1)) - 1
        msg = " ".join(m.group(2).split())[:300]
        hit = [sp for sp in spans if sp[1] <= ln <= sp[2]]
        if not hit:
            cause.append("theorem:consts-agree:%s.v:%d (%s)" % (pid, ln + 1, msg))
            break
        ex_name, a, b = hit[0]
        cause.append("theorem:consts-agree:%s" % ex_name)
        info["consts_failed"].append({"example": ex_name, "line": a + 1, "error": msg})
        ctx.log("[consts] Example %s (coq/Agree/%s.v:%d) no longer checks: %s" % (ex_name, pid, a + 1, msg[:200]))
        for k in range(a, b + 1):
            lines[k] = ""
        if attempt == max_report - 1 or time.time() > deadline:
            info["notes"].append("stopped after %d failing Examples; more may fail" % len(info["consts_failed"]))
            break
    for ext in (".vo", ".vok", ".vos", ".glob"):
        try:
            os.remove(priv[:-2] + ext)
        except OSError:
            pass
    return done(not cause)


# ---------------------------------------------------------------------------- verdicts

def load_known(pid):
    p = os.path.join(VERIF, "known_findings", pid + ".json")
    if not os.path.exists(p):
        return []
    return json.load(open(p))


def classify_rows(ctx, spec, rows, outdir, stream, known):
    """Apply DESIGN §5 to the rows of one stream.
    row = [case, mismatch, impl_rej_step, impl_clause+1, model_rej_step, model_clause+1, markers...]"""
    res = {"mismatch": [], "violations": [], "known": {}, "marker_only": 0}
    for row in rows:
        case, mm, ir, ic, mr, mc = row[:6]
        markers = row[6:]
        hit = None
        if ir:
            clause = ic - 1
            agree = (mm == 0 or mm > ir)
            same = (mr == ir and mc == ic)
            hit = None
            if agree and same:
                for k in known:
                    if k.get("status") == "known" and k["clause"] == clause and k["marker"] in markers:
                        hit = k
                        break
            if hit:
                res["known"].setdefault(hit["id"], []).append(case)
            else:
                res["violations"].append({"case": case, "step": ir, "clause": clause,
                                          "clause_name": spec.get("clauses", {}).get(clause, str(clause)),
                                          "model_rejected_same": same, "tie1_agrees_upto": agree, "markers": markers,
                                          "stream": stream, "outdir": outdir})
        # a tie-1 mismatch AFTER an unexplained rejection adds nothing (the case is a violation already);
        # after a rejection explained by a known finding it is still a disagreement between code and
        # Model (the faithful Model follows the code through its known defects) and must be reported
        if mm and not (ir and mm > ir and not hit):
            res["mismatch"].append({"case": case, "step": mm, "stream": stream, "outdir": outdir})
        if not ir and not mm:
            res["marker_only"] += 1
    return res


def write_replay(ctx, name, payload):
    d = os.path.join(VERIF, "replays")
    os.makedirs(d, exist_ok=True)
    p = os.path.join(d, "%s-%s.json" % (ctx.pid, name))
    json.dump(payload, open(p, "w"), indent=1)
    return p


def evidence_path(ctx):
    """where this run's evidence lives: evidence/<pid>.json for /repo, a private file for scratch worktrees"""
    if ctx.repo != "/repo":
        return os.path.join(ctx.work, "evidence.json")
    return os.path.join(VERIF, "evidence", ctx.pid + ".json")


def write_evidence(ctx, spec, cov, assumptions, violations):
    ev = {"property_id": ctx.pid, "tier": ctx.tier, "seed": ctx.seed, "level": "proof",
          "coverage": cov, "assumptions": assumptions, "wall_s": round(time.time() - ctx.t0, 2),
          "violations": violations}
    if ctx.repo != "/repo":
        # a run against a scratch worktree (seeded change, fix validation) must never overwrite the
        # committed evidence, which describes /repo itself
        json.dump(ev, open(os.path.join(ctx.work, "evidence.json"), "w"), indent=1)
        return
    os.makedirs(os.path.join(VERIF, "evidence"), exist_ok=True)
    json.dump(ev, open(os.path.join(VERIF, "evidence", ctx.pid + ".json"), "w"), indent=1)


TRUSTED_COMMON = [
    "Coq 8.16.1 kernel (coqc full .vo build; vm_compute used for witnesses, finite sweeps and for evaluating the Model on harness cases; native_compute not used)",
    "axioms: none (Print Assumptions under every theorem of the Props file must say 'Closed under the global context'; the check fails otherwise)",
    "no extraction: the Model is evaluated inside Coq on the cases the Go driver wrote",
    "hand-written Model of the Go/C code, tied to the working tree by the differential run of this check (sampled, not a proof about the code)",
    "Go harness driver (generators, canonicalisation, Coq-term printer), Go toolchain 1.25, python orchestrator lib/verif.py",
    "constants translator tools/gen_consts (go/types constant evaluation; clang -dM -E + a C integer-expression evaluator) and harness/consts_defaults (reflection over the values the real Default*Config constructors return); hand-written coq/Agree/<PID>.v states which Model literal corresponds to which source constant",
]


def standard_check(ctx, spec):
    """Generic pipeline for a property with one or more driver streams. spec keys:
       props: 'Props/CXX.v'; check_vo: [...]; driver: 'cXX'; streams: ['cases', ...];
       clauses: {n: name}; component: str; extra_assumptions: [...]; driver_args: [...]"""
    pid = ctx.pid
    known = load_known(pid)
    cause = []          # broken obligations (theorem:..., corr:...)
    before = repo_status(ctx)

    # 1. proof obligations
    targets = [spec["props"][:-2] + ".vo"] + spec.get("check_vo", [])
    ok, log = coq_make(targets)
    pc = None
    if not ok:
        m = re.search(r'File "\./([^"]+)", line (\d+)', log)
        cause.append("theorem:%s" % (m.group(1) + ":" + m.group(2) if m else "build"))
        ctx.log("[coq] build failed:\n" + log[-1500:])
    else:
        pc = props_check(spec["props"])
        if not pc["ok"]:
            cause.append("theorem:%s (assumptions/closure: closed=%d prints=%d axioms=%s forbidden=%s rc=%d)" % (
                spec["props"], pc["closed"], pc["prints"], pc["axioms"], pc["forbidden"], pc["rc"]))
        deps = list(vo_deps(spec["props"]))
        for t in spec.get("check_vo", []):
            for d in vo_deps(t[:-3] + ".v"):
                if d not in deps:
                    deps.append(d)
        bad = audit_sources(deps)
        if bad:
            cause.append("theorem:forbidden-constructs " + ", ".join(bad))
    chk = None
    if ok and pc and pc["ok"] and ctx.tier == "thorough" and not ctx.replay and not os.environ.get("VERIF_NO_COQCHK"):
        chk = coqchk(spec["props"])
        if not chk["ok"]:
            cause.append("theorem:coqchk (rc=%d axioms=%s)" % (chk["rc"], chk["axioms"]))
    # the model/check files must build even when a proof is broken
    model_ok = ok
    if not ok and spec.get("check_vo"):
        model_ok, log2 = coq_make(spec["check_vo"])
        if not model_ok:
            ctx.log("[coq] model build failed:\n" + log2[-1500:])

    # 1b. constants regenerated from the working tree agree with the Model's (coq/Agree/<PID>.v)
    cok, ccause, cinfo = consts_check(ctx)
    cause.extend(ccause)
    ctx.notes.extend("consts: " + n for n in cinfo["notes"])

    # 1c. property-specific obligations: spec["extra_checks"] = [callable(ctx) -> (causes, notes)]; a cause
    #     ("corr:..." / "theorem:...") is a broken obligation like any other (search, then VIOLATION)
    for fn in spec.get("extra_checks", []):
        xc, xn = fn(ctx)
        cause.extend(xc)
        ctx.notes.extend(xn)

    # 2. harness
    binp, blog = go_build(ctx, spec["driver"])
    if binp is None:
        cause.append("corr:%s (harness does not build against the working tree)" % spec["component"])
        ctx.log("[go] build failed:\n" + blog[-3000:])

    total = {"mismatch": [], "violations": [], "known": {}, "marker_only": 0}
    metas, errs = [], []
    evaluations = distinct = 0
    samples = []

    def run_driver(tier, seed, tag, extra=None):
        nonlocal evaluations, distinct
        outdir = os.path.join(ctx.work, tag)
        shutil.rmtree(outdir, ignore_errors=True)
        args = [binp, "-seed", str(seed), "-tier", tier, "-out", outdir] + spec.get("driver_args", []) + (extra or [])
        corpus = os.path.join(VERIF, "corpus", pid)
        if os.path.isdir(corpus) and not ctx.replay:
            args += ["-corpus", corpus]
        rc, out = sh(args, cwd=ctx.work, timeout=spec.get("driver_timeout", 1500))
        if rc != 0:
            cause.append("corr:%s (driver exited %d)" % (spec["component"], rc))
            ctx.log("[driver] failed:\n" + out[-3000:])
            return
        for mf in sorted(glob.glob(os.path.join(outdir, "*.meta.json"))):
            stream = os.path.basename(mf)[:-len(".meta.json")]
            rows, e, meta = eval_stream(outdir, stream)
            errs.extend(e)
            metas.append(meta)
            evaluations += meta["cases"]
            distinct += meta["distinct"]
            r = classify_rows(ctx, spec, rows, outdir, stream, known)
            total["mismatch"] += r["mismatch"]
            total["violations"] += r["violations"]
            total["marker_only"] += r["marker_only"]
            for k, v in r["known"].items():
                total["known"].setdefault(k, []).extend((outdir, stream, c) for c in v)
            if len(samples) < 3 and meta["cases"]:
                c = load_case(outdir, stream, 1)
                if c:
                    samples.append({"stream": stream, "case": c})

    if binp and model_ok:
        if ctx.replay:
            run_driver(ctx.tier, ctx.seed, "replay", ["-replay", ctx.replay])
        else:
            run_driver(ctx.tier, ctx.seed, "run")
        if errs:
            cause.append("corr:%s (model evaluation failed: %s)" % (spec["component"], errs[0][:300]))
        # 3. search for a failing input when an obligation or the correspondence is broken
        if (cause or total["mismatch"]) and not total["violations"] and not ctx.replay:
            ctx.log("[search] obligation/correspondence broken (%s); searching for a failing input" %
                    (cause + ["tie-1 mismatch x%d" % len(total["mismatch"])])[0])
            for extra_seed in range(1, 4 if ctx.tier == "quick" else 12):
                run_driver("thorough" if ctx.tier == "thorough" else "quick", ctx.seed * 1000003 + extra_seed, "search%d" % extra_seed)
                if total["violations"]:
                    break

    after = repo_status(ctx)
    if before != after:
        ctx.notes.append("repository working tree changed during the run: %r -> %r" % (before, after))

    # 4. verdict
    nviol = 0
    for kid, hits in sorted(total["known"].items()):
        k = [x for x in known if x["id"] == kid][0]
        print("KNOWN-FINDING: property=%s %s %s (reproduced on %d case(s) this run)" % (pid, kid, k["summary"], len(hits)))
    if total["violations"]:
        # group by clause; report the first (smallest case) per clause
        seen = set()
        for v in total["violations"]:
            key = (v["clause"], tuple(sorted(v["markers"])))
            if key in seen:
                continue
            seen.add(key)
            case = load_case(v["outdir"], v["stream"], v["case"])
            rp = write_replay(ctx, "%d-c%d-%d" % (ctx.seed, v["clause"], len(seen)), {
                "property": pid, "kind": "property-violation", "clause": v["clause"], "clause_name": v["clause_name"],
                "step": v["step"], "markers": v["markers"], "model_rejected_same": v["model_rejected_same"],
                "tie1_agrees": v["tie1_agrees_upto"], "broken_obligations": cause,
                "desc": case["desc"] if case else None})
            print("VIOLATION property=%s replay=%s" % (pid, rp))
            nviol += 1
    elif cause or total["mismatch"]:
        mm = total["mismatch"][0] if total["mismatch"] else None
        case = load_case(mm["outdir"], mm["stream"], mm["case"]) if mm else None
        names = list(cause)
        if mm:
            names.append("corr:%s (Model and implementation differ at step %d)" % (spec["component"], mm["step"]))
        rp = write_replay(ctx, "%d-obligation" % ctx.seed, {
            "property": pid, "kind": "broken-obligation", "no_longer_checks": names,
            "mismatches": len(total["mismatch"]), "desc": case["desc"] if case else None,
            "mismatch_step": mm["step"] if mm else None})
        print("VIOLATION property=%s replay=%s no-failing-input-found" % (pid, rp))
        nviol += 1

    # 5. evidence
    nth = len(pc["theorems"]) if pc else 0
    ntied, ntied_ok = cinfo["consts_tied"], cinfo["consts_tied"] - len(cinfo["consts_failed"])
    if ccause and not cinfo["consts_failed"]:
        ntied_ok = 0                      # the agreement file as a whole did not check
    cov = {
        "obligations": max(nth + ntied, 1), "discharged": (nth if (pc and pc["ok"]) else 0) + ntied_ok,
        "consts_tied": ntied, "consts_regenerated": cinfo["consts_regenerated"],
        "consts": {k: cinfo[k] for k in ("consts_go", "consts_c", "consts_defaults", "consts_failed", "agree_file", "wall_s")},
        "checker_cmd": "make -C coq %s && coqc -Q coq Verif coq/%s  (Print Assumptions captured)%s" % (
            " ".join(targets), spec["props"],
            "; tools/gen_consts + harness/consts_defaults -> genrun/Consts.v; coqc -Q coq Verif -Q genrun VerifRun coq/Agree/%s.v" % pid if ntied else ""),
        "trusted_base": TRUSTED_COMMON + spec.get("trusted_extra", []),
        "theorems": pc["theorems"] if pc else [], "examples": pc["examples"] if pc else [],
        "print_assumptions_closed": pc["closed"] if pc else 0, "axioms": pc["axioms"] if pc else [],
        "coqchk": ({"ran": True, "ok": chk["ok"], "axioms": chk["axioms"]} if chk else {"ran": False, "why": "thorough tier only"}),
        "evaluations": evaluations, "distinct_nontrivial": distinct,
        "rule": spec.get("rule", "one case = one generated history run on the real code and on the Model; distinct = distinct Coq case terms"),
        "traces_validated_against_impl": evaluations,
        "tie1_mismatches": len(total["mismatch"]),
        "acceptor_rejections_unexplained": len(total["violations"]),
        "known_findings_reproduced": {k: len(v) for k, v in total["known"].items()},
        "cases_with_markers_only": total["marker_only"],
        "input_distribution": [{"stream": m["stream"], "cases": m["cases"], "tags": m["tags"]} for m in metas],
        "samples": samples or [{"note": "no cases ran"}],
        "broken_obligations": cause, "notes": ctx.notes,
        "modelled_not_verified": spec.get("modelled", []),
    }
    if not ctx.replay:
        write_evidence(ctx, spec, cov, spec.get("assumptions", []), nviol)
    ctx.log("[%s] tier=%s seed=%d theorems=%d/%d cases=%d mismatches=%d unexplained=%d known=%s wall=%.1fs" % (
        pid, ctx.tier, ctx.seed, cov["discharged"], cov["obligations"], evaluations, len(total["mismatch"]),
        len(total["violations"]), cov["known_findings_reproduced"], time.time() - ctx.t0))
    return 1 if nviol else 0
