"""Helpers for checks that execute eBPF programs (see docs/BPF.md).

    import verif, verif_bpf
    def run(ctx):
        bpfdir = verif_bpf.setup(ctx)                      # bin/setup-bpf for ctx.repo, exports VERIF_BPF_DIR
        rc = verif.standard_check(ctx, SPEC)
        asan = None if ctx.replay else verif_bpf.asan_run(ctx, SPEC, "VERIF_C19_ASAN")   # optional sanitizer pass
        return verif_bpf.post(ctx, rc, bpfdir, ["qos_ratelimit"], asan)
"""
import glob, json, os
import verif

COUNTERS = ("kernel_test_runs", "native_runs", "kernel_native_compared", "kernel_native_disagree", "native_faults")


def setup(ctx):
    """Compile $VERIF_REPO/bpf/*.c (BPF objects + native runners); returns the output directory."""
    rc, out = verif.sh([os.path.join(verif.VERIF, "bin", "setup-bpf")], env={"VERIF_REPO": ctx.repo}, timeout=900)
    lines = [l for l in out.strip().splitlines() if l.strip()]
    bpfdir = lines[-1] if lines else ""
    os.environ["VERIF_BPF_DIR"] = bpfdir
    os.environ["VERIF_ROOT"] = verif.VERIF
    return bpfdir


def asan_run(ctx, spec, envname):
    """Second pass of the driver with the ASan/UBSan build of the native runner (no Coq evaluation: the
    point is that no sanitizer report kills the runner and kernel/native still agree). Returns a dict."""
    binp = os.path.join(ctx.work, "bin", spec["driver"])
    if not os.path.exists(binp):
        return {"asan_pass": None}
    outdir = os.path.join(ctx.work, "asan")
    args = [binp, "-seed", str(ctx.seed + 17), "-tier", "quick", "-out", outdir]
    corpus = os.path.join(verif.VERIF, "corpus", ctx.pid)
    if os.path.isdir(corpus):
        args += ["-corpus", corpus]
    rc, out = verif.sh(args, cwd=ctx.work, timeout=900, env={envname: "1"})
    res = {"asan_pass": rc == 0, "asan_native_runs": 0, "asan_kernel_native_disagree": 0}
    if rc != 0:
        res["asan_log"] = out[-1500:]
    for mf in glob.glob(os.path.join(outdir, "*.meta.json")):
        m = json.load(open(mf))
        res["asan_native_runs"] = max(res["asan_native_runs"], m.get("native_runs", 0))
        res["asan_kernel_native_disagree"] = max(res["asan_kernel_native_disagree"], m.get("kernel_native_disagree", 0))
    return res


def post(ctx, rc, bpfdir, objects, asan=None):
    """Fold the drivers' stream metas (keys written through vh.Emit's extra map) into evidence:
    kernel_bpf, verifier_ok, run counters.  A disagreement between the kernel test-run and the native run
    of the same frame on the same map contents is a broken correspondence -> VIOLATION."""
    agg = {"kernel_bpf": None, "verifier_ok": None}
    agg.update({k: 0 for k in COUNTERS})
    first = ""
    for d in ("run", "replay"):
        for mf in glob.glob(os.path.join(ctx.work, d, "*.meta.json")):
            m = json.load(open(mf))
            if "kernel_bpf" not in m:
                continue
            agg["kernel_bpf"] = m["kernel_bpf"]
            agg["verifier_ok"] = m.get("verifier_ok")
            for k in COUNTERS:
                agg[k] = max(agg[k], m.get(k, 0))
            first = first or m.get("kernel_native_disagree_first", "")
    agg["bpf_object_dir"] = bpfdir
    agg["bpf_build_ok"] = all(os.path.exists(os.path.join(bpfdir, o + ".o")) and os.path.exists(os.path.join(bpfdir, o + ".native"))
                              for o in objects)
    if asan:
        agg.update({k: v for k, v in asan.items() if k != "asan_log"})
        if asan.get("asan_pass") is False or asan.get("asan_kernel_native_disagree"):
            rp = verif.write_replay(ctx, "%d-asan" % ctx.seed, {
                "property": ctx.pid, "kind": "broken-obligation",
                "no_longer_checks": ["corr:native runner under ASan/UBSan (sanitizer report or kernel/native disagreement)"],
                "log": asan.get("asan_log", "")})
            print("VIOLATION property=%s replay=%s no-failing-input-found" % (ctx.pid, rp))
            rc = 1
    if agg["kernel_native_disagree"]:
        rp = verif.write_replay(ctx, "%d-kernel-native" % ctx.seed, {
            "property": ctx.pid, "kind": "broken-obligation",
            "no_longer_checks": ["corr:kernel test-run and native run of %s disagree" % ",".join(objects)], "first": first})
        print("VIOLATION property=%s replay=%s no-failing-input-found" % (ctx.pid, rp))
        rc = 1
    ev = verif.evidence_path(ctx)
    if not ctx.replay and os.path.exists(ev):
        e = json.load(open(ev))
        e["coverage"].update(agg)
        if rc and not e["violations"]:
            e["violations"] = 1
        json.dump(e, open(ev, "w"), indent=1)
    return rc
