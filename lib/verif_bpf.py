"""Helpers for checks that execute eBPF programs (see docs/BPF.md).

    import verif, verif_bpf
    def run(ctx):
        bpfdir = verif_bpf.setup(ctx)                      # bin/setup-bpf for ctx.repo, exports VERIF_BPF_DIR
        rc = verif.standard_check(ctx, SPEC)
        return verif_bpf.post(ctx, rc, bpfdir, ["qos_ratelimit"])
"""
import glob, json, os
import verif

COUNTERS = ("kernel_test_runs", "native_runs", "kernel_native_compared", "kernel_native_disagree", "native_faults")


def setup(ctx):
    """Compile $VERIF_REPO/bpf/*.c (BPF objects + native runners); returns the output directory."""
    rc, out = verif.sh([os.path.join(verif.VERIF, "bin", "setup-bpf")], env={"VERIF_REPO": ctx.repo}, timeout=900)
    lines = [l for l in out.strip().splitlines() if l.strip()]
    bpfdir = lines[-1] if lines else ""
    os.environ["VERIF_BPF_DIR"] = bpfdir
    os.environ["VERIF_ROOT"] = verif.VERIF
    return bpfdir


def post(ctx, rc, bpfdir, objects):
    """Fold the drivers' stream metas (keys written through vh.Emit's extra map) into evidence:
    kernel_bpf, verifier_ok, run counters.  A disagreement between the kernel test-run and the native run
    of the same frame on the same map contents is a broken correspondence -> VIOLATION."""
    agg = {"kernel_bpf": None, "verifier_ok": None}
    agg.update({k: 0 for k in COUNTERS})
    first = ""
    for d in ("run", "replay"):
        for mf in glob.glob(os.path.join(ctx.work, d, "*.meta.json")):
            m = json.load(open(mf))
            if "kernel_bpf" not in m:
                continue
            agg["kernel_bpf"] = m["kernel_bpf"]
            agg["verifier_ok"] = m.get("verifier_ok")
            for k in COUNTERS:
                agg[k] = max(agg[k], m.get(k, 0))
            first = first or m.get("kernel_native_disagree_first", "")
    agg["bpf_object_dir"] = bpfdir
    agg["bpf_build_ok"] = all(os.path.exists(os.path.join(bpfdir, o + ".o")) and os.path.exists(os.path.join(bpfdir, o + ".native"))
                              for o in objects)
    if agg["kernel_native_disagree"]:
        rp = verif.write_replay(ctx, "%d-kernel-native" % ctx.seed, {
            "property": ctx.pid, "kind": "broken-obligation",
            "no_longer_checks": ["corr:kernel test-run and native run of %s disagree" % ",".join(objects)], "first": first})
        print("VIOLATION property=%s replay=%s no-failing-input-found" % (ctx.pid, rp))
        rc = 1
    ev = os.path.join(verif.VERIF, "evidence", ctx.pid + ".json")
    if not ctx.replay and os.path.exists(ev):
        e = json.load(open(ev))
        e["coverage"].update(agg)
        if rc and not e["violations"]:
            e["violations"] = 1
        json.dump(e, open(ev, "w"), indent=1)
    return rc
