import os, sys
_d = os.path.dirname(os.path.abspath(__file__))
while not os.path.exists(os.path.join(_d, "lib", "verif.py")):
    _d = os.path.dirname(_d)
sys.path.insert(0, os.path.join(_d, "lib"))
import verif, verif_bpf

SPEC = {
    "props": "Props/C18.v",
    "check_vo": ["Model/TcAntispoofCheck.vo"],
    "driver": "c18",
    "driver_args": ["-shard", "20"],
    "component": "bpf/antispoof.c + antispoof.Manager",
    "clauses": {0: "strict: forwarded iff source equals the address bound to the sender's MAC",
                1: "log-only / disabled: always forwarded",
                2: "loose: forwarded iff the source lies in an allowed range"},
    "rule": "a case = one map configuration (raw values, or a control-plane history executed by the real antispoof.Manager on real kernel maps) with a batch of frames; every frame is run by the natively compiled antispoof.c and, when the kernel accepts it, by the object loaded in the kernel (BPF_PROG_TEST_RUN); distinct = distinct case terms",
    "assumptions": [
        "Start() is not executed (it attaches to an interface); its initial config write is replaced by an explicit SetMode call",
        "statistics map, perf events and concurrent CPUs are outside the Model",
        "frames with a truncated IP header, non-IP ethertypes (ARP, VLAN-tagged IPv4) and illegal mode values are compared Model-vs-code but not judged by the monitor (the property speaks of the frame's IPv4/IPv6 source)",
        "AddBinding is read as 'add or update the IPv4 address' (a previously added IPv6 binding should survive)",
    ],
    "trusted_extra": ["clang 14 (BPF and x86-64 back ends), shim bpf_helpers.h, native runner cbpf/native/runner.c, Linux 6.18 BPF verifier/interpreter under BPF_PROG_TEST_RUN, cilium/ebpf v0.12.3 loader and map marshalling (measured through real kernel maps)"],
    "modelled": ["bpf/antispoof.c antispoof_ingress (all branches, LPM lookup), mac_to_u64 with the C type of every intermediate value (integer promotion, __u64 casts, usual arithmetic conversions), ethertype / saddr / IPv6-loop / LPM-key derivations", "pkg/antispoof/manager.go NewManager, AddBinding, AddBindingV6, RemoveBinding, SetMode, AddAllowedRange, macToUint64"],
}

MANIFEST = {
    "text": "Model of bpf/antispoof.c in checked-access style (every data_end test explicit) and of what pkg/antispoof/manager.go writes into the maps. Theorems for all maps and all frames: strict mode forwards iff the source equals the bound IPv4/IPv6 address; log-only and disabled forward everything; non-IP, short and truncated frames are forwarded; no read outside the frame; loose mode (IPv4) forwards iff the source is in an allowed range (full after fix d9f017c, which repaired 'loose mode drops every bound subscriber'). Key derivation: the C expression of mac_to_u64 is evaluated with C integer semantics (unsigned char promoted to int, per-octet __u64 cast, 64-bit shift, OR) and proved equal to the Go macToUint64 key for all MACs (48-bit domain, by arithmetic on disjoint bit fields), injective, and equal to the 48-bit big-endian form; a binding written through the manager is found for its own MAC and changes nothing for any other MAC; RemoveBinding after any control-plane history leaves no binding for that MAC (one-entry-per-key invariant); AddBindingV6 under a strict manager after any history forwards an IPv6 frame iff its source is the bound address (24-byte-value invariant); the little-endian ethertype / saddr comparisons, the 16-round IPv6 loop with early break and the LPM key struct are proved equal to the byte-wise forms the Model uses. Refuted with witnesses replayed on the real code (known findings): bindings written by the manager are byte-reversed (strict drops the legitimate source, admits the mirror image; exact characterisation 'forwarded iff source = reversed address' for every address, partial theorem for palindromic addresses), AddBinding erases the IPv6 binding (partial: v4 then v6), no IPv6 range check in loose mode, ranges byte-reversed. Every run recompiles antispoof.c, loads it in the kernel (verifier), lets the real Manager write real kernel maps (incl. the kernel LPM trie) and executes every frame natively (guard page, any length) and under BPF_PROG_TEST_RUN; kernel and native verdicts must agree.",
    "note": "Theorems are about the hand-written Model; the tie is exhaustive over the discrete configuration fields (modes, binding kinds, range kinds, mode matrix through the manager), over boundary octets {00,01,7f,80,ff} in every source-MAC position, over every frame length 0..62 (thorough 0..130) per ethertype, over all short control-plane sequences (two alphabets), and sampled over addresses, MACs and longer control-plane histories. Start(), statistics, perf events and concurrency are outside the Model.",
    "technique": "Rocq proof (case analysis over the program's decision tree, map get/put lemmas) + differential correspondence: kernel BPF_PROG_TEST_RUN and native guard-page execution of the compiled C against vm_compute evaluation of the Model, with a trace monitor",
    "design_ref": "DESIGN.md §8 C18, docs/C18.md, docs/BPF.md",
}


def run(ctx):
    bpfdir = verif_bpf.setup(ctx)
    rc = verif.standard_check(ctx, SPEC)
    asan = None if ctx.replay else verif_bpf.asan_run(ctx, SPEC, "VERIF_C18_ASAN")
    return verif_bpf.post(ctx, rc, bpfdir, ["antispoof"], asan)
