_MODELLED = [
    "pkg/allocator/bitmap.go: NewIPAllocator geometry, Allocate, AllocateSpecific, Release, ReleasePrefix, SetAllocation, Lookup, LookupByPrefix, ListAllocations, Stats, findFreeIndex (hint, two segments), getPrefixByIndex/getIndexByPrefix incl. the Uint64() truncations",
    "pkg/allocator/epoch_bitmap.go: Allocate, Renew, Release, Lookup, LookupByIP, AdvanceEpoch (+clean-up), Stats, isGenerationFree (2-bit distance, byte(grace)), indexToIP/ipToIndex (byte arithmetic)",
    "pkg/dhcp/pool.go: generateAvailableIPs, Allocate, Reserve, Release(ip), MarkUnavailable, Stats",
    "pkg/dhcpv6/server.go: NewAddressPool/NewPrefixPool (first 1000 units, bit placement), Allocate, Release",
    "pkg/pppoe/server.go: NewIPPool universe, IPPool.Allocate/Release",
    "pkg/pool/peer.go: generateAvailableIPs, allocateLocal, releaseLocal, Get, Stats on a single-node PeerPool, reached through the Go API and through the peer HTTP API handlers (handleAllocate / handleRelease / handleGet / handleStatus) with plain and circuit-style subscriber IDs",
    "pkg/allocator/distributed.go (via Model/DistAlloc.v of C12): Allocate (rollback on Put failure), Release (Delete first), Renew, Get, Stats, AdvanceEpoch, Start/loadAllocations",
    "pkg/dhcpv6/server.go Server (stream srv6, Model/Srv6Pool.v): handleSolicit (rapid commit / buildAdvertise), handleRequest (server-id), handleRenew / handleRebind (NoBinding), handleRelease, handleDecline, buildReply lease bookkeeping, over both legacy pools or either one",
    "pkg/pool/peer.go cluster (stream peers, C05 only, Model/PeerPools.v): Allocate / Release routed by getHealthyOwner over the rendezvous ranking and the calling node's health map, Get by the static owner, forwarded calls served by the owner's handlers, per-node Stats",
    "pkg/nexus/client.go: AllocateIPForSubscriber, allocateFromPool (FNV-1a mod hosts, byte adds, unmasked base), ReleaseSubscriberIP, LookupSubscriberIP",
]
_ASSUME = [
    "theorems are about the hand-written Models (sequential); the tie to the Go code is the differential run of this check (sampled + small-exhaustive), one stream per implementation",
    "concurrent callers: NOT proved. Validation only: every pool type keeps its state behind one mutex held for the whole exported method (pppoe.IPPool since fix 9686c62); stream 'concurrent' drives real objects from 4-8 goroutines and Coq evaluates the Spec invariant on the final snapshot",
    "universes of dhcp.Pool / LocalPool / PrefixPool (byte additions, uint32 addition, bit placement): NoDup and inside-the-CIDR are checked per generated case inside Coq, and proved for all geometries only for the bitmap, AddressPool and pppoe constructions",
    "nexus client is driven over a harness Store that delivers watch events synchronously and in order (nexus.MemoryStore starts a goroutine per event; a late echo can overwrite a newer cached record - observed once, outside this sequential tie)",
    "DistributedAllocator: stream 'dist' (C05 only) drives the real object in both modes on a harness Store with Put/Delete failure at every call index followed by reload; its Model (Model/DistAlloc.v) and the cited lemmas are the C12 builder's; watch notifications are not delivered in this stream (C12 covers them); lease mode keeps to <= 1 AdvanceEpoch between reloads",
    "same-subscriber races: stream 'race' (barrier-released rounds, 2-16 callers per fresh subscriber, background writer, GOMAXPROCS >= 8) samples schedules of every mutex-protected pool type; every return value and the final table / statistics / obtainable units are judged by the Spec in Coq",
    "stream 'srv6': the real dhcpv6.Server is driven one datagram at a time (C02's verif hooks); unique / in_range / stable are enforced on the values the replies carry and on the pools' allocated maps + free lists after every message",
    "IPv6 geometry of the epoch allocator is not modelled: the code itself is IPv4 only (baseIP = To4())",
]
SPEC = {
    "props": "Props/C01.v",
    "check_vo": ["Model/PoolCheck.vo", "Model/DistPoolCheck.vo", "Model/Srv6PoolCheck.vo", "Model/PeerPoolsCheck.vo"],
    "driver": "c01",
    "driver_args": ["-prop", "C01"],
    "driver_timeout": 2400,
    "component": "address/prefix pools (bitmap, epoch, dhcp4pool, v6addr, v6prefix, pppoe, localpool, hashalloc)",
    "clauses": {0: "unique: a unit is never given to / reported for a second holder",
                1: "in_range: every assigned unit is one of the pool's usable units",
                2: "stable: a holder that asks again (Allocate / Lookup) gets the value it holds",
                9: "malformed trace"},
    "rule": "a case = one pool configuration + one operation history run on the REAL object (exported API) and on the Model inside Coq; projected observables: returned address as integer (relative to the base), error class, Lookup/Stats/ListAllocations answers; distinct = distinct case terms. Stream 'concurrent': final snapshot of a real object driven by goroutines, Spec invariant evaluated in Coq",
    "assumptions": _ASSUME,
    "modelled": _MODELLED,
}
MANIFEST = {
    "text": "Every pool implementation has an executable Model (bitmap with hint scan and 64-bit truncations; epoch allocator with 2-bit generations and a ghost true-age; one parametric free-list Model for dhcp.Pool, DHCPv6 address/prefix pools, pppoe.IPPool, LocalPool; the nexus hash allocator). Theorems by induction over ALL operation histories and all geometries: uniqueness (holder->unit injective), range (index < total, address + unit size inside the CIDR, disjoint units), stability (asking again returns the held value and changes nothing), answers reflect state. Hash allocation: uniqueness and range refuted by computed witnesses (known findings K01a/K01b, replayed on the real nexus client). The Models are evaluated inside Coq on traces recorded from the real Go objects on every run (8 streams + concurrent stress snapshots), with a trace monitor of the property.",
    "note": "Theorems are about the Models; the tie is differential (exhaustive over small alphabets to length 2-5, random to 200 ops, geometry sweep). Concurrency is validated (mutex discipline + stress snapshots), not proved. pppoe.IPPool stability holds only after fix 9686c62.",
    "technique": "Rocq proof (invariants over fold_left histories, bit-set and association-map lemmas, geometry arithmetic) + differential correspondence with vm_compute evaluation of the Models and a Spec acceptor",
    "design_ref": "DESIGN.md §8 C01",
}
