"""C06 - userspace and eBPF programs agree on every map layout and key encoding.

run(ctx):  bin/setup-bpf (objects from the working tree)  ->  tools/gen_layouts (coq/Gen/Layouts.v, side-car,
offsetof tables)  ->  static verdict over the regenerated declarations inside Coq (which pair / member is not
ok)  ->  Props/C06.v (theorems, Print Assumptions)  ->  offsetof tables compiled for the BPF target and x86-64
->  driver (real Loader / managers on real kernel maps, real programs under BPF_PROG_TEST_RUN)  ->  Model and
monitor evaluated on the driver's cases  ->  verdict (same rules and output lines as lib/verif.standard_check).
"""
import glob, json, os, re, shutil, sys
sys.path.insert(0, os.path.join(os.path.dirname(os.path.abspath(__file__)), "..", "lib"))
sys.path.insert(0, os.path.join(os.path.dirname(os.path.abspath(__file__)), "..", "..", "lib"))
import verif

SPEC = {
    "props": "Props/C06.v",
    "check_vo": ["Model/LayoutCheck.vo"],
    "driver": "c06",
    "component": "bpf/*.c maps <-> pkg/{ebpf,nat,qos,antispoof} (layouts + key derivations)",
    "clauses": {0: "write: the bytes the control plane writes for a key/value have the size, member offsets, widths and byte order the C declaration reads",
                1: "read-back: values the control plane reads back are the members the C declaration holds",
                2: "MAC -> 64-bit key identical on both sides",
                3: "IPv4 -> 32-bit key/value identical on both sides",
                4: "circuit-id key (pad / truncate) identical on both sides",
                5: "VLAN pair key identical on both sides",
                6: "ALG port key identical on both sides",
                7: "LPM (prefix) key: an address inside the configured prefix is matched",
                8: "value member holding an address / MAC: the bytes the control plane stores for the value it means are the wire bytes the program compares with the packet",
                9: "16-bit port member of a key: the bytes the control plane looks up are the raw port word the program stored"},
    "rule": "layouts: one case per regenerated (Go type, C type, map) triple (exhaustive over the triples), each with the two "
            "compiler offsetof tables, N value tuples written by the real Go code into a kernel map and read back raw, N raw byte "
            "strings read by the real Go readers; value members: one case per (member family, value): the real manager API called with the value it means, member bytes at the "
            "regenerated C offset + the real program run on a packet carrying the value; keys: one case per (derivation, input): the bytes the real Go code left in the kernel "
            "map + whether the real eBPF program under BPF_PROG_TEST_RUN found them; distinct = distinct Coq case terms",
    "assumptions": [
        "BTF is produced by clang from the same source it compiles; it is cross-checked against clang's own offsetof/sizeof for the BPF target "
        "and for x86-64, so a clang layout bug common to its BTF emitter and its code generator is not caught",
        "members named _pad* are padding the programs never read (checked by name only)",
        "how each member is USED by the programs (packet bytes / native integer / unused) is a hand-written table (Model/LayoutEnc.v usage_table) read off bpf/*.c; "
        "the regenerated member list must be covered by it and packet-bytes members must keep the element shape the entry was established for",
        "member identity across the two languages is the member name up to case and underscores (NextPort = next_port); a rename on one side "
        "only is reported although the bytes still agree",
        "ring-buffer / perf records (nat_log_entry, spoof_event) are not map values: the Go side may be a prefix of the C record (tail padding)",
        "walledgarden has Go structs (WalledGardenEntry, AllowedDestination) and map handles but no eBPF program or map in bpf/: nothing to pair, nothing claimed",
        "HashCircuitID (key of circuit_id_map) has no C counterpart: dhcp_fastpath.c never reads circuit_id_map; only Go vs Model is tied",
        "Start()/Load() of the managers are not executed (they attach to an interface); their map writes (NATConfig, antispoof Config, zeroed DHCPStats) "
        "are driven through the same cilium Put with the same Go types",
        "little-endian hosts only (the shim's bpf_endian.h refuses others); Go marshals native-endian",
    ],
    "modelled": ["cilium/ebpf sysenc marshalling = encoding/binary rules (sequential, no padding, blank fields zero, native endian, exact size; per-CPU values as slices) - measured on every run",
                 "pkg/ebpf MACToUint64, IPToUint32, MakeCircuitIDKey, HashCircuitID, VLANKey; pkg/nat ipToKey, ConfigureALG key; pkg/qos ipToKey; pkg/antispoof macToUint64, AddBinding, AddAllowedRange",
                 "bpf/dhcp_fastpath.c mac_to_u64, extract_circuit_id_fixed (copy loop), vlan_key construction; bpf/antispoof.c mac_to_u64, saddr compare, lpm_key_v4; bpf/nat44.c saddr key, check_alg_trigger; bpf/qos_ratelimit.c daddr key",
                 "kernel LPM trie matching (most significant bit first over the key bytes)",
                 "pkg/antispoof AddBindingV6 (copy into [16]byte) vs antispoof.c s6_addr[i] compare; pkg/ebpf SetServerConfig (copy mac[:6]) vs copy_mac(eth->h_source, config->server_mac); "
                 "pkg/nat LookupSession port members vs nat44.c key.src_port = udp->source",
                 "usage of every map member by the programs (Model/LayoutEnc.v usage_table)"],
}

MANIFEST = {
    "text": "Every (Go type, C type, map) triple is REGENERATED on every run from the working tree: C member names, offsets, widths and declared key/value "
            "sizes from the BTF of the freshly compiled bpf/*.o, Go members from go/types plus the encoding/binary rules cilium applies, the triples themselves "
            "from the Put/Lookup/Delete call sites of the managers. Once-and-for-all theorems: for every pair passing the decidable check and all member values "
            "within their widths, decoding the Go-marshalled bytes at the C offsets returns the values and the size is the declared one; on every byte string the Go "
            "reader and the C member reads agree. The regenerated pairs are then decided by computation (finite), a pair that is not ok is reported with the "
            "offending member. Key derivations are Gallina functions on both sides: MAC keys agree for every hardware address of six or more bytes (first six bytes; refuted below six, where Go returns 0), VLAN pair and ALG key agree for all inputs; circuit-id keys agree for lengths "
            "1..32 at both option-82 positions the program recognises (Model of the extraction with its two branches as coded) and are refuted above; every Go IPv4 helper leaves the address byte-reversed relative to the network-order word the C reads (agreement iff the "
            "address is a byte palindrome), likewise the LPM key. Beyond the layout, every regenerated member is classified by how the C program uses it "
            "(compared with packet bytes / native integer / unused; a member without entry or a retyped packet-bytes member is a broken obligation) and the "
            "meaning-level encodings are theorems: native derivation agrees with the wire bytes for every element width and count, the BigEndian idiom leaves every "
            "group byte-reversed (agreement iff all groups are palindromes) - IPv6 source bindings and the server MAC agree for all values, the ports of the "
            "nat_sessions key agree iff both bytes are equal (refuted in general). The constants and the derivations are tied to reality on every run: real Go values written by the "
            "real Loader/managers (cilium/ebpf) into kernel maps of the C-declared size are read back raw and must equal the Model's bytes; clang's offsetof tables "
            "(BPF target and x86-64) must equal the BTF-derived layouts; the real programs under BPF_PROG_TEST_RUN must find exactly the keys the Model says they find "
            "and honour packets carrying the IPv6 address / MAC the real manager API was given (member bytes read at the regenerated C offset).",
    "note": "Theorems are about the generic layout model and hand-written models of the derivation functions; the tie is the differential run (exhaustive over the "
            "triples, sampled over values). Known findings: IPv4 byte order at eight helper sites / members, ports of the nat_sessions lookup key, LPM key, circuit-ids longer than 32 bytes, hardware addresses shorter than 6 bytes, option 82 holding only a one-byte circuit-id. Fixed: PortBlock widths, "
            "NATSession padding, per-CPU stats reads. walledgarden has no C side; HashCircuitID has no C side.",
    "technique": "translator (BTF + go/types) -> Rocq: generic encode/decode theorems + vm_compute decision per regenerated pair + key-derivation theorems; differential "
                 "correspondence through real kernel maps and BPF_PROG_TEST_RUN",
    "design_ref": "DESIGN.md §8 C06, §4.1; docs/C06.md",
}

ENC_CODE = {1: "map / record without a usage table (new map: no member's encoding was ever examined)",
            2: "member without a usage entry (new or renamed member: how the program uses it - packet bytes, arithmetic, unused - was never examined)",
            3: "member the program compares with packet bytes was retyped on the C side (element width / count changed): its encoding must be re-established",
            4: "member the program compares with packet bytes was retyped on the Go side (element width / count changed): its encoding must be re-established",
            5: "usage entry for a member that no longer exists"}

REASON = {1: "unsupported construct (bit-field, union, int/uint/pointer member)", 2: "translator: Go offsets not sequential",
          3: "member differs in offset / width / element count", 4: "member name differs (members reordered or renamed)",
          5: "number of members differs", 6: "Go marshalled size differs from sizeof(C type)", 7: "sizeof(C type) differs from the size the map declares",
          8: "C member outside its struct", 9: "per-CPU map value read into a single Go value (cilium wants a slice, one element per CPU)"}


def sig_members(fields):
    return [f for f in fields if not f["pad"]]


def run(ctx):
    try:
        return run_inner(ctx)
    finally:
        if ctx.repo != "/repo":   # leave the shared coq/Gen/Layouts.v describing /repo
            gl = os.path.join(ctx.work, "bin", "gen_layouts")
            rc, out = verif.sh([os.path.join(verif.VERIF, "bin", "setup-bpf")], env={"VERIF_REPO": "/repo"}, timeout=900)
            bd = out.strip().splitlines()[-1] if out.strip() else ""
            if os.path.exists(gl) and bd:
                with verif.Lock("coq"):
                    verif.sh([gl, "-repo", "/repo", "-bpfdir", bd, "-verif", verif.VERIF, "-coq", os.path.join(verif.COQ, "Gen", "Layouts.v")], timeout=300)


def run_inner(ctx):
    pid = ctx.pid
    known = verif.load_known(pid)
    cause, notes = [], ctx.notes
    before = verif.repo_status(ctx)
    work = ctx.work
    os.makedirs(work, exist_ok=True)
    import time as _t
    def phase(n):
        ctx.log("[phase] %-28s t=%.1fs" % (n, _t.time() - ctx.t0))

    # 0. objects from the working tree
    rc0, out = verif.sh([os.path.join(verif.VERIF, "bin", "setup-bpf")], env={"VERIF_REPO": ctx.repo}, timeout=900)
    bpfdir = out.strip().splitlines()[-1] if out.strip() else ""
    objs_ok = all(os.path.exists(os.path.join(bpfdir, n + ".o")) for n in ("dhcp_fastpath", "nat44", "qos_ratelimit", "antispoof"))
    if not objs_ok:
        cause.append("corr:%s (a bpf/*.c source no longer compiles for the BPF target: %s)" % (SPEC["component"], bpfdir + "/build.log"))

    phase('setup-bpf')
    # 1. translator: regenerate Gen/Layouts.v (in place, under the Coq lock while it is rebuilt)
    gl_bin = os.path.join(work, "bin", "gen_layouts")
    os.makedirs(os.path.dirname(gl_bin), exist_ok=True)
    tdir = os.path.join(verif.VERIF, "tools", "gen_layouts")
    rc, log = verif.sh(["go", "build", "-o", gl_bin, "."], cwd=tdir, timeout=600)
    if rc != 0:
        ctx.log("[gen_layouts] build failed:\n" + log[-2000:])
        cause.append("corr:gen_layouts does not build")
    side = os.path.join(work, "layouts.json")
    offs = os.path.join(work, "offs")
    shutil.rmtree(offs, ignore_errors=True)
    gen_v = os.path.join(verif.COQ, "Gen", "Layouts.v")
    sc = {"pairs": []}
    if rc == 0:
        with verif.Lock("coq"):
            rc, log = verif.sh([gl_bin, "-repo", ctx.repo, "-bpfdir", bpfdir, "-verif", verif.VERIF, "-coq", gen_v, "-json", side, "-offs", offs], timeout=300)
        if rc != 0:
            ctx.log("[gen_layouts] failed:\n" + log[-2000:])
            cause.append("corr:gen_layouts failed on the working tree (a manager source no longer parses?)")
        else:
            sc = json.load(open(side))
    pairs = sc["pairs"]
    byidx = {i: p for i, p in enumerate(pairs)}

    phase('gen_layouts')
    # 2. static verdict inside Coq: which regenerated pair / member is not ok
    static_viol, static_known = [], {}
    enc_flags, net_members, keys_with_holes = [], [], []
    ok_model, mlog = verif.coq_make(["Gen/Layouts.vo", "Model/LayoutCheck.vo"])
    if not ok_model:
        ctx.log("[coq] model build failed:\n" + mlog[-1500:])
        cause.append("theorem:Model/LayoutCheck or Gen/Layouts does not build")
    elif pairs:
        sv = os.path.join(work, "static_verdict.v")
        open(sv, "w").write("From Coq Require Import NArith List. Import ListNotations.\nFrom Verif Require Import Model.Layout Gen.Layouts Model.LayoutEnc Model.LayoutCheck.\n"
                            "Definition R := Eval vm_compute in [static_verdict all_pairs; enc_verdict all_pairs; net_members all_pairs; "
                            "map (fun p => [b2n (c_dense p)]) all_pairs].\nPrint R.\n")
        rows4, err = verif.eval_cases_file(sv)
        if rows4 is None or len(rows4) != 4:
            cause.append("theorem:static verdict did not evaluate: " + (err or "")[:300])
        else:
            rows, enc_rows, net_rows, dense_rows = rows4
            # (b) meaning-level encoding: every regenerated member must have a usage entry, and a member the programs compare with
            #     packet bytes must still have the element width / count its entry was established for
            for pi, k, code in enc_rows:
                p = byidx[pi]
                cs, gs = sig_members(p["c"] or []), sig_members(p["go"] or [])
                enc_flags.append({"pair": p["name"], "code": code, "what": ENC_CODE.get(code, str(code)),
                                  "c": cs[k] if code in (2, 3, 4) and k < len(cs) else None,
                                  "go": gs[k] if code in (2, 3, 4) and k < len(gs) else None, "sites": p.get("sites")})
            for pi, k, dyn in net_rows:
                p = byidx[pi]
                cs = sig_members(p["c"] or [])
                net_members.append({"pair": p["name"], "member": cs[k]["name"] if k < len(cs) else "?", "meaning_level_observation": bool(dyn)})
            for pi, (d,) in enumerate(dense_rows):
                if not d and byidx[pi]["role"] == "key":
                    keys_with_holes.append(byidx[pi]["name"])
            for i, (reason, k, marked) in enumerate(rows):
                if reason == 0:
                    continue
                p = byidx[i]
                gs, cs = sig_members(p["go"] or []), sig_members(p["c"] or [])
                fld = {"index": k, "go": gs[k] if k < len(gs) else None, "c": cs[k] if k < len(cs) else None} if reason in (3, 4, 5) else None
                v = {"pair": p["name"], "reason": REASON.get(reason, str(reason)), "reason_code": reason, "member": fld,
                     "go_size": p["go_size"], "c_size": p["c_size"], "declared": p["decl"], "go_type": "%s.%s" % (p["go_pkg"], p["go_type"]),
                     "c_type": p["c_type"], "sites": p.get("sites")}
                if marked:
                    static_known[p["name"]] = v
                else:
                    static_viol.append(v)

    for f in enc_flags:
        nm = (f["c"] or {}).get("name", "") if f["c"] else ""
        cause.append("theorem:encoding of %s member '%s' not established: %s" % (f["pair"], nm, f["what"]))
    if keys_with_holes:
        cause.append("theorem:key type with bytes no member covers (implicit padding inside a key compared as raw memory): " + ", ".join(keys_with_holes))
    phase('static verdict')
    # 3. proof obligations
    targets = ["Props/C06.vo"] + SPEC["check_vo"]
    ok, log = verif.coq_make(targets)
    pc = None
    if not ok:
        m = re.search(r'File "\./([^"]+)", line (\d+)', log)
        cause.append("theorem:%s" % (m.group(1) + ":" + m.group(2) if m else "build"))
        ctx.log("[coq] build failed:\n" + log[-1500:])
    else:
        pc = verif.props_check(SPEC["props"])
        if not pc["ok"]:
            cause.append("theorem:%s (assumptions/closure: closed=%d prints=%d axioms=%s forbidden=%s rc=%d)" % (
                SPEC["props"], pc["closed"], pc["prints"], pc["axioms"], pc["forbidden"], pc["rc"]))
        bad = verif.audit_sources([f for f in verif.vo_deps(SPEC["props"]) if not f.startswith("Gen/")])
        if bad:
            cause.append("theorem:forbidden-constructs " + ", ".join(bad))

    cinfo = {"consts_tied": 0, "consts_regenerated": 0, "consts_failed": [], "notes": []}
    ccause = []
    if ok:
        try:
            cok, ccause, cinfo = verif.consts_check(ctx)
            cause.extend(ccause)
            notes.extend("consts: " + n for n in cinfo["notes"])
        except Exception as ex:   # the constants step must never hide the layout verdict
            notes.append("consts: check did not run: %r" % (ex,))
    phase('props')
    # 4. offsetof tables: the compilers' own view of every C struct, BPF target and x86-64
    inc = ["-I" + os.path.join(verif.VERIF, "cbpf", "include"), "-I/usr/include/x86_64-linux-gnu", "-I" + os.path.join(ctx.repo, "bpf")]
    jobs = []
    for cfile in sorted(glob.glob(os.path.join(offs, "c06_offs_*.c"))):
        base = cfile[:-2]
        for tgt, flags in (("bpf", ["-target", "bpf", "-D__x86_64__", "-D__TARGET_ARCH_x86", "-O2"]), ("x86", ["-DVERIF_NATIVE", "-O0"])):
            jobs.append((os.path.basename(cfile), tgt, ["clang", "-w", "-c"] + flags + inc + [cfile, "-o", base + "." + tgt + ".o"]))
    from concurrent.futures import ThreadPoolExecutor
    with ThreadPoolExecutor(max_workers=8) as ex:
        for (cf, tgt, _), (rc, log) in zip(jobs, ex.map(lambda j: verif.sh(j[2], timeout=120), jobs)):
            if rc != 0:
                cause.append("corr:offsetof table %s (%s) does not compile: %s" % (cf, tgt, log[-300:].replace("\n", " ")))

    phase('offsetof tables')
    # 5. driver
    os.environ["VERIF_BPF_DIR"] = bpfdir
    os.environ["VERIF_ROOT"] = verif.VERIF
    os.environ["VERIF_C06_LAYOUTS"] = side
    os.environ["VERIF_C06_OFFS"] = offs
    binp, blog = verif.go_build(ctx, SPEC["driver"])
    if binp is None:
        cause.append("corr:%s (harness does not build against the working tree)" % SPEC["component"])
        ctx.log("[go] build failed:\n" + blog[-3000:])
    total = {"mismatch": [], "violations": [], "known": {}, "marker_only": 0}
    metas, errs, samples = [], [], []
    evaluations = distinct = 0
    drv = {"kernel_bpf": None, "kernel_test_runs": 0, "driver_errors": [], "unexercised_pairs": {}}

    def run_driver(tier, seed, tag, extra=None):
        nonlocal evaluations, distinct
        outdir = os.path.join(work, tag)
        shutil.rmtree(outdir, ignore_errors=True)
        args = [binp, "-seed", str(seed), "-tier", tier, "-out", outdir] + (extra or [])
        corpus = os.path.join(verif.VERIF, "corpus", pid)
        if os.path.isdir(corpus) and not ctx.replay:
            args += ["-corpus", corpus]
        rc, out = verif.sh(args, cwd=work, timeout=1500)
        if rc != 0:
            cause.append("corr:%s (driver exited %d)" % (SPEC["component"], rc))
            ctx.log("[driver] failed:\n" + out[-3000:])
            return
        streams = [os.path.basename(mf)[:-len(".meta.json")] for mf in sorted(glob.glob(os.path.join(outdir, "*.meta.json")))]
        from concurrent.futures import ThreadPoolExecutor
        with ThreadPoolExecutor(max_workers=4) as ex:
            results = list(ex.map(lambda st: verif.eval_stream(outdir, st), streams))
        for stream, (rows, e, meta) in zip(streams, results):
            errs.extend(e)
            metas.append(meta)
            evaluations += meta["cases"]
            distinct += meta["distinct"]
            if "kernel_bpf" in meta:
                drv["kernel_bpf"] = meta["kernel_bpf"]
                drv["kernel_test_runs"] = max(drv["kernel_test_runs"], meta.get("kernel_test_runs", 0))
                drv["driver_errors"] = meta.get("driver_errors") or []
                drv["unexercised_pairs"] = meta.get("unexercised_pairs") or {}
            r = verif.classify_rows(ctx, SPEC, rows, outdir, stream, known)
            total["mismatch"] += r["mismatch"]
            total["violations"] += r["violations"]
            total["marker_only"] += r["marker_only"]
            for k, v in r["known"].items():
                total["known"].setdefault(k, []).extend((outdir, stream, c) for c in v)
            if len(samples) < 3 and meta["cases"]:
                c = verif.load_case(outdir, stream, 1)
                if c:
                    samples.append({"stream": stream, "case": c})

    if binp and ok_model and pairs:
        if ctx.replay:
            run_driver(ctx.tier, ctx.seed, "replay", ["-replay", ctx.replay])
        else:
            run_driver(ctx.tier, ctx.seed, "run")
        if errs:
            cause.append("corr:%s (model evaluation failed: %s)" % (SPEC["component"], errs[0][:300]))
        if drv["driver_errors"]:
            cause.append("corr:%s (driver: %s)" % (SPEC["component"], "; ".join(drv["driver_errors"][:3])[:400]))
        if drv["unexercised_pairs"] and not ctx.replay:
            hard = {k: v for k, v in drv["unexercised_pairs"].items() if "per-CPU array" not in v}
            if hard:
                cause.append("corr:%s (regenerated pairs the driver cannot exercise: %s)" % (SPEC["component"], json.dumps(hard)[:400]))
        if (cause or total["mismatch"]) and not total["violations"] and not static_viol and not ctx.replay:
            ctx.log("[search] obligation/correspondence broken (%s); searching for a failing input" %
                    (cause + ["tie-1 mismatch x%d" % len(total["mismatch"])])[0])
            for extra_seed in range(1, 3 if ctx.tier == "quick" else 6):
                run_driver(ctx.tier, ctx.seed * 1000003 + extra_seed, "search%d" % extra_seed)
                if total["violations"]:
                    break

    phase('driver+eval')
    after = verif.repo_status(ctx)
    if before != after:
        notes.append("repository working tree changed during the run: %r -> %r" % (before, after))

    # 6. verdict
    nviol = 0
    for kid, hits in sorted(total["known"].items()):
        k = [x for x in known if x["id"] == kid][0]
        print("KNOWN-FINDING: property=%s %s %s (reproduced on %d case(s) this run)" % (pid, kid, k["summary"], len(hits)))
    for name, v in sorted(static_known.items()):
        print("KNOWN-FINDING: property=%s layout %s: %s" % (pid, name, v["reason"]))
    reported_pairs = set()
    for n, v in enumerate(static_viol, 1):     # a regenerated pair that is not ok: the offending member is the failing input
        rp = verif.write_replay(ctx, "%d-layout-%d" % (ctx.seed, n), {
            "property": pid, "kind": "property-violation", "clause": 0, "clause_name": SPEC["clauses"][0],
            "offending": v, "broken_obligations": cause,
            "desc": {"kind": "layout", "pair": v["pair"], "field": json.dumps(v["member"]) if v["member"] else v["reason"]}})
        print("VIOLATION property=%s replay=%s" % (pid, rp))
        reported_pairs.add(v["pair"])
        nviol += 1
    seen = set()
    for v in total["violations"]:
        case = verif.load_case(v["outdir"], v["stream"], v["case"])
        d = case["desc"] if case else None
        if d and d.get("kind") == "layout" and d.get("pair") in reported_pairs:
            continue
        key = (v["clause"], tuple(sorted(v["markers"])), d.get("pair") if d else None, d.get("site") if d else None)
        if key in seen:
            continue
        seen.add(key)
        rp = verif.write_replay(ctx, "%d-c%d-%d" % (ctx.seed, v["clause"], len(seen)), {
            "property": pid, "kind": "property-violation", "clause": v["clause"], "clause_name": v["clause_name"],
            "step": v["step"], "markers": v["markers"], "model_rejected_same": v["model_rejected_same"],
            "tie1_agrees": v["tie1_agrees_upto"], "broken_obligations": cause, "desc": d})
        print("VIOLATION property=%s replay=%s" % (pid, rp))
        nviol += 1
    if not nviol and (cause or total["mismatch"]):
        mm = total["mismatch"][0] if total["mismatch"] else None
        case = verif.load_case(mm["outdir"], mm["stream"], mm["case"]) if mm else None
        names = list(cause)
        if mm:
            names.append("corr:%s (Model and implementation differ at step %d of %s)" % (SPEC["component"], mm["step"], (case or {}).get("desc", {}).get("pair") or (case or {}).get("desc", {}).get("kind")))
        rp = verif.write_replay(ctx, "%d-obligation" % ctx.seed, {
            "property": pid, "kind": "broken-obligation", "no_longer_checks": names,
            "mismatches": len(total["mismatch"]), "desc": case["desc"] if case else None,
            "mismatch_step": mm["step"] if mm else None})
        print("VIOLATION property=%s replay=%s no-failing-input-found" % (pid, rp))
        nviol += 1

    # 7. evidence
    nth = len(pc["theorems"]) if pc else 0
    npairs = len(pairs)
    pairs_ok = npairs - len(static_viol) - len(static_known)
    ctied = cinfo.get("consts_tied", 0)
    cdis = 0 if (ccause and not cinfo.get("consts_failed")) else ctied - len(cinfo.get("consts_failed") or [])
    cov = {
        "obligations": max(nth + npairs + ctied, 1), "discharged": (nth if (pc and pc["ok"]) else 0) + pairs_ok + cdis,
        "consts_tied": ctied, "consts_regenerated": cinfo.get("consts_regenerated", 0),
        "member_encodings_not_established": enc_flags,
        "members_compared_with_packet_bytes": net_members,
        "keys_with_implicit_padding": keys_with_holes,
        "checker_cmd": "tools/gen_layouts -> coq/Gen/Layouts.v; make -C coq %s && coqc -Q coq Verif coq/%s (Print Assumptions captured); static_verdict all_pairs by vm_compute" % (" ".join(targets), SPEC["props"]),
        "trusted_base": verif.TRUSTED_COMMON + [
            "tools/gen_layouts (BTF via cilium/ebpf btf, go/types; ~600 lines, output human-diffable in coq/Gen/Layouts.v and cross-checked against real bytes and clang's offsetof tables on every run)",
            "clang 14 (BPF and x86-64 back ends, BTF emitter), Linux BPF verifier / interpreter / JIT under BPF_PROG_TEST_RUN, cilium/ebpf v0.12.3 (loader; its marshalling is measured, not assumed)",
            "cbpf shim headers (bpf_helpers.h, bpf_endian.h)"],
        "theorems": pc["theorems"] if pc else [], "examples": pc["examples"] if pc else [],
        "print_assumptions_closed": pc["closed"] if pc else 0, "axioms": pc["axioms"] if pc else [],
        "regenerated_pairs": npairs, "regenerated_pairs_ok": pairs_ok,
        "regenerated_pairs_not_ok": [v["pair"] for v in static_viol] + list(static_known),
        "c_maps_without_go_access": sc.get("c_maps_without_go_access"), "go_map_fields_without_c_map": sc.get("go_map_fields_without_c_map"),
        "evaluations": evaluations, "distinct_nontrivial": distinct, "rule": SPEC["rule"],
        "traces_validated_against_impl": evaluations,
        "tie1_mismatches": len(total["mismatch"]),
        "acceptor_rejections_unexplained": len(total["violations"]) + len(static_viol),
        "known_findings_reproduced": {k: len(v) for k, v in total["known"].items()},
        "cases_with_markers_only": total["marker_only"],
        "input_distribution": [{"stream": m["stream"], "cases": m["cases"], "tags": m["tags"], "exhaustive": m.get("exhaustive", False)} for m in metas],
        "samples": samples or [{"note": "no cases ran"}],
        "kernel_bpf": drv["kernel_bpf"], "kernel_test_runs": drv["kernel_test_runs"], "bpf_object_dir": bpfdir, "bpf_build_ok": objs_ok,
        "unexercised_pairs": drv["unexercised_pairs"],
        "refuted_clauses": ["C06_ipv4_key_agree_refuted", "C06_lpm_key_agree_refuted", "C06_circuit_key_agree_refuted", "C06_mac_key_agree_refuted", "C06_circuit_extract_short_option_refuted",
                             "C06_ipv6_member_words_be_refuted", "C06_port_net_agree_refuted"],
        "broken_obligations": cause, "notes": notes,
        "modelled_not_verified": SPEC["modelled"],
    }
    if not ctx.replay:
        verif.write_evidence(ctx, SPEC, cov, SPEC["assumptions"], nviol)
    ctx.log("[%s] tier=%s seed=%d theorems=%d pairs=%d/%d cases=%d kernel_runs=%d mismatches=%d unexplained=%d known=%s wall=%.1fs" % (
        pid, ctx.tier, ctx.seed, nth, pairs_ok, npairs, evaluations, drv["kernel_test_runs"], len(total["mismatch"]),
        len(total["violations"]) + len(static_viol), cov["known_findings_reproduced"], __import__("time").time() - ctx.t0))
    return 1 if nviol else 0
