SPEC = {
    "props": "Props/C08.v",
    "check_vo": ["Model/AcctCheck.vo"],
    "driver": "c08",
    "component": "radius.AccountingManager+radius.Client(accounting)",
    "clauses": {1: "no Stop accepted before a Start of that session",
                2: "no Stop accepted for a session never started",
                3: "absent a crash, an acknowledged Stop is not sent again",
                4: "at a Final observation every ended started session has an acknowledged or durably queued Stop (within the retry budget)",
                5: "records carry the session's own id/user/MAC/IP",
                6: "octet counters are reported exactly through the low-word/gigaword split"},
    "driver_timeout": 2400,
    "driver_args": ["-shard", "60"],
    "rule": "a case = one history of <=3 sessions (Start/Stop/interim tick/queue step/retry tick/graceful stop/kill/restart/Final observation) with a per-op set of (session,status) requests the scripted UDP RADIUS server drops and a crash countdown (the k-th verifCrashPoint marker inside the op calls os.Exit(137) in the WORKER SUBPROCESS that hosts the real AccountingManager; restart = fresh worker on the same directory); streams: corpus (witnesses), enum (exhaustive: one session x every Start/Stop drop pattern x every crash point of every op x restart up/down; thorough adds interim on/off and two sessions in all 6 call orders x 16 drop patterns x every crash point), orphans (exhaustive family: 2 and 3 live sessions with acknowledged Starts and written files, process death by kill / inside StopSession / inside the interim scan (thorough: inside the drain, inside a further StartSession), restart with EVERY recovery Stop dropped (or all but one) so that several Stops are queued in one recovery pass, then server up, queue steps and retry scan in both orders, Final), guarded (crash-free random histories: clause 4 holds by theorem), cases (random, up to 3 sessions); distinct = distinct case terms",
    "assumptions": [
        "os.WriteFile / os.Remove are atomic and durable in the Model (no torn writes, no fsync modelling)",
        "real-time tickers (1 s retry, 10 s interim) are replaced by harness-driven single steps; every pending record and every session is always due (RetryBaseDelay = RetryMaxDelay = DefaultInterimInterval = 1 ns)",
        "the server's ack/drop decision is keyed by (session, status type) within one op; Go map iteration order (interim scan, retry scan, pending.json reload) and drain goroutine order are taken from the observed run as oracle inputs of the op",
        "crash inside the concurrent drain is injected only at the first completed exchange (all requests on the wire, one answered)",
        "packet counters (no gigaword extension in RFC 2869) and Acct-Session-Time are not compared",
        "a run in which the client missed a reply the scripted server did send (scheduler starvation, detected by op duration / queue growth) is repeated, the last time with 900 ms timeouts",
        "after a crash has happened in a history the monitor no longer checks clause 3 for the rest of that history",
    ],
    "modelled": ["pkg/radius/accounting.go: StartSession, StopSession, sendAccountingStop, sendInterimUpdates/sendInterimUpdate, queuePendingRecord, processPendingRecord, retryPendingRecords, Stop/drainAllSessions/sendAccountingStopSync, persistActiveSession, removePersistedSession, persistPendingRecords, recoverOrphanedSessions",
                 "pkg/radius/client.go: SendAccounting attribute encoding (status, session id, user, Calling-Station-Id, Framed-IP, octets + gigawords, terminate cause)",
                 "not modelled: pkg/dhcp/server.go and pkg/pppoe/teardown.go call client.SendAccounting directly, once, and only log a failure (they bypass the AccountingManager altogether; see docs/C08.md)"],
}

MANIFEST = {
    "text": "The accounting manager is modelled as a crash-aware persistence protocol (memory: sessions, pending map, channel; disk: sessions/*.json, pending.json; server-side record stream) whose every API call is a sequence of micro-steps with a crash point after each persistence/transmit step. Theorems over ALL histories x all outage patterns x all crash points: no Stop for a never-started session, every record carries the session's own id/user/MAC/IP, every accepted counter pair is one that was supplied and join(split v) = v for every v (split fits two 32-bit attributes for v < 2^64) - full; every ended session has an acknowledged or durably queued Stop - proved for crash-free histories under every outage pattern (retry budget inside the clause), refuted with four witnesses when crashes are allowed; Stop-after-Start and no-resend-after-ack refuted. Each refutation witness is replayed on the real AccountingManager (worker subprocess killed at the marker, restarted on the same directory, scripted UDP RADIUS server) and is a recorded known finding (K08a-K08f).",
    "note": "Theorems are about the hand-written Model; the tie is the differential run (real manager + real client in a subprocess, real process death at verifCrashPoint markers, decoded Accounting-Requests + directory listing + queue snapshots compared after every op). No _partial theorems for clauses 1 and 3 yet. DHCP/PPPoE call sites that bypass the manager are outside the Model.",
    "technique": "Rocq proof (invariants over micro-step monad with crash countdown; counting invariant relating pending map, retry counts and monitor counters) + differential correspondence with crash injection in a worker subprocess and a scripted RADIUS server",
    "design_ref": "DESIGN.md §8 C08, §9 row 26",
}
