import importlib.util, os
_sp = importlib.util.spec_from_file_location("c01spec", os.path.join(os.path.dirname(os.path.abspath(__file__)), "C01.py"))
_m = importlib.util.module_from_spec(_sp); _sp.loader.exec_module(_m)
SPEC = dict(_m.SPEC)
SPEC.update({
    "props": "Props/C05.v",
    "driver_args": ["-prop", "C05"],
    "clauses": {3: "exhausted_only_if_full: exhaustion reported while a usable unit has no live holder",
                4: "returns_to_circulation: release of a live holder refused / released or expired lease still reported (stream srv6: a unit allocated in a pool or recorded in a lease for a client that is not a live holder of it; a unit neither free nor allocated)",
                5: "renew_protects: a live (renewed within grace) lease refused, lost or reported absent",
                6: "stats_exact: allocated / total / utilisation differ from the true counts (stream srv6: #allocated of a pool differs from the number of live holders)",
                9: "malformed trace"},
})
SPEC["assumptions"] = _m._ASSUME + [
    "leaks are observed when the history fills the pool (every small history ends with capacity+1 allocations by fresh holders) or through Stats; pools without a Stats API (v6 pools, pppoe) are observed through exhaustion only",
    "epoch allocator: stats_exact under the guard is tied (guarded stream) but not proved; exhausted_only_if_full and release are proved under the guard",
    "failed persistence: stream 'dist' fails exactly the k-th store operation (k = 1..3) of every Allocate / AllocateWithMAC / Renew / Release; the DistributedAllocator Model is C12's",
    "stream 'peers': 2-3 real PeerPool nodes, calls entering at any node under per-node health marks that change between Allocate and Release, conservation judged over all nodes' local pools after every call; rankings are inputs from the real rendezvousRanked; every peer is reachable (a mark is a view, transport outages are not driven)",
    "live subscribers exist only at the level of a server: stream 'srv6' drives the real dhcpv6.Server (lease table + AddressPool + PrefixPool, legacy pools; the integrated PoolAllocator branch, Confirm and Information-Request are not driven) one datagram at a time and judges both pools against the holders the replies created, after every message; an Advertise counts as a tentative holding for the lifetimes it carries; the other servers (dhcp.Server, pppoe.Server, subscriber.Manager) are judged over their pools by C02 / C16, not here",
]
MANIFEST = {
    "text": "Same Models and streams as C01, acceptor clauses of C05. Bitmap: exhaustion only when every unit is held, release frees, a free unit is served at once, Stats = true counts - proved for all histories and all geometries below 2^64 units (at 2^64 the Uint64() truncation makes an empty pool 'exhausted': refuted, known finding K05b/K05c); SetAllocation double count fixed (46ed00d). Epoch allocator: renew_protects proved in full (any later history with <= grace epoch advances keeps the lease); the 2-bit generation wrap and grace >= 2 refute exhausted_only_if_full / stats_exact (witnesses replayed on the real allocator, known findings K05d/K05e with ghost markers) and both are proved under the decidable guard 'grace = 1 and no usable slot's true age >= 4'. Free lists: conservation invariant (every unit is free, held or declared unavailable) for every history; pppoe.IPPool leak fixed (9686c62). The pools under dhcpv6.Server (Model of the lease table and handlers composed over the free-list Model): for every message history and either pool present or not, conservation of both pools, a Release returns the address AND the prefix the lease records, nothing but the client's own Release/Decline takes a recorded unit away (full); 'every allocated unit belongs to a client whose lifetimes run' and NoAddrsAvail/NoPrefixAvail only when full are refuted (K05f: a unit reserved by an Advertise the lease does not record survives the client's Release; K05g: nothing ever expires) and proved under the decidable guard that the history raises neither marker.",
    "note": "Theorems are about the Models; tie as in C01 plus epoch-advance bursts 0..9, identical-record reloads 1..3 times, Stats after operations, and the real DHCPv6 server driven message by message with its pools judged against the live lease holders after every message. Store-failure rollback is C12's subject.",
    "technique": "Rocq proof (invariants over all histories, ghost unbounded generation for the 2-bit epoch tags, pigeonhole via NoDup_incl_length) + differential correspondence and trace monitor",
    "design_ref": "DESIGN.md §8 C05",
}
