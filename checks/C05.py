import importlib.util, os
_sp = importlib.util.spec_from_file_location("c01spec", os.path.join(os.path.dirname(os.path.abspath(__file__)), "C01.py"))
_m = importlib.util.module_from_spec(_sp); _sp.loader.exec_module(_m)
SPEC = dict(_m.SPEC)
SPEC.update({
    "props": "Props/C05.v",
    "driver_args": ["-prop", "C05"],
    "clauses": {3: "exhausted_only_if_full: exhaustion reported while a usable unit has no live holder",
                4: "returns_to_circulation: release of a live holder refused / released or expired lease still reported",
                5: "renew_protects: a live (renewed within grace) lease refused, lost or reported absent",
                6: "stats_exact: allocated / total / utilisation differ from the true counts",
                9: "malformed trace"},
})
SPEC["assumptions"] = _m._ASSUME + [
    "leaks are observed when the history fills the pool (every small history ends with capacity+1 allocations by fresh holders) or through Stats; pools without a Stats API (v6 pools, pppoe) are observed through exhaustion only",
    "epoch allocator: stats_exact under the guard is tied (guarded stream) but not proved; exhausted_only_if_full and release are proved under the guard",
    "failed persistence (store write failure) belongs to DistributedAllocator: see C12",
]
MANIFEST = {
    "text": "Same Models and streams as C01, acceptor clauses of C05. Bitmap: exhaustion only when every unit is held, release frees, a free unit is served at once, Stats = true counts - proved for all histories and all geometries below 2^64 units (at 2^64 the Uint64() truncation makes an empty pool 'exhausted': refuted, known finding K05b/K05c); SetAllocation double count fixed (46ed00d). Epoch allocator: renew_protects proved in full (any later history with <= grace epoch advances keeps the lease); the 2-bit generation wrap and grace >= 2 refute exhausted_only_if_full / stats_exact (witnesses replayed on the real allocator, known findings K05d/K05e with ghost markers) and both are proved under the decidable guard 'grace = 1 and no usable slot's true age >= 4'. Free lists: conservation invariant (every unit is free, held or declared unavailable) for every history; pppoe.IPPool leak fixed (9686c62).",
    "note": "Theorems are about the Models; tie as in C01 plus epoch-advance bursts 0..9, identical-record reloads 1..3 times, Stats after operations. Store-failure rollback is C12's subject.",
    "technique": "Rocq proof (invariants over all histories, ghost unbounded generation for the 2-bit epoch tags, pigeonhole via NoDup_incl_length) + differential correspondence and trace monitor",
    "design_ref": "DESIGN.md §8 C05",
}
