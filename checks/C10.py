SPEC = {
    "props": "Props/C10.v",
    "check_vo": ["Model/NatCheck.vo"],
    "driver": "c10",
    "driver_timeout": 2400,
    "component": "nat.Manager+nat.Logger",
    "clauses": {0: "no-overlap: a new block is disjoint from every block held on the same public address",
                1: "in-range: start <= PortStart <= PortEnd <= end of the configured range",
                2: "size: PortEnd - PortStart + 1 = ports per subscriber",
                3: "stable: AllocateNAT/GetAllocation return the block the subscriber holds until it is released",
                4: "logged: every assignment / release writes exactly its record, nothing else does, timestamps inside the call; read back, the log yields the table",
                9: "malformed trace"},
    "rule": "a case = one ManagerConfig + log mode + operation list run on a real nat.Manager with a real nat.Logger (in-memory writer), every call's result and decoded log lines recorded; concurrent cases = goroutine scripts on the real Manager, observation = all returns + final table + log; race cases = 200 barrier-released rounds of 2-16 concurrent AllocateNAT calls for one fresh private IP each; flush cases = allocate/release calls issued while a Flush is held mid-batch by a gate in the harness writer, or beside a continuous flusher; distinct = distinct Coq case terms",
    "assumptions": [
        "guard of the in-guard theorems: effective configuration 1 <= pps, 0 <= start <= end <= 65535 (cfg_okb); outside it NewManager accepts the values and the uint16 conversions wrap (K10b, refuted theorems)",
        "theorems are over sequential histories; concurrent callers are validated by sampled goroutine runs on the real Manager (Go scheduler and memory model outside the Model)",
        "logical time (operation index) stands for the record timestamps; the driver checks each real timestamp against the wall-clock window of its call",
        "traditional (non-bulk) records carry only the block start: attribution needs the configured block size (C10_attributable_traditional_partial / _refuted)",
        "cmd/bng/main.go never attaches the nat.Logger to the Manager (outside the anchored files; not reproducible through the harness; reported in docs/C10.md)",
    ],
    "modelled": ["pkg/nat/manager.go: NewManager defaulting, AddPublicIP, lowestFreeBlock, AllocateNAT, DeallocateNAT, GetAllocation, GetAllocationCount, GetPoolStats, getOrCreateSubscriberID",
                 "pkg/nat/logging.go: LogAllocation, LogDeallocation (bulk and traditional records; JSON and CSV renderings decoded by the driver)"],
}

MANIFEST = {
    "text": "Model of nat.Manager (pool entries with used block indexes, allocation table, uint16 truncations as coded, subscriber ids) and of the allocation/release log records. Theorems by induction over every operation list and every configuration with 1<=pps, 0<=start<=end<=65535: blocks on one public address pairwise disjoint, inside the range (65535 edge, non-dividing sizes), of the configured size, unchanged until released; the bulk log read alone (attribute) equals the table's holders at every past time and names exactly one subscriber for a port in a block; traditional records only with the configured block size (partial + refuted); outside the guard each clause is refuted by a vm_compute witness (known finding K10b). Three defects were reproduced on the real code and repaired (block index from subscriber count, check-then-lock race, duplicate public IP). Every run drives the real Manager+Logger sequentially (small histories exhaustively, random long ones) and concurrently (sampled) and evaluates Model and monitor inside Coq.",
    "note": "Theorems are about the hand-written Model; the tie to pkg/nat is the differential run (sampled + small-exhaustive). Concurrent callers: sampled goroutine runs, not proved. Logical time stands for record timestamps.",
    "technique": "Rocq proof (state invariant over fold_left histories, pigeonhole for the lowest free index, exact uint16 arithmetic inside the guard, log replay = table) + differential correspondence with vm_compute evaluation of Model and trace monitor",
    "design_ref": "DESIGN.md §8 C10",
}
