SPEC = {
    "props": "Props/C15.v",
    "check_vo": ["Model/CoaCheck.vo"],
    "driver": "c15",
    "component": "radius.CoAServer(receiveLoop)",
    "clauses": {0: "only-if: handler call / response only for a complete CoA/Disconnect request whose Request Authenticator verifies",
                1: "if: a complete, well-formed, verifying request gets exactly one response and one call of the installed handler",
                2: "response: request identifier, ACK/NAK code of the request kind, correct Length, Response Authenticator verifies against the request",
                3: "no crash: the listener goroutine does not panic",
                4: "observable: driver's independent crypto/md5 verdict equals the monitor's",
                9: "oracle: digest missing from the case's table (harness defect)"},
}
