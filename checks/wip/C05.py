SPEC = {
    "props": "Props/C05.v",
    "check_vo": ["Model/PoolCheck.vo"],
    "driver": "c01",
    "driver_args": ["-prop", "C05"],
    "component": "address/prefix pools",
    "clauses": {3: "exhausted_only_if_full", 4: "returns_to_circulation", 5: "renew_protects", 6: "stats_exact", 9: "malformed trace"},
}
