import json, os, glob, sys
sys.path.insert(0, os.path.join(os.path.dirname(os.path.abspath(__file__)), "..", "..", "lib"))
import verif

SPEC = {
    "props": "Props/C19.v",
    "check_vo": ["Model/TcQosCheck.vo"],
    "driver": "c19",
    "driver_args": ["-shard", "60"],
    "component": "bpf/qos_ratelimit.c + qos.Manager",
    "clauses": {0: "upper bound: bytes admitted in any window <= burst + rate*window",
                1: "no starvation: credit discarded while the subscriber is refused stays within burst + one max packet",
                2: "rate 0 means unlimited",
                3: "the policy set through the control plane is the one enforced"},
}


def run(ctx):
    rc0, out = verif.sh([os.path.join(verif.VERIF, "bin", "setup-bpf")], env={"VERIF_REPO": ctx.repo}, timeout=600)
    bpfdir = out.strip().splitlines()[-1] if out.strip() else ""
    os.environ["VERIF_BPF_DIR"] = bpfdir
    os.environ["VERIF_ROOT"] = verif.VERIF
    rc = verif.standard_check(ctx, SPEC)
    return verif_bpf_post(ctx, rc, bpfdir, "qos_ratelimit")


def verif_bpf_post(ctx, rc, bpfdir, obj):
    """kernel/native cross-check counters from the driver's stream metas -> evidence; a disagreement between
    the kernel run and the native run of the same frame on the same map contents is a broken correspondence."""
    agg = {"kernel_bpf": None, "verifier_ok": None, "kernel_test_runs": 0, "native_runs": 0,
           "kernel_native_compared": 0, "kernel_native_disagree": 0, "native_faults": 0}
    first = ""
    for d in ("run", "replay"):
        for mf in glob.glob(os.path.join(ctx.work, d, "*.meta.json")):
            m = json.load(open(mf))
            if "kernel_bpf" not in m:
                continue
            agg["kernel_bpf"] = m["kernel_bpf"]; agg["verifier_ok"] = m.get("verifier_ok")
            for k in ("kernel_test_runs", "native_runs", "kernel_native_compared", "kernel_native_disagree", "native_faults"):
                agg[k] = max(agg[k], m.get(k, 0))
            first = first or m.get("kernel_native_disagree_first", "")
    agg["bpf_object_dir"] = bpfdir
    agg["bpf_build_ok"] = os.path.exists(os.path.join(bpfdir, obj + ".o")) and os.path.exists(os.path.join(bpfdir, obj + ".native"))
    if agg["kernel_native_disagree"]:
        rp = verif.write_replay(ctx, "%d-kernel-native" % ctx.seed, {"property": ctx.pid, "kind": "broken-obligation",
             "no_longer_checks": ["corr:kernel test-run and native run of %s disagree" % obj], "first": first})
        print("VIOLATION property=%s replay=%s no-failing-input-found" % (ctx.pid, rp))
        rc = 1
    ev = os.path.join(verif.VERIF, "evidence", ctx.pid + ".json")
    if not ctx.replay and os.path.exists(ev):
        e = json.load(open(ev))
        e["coverage"].update(agg)
        if rc and not e["violations"]:
            e["violations"] = 1
        json.dump(e, open(ev, "w"), indent=1)
    return rc
