import verif, verif_bpf

SPEC = {
    "props": "Props/C19.v",
    "check_vo": ["Model/TcQosCheck.vo"],
    "driver": "c19",
    "driver_args": ["-shard", "20"],
    "component": "bpf/qos_ratelimit.c + qos.Manager",
    "clauses": {0: "upper bound: bytes admitted in any window <= burst + rate*window",
                1: "no starvation: credit discarded while the subscriber is refused stays within burst + one max packet",
                2: "rate 0 means unlimited",
                3: "the policy set through the control plane is the one enforced"},
}


def run(ctx):
    bpfdir = verif_bpf.setup(ctx)
    rc = verif.standard_check(ctx, SPEC)
    asan = None if ctx.replay else verif_bpf.asan_run(ctx, SPEC, "VERIF_C19_ASAN")
    return verif_bpf.post(ctx, rc, bpfdir, ["qos_ratelimit"], asan)
