SPEC = {
    "props": "Props/C10.v",
    "check_vo": ["Model/NatCheck.vo"],
    "driver": "c10",
    "component": "nat.Manager+nat.Logger",
    "clauses": {0: "no-overlap: a new block is disjoint from every block held on the same public address",
                1: "in-range: start <= PortStart <= PortEnd <= end of the configured range",
                2: "size: PortEnd - PortStart + 1 = ports per subscriber",
                3: "stable: AllocateNAT/GetAllocation return the block the subscriber holds until it is released",
                4: "logged: every assignment / release writes exactly its record, nothing else does; the log read alone yields the table",
                9: "malformed trace"},
}
