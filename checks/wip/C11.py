SPEC = {
    "props": "Props/C11.v",
    "check_vo": ["Model/FsmCheck.vo"],
    "driver": "c11",
    "component": "pppoe.LCPStateMachine/IPCPStateMachine/IPV6CPStateMachine",
    "clauses": {0: "opened-only-on-mutual-ack", 1: "leaves-opened on renegotiation/terminate/down",
                2: "reply echoes the request's identifier", 3: "ack repeats options; nak/reject list only offending options",
                4: "IPCP acknowledges only the assigned address", 5: "silent peer: at most the configured number of requests",
                6: "always terminates: a retransmitting state has a running restart timer"},
}
