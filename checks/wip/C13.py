SPEC = {
    "props": "Props/C13.v",
    "check_vo": ["Model/HaSyncCheck.vo"],
    "driver": "c13",
    "component": "ha.HASyncer (message layer)",
    "clauses": {0: "after_full_sync_equal", 1: "stream_applies_in_order", 2: "quiescent_convergence",
                3: "no_change_lost_while_connected", 9: "malformed observation"},
}
MANIFEST = {"text": "wip", "note": "wip", "technique": "wip"}
