SPEC = {
    "props": "Props/C02.v",
    "check_vo": ["Model/DhcpCheck.vo"],
    "driver": "c02",
    "component": "dhcp.Server+dhcp.Pool / dhcpv6.Server+pools",
    "clauses": {},
}
