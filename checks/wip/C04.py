SPEC = {
    "props": "Props/C04.v",
    "check_vo": ["Model/PPPoESrvCheck.vo"],
    "driver": "c04",
    "component": "pppoe.Server(frame handlers)",
    "clauses": {0: "established-after-auth: a session is shown Established only after a PAP accept for that same session (by RADIUS when configured)",
                1: "clientip-after-auth: a session holds a client address only after a PAP accept for that same session",
                2: "ipcp-ack-after-auth: an IPCP Configure-Ack is sent only on a session with an earlier PAP accept",
                3: "mac-ownership: a frame whose source MAC is not the session's owner leaves that session's record unchanged"},
}
MANIFEST = {"text": "wip", "note": "wip", "technique": "wip"}
