SPEC = {
    "props": "Props/C14.v",
    "check_vo": ["Model/FailoverCheck.vo"],
    "driver": "c14",
    "component": "ha.FailoverController",
    "clauses": {0: "role_changes_only_after_callback_ok",
                1: "failback_only_if_partner_healthy (at execution start)",
                2: "promotion_requires_sustained_down",
                3: "one_completed_event_per_promotion",
                4: "never_stuck (in_progress/pending states always have a transition pending)",
                5: "failback_completes_healthy",
                9: "malformed observation"},
}
MANIFEST = {"text": "wip", "note": "wip", "technique": "wip"}
