import json, os, glob, sys
sys.path.insert(0, os.path.join(os.path.dirname(os.path.abspath(__file__)), "..", "..", "lib"))
import verif

SPEC = {
    "props": "Props/C03.v",
    "check_vo": ["Model/XdpDhcpCheck.vo"],
    "driver": "c03",
    "component": "bpf/dhcp_fastpath.c + ebpf.Loader + dhcp.Server cache maintenance",
    "driver_args": ["-shard", "25"],
    "clauses": {0: "a transmitted reply is a well-formed Ethernet/IPv4/UDP/BOOTP frame (checksum, lengths, END option)",
                1: "the reply echoes xid/htype/hlen/chaddr and is OFFER for DISCOVER, ACK for REQUEST",
                2: "userspace answers the same request with the same kind of message",
                3: "the reply carries the userspace reply's client address, server id, mask, router, DNS, lease time",
                4: "no reply => XDP_PASS and the frame is byte-identical",
                5: "no reply for a released / declined / expired lease"},
}


def run(ctx):
    rc0, out = verif.sh([os.path.join(verif.VERIF, "bin", "setup-bpf")], env={"VERIF_REPO": ctx.repo}, timeout=600)
    bpfdir = out.strip().splitlines()[-1] if out.strip() else ""
    os.environ["VERIF_BPF_DIR"] = bpfdir
    os.environ["VERIF_ROOT"] = verif.VERIF
    rc = verif.standard_check(ctx, SPEC)
    return bpf_post(ctx, rc, bpfdir, "dhcp_fastpath")


def bpf_post(ctx, rc, bpfdir, obj):
    agg = {"kernel_bpf": None, "verifier_ok": None, "kernel_test_runs": 0, "native_runs": 0,
           "kernel_native_compared": 0, "kernel_native_disagree": 0, "native_faults": 0,
           "slow_path_replies": 0, "slow_path_silent": 0}
    first = ""
    for d in ("run", "replay"):
        for mf in glob.glob(os.path.join(ctx.work, d, "*.meta.json")):
            m = json.load(open(mf))
            if "kernel_bpf" not in m:
                continue
            agg["kernel_bpf"] = m["kernel_bpf"]; agg["verifier_ok"] = m.get("verifier_ok")
            for k in ("kernel_test_runs", "native_runs", "kernel_native_compared", "kernel_native_disagree",
                      "native_faults", "slow_path_replies", "slow_path_silent"):
                agg[k] = max(agg[k], m.get(k, 0))
            first = first or m.get("kernel_native_disagree_first", "")
    agg["bpf_object_dir"] = bpfdir
    agg["bpf_build_ok"] = os.path.exists(os.path.join(bpfdir, obj + ".o")) and os.path.exists(os.path.join(bpfdir, obj + ".native"))
    if agg["kernel_native_disagree"]:
        rp = verif.write_replay(ctx, "%d-kernel-native" % ctx.seed, {"property": ctx.pid, "kind": "broken-obligation",
             "no_longer_checks": ["corr:kernel test-run and native run of %s disagree" % obj], "first": first})
        print("VIOLATION property=%s replay=%s no-failing-input-found" % (ctx.pid, rp))
        rc = 1
    ev = os.path.join(verif.VERIF, "evidence", ctx.pid + ".json")
    if not ctx.replay and os.path.exists(ev):
        e = json.load(open(ev))
        e["coverage"].update(agg)
        if rc and not e["violations"]:
            e["violations"] = 1
        json.dump(e, open(ev, "w"), indent=1)
    return rc
