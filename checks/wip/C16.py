import json, os, glob, sys
sys.path.insert(0, os.path.join(os.path.dirname(os.path.abspath(__file__)), "..", "..", "lib"))
import verif

SPEC = {
    "props": "Props/C16.v",
    "check_vo": ["Model/TeardownCheck.vo"],
    "driver": "c16",
    "component": "session teardown (dhcp.Server, pppoe.Server/SessionTeardown, subscriber.Manager)",
    "clauses": {0: "the session's address is back in the pool",
                1: "its NAT block is removed",
                2: "its QoS policy is removed",
                3: "no fast-path cache entry by MAC / VLAN pair / circuit-id is left",
                4: "exactly one Accounting-Stop was issued if a Start was",
                5: "ending a session that already ended has no further effect"},
}


def _expand_known():
    """A finding that leaves several resources behind is rejected at whichever of its clauses comes first:
    an entry may list "clauses"; it is expanded to one entry per clause (same id, same marker)."""
    orig = verif.load_known
    def load(pid):
        out = []
        for k in orig(pid):
            for c in k.get("clauses", [k.get("clause")]):
                out.append(dict(k, clause=c))
        return out
    verif.load_known = load


def run(ctx):
    _expand_known()
    rc0, out = verif.sh([os.path.join(verif.VERIF, "bin", "setup-bpf")], env={"VERIF_REPO": ctx.repo}, timeout=600)
    bpfdir = out.strip().splitlines()[-1] if out.strip() else ""
    os.environ["VERIF_BPF_DIR"] = bpfdir
    os.environ["VERIF_ROOT"] = verif.VERIF
    return verif.standard_check(ctx, SPEC)
