import verif, verif_bpf

SPEC = {
    "props": "Props/C18.v",
    "check_vo": ["Model/TcAntispoofCheck.vo"],
    "driver": "c18",
    "driver_args": ["-shard", "20"],
    "component": "bpf/antispoof.c + antispoof.Manager",
    "clauses": {0: "strict: forwarded iff source equals the address bound to the sender's MAC",
                1: "log-only / disabled: always forwarded",
                2: "loose: forwarded iff the source lies in an allowed range"},
}


def run(ctx):
    bpfdir = verif_bpf.setup(ctx)
    rc = verif.standard_check(ctx, SPEC)
    asan = None if ctx.replay else verif_bpf.asan_run(ctx, SPEC, "VERIF_C18_ASAN")
    return verif_bpf.post(ctx, rc, bpfdir, ["antispoof"], asan)
