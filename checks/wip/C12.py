SPEC = {
    "props": "Props/C12.v",
    "check_vo": ["Model/DistAllocCheck.vo"],
    "driver": "c12",
    "component": "allocator.DistributedAllocator + allocator JSON persistence",
    "clauses": {0: "unique", 1: "restart_preserves", 2: "write_failure_agreement", 3: "remote_applies_announced",
                4: "marshal_roundtrip(IPAllocator)", 5: "marshal_roundtrip(EpochBitmapAllocator)",
                6: "marshal_roundtrip(MemoryAllocationStore)", 9: "malformed trace"},
}
