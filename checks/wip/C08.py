SPEC = {
    "props": "Props/C08.v",
    "check_vo": ["Model/AcctCheck.vo"],
    "driver": "c08",
    "component": "radius.AccountingManager+radius.Client(accounting)",
    "clauses": {1: "no Stop accepted before a Start of that session",
                2: "no Stop accepted for a session never started",
                3: "absent a crash, an acknowledged Stop is not sent again",
                4: "at a Final observation every ended started session has an acknowledged or durably queued Stop",
                5: "records carry the session's own id/user/MAC/IP",
                6: "octet counters are reported exactly through the low-word/gigaword split"},
    "driver_timeout": 2400,
    "driver_args": ["-shard", "60"],
}
