SPEC = {
    "props": "Props/C01.v",
    "check_vo": ["Model/PoolCheck.vo"],
    "driver": "c01",
    "driver_args": ["-prop", "C01"],
    "component": "address/prefix pools",
    "clauses": {0: "unique", 1: "in_range", 2: "stable", 9: "malformed trace"},
}
