"""C17: the standard pipeline (lib/verif.py standard_check) plus two observations of the locking of
PeerPool (extra_checks below): the lock-discipline table read off the source by tools/lockscan, and, in
the thorough tier, stream `race` run once more under Go's race detector.  Both are validation, not proof."""
import json, os, sys
sys.path.insert(0, os.path.join(os.path.dirname(os.path.dirname(os.path.abspath(__file__))), "lib"))
import verif

# What tools/lockscan must read off pkg/pool/peer.go: per method of PeerPool the mutex calls and the
# accesses to the fields they guard, in source order (p.mu: peers, peerNodes; p.healthMu: peerHealthMap and
# the peerHealth records).  Every method that touches the peer list or the health map takes the mutex
# before its first access and keeps it for the whole check-then-act sequence (defer); the two snapshot
# readers copy under the read lock.  `Stats` reads len(p.peerNodes) without p.mu (a statistic, outside
# the property; listed so that it is not forgotten).  A change of this table is reported as a broken
# obligation: somebody has to look at the new locking and re-state it here.
EXPECTED_LOCKS = {
    "methods": {
        "AddPeer": "mu.Lock defer:mu.Unlock r:peerNodes w:peerNodes r:peerNodes",
        "RemovePeer": "mu.Lock defer:mu.Unlock r:peerNodes w:peerNodes r:peerNodes",
        "GetOwner": "mu.RLock defer:mu.RUnlock r:peerNodes",
        "getPeerAddr": "mu.RLock defer:mu.RUnlock r:peers",
        "getHealthyOwner": "mu.RLock r:peerNodes mu.RUnlock healthMu.RLock defer:healthMu.RUnlock r:peerHealthMap r:healthy",
        "healthCheckLoop": "mu.RLock r:peerNodes mu.RUnlock",
        "IsPeerHealthy": "healthMu.RLock defer:healthMu.RUnlock r:peerHealthMap r:healthy",
        "checkPeer": "healthMu.Lock defer:healthMu.Unlock r:peerHealthMap w:peerHealthMap r:healthy r:consecutiveFailures "
                     "w:consecutiveFailures w:healthy w:consecutiveFailures r:healthy r:consecutiveFailures w:healthy r:consecutiveFailures",
        "Stats": "r:peerNodes",
    },
    "unguarded": ["Stats r:peerNodes"],
    "reacquired": [],
}


def lock_discipline(ctx):
    """Compare the lock table of the working tree with EXPECTED_LOCKS; the table goes into the evidence notes."""
    bindir = os.path.join(ctx.work, "bin")
    os.makedirs(bindir, exist_ok=True)
    tool = os.path.join(bindir, "lockscan")
    src = os.path.join(verif.VERIF, "tools", "lockscan")
    rc, log = verif.sh(["go", "build", "-o", tool, "."], cwd=src, timeout=600)
    if rc != 0:
        ctx.log("[locks] tools/lockscan does not build:\n" + log[-1500:])
        return ["corr:lock-discipline (tools/lockscan does not build)"], []
    rc, out = verif.sh([tool, "-file", os.path.join(ctx.repo, "pkg/pool/peer.go"), "-type", "PeerPool", "-mutexes", "mu,healthMu",
                        "-guard", "mu=peers,peerNodes", "-guard", "healthMu=peerHealthMap,healthy,consecutiveFailures"])
    try:
        got = json.loads(out) if rc == 0 else None
    except ValueError:
        got = None
    if got is None:
        ctx.log("[locks] lockscan failed:\n" + out[-1500:])
        return ["corr:lock-discipline (lockscan failed on pkg/pool/peer.go)"], []
    json.dump(got, open(os.path.join(ctx.work, "locks.json"), "w"), indent=1)
    diff = []
    for m in sorted(set(got["methods"]) | set(EXPECTED_LOCKS["methods"])):
        g, e = got["methods"].get(m), EXPECTED_LOCKS["methods"].get(m)
        if g != e:
            diff.append("%s: expected [%s], found [%s]" % (m, e, g))
    for k in ("unguarded", "reacquired"):
        if sorted(got[k]) != sorted(EXPECTED_LOCKS[k]):
            diff.append("%s: expected %s, found %s" % (k, EXPECTED_LOCKS[k], got[k]))
    notes = ["lock discipline of PeerPool (tools/lockscan, linear source-order scan; validation, not proof): %d methods as expected; "
             "unguarded accesses: %s; mutex taken twice in one method: %s" % (len(got["methods"]) - len(diff), got["unguarded"], got["reacquired"])]
    if diff:
        for d in diff:
            ctx.log("[locks] " + d)
        return ["corr:lock-discipline pool.PeerPool (" + "; ".join(diff)[:600] + ")"], notes
    return [], notes


def race_detector(ctx):
    """Thorough tier: stream `race` once more with a driver built by `go build -race`."""
    if ctx.tier != "thorough" or ctx.replay:
        return [], []
    moddir = os.path.join(ctx.work, "gomod")
    os.makedirs(moddir, exist_ok=True)
    open(os.path.join(moddir, "go.mod"), "w").write(open(os.path.join(verif.HARNESS, "go.mod")).read().replace("=> /repo", "=> " + ctx.repo))
    verif.shutil.copy(os.path.join(ctx.repo, "go.sum"), os.path.join(moddir, "go.sum"))
    binp = os.path.join(ctx.work, "bin", "c17-race")
    os.makedirs(os.path.dirname(binp), exist_ok=True)
    rc, log = verif.sh(["go", "build", "-race", "-modfile=" + os.path.join(moddir, "go.mod"), "-tags", "verif", "-o", binp, "./c17"],
                       cwd=verif.HARNESS, timeout=2400)
    if rc != 0:
        return [], ["race detector: the -race build of the driver failed (%s); stream not run under the detector" % log[-200:].strip()]
    outdir = os.path.join(ctx.work, "racedet")
    verif.shutil.rmtree(outdir, ignore_errors=True)
    rc, out = verif.sh([binp, "-seed", str(ctx.seed + 1), "-tier", "quick", "-out", outdir, "-only", "race"], cwd=ctx.work,
                       timeout=2400, env={"GORACE": "halt_on_error=0"})
    n = out.count("WARNING: DATA RACE")
    sites = sorted(set(l.strip().split(" ")[0] for l in out.splitlines() if "/pkg/pool/" in l))
    if n or rc != 0:
        ctx.log("[race] %d report(s) (exit %d):\n%s" % (n, rc, out[:3000]))
        return ["corr:race-detector pool.PeerPool (%d data race report(s) on stream race: %s)" % (n, ", ".join(sites)[:400])], []
    return [], ["race detector: stream race (6 cases x 100 rounds x 8 callers) under `go build -race`: 0 reports"]


SPEC = {
    "props": "Props/C17.v",
    "check_vo": ["Model/RendezvousCheck.vo", "Model/RendezvousRace.vo"],
    "extra_checks": [lock_discipline, race_detector],
    "driver": "c17",
    "component": "pool.PeerPool(rendezvous)",
    "clauses": {0: "agreement: same (peer set, key) => same owner at every node",
                1: "membership: owner is one of the peers",
                2: "ranked: permutation of the peer set starting with the owner",
                3: "removal-minimal: removing p changes ownership only for p's subscribers",
                4: "health: one shared health vector => every node computes the same healthy owner; marking p unhealthy moves only p's subscribers",
                5: "one pool: a subscriber is held by at most one node's LocalPool unless a peer set / health view changed (or views differed) since it was first served; Get never finds a subscriber nobody was asked to allocate",
                6: "release: after a successful Release (same proviso) no pool holds the subscriber",
                7: "persistence: between a successful Allocate and the next Release request for that id some pool holds it (a request for another id never frees it)",
                8: "identity: the response to an Allocate names the subscriber id that was asked for"},
    "rule": "a case = 1..24 real PeerPool nodes and an op sequence executed on them and on the Model (AddPeer/RemovePeer/health marks/real checkPeer with a scripted transport/GetOwner/IsLocalOwner/ranked/healthy owner/Allocate/Release/Get through the in-process peer HTTP handlers/LocalPool contents of every node); streams: corpus, cases (random histories, arbitrary byte-string names), perm (EXHAUSTIVE: every permutation of the configured order and every AddPeer order of each listed peer set of size <=5), health (EXHAUSTIVE: every health vector of each listed peer set of size <=5, Gray-code walks), hcheck (EXHAUSTIVE: every ok/fail check sequence up to length 6/8), pool (end to end with URL-hostile subscriber ids), race (CONCURRENT: barrier-released rounds of 8 callers on one PeerPool - AddPeer/RemovePeer/health marks/owner, ranked and healthy-owner queries - every answer and the peer list / health view after each round judged inside Coq for linearizability against the Model; sampled schedules); distinct = distinct case terms",
    "assumptions": [
        "sort.Slice in rendezvousRanked is a stable insertion sort below 12 elements (Go's pdqsort) and the Model is the same stable sort; above 12 peers they can differ on a 64-bit score tie between two peer names (not exhibited)",
        "guards of C17_monitor_accepts_model_partial and of the _partial theorems: positive, pairwise distinct 64-bit scores for the keys asked (clauses 1-3 only); no X / X:8081 name pair (K17b); no node marks or health-checks itself (K17a); no node removes itself. What the code returns when a score row is all zero is stated exactly (C17_owner_all_scores_zero, C17_owner_member_iff); whether such a row exists for FNV-1a/Wang is not decided",
        "peer names used as URL hosts: the Model is exact for letters, digits, '.', '-' and an optional numeric port; other names are only used where no request is sent. Allocate carries the id in a JSON body: encoding/json's replacement of invalid UTF-8 by U+FFFD is modelled (utf8_coerce, tied by the pool stream; K17d); NewPeerPool is assumed to be given a Peers slice with cap = len (slice aliasing of p.peers and p.peerNodes is modelled under that assumption)",
        "concurrent callers: the Model is sequential; stream race samples schedules of concurrent membership / health / query calls on one node and requires every round to be explained by some sequential order (validation, not proof); the lock table of PeerPool read off the source by tools/lockscan is compared with the expected table in checks/C17.py (a linear go/ast scan: an observation, not a proof of race freedom); the thorough tier runs stream race under Go's race detector. Concurrent checkPeer / Allocate / Release calls are not sampled",
        "real TCP, client timeouts, the health-check ticker and LocalPool capacity/address choice are outside this Model (LocalPool is covered under C01/C05); checkPeer itself runs for real against a scripted http.RoundTripper",
    ],
    "modelled": ["pkg/pool/peer.go: NewPeerPool peer-list normalisation, AddPeer, RemovePeer, GetOwner, IsLocalOwner, rendezvousHash, rendezvousRanked, hashString, hashCombine, getHealthyOwner, getPeerAddr, Allocate/forwardAllocation/handleAllocate, Release/forwardRelease/handleRelease (incl. the mux's path cleaning for '.'/'..'), Get, checkPeer bookkeeping (threshold 3), LocalPool membership (who holds which subscriber)"],
}

MANIFEST = {
    "text": "Ownership is a pure function of (peer multiset, subscriber id): the Model of pkg/pool/peer.go (FNV-1a + Wang mixer with explicit 2^64 wrap, sort.Strings, strict first-max fold from (\"\",0), stable ranked sort, health fallback, checkPeer's 3-failure bookkeeping, address lookup, Allocate/Release/Get through the peer handlers with a per-node holder set) carries theorems for every peer list, every order and every id: order-invariance of the node list and owner, AddPeer order-invariance, ranked list is a permutation starting with the owner, removal/unhealthy minimality, agreement of all healthy nodes; the zero-score edge is characterised exactly over an abstract score function; a peer is unhealthy exactly after >=3 consecutive failed checks and healthy after one success; every node's peer list stays a sorted duplicate-free set over every history (so the ranked list names no peer twice), IsLocalOwner = (GetOwner = own id) in every state; and a refinement theorem: the 9-clause trace monitor (agreement, membership, ranked, removal-minimality, health, one pool per subscriber, release, persistence, response names the requested id) never rejects a run of the Model inside a decidable guard. Full agreement under health is refuted by a vm_compute witness replayed on the real code (K17a); K17b (address conflation) is recorded; K17c (raw subscriber id in the release URL) was found by the end-to-end stream and fixed; K17d (non-UTF-8 ids are rewritten by the JSON body of a forwarded Allocate) is recorded; K17e (getHealthyOwner ranked the shared backing array of the peer list after dropping the lock, so a request routed during a concurrent AddPeer/RemovePeer could miss an untouched peer) was found by the concurrent stream and fixed. Concurrent AddPeer / RemovePeer / health / query calls on one node are sampled in barrier-released rounds and judged inside Coq for linearizability against the Model (the judge provably accepts every sequential round). The Model and monitor are evaluated inside Coq on traces recorded from real PeerPool objects on every run, including exhaustive permutation / health-vector / check-sequence streams.",
    "note": "Theorems are about the hand-written Model; the tie to pkg/pool/peer.go is the differential run (sampled + the exhaustive small-scope streams). Guards: non-zero and pairwise-distinct 64-bit scores (clauses 1-3), no X/X:8081 pair, no node marking/removing itself. Real TCP, timeouts, ticker timing, sort.Slice instability on score ties above 12 peers are outside the Model. Concurrency is validated (sampled schedules, lock table, race detector in the thorough tier), not proved.",
    "technique": "Rocq proof (induction over lists / sorted-permutation uniqueness / arg-max fold lemmas / simulation invariant between Model state and monitor state) + differential correspondence with vm_compute evaluation of the Model and a trace monitor",
    "design_ref": "DESIGN.md §8 C17, docs/C17.md",
}
