SPEC = {
    "props": "Props/C17.v",
    "check_vo": ["Model/RendezvousCheck.vo"],
    "driver": "c17",
    "component": "pool.PeerPool(rendezvous)",
    "clauses": {0: "agreement: same (peer set, key) => same owner at every node",
                1: "membership: owner is one of the peers",
                2: "ranked: permutation of the peer set starting with the owner",
                3: "removal-minimal: removing p changes ownership only for p's subscribers",
                4: "health: one shared health vector => every node computes the same healthy owner; marking p unhealthy moves only p's subscribers"},
    "rule": "a case = 1-3 real PeerPool nodes configured with permutations of one peer multiset (names: arbitrary byte strings incl. prefixes, empty, duplicates) and a random op sequence (AddPeer/RemovePeer/SetHealth/GetOwner/IsLocalOwner/ranked/healthy owner, queries fanned out to every node); distinct = distinct case terms",
    "assumptions": [
        "sort.Slice in rendezvousRanked is unstable; Model is a stable sort; they can differ only on a 64-bit score tie between two peer names (not exhibited)",
        "guards scores_pos / scores_inj of the _partial theorems: a zero or colliding 64-bit score is not exhibited by the Model",
        "HTTP forwarding between peers, health-check loop timing and LocalPool address choice are outside this Model (LocalPool is covered under C01)",
    ],
    "modelled": ["pkg/pool/peer.go: NewPeerPool peer-list normalisation, AddPeer, RemovePeer, GetOwner, IsLocalOwner, rendezvousHash, rendezvousRanked, hashString, hashCombine, getHealthyOwner"],
}

MANIFEST = {
    "text": "Ownership is a pure function of (peer multiset, subscriber id): the Model of pkg/pool/peer.go (FNV-1a + Wang mixer with explicit 2^64 wrap, sort.Strings, strict first-max fold, ranked sort, health fallback) carries theorems for every peer list, every order and every id: order-invariance of the node list and owner, AddPeer order-invariance, ranked list is a permutation starting with the owner, removal/unhealthy minimality, agreement of all healthy nodes; the full agreement-under-health clause is refuted by a vm_compute witness that the check replays on the real code (known finding K17a). The Model is evaluated inside Coq on traces recorded from real PeerPool objects on every run.",
    "note": "Theorems are about the hand-written Model; the tie to pkg/pool/peer.go is the differential run (sampled). Guards: non-zero and pairwise-distinct 64-bit scores for the _partial theorems. HTTP forwarding, health-check timing, sort.Slice instability on score ties are outside the Model.",
    "technique": "Rocq proof (induction over lists / sorted-permutation uniqueness / arg-max fold lemmas) + differential correspondence with vm_compute evaluation of the Model and a trace monitor",
    "design_ref": "DESIGN.md §8 C17",
}
