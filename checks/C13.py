SPEC = {
    "props": "Props/C13.v",
    "check_vo": ["Model/HaSyncCheck.vo"],
    "driver": "c13",
    "component": "ha.HASyncer (message layer)",
    "clauses": {0: "after_full_sync_equal", 1: "stream_applies_in_order", 2: "quiescent_convergence",
                3: "no_change_lost_while_connected", 9: "malformed observation"},
    "rule": "a case = one schedule of session adds/updates/deletes on a real active HASyncer, broadcast-loop iterations, heartbeats, real performFullSync over loopback HTTP, stream attach (real handleSessionStream into a driver-owned blocking writer), deliveries into the real handleSSEData and disconnects; both stores, the received map, queue lengths and the message concerned are observed after every operation; distinct = distinct case terms",
    "assumptions": [
        "message-layer streams: standbyLoop / connectToStream are replaced by the driver's schedule and TCP buffering by the blocking writer (one message in flight); the e2e stream runs the real standbyLoop/connectToStream/broadcastLoop over loopback HTTP with FullSyncInterval at its default and only the reconnect backoff shortened, observing the stores at bounded-poll quiescence",
        "e2e link cuts are orderly closes (503 gate + CloseClientConnections), not packet loss; the periodic full-sync ticker (5 min) never fires within a case",
        "the full sync is one atomic step of the schedule (active-side operations between snapshot and application commute with the application)",
        "guard of the _partial theorems: lossless = no change broadcast to nobody between a full sync and the stream attach, no overflow of the client channel or the pending queue",
        "a single standby; TLS not exercised",
    ],
    "modelled": ["pkg/ha/sync.go: PushChange, broadcastToClients (one broadcastLoop iteration), handleGetSessions, handleSessionStream (channel + in-flight write), performFullSync, handleSSEData",
                 "pkg/ha/store.go InMemorySessionStore; pkg/ha/protocol.go SyncMessage encode/decode (through the real code; projected)"],
    "driver_timeout": 3000,
}

MANIFEST = {
    "text": "The HA sync message layer (active store, pending-change queue, client channel with the code's drop-on-full, link state, standby store and received map) is a Gallina state machine. Over ALL schedules and queue capacities: a completed full sync leaves the standby equal to the snapshot (after fix ff081a5: full sync used to keep sessions deleted while the standby was away); pushed changes leave the queue and reach the standby in push order and each delivery applies exactly its message; quiescent convergence (link up, queues empty => tables equal) is proved for every schedule in which no change is lost on the way and refuted otherwise by machine-checked witnesses that the check replays on the real code: a change broadcast between the snapshot and the stream attach (known finding K13b), channel/queue overflow (K13c). The same monitor runs on traces of two real HASyncers on every run, and an end-to-end stream runs the real standby loop through forced disconnects with changes during the outage (reconnect = full sync then stream, as in the Model).",
    "note": "Theorems are about the hand-written Model; the tie is the differential run at the message layer (real PushChange / broadcastToClients / handleGetSessions / handleSessionStream / performFullSync over loopback HTTP / handleSSEData). standbyLoop, connectToStream's reader, reconnect timing and TCP buffering are outside the Model.",
    "technique": "Rocq proof (monitor state = projection of Model state; per-step clause lemmas; queue/last-message invariant lifted over all operation lists) + differential correspondence with vm_compute evaluation of Model and monitor",
    "design_ref": "DESIGN.md §8 C13",
}
